#!/bin/sh
# Build the whole Coq development from files on disk (offline). Regenerates coq/Gen from /repo first.
set -e
cd "$(dirname "$0")"
mkdir -p coq/Gen coq/cases work replay evidence
/venv/bin/python - <<'PY'
import sys, os
sys.path.insert(0, os.path.join(os.getcwd(), "tools"))
import vlib
for k, (rc, out) in vlib.translate_all().items():
    print("translate", k, "rc", rc)
    if rc != 0:
        print(out)
vlib.ensure_makefile()
rc, out, wall = vlib.make([], jobs=16)
print(out[-3000:])
print("make rc", rc, "wall %.0fs" % wall)
sys.exit(rc)
PY

(* Property C01: evaluation returns the value of the expression the stack encodes.
   The 17 per-operator forward rules and the node tables are TRANSLATED from the current source (Gen/OpEval.v, Gen/OpDefs.v);
   all theorems hold over ANY algebra of values (reals, IEEE doubles, symbolic terms). *)
From Coq Require Import ZArith List Bool.
From Bingo Require Import Lib.Alg Gen.OpDefs Gen.OpEval Model.Stack Proofs.StackProofs Proofs.ReduceProofs.
Import ListNotations.
Local Open Scope Z_scope.

(* 1. row by row, the forward pass computes the value of the expression that row denotes (load / + - * / sin cos exp
      log|.| pow |.| sqrt|.| |.|^p sinh cosh over earlier rows); shared rows are computed once and agree with the
      tree in which they are duplicated *)
Theorem C01_forward_pass_is_the_denotation :
  forall (V : Type) (A : alg V) (s : stack) (xv cv : Z -> V),
  forward A s xv cv = map (sem A xv cv) (denote_all s).
Proof. intros. apply forward_is_denotation. Qed.
Print Assumptions C01_forward_pass_is_the_denotation.

(* 2. evaluation over M data rows returns M values, entry r being the value of the expression denoted by the last
      command at data row r *)
Theorem C01_evaluate_returns_one_value_per_data_row :
  forall (V : Type) (A : alg V) D (s : stack) (X : list (Z -> V)) (cv : Z -> V), wf D s = true ->
  length (evaluate A s X cv) = length X /\
  evaluate A (reduce_stack s) X cv = evaluate A s X cv /\
  forall r xv, nth_error X r = Some xv -> nth_error (evaluate A s X cv) r = Some (sem A xv cv (denote s)).
Proof. intros. eapply evaluate_rows; eauto. Qed.
Print Assumptions C01_evaluate_returns_one_value_per_data_row.

(* 3. the marking of get_utilized_commands: the last command is marked and the marked set is closed under
      "operand of a marked operator command" *)
Theorem C01_utilized_is_closed_from_the_last_command :
  forall D (s : stack), wf D s = true ->
  let u := utilized s in
  length u = length s /\ nth (length s - 1) u false = true /\
  forall i, (0 < i < length s)%nat -> nth i u false = true ->
    let c := nth i s dflt_cmd in is_terminal (node_of c) = false ->
    nth (Z.to_nat (p1_of c)) u false = true /\
    (is_arity_2 (node_of c) = true -> nth (Z.to_nat (p2_of c)) u false = true).
Proof.
  intros D s W. apply utilized_closed; [eapply wf_operands_ok; eauto|intros ->; discriminate].
Qed.
Print Assumptions C01_utilized_is_closed_from_the_last_command.

(* 4. reduce_stack: the reduced stack denotes the SAME expression tree, with as many rows as utilized commands *)
Theorem C01_reduce_stack_preserves_the_expression :
  forall D (s : stack), wf D s = true ->
  denote (reduce_stack s) = denote s /\ length (reduce_stack s) = count_true (utilized s).
Proof. exact reduce_stack_sound. Qed.
Print Assumptions C01_reduce_stack_preserves_the_expression.

(* 5. commands the last command does not depend on never influence the result *)
Theorem C01_unused_commands_never_influence_the_result :
  forall D (s s' : stack), wf D s = true -> wf D s' = true -> length s = length s' ->
  utilized s = utilized s' ->
  (forall i, nth i (utilized s) false = true -> nth i s dflt_cmd = nth i s' dflt_cmd) ->
  denote s = denote s'.
Proof. exact unused_commands_irrelevant. Qed.
Print Assumptions C01_unused_commands_never_influence_the_result.

(* non-vacuity: sharing (row 2 used twice), an unused row (3), a unary row with a stray second parameter *)
Example C01_example :
  let s : stack := [(VARIABLE, 0, 0); (CONSTANT, 0, 0); (MULTIPLICATION, 0, 1); (INTEGER, 7, 7); (SIN, 2, 0); (ADDITION, 4, 2)] in
  wf 1 s = true /\ utilized s = [true; true; true; false; true; true] /\
  reduce_stack s = [(VARIABLE, 0, 0); (CONSTANT, 0, 0); (MULTIPLICATION, 0, 1); (SIN, 2, 2); (ADDITION, 3, 2)] /\
  denote s = EOp2 ADDITION (EOp1 SIN (EOp2 MULTIPLICATION (EX 0) (EC 0))) (EOp2 MULTIPLICATION (EX 0) (EC 0)).
Proof. vm_compute. repeat split; reflexivity. Qed.

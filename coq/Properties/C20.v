(* Property C20: implicit regression - exact cubic derivatives, scale-invariant fitness.
   Everything is over exact rationals; Gen/SavGol.v is regenerated from implicit_regression.py on every run,
   so the weight table below is recomputed from the current source. *)
From Coq Require Import ZArith QArith Qabs List Bool.
From Bingo Require Import Gen.SavGol Model.Implicit Proofs.ImplicitProofs.
Import ListNotations.
Local Open Scope Z_scope.

(* 0. the translated recursion is never cut short by its fuel for polynomial order <= 3 *)
Theorem C20_gram_recursion_fuel_is_enough :
  forall i m k s, k <= sg_order -> forall extra,
  gram_polynomial gp_fuel i m k s = gram_polynomial (extra + gp_fuel) i m k s.
Proof. exact gram_polynomial_fuel_enough. Qed.
Print Assumptions C20_gram_recursion_fuel_is_enough.

(* 1. the centre column of the (window 7, order 3, first derivative) table is [22 -67 -58 0 58 67 -22]/252 *)
Theorem C20_centre_weights :
  map (fun k => Wt k 3) ks = [11 # 126; -67 # 252; -29 # 126; 0; 29 # 126; 67 # 252; -11 # 126]%Q
  /\ sg_window = 7 /\ sg_order = 3 /\ sg_deriv = 1 /\ trim_front = 3 /\ trim_back = 4.
Proof. repeat split; reflexivity. Qed.

(* 2. every column of the table - the centre one and the six asymmetric boundary ones - returns the exact
      derivative of any cubic at its own offset *)
Theorem C20_every_column_is_exact_on_cubics :
  forall a b c d (w : Z), 0 <= w <= 6 -> forall i : Q,
  (sumq (map (fun k => cubic a b c d (i + inject_Z k) * Wt k w) ks) == cubic' b c d (i + inject_Z (w - 3)))%Q.
Proof. exact column_exact. Qed.
Print Assumptions C20_every_column_is_exact_on_cubics.

(* 3. the filter applied to a cubic trajectory of any length >= 7 never indexes outside the trajectory and
      returns the exact derivative at EVERY sample *)
Theorem C20_filter_is_exact_on_cubic_trajectories :
  forall a b c d L, (7 <= L)%nat ->
  exists f, sg_filter (cubic_samples a b c d L) = Some f /\
            Forall2 Qeq f (map (fun i => cubic' b c d (inject_Z i)) (zrange 0 (Z.of_nat L))).
Proof. exact sg_filter_cubic. Qed.
Print Assumptions C20_filter_is_exact_on_cubic_trajectories.

(* 4. _calculate_partials, one column, any number of NaN-separated trajectories each a (different) cubic:
      the retained x rows are the original rows minus 3 leading / 4 trailing per trajectory, and the retained
      derivative rows are exactly the derivatives of the respective cubic *)
Theorem C20_partials_exact_on_cubics :
  forall mask col (coef : nat * nat -> Q * Q * Q * Q),
  Forall (fun se => (7 <= snd se - fst se)%nat /\
                    let '(a, b, c, d) := coef se in slice col (fst se) (snd se) = cubic_samples a b c d (snd se - fst se))
         (segments mask 0 0) ->
  exists xs ds, partials_col mask col = Some (xs, ds) /\
    xs = concat (map (fun se => trim (slice col (fst se) (snd se))) (segments mask 0 0)) /\
    Forall2 Qeq ds (concat (map (seg_deriv coef) (segments mask 0 0))).
Proof. exact partials_exact_on_cubics. Qed.
Print Assumptions C20_partials_exact_on_cubics.

Theorem C20_retained_rows :
  forall mask, retained_rows mask
  = concat (map (fun se => seq (fst se + 3) (snd se - fst se - 7)) (segments mask 0 0)).
Proof. exact retained_rows_spec. Qed.

(* 5. samples of one trajectory never influence another *)
Theorem C20_trajectories_are_isolated :
  forall col1 col2 s e, slice col1 s e = slice col2 s e ->
  sg_filter (slice col1 s e) = sg_filter (slice col2 s e) /\ trim (slice col1 s e) = trim (slice col2 s e).
Proof. exact trajectory_contribution_is_local. Qed.

(* 6. the fitness: in [0,1] whenever it is a number; unchanged under multiplication of the equation by any
      non-zero constant (number or not); zero for an exact invariant *)
Theorem C20_fitness_in_unit_interval :
  forall rows f, implicit_fitness rows = Some f -> (0 <= f /\ f <= 1)%Q.
Proof. exact implicit_fitness_range. Qed.
Print Assumptions C20_fitness_in_unit_interval.

Theorem C20_fitness_scale_invariant :
  forall a rows, ~ (a == 0)%Q ->
  match implicit_fitness rows, implicit_fitness (map (map (Qmult a)) rows) with
  | Some f, Some f' => (f' == f)%Q
  | None, None => True
  | _, _ => False
  end.
Proof. exact implicit_fitness_scale_invariant. Qed.
Print Assumptions C20_fitness_scale_invariant.

Theorem C20_exact_invariant_has_fitness_zero :
  forall rows f, implicit_fitness rows = Some f -> Forall (fun dots => (sumq dots == 0)%Q) rows -> (f == 0)%Q.
Proof. exact implicit_fitness_invariant. Qed.
Print Assumptions C20_exact_invariant_has_fitness_zero.

(* non-vacuity: two NaN-separated cubic trajectories *)
Example C20_example :
  let col := cubic_samples 1 2 0 1 9 ++ [0%Q] ++ cubic_samples 0 0 1 0 8 in
  let mask := repeat false 9 ++ [true] ++ repeat false 8 in
  segments mask 0 0 = [(0, 9); (10, 18)]%nat /\ retained_rows mask = [3; 4; 13]%nat /\
  option_map (fun p => map Qred (snd p)) (partials_col mask col) = Some [29 # 1; 50 # 1; 6 # 1]%Q.
Proof. vm_compute. repeat split; reflexivity. Qed.

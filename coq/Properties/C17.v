(* Property C17: (a) parallel evaluation equals serial evaluation - theorem;
   (b) seeded runs are reproducible across interpreter processes - PARTIAL: the one hash-seed dependent
   construct in the fit path (iteration over a set of operator names) is modelled and, after fix F8,
   proved order-independent; that nothing else in CPython/numpy/scipy varies between processes is not
   a theorem and is covered by a subprocess test only. *)
From Coq Require Import ZArith List Bool Arith Permutation.
From Bingo Require Import Model.EvalPhase Proofs.EvalPhaseProofs Proofs.SortProofs.
Import ListNotations.

(* (a) for every population, flag pattern, local-optimization oracle and completion order, evaluating
   with worker processes leaves in every slot the same genome, fitness and flag as serial evaluation
   and reports the same evaluation count *)
Theorem C17_multiprocess_equals_serial :
  forall (G F : Type) (fit : G -> F) (opt : G -> G) (k : G -> nat) red perm fresh c pop,
  let '(cm, popm, wg) := multiprocess_eval G F fit opt k red perm fresh c pop in
  let '(cs, pops) := serial_eval G F fit opt k red c pop in
  count cm = count cs /\
  map (fun i => (genome G F i, fitness G F i, fit_set G F i)) popm
  = map (fun i => (genome G F i, fitness G F i, fit_set G F i)) pops /\
  count cm - count c = wg.
Proof. exact multi_equals_serial. Qed.
Print Assumptions C17_multiprocess_equals_serial.

Theorem C17_completion_order_is_irrelevant :
  forall (G F : Type) (fit : G -> F) (opt : G -> G) (k : G -> nat) red perm1 perm2 fresh c pop,
  multiprocess_eval G F fit opt k red perm1 fresh c pop = multiprocess_eval G F fit opt k red perm2 fresh c pop.
Proof. exact multi_independent_of_completion_order. Qed.
Print Assumptions C17_completion_order_is_irrelevant.

(* (b) operator registration (after fix F8): a set-valued operator collection is registered in sorted
   order, so any two enumeration orders of the same set give the same sampling table *)
Theorem C17_operator_table_independent_of_set_order :
  forall l1 l2 : list Z, Permutation l1 l2 -> isort l1 = isort l2.
Proof. exact isort_order_independent. Qed.
Print Assumptions C17_operator_table_independent_of_set_order.

From Coq Require Import List.
Theorem C08_placeholder : True. Proof. exact I. Qed.

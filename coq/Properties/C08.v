(* Property C08: selection returns only members of its input and obeys its dominance rule.
   Statements only; proofs are in Proofs/SelectionProofs.v. *)
From Coq Require Import ZArith List Bool Arith Permutation.
From Bingo Require Import Model.Best Model.Selection Model.SelectionProb Gen.SelRules Proofs.SelectionProofs Proofs.SelectionProbProofs
  Proofs.SelRulesProofs.
Import ListNotations.
Local Open Scope nat_scope.

(* 1. age-fitness, any selection size, any target, any legal tape of index samples: the caller's list is
      permuted in place, the result is a prefix of it, at least [target] and at most the input size *)
Theorem C08_age_fitness_returns_members_in_number :
  forall sel pop target tape ret after,
  age_fitness sel pop target tape = Ok (ret, after) ->
  Permutation after pop /\ (exists k, ret = firstn k after) /\ target <= length ret <= length pop.
Proof. exact age_fitness_spec. Qed.
Print Assumptions C08_age_fitness_returns_members_in_number.

(* 2. the removal decision of one scan: every index chosen for removal was sampled, and is NaN or is
      dominated (no older, no worse, both non-NaN) by a sampled index that SURVIVES this scan; no more
      than the number still needed are chosen *)
Theorem C08_age_fitness_removal_justified :
  forall sel inds pop needed, NoDup inds -> 1 <= needed ->
  let s := find_inds_for_removal sel inds pop needed in
  (forall r, In r s -> In r inds /\
     (sfit (getp pop r) = None \/
      exists w, In w inds /\ ~ In w s /\
        exists fw fr, sfit (getp pop w) = Some fw /\ sfit (getp pop r) = Some fr /\
                      (sage (getp pop w) <= sage (getp pop r))%Z /\ (fw <= fr)%Z)) /\
  NoDup s /\ length s <= needed.
Proof. exact find_inds_spec. Qed.
Print Assumptions C08_age_fitness_removal_justified.

(* 3. tournament (after fix F6): exactly [target] winners, each a member of its own sample, nobody in
      the sample strictly fitter, NaN only if the whole sample is NaN *)
Theorem C08_tournament_winner_is_least :
  forall size pop target tape ws, tournament size pop target tape = Ok ws ->
  length ws = target /\
  Forall2 (fun w cell =>
     length cell = size /\ In w cell /\ w < length pop /\
     (forall m, In m cell -> klt (sfit (getp pop m)) (sfit (getp pop w)) = false) /\
     (sfit (getp pop w) = None -> forall m, In m cell -> sfit (getp pop m) = None))
   ws (firstn target tape).
Proof. exact tournament_spec. Qed.
Print Assumptions C08_tournament_winner_is_least.

(* 4. deterministic crowding (after fix F5): exactly [target]; slot j holds parent j unless its
      distance-paired child is strictly better or the parent is NaN *)
Theorem C08_crowding_replaces_only_by_better_paired_child :
  forall pop target close out, crowding pop target close = Ok out ->
  let h := Nat.div (length pop) 2 in
  length out = target /\ target <= h /\
  forall j, j < target ->
    let par := getp pop j in let ch := getp pop (h + paired j close) in
    nth j out dflt = par \/
    (nth j out dflt = ch /\ (sfit par = None \/ klt (sfit ch) (sfit par) = true)).
Proof.
  intros pop target close out H. destruct (crowding_spec _ _ _ _ H) as (H1 & H2 & H3).
  split; [exact H1|]. split; [exact H2|]. intros j Hj. cbn zeta. rewrite (H3 j Hj).
  apply most_fit_det_spec.
Qed.
Print Assumptions C08_crowding_replaces_only_by_better_paired_child.

(* 5. probabilistic tournament (the searchsorted index is an oracle): exactly [target] winners, each a
      member of its own sample of [size] distinct members of the population, for every index the float
      arithmetic may produce (an index outside the sample is an IndexError, never a stranger) *)
Theorem C08_probabilistic_tournament_returns_members_in_number :
  forall size pop target tape ws, ptournament size pop target tape = Ok ws ->
  length ws = target /\
  Forall2 (fun w cp => length (fst cp) = size /\ In w (fst cp) /\ w < length pop) ws (firstn target tape).
Proof. exact ptournament_spec. Qed.
Print Assumptions C08_probabilistic_tournament_returns_members_in_number.

(* 6. probabilistic crowding (the coin [random() < prob] is an oracle): exactly [target]; slot j holds
      parent j or its distance-paired child whatever the coins; the child when the parent is NaN, the
      parent when only the child is NaN *)
Theorem C08_probabilistic_crowding_keeps_parent_or_paired_child :
  forall pop target close coins out, pcrowding pop target close coins = Ok out ->
  let h := Nat.div (length pop) 2 in
  length out = target /\ target <= h /\
  forall j, j < target ->
    let par := getp pop j in let ch := getp pop (h + paired j close) in
    (nth j out dflt = par \/ nth j out dflt = ch) /\
    (sfit par = None -> nth j out dflt = ch) /\
    (sfit par <> None -> sfit ch = None -> nth j out dflt = par).
Proof. exact pcrowding_spec. Qed.
Print Assumptions C08_probabilistic_crowding_keeps_parent_or_paired_child.

(* 7. the tie by translation: the decision rules of the models above ARE the rules the current source states
      (Gen/SelRules.v is regenerated from bingo/selection/*.py on every run by tools/translate/tr_selection.py) *)
Theorem C08_model_decision_rules_are_the_source_rules :
  (forall a b, first_not_dominated a b = gen_first_not_dominated a b) /\
  (forall pop i1 i2 s, update_removal_set pop i1 i2 s = gen_update_removal_set pop i1 i2 s) /\
  (forall pop i1 i2, streamlined_pair pop i1 i2 = gen_streamlined_pair pop i1 i2) /\
  (forall child parent, most_fit_det child parent = gen_most_fit_det child parent) /\
  (forall child parent coins, most_fit_prob child parent coins =
     match gen_most_fit_prob_guard child parent with
     | Some x => Ok (x, coins)
     | None => match coins with
               | [] => BadTape
               | None :: _ => Raises
               | Some c :: r => Ok (gen_most_fit_prob_coin c child parent, r)
               end
     end) /\
  (forall member winner r i best,
     scan_go (sfit member :: r) i best (sfit winner) =
     if gen_tournament_takes member winner then scan_go r (S i) i (sfit member) else scan_go r (S i) best (sfit winner)).
Proof.
  split; [exact first_not_dominated_is_source|]. split; [exact update_removal_set_is_source|].
  split; [exact streamlined_pair_is_source|]. split; [exact most_fit_det_is_source|].
  split; [exact most_fit_prob_is_source|exact scan_step_is_source].
Qed.
Print Assumptions C08_model_decision_rules_are_the_source_rules.

(* non-vacuity: concrete runs reach Ok with removals, NaN, ties *)
Example C08_example :
  age_fitness 2 [mkInd 0 1 (Some 5); mkInd 1 0 (Some 3); mkInd 2 2 None; mkInd 3 0 (Some 3)]%Z 2
              [[0;1]; [0;2]]
  = Ok ([mkInd 3 0 (Some 3); mkInd 1 0 (Some 3)], [mkInd 3 0 (Some 3); mkInd 1 0 (Some 3); mkInd 2 2 None; mkInd 0 1 (Some 5)])%Z
  /\ tournament 2 [mkInd 0 0 None; mkInd 1 0 (Some 4); mkInd 2 0 (Some 1)]%Z 2 [[0;1];[1;2]] = Ok [1; 2]
  /\ crowding [mkInd 0 0 (Some 2); mkInd 1 0 None; mkInd 2 0 (Some 1); mkInd 3 0 (Some 7)]%Z 2 [false]
     = Ok [mkInd 0 0 (Some 2); mkInd 2 0 (Some 1)]%Z
  /\ ptournament 2 [mkInd 0 0 None; mkInd 1 0 (Some 4); mkInd 2 0 None]%Z 2 [([0;2], 0); ([1;2], 0)] = Ok [0; 1]
  /\ pcrowding [mkInd 0 0 (Some 2); mkInd 1 0 None; mkInd 2 0 (Some 1); mkInd 3 0 (Some 7)]%Z 2 [false] [Some false]
     = Ok [mkInd 0 0 (Some 2); mkInd 2 0 (Some 1)]%Z.
Proof. vm_compute. repeat split; reflexivity. Qed.

(* Property C12: parallel archipelago evolution terminates cleanly under every interleaving.
   One non-blocking evolve call as a transition system over n >= 1 ranks (Model/ParArch.v); a schedule is ANY list of ranks (ranks
   whose next call blocks are skipped) - so every theorem below holds for every interleaving, every number of ranks, every sync
   frequency >= 0, every target, every initial island ages >= 0.
   Liveness: (a) no reachable state is stuck; (b) from every reachable state SOME continuation lets every rank return (a
   lexicographic measure decreases along a suitably chosen enabled step) - the protocol has no trap; (c) under EVERY interleaving
   rank 0 goes round its loop at most deficit-many times (reported ages only grow), so the loop phase can only be prolonged by a
   drain that never finds the mailbox empty; (d) under the pacing premise, made precise as PACED ROUNDS (every rank at least one
   turn per round, the helpers fewer than n turns, rank 0 at least 2 * helper turns + 1), every continuation of Omega(state)
   rounds from every reachable state completes the call, with an explicit bound from the start; (e) once rank 0 has left its
   loop, every round-robin continuation (rounds = permutations of the ranks) completes within Phi(state) rounds with no pacing
   premise.  What stays PARTIAL (theorems named _partial): fairness notions weaker than rounds (e.g. "every rank moves
   infinitely often" with an eventual-rate premise) are not covered.  Blocking mode sends no message (island.evolve(n) on every
   rank): nothing to interleave. *)
From Coq Require Import ZArith List Bool Lia.
From Bingo Require Import Model.ParArch Proofs.ParArchProofs Proofs.ParArchLive Proofs.ParArchFair Proofs.ParArchLoop.
Import ListNotations.

Theorem C12_every_reachable_state_satisfies_the_protocol_invariant :
  forall n sync target, (1 <= n)%nat -> (0 <= sync)%Z -> forall ages arch_age sched,
  length ages = n -> (forall k, (k < n)%nat -> (0 <= nth k ages 0)%Z) ->
  ((target <= arch_age)%Z -> (target * Z.of_nat n <= sum_list ages)%Z) ->
  Inv n target (run n sync target sched (init n target ages arch_age)).
Proof. intros n sync target Hn Hs ages arch_age sched L N G. eapply run_inv; eauto. eapply init_inv; eauto. Qed.
Print Assumptions C12_every_reachable_state_satisfies_the_protocol_invariant.

(* no deadlock: a state satisfying the invariant is final, or some rank can perform its next call *)
Theorem C12_no_reachable_state_is_stuck :
  forall n sync target, (1 <= n)%nat -> forall s, Inv n target s ->
  final s = true \/ exists r, (r < n)%nat /\ step n sync target s r <> None.
Proof. intros n sync target Hn s HI. eapply deadlock_free; eauto. Qed.
Print Assumptions C12_no_reachable_state_is_stuck.

(* clean exit: when every rank has returned, no AGE_UPDATE message is pending at rank 0 and no EXIT_NOTIFICATION anywhere *)
Theorem C12_no_message_is_left_behind :
  forall n target s, (1 <= n)%nat -> Inv n target s -> final s = true ->
  mbox s = [] /\ forall k, (k < n)%nat -> nth k (exitf s) false = false.
Proof. intros n target s Hn HI Fn. eapply clean_exit; eauto. Qed.
Print Assumptions C12_no_message_is_left_behind.

(* the age target: at return the island ages sum to at least n * (generational_age + num_steps) *)
Theorem C12_mean_island_age_reaches_the_target :
  forall n target s, (1 <= n)%nat -> Inv n target s -> final s = true -> (target * Z.of_nat n <= sum_list (age s))%Z.
Proof. intros n target s Hn HI Fn. eapply target_met; eauto. Qed.
Print Assumptions C12_mean_island_age_reaches_the_target.

(* every age rank 0 has been told, and every age still in flight, is a lower bound of the sender's current age *)
Theorem C12_reported_ages_are_lower_bounds :
  forall n target s, Inv n target s ->
  Forall (fun m => (1 <= fst m < n)%nat /\ (snd m <= age_of s (fst m))%Z) (mbox s) /\
  forall k v, (k < n)%nat -> nth k (total s) None = Some v -> (v <= age_of s k)%Z.
Proof. intros n target s HI. split; [apply (i_mbox n target s HI)|apply (i_total n target s HI)]. Qed.
Print Assumptions C12_reported_ages_are_lower_bounds.

(* no trap: whatever the ranks have done so far (any schedule prefix), the call can still complete on every rank.
   (sync >= 1: the effective sync frequency; arch_age >= 0: the archipelago's generational age) *)
Theorem C12_from_every_reachable_state_the_call_can_still_complete_partial :
  forall n sync target, (1 <= n)%nat -> (1 <= sync)%Z -> forall ages arch_age sched,
  length ages = n -> (forall k, (k < n)%nat -> (0 <= nth k ages 0)%Z) ->
  ((target <= arch_age)%Z -> (target * Z.of_nat n <= sum_list ages)%Z) -> (0 <= arch_age)%Z ->
  exists more, final (run n sync target (sched ++ more) (init n target ages arch_age)) = true.
Proof. intros n sync target Hn Hs ages arch_age sched. apply reachable_can_finish; assumption. Qed.
Print Assumptions C12_from_every_reachable_state_the_call_can_still_complete_partial.

(* fair termination, second phase: from any reachable state in which rank 0 is past its loop (sending exit notifications, in the
   barrier, draining, or done), Phi(s) rounds - each a permutation of all ranks, in any order - end with every rank returned *)
Theorem C12_after_the_loop_every_round_robin_continuation_completes_partial :
  forall n sync target, (1 <= n)%nat -> (0 <= sync)%Z -> forall s rounds,
  Inv n target s -> post_loop (pc_of s 0) = true ->
  Forall (fun l => Permutation.Permutation l (seq 0 n)) rounds -> (Phi n s <= length rounds)%nat ->
  final (run n sync target (concat rounds) s) = true.
Proof. intros n sync target Hn Hs s rounds HI PL F B. apply (late_rounds_finish n sync target Hn Hs rounds s (conj HI PL) F B). Qed.
Print Assumptions C12_after_the_loop_every_round_robin_continuation_completes_partial.

(* fair termination, first phase, every interleaving: the reported ages only grow, so along ANY schedule from any reachable state
   rank 0 performs at most deficit-many evolve slices (deficit = n * target - sum of the ages reported so far): the loop can only
   fail to end through a drain that never finds the mailbox empty - the situation the property's pacing premise excludes *)
Theorem C12_under_every_interleaving_rank0_goes_round_its_loop_at_most_deficit_times :
  forall n sync target, (1 <= n)%nat -> (1 <= sync)%Z -> forall ages arch_age sched more,
  length ages = n -> (forall k, (k < n)%nat -> (0 <= nth k ages 0)%Z) ->
  ((target <= arch_age)%Z -> (target * Z.of_nat n <= sum_list ages)%Z) -> (0 <= arch_age)%Z ->
  let s := run n sync target sched (init n target ages arch_age) in
  (evolves0 n sync target more s <= Z.to_nat (target * Z.of_nat n - sum_total (total s)))%nat.
Proof.
  intros n sync target Hn Hs ages arch_age sched more L N G A0 s.
  apply (loop_iterations_bounded_IG n sync target Hn Hs more s). apply run_IG; [exact Hn|exact Hs|]. apply init_IG; assumption.
Qed.
Print Assumptions C12_under_every_interleaving_rank0_goes_round_its_loop_at_most_deficit_times.

(* fair termination under the pacing premise: after ANY schedule prefix, every sequence of paced rounds - in each round every rank
   gets at least one turn, the helpers fewer than n turns altogether, and rank 0 at least twice as many turns as the helpers plus
   one (a helper needs three calls per age update, rank 0 two calls to receive one), in any order - of length Omega(state) ends
   with every rank returned.  Omega = 2 * (2 * deficit + 2 * pending messages + flag) + K while rank 0 is in its loop, Phi after. *)
Theorem C12_every_paced_round_robin_continuation_completes_the_call :
  forall n sync target, (1 <= n)%nat -> (1 <= sync)%Z -> forall ages arch_age sched rounds,
  length ages = n -> (forall k, (k < n)%nat -> (0 <= nth k ages 0)%Z) ->
  ((target <= arch_age)%Z -> (target * Z.of_nat n <= sum_list ages)%Z) -> (0 <= arch_age)%Z ->
  Forall (fun l => Forall (fun r => r < n)%nat l /\ (forall q, (q < n)%nat -> In q l) /\ (helpers l + 1 <= n)%nat /\
                   (2 * helpers l + 1 <= count0 l)%nat) rounds ->
  (Omega n target (run n sync target sched (init n target ages arch_age)) <= length rounds)%nat ->
  final (run n sync target (sched ++ concat rounds) (init n target ages arch_age)) = true.
Proof.
  intros n sync target Hn Hs ages arch_age sched rounds L N G A0 F B.
  apply (reachable_paced_finish n sync target Hn Hs ages arch_age sched rounds L N G A0); [|exact B].
  eapply Forall_impl; [|exact F]. intros l (H1 & H2 & H3 & H4). split; [split; [exact H1|split; [exact H2|exact H3]]|exact H4].
Qed.
Print Assumptions C12_every_paced_round_robin_continuation_completes_the_call.

(* ... and from the start of the call an explicit number of paced rounds suffices: 4 n target + 6n(n+5) + 20n + 2 *)
Theorem C12_from_the_start_an_explicit_number_of_paced_rounds_suffices :
  forall n sync target, (1 <= n)%nat -> (1 <= sync)%Z -> forall ages arch_age rounds,
  length ages = n -> (forall k, (k < n)%nat -> (0 <= nth k ages 0)%Z) ->
  ((target <= arch_age)%Z -> (target * Z.of_nat n <= sum_list ages)%Z) -> (0 <= arch_age)%Z ->
  Forall (paced n) rounds ->
  (4 * Z.to_nat (target * Z.of_nat n) + (6 * n * (n + 5) + 20 * n + 2) <= length rounds)%nat ->
  final (run n sync target (concat rounds) (init n target ages arch_age)) = true.
Proof. intros n sync target Hn Hs ages arch_age rounds L N G A0 F B. apply (init_paced_finish n sync target Hn Hs ages arch_age rounds L N G A0 F B). Qed.
Print Assumptions C12_from_the_start_an_explicit_number_of_paced_rounds_suffices.

(* REFUTED clause (known finding F13): "at return the mean island age has advanced by at least the requested number of
   generations" fails for a repeated call in which a helper's island is ahead of the archipelago's age: the loop compares the mean
   REPORTED age with generational_age + num_steps, and the helper's lead counts towards it.  Witness: two ranks, sync 2, the
   archipelago at age 2 with islands at ages 2 and 8, evolve(2): every rank returns with island ages 4 and 8 - the mean advanced by 1. *)
Theorem C12_mean_island_age_advances_by_the_requested_number_refuted :
  exists (n : nat) (sync target : Z) (ages : list Z) (arch_age : Z) (sched : list nat),
    (1 <= n)%nat /\ (1 <= sync)%Z /\ length ages = n /\ (forall k, (k < n)%nat -> (arch_age <= nth k ages 0)%Z) /\ (arch_age < target)%Z /\
    let s := run n sync target sched (init n target ages arch_age) in
    final s = true /\ (sum_list (age s) - sum_list ages < Z.of_nat n * (target - arch_age))%Z.
Proof.
  exists 2%nat, 2%Z, 4%Z, [2; 8]%Z, 2%Z, [1; 0; 0; 0; 0; 0; 0; 1; 1; 1; 0; 1; 0; 0; 0; 1; 1; 0; 0]%nat.
  split; [lia|]. split; [lia|]. split; [reflexivity|]. split; [intros [|[|k]] Hk; cbn; lia|]. split; [lia|].
  vm_compute. split; reflexivity.
Qed.
Print Assumptions C12_mean_island_age_advances_by_the_requested_number_refuted.

(* non-vacuity: three ranks, a schedule that lets the helpers run ahead, ending in the final state *)
Definition ex_sched : list nat :=
  ([1; 2; 1; 2; 0; 0; 1; 0; 0; 2; 0; 0; 0; 1; 1; 2; 2; 0; 0; 0; 1; 1; 1; 2; 2; 2; 0; 1; 2; 0; 1; 2; 0; 0] ++ repeat 0 10 ++
   [1; 1; 1; 2; 2; 2; 0; 0; 0; 0; 1; 1; 1; 2; 2; 2; 0; 0; 0; 0; 0; 0])%nat.
Example C12_example :
  let s := run 3 2 4 ex_sched (init 3 4 [1; 1; 1]%Z 1) in
  final s = true /\ mbox s = [] /\ age s = [5; 7; 7]%Z.
Proof. vm_compute. repeat split. Qed.

(* non-vacuity of the paced theorem: three ranks, the round 0 0 0 0 0 1 2 is paced, and 254 such rounds (the explicit bound for
   target 4) complete the call; 9 rounds already do *)
Definition paced_round : list nat := [0; 0; 0; 0; 0; 1; 2]%nat.
Example C12_paced_example :
  paced 3 paced_round /\ (4 * Z.to_nat (4 * 3) + (6 * 3 * (3 + 5) + 20 * 3 + 2) = 254)%nat /\
  final (run 3 2 4 (concat (repeat paced_round 254)) (init 3 4 [1; 1; 1]%Z 1)) = true /\
  final (run 3 2 4 (concat (repeat paced_round 9)) (init 3 4 [1; 1; 1]%Z 1)) = true.
Proof.
  split.
  - split; [split; [repeat constructor|split; [|cbn; lia]]|cbn; lia].
    intros [|[|[|q]]] Hq; cbn; try lia; auto 10.
  - split; [reflexivity|]. split; vm_compute; reflexivity.
Qed.

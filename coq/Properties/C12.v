(* Property C12: parallel archipelago evolution terminates cleanly under every interleaving.
   One non-blocking evolve call as a transition system over n >= 1 ranks (Model/ParArch.v); a schedule is ANY list of ranks (ranks
   whose next call blocks are skipped) - so every theorem below holds for every interleaving, every number of ranks, every sync
   frequency >= 0, every target, every initial island ages >= 0.
   Liveness is PARTIAL: proved are (a) no reachable state is stuck and (b) from every reachable state SOME continuation lets every
   rank return (a lexicographic measure decreases along a suitably chosen enabled step) - the protocol has no trap; (c) once
   rank 0 has left its loop, EVERY round-robin continuation (rounds = permutations of the ranks, in any order) completes the call
   within Phi(state) rounds, with no pacing premise.  What is not proved: that rank 0 leaves its loop under every fair schedule
   satisfying the property's pacing premise (helpers do not produce age updates faster than rank 0 drains them) - that phase is
   tested on the stand-in only - and fairness notions weaker than round-robin. Blocking mode sends no message (island.evolve(n) on every rank): nothing
   to interleave. *)
From Coq Require Import ZArith List Bool Lia.
From Bingo Require Import Model.ParArch Proofs.ParArchProofs Proofs.ParArchLive Proofs.ParArchFair.
Import ListNotations.

Theorem C12_every_reachable_state_satisfies_the_protocol_invariant :
  forall n sync target, (1 <= n)%nat -> (0 <= sync)%Z -> forall ages arch_age sched,
  length ages = n -> (forall k, (k < n)%nat -> (0 <= nth k ages 0)%Z) ->
  ((target <= arch_age)%Z -> (target * Z.of_nat n <= sum_list ages)%Z) ->
  Inv n target (run n sync target sched (init n target ages arch_age)).
Proof. intros n sync target Hn Hs ages arch_age sched L N G. eapply run_inv; eauto. eapply init_inv; eauto. Qed.
Print Assumptions C12_every_reachable_state_satisfies_the_protocol_invariant.

(* no deadlock: a state satisfying the invariant is final, or some rank can perform its next call *)
Theorem C12_no_reachable_state_is_stuck :
  forall n sync target, (1 <= n)%nat -> forall s, Inv n target s ->
  final s = true \/ exists r, (r < n)%nat /\ step n sync target s r <> None.
Proof. intros n sync target Hn s HI. eapply deadlock_free; eauto. Qed.
Print Assumptions C12_no_reachable_state_is_stuck.

(* clean exit: when every rank has returned, no AGE_UPDATE message is pending at rank 0 and no EXIT_NOTIFICATION anywhere *)
Theorem C12_no_message_is_left_behind :
  forall n target s, (1 <= n)%nat -> Inv n target s -> final s = true ->
  mbox s = [] /\ forall k, (k < n)%nat -> nth k (exitf s) false = false.
Proof. intros n target s Hn HI Fn. eapply clean_exit; eauto. Qed.
Print Assumptions C12_no_message_is_left_behind.

(* the age target: at return the island ages sum to at least n * (generational_age + num_steps) *)
Theorem C12_mean_island_age_reaches_the_target :
  forall n target s, (1 <= n)%nat -> Inv n target s -> final s = true -> (target * Z.of_nat n <= sum_list (age s))%Z.
Proof. intros n target s Hn HI Fn. eapply target_met; eauto. Qed.
Print Assumptions C12_mean_island_age_reaches_the_target.

(* every age rank 0 has been told, and every age still in flight, is a lower bound of the sender's current age *)
Theorem C12_reported_ages_are_lower_bounds :
  forall n target s, Inv n target s ->
  Forall (fun m => (1 <= fst m < n)%nat /\ (snd m <= age_of s (fst m))%Z) (mbox s) /\
  forall k v, (k < n)%nat -> nth k (total s) None = Some v -> (v <= age_of s k)%Z.
Proof. intros n target s HI. split; [apply (i_mbox n target s HI)|apply (i_total n target s HI)]. Qed.
Print Assumptions C12_reported_ages_are_lower_bounds.

(* no trap: whatever the ranks have done so far (any schedule prefix), the call can still complete on every rank.
   (sync >= 1: the effective sync frequency; arch_age >= 0: the archipelago's generational age) *)
Theorem C12_from_every_reachable_state_the_call_can_still_complete_partial :
  forall n sync target, (1 <= n)%nat -> (1 <= sync)%Z -> forall ages arch_age sched,
  length ages = n -> (forall k, (k < n)%nat -> (0 <= nth k ages 0)%Z) ->
  ((target <= arch_age)%Z -> (target * Z.of_nat n <= sum_list ages)%Z) -> (0 <= arch_age)%Z ->
  exists more, final (run n sync target (sched ++ more) (init n target ages arch_age)) = true.
Proof. intros n sync target Hn Hs ages arch_age sched. apply reachable_can_finish; assumption. Qed.
Print Assumptions C12_from_every_reachable_state_the_call_can_still_complete_partial.

(* fair termination, second phase: from any reachable state in which rank 0 is past its loop (sending exit notifications, in the
   barrier, draining, or done), Phi(s) rounds - each a permutation of all ranks, in any order - end with every rank returned *)
Theorem C12_after_the_loop_every_round_robin_continuation_completes_partial :
  forall n sync target, (1 <= n)%nat -> (0 <= sync)%Z -> forall s rounds,
  Inv n target s -> post_loop (pc_of s 0) = true ->
  Forall (fun l => Permutation.Permutation l (seq 0 n)) rounds -> (Phi n s <= length rounds)%nat ->
  final (run n sync target (concat rounds) s) = true.
Proof. intros n sync target Hn Hs s rounds HI PL F B. apply (late_rounds_finish n sync target Hn Hs rounds s (conj HI PL) F B). Qed.
Print Assumptions C12_after_the_loop_every_round_robin_continuation_completes_partial.

(* REFUTED clause (known finding F13): "at return the mean island age has advanced by at least the requested number of
   generations" fails for a repeated call in which a helper's island is ahead of the archipelago's age: the loop compares the mean
   REPORTED age with generational_age + num_steps, and the helper's lead counts towards it.  Witness: two ranks, sync 2, the
   archipelago at age 2 with islands at ages 2 and 8, evolve(2): every rank returns with island ages 4 and 8 - the mean advanced by 1. *)
Theorem C12_mean_island_age_advances_by_the_requested_number_refuted :
  exists (n : nat) (sync target : Z) (ages : list Z) (arch_age : Z) (sched : list nat),
    (1 <= n)%nat /\ (1 <= sync)%Z /\ length ages = n /\ (forall k, (k < n)%nat -> (arch_age <= nth k ages 0)%Z) /\ (arch_age < target)%Z /\
    let s := run n sync target sched (init n target ages arch_age) in
    final s = true /\ (sum_list (age s) - sum_list ages < Z.of_nat n * (target - arch_age))%Z.
Proof.
  exists 2%nat, 2%Z, 4%Z, [2; 8]%Z, 2%Z, [1; 0; 0; 0; 0; 0; 0; 1; 1; 1; 0; 1; 0; 0; 0; 1; 1; 0; 0]%nat.
  split; [lia|]. split; [lia|]. split; [reflexivity|]. split; [intros [|[|k]] Hk; cbn; lia|]. split; [lia|].
  vm_compute. split; reflexivity.
Qed.
Print Assumptions C12_mean_island_age_advances_by_the_requested_number_refuted.

(* non-vacuity: three ranks, a schedule that lets the helpers run ahead, ending in the final state *)
Definition ex_sched : list nat :=
  ([1; 2; 1; 2; 0; 0; 1; 0; 0; 2; 0; 0; 0; 1; 1; 2; 2; 0; 0; 0; 1; 1; 1; 2; 2; 2; 0; 1; 2; 0; 1; 2; 0; 0] ++ repeat 0 10 ++
   [1; 1; 1; 2; 2; 2; 0; 0; 0; 0; 1; 1; 1; 2; 2; 2; 0; 0; 0; 0; 0; 0])%nat.
Example C12_example :
  let s := run 3 2 4 ex_sched (init 3 4 [1; 1; 1]%Z 1) in
  final s = true /\ mbox s = [] /\ age s = [5; 7; 7]%Z.
Proof. vm_compute. repeat split. Qed.

(* Property C16: equation strings round-trip and parse to the function they denote.
   Characters -> tokens -> postfix -> command array, for EVERY stack whose rows are scoped and whose denoted expressions are
   printable (the 6 binary and 8 unary operators of the print templates, existing constants with a finite str(float), variables
   X_k with k >= 0, any integers): the parser applied to the printer's output returns a command array whose LAST row denotes the
   printed tree with its sums re-associated to the left, constants being the printed literals in textual order, and that tree
   means what the original stack means in every algebra where a+(b+c)=(a+b)+c and a+(b-c)=(a+b)-c. *)
From Coq Require Import ZArith List Bool Lia.
From Bingo Require Import Lib.Alg Gen.OpDefs Gen.OpEval Gen.Strings Model.Stack Model.Parse Model.ParseTree Model.TermAlg Model.AGraphObj
     Proofs.ReduceProofs Proofs.ParseProofs Proofs.BuildProofs Proofs.LexProofs Proofs.PrintProofs.
Import ListNotations.

(* 1. the row-by-row printer prints the tree the stack denotes *)
Theorem C16_printer_prints_the_denoted_tree :
  forall (C : Type) (lit : C -> str) (consts : list C) (s : stack),
  s <> [] -> scoped s -> forallb (printable C lit consts) (denote_all s) = true ->
  sympy_string C lit consts s = render false (to_p C lit consts (denote s)).
Proof. exact sympy_string_tree. Qed.
Print Assumptions C16_printer_prints_the_denoted_tree.

(* 2. characters: the tokenizer (bad-substring test, both replaces, both unary-minus substitutions, padding, split, lower) maps
      the printed string to the printed tokens *)
Theorem C16_tokenizer_recovers_the_printed_tokens :
  forall (isf : str -> bool) e, text_ok e = true -> (forall t, In t (p_lits e) -> isf t = true) ->
  option_map (map (classify isf)) (tokenize (render false e)) = Some (toks e).
Proof. exact tokens_of_printed_string. Qed.
Print Assumptions C16_tokenizer_recovers_the_printed_tokens.

(* 3. tokens: the shunting-yard returns the postfix form of the tree, sums re-associated to the left *)
Theorem C16_shunting_yard_recovers_the_printed_tree :
  forall e, prec_ok e = true -> infix_to_postfix (toks e) = Some (post (recov e None)).
Proof. exact infix_to_postfix_printed. Qed.
Print Assumptions C16_shunting_yard_recovers_the_printed_tree.

(* 4. postfix: the builder (with its command dictionary) returns an array whose last row denotes the tree; literals in order *)
Theorem C16_builder_denotes_the_postfix_tree :
  forall q, q_ok q = true ->
  exists rows, build (post q) = Some (rows, q_lits q) /\ rows <> [] /\ scoped rows /\ denote rows = fst (q_expr q 0).
Proof. exact build_printed. Qed.
Print Assumptions C16_builder_denotes_the_postfix_tree.

(* 5. the whole round trip, without simplification *)
Theorem C16_print_then_parse_round_trip :
  forall (C : Type) (lit : C -> str) (consts : list C) (isf : str -> bool) (s : stack),
  s <> [] -> scoped s -> forallb (printable C lit consts) (denote_all s) = true ->
  let e := to_p C lit consts (denote s) in
  (forall t, In t (p_lits e) -> isf t = true) ->
  exists rows, parse isf (sympy_string C lit consts s) = Some (rows, q_lits (recov e None)) /\
               rows <> [] /\ scoped rows /\ denote rows = fst (q_expr (recov e None) 0).
Proof. exact print_parse_roundtrip. Qed.
Print Assumptions C16_print_then_parse_round_trip.

(* 6. ... and the parsed equation means what the printed one means *)
Theorem C16_round_trip_preserves_the_function :
  forall (C : Type) (lit : C -> str) (consts : list C) (V : Type) (A : alg V) (xv cv : Z -> V) (val : str -> V),
  (forall a b c, a_add A a (a_add A b c) = a_add A (a_add A a b) c) ->
  (forall a b c, a_add A a (a_sub A b c) = a_sub A (a_add A a b) c) ->
  (forall k, (0 <= k < Z.of_nat (length consts))%Z -> val (const_text C lit consts k) = cv k) ->
  (forall z, (z < 0)%Z -> val (dec z) = a_of_int A z) ->
  forall e0, printable C lit consts e0 = true ->
  let q := recov (to_p C lit consts e0) None in
  forall cv', (forall k, (k < length (q_lits q))%nat -> cv' (Z.of_nat k) = val (nth k (q_lits q) [])) ->
  sem A xv cv' (fst (q_expr q 0)) = sem A xv cv e0.
Proof.
  intros C lit consts V A xv cv val H1 H2 Hc Hn e0 P q cv' Hv.
  rewrite (q_expr_sem A xv val q 0 cv') by (intros k Hk; rewrite Z.add_0_l; apply Hv; exact Hk).
  unfold q. rewrite (recov_sem A xv val H1 H2 _ None). apply (to_p_sem C lit consts A xv cv val Hc Hn). exact P.
Qed.
Print Assumptions C16_round_trip_preserves_the_function.

(* 7. with simplification the statement is FALSE of the code's binding rule (known finding F3): a simplifier that meets its
      contract - the simplified stack expresses the same function for SOME constants - makes the positional re-binding in
      AGraph._update evaluate a different function. Witness: "(2.0)*((3.0)*(X_0))", the stack the parser returns for it, the
      stack the real simplifier returns for that, the literals as integers 2 and 3, at X_0 = 1. *)
Definition f3_parsed : stack := [(1, 0, 0); (1, 1, 1); (0, 0, 0); (4, 1, 2); (4, 0, 3)]%Z.
Definition f3_simplified : stack := [(1, (-1), (-1)); (0, 0, 0); (4, 0, 1)]%Z.
Definition f3_S (flag : bool) (s : stack) : stack := if flag then f3_simplified else s.
Theorem C16_round_trip_with_simplification_refuted :
  let value (obs : stack * list Z * bool) := root z_alg (fst (fst obs)) (fun _ => 1%Z) (fun k => nth (Z.to_nat k) (snd (fst obs)) 0%Z) in
  (* the simplified stack does express the parsed function: with the constant 6 *)
  root z_alg (renumber f3_simplified 0) (fun _ => 1%Z) (fun _ => 6%Z) = root z_alg f3_parsed (fun _ => 1%Z) (fun k => nth (Z.to_nat k) [2; 3]%Z 0%Z) /\
  value (fresh_observation Z 1%Z f3_S false f3_parsed [2; 3]%Z false) = 6%Z /\
  value (fresh_observation Z 1%Z f3_S true f3_parsed [2; 3]%Z false) = 2%Z.
Proof. vm_compute. repeat split. Qed.
Print Assumptions C16_round_trip_with_simplification_refuted.

(* non-vacuity: a stack with sharing, a negative integer, a safe power and two constants; its printed string; the parse *)
Definition ex_stack : stack := [(1, 0, 0); (0, 0, 0); (2, 0, 1); (-1, -2, -2); (13, 2, 3); (1, 1, 1); (3, 4, 5); (6, 6, 6)]%Z.
Definition ex_consts : list str := [[50; 46; 53]; [45; 49; 101; 45; 48; 53]]%Z.     (* "2.5", "-1e-05" *)
Example C16_example :
  scoped ex_stack /\ forallb (printable str (fun t => t) ex_consts) (denote_all ex_stack) = true /\
  sympy_string str (fun t => t) ex_consts ex_stack =
    [115; 105; 110; 40; 97; 98; 115; 40; 50; 46; 53; 32; 43; 32; 88; 95; 48; 41; 42; 42; 40; 45; 50; 41; 32; 45; 32; 40; 45; 49; 101; 45; 48; 53; 41; 41]%Z /\
  parse (fun t => existsb (str_eqb t) ([45; 50] :: ex_consts)%Z) (sympy_string str (fun t => t) ex_consts ex_stack) =
    Some ([(1, 0, 0); (0, 0, 0); (2, 0, 1); (11, 2, 2); (1, 1, 1); (10, 3, 4); (1, 2, 2); (3, 5, 6); (6, 7, 7)]%Z,
          [[50; 46; 53]; [45; 50]; [45; 49; 101; 45; 48; 53]]%Z).
Proof.
  split; [|vm_compute; repeat split].
  intros j Hj. cbn in Hj. do 8 (destruct j as [|j]; [cbn; first [left; reflexivity|right; lia]|]). lia.
Qed.

(* Property C16: equation strings round-trip and parse to the function they denote.
   Token level (this file, part 1): for every printed tree the shunting-yard yields the postfix form of the tree with sums
   re-associated to the left, the builder turns that postfix form into a command array whose LAST row denotes exactly that tree
   with the literals numbered in textual order, and the tree means what the printed tree means in every algebra where
   a + (b + c) = (a + b) + c and a + (b - c) = (a + b) - c. *)
From Coq Require Import ZArith List Bool.
From Bingo Require Import Lib.Alg Gen.OpDefs Gen.OpEval Gen.Strings Model.Stack Model.Parse Model.ParseTree
     Proofs.ReduceProofs Proofs.ParseProofs Proofs.BuildProofs.
Import ListNotations.

Theorem C16_shunting_yard_recovers_the_printed_tree :
  forall e, prec_ok e = true -> infix_to_postfix (toks e) = Some (post (recov e None)).
Proof. exact infix_to_postfix_printed. Qed.
Print Assumptions C16_shunting_yard_recovers_the_printed_tree.

Theorem C16_builder_denotes_the_postfix_tree :
  forall q, q_ok q = true ->
  exists rows, build (post q) = Some (rows, q_lits q) /\ rows <> [] /\ scoped rows /\ denote rows = fst (q_expr q 0).
Proof. exact build_printed. Qed.
Print Assumptions C16_builder_denotes_the_postfix_tree.

Theorem C16_tokens_of_a_printed_equation_parse_to_its_tree :
  forall e, p_ok e = true ->
  exists rows, infix_to_postfix (toks e) = Some (post (recov e None)) /\
               build (post (recov e None)) = Some (rows, q_lits (recov e None)) /\
               rows <> [] /\ scoped rows /\ denote rows = fst (q_expr (recov e None) 0).
Proof. exact parse_printed_tokens. Qed.
Print Assumptions C16_tokens_of_a_printed_equation_parse_to_its_tree.

Theorem C16_the_recovered_tree_means_the_printed_tree :
  forall (V : Type) (A : alg V) (xv : Z -> V) (val : str -> V),
  (forall a b c, a_add A a (a_add A b c) = a_add A (a_add A a b) c) ->
  (forall a b c, a_add A a (a_sub A b c) = a_sub A (a_add A a b) c) ->
  forall e cv, (forall k, (k < length (q_lits (recov e None)))%nat -> cv (Z.of_nat k) = val (nth k (q_lits (recov e None)) [])) ->
  sem A xv cv (fst (q_expr (recov e None) 0)) = psem A xv val e.
Proof.
  intros V A xv val H1 H2 e cv Hc.
  rewrite (q_expr_sem A xv val (recov e None) 0 cv) by (intros k Hk; rewrite Z.add_0_l; apply Hc; exact Hk).
  exact (recov_sem A xv val H1 H2 e None).
Qed.
Print Assumptions C16_the_recovered_tree_means_the_printed_tree.

(* non-vacuity: "2.5 + X_0 - (abs(X_1)**(3) + (X_0)*(2.5))" as tokens *)
Definition ex_e : pexpr :=
  PSub (PAdd (PLitc [50; 46; 53]) (PVar 0)) (PAdd (PSafe (PVar 1) (PInt 3)) (PBin MULTIPLICATION 1 false (PVar 0) (PLitc [50; 46; 53]))).
Example C16_example :
  p_ok ex_e = true /\
  (exists post_toks, infix_to_postfix (toks ex_e) = Some post_toks /\
     build post_toks = Some ([(1, 0, 0); (0, 0, 0); (2, 0, 1); (0, 1, 1); (11, 3, 3); (-1, 3, 3); (10, 4, 5); (1, 1, 1); (4, 1, 7); (2, 6, 8); (3, 2, 9)]%Z,
                             [[50; 46; 53]; [50; 46; 53]]%Z)).
Proof. split; [reflexivity|]. eexists. split; vm_compute; reflexivity. Qed.

(* Property C04: generation, mutation and crossover yield well-formed equations, parents intact.
   Random choices are a tape of integers (Model/Variation.v): the theorems hold for EVERY tape, i.e. every outcome of the random
   draws, every configuration whose operator items are operators (cfg_ok), every stack size and every parent. *)
From Coq Require Import ZArith List Bool.
From Bingo Require Import Gen.OpDefs Gen.VarConsts Model.Stack Model.AGraphObj Model.Variation Proofs.AGraphObjProofs Proofs.VariationProofs.
Import ListNotations.

(* the generator: configured size, operator rows reference earlier rows only, variables exist, operators are enabled ones *)
Theorem C04_generated_equations_are_well_formed :
  forall c, cfg_ok c = true -> forall size tape s rest, (0 < size)%nat ->
  generate c size tape = Ok s rest -> wfr c s = true /\ length s = size.
Proof. exact generate_wf. Qed.
Print Assumptions C04_generated_equations_are_well_formed.

(* each of the five mutation kinds and the dispatcher: child well formed, same size; a child that was not written to through the
   mutable view is its parent's stack (so only an unchanged child can keep the evaluated flag) *)
Theorem C04_mutants_are_well_formed :
  forall c, cfg_ok c = true -> forall parent, wfr c parent = true ->
  forall m, In m [mutate_command c parent; mutate_node c parent; mutate_parameters c parent; prune_branch parent;
                  fork_mutation c parent; mutate c parent] ->
  forall tape child wrote rest, m tape = Ok (child, wrote) rest ->
  wfr c child = true /\ length child = length parent /\ (wrote = false -> child = parent).
Proof.
  intros c Hc parent W m Hm tape child wrote rest H. cbn [In] in Hm.
  destruct Hm as [<-|[<-|[<-|[<-|[<-|[<-|[]]]]]]].
  - exact (mutate_command_spec c Hc parent W _ _ _ _ H).
  - exact (mutate_node_spec c Hc parent W _ _ _ _ H).
  - exact (mutate_parameters_spec c Hc parent W _ _ _ _ H).
  - exact (prune_branch_spec c Hc parent W _ _ _ _ H).
  - exact (fork_mutation_spec c Hc parent W _ _ _ _ H).
  - exact (mutate_spec c Hc parent W _ _ _ _ H).
Qed.
Print Assumptions C04_mutants_are_well_formed.

Theorem C04_crossover_children_are_well_formed :
  forall c p1 p2 tape c1 c2 rest, wfr c p1 = true -> wfr c p2 = true ->
  crossover p1 p2 tape = Ok (c1, c2) rest ->
  wfr c c1 = true /\ wfr c c2 = true /\ length c1 = length p1 /\ length c2 = length p1 /\ length p2 = length p1.
Proof. exact crossover_spec. Qed.
Print Assumptions C04_crossover_children_are_well_formed.

(* all parents reachable by any sequence of variations *)
Theorem C04_everything_reachable_is_well_formed :
  forall c, cfg_ok c = true -> forall size s, (0 < size)%nat -> reachable c size s -> wfr c s = true /\ length s = size.
Proof. exact reachable_wf. Qed.
Print Assumptions C04_everything_reachable_is_well_formed.

(* such a genome, with its constants numbered as AGraph._update does, is a well-formed stack in the sense of C01 *)
Theorem C04_well_formed_genomes_are_evaluable_stacks :
  forall c, cfg_ok c = true -> forall s, wfr c s = true -> wf (cD c) (renumber s 0) = true.
Proof. exact wfr_evaluable. Qed.
Print Assumptions C04_well_formed_genomes_are_evaluable_stacks.

(* termination: every loop of the model is a structural recursion bounded by the code's own constants (Gen/VarConsts.v:
   max_mutation_attempts, arity_operator_attempts, max_fork_size) or by the stack length, except the re-draw loop of parameter
   mutation - and that loop can be left at every iteration: some draw yields different parameters *)
Theorem C04_parameter_mutation_can_always_finish :
  forall c s loc r b, wfr c s = true ->
  nth_error s loc = Some r -> nth_error (utilized s) loc = Some b ->
  negb (no_param_mut c (node_of r)) = true -> (loc = 1%nat -> is_terminal (node_of r) = true) ->
  exists draws n, forall fuel rest, param_loop c (zi loc) r (S fuel) r (draws ++ rest) = Ok n rest /\ cmd_eqb r n = false.
Proof. exact param_loop_can_exit. Qed.
Print Assumptions C04_parameter_mutation_can_always_finish.

(* parents intact, ages, evaluated flag - on the object model of C18: a mutation copies its parent and then writes (any
   number of rows, any values) only through the copy's freshly obtained mutable view *)
Theorem C04_mutation_leaves_the_parent_intact_and_flags_the_child :
  forall (Cst : Type) (one_c : Cst) (S : bool -> stack -> stack) (ops : list (op Cst)) i g (writes : list (op Cst)),
  let w := run Cst one_c S ops in
  nth_error (objs w) i = Some g ->
  let ch := length (objs w) in
  Forall (is_write_to Cst ch) writes ->
  let w' := fold_left (step Cst one_c S) writes (step Cst one_c S w (Copy i)) in
  view_at Cst w' i = view_at Cst w i /\
  exists v', view_at Cst w' ch = Some v' /\ v_age v' = age g /\
             (writes = [] -> v' = view_of Cst (heap w) g) /\
             (writes <> [] -> v_fset v' = false /\ v_fit v' = None /\ v_mod v' = true).
Proof. exact mutation_protocol. Qed.
Print Assumptions C04_mutation_leaves_the_parent_intact_and_flags_the_child.

(* crossover copies both parents, writes only to the copies and then sets both ages to the value [a] it computed (the larger
   parental age): the parents keep everything, both children carry [a] *)
Theorem C04_crossover_leaves_the_parents_intact_and_sets_both_ages :
  forall (Cst : Type) (one_c : Cst) (S : bool -> stack -> stack) (ops : list (op Cst)) i j gi gj (writes : list (op Cst)) a,
  let w := run Cst one_c S ops in
  nth_error (objs w) i = Some gi -> nth_error (objs w) j = Some gj ->
  let c1 := length (objs w) in let c2 := Datatypes.S (length (objs w)) in
  Forall (fun o => is_write_to Cst c1 o \/ is_write_to Cst c2 o) writes ->
  let w' := fold_left (step Cst one_c S) (writes ++ [SetAge c1 a; SetAge c2 a])
                      (step Cst one_c S (step Cst one_c S w (Copy i)) (Copy j)) in
  view_at Cst w' i = view_at Cst w i /\ view_at Cst w' j = view_at Cst w j /\
  option_map v_age (view_at Cst w' c1) = Some a /\ option_map v_age (view_at Cst w' c2) = Some a.
Proof. exact crossover_protocol. Qed.
Print Assumptions C04_crossover_leaves_the_parents_intact_and_sets_both_ages.

(* non-vacuity: a configuration, a generated stack, a fork mutation and a crossover computed from concrete tapes *)
Definition ex_cfg : cfg := mkCfg 2 1 [2; 6]%Z.
Example C04_example :
  cfg_ok ex_cfg = true /\
  generate ex_cfg 5 [1; 1; 1; 0; 0; 0; 0; 1; 0; 0; 1; 1; 1; 1; 2; 0]%Z
    = Ok [(0, 1, 1); (2, 0, 0); (0, 0, 0); (0, 1, 1); (6, 2, 0)]%Z [] /\
  wfr ex_cfg [(0, 1, 1); (2, 0, 0); (0, 0, 0); (0, 1, 1); (6, 2, 0)]%Z = true /\
  (exists child rest, fork_mutation ex_cfg [(0, 1, 1); (2, 0, 0); (0, 0, 0); (0, 1, 1); (6, 2, 0)]%Z
                        [2; 0; 0; 1; 1; 0; 1]%Z = Ok (child, true) rest /\ wfr ex_cfg child = true /\ child <> [(0, 1, 1); (2, 0, 0); (0, 0, 0); (0, 1, 1); (6, 2, 0)]%Z) /\
  crossover [(0, 1, 1); (2, 0, 0); (0, 0, 0); (0, 1, 1); (6, 2, 0)]%Z [(1, -1, -1); (0, 0, 0); (2, 1, 0); (6, 2, 2); (2, 3, 3)]%Z [2]%Z
    = Ok ([(0, 1, 1); (2, 0, 0); (2, 1, 0); (6, 2, 2); (2, 3, 3)]%Z, [(1, -1, -1); (0, 0, 0); (0, 0, 0); (0, 1, 1); (6, 2, 0)]%Z) [].
Proof.
  split; [reflexivity|]. split; [vm_compute; reflexivity|]. split; [reflexivity|]. split; [|vm_compute; reflexivity].
  eexists. eexists. split; [vm_compute; reflexivity|]. split; [reflexivity|discriminate].
Qed.

(* Property C11: migration conserves the population (serial archipelago); evolve(n) advances the age by n.
   Parallel case: the pairing every rank derives from the broadcast shuffle (theorem 4); the exchange itself (sendrecv between
   partners) runs on the C12 stand-in and is checked there and by this property's oracle. *)
From Coq Require Import List Bool Arith Permutation.
From Bingo Require Import Model.Migration Model.ParPartner Model.ParMigrate Proofs.MigrationProofs Proofs.ParPartnerProofs Proofs.ParMigrateProofs.
Import ListNotations.

(* 1. the shuffled index list read pairwise is a matching: every island occurs exactly once, either in
      one pair or (at most one island, exactly n mod 2) sitting out *)
Theorem C11_pairing_is_matching :
  forall order n, is_perm order n = true ->
  paired_islands order ++ sit_out order = order /\ NoDup order /\ length order = n /\
  (forall i, In i order <-> i < n) /\ length (sit_out order) = Nat.modulo n 2.
Proof. exact pairing_is_matching. Qed.
Print Assumptions C11_pairing_is_matching.

(* 2. one migration phase, any number of islands, any sizes, any shuffle outcomes:
      the multiset of individuals over all islands is unchanged, islands that sit out are untouched,
      every individual of a participating island is marked for re-evaluation,
      and equally sized islands keep their size *)
Theorem C11_migration_conserves_population :
  forall isls tape isls', migrate isls tape = Ok isls' ->
  exists order, hd_error tape = Some order /\ is_perm order (length isls) = true /\
  length isls' = length isls /\
  Permutation (map fst (concat isls')) (map fst (concat isls)) /\
  (forall j, In j (sit_out order) -> nth j isls' [] = nth j isls []) /\
  (forall j, In j (paired_islands order) -> Forall (fun p => snd p = false) (nth j isls' [])) /\
  (forall m, (forall k, k < length isls -> length (nth k isls []) = m) ->
             forall k, k < length isls -> length (nth k isls' []) = m).
Proof. exact migrate_spec. Qed.
Print Assumptions C11_migration_conserves_population.

(* 3. evolving by n generations advances the archipelago's (and every island's) generational age by n,
      whatever the islands' evolutionary algorithm does to the populations *)
Theorem C11_evolve_advances_age_by_n :
  forall step a n tape a', evolve step a n tape = Ok a' ->
  a_age a' = a_age a + n /\ a_isl_ages a' = map (fun x => x + n) (a_isl_ages a).
Proof. exact evolve_age. Qed.
Print Assumptions C11_evolve_advances_age_by_n.

(* 4. the parallel archipelago: every rank computes its partner from its own position in the broadcast shuffle.  For every
      legal shuffle of n ranks the answers fit together: every rank gets an answer; a partner is another rank whose own answer is
      the first rank (a matching - nobody waits for a message that is never sent); a rank without a partner exists only for odd
      n, is unique, and is the island the serial archipelago would let sit out *)
Theorem C11_parallel_partners_form_a_matching :
  forall order n, is_perm order n = true ->
  (forall r, r < n -> exists p, partner order r = Some p) /\
  (forall r q, partner order r = Some (Some q) -> q < n /\ q <> r /\ partner order q = Some (Some r)) /\
  (forall r, partner order r = Some None -> Nat.odd n = true /\ sit_out order = [r]) /\
  (forall r1 r2, partner order r1 = Some None -> partner order r2 = Some None -> r1 = r2).
Proof.
  intros order n H. split; [intros r; apply (partner_defined order n H)|]. split; [intros r q; apply (partner_symmetric order n H)|].
  split; [|intros r1 r2; apply (partner_none_unique order n H)].
  intros r Hr. split; [apply (partner_none order n H r Hr)|apply (partner_none_sit_out order n H r Hr)].
Qed.
Print Assumptions C11_parallel_partners_form_a_matching.

(* 5. the parallel migration phase as a transition system over n ranks (Model/ParMigrate.v: one transition = a rank's partner lookup,
      dump and buffered send, or its receive), for EVERY interleaving (any list of ranks as schedule), every legal shuffle and every
      outcome of the ranks' own dumps: no reachable state is stuck; once every rank has finished, no migration message is left
      and every rank holds what the pairing prescribes (what it kept plus what its partner handed out, all marked for
      re-evaluation; its old population if it sat out) *)
Theorem C11_parallel_migration_completes_under_every_interleaving :
  forall order n dumps pops0 sched, is_perm order n = true -> length dumps = n -> length pops0 = n ->
  let s := mrun order dumps sched (minit pops0) in
  (mfinal s = true \/ exists r, r < n /\ mstep order dumps s r <> None) /\
  (mfinal s = true ->
     (forall r, r < n -> nth r (mpops s) [] = final_pop order dumps pops0 r) /\ (forall r, r < n -> nth r (mmail s) None = None)).
Proof.
  intros order n dumps pops0 sched H Ld Lp s.
  assert (I : MInv order n dumps pops0 s) by (apply (mrun_inv order n dumps pops0 H Ld Lp); apply minit_inv; assumption).
  split; [apply (m_deadlock_free order n dumps pops0 H s I)|apply (m_final_state order n dumps pops0 H Ld Lp s I)].
Qed.
Print Assumptions C11_parallel_migration_completes_under_every_interleaving.

(* 6. ... and that final layout conserves the individuals: when every dump splits its rank's population (hands out some, keeps the
      rest), the multiset of identities over all ranks is unchanged; participants are all marked for re-evaluation, the rank that
      sits out keeps its population untouched, equally sized islands keep their size *)
Theorem C11_parallel_migration_conserves_population :
  forall order n dumps pops0, is_perm order n = true -> length dumps = n -> length pops0 = n ->
  (forall r, r < n -> Permutation (map fst (fst (nth r dumps ([], [])) ++ snd (nth r dumps ([], [])))) (map fst (nth r pops0 []))) ->
  Permutation (ids (map (final_pop order dumps pops0) (seq 0 n))) (ids pops0) /\
  (forall r q, partner order r = Some (Some q) -> Forall (fun p => snd p = false) (final_pop order dumps pops0 r)) /\
  (forall r, partner order r = Some None -> final_pop order dumps pops0 r = nth r pops0 []) /\
  (forall m, (forall r, r < n -> length (nth r pops0 []) = m) ->
             (forall r, r < n -> length (fst (nth r dumps ([], []))) = half_round m /\ length (snd (nth r dumps ([], []))) = m - half_round m) ->
             half_round m <= m -> forall r, r < n -> length (final_pop order dumps pops0 r) = m).
Proof.
  intros order n dumps pops0 H Ld Lp DV. split; [apply (m_conserves order n dumps pops0 H Ld Lp DV)|]. split; [apply final_pop_flags|].
  split; [apply final_pop_idle|]. intros m. apply (final_pop_size order n dumps pops0 H Ld Lp).
Qed.
Print Assumptions C11_parallel_migration_conserves_population.

Example C11_parallel_example :
  map (partner [3; 0; 4; 1; 2]) [0; 1; 2; 3; 4] = [Some (Some 3); Some (Some 4); Some None; Some (Some 0); Some (Some 1)].
Proof. reflexivity. Qed.

From Coq Require Import ZArith QArith.
From Bingo Require Import Gen.Consts.
(* the modelled half_round is int(round(fraction * len)) for the fraction the code passes *)
Example C11_fraction_is_one_half : (migration_fraction == 1 # 2)%Q.
Proof. reflexivity. Qed.
Local Close Scope Q_scope.
(* non-vacuity: a legal tape; islands 2 and 0 exchange, island 1 sits out *)
Example C11_example_run :
  migrate [[(0,true);(1,true);(2,true)]; [(3,true);(4,false);(5,true)]; [(6,true);(7,true);(8,true)]]
          [[2;0;1]; [1;2;0]; [0;2;1]]
  = Ok [[(1,false);(7,false);(8,false)]; [(3,true);(4,false);(5,true)]; [(6,false);(0,false);(2,false)]].
Proof. vm_compute. reflexivity. Qed.

(* non-vacuity: three ranks, shuffle 2 0 1 (ranks 2 and 0 exchange, rank 1 sits out), rank 1 scheduled first and rank 0's receive
   attempted before rank 2 has sent *)
Example C11_parallel_run :
  let pops := [[(0, true); (1, true)]; [(2, true); (3, false)]; [(4, true); (5, true)]] in
  let dumps := [([(1, true)], [(0, true)]); ([], []); ([(4, true)], [(5, true)])] in
  let s := mrun [2; 0; 1] dumps [1; 0; 0; 2; 2; 0; 1] (minit pops) in
  mfinal s = true /\ mpops s = [[(0, false); (4, false)]; [(2, true); (3, false)]; [(5, false); (1, false)]].
Proof. vm_compute. split; reflexivity. Qed.

(* Property C11: migration conserves the population (serial archipelago); evolve(n) advances the age by n.
   The parallel migration phase belongs to the C12 transition system. *)
From Coq Require Import List Bool Arith Permutation.
From Bingo Require Import Model.Migration Proofs.MigrationProofs.
Import ListNotations.

(* 1. the shuffled index list read pairwise is a matching: every island occurs exactly once, either in
      one pair or (at most one island, exactly n mod 2) sitting out *)
Theorem C11_pairing_is_matching :
  forall order n, is_perm order n = true ->
  paired_islands order ++ sit_out order = order /\ NoDup order /\ length order = n /\
  (forall i, In i order <-> i < n) /\ length (sit_out order) = Nat.modulo n 2.
Proof. exact pairing_is_matching. Qed.
Print Assumptions C11_pairing_is_matching.

(* 2. one migration phase, any number of islands, any sizes, any shuffle outcomes:
      the multiset of individuals over all islands is unchanged, islands that sit out are untouched,
      every individual of a participating island is marked for re-evaluation,
      and equally sized islands keep their size *)
Theorem C11_migration_conserves_population :
  forall isls tape isls', migrate isls tape = Ok isls' ->
  exists order, hd_error tape = Some order /\ is_perm order (length isls) = true /\
  length isls' = length isls /\
  Permutation (map fst (concat isls')) (map fst (concat isls)) /\
  (forall j, In j (sit_out order) -> nth j isls' [] = nth j isls []) /\
  (forall j, In j (paired_islands order) -> Forall (fun p => snd p = false) (nth j isls' [])) /\
  (forall m, (forall k, k < length isls -> length (nth k isls []) = m) ->
             forall k, k < length isls -> length (nth k isls' []) = m).
Proof. exact migrate_spec. Qed.
Print Assumptions C11_migration_conserves_population.

(* 3. evolving by n generations advances the archipelago's (and every island's) generational age by n,
      whatever the islands' evolutionary algorithm does to the populations *)
Theorem C11_evolve_advances_age_by_n :
  forall step a n tape a', evolve step a n tape = Ok a' ->
  a_age a' = a_age a + n /\ a_isl_ages a' = map (fun x => x + n) (a_isl_ages a).
Proof. exact evolve_age. Qed.
Print Assumptions C11_evolve_advances_age_by_n.

From Coq Require Import ZArith QArith.
From Bingo Require Import Gen.Consts.
(* the modelled half_round is int(round(fraction * len)) for the fraction the code passes *)
Example C11_fraction_is_one_half : (migration_fraction == 1 # 2)%Q.
Proof. reflexivity. Qed.
Local Close Scope Q_scope.
(* non-vacuity: a legal tape; islands 2 and 0 exchange, island 1 sits out *)
Example C11_example_run :
  migrate [[(0,true);(1,true);(2,true)]; [(3,true);(4,false);(5,true)]; [(6,true);(7,true);(8,true)]]
          [[2;0;1]; [1;2;0]; [0;2;1]]
  = Ok [[(1,false);(7,false);(8,false)]; [(3,true);(4,false);(5,true)]; [(6,false);(0,false);(2,false)]].
Proof. vm_compute. reflexivity. Qed.

(* Property C10: Hall of fame / Pareto front hold exactly the best / non-dominated seen.
   Statements only; every proof is [exact <lemma>] from Proofs/HofProofs.v. *)
From Coq Require Import ZArith List Bool Permutation Sorted.
From Bingo Require Import Lib.ListExtra Lib.Key Model.Hof Gen.ParetoRule Proofs.HofProofs Proofs.ParetoRuleProofs.
Import ListNotations.

(* 1. bounded hall, update calls only, no similarity filter, capacity >= 1 *)
Theorem C10_hof_holds_smallest_keys :
  forall (base c : nat) (ops : list op), (1 <= c)%nat -> only_updates ops ->
  let h := run None false (Some c) base ops in
  let seen := nn (all_updates ops) in
  err h = false /\
  keys h = map Some (zs_of h) /\
  StronglySorted Z.le (zs_of h) /\
  length (keys h) = Nat.min c (length seen) /\
  exists rest, Permutation (zs_of h ++ rest) seen /\
               forall a b, In a (zs_of h) -> In b rest -> (a <= b)%Z.
Proof. exact C10_smallest. Qed.
Print Assumptions C10_hof_holds_smallest_keys.

(* 2. any interleaving of update / insert / remove / clear, hall or Pareto front,
      any similarity function, any capacity *)
Theorem C10_any_history_ordered_nan_free_fresh :
  forall sim pareto c (base : nat) (ops : list op),
  let h := run sim pareto c base ops in
  err h = false ->
  keys h = map ek1 (items h) /\
  Forall (fun e => ek1 e <> None) (items h) /\
  StronglySorted (fun a b => (zk a <= zk b)%Z) (items h) /\
  StronglySorted karr (items h) /\
  Forall (fun e => (base <= eid e)%nat) (items h) /\
  NoDup (map eid (items h)).
Proof. exact C10_any_history. Qed.
Print Assumptions C10_any_history_ordered_nan_free_fresh.

(* 3. Pareto front, update calls only, no similarity filter *)
Theorem C10_pareto_front_is_nondominated_set :
  forall (base : nat) (ops : list op), only_updates ops ->
  let h := run None true None base ops in
  let offers := vo (all_updates ops) in
  err h = false /\
  Permutation (ft h) (filter (nondom offers) offers) /\
  (forall m1 m2, In m1 (ft h) -> In m2 (ft h) -> domt m1 m2 = false).
Proof. exact C10_pareto. Qed.
Print Assumptions C10_pareto_front_is_nondominated_set.

(* 4. Pareto front with a similarity filter: no member is similar to a later one *)
Theorem C10_pareto_no_two_similar :
  forall (f : nat -> nat -> bool) (base : nat) (ops : list op), only_updates ops ->
  let h := run (Some f) true None base ops in
  forall a b, In a (items h) -> In b (items h) -> (earr a < earr b)%nat ->
              f (esrc a) (esrc b) = false.
Proof. exact C10_pareto_sim. Qed.
Print Assumptions C10_pareto_no_two_similar.

(* 5. the public insert ignores an individual whose key is NaN (finding F12a, fixed): with theorem 2, which no longer needs any
      premise about manual inserts, no history of updates / inserts / removes / clears ever leaves a NaN key in the hall *)
Theorem C10_insert_ignores_nan_keys :
  forall h i, ik1 i = None -> insert_pub h i = h.
Proof. exact insert_pub_nan. Qed.
Print Assumptions C10_insert_ignores_nan_keys.

(* 6. capacity 0 (finding F12b, fixed): the hall stays empty and nothing raises *)
Theorem C10_capacity_zero_stays_empty :
  forall sim (base : nat) (ops : list op), only_updates ops ->
  let h := run sim false (Some 0%nat) base ops in err h = false /\ keys h = [] /\ items h = [].
Proof. exact C10_capacity_zero. Qed.
Print Assumptions C10_capacity_zero_stays_empty.

(* the tie by translation: the model's dominance test IS the test the current source states
   (Gen/ParetoRule.v is regenerated from bingo/stats/pareto_front.py on every run by tools/translate/tr_pareto.py) *)
Theorem C10_model_dominance_test_is_the_source_test :
  forall a1 a2 b1 b2, first_dominates a1 a2 b1 b2 = gen_first_dominates a1 a2 b1 b2.
Proof. exact first_dominates_is_source. Qed.
Print Assumptions C10_model_dominance_test_is_the_source_test.

(* the histories that used to refute the two clauses *)
Example C10_former_refutations :
  keys (run None false (Some 3%nat) 10 [OInsert (mkI 0 (Some 1) None); OInsert (mkI 1 (Some 2) None); OInsert (mkI 2 None None)])
    = [Some 1; Some 2] /\
  err (run None false (Some 0%nat) 10 [OUpdate [mkI 0 (Some 1) None]]) = false.
Proof. vm_compute. split; reflexivity. Qed.

(* non-vacuity: a history meeting the hypotheses of 1, with an eviction, a tie and a NaN *)
Example C10_example :
  let ops := [OUpdate [mkI 0 (Some 5) None; mkI 1 None None; mkI 2 (Some 3) None];
              OUpdate [mkI 3 (Some 3) None; mkI 4 (Some 9) None; mkI 5 (Some 1) None]] in
  only_updates ops /\
  keys (run None false (Some 3%nat) 100 ops) = [Some 1; Some 3; Some 3] /\
  map esrc (items (run None false (Some 3%nat) 100 ops)) = [5; 2; 3]%nat.
Proof. split; [repeat constructor|]. vm_compute. split; reflexivity. Qed.

Example C10_pareto_example :
  let ops := [OUpdate [mkI 0 (Some 5) (Some 1); mkI 1 (Some 3) (Some 3); mkI 2 (Some 4) (Some 4);
                       mkI 3 (Some 1) (Some 9); mkI 4 (Some 3) (Some 3); mkI 5 (Some 2) (Some 2)]] in
  only_updates ops /\
  map esrc (items (run None true None 100 ops)) = [3; 5; 0]%nat.
Proof. split; [repeat constructor|]. vm_compute. reflexivity. Qed.

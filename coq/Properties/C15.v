(* Property C15: the best individual reported is a true minimum and carries its true fitness. *)
From Coq Require Import ZArith List Bool.
From Bingo Require Import Lib.Key Model.Best Gen.BestRules Proofs.BestProofs Proofs.BestRulesProofs.
Import ListNotations.

(* 1. island: the scan returns a member; nobody is strictly fitter; NaN only if all are NaN
      (for every arrangement of NaN / inf / ties; an empty population raises IndexError = None) *)
Theorem C15_island_best_is_minimal :
  forall fs r, scan_best fs = Some r ->
  (r < length fs)%nat /\
  (forall j, (j < length fs)%nat -> klt (nthk fs j) (nthk fs r) = false) /\
  (nthk fs r = None -> forall j, (j < length fs)%nat -> nthk fs j = None).
Proof. exact scan_best_minimal. Qed.
Print Assumptions C15_island_best_is_minimal.

Theorem C15_island_best_exists : forall fs, fs <> [] -> exists r, scan_best fs = Some r.
Proof. exact scan_best_some. Qed.
Print Assumptions C15_island_best_exists.

(* 2. serial archipelago (scan over the island bests): minimal over ALL members of ALL islands *)
Theorem C15_archipelago_best_is_minimal :
  forall isls k b, arch_best isls = Some (k, b) ->
  (k < length isls)%nat /\ (b < length (nth k isls []))%nat /\
  let f := nthk (nth k isls []) b in
  (forall k' j, (k' < length isls)%nat -> (j < length (nth k' isls []))%nat ->
                klt (nthk (nth k' isls []) j) f = false) /\
  (f = None -> forall k' j, (k' < length isls)%nat -> (j < length (nth k' isls []))%nat ->
               nthk (nth k' isls []) j = None).
Proof. exact arch_best_minimal. Qed.
Print Assumptions C15_archipelago_best_is_minimal.

(* 3. Python min(key=fitness) as used by ParallelArchipelago.get_best_individual: minimal when no
      candidate is NaN ... *)
Theorem C15_pymin_minimal_without_nan :
  forall fs r, (forall j, (j < length fs)%nat -> nthk fs j <> None) -> pymin fs = Some r ->
  (r < length fs)%nat /\ (forall j, (j < length fs)%nat -> klt (nthk fs j) (nthk fs r) = false).
Proof. exact pymin_minimal. Qed.
Print Assumptions C15_pymin_minimal_without_nan.
(* ... and the full-strength statement is refuted (finding F7b): a NaN candidate in front wins *)
Theorem C15_parallel_min_full_refuted :
  exists fs r, pymin fs = Some r /\ nthk fs r = None /\ exists j, nthk fs j <> None.
Proof. exists [None; Some 1%Z], 0%nat. vm_compute. repeat split; auto. exists 1%nat. discriminate. Qed.

(* 4. predictor island: the reported best and every potential hall-of-fame member carry the
      full-data fitness of their own genome; the best is chosen by predicted fitness *)
Theorem C15_predictor_best_has_true_fitness :
  forall G (full : G -> key) pop p, pred_best G full pop = Some p ->
  pfit G p = full (genome G p) /\
  exists b q, nth_error pop b = Some q /\ genome G q = genome G p /\ minimal_at (map (pfit G) pop) b.
Proof. exact pred_best_true_fitness. Qed.
Print Assumptions C15_predictor_best_has_true_fitness.

Theorem C15_predictor_hof_members_have_true_fitness :
  forall G (full : G -> key) hall,
  Forall (fun p => pfit G p = full (genome G p)) (potential_members G full hall) /\
  map (genome G) (potential_members G full hall) = map (genome G) hall.
Proof. exact potential_members_true_fitness. Qed.
Print Assumptions C15_predictor_hof_members_have_true_fitness.

(* the tie by translation: one step of the model's scan replaces the incumbent exactly when the test the current source
   states holds - for the island's scan and for the serial archipelago's scan over the island bests
   (Gen/BestRules.v is regenerated from island.py / serial_archipelago.py on every run by tools/translate/tr_best.py,
   which also pins the shape  best = xs[0]; for indv in xs: if c: best = indv; return best) *)
Theorem C15_model_scan_step_is_the_source_test :
  (forall f fbest r i best,
     scan_go (f :: r) i best fbest = if gen_island_takes f fbest then scan_go r (S i) i f else scan_go r (S i) best fbest) /\
  (forall f fbest r i best,
     scan_go (f :: r) i best fbest = if gen_archipelago_takes f fbest then scan_go r (S i) i f else scan_go r (S i) best fbest).
Proof. split; [exact island_scan_step_is_source|exact archipelago_scan_step_is_source]. Qed.
Print Assumptions C15_model_scan_step_is_the_source_test.

Example C15_example :
  scan_best [None; Some 3; None; Some 1; Some 1; Some (-5); None]%Z = Some 5%nat /\
  arch_best [[None; None]; [Some 4; None]; [None; Some 2; Some 2]]%Z = Some (2, 1)%nat /\
  arch_best [[None]; [None; None]]%Z = Some (1, 1)%nat.
Proof. vm_compute. repeat split; reflexivity. Qed.

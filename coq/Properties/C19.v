(* Property C19: every individual is evaluated when due and counted once per evaluation. *)
From Coq Require Import List Bool Arith.
From Bingo Require Import Model.EvalPhase Gen.EvalRules Proofs.EvalPhaseProofs Proofs.EvalPartialProofs Proofs.EvalRulesProofs.
Import ListNotations.

Section C19.
Variables (G F : Type) (fit : G -> F) (opt : G -> G) (k : G -> nat).
(* fit: the deterministic base fitness; opt/k: what local optimization does to an individual's constants and
   how many base-function invocations it makes - both arbitrary (identity / 0 for a plain fitness function) *)

(* 1. serial evaluation phase: slot order and object identity preserved; every individual that was due
      (unflagged, or all of them under redundant evaluation) now carries the fitness of its current genome
      and is flagged; the others are untouched; the counter grows by exactly the number of real invocations *)
Theorem C19_serial_phase :
  forall red pop c c' pop', serial_eval G F fit opt k red c pop = (c', pop') ->
  Forall2 (fun i i' =>
     if due G F red i
     then (genome G F i' = opt (genome G F i) /\ fitness G F i' = Some (fit (opt (genome G F i))) /\
           fit_set G F i' = true) /\ oid G F i' = oid G F i
     else i' = i) pop pop' /\
  count c' - count c = ghost c' - ghost c /\
  count c' = count c + cost G F k red pop.
Proof.
  intros red pop c c' pop' H. destruct (serial_spec G F fit opt k red pop c c' pop' H) as (H1 & H2 & H3).
  split; [exact H1|]. split; [rewrite H2, H3|exact H2].
  rewrite !(Nat.add_comm _ (cost G F k red pop)), !Nat.add_sub. reflexivity.
Qed.

(* 2. multi-process evaluation phase: slot i afterwards holds a COPY (fresh object) of what was in slot i,
      evaluated; undue slots untouched; the parent's reported count grows by exactly the number of
      invocations made inside the workers, whatever the completion order *)
Theorem C19_multiprocess_phase :
  forall red perm fresh c pop c' pop' wg,
  multiprocess_eval G F fit opt k red perm fresh c pop = (c', pop', wg) ->
  Forall2 (fun i i' =>
     if due G F red i
     then (genome G F i' = opt (genome G F i) /\ fitness G F i' = Some (fit (opt (genome G F i))) /\
           fit_set G F i' = true) /\ fresh <= oid G F i'
     else i' = i) pop pop' /\
  count c' = count c + wg /\ wg = cost G F k red pop /\ ghost c' = ghost c.
Proof.
  intros red perm fresh c pop c' pop' wg H.
  destruct (multi_spec G F fit opt k red perm fresh c pop c' pop' wg H) as (H1 & H2 & H3 & H4).
  split; [exact H1|]. split; [rewrite H4; exact H2|]. split; [exact H4|exact H3].
Qed.
End C19.
Print Assumptions C19_serial_phase.
Print Assumptions C19_multiprocess_phase.

(* 3. an archipelago reports the sum of its islands' counters; if every island's counter equals its own
      number of real invocations, the total equals the total number of real invocations *)
Theorem C19_archipelago_total :
  forall cs, Forall (fun c => count c = ghost c) cs -> archipelago_count cs = archipelago_ghost cs.
Proof. exact archipelago_count_is_ghost. Qed.
Print Assumptions C19_archipelago_total.

(* 4. a fitness function that may raise ([faulty]: an arbitrary predicate of the genome): a phase that RETURNS returns
      exactly what theorems 1 and 2 describe and no due individual was faulty - so nobody that was due is left
      unevaluated and nothing is left uncounted; the phase fails to return exactly when some due individual is
      faulty, serially and with worker processes alike *)
Section C19p.
Variables (G F : Type) (fit : G -> F) (opt : G -> G) (k : G -> nat) (faulty : G -> bool).
Theorem C19_phase_that_returns_left_nobody_unevaluated :
  forall red perm fresh c pop,
  (forall r, serial_eval_p G F fit opt k faulty red c pop = Some r ->
     r = serial_eval G F fit opt k red c pop /\ existsb (due_faulty G F faulty red) pop = false) /\
  (forall r, multiprocess_eval_p G F fit opt k faulty red perm fresh c pop = Some r ->
     r = multiprocess_eval G F fit opt k red perm fresh c pop /\ existsb (due_faulty G F faulty red) pop = false) /\
  (serial_eval_p G F fit opt k faulty red c pop = None -> existsb (due_faulty G F faulty red) pop = true) /\
  (serial_eval_p G F fit opt k faulty red c pop = None <->
   multiprocess_eval_p G F fit opt k faulty red perm fresh c pop = None).
Proof.
  intros red perm fresh c pop. split; [|split; [|split]].
  - intros r. apply serial_p_some.
  - intros r. apply multi_p_some.
  - apply serial_p_none.
  - apply raise_agreement.
Qed.
End C19p.
Print Assumptions C19_phase_that_returns_left_nobody_unevaluated.

(* 5. the tie by translation: the model's 'due' test IS the test both evaluation loops of the current source state, and the
      statement sequence of the counter-delta protocol is the pinned one (Gen/EvalRules.v is regenerated from
      bingo/evaluation/evaluation.py and the fitness setter of bingo/chromosomes/chromosome.py on every run) *)
Theorem C19_model_due_test_is_the_source_test :
  (forall (G F : Type) red (i : indiv G F), due G F red i = gen_due red (fit_set G F i)) /\ gen_protocol_pinned = true.
Proof. split; [exact due_is_source|exact protocol_is_pinned]. Qed.
Print Assumptions C19_model_due_test_is_the_source_test.

Example C19_example :
  let pop := [mkIndiv nat nat 0 5 None false; mkIndiv nat nat 1 7 (Some 70) true; mkIndiv nat nat 2 9 None false] in
  serial_eval nat nat (fun g => 10 * g) (fun g => g + 1) (fun g => g) false (mkCounter 3 3) pop
  = (mkCounter 19 19, [mkIndiv nat nat 0 6 (Some 60) true; mkIndiv nat nat 1 7 (Some 70) true; mkIndiv nat nat 2 10 (Some 100) true])
  /\ fst (multiprocess_eval nat nat (fun g => 10 * g) (fun g => g + 1) (fun g => g) false [1;0] 100 (mkCounter 3 3) pop)
  = (mkCounter 19 3, [mkIndiv nat nat 100 6 (Some 60) true; mkIndiv nat nat 1 7 (Some 70) true; mkIndiv nat nat 101 10 (Some 100) true]).
Proof. vm_compute. split; reflexivity. Qed.

(* Property C14: the optimization result truthfully reports why and when evolution stopped. *)
From Coq Require Import ZArith QArith List Bool.
From Bingo Require Import Lib.Key Gen.Consts Model.Converge Proofs.ConvergeProofs.
Import ListNotations.
Local Open Scope Z_scope.

(* 1. it always returns: for every validated configuration, every oracle (fitness trajectory, evaluation
      counts, durations) and every prior state, the built-in fuel min_generations+1 / max_generations+1
      is never exhausted, because every round evolves at least one generation *)
Theorem C14_always_returns :
  forall c s0 tape, 1 <= max_gen c -> 0 <= min_gen c -> 1 <= freq c -> euc c s0 tape <> OutOfFuel.
Proof. intros c s0 tape H1 H2 H3. apply euc_always_returns. repeat split; assumption. Qed.
Print Assumptions C14_always_returns.

(* 2. what the returned result says is true of the state at return *)
Theorem C14_result_is_truthful :
  forall c s0 tape r s tr, 1 <= max_gen c -> 0 <= min_gen c -> 1 <= freq c ->
  euc c s0 tape = Ok (r, s, tr) ->
  (* reported generation count = generations evolved in this call, at least the minimum *)
  r_ngen r = age s - age s0 /\ min_gen c <= r_ngen r /\
  (* reported fitness is the optimizer's best fitness *)
  r_fitness r = best s /\
  (* success exactly when the best fitness is at or below the threshold (NaN is not) *)
  (r_success r = true <-> kle (best_key s) (Some (threshold c)) = true) /\
  (r_success r = true <-> r_status r = 0) /\
  (* the status names a criterion that holds *)
  In (r_status r) [0; 1; 2; 3; 4; 5] /\
  (r_status r = 1 -> exists lim, stag c = Some lim /\ lim <= age s - improve_age s) /\
  (r_status r = 2 -> max_gen c <= age s - age s0) /\
  (r_status r = 3 -> exists m, max_evals c = Some m /\ m <= cur_evals s) /\
  (r_status r = 4 -> exists mt, max_time c = Some mt /\ (mt <= now s - t_start s)%Q) /\
  (r_status r = 5 -> exists e, estimate c s = Ok (Some e) /\ (e < not_enough_time_threshold)%Q).
Proof.
  intros c s0 tape r s tr H1 H2 H3 H.
  destruct (euc_spec c s0 tape r s tr (conj H1 (conj H2 H3)) H) as (T & Hs & Hm & _).
  pose proof (success_iff c r s T) as Hsucc.
  split; [rewrite (t_ngen _ _ _ T); congruence|]. split; [exact Hm|].
  split; [exact (t_fit _ _ _ T)|]. split; [exact Hsucc|].
  split; [rewrite (t_succ _ _ _ T); apply Z.eqb_eq|]. split; [exact (t_range _ _ _ T)|].
  split; [|split; [|split; [|split]]].
  - intros E. pose proof (t_1 _ _ _ T E) as C. unfold crit_stagnation in C.
    destruct (stag c) as [lim|]; [|discriminate]. exists lim. split; auto. now apply Z.leb_le.
  - intros E. pose proof (t_2 _ _ _ T E). congruence.
  - intros E. pose proof (t_3 _ _ _ T E) as C. unfold crit_evals in C.
    destruct (max_evals c) as [m|]; [|discriminate]. exists m. split; auto. now apply Z.leb_le.
  - intros E. pose proof (t_4 _ _ _ T E) as C. unfold crit_time in C.
    destruct (max_time c) as [mt|]; [|discriminate]. exists mt. split; auto.
    destruct (Qlt_le_dec (now s - t_start s) mt); [discriminate|assumption].
  - intros E. destruct (t_5 _ _ _ T E) as (e & He & C). exists e. split; auto.
    unfold crit_no_time in C. destruct (Qlt_le_dec e not_enough_time_threshold); [assumption|discriminate].
Qed.
Print Assumptions C14_result_is_truthful.

(* 3. order of events: the minimum-generation rounds, one check, then rounds each followed by a check;
      a round is started only below max_generations and only after a check that found NO criterion met;
      a check that finds a criterion is the last event *)
Theorem C14_no_round_after_a_criterion_is_met :
  forall c s0 tape r s tr, 1 <= max_gen c -> 0 <= min_gen c -> 1 <= freq c ->
  euc c s0 tape = Ok (r, s, tr) ->
  exists mins chk mains, tr = mins ++ EvCheck chk :: mains /\
    Forall (fun e => match e with EvEvolve k g false => k = freq c /\ g < min_gen c | _ => False end) mins /\
    match chk with Some _ => mains = [] | None => main_shape c mains end.
Proof.
  intros c s0 tape r s tr H1 H2 H3 H.
  destruct (euc_spec c s0 tape r s tr (conj H1 (conj H2 H3)) H) as (_ & _ & _ & S). exact S.
Qed.
Print Assumptions C14_no_round_after_a_criterion_is_met.

(* what a check decides: it lets evolution continue iff none of the five criteria holds *)
Theorem C14_check_continues_iff_no_criterion :
  forall c s e, check_exit c s e = None <->
  crit_convergence c s = false /\ crit_stagnation c s = false /\ crit_evals c s = false /\
  crit_time c s = false /\ crit_no_time e = false.
Proof. exact check_exit_none. Qed.
Print Assumptions C14_check_continues_iff_no_criterion.

(* non-vacuity: a two-call history; the first call stops on stagnation, the second at max generations *)
Example C14_example :
  let c := mkCfg 4 0 1 1 (Some 2) None None in
  let tape := [mkW 1 (Some 5) 3; mkW 1 (Some 5) 6; mkW 1 (Some 5) 9; mkW 1 (Some 4) 12] in
  match euc c (mkSt 0 0 0 None (Some 7) 0 0 0 0 []) tape with
  | Ok (r, s, tr) => r_status r = 1 /\ r_ngen r = 3 /\ r_success r = false /\
                     (match euc (mkCfg 1 0 1 0 None None None) s [mkW 1 (Some 4) 15] with
                      | Ok (r2, _, _) => r_status r2 = 2 /\ r_ngen r2 = 1
                      | _ => False end)
  | _ => False
  end.
Proof. vm_compute. repeat split; reflexivity. Qed.

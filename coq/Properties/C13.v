(* Property C13 (clause a): checkpoint rotation is crash-safe.
   Clause (b), losslessness/transparency of dill dump/load, is NOT a theorem (dill is not modelled);
   it is checked by a differential test in tools/props/c13.py and the property is claimed partial. *)
From Coq Require Import ZArith List Bool Sorted.
From Bingo Require Import Model.Checkpoint Gen.CheckpointRules Proofs.CheckpointProofs Proofs.CheckpointRulesProofs.
Import ListNotations.
Local Open Scope Z_scope.

(* A call writes checkpoints at strictly increasing generational ages a0 < a1 < ... (every round evolves
   at least one generation: C14).  A crash = the process stops after any number k of atomic file steps. *)

(* 1. once the first checkpoint has been completed (its 3 steps: open tmp, finish, rename), EVERY crash
      point leaves a complete checkpoint of this call on disk - for every initial directory content,
      every retention count >= 1, any number of rounds *)
Theorem C13_every_crash_point_leaves_a_complete_checkpoint :
  forall n a0 r f0 k, (1 <= n)%nat -> StronglySorted Z.lt (a0 :: r) -> (3 <= k)%nat ->
  exists a, In a (a0 :: r) /\ crash_state (Some n) (a0 :: r) k f0 (Final a) = Some (Complete a).
Proof. exact crash_leaves_complete. Qed.
Print Assumptions C13_every_crash_point_leaves_a_complete_checkpoint.

(* 1b. a later call on the same optimizer re-writes <base>_<a0>.pkl for the unchanged age a0: the complete
       file left by the earlier call survives every crash point of the rewrite (atomic write, fix F14) *)
Theorem C13_rewrite_by_a_later_call_keeps_a_complete_checkpoint :
  forall n a0 r f0 k, (1 <= n)%nat -> StronglySorted Z.lt (a0 :: r) ->
  f0 (Final a0) = Some (Complete a0) ->
  exists a, In a (a0 :: r) /\ crash_state (Some n) (a0 :: r) k f0 (Final a) = Some (Complete a).
Proof. exact rewrite_keeps_old. Qed.
Print Assumptions C13_rewrite_by_a_later_call_keeps_a_complete_checkpoint.

(* 2. no file other than this call's <base>_<age>.pkl / .tmp is ever created, changed or deleted,
      at any crash point *)
Theorem C13_foreign_files_untouched :
  forall n ages f0 k m, (1 <= n)%nat -> StronglySorted Z.lt ages ->
  (forall x, In x ages -> m <> Final x /\ m <> Tmp x) ->
  crash_state (Some n) ages k f0 m = f0 m.
Proof. exact crash_never_touches_foreign_files. Qed.
Print Assumptions C13_foreign_files_untouched.

Theorem C13_only_own_checkpoints_are_deleted :
  forall n ages x, (1 <= n)%nat -> StronglySorted Z.lt ages ->
  In (Remove x) (call_ops (Some n) [] ages) -> In x ages.
Proof. exact only_own_checkpoints_removed. Qed.
Print Assumptions C13_only_own_checkpoints_are_deleted.

(* 3. after the call at most n of its checkpoints remain, each complete; all the others are gone *)
Theorem C13_at_most_n_checkpoints_retained :
  forall n ages f0, (1 <= n)%nat -> StronglySorted Z.lt ages ->
  let kept := call_prev (Some n) [] ages in
  let f := run_ops (call_ops (Some n) [] ages) f0 in
  (length kept <= n)%nat /\
  (forall a, In a kept -> f (Final a) = Some (Complete a)) /\
  (forall a, In a ages -> In a kept \/ f (Final a) = None).
Proof. exact retained_after_call. Qed.
Print Assumptions C13_at_most_n_checkpoints_retained.

(* retention count 0 is refuted (finding F14b): the checkpoint just written is deleted again *)
Theorem C13_retention_zero_leaves_nothing :
  crash_state (Some 0%nat) [5] 4 (fun _ => None) (Final 5) = None.
Proof. reflexivity. Qed.

(* second call on the same optimizer: it re-writes <base>_<age>.pkl for the unchanged age.  With the
   atomic write the old complete file is still there while the new one is being written. *)
(* the tie by translation: the model's file operations of one checkpoint are exactly those the current source performs, in
   its statement order, with its over-the-limit test and its choice of the OLDEST file for removal (Gen/CheckpointRules.v is
   regenerated from evolutionary_optimizer.py on every run by tools/translate/tr_checkpoint.py, which pins the statements of
   dump_to_file, _update_checkpoints and _remove_stale_checkpoint) *)
Theorem C13_model_checkpoint_operations_are_the_source_operations :
  forall num prev a,
  ckpt_ops num prev a =
  match num with
  | None => (gen_write_ops a, prev)
  | Some n =>
    let prev' := prev ++ [a] in
    if gen_over n (length prev') then
      match gen_remove_oldest prev' with
      | Some (rm, rest) => (gen_write_ops a ++ [rm], rest)
      | None => (gen_write_ops a, prev')
      end
    else (gen_write_ops a, prev')
  end.
Proof. exact ckpt_ops_is_source. Qed.
Print Assumptions C13_model_checkpoint_operations_are_the_source_operations.

Example C13_second_call_keeps_the_old_checkpoint_during_the_rewrite :
  let after_call1 := run_ops (call_ops (Some 1%nat) [] [0; 2; 4]) (fun _ => None) in
  after_call1 (Final 4) = Some (Complete 4) /\
  crash_state (Some 1%nat) [4; 6] 1 after_call1 (Final 4) = Some (Complete 4) /\
  crash_state (Some 1%nat) [4; 6] 2 after_call1 (Final 4) = Some (Complete 4) /\
  crash_state (Some 1%nat) [4; 6] 5 after_call1 (Tmp 6) = Some (Complete 6).
Proof. vm_compute. repeat split; reflexivity. Qed.

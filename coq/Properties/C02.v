(* Property C02: gradients are the true partial derivatives of the evaluated function.
   The 17 adjoint rules are TRANSLATED from operator_eval.py on every run (Gen/OpEval.v : rev_rule); a wrong sign, a wrong
   operand or '=' for '+=' in any of them makes this file fail to compile. *)
From Coquelicot Require Import Coquelicot.
From Coq Require Import Reals ZArith List Bool.
From Bingo Require Import Lib.Alg Gen.OpDefs Gen.OpEval Model.Stack Model.Reverse Proofs.StackProofs Proofs.ReduceProofs Proofs.ReverseProofs.
Import ListNotations.
Open Scope R_scope.

(* 1. every translated adjoint rule distributes the row's adjoint times the local partial derivatives of its operator:
      binary operators ... *)
Theorem C02_binary_adjoint_rules :
  forall n ri p1 p2 (fe re : Z -> R) (T : nat -> R), is_arity_2 n = true ->
  fe ri = sem_op2 r_alg n (fe p1) (fe p2) -> ok2 n (fe p1) (fe p2) ->
  sum_updates (rev_rule r_alg n ri p1 p2 fe re) T
  = re ri * (fst (dop2 n (fe p1) (fe p2)) * T (Z.to_nat p1) + snd (dop2 n (fe p1) (fe p2)) * T (Z.to_nat p2))
  /\ forall u, In u (rev_rule r_alg n ri p1 p2 fe re) -> fst (fst u) = p1 \/ fst (fst u) = p2.
Proof. exact rule_effect2. Qed.
(* ... and unary operators *)
Theorem C02_unary_adjoint_rules :
  forall n ri p1 p2 (fe re : Z -> R) (T : nat -> R), is_terminal n = false -> is_arity_2 n = false -> known_node n = true ->
  fe ri = sem_op1 r_alg n (fe p1) -> ok1 n (fe p1) ->
  sum_updates (rev_rule r_alg n ri p1 p2 fe re) T = re ri * (dop1 n (fe p1) * T (Z.to_nat p1))
  /\ forall u, In u (rev_rule r_alg n ri p1 p2 fe re) -> fst (fst u) = p1.
Proof. exact rule_effect1. Qed.
Print Assumptions C02_binary_adjoint_rules.

(* 2. the local partials are the partial derivatives of the operators (calculus), on the open set where each operator is
      differentiable: divisor <> 0, power base > 0, safe-power base <> 0, abs/sqrt/log argument <> 0 *)
Theorem C02_local_partials_are_derivatives :
  (forall op f t0 df, is_derive f t0 df -> ok1 op (f t0) ->
     is_derive (fun t => sem_op1 r_alg op (f t)) t0 (dop1 op (f t0) * df)) /\
  (forall op f g t0 df dg, is_derive f t0 df -> is_derive g t0 dg -> ok2 op (f t0) (g t0) ->
     is_derive (fun t => sem_op2 r_alg op (f t) (g t)) t0
               (fst (dop2 op (f t0) (g t0)) * df + snd (dop2 op (f t0) (g t0)) * dg)).
Proof. split; [exact op1_derive|exact op2_derive]. Qed.
Print Assumptions C02_local_partials_are_derivatives.

(* 3. main theorems: the value returned together with a gradient is the plain evaluation, and column [col] of the
      gradient w.r.t. the inputs / the constants is the partial derivative of the evaluated function - for every
      well-formed stack (any length, sharing, repeated loads, p1 = p2), at every point where every operator on the
      evaluation path is differentiable.  A variable used through several paths gets the sum over all paths: the
      derivative is that of the tree in which shared rows are duplicated. *)
Theorem C02_x_gradient_is_the_partial_derivative :
  forall (s : stack) (D : Z) (xv cv : Z -> R), wf D s = true ->
  (forall i, (i < length s)%nat -> ok_expr xv cv (nth i (denote_all s) (EInt 0))) ->
  forall ncols col, (col < ncols)%nat ->
  (forall i, (i < length s)%nat -> node_of (nth i s dflt_cmd) = VARIABLE -> (0 <= p1_of (nth i s dflt_cmd) < Z.of_nat ncols)%Z) ->
  let '(v, d) := eval_with_derivative r_alg s xv cv true ncols in
  v = root r_alg s xv cv /\
  is_derive (fun t => root r_alg s (set_at xv col t) cv) (xv (Z.of_nat col)) (nth col d 0).
Proof. intros. apply (x_gradient_is_partial_derivative s D xv cv); auto. Qed.
Print Assumptions C02_x_gradient_is_the_partial_derivative.

Theorem C02_constant_gradient_is_the_partial_derivative :
  forall (s : stack) (D : Z) (xv cv : Z -> R), wf D s = true ->
  (forall i, (i < length s)%nat -> ok_expr xv cv (nth i (denote_all s) (EInt 0))) ->
  forall ncols col, (col < ncols)%nat ->
  (forall i, (i < length s)%nat -> node_of (nth i s dflt_cmd) = CONSTANT -> (0 <= p1_of (nth i s dflt_cmd) < Z.of_nat ncols)%Z) ->
  let '(v, d) := eval_with_derivative r_alg s xv cv false ncols in
  v = root r_alg s xv cv /\
  is_derive (fun t => root r_alg s xv (set_at cv col t)) (cv (Z.of_nat col)) (nth col d 0).
Proof. intros. apply (c_gradient_is_partial_derivative s D xv cv); auto. Qed.
Print Assumptions C02_constant_gradient_is_the_partial_derivative.

(* 4. an input or constant that no command loads gets derivative EXACTLY zero - over any algebra, hence also for IEEE
      doubles with NaNs elsewhere (stated for the stack as passed, i.e. the reduced stack AGraph evaluates) *)
Theorem C02_unused_input_has_exactly_zero_derivative :
  forall (V : Type) (A : alg V) (s : stack) (fe : list V) (wrt : Z) (ncols col : nat),
  (forall i, (i < length s)%nat -> node_of (nth i s dflt_cmd) = wrt ->
             Z.to_nat (pyidx (Z.of_nat ncols) (p1_of (nth i s dflt_cmd))) <> col) ->
  nth col (reverse A s fe wrt ncols) (zero A) = zero A.
Proof. intros. apply unused_column_is_exactly_zero; auto. Qed.
Print Assumptions C02_unused_input_has_exactly_zero_derivative.

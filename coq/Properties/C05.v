(* Property C05: a stored fitness is never stale. *)
From Coq Require Import List Bool Arith.
From Bingo Require Import Model.Pipeline Model.ArchPipeline Proofs.PipelineProofs Proofs.ArchPipelineProofs.
Import ListNotations.

Section C05.
Variables (G F : Type) (fit : G -> F) (opt : G -> G) (feq : F -> F -> bool).
Hypothesis feq_refl : forall v, feq v v = true.
Variable g0 : G.
(* fit: the deterministic fitness function; opt: what local optimisation does to the constants during
   evaluation (identity if none); feq only classifies reads in the model. *)

(* 1. one generational step of ANY of the five algorithms, for ANY outcome of the random variation and
      selection choices and ANY flag pattern of the incoming population (evaluated beforehand or not):
      no phase reads a missing or stale fitness, and every member of the next generation is flagged and
      carries the fitness of its current genome *)
Theorem C05_generational_step_reads_only_true_fitness :
  forall a pop specs chosen,
  Forall (fun i => flag G F i = true -> stored G F i = Some (fit (genome G F i))) pop ->
  Forall (fun i => stored G F i = None \/ stored G F i = Some (fit (genome G F i))) pop ->
  (exists next, generational_step G F fit opt feq g0 a pop specs chosen = Ok next /\
                Forall (fun i => stored G F i = Some (fit (genome G F i)) /\ flag G F i = true) next)
  \/ generational_step G F fit opt feq g0 a pop specs chosen = BadOracle.
Proof. exact (step_ok G F fit opt feq feq_refl g0). Qed.

(* 2. every history of an island: generational steps, fitness resets, migrations (some members leave, the partner island's
      arrive - each with no stored value or with its true one, since all islands share the fitness function - and every flag is
      cleared), regeneration of the population, best-individual queries and hall-of-fame updates (which evaluate the population
      when the island is new or some member is not marked evaluated, then read every member), in any order, from a freshly
      generated population: never a missing or stale read; at every boundary a flagged individual carries its true fitness *)
Theorem C05_island_history_never_stale :
  forall a ops pop0,
  Forall (fun i => stored G F i = None /\ flag G F i = false) pop0 ->
  Forall (fun o => match o with
                   | IMigrate _ _ _ incoming => Forall (fun i => stored G F i = None \/ stored G F i = Some (fit (genome G F i))) incoming
                   | _ => True end) ops ->
  (exists pop age, island_run G F fit opt feq g0 a (pop0, 0) ops = Ok (pop, age) /\
      Forall (fun i => flag G F i = true -> stored G F i = Some (fit (genome G F i))) pop)
  \/ island_run G F fit opt feq g0 a (pop0, 0) ops = BadOracle.
Proof.
  intros a ops pop0 H0 Hops.
  assert (Hi : island_inv G F fit (pop0, 0)).
  { split; simpl.
    - eapply Forall_impl; [|exact H0]. intros i [_ Hf] Hc. congruence.
    - eapply Forall_impl; [|exact H0]. intros i [Hs _]. left. exact Hs. }
  assert (Ho : Forall (iop_ok G F fit) ops).
  { eapply Forall_impl; [|exact Hops]. intros o H. destruct o; try exact I. exact H. }
  destruct (island_run_ok G F fit opt feq feq_refl g0 a ops (pop0, 0) Hi Ho) as [([pop age] & E & (I1 & _))|E].
  - left. exists pop, age. split; auto.
  - right. exact E.
Qed.

(* 3. every history of an ARCHIPELAGO of any number of islands: each island goes through the operations of theorem 2 in any
      interleaving, and islands migrate with one another - the individuals arriving at one island are the ones leaving the other,
      so the premise of theorem 2 about arrivals is discharged by the sender's own invariant; only individuals brought in from
      OUTSIDE the archipelago (AIsland k (IMigrate ...)) keep that premise.  Never a missing or stale read on any island; at
      every boundary every flagged individual of every island carries its true fitness *)
Theorem C05_archipelago_history_never_stale :
  forall a ops isls0,
  Forall (fun st => Forall (fun i => stored G F i = None /\ flag G F i = false) (fst st)) isls0 ->
  Forall (fun o => match o with
                   | AIsland _ _ _ (IMigrate _ _ _ incoming) =>
                       Forall (fun i => stored G F i = None \/ stored G F i = Some (fit (genome G F i))) incoming
                   | _ => True end) ops ->
  (exists isls, arch_run G F fit opt feq g0 a isls0 ops = Ok isls /\
      Forall (fun st => Forall (fun i => flag G F i = true -> stored G F i = Some (fit (genome G F i))) (fst st)) isls)
  \/ arch_run G F fit opt feq g0 a isls0 ops = BadOracle.
Proof.
  intros a ops isls0 H0 Hops.
  assert (Hi : Forall (island_inv G F fit) isls0).
  { eapply Forall_impl; [|exact H0]. intros st H. split.
    - eapply Forall_impl; [|exact H]. intros i [_ Hf] Hc. congruence.
    - eapply Forall_impl; [|exact H]. intros i [Hs _]. left. exact Hs. }
  assert (Ho : Forall (aop_ok G F fit) ops).
  { eapply Forall_impl; [|exact Hops]. intros o H. destruct o as [k io|]; [|exact I]. destruct io; try exact I. exact H. }
  destruct (arch_run_ok G F fit opt feq feq_refl g0 a ops isls0 Hi Ho) as [(isls & E & I1)|E].
  - left. exists isls. split; [exact E|]. eapply Forall_impl; [|exact I1]. intros st [Hf _]. exact Hf.
  - right. exact E.
Qed.
End C05.
Print Assumptions C05_generational_step_reads_only_true_fitness.
Print Assumptions C05_island_history_never_stale.
Print Assumptions C05_archipelago_history_never_stale.

(* non-vacuity: mu,lambda from an UNEVALUATED population (the F4 situation) goes through *)
Example C05_example :
  generational_step nat nat (fun g => 10 * g) (fun g => g) Nat.eqb 0 MuCommaLambda
    [mkInd nat nat 1 None false; mkInd nat nat 2 None false]
    [ONew nat [0; 1] 5; OCopy nat 1; ONew nat [1] 7] [2; 0]
  = Ok [mkInd nat nat 7 (Some 70) true; mkInd nat nat 5 (Some 50) true].
Proof. vm_compute. reflexivity. Qed.

(* non-vacuity of the history theorem: an island that receives an UNEVALUATED migrant at age 1 (the situation of finding F23)
   and is then asked for its best individual evaluates the migrant first *)
Example C05_history_example :
  island_run nat nat (fun g => 10 * g) (fun g => g) Nat.eqb 0 MuPlusLambda
    ([mkInd nat nat 1 None false; mkInd nat nat 2 None false], 0)
    [IStep nat nat [OCopy nat 0; ONew nat [1] 7] [0; 3]; IMigrate nat nat [1] [mkInd nat nat 4 None false]; IBest nat nat]
  = Ok ([mkInd nat nat 7 (Some 70) true; mkInd nat nat 4 (Some 40) true], 1).
Proof. vm_compute. reflexivity. Qed.

(* non-vacuity of the archipelago theorem: two islands, one evolves a generation, they migrate (island 0 keeps member 0 and sends
   member 1; island 1, never evaluated, keeps member 1 and sends member 0), island 0 is asked for its best: the unevaluated
   arrival is evaluated first *)
Example C05_archipelago_example :
  arch_run nat nat (fun g => 10 * g) (fun g => g) Nat.eqb 0 MuPlusLambda
    [([mkInd nat nat 1 None false; mkInd nat nat 2 None false], 0); ([mkInd nat nat 5 None false; mkInd nat nat 6 None false], 0)]
    [AIsland nat nat 0 (IStep nat nat [OCopy nat 0; ONew nat [1] 7] [0; 3]); AExchange nat nat 0 1 [0] [1] [1] [0];
     AIsland nat nat 0 (IBest nat nat)]
  = Ok [([mkInd nat nat 1 (Some 10) true; mkInd nat nat 5 (Some 50) true], 1);
        ([mkInd nat nat 6 None false; mkInd nat nat 7 (Some 70) false], 0)].
Proof. vm_compute. reflexivity. Qed.

(* Property C09: elitist algorithms never lose their best solution between generations. *)
From Coq Require Import ZArith List Bool Arith Permutation.
From Bingo Require Import Model.Best Model.Selection Model.Hof Proofs.HofProofs Proofs.ElitismProofs.
Import ListNotations.
Local Open Scope nat_scope.

(* [covers A B]: every non-NaN member of A is matched by a member of B whose fitness is no larger;
   in particular min(B) <= min(A) over non-NaN fitness values, and B has a non-NaN member if A has. *)

(* 1. age-fitness selection (any selection size, target, draws): the survivors cover the candidates.
      With C05 (all candidates carry their true fitness, parents included because the step evaluates them and
      a deterministic fitness function returns the same value again) this is: the best fitness in the
      island's population never increases over an age-fitness generational step. *)
Theorem C09_age_fitness_never_loses_its_best :
  forall sel pop target tape ret after, age_fitness sel pop target tape = Ok (ret, after) ->
  forall x fx, In x pop -> sfit x = Some fx -> exists y fy, In y ret /\ sfit y = Some fy /\ (fy <= fx)%Z.
Proof. exact age_fitness_keeps_best. Qed.
Print Assumptions C09_age_fitness_never_loses_its_best.

(* 2. deterministic crowding on parents ++ offspring with target = number of parents *)
Theorem C09_deterministic_crowding_never_loses_its_best :
  forall pop close out, crowding pop (Nat.div (length pop) 2) close = Ok out ->
  forall x fx, In x (firstn (Nat.div (length pop) 2) pop) -> sfit x = Some fx ->
  exists y fy, In y out /\ sfit y = Some fy /\ (fy <= fx)%Z.
Proof. exact crowding_keeps_best. Qed.
Print Assumptions C09_deterministic_crowding_never_loses_its_best.

(* 3. histories and archipelagos: the relation composes over generations, is invariant under the
      permutations migration performs (C11) and under union over islands *)
Theorem C09_cover_composes :
  (forall A, covers A A) /\
  (forall A B C, covers A B -> covers B C -> covers A C) /\
  (forall A A' B B', Permutation A A' -> Permutation B B' -> covers A B -> covers A' B') /\
  (forall As Bs, Forall2 covers As Bs -> covers (concat As) (concat Bs)).
Proof.
  split; [exact covers_refl|]. split; [exact covers_trans|]. split; [exact covers_perm|exact covers_concat].
Qed.
Print Assumptions C09_cover_composes.

(* 4. hall of fame: after any sequence of updates its best entry is no worse than any non-NaN key offered *)
Theorem C09_hall_of_fame_best_bounds_everything_offered :
  forall (base c : nat) (ops : list op), 1 <= c -> only_updates ops ->
  let h := run None false (Some c) base ops in
  forall z, In z (nn (all_updates ops)) -> exists b, hd_error (zs_of h) = Some b /\ (b <= z)%Z.
Proof. exact hof_best_bound. Qed.
Print Assumptions C09_hall_of_fame_best_bounds_everything_offered.

From Coq Require Import ZArith List Bool.
From Bingo Require Import Model.Cas.
Example C03_stub : True. Proof. exact I. Qed.

(* Property C03: simplification and reduction preserve the functions an equation can express.
   FULL: reduction (clause 1); the two translations between stacks and expression trees (CSE dictionary, balanced splitting of
   n-ary sums/products, constant renumbering) preserve the meaning; the optional modifications preserve the meaning;
   automatic_simplify REFINES the expression pointwise over the reals - at every point and for every setting of the constants at
   which the original is a finite real, the simplified expression is the same finite real - whenever the three power identities
   are applied to integer exponents only (model flag iexp = true: the model returns None otherwise; that flag is on for every
   stack without power operators in the correspondence check, so "the guard never fires there" is tested, not proved).
   PARTIAL (named so): the whole pipeline is a refinement relative to the contract of fold_constants (not modelled);
   for expressions with non-integer exponents automatic_simplify is only shown to rewrite by the listed identities read as
   unconditional equations (cas_laws A eq false), a reading that forces 0 = 1 (degeneracy theorem below) - a certificate of WHICH
   identities are used, not a pointwise statement; the property's "agree where both are finite, for generic constants" clause for
   power operators, termination (the model takes fuel) and floating-point effects are covered by the differential oracle only. *)
From Coq Require Import Reals ZArith List Bool Lia Lra.
From Bingo Require Import Lib.Alg Gen.OpDefs Gen.OpEval Model.Stack Model.Cas Model.Parse Model.AGraphObj Model.TermAlg
     Proofs.ReduceProofs Proofs.BuildProofs Proofs.CasProofs Proofs.CasInterpProofs Proofs.CasPipeline Proofs.CasReal Proofs.CasGuard.
Import ListNotations.

(* ---- clause 1: reduction ---- *)
Theorem C03_reduce_keeps_the_expression_and_has_one_row_per_utilized_command :
  forall D s, wf D s = true -> denote (reduce_stack s) = denote s /\ length (reduce_stack s) = count_true (utilized s).
Proof. exact reduce_stack_sound. Qed.
Print Assumptions C03_reduce_keeps_the_expression_and_has_one_row_per_utilized_command.

Theorem C03_reduce_evaluates_identically :
  forall (V : Type) (A : alg V) D s xv cv, wf D s = true -> root A (reduce_stack s) xv cv = root A s xv cv.
Proof. exact @reduce_evaluates_identically. Qed.
Print Assumptions C03_reduce_evaluates_identically.

(* ---- the interpreter: stack -> tree ---- *)
Theorem C03_build_cas_expression_means_the_stack :
  forall (V : Type) (A : alg V) (xv : Z -> V),
  (forall a, a_add A a (a_of_int A 0) = a) -> (forall a, a_mul A a (a_of_int A 1) = a) ->
  forall cv s e, scoped s -> s <> [] -> build_cas s = Some e ->
  ev A xv (cv_row cv s) e = sem A xv cv (denote s).
Proof. exact @build_cas_sound. Qed.
Print Assumptions C03_build_cas_expression_means_the_stack.

(* ---- the interpreter: tree -> stack (output well formed, root last, constants numbered in stack order) ---- *)
Theorem C03_build_agraph_stack_means_the_expression :
  forall (V : Type) (A : alg V) (xv : Z -> V),
  (forall a b c, a_add A a (a_add A b c) = a_add A (a_add A a b) c) -> (forall a, a_add A a (a_of_int A 0) = a) ->
  (forall a, a_add A (a_of_int A 0) a = a) ->
  (forall a b c, a_mul A a (a_mul A b c) = a_mul A (a_mul A a b) c) -> (forall a, a_mul A a (a_of_int A 1) = a) ->
  (forall a, a_mul A (a_of_int A 1) a = a) ->
  forall cv e out, arity_ok e = true -> build_agraph_stack e = Some out ->
  out <> [] /\ scoped out /\ length (result_ids e) = n_const out /\
  forall cv', (forall j, (j < length (result_ids e))%nat -> cv' (Z.of_nat j) = cv (nth j (result_ids e) 0%Z)) ->
    sem A xv cv' (denote (renumber out 0)) = ev A xv cv e.
Proof. exact @build_agraph_stack_sound. Qed.
Print Assumptions C03_build_agraph_stack_means_the_expression.

(* ---- automatic_simplify over the reals: wherever the original is a finite real, so is the result, and they are equal
        (checked model: merge-shape and integer-exponent assertions on; any treatment [fits] of integer folding) ---- *)
Theorem C03_automatic_simplify_refines_pointwise_over_the_reals :
  forall fits (xv cv : Z -> option R) depth rf e r,
  automatic_simplify true true fits depth rf e = Some r ->
  forall v, ev real_alg xv cv e = Some v -> ev real_alg xv cv r = Some v.
Proof. intros fits xv cv depth rf e r H. exact (auto_sound real_alg oref true real_laws fits xv cv depth rf e r H). Qed.
Print Assumptions C03_automatic_simplify_refines_pointwise_over_the_reals.

Theorem C03_optional_modifications_preserve_the_value_over_the_reals :
  forall (xv cv : Z -> option R) depth e r,
  optional_modifications depth e = Some r -> ev real_alg xv cv r = ev real_alg xv cv e.
Proof. intros xv cv depth e r. exact (optional_sound real_alg oref true real_laws xv cv depth e r). Qed.
Print Assumptions C03_optional_modifications_preserve_the_value_over_the_reals.

(* ---- the pipeline over the reals: for every setting of the original constants some setting of the simplified constants
        refines it at every point - relative to the contract of fold_constants (PARTIAL) ---- *)
Theorem C03_simplify_refines_the_expressible_functions_over_the_reals_partial :
  forall fits fold s e0 e1 e3 out fuel,
  fold_contract real_alg oref fold -> scoped s -> s <> [] ->
  build_cas s = Some e0 -> automatic_simplify true true fits fuel fuel e0 = Some e1 ->
  optional_modifications fuel (fold e1) = Some e3 -> arity_ok e3 = true -> build_agraph_stack e3 = Some out ->
  out <> [] /\ scoped out /\
  forall cv, exists cv', forall xv v,
    sem real_alg xv cv (denote s) = Some v -> sem real_alg xv cv' (denote (renumber out 0)) = Some v.
Proof. exact (simplify_pipeline real_alg oref true real_laws). Qed.
Print Assumptions C03_simplify_refines_the_expressible_functions_over_the_reals_partial.

(* ---- the model's assertion flags.  Switching assertions on only removes answers: every answer of the checked model is the
        answer of the code as written.  The integer-exponent assertion provably never fires - with unbounded integer folding - on
        expressions whose power nodes all carry INTEGER-leaf exponents, in particular on everything built from a stack without
        power operators; with int64 folding (fits64, the code) it can only fire after an exponent computation overflowed. ---- *)
Theorem C03_every_answer_of_the_checked_model_is_the_answer_of_the_code_as_written :
  forall fits depth rf e r,
  automatic_simplify true true fits depth rf e = Some r -> automatic_simplify false false fits depth rf e = Some r.
Proof. exact checked_answers_are_the_codes. Qed.
Print Assumptions C03_every_answer_of_the_checked_model_is_the_answer_of_the_code_as_written.

Theorem C03_the_integer_exponent_guard_never_fires_on_integer_exponents :
  forall chk fits, (forall k, fits k = true) -> forall depth rf e, int_exps e = true ->
  automatic_simplify chk true fits depth rf e = automatic_simplify chk false fits depth rf e /\
  forall r, automatic_simplify chk false fits depth rf e = Some r -> int_exps r = true.
Proof. exact guard_automatic. Qed.
Print Assumptions C03_the_integer_exponent_guard_never_fires_on_integer_exponents.

Theorem C03_the_integer_exponent_guard_never_fires_on_power_free_stacks :
  forall chk fits s e0, (forall k, fits k = true) ->
  (forall c, In c s -> node_of c <> POWER /\ node_of c <> SAFE_POWER) -> build_cas s = Some e0 ->
  forall depth rf, automatic_simplify chk true fits depth rf e0 = automatic_simplify chk false fits depth rf e0.
Proof. exact power_free_stack_simplified_as_written. Qed.
Print Assumptions C03_the_integer_exponent_guard_never_fires_on_power_free_stacks.

(* ---- the headline for equations without power operators: at every point and every setting of the constants at which the
        ORIGINAL STACK evaluates to a finite real, the automatically simplified expression evaluates to the same real.
        (a) int64 folding as in the code: for every answer of the checked model, which is then also the code's answer;
        (b) unbounded folding: for every answer of the model without the integer-exponent assertion ---- *)
Theorem C03_power_free_equations_are_refined_pointwise_over_the_reals :
  forall s e0 depth rf r, scoped s -> s <> [] -> build_cas s = Some e0 ->
  automatic_simplify true true fits64 depth rf e0 = Some r ->
  automatic_simplify false false fits64 depth rf e0 = Some r /\
  forall xv cv v, sem real_alg xv cv (denote s) = Some v -> ev real_alg xv (cv_row cv s) r = Some v.
Proof.
  intros s e0 depth rf r Sc NE H0 H1. split; [apply checked_answers_are_the_codes; exact H1|]. intros xv cv v Hv.
  apply (auto_sound real_alg oref true real_laws fits64 xv (cv_row cv s) depth rf e0 r H1).
  rewrite (build_cas_sound real_alg xv (l_add_0_r _ _ _ real_laws) (l_mul_1_r _ _ _ real_laws) cv s e0 Sc NE H0). exact Hv.
Qed.
Print Assumptions C03_power_free_equations_are_refined_pointwise_over_the_reals.

Theorem C03_power_free_equations_are_refined_pointwise_with_unbounded_integer_folding :
  forall fits s e0 depth rf r, (forall k, fits k = true) ->
  (forall c, In c s -> node_of c <> POWER /\ node_of c <> SAFE_POWER) -> scoped s -> s <> [] ->
  build_cas s = Some e0 -> automatic_simplify true false fits depth rf e0 = Some r ->
  forall xv cv v, sem real_alg xv cv (denote s) = Some v -> ev real_alg xv (cv_row cv s) r = Some v.
Proof.
  intros fits s e0 depth rf r FA NP Sc NE H0 H1 xv cv v Hv.
  rewrite <- (power_free_stack_simplified_as_written true fits s e0 FA NP H0) in H1.
  apply (auto_sound real_alg oref true real_laws fits xv (cv_row cv s) depth rf e0 r H1).
  rewrite (build_cas_sound real_alg xv (l_add_0_r _ _ _ real_laws) (l_mul_1_r _ _ _ real_laws) cv s e0 Sc NE H0). exact Hv.
Qed.
Print Assumptions C03_power_free_equations_are_refined_pointwise_with_unbounded_integer_folding.

(* ---- any algebra, any preorder: the same two statements relative to the list of identities ---- *)
Theorem C03_automatic_simplify_sound_in_every_model_of_the_identities :
  forall (V : Type) (A : alg V) ref iexp, cas_laws A ref iexp -> forall fits xv cv depth rf e r,
  automatic_simplify true iexp fits depth rf e = Some r -> ref (ev A xv cv r) (ev A xv cv e).
Proof. intros V A ref iexp L fits xv cv depth rf e r. apply auto_sound. exact L. Qed.
Print Assumptions C03_automatic_simplify_sound_in_every_model_of_the_identities.

Theorem C03_simplify_pipeline_in_every_model_of_the_identities_partial :
  forall (V : Type) (A : alg V) ref iexp, cas_laws A ref iexp ->
  forall fits fold s e0 e1 e3 out fuel,
  fold_contract A ref fold -> scoped s -> s <> [] ->
  build_cas s = Some e0 -> automatic_simplify true iexp fits fuel fuel e0 = Some e1 ->
  optional_modifications fuel (fold e1) = Some e3 -> arity_ok e3 = true -> build_agraph_stack e3 = Some out ->
  out <> [] /\ scoped out /\
  forall cv, exists cv', forall xv, ref (sem A xv cv' (denote (renumber out 0))) (sem A xv cv (denote s)).
Proof. intros V A ref iexp L. apply simplify_pipeline. exact L. Qed.
Print Assumptions C03_simplify_pipeline_in_every_model_of_the_identities_partial.

(* the identities hold pointwise over the reals with the integer-exponent guard ... *)
Theorem C03_the_identities_hold_over_the_reals_for_integer_exponents : cas_laws real_alg oref true.
Proof. exact real_laws. Qed.
Print Assumptions C03_the_identities_hold_over_the_reals_for_integer_exponents.

(* ... and read as unconditional equations without the guard they force 0 = 1 *)
Theorem C03_the_identities_are_only_jointly_valid_in_the_degenerate_algebra :
  forall (V : Type) (A : alg V), cas_laws A eq false -> a_of_int A 0 = a_of_int A 1.
Proof. exact @cas_laws_degenerate. Qed.
Print Assumptions C03_the_identities_are_only_jointly_valid_in_the_degenerate_algebra.

(* non-vacuity: a concrete stack through the whole model pipeline with the guard on (fold = identity):
   (X_0 + 2) + (X_0 - 2)*1 + sin(0)  ->  X_0 + X_0 collected to 2*X_0; and x/x -> 1, which is a proper refinement: at X_0 = 0
   the original is undefined, the result is 1; at X_0 = 2 both are 1 *)
Definition ex_s : stack := [(0, 0, 0); (-1, 2, 2); (2, 0, 1); (3, 0, 1); (-1, 1, 1); (4, 3, 4); (2, 2, 5); (-1, 0, 0); (6, 7, 7); (2, 6, 8)]%Z.
Definition x_over_x : cexpr := Node DIVISION [Leaf VARIABLE 0; Leaf VARIABLE 0].
Definition x2_over_x : cexpr := Node DIVISION [Node MULTIPLICATION [Leaf VARIABLE 0; Leaf VARIABLE 0]; Leaf VARIABLE 0].
Example C03_example :
  simplify_stack true true fits64 200 (fun e => e) ex_s = Some [(-1, 2, 2); (0, 0, 0); (4, 0, 1)]%Z /\
  (forall x, root z_alg [(-1, 2, 2); (0, 0, 0); (4, 0, 1)]%Z (fun _ => x) (fun _ => 0%Z) = (2 * x)%Z) /\
  automatic_simplify true true fits64 20 20 x_over_x = Some ONE /\
  automatic_simplify true true fits64 20 20 x2_over_x = Some (Leaf VARIABLE 0) /\
  (forall cv, ev real_alg (fun _ => Some 0%R) cv x_over_x = None /\ ev real_alg (fun _ => Some 0%R) cv ONE = Some 1%R) /\
  (forall cv, ev real_alg (fun _ => Some 2%R) cv x_over_x = Some 1%R) /\
  (* 3^40 does not fit the int64 command array: it is not folded (fix F20) *)
  automatic_simplify true true fits64 20 20 (Node POWER [mk_int 3; mk_int 40]) = Some (Node POWER [mk_int 3; mk_int 40]) /\
  automatic_simplify true true fits64 20 20 (Node POWER [mk_int 3; mk_int 39]) = Some (mk_int 4052555153018976267).
Proof.
  split; [vm_compute; reflexivity|]. split; [intros x; cbv -[Z.mul Z.add]; lia|].
  split; [vm_compute; reflexivity|]. split; [vm_compute; reflexivity|]. split; [intros cv|split; [intros cv|]].
  - split; [|reflexivity]. cbn. destruct (Req_EM_T 0 0) as [_|N]; [reflexivity|contradiction].
  - cbn. destruct (Req_EM_T 2 0) as [E|_]; [exfalso; lra|]. f_equal. field.
  - split; vm_compute; reflexivity.
Qed.

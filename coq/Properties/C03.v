(* Property C03: simplification and reduction preserve the functions an equation can express.
   FULL: reduction (clause 1); the two translations between stacks and expression trees (CSE dictionary, balanced splitting of
   n-ary sums/products, constant renumbering) preserve the meaning; the optional modifications preserve the meaning.
   PARTIAL (named so): automatic_simplify and the whole pipeline are sound RELATIVE to the list of identities [cas_laws] - every
   rewrite is an instance of one of them - and relative to the contract of fold_constants (not modelled). The identities hold over
   the reals only on their domains (positive power bases, non-zero denominators); taken unconditionally they force 0 = 1
   (cas_laws_degenerate below), so these two theorems are a certificate of WHICH identities are used, not a pointwise statement.
   What is missing for the full statement: the domain bookkeeping (refinement where the original is finite), the contract of
   fold_constants, termination (the model takes fuel). These are covered by the differential oracle only. *)
From Coq Require Import ZArith List Bool Lia.
From Bingo Require Import Lib.Alg Gen.OpDefs Gen.OpEval Model.Stack Model.Cas Model.Parse Model.AGraphObj Model.TermAlg
     Proofs.ReduceProofs Proofs.BuildProofs Proofs.CasProofs Proofs.CasInterpProofs Proofs.CasPipeline.
Import ListNotations.

(* ---- clause 1: reduction ---- *)
Theorem C03_reduce_keeps_the_expression_and_has_one_row_per_utilized_command :
  forall D s, wf D s = true -> denote (reduce_stack s) = denote s /\ length (reduce_stack s) = count_true (utilized s).
Proof. exact reduce_stack_sound. Qed.
Print Assumptions C03_reduce_keeps_the_expression_and_has_one_row_per_utilized_command.

Theorem C03_reduce_evaluates_identically :
  forall (V : Type) (A : alg V) D s xv cv, wf D s = true -> root A (reduce_stack s) xv cv = root A s xv cv.
Proof. exact @reduce_evaluates_identically. Qed.
Print Assumptions C03_reduce_evaluates_identically.

(* ---- the interpreter: stack -> tree ---- *)
Theorem C03_build_cas_expression_means_the_stack :
  forall (V : Type) (A : alg V) (xv : Z -> V),
  (forall a, a_add A a (a_of_int A 0) = a) -> (forall a, a_mul A a (a_of_int A 1) = a) ->
  forall cv s e, scoped s -> s <> [] -> build_cas s = Some e ->
  ev A xv (cv_row cv s) e = sem A xv cv (denote s).
Proof. exact @build_cas_sound. Qed.
Print Assumptions C03_build_cas_expression_means_the_stack.

(* ---- the interpreter: tree -> stack (output well formed, root last, constants numbered in stack order) ---- *)
Theorem C03_build_agraph_stack_means_the_expression :
  forall (V : Type) (A : alg V) (xv : Z -> V),
  (forall a b c, a_add A a (a_add A b c) = a_add A (a_add A a b) c) -> (forall a, a_add A a (a_of_int A 0) = a) ->
  (forall a, a_add A (a_of_int A 0) a = a) ->
  (forall a b c, a_mul A a (a_mul A b c) = a_mul A (a_mul A a b) c) -> (forall a, a_mul A a (a_of_int A 1) = a) ->
  (forall a, a_mul A (a_of_int A 1) a = a) ->
  forall cv e out, arity_ok e = true -> build_agraph_stack e = Some out ->
  out <> [] /\ scoped out /\ length (result_ids e) = n_const out /\
  forall cv', (forall j, (j < length (result_ids e))%nat -> cv' (Z.of_nat j) = cv (nth j (result_ids e) 0%Z)) ->
    sem A xv cv' (denote (renumber out 0)) = ev A xv cv e.
Proof. exact @build_agraph_stack_sound. Qed.
Print Assumptions C03_build_agraph_stack_means_the_expression.

(* ---- automatic_simplify: every rewrite is an instance of the listed identities (PARTIAL, see the header) ---- *)
Theorem C03_automatic_simplify_sound_partial :
  forall (V : Type) (A : alg V), cas_laws A -> forall xv cv depth rf e r,
  automatic_simplify true depth rf e = Some r -> ev A xv cv r = ev A xv cv e.
Proof. intros V A L xv cv depth rf e r. apply auto_sound. exact L. Qed.
Print Assumptions C03_automatic_simplify_sound_partial.

Theorem C03_optional_modifications_sound_partial :
  forall (V : Type) (A : alg V), cas_laws A -> forall xv cv depth e r,
  optional_modifications depth e = Some r -> ev A xv cv r = ev A xv cv e.
Proof. intros V A L xv cv depth e r. apply optional_sound. exact L. Qed.
Print Assumptions C03_optional_modifications_sound_partial.

(* ---- the pipeline: for every setting of the original constants some setting of the simplified constants agrees at every
        point - relative to the identities and to the contract of fold_constants (PARTIAL) ---- *)
Theorem C03_simplify_preserves_the_expressible_functions_partial :
  forall (V : Type) (A : alg V), cas_laws A ->
  forall fold s e0 e1 e3 out fuel,
  fold_contract A fold -> scoped s -> s <> [] ->
  build_cas s = Some e0 -> automatic_simplify true fuel fuel e0 = Some e1 ->
  optional_modifications fuel (fold e1) = Some e3 -> arity_ok e3 = true -> build_agraph_stack e3 = Some out ->
  out <> [] /\ scoped out /\
  forall cv, exists cv', forall xv, sem A xv cv' (denote (renumber out 0)) = sem A xv cv (denote s).
Proof. intros V A L. apply simplify_pipeline. exact L. Qed.
Print Assumptions C03_simplify_preserves_the_expressible_functions_partial.

Theorem C03_the_identities_are_only_jointly_valid_in_the_degenerate_algebra :
  forall (V : Type) (A : alg V), cas_laws A -> a_of_int A 0 = a_of_int A 1.
Proof. exact @cas_laws_degenerate. Qed.
Print Assumptions C03_the_identities_are_only_jointly_valid_in_the_degenerate_algebra.

(* non-vacuity: the interpreter theorems' hypotheses hold over the integers; a concrete stack through the whole model pipeline
   (fold = identity): (X_0 + 2) + (X_0 - 2)*1 + sin(0)  ->  X_0 + X_0 collected to 2*X_0 *)
Definition ex_s : stack := [(0, 0, 0); (-1, 2, 2); (2, 0, 1); (3, 0, 1); (-1, 1, 1); (4, 3, 4); (2, 2, 5); (-1, 0, 0); (6, 7, 7); (2, 6, 8)]%Z.
Example C03_example :
  simplify_stack true 200 (fun e => e) ex_s = Some [(-1, 2, 2); (0, 0, 0); (4, 0, 1)]%Z /\
  (forall x, root z_alg [(-1, 2, 2); (0, 0, 0); (4, 0, 1)]%Z (fun _ => x) (fun _ => 0%Z) = (2 * x)%Z) /\
  (forall a : Z, (a + 0 = a)%Z) /\ (forall a : Z, (a * 1 = a)%Z).
Proof. split; [vm_compute; reflexivity|]. split; [intros x; cbv -[Z.mul Z.add]; lia|]. split; intros a; lia. Qed.

(* Property C07: regression fitness values and gradients match their mathematical definitions.
   The four metrics and the four metric derivatives are TRANSLATED from the current source (Gen/Metrics.v). *)
From Coquelicot Require Import Coquelicot.
From Coq Require Import Reals List.
From Bingo Require Import Lib.RVec Gen.Metrics Model.Explicit Proofs.MetricsProofs.
Import ListNotations.
Open Scope R_scope.

(* the metrics are the textbook formulas *)
Theorem C07_metric_definitions :
  forall v k, mean_absolute_error v k = vmean (vabs v) /\ mean_squared_error v k = vmean (vsquare v) /\
              root_mean_squared_error v k = sqrt (vmean (vsquare v)) /\
              negative_nmll_laplace v k =
                - ((1 - 1 / sqrt (vlen v)) * (- vlen v / 2 * ln (vmean (vsquare v)) - vlen v / 2 - vlen v / 2 * ln (2 * PI))
                   + ln (1 / sqrt (vlen v)) / 2 * (k + 1)).
Proof. intros v k. repeat split; reflexivity. Qed.

(* an equation reproducing the data has the minimal fitness *)
Theorem C07_exact_fit_is_minimal :
  (forall v k, 0 <= mean_absolute_error v k /\ 0 <= mean_squared_error v k /\ 0 <= root_mean_squared_error v k) /\
  (forall n k, let v := repeat 0 n in
     mean_absolute_error v k = 0 /\ mean_squared_error v k = 0 /\ root_mean_squared_error v k = 0).
Proof. split; [exact mae_mse_rmse_nonnegative|exact zero_residual_has_zero_fitness]. Qed.
Print Assumptions C07_exact_fit_is_minimal.

(* the gradient paired with each metric is the derivative of that metric: fs are the components of the fitness
   vector as functions of ONE constant c_j, row j of M (= Jacobian^T) their derivatives *)
Theorem C07_mse_gradient : forall fs t0 M j k, derivs fs t0 (nth j M []) ->
  is_derive (fun t => mean_squared_error (at_ fs t) k) t0 (nth j (d_mean_squared_error_derivative (at_ fs t0) M) 0).
Proof. exact mse_gradient. Qed.
Theorem C07_mae_gradient : forall fs t0 M j k, derivs fs t0 (nth j M []) -> Forall (fun f => f t0 <> 0) fs ->
  is_derive (fun t => mean_absolute_error (at_ fs t) k) t0 (nth j (d_mean_absolute_error_derivative (at_ fs t0) M) 0).
Proof. exact mae_gradient. Qed.
Theorem C07_rmse_gradient : forall fs t0 M j k, derivs fs t0 (nth j M []) -> 0 < vmean (vsquare (at_ fs t0)) ->
  is_derive (fun t => root_mean_squared_error (at_ fs t) k) t0 (nth j (d_root_mean_squared_error_derivative (at_ fs t0) M) 0).
Proof. exact rmse_gradient. Qed.
Theorem C07_nmll_gradient : forall fs t0 M j k, derivs fs t0 (nth j M []) -> 0 < vmean (vsquare (at_ fs t0)) ->
  is_derive (fun t => negative_nmll_laplace (at_ fs t) k) t0 (nth j (d_negative_nmll_laplace_derivative (at_ fs t0) M) 0).
Proof. exact nmll_gradient. Qed.
Print Assumptions C07_mse_gradient.
Print Assumptions C07_nmll_gradient.

(* residual and Jacobian assembly, absolute and relative *)
Theorem C07_residual_jacobian : forall relative fs ys t0 ds, derivs fs t0 ds -> length ys = length fs ->
  (relative = true -> Forall (fun y => y <> 0) ys) ->
  derivs (residual_fs relative fs ys) t0 (residual_ds relative ds ys).
Proof. exact residual_jacobian. Qed.
Print Assumptions C07_residual_jacobian.

(* use_linear_correction=True: f is replaced by intercept + slope*f and the Jacobian by slope*J.  That IS the derivative of
   the corrected residual for slope and intercept HELD FIXED at the values linregress returned (any values: they are an
   oracle).  It is NOT claimed to be the total derivative through slope(c), intercept(c): the property text defines the
   fitness without the correction, and the code does not differentiate through the regression. *)
Theorem C07_linear_correction_jacobian_for_fixed_slope_and_intercept_partial :
  forall relative slope intercept fs ys t0 ds, derivs fs t0 ds -> length ys = length fs ->
  (relative = true -> Forall (fun y => y <> 0) ys) ->
  derivs (residual_fs relative (corrected_fs slope intercept fs) ys) t0
         (residual_ds relative (corrected_ds slope ds) ys).
Proof. exact corrected_residual_jacobian. Qed.
Print Assumptions C07_linear_correction_jacobian_for_fixed_slope_and_intercept_partial.

(* each fitness call increases the evaluation counter by exactly one *)
Theorem C07_eval_count_plus_one : forall s rel fx dfdc y,
  eval_count (fst (evaluate_fitness_vector s rel fx y)) = S (eval_count s) /\
  eval_count (fst (get_fitness_vector_and_jacobian s rel fx dfdc y)) = S (eval_count s).
Proof. intros. split; reflexivity. Qed.
Theorem C07_eval_count_plus_one_with_linear_correction : forall s lc rel fx dfdc y,
  eval_count (fst (evaluate_fitness_vector_lc s lc rel fx y)) = S (eval_count s) /\
  eval_count (fst (get_fitness_vector_and_jacobian_lc s lc rel fx dfdc y)) = S (eval_count s).
Proof. intros. split; reflexivity. Qed.

(* Property C06: local optimization leaves the individual and its reported fitness in agreement.
   scipy is an oracle: ANY sequence of trial vectors, ANY final vector, TypeError on the first attempt or not. *)
From Coq Require Import ZArith List Bool.
From Bingo Require Import Lib.Key Model.LocalOpt Proofs.LocalOptProofs.
Import ListNotations.

Theorem C06_reported_fitness_is_base_fitness_of_final_constants :
  forall (C : Type) (base : list C -> key) o i r1 r2 o' i' v, lo_call C base o i r1 r2 = (o', i', Some v) ->
  v = base (consts C i') /\ (needs_opt C i = true -> needs_opt C i' = false) /\ method o' = method o.
Proof. exact lo_call_spec. Qed.
Print Assumptions C06_reported_fitness_is_base_fitness_of_final_constants.

Theorem C06_final_constants_are_what_the_optimizer_returned :
  forall (C : Type) (base : list C -> key) o i r1 r2 o' i' v, lo_call C base o i r1 r2 = (o', i', Some v) ->
  needs_opt C i = true ->
  (consts C i = [] /\ consts C i' = []) \/
  (exists tr fin, r1 = Returns C tr fin /\ consts C i' = fin) \/
  (exists tr tr2 fin, r1 = RaisesTypeError C tr /\ r2 = Returns C tr2 fin /\ consts C i' = fin).
Proof. exact lo_call_final_constants. Qed.
Print Assumptions C06_final_constants_are_what_the_optimizer_returned.

Theorem C06_untouched_when_optimization_is_not_requested :
  forall (C : Type) (base : list C -> key) o i r1 r2, needs_opt C i = false ->
  lo_call C base o i r1 r2 = (o, i, Some (base (consts C i))).
Proof. exact lo_call_untouched. Qed.
Print Assumptions C06_untouched_when_optimization_is_not_requested.

(* re-fitting through the regressor wrapper: the result is never worse than the first fit (first < result is false,
   also when NaN fitness values occur), and the reported fitness is the base fitness of the constants returned *)
Theorem C06_refit_is_never_worse_than_the_first_fit :
  forall (C : Type) (base : list C -> key) first retries,
  Forall (fun fc => fst fc = base (snd fc)) (first :: retries) ->
  let '(f, c) := regressor_fit C first retries in klt (fst first) f = false /\ f = base c.
Proof. exact regressor_fit_spec. Qed.
Print Assumptions C06_refit_is_never_worse_than_the_first_fit.

Example C06_example :
  regressor_fit nat (Some 5%Z, [1]%nat) [(None, [2]%nat); (Some 3%Z, [3]%nat); (None, [4]%nat); (Some 3%Z, [5]%nat); (Some 4%Z, [6]%nat)]
  = (Some 3%Z, [3]%nat)
  /\ regressor_fit nat (None, [1]%nat) [(Some 3%Z, [3]%nat)] = (None, [1]%nat).
Proof. vm_compute. split; reflexivity. Qed.

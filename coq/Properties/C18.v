(* Property C18: an equation object always behaves as its current stack and constants dictate.
   Objects live in a store of arrays (Model/AGraphObj.v); a history is ANY list of operations on ANY number of objects;
   S (reduce_stack / simplify_stack, chosen by the object's flag) is ANY function. *)
From Coq Require Import ZArith List Bool.
From Bingo Require Import Gen.OpDefs Model.Stack Model.AGraphObj Proofs.AGraphObjProofs.
Import ListNotations.

(* clause 1: after any history, what the updating observers (constant count, needs-optimisation, complexity, strings, values,
   gradients: all functions of the refreshed (stack, constants, flag) triple) return for ANY object equals what a freshly
   constructed equation with the same command stack, simplification setting and constants returns *)
Theorem C18_every_observation_is_that_of_a_fresh_equation :
  forall (Cst : Type) (one_c : Cst) (S : bool -> stack -> stack) (ops : list (op Cst)) i g,
  nth_error (objs (run Cst one_c S ops)) i = Some g ->
  observation Cst one_c S (run Cst one_c S ops) i =
  Some (fresh_observation Cst one_c S (use_simp g) (nth (cmd_p g) (heap (run Cst one_c S ops)) []) (consts g) (needs_opt g)).
Proof. exact reachable_observation_is_fresh. Qed.
Print Assumptions C18_every_observation_is_that_of_a_fresh_equation.

(* the cache invariant behind it: whenever the modified flag is down, the cached stack IS the renumbered transformation of the
   current command stack and there are exactly as many constants as CONSTANT rows *)
Theorem C18_cache_is_coherent_whenever_the_flag_is_down :
  forall (Cst : Type) (one_c : Cst) (S : bool -> stack -> stack) (ops : list (op Cst)) i g,
  nth_error (objs (run Cst one_c S ops)) i = Some g -> modified g = false ->
  nth (simp_p g) (heap (run Cst one_c S ops)) [] =
    renumber (S (use_simp g) (nth (cmd_p g) (heap (run Cst one_c S ops)) [])) 0 /\
  length (consts g) = n_const (nth (simp_p g) (heap (run Cst one_c S ops)) []).
Proof. exact reachable_cache_coherent. Qed.
Print Assumptions C18_cache_is_coherent_whenever_the_flag_is_down.

(* every write path installs the written stack, raises the flag and clears fitness; nothing else of the object changes *)
Theorem C18_setter_write_invalidates :
  forall (Cst : Type) (one_c : Cst) (S : bool -> stack -> stack) (ops : list (op Cst)) i g s,
  let w := run Cst one_c S ops in
  nth_error (objs w) i = Some g ->
  view_at Cst (step Cst one_c S w (SetArray i s)) i =
  Some (mkV s (nth (simp_p g) (heap w) []) (consts g) (needs_opt g) true (use_simp g) None false (age g)).
Proof. intros Cst one_c S ops i g s w H. apply set_array_effect; [apply run_inv|exact H]. Qed.
Print Assumptions C18_setter_write_invalidates.

Theorem C18_mutable_view_write_invalidates :
  forall (Cst : Type) (one_c : Cst) (S : bool -> stack -> stack) (ops : list (op Cst)) i g r c,
  let w := run Cst one_c S ops in
  nth_error (objs w) i = Some g ->
  view_at Cst (step Cst one_c S w (WriteRow i r c)) i =
  Some (mkV (upd (nth (cmd_p g) (heap w) []) r c) (nth (simp_p g) (heap w) []) (consts g) (needs_opt g) true (use_simp g)
            None false (age g)).
Proof. intros Cst one_c S ops i g r c w H. apply write_row_effect; [apply run_inv|exact H]. Qed.
Print Assumptions C18_mutable_view_write_invalidates.

(* clause 2a: a copy has the stack, cache, constants, flags, fitness, evaluated flag and age of its source at the time of copying,
   and copying changes nothing of the source *)
Theorem C18_copy_equals_source_at_copy_time :
  forall (Cst : Type) (one_c : Cst) (S : bool -> stack -> stack) (ops : list (op Cst)) i g,
  let w := run Cst one_c S ops in
  nth_error (objs w) i = Some g ->
  view_at Cst (step Cst one_c S w (Copy i)) (length (objs w)) = Some (view_of Cst (heap w) g) /\
  view_at Cst (step Cst one_c S w (Copy i)) i = view_at Cst w i.
Proof. intros Cst one_c S ops i g w H. apply copy_same; [apply run_inv|exact H]. Qed.
Print Assumptions C18_copy_equals_source_at_copy_time.

(* clause 2b: independence - whatever is done afterwards to OTHER objects (the source, the copy, copies of copies, new
   equations), object j keeps every array value, constant, flag, fitness and age, hence every observation *)
Theorem C18_operations_on_other_objects_change_nothing :
  forall (Cst : Type) (one_c : Cst) (S : bool -> stack -> stack) (ops later : list (op Cst)) j,
  let w := run Cst one_c S ops in
  (j < length (objs w))%nat ->
  Forall (fun o => target Cst o <> Some j) later ->
  view_at Cst (fold_left (step Cst one_c S) later w) j = view_at Cst w j /\
  observation Cst one_c S (fold_left (step Cst one_c S) later w) j = observation Cst one_c S w j.
Proof.
  intros Cst one_c S ops later j w L F.
  assert (E : view_at Cst (fold_left (step Cst one_c S) later w) j = view_at Cst w j)
    by (apply others_untouched; [apply run_inv|exact L|exact F]).
  split; [exact E|]. rewrite !observation_view, E. reflexivity.
Qed.
Print Assumptions C18_operations_on_other_objects_change_nothing.

(* non-vacuity: a history with writes through both paths, reads, a constant write, copies and writes to source and copy *)
Definition ex_S (flag : bool) (s : stack) : stack := if flag then s else reduce_stack s.
Definition ex_ops : list (op Z) :=
  [New false [(1, 0, 0); (0, 0, 0); (1, 1, 1); (2, 0, 1); (2, 3, 2)]%Z; Observe 0; SetConsts 0 [5; 7; 9]%Z; SetFitness 0 3%Z;
   Copy 0; WriteRow 0 4 (2, 3, 3)%Z; Observe 0; SetArray 1 [(1, 0, 0); (6, 0, 0)]%Z; Observe 1; Copy 1; SetAge 2 4%Z].
Example C18_example :
  observation Z 1%Z ex_S (run Z 1%Z ex_S ex_ops) 0 = Some ([(1, 0, 0); (0, 0, 0); (2, 0, 1); (2, 2, 2)]%Z, [5%Z], false) /\
  observation Z 1%Z ex_S (run Z 1%Z ex_S ex_ops) 1 = Some ([(1, 0, 0); (6, 0, 0)]%Z, [5%Z], false) /\
  option_map (fun v => (v_fit v, v_fset v, v_age v)) (view_at Z (run Z 1%Z ex_S ex_ops) 2) = Some (None, false, 4%Z) /\
  option_map (fun v => (v_fit v, v_fset v)) (view_at Z (run Z 1%Z ex_S (firstn 5 ex_ops)) 1) = Some (Some 3%Z, true).
Proof. vm_compute. repeat split. Qed.

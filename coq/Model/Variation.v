(* Model of the random generator, the five mutations and crossover of AGraph stacks - property C04.
   bingo/symbolic_regression/agraph/component_generator.py, generator.py, mutation.py, crossover.py,
   bingo/util/probability_mass_function.py (draw_sample = one index draw).
   Every random choice is read from a TAPE of integers: a computation over a tape ends in
     Ok v rest   - the code returns v having consumed the draws before [rest]
     Raise       - the code raises (ValueError of an empty randint range, IndexError of an empty PMF, ...)
     BadTape     - the tape ended, or a draw lies outside the range the generator can return: not an outcome of the real RNG.
   Theorems quantify over ALL tapes. The attempt bounds and dispatch order are TRANSLATED (Gen/VarConsts.v). *)
From Coq Require Import ZArith List Bool.
From Bingo Require Import Gen.OpDefs Gen.VarConsts Model.Stack Model.AGraphObj.
Import ListNotations.
Open Scope Z_scope.

Inductive res (A : Type) : Type := Ok (a : A) (rest : list Z) | Raise | BadTape.
Arguments Ok {A}. Arguments Raise {A}. Arguments BadTape {A}.
Definition M (A : Type) := list Z -> res A.
Definition ret {A} (a : A) : M A := fun t => Ok a t.
Definition bind {A B} (m : M A) (f : A -> M B) : M B :=
  fun t => match m t with Ok a t' => f a t' | Raise => Raise | BadTape => BadTape end.
Notation "x <- m ;; f" := (bind m (fun x => f)) (at level 61, m at next level, right associativity).

(* one integer from [lo, hi): np.random.randint(lo, hi), random.randrange(lo, hi); empty range -> ValueError *)
Definition draw_range (lo hi : Z) : M Z :=
  fun t => if hi <=? lo then Raise
           else match t with [] => BadTape | v :: r => if (lo <=? v) && (v <? hi) then Ok v r else BadTape end.
Definition draw_below (n : Z) : M Z := draw_range 0 n.             (* np.random.randint(n) *)
Definition py_randint (a b : Z) : M Z := draw_range a (b + 1).      (* random.randint(a, b), inclusive *)
(* ProbabilityMassFunction.draw_sample: items[searchsorted(cumulative, random())]; no items -> IndexError *)
Definition pmf_draw (items : list Z) : M Z :=
  k <- draw_below (Z.of_nat (length items)) ;; ret (nth (Z.to_nat k) items 0).
(* np.random.choice(list) *)
Definition choice (items : list nat) : M nat :=
  k <- draw_below (Z.of_nat (length items)) ;; ret (nth (Z.to_nat k) items O).

Record cfg := mkCfg { cD : Z; c_init : Z; c_ops : list Z }.   (* input_x_dimension, num_initial_load_statements, operator items *)

Section Gen.
Variable c : cfg.

(* ---------------- component_generator.py ---------------- *)
Definition random_terminal : M Z := pmf_draw terminal_items.
Definition random_terminal_parameter (t : Z) : M Z := if t =? 0 then draw_below (cD c) else ret (-1).
Definition random_terminal_command : M cmd :=
  t <- random_terminal ;; p <- random_terminal_parameter t ;; ret (t, p, p).
Definition random_operator : M Z := pmf_draw (c_ops c).
Definition random_operator_command (loc : Z) : M cmd :=
  o <- random_operator ;; p1 <- draw_below loc ;; p2 <- draw_below loc ;; ret (o, p1, p2).
Definition random_command (loc : Z) : M cmd :=
  if loc <? c_init c then random_terminal_command
  else k <- draw_below 2 ;; if k =? 0 then random_terminal_command else random_operator_command loc.

(* ---------------- generator.py: _create_command_array ---------------- *)
Fixpoint gen_rows (n : nat) (i : Z) : M stack :=
  match n with
  | O => ret []
  | S n' => r <- random_command i ;; rs <- gen_rows n' (i + 1) ;; ret (r :: rs)
  end.
Definition generate (size : nat) : M stack := gen_rows size 0.

(* ---------------- helpers ---------------- *)
Definition dcmd : cmd := (0, 0, 0).
Fixpoint idx_where_from {A} (f : nat -> A -> bool) (i : nat) (l : list A) : list nat :=
  match l with [] => [] | x :: r => if f i x then i :: idx_where_from f (S i) r else idx_where_from f (S i) r end.
Definition idx_where {A} (f : nat -> A -> bool) (l : list A) : list nat := idx_where_from f O l.
Definition cmd_eqb (a b : cmd) : bool := (node_of a =? node_of b) && (p1_of a =? p1_of b) && (p2_of a =? p2_of b).
Definition zi (i : nat) : Z := Z.of_nat i.

(* ---------------- _mutate_command ---------------- *)
Definition bad_command (old new : cmd) : bool :=
  cmd_eqb new old || ((node_of old =? CONSTANT) && (node_of new =? CONSTANT)).
Fixpoint cmd_loop (loc : Z) (old : cmd) (fuel : nat) (new : cmd) : M (option cmd) :=
  if bad_command old new
  then match fuel with O => ret None | S f => n <- random_command loc ;; cmd_loop loc old f n end
  else ret (Some new).
Definition mutate_command (s : stack) : M (stack * bool) :=
  loc <- choice (idx_where (fun _ (ru : cmd * bool) => snd ru) (combine s (utilized s))) ;;
  let old := nth loc s dcmd in
  new <- random_command (zi loc) ;;
  r <- cmd_loop (zi loc) old max_mutation_attempts new ;;
  match r with None => ret (s, false) | Some n => ret (upd s loc n, true) end.

(* ---------------- _mutate_node ---------------- *)
Definition randomize_node (cm : cmd) : M cmd :=
  if is_terminal (node_of cm)
  then t <- random_terminal ;; p <- random_terminal_parameter t ;; ret (t, p, p)
  else o <- random_operator ;; ret (o, p1_of cm, p2_of cm).
Fixpoint node_loop (old : cmd) (fuel : nat) (new : cmd) : M (option cmd) :=
  if node_of old =? node_of new
  then match fuel with O => ret None | S f => n <- randomize_node new ;; node_loop old f n end
  else ret (Some new).
Definition mutate_node (s : stack) : M (stack * bool) :=
  let terminals_ok := Nat.ltb 1 (length terminal_items) in
  let operators_ok := Nat.ltb 1 (length (c_ops c)) in
  loc <- choice (idx_where (fun _ (ru : cmd * bool) =>
                   snd ru && (if is_terminal (node_of (fst ru)) then terminals_ok else operators_ok))
                 (combine s (utilized s))) ;;
  let old := nth loc s dcmd in
  r <- node_loop old max_mutation_attempts old ;;
  match r with None => ret (s, false) | Some n => ret (upd s loc n, true) end.

(* ---------------- _mutate_parameters ---------------- *)
Definition no_param_mut (n : Z) : bool :=
  (n =? CONSTANT) || (n =? INTEGER) || ((cD c <=? 1) && (n =? VARIABLE)).
Definition randomize_parameters (cm : cmd) (loc : Z) : M cmd :=
  if is_terminal (node_of cm)
  then p <- random_terminal_parameter (node_of cm) ;; ret (node_of cm, p, p)
  else p1 <- draw_below loc ;;
       if is_arity_2 (node_of cm) then p2 <- draw_below loc ;; ret (node_of cm, p1, p2) else ret (node_of cm, p1, p2_of cm).
(* while np.array_equal(old, new): randomize - no bound in the code; the model's fuel is the tape length (every iteration that
   matters consumes a draw) *)
Fixpoint param_loop (loc : Z) (old : cmd) (fuel : nat) (new : cmd) : M cmd :=
  if cmd_eqb old new
  then match fuel with O => (fun _ => BadTape) | S f => n <- randomize_parameters new loc ;; param_loop loc old f n end
  else ret new.
Definition mutate_parameters (s : stack) : M (stack * bool) :=
  let inds := idx_where (fun _ (ru : cmd * bool) => snd ru && negb (no_param_mut (node_of (fst ru)))) (combine s (utilized s)) in
  let inds := if existsb (Nat.eqb 1) inds && negb (is_terminal (node_of (nth 1 s dcmd)))
              then filter (fun i => negb (Nat.eqb i 1)) inds else inds in
  match inds with
  | [] => ret (s, false)
  | _ => loc <- choice inds ;;
         let old := nth loc s dcmd in
         fun t => (n <- param_loop (zi loc) old (S (length t)) old ;; ret (upd s loc n, true)) t
  end.

(* ---------------- _prune_branch ---------------- *)
Fixpoint prune_rows (loc pruned : Z) (i : Z) (s : stack) : stack :=
  match s with
  | [] => []
  | r :: q =>
    (if (loc <=? i) && negb (is_terminal (node_of r))
     then (node_of r, (if p1_of r =? loc then pruned else p1_of r), (if p2_of r =? loc then pruned else p2_of r))
     else r) :: prune_rows loc pruned (i + 1) q
  end.
Fixpoint prune_writes (loc : Z) (i : Z) (s : stack) : bool :=
  match s with
  | [] => false
  | r :: q => ((loc <=? i) && negb (is_terminal (node_of r)) && ((p1_of r =? loc) || (p2_of r =? loc))) || prune_writes loc (i + 1) q
  end.
Definition prune_branch (s : stack) : M (stack * bool) :=
  let inds := idx_where (fun _ (ru : cmd * bool) => snd ru && negb (is_terminal (node_of (fst ru))))
                        (combine (removelast s) (utilized s)) in
  match inds with
  | [] => ret (s, false)
  | _ => loc <- choice inds ;;
         let r := nth loc s dcmd in
         k <- (if is_arity_2 (node_of r) then draw_below 2 else ret 0) ;;
         let pruned := if k =? 0 then p1_of r else p2_of r in
         ret (prune_rows (zi loc) pruned 0 s, prune_writes (zi loc) 0 s)
  end.

(* ---------------- _fork_mutation ---------------- *)
(* _move_utilized_commands *)
Definition tagged := (cmd * bool * nat)%type.       (* row, utilized, old index *)
Fixpoint tag_from (i : nat) (s : stack) (u : list bool) : list tagged :=
  match s, u with r :: q, b :: v => (r, b, i) :: tag_from (S i) q v | _, _ => [] end.
Definition t_row (x : tagged) : cmd := fst (fst x).
Definition t_util (x : tagged) : bool := snd (fst x).
Definition t_idx (x : tagged) : nat := snd x.
Fixpoint pos_of (x : nat) (l : list nat) (k : Z) : Z :=
  match l with [] => 0 | y :: r => if Nat.eqb x y then k else pos_of x r (k + 1) end.

(* _fix_indices, second half: rows whose parameter is not below their index get a fresh one *)
Definition col_of (col : bool) (r : cmd) : Z := if col then p2_of r else p1_of r.
Definition set_col (col : bool) (r : cmd) (v : Z) : cmd := if col then (node_of r, p1_of r, v) else (node_of r, v, p2_of r).
Definition needs_fix (col : bool) (i : Z) (r : cmd) : bool := negb (is_terminal (node_of r)) && (i <=? col_of col r).
Fixpoint fix_rows (col : bool) (i : Z) (s : stack) : M stack :=
  match s with
  | [] => ret []
  | r :: q => r' <- (if needs_fix col i r then v <- draw_below i ;; ret (set_col col r v) else ret r) ;;
              q' <- fix_rows col (i + 1) q ;; ret (r' :: q')
  end.
Fixpoint first_fix (col : bool) (i : Z) (s : stack) : option Z :=
  match s with [] => None | r :: q => if needs_fix col i r then Some i else first_fix col (i + 1) q end.
(* np.vectorize(f)(indices) calls f once more on the first index to find the output type *)
Definition fix_col (col : bool) (s : stack) : M stack :=
  match first_fix col 0 s with
  | None => ret s
  | Some f => _ <- draw_below f ;; fix_rows col 0 s
  end.

(* _get_arity_operator(2) *)
Fixpoint arity2_loop (fuel : nat) : M (option Z) :=
  match fuel with
  | O => ret None                                   (* RuntimeError *)
  | S f => o <- random_operator ;; if is_arity_2 o then ret (Some o) else arity2_loop f
  end.

(* _insert_fork, normal case: k counts the rows of the fork already handled, i = start_i + k *)
Fixpoint fork_rows2 (a2 : Z) (mcl start_i end_i : Z) (fork_size n_term : Z) (k : nat) (i : Z) (s : stack) : M stack :=
  match k with
  | O => ret s
  | S k' =>
    s' <- (if i <? start_i + n_term then r <- random_terminal_command ;; ret (upd s (Z.to_nat i) r)
           else if i =? start_i + fork_size - 1 then p <- draw_range start_i i ;; ret (upd s (Z.to_nat end_i) (a2, mcl, p))
           else o <- random_operator ;; p1 <- draw_range start_i i ;; p2 <- draw_range start_i i ;; ret (upd s (Z.to_nat i) (o, p1, p2))) ;;
    fork_rows2 a2 mcl start_i end_i fork_size n_term k' (i + 1) s'
  end.
(* arity-1-only case *)
Fixpoint fork_rows1 (mcl start_i end_i : Z) (fork_size : Z) (k : nat) (i : Z) (s : stack) : M stack :=
  match k with
  | O => ret s
  | S k' =>
    o <- random_operator ;;
    let s' := if i =? start_i then upd s (Z.to_nat i) (o, mcl, mcl)
              else if i =? start_i + fork_size - 1 then upd s (Z.to_nat end_i) (o, i - 1, i - 1)
              else upd s (Z.to_nat i) (o, i - 1, i - 1) in
    fork_rows1 mcl start_i end_i fork_size k' (i + 1) s'
  end.
Definition insert_fork (s : stack) (fork_size mcl start_i end_i : Z) : M stack :=
  a <- arity2_loop arity_operator_attempts ;;
  match a with
  | Some a2 => n_term <- py_randint 1 (fork_size / 2) ;;
               fork_rows2 a2 mcl start_i end_i fork_size n_term (Z.to_nat fork_size) start_i s
  | None => fork_rows1 mcl start_i end_i fork_size (Z.to_nat fork_size) start_i s
  end.

Definition fork_mutation (s : stack) : M (stack * bool) :=
  let util := utilized s in
  let tg := tag_from O s util in
  let unut := filter (fun x => negb (t_util x)) tg in
  let n_un := Z.of_nat (length unut) in
  if n_un <? 2 then ret (s, false)
  else
    fork_size <- draw_range 2 (Z.min n_un max_fork_size + 1) ;;
    loc <- choice (idx_where (fun _ (ru : cmd * bool) => snd ru) (combine s util)) ;;
    let before := filter (fun x => t_util x && Nat.leb (t_idx x) loc) tg in
    let after := filter (fun x => t_util x && negb (Nat.leb (t_idx x) loc)) tg in
    let final := before ++ unut ++ after in
    let start_i := Z.of_nat (length before) in
    let end_i := start_i + n_un - 1 in
    let new_idx := map t_idx final in
    let mcl := pos_of loc new_idx 0 in
    let shift (old : Z) : Z := if old =? zi loc then end_i else pos_of (Z.to_nat old) new_idx 0 in
    let remapped := map (fun x => let r := t_row x in
                                  if t_util x && negb (is_terminal (node_of r))
                                  then (node_of r, shift (p1_of r), shift (p2_of r)) else r) final in
    s1 <- fix_col false remapped ;;
    s2 <- fix_col true s1 ;;
    s3 <- insert_fork s2 fork_size mcl start_i end_i ;;
    ret (s3, true).

(* ---------------- AGraphMutation.__call__ ---------------- *)
Definition mutate (s : stack) : M (stack * bool) :=
  k <- pmf_draw mutation_order ;;
  if k =? 0 then mutate_command s else if k =? 1 then mutate_node s else if k =? 2 then mutate_parameters s
  else if k =? 3 then prune_branch s else fork_mutation s.

(* ---------------- AGraphCrossover.__call__ ---------------- *)
Definition crossover (p1 p2 : stack) : M (stack * stack) :=
  if negb (Nat.eqb (length p1) (length p2)) then (fun _ => Raise)
  else cp <- draw_range cross_lo (Z.of_nat (length p1) - cross_hi_offset) ;;
       let k := Z.to_nat cp in
       ret (firstn k p1 ++ skipn k p2, firstn k p2 ++ skipn k p1).

(* ---------------- what "well formed" means for a raw genome ---------------- *)
Definition row_ok (i : Z) (r : cmd) : bool :=
  let n := node_of r in
  if is_terminal n then (if n =? VARIABLE then (0 <=? p1_of r) && (p1_of r <? cD c) else true)
  else existsb (Z.eqb n) (c_ops c) && (0 <=? p1_of r) && (p1_of r <? i) && (0 <=? p2_of r) && (p2_of r <? i).
Fixpoint rows_ok (i : Z) (s : stack) : bool :=
  match s with [] => true | r :: q => row_ok i r && rows_ok (i + 1) q end.
Definition wfr (s : stack) : bool := match s with [] => false | _ => rows_ok 0 s end.
(* the operator items registered with the component generator are operators *)
Definition cfg_ok : bool := forallb (fun o => negb (is_terminal o) && known_node o) (c_ops c).
End Gen.

(* Model of EvolutionaryOptimizer.evolve_until_convergence and CheckpointController (property C14).
   bingo/evolutionary_optimizers/evolutionary_optimizer.py, checkpoint_controller.py.
   The world is an oracle: each evolve(k) call consumes one tape entry giving how long it took (> 0),
   the best fitness afterwards (NaN allowed) and the evaluation count afterwards.  The clock only
   advances inside evolve calls (see DESIGN.md C14: the real clock also advances elsewhere). *)
From Coq Require Import ZArith QArith List Bool.
From Bingo Require Import Lib.Key Gen.Consts.
Import ListNotations.
Open Scope Z_scope.

Record cfg := mkCfg {
  max_gen : Z; threshold : Z; freq : Z; min_gen : Z;
  stag : option Z; max_evals : option Z; max_time : option Q }.

Record world := mkW { w_dur : Q; w_best : key; w_evals : Z }.

Record st := mkSt {
  age : Z; start_age : Z; improve_age : Z;
  best : option key;            (* self._best_fitness ; None = Python None *)
  cur_best : key; cur_evals : Z;
  now : Q; t_start : Q; last_check : Q; speeds : list Q }.

Inductive outcome (A : Type) := Ok (a : A) | OutOfTape | ZeroSpeed | OutOfFuel.
Arguments Ok {A}. Arguments OutOfTape {A}. Arguments ZeroSpeed {A}. Arguments OutOfFuel {A}.

Definition set_age_world (s : st) (k : Z) (w : world) : st :=
  mkSt (age s + k) (start_age s) (improve_age s) (best s) (w_best w) (w_evals w)
       (now s + w_dur w)%Q (t_start s) (last_check s) (speeds s).

(* _update_best_fitness (after fix F11) *)
Definition improved (last : option key) (cur : key) : bool :=
  match last with
  | None => true
  | Some l => klt cur l || (kisnan l && negb (kisnan cur))
  end.
Definition update_best (s : st) : st :=
  mkSt (age s) (start_age s) (if improved (best s) (cur_best s) then age s else improve_age s)
       (Some (cur_best s)) (cur_best s) (cur_evals s) (now s) (t_start s) (last_check s) (speeds s).

Definition last3 (l : list Q) : list Q := skipn (length l - 3) l.

(* CheckpointController.record_check *)
Definition record_check (s : st) (k : Z) : st :=
  mkSt (age s) (start_age s) (improve_age s) (best s) (cur_best s) (cur_evals s) (now s) (t_start s)
       (now s) (last3 (speeds s ++ [((now s - last_check s) / inject_Z k)%Q])).

Fixpoint dotq (a b : list Q) : Q :=
  match a, b with x :: a', y :: b' => (x * y + dotq a' b')%Q | _, _ => 0%Q end.
Fixpoint sumq (a : list Q) : Q := match a with x :: a' => (x + sumq a')%Q | [] => 0%Q end.

(* estimate_remaining_checkpoints: None = Python None; ZeroSpeed when the weighted speed is 0 *)
Definition estimate (c : cfg) (s : st) : outcome (option Q) :=
  match max_time c with
  | None => Ok None
  | Some mt =>
    match speeds s with
    | [] => Ok None
    | sp =>
      let ws := firstn (length sp) cc_weights in
      let gs := (dotq sp ws / sumq ws)%Q in
      if Qeq_bool gs 0 then ZeroSpeed
      else Ok (Some ((mt * cc_safety_factor - (now s - t_start s)) / gs / inject_Z (freq c))%Q)
    end
  end.

(* int(q): truncation toward zero *)
Definition trunc (q : Q) : Z := Z.quot (Qnum q) (Zpos (Qden q)).

Definition gens_to_evolve (c : cfg) (s : st) : outcome Z :=
  match max_time c with
  | None => Ok (freq c)
  | Some _ =>
    match estimate c s with
    | Ok None => Ok (freq c)
    | Ok (Some e) => if Qlt_le_dec 1 e then Ok (freq c) else Ok (Z.max 1 (trunc (e * inject_Z (freq c))%Q))
    | OutOfTape => OutOfTape | ZeroSpeed => ZeroSpeed | OutOfFuel => OutOfFuel
    end
  end.

Definition best_key (s : st) : key := match best s with Some k => k | None => None end.

Definition crit_convergence (c : cfg) (s : st) : bool := kle (best_key s) (Some (threshold c)).
Definition crit_stagnation (c : cfg) (s : st) : bool :=
  match stag c with None => false | Some lim => lim <=? age s - improve_age s end.
Definition crit_evals (c : cfg) (s : st) : bool :=
  match max_evals c with None => false | Some m => m <=? cur_evals s end.
Definition crit_time (c : cfg) (s : st) : bool :=
  match max_time c with None => false | Some mt => if Qlt_le_dec (now s - t_start s) mt then false else true end.
Definition crit_no_time (e : option Q) : bool :=
  match e with None => false | Some q => if Qlt_le_dec q not_enough_time_threshold then true else false end.

(* _check_exit_criteria: first criterion that holds, in the order of the source (Gen/Consts.v) *)
Definition check_exit (c : cfg) (s : st) (e : option Q) : option Z :=
  let tests := [crit_convergence c s; crit_stagnation c s; crit_evals c s; crit_time c s; crit_no_time e] in
  (fix go (ts : list bool) (ss : list Z) : option Z :=
     match ts, ss with
     | true :: _, z :: _ => Some z
     | false :: ts', _ :: ss' => go ts' ss'
     | _, _ => None
     end) tests exit_status_order.

Record result := mkR { r_status : Z; r_success : bool; r_ngen : Z; r_fitness : option key }.
Definition make_result (s : st) (status : Z) : result :=
  mkR status (status =? 0) (age s - start_age s) (best s).

Inductive event := EvEvolve (k : Z) (gens_done_before : Z) (main : bool) | EvCheck (exit : option Z).

Definition do_round (c : cfg) (s : st) (k : Z) (tape : list world) : outcome (st * list world) :=
  match tape with
  | [] => OutOfTape
  | w :: tape' => Ok (record_check (update_best (set_age_world s k w)) k, tape')
  end.

(* while age - start < min_generations: evolve(freq); update; record_check(freq).
   The event list returned is the list of events produced from here on, in order. *)
Fixpoint min_loop (fuel : nat) (c : cfg) (s : st) (tape : list world)
  : outcome (st * list world * list event) :=
  if age s - start_age s <? min_gen c then
    match fuel with
    | O => OutOfFuel
    | S f =>
      match do_round c s (freq c) tape with
      | Ok (s', tape') =>
        match min_loop f c s' tape' with
        | Ok (s'', tape'', tr) => Ok (s'', tape'', EvEvolve (freq c) (age s - start_age s) false :: tr)
        | OutOfTape => OutOfTape | ZeroSpeed => ZeroSpeed | OutOfFuel => OutOfFuel
        end
      | OutOfTape => OutOfTape | ZeroSpeed => ZeroSpeed | OutOfFuel => OutOfFuel
      end
    end
  else Ok (s, tape, []).

Fixpoint main_loop (fuel : nat) (c : cfg) (s : st) (tape : list world)
  : outcome (result * st * list event) :=
  if age s - start_age s <? max_gen c then
    match fuel with
    | O => OutOfFuel
    | S f =>
      match gens_to_evolve c s with
      | Ok g =>
        match do_round c s g tape with
        | Ok (s', tape') =>
          let ev := EvEvolve g (age s - start_age s) true in
          match estimate c s' with
          | Ok e =>
            match check_exit c s' e with
            | Some status => Ok (make_result s' status, s', [ev; EvCheck (Some status)])
            | None =>
              match main_loop f c s' tape' with
              | Ok (r, s'', tr) => Ok (r, s'', ev :: EvCheck None :: tr)
              | OutOfTape => OutOfTape | ZeroSpeed => ZeroSpeed | OutOfFuel => OutOfFuel
              end
            end
          | OutOfTape => OutOfTape | ZeroSpeed => ZeroSpeed | OutOfFuel => OutOfFuel
          end
        | OutOfTape => OutOfTape | ZeroSpeed => ZeroSpeed | OutOfFuel => OutOfFuel
        end
      | OutOfTape => OutOfTape | ZeroSpeed => ZeroSpeed | OutOfFuel => OutOfFuel
      end
    end
  else Ok (make_result s fallthrough_status, s, []).

(* the state at entry of a call: _starting_age, start_time, a fresh CheckpointController, _update_best_fitness *)
Definition enter (s0 : st) : st :=
  update_best (mkSt (age s0) (age s0) (improve_age s0) (best s0) (cur_best s0) (cur_evals s0)
                    (now s0) (now s0) (now s0) []).

(* evolve_until_convergence on an optimizer in state [s0] (repeated calls: s0 is the state left by the last call) *)
Definition euc (c : cfg) (s0 : st) (tape : list world) : outcome (result * st * list event) :=
  match min_loop (S (Z.to_nat (min_gen c))) c (enter s0) tape with
  | Ok (s3, tape3, tr) =>
    match estimate c s3 with
    | Ok e =>
      match check_exit c s3 e with
      | Some status => Ok (make_result s3 status, s3, tr ++ [EvCheck (Some status)])
      | None =>
        match main_loop (S (Z.to_nat (max_gen c))) c s3 tape3 with
        | Ok (r, s4, tr') => Ok (r, s4, tr ++ EvCheck None :: tr')
        | OutOfTape => OutOfTape | ZeroSpeed => ZeroSpeed | OutOfFuel => OutOfFuel
        end
      end
    | OutOfTape => OutOfTape | ZeroSpeed => ZeroSpeed | OutOfFuel => OutOfFuel
    end
  | OutOfTape => OutOfTape | ZeroSpeed => ZeroSpeed | OutOfFuel => OutOfFuel
  end.

(* ---- encoding for the correspondence ---- *)
Definition enc_result (o : outcome (result * st * list event)) : list Z :=
  match o with
  | Ok (r, s, tr) =>
    [0; r_status r; (if r_success r then 1 else 0); r_ngen r]
    ++ (match r_fitness r with None => [-1] | Some None => [0] | Some (Some z) => [1; z] end)
    ++ [age s; improve_age s]
    ++ flat_map (fun e => match e with EvEvolve k _ _ => [k] | EvCheck _ => [] end) tr
  | OutOfTape => [1] | ZeroSpeed => [2] | OutOfFuel => [3]
  end.

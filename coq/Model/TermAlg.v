(* Algebra instances used to RUN the evaluation model: a free term algebra (compared exactly with the real numpy
   backend run on symbolic object arrays) and the integers (polynomial stacks, exact in float64). *)
From Coq Require Import ZArith List.
From Bingo Require Import Lib.Alg.
Import ListNotations.
Open Scope Z_scope.

Inductive tm :=
| TInt (z : Z) | THalf | TX (row k : Z) | TC (k : Z)
| T1 (op : Z) (a : tm) | T2 (op : Z) (a b : tm).

(* |z| of an integer literal is computed numerically by numpy before it meets a symbol (SAFE_POWER, LOGARITHM, SQRT
   apply np.abs to their operand first) *)
Definition tabs (t : tm) : tm := match t with TInt z => TInt (Z.abs z) | _ => T1 13 t end.
Definition term_alg : alg tm :=
  mkAlg tm TInt THalf (T2 2) (T2 3) (T2 4) (T2 5) (T2 6)
        (T1 7) (T1 8) (T1 9) (T1 10) (T1 11) (T1 12) tabs (T1 14) (T1 15).

Fixpoint enc_tm (t : tm) : list Z :=
  match t with
  | TInt z => [0; z] | THalf => [1] | TX r k => [20; r; k] | TC k => [21; k]
  | T1 op a => op :: enc_tm a
  | T2 op a b => op :: enc_tm a ++ enc_tm b
  end.

(* integers: only + - * are meaningful; everything else maps to a poison value the generators never reach *)
Definition poison : Z := -987654321.
Definition z_alg : alg Z :=
  mkAlg Z (fun z => z) poison Z.add Z.sub Z.mul (fun _ _ => poison) (fun _ _ => poison)
        (fun _ => poison) (fun _ => poison) (fun _ => poison) (fun _ => poison) (fun _ => poison)
        (fun _ => poison) Z.abs (fun _ => poison) Z.sgn.

(* Model of stack evaluation (properties C01, C02).
   bingo/symbolic_regression/agraph/evaluation_backend/evaluation_backend.py: _forward_eval, _reverse_eval,
     evaluate, _evaluate_with_derivative, _reshape_output
   bingo/symbolic_regression/agraph/simplification_backend/simplification_backend.py: get_utilized_commands, reduce_stack
   The per-operator rules and the node tables are TRANSLATED (Gen/OpEval.v, Gen/OpDefs.v). *)
From Coq Require Import ZArith List Bool.
From Bingo Require Import Lib.Alg Gen.OpDefs Gen.OpEval.
Import ListNotations.
Open Scope Z_scope.

Definition cmd := (Z * Z * Z)%type.
Definition stack := list cmd.
Definition node_of (c : cmd) : Z := fst (fst c).
Definition p1_of (c : cmd) : Z := snd (fst c).
Definition p2_of (c : cmd) : Z := snd c.

(* Python list indexing l[i]: a negative index counts from the end *)
Definition pyidx (len i : Z) : Z := if 0 <=? i then i else len + i.
Definition lookup {T} (l : list T) (d : T) (i : Z) : T :=
  nth (Z.to_nat (pyidx (Z.of_nat (length l)) i)) l d.

Section Eval.
Context {V : Type} (A : alg V).
Definition dv : V := a_of_int A 0.

(* _forward_eval for one data row: xv k = x[row, k], cv k = constants[k] *)
Definition forward (s : stack) (xv cv : Z -> V) : list V :=
  fold_left (fun acc c => acc ++ [fwd_rule A (node_of c) (p1_of c) (p2_of c) xv cv (lookup acc dv)]) s [].
Definition root (s : stack) (xv cv : Z -> V) : V := last (forward s xv cv) dv.

(* ---- the expression a row denotes (the DAG unfolded into a tree) and its meaning ---- *)
Inductive expr := EInt (z : Z) | EX (k : Z) | EC (k : Z) | EOp1 (op : Z) (a : expr) | EOp2 (op : Z) (a b : expr).

Definition sem_op2 (op : Z) (a b : V) : V :=
  if op =? ADDITION then a_add A a b else if op =? SUBTRACTION then a_sub A a b
  else if op =? MULTIPLICATION then a_mul A a b else if op =? DIVISION then a_div A a b
  else if op =? POWER then a_pow A a b else if op =? SAFE_POWER then a_pow A (a_abs A a) b else dv.
Definition sem_op1 (op : Z) (a : V) : V :=
  if op =? SIN then a_sin A a else if op =? COS then a_cos A a else if op =? SINH then a_sinh A a
  else if op =? COSH then a_cosh A a else if op =? EXPONENTIAL then a_exp A a
  else if op =? LOGARITHM then a_log A (a_abs A a) else if op =? ABS then a_abs A a
  else if op =? SQRT then a_sqrt A (a_abs A a) else dv.
Fixpoint sem (xv cv : Z -> V) (e : expr) : V :=
  match e with
  | EInt z => a_of_int A z | EX k => xv k | EC k => cv k
  | EOp1 op a => sem_op1 op (sem xv cv a)
  | EOp2 op a b => sem_op2 op (sem xv cv a) (sem xv cv b)
  end.
End Eval.

Definition mk_expr (c : cmd) (look : Z -> expr) : expr :=
  let n := node_of c in
  if n =? INTEGER then EInt (p1_of c) else if n =? VARIABLE then EX (p1_of c) else if n =? CONSTANT then EC (p1_of c)
  else if is_arity_2 n then EOp2 n (look (p1_of c)) (look (p2_of c)) else EOp1 n (look (p1_of c)).
Definition denote_all (s : stack) : list expr :=
  fold_left (fun acc c => acc ++ [mk_expr c (lookup acc (EInt 0))]) s [].
Definition denote (s : stack) : expr := last (denote_all s) (EInt 0).

(* ---- well-formedness (never written down in the code, relied on everywhere) ---- *)
Definition wf_cmd (D : Z) (i : Z) (c : cmd) : bool :=
  let n := node_of c in
  known_node n &&
  (if is_terminal n then (if n =? VARIABLE then (0 <=? p1_of c) && (p1_of c <? D) else if n =? CONSTANT then 0 <=? p1_of c else true)
   else (0 <=? p1_of c) && (p1_of c <? i) && (0 <=? p2_of c) && (p2_of c <? i)).
Fixpoint wf_from (D : Z) (i : Z) (s : stack) : bool :=
  match s with [] => true | c :: r => wf_cmd D i c && wf_from D (i + 1) r end.
Definition wf (D : Z) (s : stack) : bool := (match s with [] => false | _ => true end) && wf_from D 0 s.

(* ---- get_utilized_commands ---- *)
Fixpoint updb (l : list bool) (i : nat) (b : bool) : list bool :=
  match l, i with [] , _ => [] | _ :: r, O => b :: r | x :: r, S i' => x :: updb r i' b end.
Definition set_true (l : list bool) (i : Z) : list bool :=
  updb l (Z.to_nat (pyidx (Z.of_nat (length l)) i)) true.

(* for i in range(1, n): row = stack[-i] ... ; [k] counts down the rows n-1 .. 1 *)
Fixpoint util_loop (s : stack) (k : nat) (util : list bool) : list bool :=
  match k with
  | O => util
  | S k' =>
    let c := nth k s (0, 0, 0) in
    let util' :=
      if nth k util false && negb (is_terminal (node_of c)) then
        let u1 := set_true util (p1_of c) in
        if is_arity_2 (node_of c) then set_true u1 (p2_of c) else u1
      else util in
    util_loop s k' util'
  end.
Definition utilized (s : stack) : list bool :=
  let n := length s in
  util_loop s (n - 1) (updb (repeat false n) (n - 1) true).

(* ---- reduce_stack ---- *)
(* state of the loop: rows written so far, source index i, target index j, reduced_param_map *)
Definition rmap_get (rmap : list (Z * Z)) (k : Z) : Z :=
  match find (fun kv => fst kv =? k) rmap with Some kv => snd kv | None => (-1) end.   (* -1: KeyError *)
Definition red_step (st : stack * Z * Z * list (Z * Z)) (cu : cmd * bool) : stack * Z * Z * list (Z * Z) :=
  let '(out, i, j, rmap) := st in
  let '(c, used) := cu in
  if used then
    let n := node_of c in
    let c' := if is_terminal n then (n, p1_of c, p2_of c)
              else let q1 := rmap_get rmap (p1_of c) in
                   (n, q1, if is_arity_2 n then rmap_get rmap (p2_of c) else q1) in
    (out ++ [c'], i + 1, j + 1, (i, j) :: rmap)
  else (out, i + 1, j, rmap).
Definition reduce_stack (s : stack) : stack :=
  let '(out, _, _, _) := fold_left red_step (combine s (utilized s)) ([], 0, 0, []) in out.

(* ---- evaluate: all data rows, _reshape_output ---- *)
Section Cols.
Context {V : Type} (A : alg V).
(* X : one function per data row; the result is one value per data row (an M-by-1 column) *)
Definition evaluate (s : stack) (X : list (Z -> V)) (cv : Z -> V) : list V := map (fun xv => root A s xv cv) X.
End Cols.

(* Model of the evaluation phase and of evaluation counting (properties C19 and C17a).
   bingo/evaluation/evaluation.py: Evaluation.__call__/_serial_eval/_multiprocess_eval/_fitness_job, eval_count
   bingo/evaluation/random_subset_evaluation.py
   bingo/local_optimizers/local_opt_fitness.py: delegation of eval_count, optimize-then-evaluate
   bingo/evolutionary_optimizers/{island,serial_archipelago}.py: get_fitness_evaluation_count

   A fitness-function object is a counter; [count] is what the eval_count attribute chain reads and
   writes, [ghost] counts real invocations of the underlying base function made on THIS object
   (parent-process object or a worker's pickled copy).  One fitness call on individual i makes
   [k i] invocations through the local optimizer (an oracle; 0 for a plain fitness function or when no
   optimization is requested) and then exactly one more. *)
From Coq Require Import List Bool Arith ZArith.
Import ListNotations.

Section Eval.
Variable G : Type.                    (* genome incl. constants *)
Variable F : Type.                    (* fitness values *)
Variable fit : G -> F.                (* deterministic base fitness of a genome *)
Variable opt : G -> G.                (* what local optimization turns a genome into (identity if none) *)
Variable k : G -> nat.                (* invocations made by the optimizer for that genome *)

Record indiv := mkIndiv { oid : nat; genome : G; fitness : option F; fit_set : bool }.
Record counter := mkCounter { count : nat; ghost : nat }.

(* one call of the (possibly locally optimizing) fitness function on an individual held by reference:
   the individual's constants are rewritten in place, the base function is invoked k+1 times *)
Definition fitness_call (c : counter) (i : indiv) : counter * indiv :=
  let g' := opt (genome i) in
  (mkCounter (count c + k (genome i) + 1) (ghost c + k (genome i) + 1),
   mkIndiv (oid i) g' (Some (fit g')) true).

Definition due (redundant : bool) (i : indiv) : bool := redundant || negb (fit_set i).

(* Evaluation._serial_eval *)
Fixpoint serial_eval (redundant : bool) (c : counter) (pop : list indiv) : counter * list indiv :=
  match pop with
  | [] => (c, [])
  | i :: r =>
    if due redundant i then
      let '(c1, i') := fitness_call c i in
      let '(c2, r') := serial_eval redundant c1 r in (c2, i' :: r')
    else let '(c2, r') := serial_eval redundant c r in (c2, i :: r')
  end.

(* Evaluation._multiprocess_eval.  Every due individual becomes a job; a job runs _fitness_job on pickled
   COPIES of the individual (fresh object id) and of the fitness function (a copy of the counter as it
   was at submission).  Results are consumed in submission order whatever the completion order [perm];
   the parent adds each job's counter delta and stores the returned copy in the job's slot. *)
Record job_result := mkJR { jr_ind : indiv; jr_extra : nat; jr_slot : nat; jr_worker_ghost : nat }.

Definition fitness_job (c_copy : counter) (fresh : nat) (i : indiv) (slot : nat) : job_result :=
  let i_copy := mkIndiv fresh (genome i) (fitness i) (fit_set i) in
  let before := count c_copy in
  let '(c', i') := fitness_call c_copy i_copy in
  mkJR i' (count c' - before) slot (ghost c' - ghost c_copy).

Fixpoint submit (redundant : bool) (c : counter) (pop : list indiv) (slot fresh : nat) : list job_result :=
  match pop with
  | [] => []
  | i :: r =>
    if due redundant i then fitness_job c fresh i slot :: submit redundant c r (S slot) (S fresh)
    else submit redundant c r (S slot) fresh
  end.

Fixpoint upd {A} (l : list A) (n : nat) (x : A) : list A :=
  match l, n with
  | [], _ => []
  | _ :: r, O => x :: r
  | y :: r, S n' => y :: upd r n' x
  end.

Definition consume (st : counter * list indiv) (r : job_result) : counter * list indiv :=
  let '(c, pop) := st in
  (mkCounter (count c + jr_extra r) (ghost c), upd pop (jr_slot r) (jr_ind r)).

Definition multiprocess_eval (redundant : bool) (perm : list nat) (fresh : nat)
           (c : counter) (pop : list indiv) : counter * list indiv * nat (* worker-side ghost total *) :=
  let results := submit redundant c pop 0 fresh in
  (* [perm] (completion order) is deliberately unused: res.get() blocks in submission order *)
  let '(c', pop') := fold_left consume results (c, pop) in
  (c', pop', fold_right (fun r a => jr_worker_ghost r + a) 0 results).

End Eval.

(* ---- a fitness function that may RAISE ----
   [faulty g]: a fitness call on an individual with genome g raises (inside the optimizer or in the final
   evaluation - an oracle of the genome).  Python propagates the exception: _serial_eval stops at the first
   due faulty individual; _multiprocess_eval re-raises it from res.get() when it reaches that job.  Either
   way the phase does not return; [None] models that. *)
Section EvalPartial.
Variable G : Type.
Variable F : Type.
Variable fit : G -> F.
Variable opt : G -> G.
Variable k : G -> nat.
Variable faulty : G -> bool.
Definition due_faulty (redundant : bool) (i : indiv G F) : bool := due G F redundant i && faulty (genome G F i).
Fixpoint serial_eval_p (redundant : bool) (c : counter) (pop : list (indiv G F)) : option (counter * list (indiv G F)) :=
  match pop with
  | [] => Some (c, [])
  | i :: r =>
    if due G F redundant i then
      if faulty (genome G F i) then None
      else let '(c1, i') := fitness_call G F fit opt k c i in
           match serial_eval_p redundant c1 r with Some (c2, r') => Some (c2, i' :: r') | None => None end
    else match serial_eval_p redundant c r with Some (c2, r') => Some (c2, i :: r') | None => None end
  end.
Definition multiprocess_eval_p (redundant : bool) (perm : list nat) (fresh : nat) (c : counter) (pop : list (indiv G F))
  : option (counter * list (indiv G F) * nat) :=
  if existsb (due_faulty redundant) pop then None
  else Some (multiprocess_eval G F fit opt k redundant perm fresh c pop).
End EvalPartial.
(* ---- islands and archipelagos: each island owns its own fitness-function object ---- *)
Definition island_count (c : counter) : nat := count c.
Definition archipelago_count (cs : list counter) : nat := fold_right (fun c a => count c + a) 0 cs.
Definition archipelago_ghost (cs : list counter) : nat := fold_right (fun c a => ghost c + a) 0 cs.

(* Model of checkpoint writing and rotation (property C13, clause (a)).
   bingo/evolutionary_optimizers/evolutionary_optimizer.py: _update_checkpoints, _remove_stale_checkpoint,
   dump_to_file (after the atomic-write fix: open <name>.tmp 'wb', dill.dump, os.replace).
   A file system maps names to Partial / Complete g; each Python-level file operation is one atomic step;
   a crash is "stop after any prefix of the steps". *)
From Coq Require Import ZArith List Bool.
Import ListNotations.
Open Scope Z_scope.

Inductive name := Final (a : Z) | Tmp (a : Z) | Other (n : Z).
Inductive fstate := Partial | Complete (g : Z).
Definition fs := name -> option fstate.

Definition name_eqb (x y : name) : bool :=
  match x, y with
  | Final a, Final b => a =? b | Tmp a, Tmp b => a =? b | Other a, Other b => a =? b | _, _ => false
  end.
Definition set (f : fs) (n : name) (v : option fstate) : fs := fun m => if name_eqb m n then v else f m.

Inductive op := OpenTmp (a : Z) | FinishTmp (a : Z) | Rename (a : Z) | Remove (a : Z).

Definition apply_op (f : fs) (o : op) : fs :=
  match o with
  | OpenTmp a => set f (Tmp a) (Some Partial)           (* open(tmp, "wb") creates / truncates *)
  | FinishTmp a => set f (Tmp a) (Some (Complete a))    (* dill.dump finished, file closed *)
  | Rename a => set (set f (Final a) (f (Tmp a))) (Tmp a) None      (* os.replace *)
  | Remove a => set f (Final a) None                     (* os.remove *)
  end.

(* _update_checkpoints(base, num_checkpoints) at generational age [a]; [prev] = _previous_checkpoints.
   num = None: every checkpoint is kept and the list is not maintained. *)
Definition ckpt_ops (num : option nat) (prev : list Z) (a : Z) : list op * list Z :=
  let w := [OpenTmp a; FinishTmp a; Rename a] in
  match num with
  | None => (w, prev)
  | Some n =>
    let prev' := prev ++ [a] in
    if Nat.ltb n (length prev') then
      match prev' with
      | old :: rest => (w ++ [Remove old], rest)
      | [] => (w, prev')
      end
    else (w, prev')
  end.

(* one evolve_until_convergence call: a checkpoint (with reset) at the starting age, then one per round *)
Fixpoint call_ops (num : option nat) (prev : list Z) (ages : list Z) : list op :=
  match ages with
  | [] => []
  | a :: r => let '(ops, prev') := ckpt_ops num prev a in ops ++ call_ops num prev' r
  end.

Definition run_ops (ops : list op) (f : fs) : fs := fold_left apply_op ops f.

(* the state after a crash following the first k steps *)
Definition crash_state (num : option nat) (ages : list Z) (k : nat) (f0 : fs) : fs :=
  run_ops (firstn k (call_ops num [] ages)) f0.

Definition enc_op (o : op) : list Z :=
  match o with OpenTmp a => [0; a] | FinishTmp a => [1; a] | Rename a => [2; a] | Remove a => [3; a] end.
Definition enc_fstate (v : option fstate) : Z :=
  match v with None => 0 | Some Partial => 1 | Some (Complete _) => 2 end.

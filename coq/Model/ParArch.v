(* Model of one non-blocking ParallelArchipelago evolve call as a transition system over n ranks - property C12.
   bingo/evolutionary_optimizers/parallel_archipelago.py: _step_through_generations, _non_blocking_execution_main/_helper,
   _gather_updated_ages, _send_exit_notifications, _has_exit_notification, _send_updated_age (tags AGE_UPDATE, EXIT_NOTIFICATION).
   One transition = one communicator call or one island.evolve slice; a schedule is the list of ranks that move.
   Buffered delivery: isend deposits the message at once.  iprobe(ANY_SOURCE) reports the earliest pending message. *)
From Coq Require Import ZArith List Bool.
Import ListNotations.
Open Scope Z_scope.

(* what a rank does next *)
Inductive pc :=
| Evolve                      (* island.evolve(sync_frequency) *)
| Probe (final : bool)        (* rank 0: iprobe(ANY_SOURCE, AGE_UPDATE) inside _gather_updated_ages (final: after the barrier) *)
| Recv (final : bool) (src : nat)   (* rank 0: recv(src, AGE_UPDATE) *)
| SendExit (k : nat)          (* rank 0: isend(True, dest=k, EXIT_NOTIFICATION) *)
| SendAge                     (* helper: isend({rank: age}, dest=0, AGE_UPDATE) *)
| ProbeExit                   (* helper: iprobe(0, EXIT_NOTIFICATION) *)
| RecvExit                    (* helper: recv(0, EXIT_NOTIFICATION) *)
| BarArrive | BarLeave | Done.

Record state := mkS {
  pcs : list pc;                 (* per rank *)
  age : list Z;                  (* island.generational_age per rank *)
  total : list (option Z);       (* rank 0's total_age dictionary *)
  mbox : list (nat * Z);         (* AGE_UPDATE messages pending at rank 0, in arrival order: (source, payload) *)
  exitf : list bool;             (* EXIT_NOTIFICATION pending at rank k *)
  arrived : list bool            (* who has entered the barrier *)
}.

Section Par.
Variable n : nat.        (* number of ranks, >= 1 *)
Variable sync : Z.       (* the effective sync frequency, >= 1 *)
Variable target : Z.     (* generational_age + num_steps *)

Fixpoint upd {A} (l : list A) (i : nat) (x : A) : list A :=
  match l, i with [], _ => [] | _ :: r, O => x :: r | y :: r, S i' => y :: upd r i' x end.
Definition sum_total (t : list (option Z)) : Z := fold_right (fun o acc => match o with Some v => v + acc | None => acc end) 0 t.
(* average_age < target_age, with average = sum / size *)
Definition below_target (t : list (option Z)) : bool := sum_total t <? target * Z.of_nat n.
Definition after_loop : pc := if Nat.ltb 1 n then SendExit 1 else BarArrive.
(* the earliest pending message of source src *)
Fixpoint take_from (src : nat) (m : list (nat * Z)) : option (Z * list (nat * Z)) :=
  match m with
  | [] => None
  | (s, v) :: r => if Nat.eqb s src then Some (v, r)
                   else match take_from src r with Some (v', r') => Some (v', (s, v) :: r') | None => None end
  end.
Definition all_arrived (s : state) : bool := forallb (fun b => b) (arrived s).

Definition set_pc (s : state) (r : nat) (p : pc) : state := mkS (upd (pcs s) r p) (age s) (total s) (mbox s) (exitf s) (arrived s).

(* rank r performs its next call; None: the call blocks (barrier not complete) or the rank has finished *)
Definition step (s : state) (r : nat) : option state :=
  let a := nth r (age s) 0 in
  match nth r (pcs s) Done with
  | Evolve =>
      let a' := a + sync in
      if Nat.eqb r 0 then Some (mkS (upd (pcs s) r (Probe false)) (upd (age s) r a') (upd (total s) 0 (Some a')) (mbox s) (exitf s) (arrived s))
      else Some (mkS (upd (pcs s) r SendAge) (upd (age s) r a') (total s) (mbox s) (exitf s) (arrived s))
  | Probe f =>
      match mbox s with
      | (src, _) :: _ => Some (set_pc s r (Recv f src))
      | [] => if f then Some (set_pc s r Done)
              else Some (set_pc s r (if below_target (total s) then Evolve else after_loop))
      end
  | Recv f src =>
      match take_from src (mbox s) with
      | Some (v, m') => Some (mkS (upd (pcs s) r (Probe f)) (age s) (upd (total s) src (Some v)) m' (exitf s) (arrived s))
      | None => None
      end
  | SendExit k =>
      Some (mkS (upd (pcs s) r (if Nat.ltb (S k) n then SendExit (S k) else BarArrive)) (age s) (total s) (mbox s)
                (upd (exitf s) k true) (arrived s))
  | SendAge => Some (mkS (upd (pcs s) r ProbeExit) (age s) (total s) (mbox s ++ [(r, a)]) (exitf s) (arrived s))
  | ProbeExit => Some (set_pc s r (if nth r (exitf s) false then RecvExit else Evolve))
  | RecvExit => if nth r (exitf s) false
                then Some (mkS (upd (pcs s) r BarArrive) (age s) (total s) (mbox s) (upd (exitf s) r false) (arrived s))
                else None
  | BarArrive => Some (mkS (upd (pcs s) r BarLeave) (age s) (total s) (mbox s) (exitf s) (upd (arrived s) r true))
  | BarLeave =>
      if all_arrived s then
        (if Nat.eqb r 0 then Some (mkS (upd (pcs s) r (Probe true)) (age s) (upd (total s) 0 (Some a)) (mbox s) (exitf s) (arrived s))
         else Some (set_pc s r Done))
      else None
  | Done => None
  end.

(* the state in which every rank enters _non_blocking_execution: rank 0 has computed average_age = generational_age *)
Definition init (ages : list Z) (arch_age : Z) : state :=
  mkS ((if arch_age <? target then Evolve else after_loop) :: repeat SendAge (n - 1)) ages (repeat None n) [] (repeat false n) (repeat false n).

Fixpoint run (sched : list nat) (s : state) : state :=
  match sched with [] => s | r :: q => match step s r with Some s' => run q s' | None => run q s end end.
Definition final (s : state) : bool := forallb (fun p => match p with Done => true | _ => false end) (pcs s).
End Par.

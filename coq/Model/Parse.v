(* Model of equation printing (sympy format) and of string parsing - property C16.
   bingo/symbolic_regression/agraph/string_generation.py: get_formatted_string("sympy"), _get_formatted_element_string
   bingo/symbolic_regression/agraph/string_parsing.py: eq_string_to_infix_tokens, infix_to_postfix,
        postfix_to_command_array_and_constants, eq_string_to_command_array_and_constants
   Strings are lists of character codes. Templates, operator/function/precedence tables and the bad-substring list are
   TRANSLATED (Gen/Strings.v); the regular expressions and str methods are modelled by hand for ASCII input (their source text is
   pinned by the translator). Python's float() is an oracle: [is_float] says which tokens it accepts. *)
From Coq Require Import ZArith List Bool.
From Bingo Require Import Gen.OpDefs Gen.Strings Model.Stack.
Import ListNotations.
Open Scope Z_scope.

Definition str := list Z.
Fixpoint str_eqb (a b : str) : bool :=
  match a, b with [], [] => true | x :: r, y :: q => (x =? y) && str_eqb r q | _, _ => false end.

(* ------------------------------------------------------------------ printing *)
Definition digit_char (d : Z) : Z := 48 + d.
Fixpoint dec_pos (fuel : nat) (n : Z) (acc : str) : str :=
  match fuel with
  | O => acc
  | S f => if n <? 10 then digit_char n :: acc else dec_pos f (n / 10) (digit_char (n mod 10) :: acc)
  end.
(* str(int) *)
Definition dec (n : Z) : str :=
  if n <? 0 then 45 :: dec_pos (S (Z.to_nat (Z.log2 (- n)))) (- n) [] else dec_pos (S (Z.to_nat (Z.log2 n))) n [].

Definition fmt (t : list piece) (a b : str) : str :=
  flat_map (fun p => match p with PLit s => s | PArg O => a | PArg _ => b end) t.

Section Print.
Variable C : Type.
Variable lit : C -> str.        (* str(float) *)

(* _get_formatted_element_string with SYMPY_PRINT_MAP *)
Definition print_row (consts : list C) (strs : list str) (c : cmd) : str :=
  let n := node_of c in
  if n =? VARIABLE then [88; 95] ++ dec (p1_of c)                                     (* X_<k> *)
  else if n =? CONSTANT then
    (if (p1_of c =? -1) || (Z.of_nat (length consts) <=? p1_of c) then [63]            (* ? *)
     else match nth_error consts (Z.to_nat (pyidx (Z.of_nat (length consts)) (p1_of c))) with Some v => lit v | None => [63] end)
  else if n =? INTEGER then dec (p1_of c)
  else match sympy_template n with
       | Some t => fmt t (lookup strs [] (p1_of c)) (lookup strs [] (p2_of c))
       | None => []
       end.
Definition print_all (consts : list C) (s : stack) : list str :=
  fold_left (fun acc c => acc ++ [print_row consts acc c]) s [].
Definition sympy_string (consts : list C) (s : stack) : str := last (print_all consts s) [].
End Print.

(* ------------------------------------------------------------------ tokenizing (characters) *)
Definition is_digit (c : Z) : bool := (48 <=? c) && (c <=? 57).
Definition is_space (c : Z) : bool := (c =? 32) || ((9 <=? c) && (c <=? 13)) || ((28 <=? c) && (c <=? 31)).   (* \s on ASCII *)
Definition is_word (c : Z) : bool :=
  is_digit c || ((65 <=? c) && (c <=? 90)) || ((97 <=? c) && (c <=? 122)) || (c =? 95).                         (* \w on ASCII *)
Definition lower_char (c : Z) : Z := if (65 <=? c) && (c <=? 90) then c + 32 else c.

Fixpoint starts_with (p s : str) : bool :=
  match p, s with [], _ => true | x :: p', y :: s' => (x =? y) && starts_with p' s' | _, [] => false end.
Fixpoint contains (p s : str) : bool :=
  starts_with p s || match s with [] => false | _ :: r => contains p r end.

(* str.replace for a two-character pattern: leftmost, non-overlapping *)
Fixpoint replace2 (a b : Z) (rep : str) (s : str) : str :=
  match s with
  | x :: r => match r with
              | y :: r' => if (x =? a) && (y =? b) then rep ++ replace2 a b rep r' else x :: replace2 a b rep r
              | [] => [x]
              end
  | [] => []
  end.

(* negative_pattern.sub(r"-1 * \1"):  -([^\s\d]) *)
Fixpoint neg_sub (s : str) : str :=
  match s with
  | x :: r => match r with
              | y :: r' => if (x =? 45) && negb (is_space y || is_digit y) then neg_replacement ++ y :: neg_sub r' else x :: neg_sub r
              | [] => [x]
              end
  | [] => []
  end.

(* the number of negative_base_pattern:  \d+\.?\d*(?:e[+-]?\d+)?  then  \s*\^ ;  returns (group 1, rest after ^) *)
Fixpoint take_while (f : Z -> bool) (s : str) : str * str :=
  match s with x :: r => if f x then let '(a, b) := take_while f r in (x :: a, b) else ([], s) | [] => ([], []) end.
Definition scan_exponent (s : str) : str * str :=
  match s with
  | e :: r => if (e =? 101) || (e =? 69) then
                let '(sg, r1) := match r with x :: r' => if (x =? 43) || (x =? 45) then ([x], r') else ([], r) | [] => ([], r) end in
                let '(ds, r2) := take_while is_digit r1 in
                match ds with [] => ([], s) | _ => (e :: sg ++ ds, r2) end
              else ([], s)
  | [] => ([], s)
  end.
Definition scan_num_pow (s : str) : option (str * str) :=
  let '(d1, r1) := take_while is_digit s in
  match d1 with
  | [] => None
  | _ => let '(dot, r2) := match r1 with x :: r' => if x =? 46 then ([x], r') else ([], r1) | [] => ([], r1) end in
         let '(d2, r3) := take_while is_digit r2 in
         let '(ex, r4) := scan_exponent r3 in
         let '(_, r5) := take_while is_space r4 in
         match r5 with x :: r6 => if x =? 94 then Some (d1 ++ dot ++ d2 ++ ex, r6) else None | [] => None end
  end.
(* negative_base_pattern.sub(r"-1 * \1^"); [prev] is the character before the current position (0 at the start).
   fuel: the length of the string (each step consumes at least one character) *)
Fixpoint neg_base_sub (fuel : nat) (prev : Z) (s : str) : str :=
  match fuel with
  | O => s
  | S f =>
    match s with
    | [] => []
    | x :: r =>
      if (x =? 45) && negb (is_word prev || (prev =? 46) || (prev =? 41)) then
        match scan_num_pow r with
        | Some (num, rest) => neg_replacement ++ num ++ 94 :: neg_base_sub f 94 rest
        | None => x :: neg_base_sub f x r
        end
      else x :: neg_base_sub f x r
    end
  end.

(* non_unary_op_pattern.sub(r" \1 ") *)
Definition is_padded (c : Z) : bool := (c =? 42) || (c =? 47) || (c =? 94) || (c =? 40) || (c =? 41).
Definition pad (s : str) : str := flat_map (fun c => if is_padded c then [32; c; 32] else [c]) s.
(* .split(" ") followed by the filter x != "" *)
Fixpoint words_acc (cur : str) (s : str) : list str :=
  match s with
  | [] => match cur with [] => [] | _ => [rev cur] end
  | x :: r => if x =? 32 then (match cur with [] => words_acc [] r | _ => rev cur :: words_acc [] r end) else words_acc (x :: cur) r
  end.
Definition words (s : str) : list str := words_acc [] s.

Definition tokenize (s : str) : option (list str) :=
  if existsb (fun b => contains b s) bad_substrings then None
  else
    let s1 := replace2 42 42 [94] (replace2 41 40 [41; 42; 40] s) in
    let s2 := neg_sub s1 in
    let s3 := neg_base_sub (length s2) 0 s2 in
    Some (map (map lower_char) (words (pad s3))).

(* ------------------------------------------------------------------ tokens *)
Inductive tok :=
| TOp (node prec : Z) (is_pow : bool)     (* + - * / ^ *)
| TFun (node : Z)
| TLp | TRp
| TVarConst (node k : Z)                  (* x_<k> / c_<k> *)
| TInt (k : Z)
| TLit (text : str)                       (* anything float() accepts *)
| TBad (text : str).

Fixpoint assoc_str {A} (k : str) (l : list (str * A)) : option A :=
  match l with [] => None | (k', v) :: r => if str_eqb k k' then Some v else assoc_str k r end.
Fixpoint parse_nat (s : str) (acc : Z) : Z := match s with [] => acc | d :: r => parse_nat r (10 * acc + (d - 48)) end.
Definition all_digits (s : str) : bool := match s with [] => false | _ => forallb is_digit s end.

Section Classify.
Variable is_float : str -> bool.          (* oracle: float(token) succeeds *)
Definition classify (t : str) : tok :=
  match assoc_str t (map (fun x => (fst (fst x), (snd (fst x), snd x))) operator_table) with
  | Some (node, prec) => TOp node prec (str_eqb t [94])
  | None =>
  match assoc_str t function_table with
  | Some node => TFun node
  | None =>
    if str_eqb t [40] then TLp else if str_eqb t [41] then TRp
    else match t with
         | h :: u :: ds => if ((h =? 120) || (h =? 99)) && (u =? 95) && all_digits ds
                           then TVarConst (if h =? 120 then VARIABLE else CONSTANT) (parse_nat ds 0)
                           else if all_digits t then TInt (parse_nat t 0) else if is_float t then TLit t else TBad t
         | _ => if all_digits t then TInt (parse_nat t 0) else if is_float t then TLit t else TBad t
         end
  end end.
End Classify.

(* ------------------------------------------------------------------ infix_to_postfix (shunting-yard) *)
Definition is_op (t : tok) : bool := match t with TOp _ _ _ => true | _ => false end.
Definition is_fun (t : tok) : bool := match t with TFun _ => true | _ => false end.
Definition is_lp (t : tok) : bool := match t with TLp => true | _ => false end.

(* while stack and stack[-1] in operators and (prec[top] > prec[tok] or prec[top] == prec[tok] and tok != "^"): pop to output *)
Fixpoint pop_ops (prec : Z) (is_pow : bool) (st out : list tok) : list tok * list tok :=
  match st with
  | TOp n p w :: r => if (prec <? p) || ((p =? prec) && negb is_pow) then pop_ops prec is_pow r (out ++ [TOp n p w]) else (st, out)
  | _ => (st, out)
  end.
(* while stack and stack[-1] != "(": pop to output *)
Fixpoint pop_to_lp (st out : list tok) : list tok * list tok :=
  match st with
  | TLp :: _ => (st, out)
  | t :: r => pop_to_lp r (out ++ [t])
  | [] => ([], out)
  end.
Definition sy_step (state : option (list tok * list tok)) (t : tok) : option (list tok * list tok) :=
  match state with
  | None => None
  | Some (st, out) =>
    match t with
    | TOp n p w => let '(st', out') := pop_ops p w st out in Some (t :: st', out')
    | TLp | TFun _ => Some (t :: st, out)
    | TRp => let '(st', out') := pop_to_lp st out in
             match st' with
             | TLp :: r => match r with
                           | TFun f :: r' => Some (r', out' ++ [TFun f])
                           | _ => Some (r, out')
                           end
             | _ => None                              (* Mismatched parenthesis *)
             end
    | _ => Some (st, out ++ [t])
    end
  end.
Fixpoint flush (st out : list tok) : option (list tok) :=
  match st with
  | [] => Some out
  | TLp :: _ => None                                   (* Mismatched parenthesis *)
  | t :: r => flush r (out ++ [t])
  end.
Definition infix_to_postfix (ts : list tok) : option (list tok) :=
  match fold_left sy_step ts (Some ([], [])) with Some (st, out) => flush st out | None => None end.

(* ------------------------------------------------------------------ postfix_to_command_array_and_constants *)
Definition cmd_eqb3 (a b : cmd) : bool := (node_of a =? node_of b) && (p1_of a =? p1_of b) && (p2_of a =? p2_of b).
(* command_to_i is a dictionary keyed by the command; every command is appended at most once, so "index of the first equal
   row" is the same lookup *)
Fixpoint find_cmd (c : cmd) (rows : stack) (i : Z) : option Z :=
  match rows with [] => None | r :: q => if cmd_eqb3 c r then Some i else find_cmd c q (i + 1) end.

Record bstate := mkB { b_stack : list Z; b_rows : stack; b_consts : list str }.
Definition push_cmd (b : bstate) (stk : list Z) (consts : list str) (c : cmd) : bstate :=
  match find_cmd c (b_rows b) 0 with
  | Some i => mkB (i :: stk) (b_rows b) consts
  | None => mkB (Z.of_nat (length (b_rows b)) :: stk) (b_rows b ++ [c]) consts
  end.
Definition build_step (state : option bstate) (t : tok) : option bstate :=
  match state with
  | None => None
  | Some b =>
    match t with
    | TOp n _ _ => match b_stack b with
                   | y :: x :: r => Some (push_cmd b r (b_consts b) (n, x, y))       (* operands = pop(), pop(); [op, operands[1], operands[0]] *)
                   | _ => None                                                        (* IndexError: pop from empty list *)
                   end
    | TFun n => match b_stack b with
                | x :: r => Some (push_cmd b r (b_consts b) (n, x, x))
                | [] => None
                end
    | TVarConst n k => Some (push_cmd b (b_stack b) (b_consts b) (n, k, k))
    | TInt k => if k <=? 9223372036854775807                                          (* the command array is int64: OverflowError *)
                then Some (push_cmd b (b_stack b) (b_consts b) (INTEGER, k, k)) else None
    | TLit text => let n := Z.of_nat (length (b_consts b)) in
                   Some (push_cmd b (b_stack b) (b_consts b ++ [text]) (CONSTANT, n, n))
    | TBad _ => None                                                                  (* RuntimeError: Unknown token *)
    | TLp | TRp => None                                                               (* never in a postfix list; float("(") fails *)
    end
  end.
Definition build (post : list tok) : option (stack * list str) :=
  match fold_left build_step post (Some (mkB [] [] [])) with
  | Some b => match b_stack b with
              | _ :: _ :: _ => None                      (* Error evaluating postfix expression *)
              | _ => Some (b_rows b, b_consts b)
              end
  | None => None
  end.

(* eq_string_to_command_array_and_constants *)
Definition parse (is_float : str -> bool) (s : str) : option (stack * list str) :=
  match tokenize s with
  | None => None
  | Some ts => match infix_to_postfix (map (classify is_float) ts) with
               | None => None
               | Some post => build post
               end
  end.

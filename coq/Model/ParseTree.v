(* Token-level view of printed equations (property C16): the tree a printed string carries, its infix tokens as the sympy
   templates lay them out, its postfix form, and the tree the shunting-yard actually recovers (sums are re-associated to the left). *)
From Coq Require Import ZArith List Bool.
From Bingo Require Import Gen.OpDefs Gen.Strings Model.Stack Model.Parse.
Import ListNotations.
Open Scope Z_scope.

Inductive pexpr :=
| PVar (k : Z) | PInt (k : Z) | PLitc (text : str)
| POp1 (f : Z) (a : pexpr)
| PAdd (a b : pexpr) | PSub (a b : pexpr)
| PBin (node prec : Z) (is_pow : bool) (a b : pexpr)      (* "(a) op (b)" : * / ^ *)
| PSafe (a b : pexpr).                                      (* "abs(a)^(b)" *)

Definition T_ADD := TOp ADDITION 0 false.
Definition T_SUB := TOp SUBTRACTION 0 false.
Definition T_POW := TOp POWER 2 true.

(* the infix tokens of the printed form *)
Fixpoint toks (e : pexpr) : list tok :=
  match e with
  | PVar k => [TVarConst VARIABLE k] | PInt k => [TInt k] | PLitc t => [TLit t]
  | POp1 f a => [TFun f; TLp] ++ toks a ++ [TRp]
  | PAdd a b => toks a ++ [T_ADD] ++ toks b
  | PSub a b => toks a ++ [T_SUB; TLp] ++ toks b ++ [TRp]
  | PBin n p w a b => [TLp] ++ toks a ++ [TRp; TOp n p w; TLp] ++ toks b ++ [TRp]
  | PSafe a b => [TFun ABS; TLp] ++ toks a ++ [TRp; T_POW; TLp] ++ toks b ++ [TRp]
  end.

(* parse trees proper: what a postfix list denotes *)
Inductive qexpr := QAtom (t : tok) | QOp1 (f : Z) (a : qexpr) | QOp2 (o : tok) (a b : qexpr).
Fixpoint post (q : qexpr) : list tok :=
  match q with QAtom t => [t] | QOp1 f a => post a ++ [TFun f] | QOp2 o a b => post a ++ post b ++ [o] end.

(* the tree recovered from toks e: N at the top level or inside parentheses, A t0 when a pending "+" with left operand t0 waits *)
Fixpoint recov (e : pexpr) (pending : option qexpr) : qexpr :=
  let plus q := match pending with None => q | Some t0 => QOp2 T_ADD t0 q end in
  match e with
  | PVar k => plus (QAtom (TVarConst VARIABLE k)) | PInt k => plus (QAtom (TInt k)) | PLitc t => plus (QAtom (TLit t))
  | POp1 f a => plus (QOp1 f (recov a None))
  | PAdd a b => recov b (Some (recov a pending))
  | PSub a b => QOp2 T_SUB (recov a pending) (recov b None)
  | PBin n p w a b => plus (QOp2 (TOp n p w) (recov a None) (recov b None))
  | PSafe a b => plus (QOp2 T_POW (QOp1 ABS (recov a None)) (recov b None))
  end.

(* precedences the printer actually uses: * and / bind tighter than + and -, ^ tighter still *)
Fixpoint prec_ok (e : pexpr) : bool :=
  match e with
  | PVar _ | PInt _ | PLitc _ => true
  | POp1 _ a => prec_ok a
  | PAdd a b | PSub a b | PSafe a b => prec_ok a && prec_ok b
  | PBin _ p _ a b => (0 <? p) && prec_ok a && prec_ok b
  end.

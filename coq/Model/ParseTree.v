(* Token-level view of printed equations (property C16): the tree a printed string carries, its infix tokens as the sympy
   templates lay them out, its postfix form, and the tree the shunting-yard actually recovers (sums are re-associated to the left). *)
From Coq Require Import ZArith List Bool.
From Bingo Require Import Gen.OpDefs Gen.Strings Model.Stack Model.Parse.
Import ListNotations.
Open Scope Z_scope.

Inductive pexpr :=
| PVar (k : Z) | PInt (k : Z) | PLitc (text : str)
| POp1 (f : Z) (a : pexpr)
| PAdd (a b : pexpr) | PSub (a b : pexpr)
| PBin (node prec : Z) (is_pow : bool) (a b : pexpr)      (* "(a) op (b)" : * / ^ *)
| PSafe (a b : pexpr).                                      (* "abs(a)^(b)" *)

Definition T_ADD := TOp ADDITION 0 false.
Definition T_SUB := TOp SUBTRACTION 0 false.
Definition T_POW := TOp POWER 2 true.

(* the infix tokens of the printed form *)
Fixpoint toks (e : pexpr) : list tok :=
  match e with
  | PVar k => [TVarConst VARIABLE k] | PInt k => [TInt k] | PLitc t => [TLit t]
  | POp1 f a => [TFun f; TLp] ++ toks a ++ [TRp]
  | PAdd a b => toks a ++ [T_ADD] ++ toks b
  | PSub a b => toks a ++ [T_SUB; TLp] ++ toks b ++ [TRp]
  | PBin n p w a b => [TLp] ++ toks a ++ [TRp; TOp n p w; TLp] ++ toks b ++ [TRp]
  | PSafe a b => [TFun ABS; TLp] ++ toks a ++ [TRp; T_POW; TLp] ++ toks b ++ [TRp]
  end.

(* parse trees proper: what a postfix list denotes *)
Inductive qexpr := QAtom (t : tok) | QOp1 (f : Z) (a : qexpr) | QOp2 (o : tok) (a b : qexpr).
Fixpoint post (q : qexpr) : list tok :=
  match q with QAtom t => [t] | QOp1 f a => post a ++ [TFun f] | QOp2 o a b => post a ++ post b ++ [o] end.

(* the tree recovered from toks e: N at the top level or inside parentheses, A t0 when a pending "+" with left operand t0 waits *)
Fixpoint recov (e : pexpr) (pending : option qexpr) : qexpr :=
  let plus q := match pending with None => q | Some t0 => QOp2 T_ADD t0 q end in
  match e with
  | PVar k => plus (QAtom (TVarConst VARIABLE k)) | PInt k => plus (QAtom (TInt k)) | PLitc t => plus (QAtom (TLit t))
  | POp1 f a => plus (QOp1 f (recov a None))
  | PAdd a b => recov b (Some (recov a pending))
  | PSub a b => QOp2 T_SUB (recov a pending) (recov b None)
  | PBin n p w a b => plus (QOp2 (TOp n p w) (recov a None) (recov b None))
  | PSafe a b => plus (QOp2 T_POW (QOp1 ABS (recov a None)) (recov b None))
  end.

(* precedences the printer actually uses: * and / bind tighter than + and -, ^ tighter still *)
Fixpoint prec_ok (e : pexpr) : bool :=
  match e with
  | PVar _ | PInt _ | PLitc _ => true
  | POp1 _ a => prec_ok a
  | PAdd a b | PSub a b | PSafe a b => prec_ok a && prec_ok b
  | PBin _ p _ a b => (0 <? p) && prec_ok a && prec_ok b
  end.

(* ---------------- character level: the string the sympy templates produce for a tree ---------------- *)
Definition fun_name (f : Z) : str :=
  if f =? SIN then [115; 105; 110] else if f =? COS then [99; 111; 115] else if f =? SINH then [115; 105; 110; 104]
  else if f =? COSH then [99; 111; 115; 104] else if f =? EXPONENTIAL then [101; 120; 112] else if f =? LOGARITHM then [108; 111; 103]
  else if f =? ABS then [97; 98; 115] else [115; 113; 114; 116].
Definition op_text (n : Z) (hat : bool) : str :=
  if n =? MULTIPLICATION then [42] else if n =? DIVISION then [47] else if hat then [94] else [42; 42].
(* [hat = false]: what the printer writes ("**"); [hat = true]: after the tokenizer's replace("**", "^") *)
Fixpoint render (hat : bool) (e : pexpr) : str :=
  match e with
  | PVar k => [88; 95] ++ dec k
  | PInt k => dec k
  | PLitc t => t
  | POp1 f a => fun_name f ++ [40] ++ render hat a ++ [41]
  | PAdd a b => render hat a ++ [32; 43; 32] ++ render hat b
  | PSub a b => render hat a ++ [32; 45; 32; 40] ++ render hat b ++ [41]
  | PBin n _ _ a b => [40] ++ render hat a ++ [41] ++ op_text n hat ++ [40] ++ render hat b ++ [41]
  | PSafe a b => [97; 98; 115; 40] ++ render hat a ++ [41] ++ op_text POWER hat ++ [40] ++ render hat b ++ [41]
  end.
(* the token texts, before lower-casing *)
Fixpoint toks_text (e : pexpr) : list str :=
  match e with
  | PVar k => [[88; 95] ++ dec k] | PInt k => [dec k] | PLitc t => [t]
  | POp1 f a => [fun_name f; [40]] ++ toks_text a ++ [[41]]
  | PAdd a b => toks_text a ++ [[43]] ++ toks_text b
  | PSub a b => toks_text a ++ [[45]; [40]] ++ toks_text b ++ [[41]]
  | PBin n _ _ a b => [[40]] ++ toks_text a ++ [[41]; op_text n true; [40]] ++ toks_text b ++ [[41]]
  | PSafe a b => [[97; 98; 115]; [40]] ++ toks_text a ++ [[41]; [94]; [40]] ++ toks_text b ++ [[41]]
  end.

(* what str(float) looks like for a finite float: digits, '.', 'e', '+', '-'; starts with a digit or '-', ends with a digit,
   every '-' is followed by a digit, it is not an integer literal *)
Definition lit_char (c : Z) : bool := is_digit c || (c =? 46) || (c =? 101) || (c =? 43) || (c =? 45).
Fixpoint minus_ok (s : str) : bool :=
  match s with x :: r => (match r with y :: _ => negb (x =? 45) || is_digit y | [] => negb (x =? 45) end) && minus_ok r | [] => true end.
Definition lit_ok (t : str) : bool :=
  forallb lit_char t && minus_ok t && negb (all_digits t) &&
  match t with c :: _ => is_digit c || (c =? 45) | [] => false end && is_digit (last t 0).
(* trees whose texts are printable: variables and integers non-negative, literals as above, the operators of the templates *)
Fixpoint text_ok (e : pexpr) : bool :=
  match e with
  | PVar k => 0 <=? k
  | PInt k => (0 <=? k) && (k <=? 9223372036854775807)
  | PLitc t => lit_ok t
  | POp1 f a => existsb (Z.eqb f) [SIN; COS; SINH; COSH; EXPONENTIAL; LOGARITHM; ABS; SQRT] && text_ok a
  | PAdd a b | PSub a b | PSafe a b => text_ok a && text_ok b
  | PBin n pr w a b =>
      (((n =? MULTIPLICATION) && (pr =? 1) && negb w) || ((n =? DIVISION) && (pr =? 1) && negb w) || ((n =? POWER) && (pr =? 2) && w))
      && text_ok a && text_ok b
  end.

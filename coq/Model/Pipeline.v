(* Model of the generational pipeline with respect to stored fitness values (properties C05, C09).
   bingo/variation/{var_or,var_and,add_random_individuals}.py, bingo/evaluation/evaluation.py,
   bingo/evolutionary_algorithms/{evolutionary_algorithm,mu_plus_lambda,mu_comma_lambda,age_fitness,
   generalized_crowding,ea_diagnostics}.py, bingo/evolutionary_optimizers/island.py.

   An individual is (genome, stored fitness, evaluated flag).  Crossover / mutation / generation outcomes
   are an oracle ([ospec]); what IS modelled is what each phase does to flags and stored values and
   which phases READ stored values.  A read of a stored value that is not the fitness of the current
   genome is a [StaleRead]; a read of a missing value is a [MissingRead]. *)
From Coq Require Import List Bool Arith.
Import ListNotations.

Section Pipe.
Variables (G F : Type) (fit : G -> F) (opt : G -> G).

Record ind := mkInd { genome : G; stored : option F; flag : bool }.

(* how each offspring of a variation phase came about *)
Inductive ospec :=
| OCopy (p : nat)                 (* parent.copy() *)
| ONew (ps : list nat) (g : G)    (* result of crossover and/or mutation on copies of parents ps: the operators clear the flag *)
| OGen (g : G).                   (* fresh individual from the generator *)

Definition dflt (g0 : G) : ind := mkInd g0 None false.

Definition make_child (g0 : G) (pop : list ind) (reset : bool) (s : ospec) : ind :=
  match s with
  | OCopy p => let i := nth p pop (dflt g0) in mkInd (genome i) (stored i) (if reset then false else flag i)
  | ONew ps g => mkInd g (stored (nth (hd 0 ps) pop (dflt g0))) false
  | OGen g => mkInd g None false
  end.

Definition parents_of (s : ospec) : list nat :=
  match s with OCopy p => [p] | ONew ps _ => ps | OGen _ => [] end.

(* VarOr clears every offspring's flag; VarAnd (+AddRandomIndividuals) does not *)
Definition variation (g0 : G) (reset : bool) (pop : list ind) (specs : list ospec) : list ind :=
  map (make_child g0 pop reset) specs.

(* Evaluation._serial_eval (non-redundant), possibly through local optimisation *)
Definition evaluate1 (i : ind) : ind :=
  if flag i then i else let g := opt (genome i) in mkInd g (Some (fit g)) true.
Definition evaluate (pop : list ind) : list ind := map evaluate1 pop.

Inductive outcome (A : Type) := Ok (a : A) | MissingRead | StaleRead | BadOracle.
Arguments Ok {A}. Arguments MissingRead {A}. Arguments StaleRead {A}. Arguments BadOracle {A}.

Section Reads.
Variable feq : F -> F -> bool.       (* decides equality of fitness values, only used to classify reads *)

(* reading individual i's stored fitness *)
Definition read_ok (i : ind) : outcome unit :=
  match stored i with
  | None => MissingRead
  | Some v => if feq v (fit (genome i)) then Ok tt else StaleRead
  end.

Fixpoint read_all (l : list ind) : outcome unit :=
  match l with
  | [] => Ok tt
  | i :: r => match read_ok i with Ok _ => read_all r | e => e end
  end.

(* EaDiagnostics.update (after fix F4): offspring without parents, or with a parent that has no fitness, are skipped *)
Fixpoint diagnostics (g0 : G) (pop offspring : list ind) (specs : list ospec) : outcome unit :=
  match offspring, specs with
  | c :: cr, s :: sr =>
    let ps := map (fun p => nth p pop (dflt g0)) (parents_of s) in
    if (match ps with [] => true | _ => false end) || existsb (fun p => match stored p with None => true | _ => false end) ps
    then diagnostics g0 pop cr sr
    else match read_ok c with
         | Ok _ => match read_all ps with Ok _ => diagnostics g0 pop cr sr | e => e end
         | e => e
         end
  | _, _ => Ok tt
  end.

(* a selection reads every candidate's fitness and returns the candidates at the chosen positions
   (aliases or copies: same fields either way) *)
Definition selection (g0 : G) (cands : list ind) (chosen : list nat) : outcome (list ind) :=
  match read_all cands with
  | Ok _ => if forallb (fun n => Nat.ltb n (length cands)) chosen
            then Ok (map (fun n => nth n cands (dflt g0)) chosen) else BadOracle
  | MissingRead => MissingRead | StaleRead => StaleRead | BadOracle => BadOracle
  end.

Inductive ea := BaseEA | MuPlusLambda | MuCommaLambda | AgeFitnessEA | CrowdingEA.

Definition uses_var_or (a : ea) : bool :=
  match a with MuPlusLambda | MuCommaLambda => true | _ => false end.

(* generational_step of each algorithm *)
Definition generational_step (g0 : G) (a : ea) (pop : list ind) (specs : list ospec) (chosen : list nat)
  : outcome (list ind) :=
  let offspring := variation g0 (uses_var_or a) pop specs in
  match a with
  | BaseEA =>
    let pop' := evaluate pop in let off' := evaluate offspring in
    match selection g0 off' chosen with
    | Ok next => match diagnostics g0 pop' off' specs with Ok _ => Ok next
                 | MissingRead => MissingRead | StaleRead => StaleRead | BadOracle => BadOracle end
    | e => e
    end
  | MuPlusLambda | AgeFitnessEA | CrowdingEA =>
    let pop' := evaluate pop in let off' := evaluate offspring in
    match diagnostics g0 pop' off' specs with
    | Ok _ => selection g0 (pop' ++ off') chosen
    | MissingRead => MissingRead | StaleRead => StaleRead | BadOracle => BadOracle
    end
  | MuCommaLambda =>
    let off' := evaluate offspring in
    match diagnostics g0 pop off' specs with
    | Ok _ => selection g0 off' chosen
    | MissingRead => MissingRead | StaleRead => StaleRead | BadOracle => BadOracle
    end
  end.

(* island-level operations between generational steps *)
Inductive iop :=
| IStep (specs : list ospec) (chosen : list nat)
| IReset                                (* reset_fitness (migration) *)
| IBest                                 (* get_best_individual / hall-of-fame update: evaluates when due, then reads every member *)
| IRegen (gs : list G)                  (* regenerate_population: fresh, unevaluated individuals whatever the island's age *)
| IMigrate (keep : list nat) (incoming : list ind)   (* migration: the members at [keep] stay, the partner's arrive, then reset_fitness *)
.

Definition unflag (i : ind) : ind := mkInd (genome i) (stored i) false.
(* Island.get_best_individual / _get_potential_hof_members (after fix F23): the population is evaluated first when the island is
   new or some member is not marked evaluated *)
Definition eval_due (pop : list ind) (age : nat) : bool := Nat.eqb age 0 || negb (forallb flag pop).

Definition island_op (g0 : G) (a : ea) (st : list ind * nat) (o : iop) : outcome (list ind * nat) :=
  let '(pop, age) := st in
  match o with
  | IStep specs chosen =>
    match generational_step g0 a pop specs chosen with
    | Ok next => Ok (next, S age)
    | MissingRead => MissingRead | StaleRead => StaleRead | BadOracle => BadOracle
    end
  | IReset => Ok (map unflag pop, age)
  | IBest =>
    let pop' := if eval_due pop age then evaluate pop else pop in
    match read_all pop' with
    | Ok _ => Ok (pop', age)
    | MissingRead => MissingRead | StaleRead => StaleRead | BadOracle => BadOracle
    end
  | IRegen gs => Ok (map (fun g => mkInd g None false) gs, age)
  | IMigrate keep incoming =>
    if forallb (fun k => Nat.ltb k (length pop)) keep
    then Ok (map unflag (map (fun k => nth k pop (dflt g0)) keep ++ incoming), age)
    else BadOracle
  end.

Fixpoint island_run (g0 : G) (a : ea) (st : list ind * nat) (ops : list iop) : outcome (list ind * nat) :=
  match ops with
  | [] => Ok st
  | o :: r => match island_op g0 a st o with
              | Ok st' => island_run g0 a st' r
              | MissingRead => MissingRead | StaleRead => StaleRead | BadOracle => BadOracle
              end
  end.
End Reads.
End Pipe.
Arguments Ok {A}. Arguments MissingRead {A}. Arguments StaleRead {A}. Arguments BadOracle {A}.

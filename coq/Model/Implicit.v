(* Model of bingo/symbolic_regression/implicit_regression.py (property C20):
   _savitzky_golay_gram (weights from the TRANSLATED Gram functions, Gen/SavGol.v), _calculate_partials,
   ImplicitRegression.evaluate_fitness_vector with the default (mean absolute error) metric.
   All arithmetic is over exact rationals. *)
From Coq Require Import ZArith QArith Qabs List Bool.
From Bingo Require Import Gen.SavGol.
Import ListNotations.
Open Scope Z_scope.

Definition m_half : Z := (sg_window - 1) / 2.
(* weights[k + m, w] *)
Definition W (k w : Z) : Q := gram_weight k (w - m_half) m_half sg_order sg_deriv.
Definition ks : list Z := zrange (- m_half) (m_half + 1).
(* the weight table, computed once (per build) from the translated functions *)
Definition Wtab : list (list Q) :=
  Eval vm_compute in map (fun k => map (fun w => Qred (W k w)) (zrange 0 (2 * m_half + 1))) ks.
Definition Wt (k w : Z) : Q := nth (Z.to_nat w) (nth (Z.to_nat (k + m_half)) Wtab []) 0%Q.

(* Python list/array indexing: negative indices wrap once, anything else out of range raises IndexError *)
Definition py_in_range (n idx : Z) : bool := ((0 <=? idx) && (idx <? n)) || ((idx <? 0) && (0 <=? n + idx)).
Definition nthZ (y : list Q) (idx : Z) : Q :=
  let n := Z.of_nat (length y) in
  if 0 <=? idx then nth (Z.to_nat idx) y 0%Q else nth (Z.to_nat (n + idx)) y 0%Q.

Definition sumq (l : list Q) : Q := fold_left Qplus l 0%Q.

Definition conv_at (y : list Q) (i : Z) : Q :=
  let '(yc, w) := conv_index i (Z.of_nat (length y)) m_half in
  sumq (map (fun k => (nthZ y (yc + k) * Wt k w)%Q) ks).
Definition conv_ok (y : list Q) (i : Z) : bool :=
  let '(yc, w) := conv_index i (Z.of_nat (length y)) m_half in
  forallb (fun k => py_in_range (Z.of_nat (length y)) (yc + k)) ks.

(* _savitzky_golay_gram(y, 7, 3, 1); None = IndexError *)
Definition sg_filter (y : list Q) : option (list Q) :=
  let idx := zrange 0 (Z.of_nat (length y)) in
  if forallb (conv_ok y) idx then Some (map (conv_at y) idx) else None.

(* l[trim_front : -trim_back] *)
Definition trim {A} (l : list A) : list A :=
  firstn (length l - Z.to_nat trim_back - Z.to_nat trim_front) (skipn (Z.to_nat trim_front) l).

(* segments (start, end) between NaN rows: break_points = NaN rows ++ [len]; start = end + 1 *)
Fixpoint segments (mask : list bool) (start cur : nat) : list (nat * nat) :=
  match mask with
  | [] => [(start, cur)]
  | b :: r => if b then (start, cur) :: segments r (S cur) (S cur) else segments r start (S cur)
  end.

Definition slice {A} (l : list A) (s e : nat) : list A := firstn (e - s) (skipn s l).

Fixpoint option_concat {A} (l : list (option (list A))) : option (list A) :=
  match l with
  | [] => Some []
  | None :: _ => None
  | Some x :: r => match option_concat r with Some y => Some (x ++ y) | None => None end
  end.

(* one column: (retained x values, time derivatives) *)
Definition partials_col (mask : list bool) (col : list Q) : option (list Q * list Q) :=
  let segs := segments mask 0 0 in
  match option_concat (map (fun se => match sg_filter (slice col (fst se) (snd se)) with
                                      | Some f => Some (trim f) | None => None end) segs) with
  | Some d => Some (concat (map (fun se => trim (slice col (fst se) (snd se))) segs), d)
  | None => None
  end.

Definition retained_rows (mask : list bool) : list nat :=
  concat (map (fun se => trim (seq (fst se) (snd se - fst se))) (segments mask 0 0)).

(* ---- implicit-regression fitness ---- *)
Definition sumabs (l : list Q) : Q := sumq (map Qabs l).
(* one row: sum(df_dx * dx_dt) / sum(|df_dx * dx_dt|); None models the 0/0 -> NaN (and inf) cases *)
Definition row_value (dots : list Q) : option Q :=
  if Qeq_bool (sumabs dots) 0 then None else Some (sumq dots / sumabs dots)%Q.
Definition dots_of (df dx : list Q) : list Q := map (fun p => (fst p * snd p)%Q) (combine df dx).

(* mean absolute error of the normalised vector; None if some row is NaN/inf or there are no rows *)
Fixpoint all_some {A} (l : list (option A)) : option (list A) :=
  match l with
  | [] => Some []
  | Some x :: r => match all_some r with Some y => Some (x :: y) | None => None end
  | None :: _ => None
  end.
Definition implicit_fitness (rows : list (list Q)) : option Q :=
  match all_some (map row_value rows) with
  | Some vs => if Nat.eqb (length vs) 0 then None
               else Some (sumq (map Qabs vs) / inject_Z (Z.of_nat (length vs)))%Q
  | None => None
  end.

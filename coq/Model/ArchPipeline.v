(* Archipelago-level histories with respect to stored fitness values (property C05): several islands, each going through the
   island-level operations of Model/Pipeline.v, and migrations BETWEEN them - the members that arrive at one island are the
   members that leave the other (bingo/evolutionary_optimizers/serial_archipelago.py: _coordinate_migration_between_islands,
   _population_exchange_program, reset_fitness on both partners). *)
From Coq Require Import List Bool Arith.
From Bingo Require Import Model.Pipeline.
Import ListNotations.

Section Arch.
Variables (G F : Type) (fit : G -> F) (opt : G -> G) (feq : F -> F -> bool) (g0 : G).
Notation ind := (ind G F).
Definition island := (list ind * nat)%type.

Fixpoint set_nth {A} (l : list A) (k : nat) (x : A) : list A :=
  match l, k with [] , _ => [] | _ :: r, O => x :: r | y :: r, S k' => y :: set_nth r k' x end.

Inductive aop :=
| AIsland (k : nat) (o : iop G F)       (* island k performs a step / reset / best query / regeneration (or receives individuals from outside) *)
| AExchange (k1 k2 : nat) (keep1 leave1 keep2 leave2 : list nat).
    (* islands k1 <> k2 migrate: the members at [leave1] of k1 move to k2, those at [leave2] of k2 move to k1, both are reset *)

Definition members (pop : list ind) (ks : list nat) : list ind := map (fun k => nth k pop (dflt G F g0)) ks.

Definition arch_op (a : ea) (isls : list island) (o : aop) : outcome (list island) :=
  match o with
  | AIsland k io =>
      match nth_error isls k with
      | None => BadOracle
      | Some st => match island_op G F fit opt feq g0 a st io with
                   | Ok st' => Ok (set_nth isls k st')
                   | MissingRead => MissingRead | StaleRead => StaleRead | BadOracle => BadOracle
                   end
      end
  | AExchange k1 k2 keep1 leave1 keep2 leave2 =>
      match nth_error isls k1, nth_error isls k2 with
      | Some (p1, a1), Some (p2, a2) =>
          if Nat.eqb k1 k2 then BadOracle else
          match island_op G F fit opt feq g0 a (p1, a1) (IMigrate G F keep1 (members p2 leave2)),
                island_op G F fit opt feq g0 a (p2, a2) (IMigrate G F keep2 (members p1 leave1)) with
          | Ok s1, Ok s2 => Ok (set_nth (set_nth isls k1 s1) k2 s2)
          | _, _ => BadOracle
          end
      | _, _ => BadOracle
      end
  end.

Fixpoint arch_run (a : ea) (isls : list island) (ops : list aop) : outcome (list island) :=
  match ops with
  | [] => Ok isls
  | o :: r => match arch_op a isls o with
              | Ok isls' => arch_run a isls' r
              | MissingRead => MissingRead | StaleRead => StaleRead | BadOracle => BadOracle
              end
  end.
End Arch.

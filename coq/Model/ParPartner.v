(* Model of ParallelArchipelago._get_migration_partner (bingo/evolutionary_optimizers/parallel_archipelago.py): every rank
   receives the same shuffled list of ranks and finds its partner from its own position in it (property C11, parallel case). *)
From Coq Require Import List Bool Arith.
Import ListNotations.

(* list.index(x): position of the first occurrence; None: ValueError *)
Fixpoint index_of (x : nat) (l : list nat) : option nat :=
  match l with
  | [] => None
  | y :: r => if Nat.eqb y x then Some 0 else match index_of x r with Some i => Some (S i) | None => None end
  end.

(* outer None: the rank is not in the list (the call raises); inner None: the rank sits this migration out *)
Definition partner (order : list nat) (rank : nat) : option (option nat) :=
  match index_of rank order with
  | None => None
  | Some i => Some (if Nat.even i
                    then (if Nat.ltb (S i) (length order) then Some (nth (S i) order 0) else None)
                    else Some (nth (i - 1) order 0))
  end.

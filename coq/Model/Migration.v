(* Model of serial-archipelago migration (property C11).
   bingo/evolutionary_optimizers/serial_archipelago.py: _coordinate_migration_between_islands,
     _shuffle_island_indices, _shuffle_island_and_swap_pairs, _population_exchange_program
   bingo/evolutionary_optimizers/island.py: dump_fraction_of_population, reset_fitness, _do_evolution
   bingo/evolutionary_optimizers/archipelago.py: _do_evolution
   np.random.shuffle outcomes are tape cells: a cell [s] means new[i] = old[s[i]]. *)
From Coq Require Import List Bool Arith.
Import ListNotations.

Definition indv := (nat * bool)%type.          (* (object id, fit_set) *)
Definition island := list indv.

Fixpoint upd {A} (l : list A) (i : nat) (x : A) : list A :=
  match l, i with
  | [], _ => []
  | _ :: r, O => x :: r
  | y :: r, S i' => y :: upd r i' x
  end.

Definition mem (x : nat) (s : list nat) : bool := existsb (Nat.eqb x) s.
Fixpoint nodupb (l : list nat) : bool :=
  match l with [] => true | x :: r => negb (mem x r) && nodupb r end.
(* a legal outcome of shuffling n things *)
Definition is_perm (s : list nat) (n : nat) : bool :=
  Nat.eqb (length s) n && forallb (fun i => Nat.ltb i n) s && nodupb s.

Definition apply_perm {A} (d : A) (s : list nat) (l : list A) : list A := map (fun i => nth i l d) s.

(* int(round(0.5 * n)) : Python rounds half to even *)
Definition half_round (n : nat) : nat :=
  let k := Nat.div n 2 in
  if Nat.even n then k else if Nat.even k then k else S k.

Definition dflt : indv := (0, false).

(* Island.dump_fraction_of_population(0.5) -> (dumped, remaining) *)
Definition dump_half (s : list nat) (pop : island) : island * island :=
  let shuffled := apply_perm dflt s pop in
  let idx := half_round (length pop) in
  (firstn idx shuffled, skipn idx shuffled).

Definition reset_fitness (pop : island) : island := map (fun p => (fst p, false)) pop.

Inductive outcome (A : Type) := Ok (a : A) | BadTape.
Arguments Ok {A}. Arguments BadTape {A}.

(* _shuffle_island_and_swap_pairs for partners p1 p2; consumes two shuffle cells *)
Definition exchange (isls : list island) (p1 p2 : nat) (tape : list (list nat))
  : outcome (list island * list (list nat)) :=
  match tape with
  | s1 :: s2 :: tape' =>
    let i1 := nth p1 isls [] in let i2 := nth p2 isls [] in
    if is_perm s1 (length i1) && is_perm s2 (length i2) then
      let '(to2, rem1) := dump_half s1 i1 in
      let '(to1, rem2) := dump_half s2 i2 in
      let isls1 := upd isls p1 (reset_fitness (rem1 ++ to1)) in
      Ok (upd isls1 p2 (reset_fitness (rem2 ++ to2)), tape')
    else BadTape
  | _ => BadTape
  end.

(* for i in range(n // 2): partners = order[2i], order[2i+1] *)
Fixpoint exchange_pairs (isls : list island) (order : list nat) (tape : list (list nat))
  : outcome (list island) :=
  match order with
  | p1 :: p2 :: rest =>
    match exchange isls p1 p2 tape with
    | Ok (isls', tape') => exchange_pairs isls' rest tape'
    | BadTape => BadTape
    end
  | _ => Ok isls
  end.

Definition migrate (isls : list island) (tape : list (list nat)) : outcome (list island) :=
  match tape with
  | order :: tape' =>
    if is_perm order (length isls) then exchange_pairs isls order tape' else BadTape
  | [] => BadTape
  end.

(* Archipelago._do_evolution: migrate, step every island n generations (abstract [step]), age += n.
   Island._do_evolution increments its own age once per generational step. *)
Record arch := mkArch { a_age : nat; a_isl_ages : list nat; a_islands : list island }.

Section Evolve.
  Variable step : nat -> island -> island.      (* island.evolve(n) on the population: an oracle *)
  Fixpoint island_age_after (n age : nat) : nat :=
    match n with O => age | S m => island_age_after m (S age) end.
  Definition evolve (a : arch) (n : nat) (tape : list (list nat)) : outcome arch :=
    match migrate (a_islands a) tape with
    | Ok isls => Ok (mkArch (a_age a + n) (map (island_age_after n) (a_isl_ages a)) (map (step n) isls))
    | BadTape => BadTape
    end.
End Evolve.

(* encoding *)
From Coq Require Import ZArith.
Definition enc_islands (o : outcome (list island)) : list Z :=
  match o with
  | BadTape => [(-1)%Z]
  | Ok isls => Z.of_nat (length isls) ::
               flat_map (fun i => Z.of_nat (length i) ::
                                  flat_map (fun p : indv => [Z.of_nat (fst p); (if snd p then 1%Z else 0%Z)]) i) isls
  end.

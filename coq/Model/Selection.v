(* Model of bingo/selection/{age_fitness,tournament,generalized_crowding,deterministic_crowding}.py (property C08).
   Random draws are an oracle tape; a cell that does not have the shape numpy guarantees
   (distinct indices below the bound, right length) yields [BadTape], which the theorems exclude. *)
From Coq Require Import ZArith List Bool Arith.
From Bingo Require Export Lib.Key Model.Best.
From Bingo Require Import Gen.Consts.
Import ListNotations.

Record ind := mkInd { sid : nat; sage : Z; sfit : key }.

Inductive outcome (A : Type) :=
| Ok (a : A)
| Raises          (* the Python code raises (ValueError / IndexError) *)
| BadTape         (* the tape is exhausted or a cell is not a legal draw *)
.
Arguments Ok {A}. Arguments Raises {A}. Arguments BadTape {A}.

Definition dflt : ind := mkInd 0 0 None.
Definition getp (pop : list ind) (i : nat) : ind := nth i pop dflt.

(* ---------------- age-fitness ---------------- *)
(* not (first.genetic_age > second.genetic_age or first.fitness > second.fitness) *)
Definition first_not_dominated (a b : ind) : bool :=
  negb ((sage b <? sage a)%Z || klt (sfit b) (sfit a)).

Definition mem (x : nat) (s : list nat) : bool := existsb (Nat.eqb x) s.
Definition add (x : nat) (s : list nat) : list nat := if mem x s then s else x :: s.

Definition update_removal_set (pop : list ind) (i1 i2 : nat) (s : list nat) : list nat :=
  let a := getp pop i1 in let b := getp pop i2 in
  if kisnan (sfit a) then add i1 s
  else if kisnan (sfit b) then add i2 s
  else if first_not_dominated a b then add i2 s
  else if first_not_dominated b a then add i1 s
  else s.

(* inner loop: for ind_b in inds[i+1:]: if ind_b not in removal_set: update; if len >= needed: return
   result: (set, returned_early) *)
Fixpoint inner (pop : list ind) (a : nat) (bs : list nat) (needed : nat) (s : list nat) : list nat * bool :=
  match bs with
  | [] => (s, false)
  | b :: r =>
    if mem b s then inner pop a r needed s
    else let s' := update_removal_set pop a b s in
         if Nat.leb needed (length s') then (s', true) else inner pop a r needed s'
  end.

(* outer loop: for i, ind_a in enumerate(inds[:-1]): if ind_a not in removal_set: inner over inds[i+1:] *)
Fixpoint outer (pop : list ind) (inds : list nat) (needed : nat) (s : list nat) : list nat :=
  match inds with
  | [] => s
  | [_] => s                      (* inds[:-1] stops before the last element *)
  | a :: r =>
    if mem a s then outer pop r needed s
    else let '(s', early) := inner pop a r needed s in
         if early then s' else outer pop r needed s'
  end.

Definition streamlined_pair (pop : list ind) (i1 i2 : nat) : list nat :=
  let a := getp pop i1 in let b := getp pop i2 in
  if kisnan (sfit a) then [i1]
  else if kisnan (sfit b) then [i2]
  else if first_not_dominated a b then [i2]
  else if first_not_dominated b a then [i1]
  else [].

Definition find_inds_for_removal (sel_size : nat) (inds : list nat) (pop : list ind) (needed : nat) : list nat :=
  if Nat.ltb (length inds) 2 then []
  else if Nat.eqb sel_size 2 then streamlined_pair pop (nth 0 inds 0%nat) (nth 1 inds 0%nat)
  else outer pop inds needed [].

(* array swap *)
Fixpoint upd {A} (l : list A) (i : nat) (x : A) : list A :=
  match l, i with
  | [], _ => []
  | _ :: r, O => x :: r
  | y :: r, S i' => y :: upd r i' x
  end.
Definition swap (pop : list ind) (i j : nat) : list ind :=
  upd (upd pop i (getp pop j)) j (getp pop i).

(* insertion sort, descending *)
Fixpoint ins_desc (x : nat) (l : list nat) : list nat :=
  match l with [] => [x] | y :: r => if Nat.leb y x then x :: l else y :: ins_desc x r end.
Definition sort_desc (l : list nat) : list nat := fold_right ins_desc [] l.

(* for i, ind in enumerate(sorted(inds_to_remove, reverse=True)): swap(population, ind, -(i+num_removed+1))
   the negative index -(k) is position len - k *)
Fixpoint swap_removals (pop : list ind) (sorted : list nat) (i : nat) (num_removed : nat) : list ind :=
  match sorted with
  | [] => pop
  | r :: rest => swap_removals (swap pop r (length pop - (i + num_removed + 1))) rest (S i) num_removed
  end.

Definition iota (n : nat) : list nat := seq 0 n.

Definition nodupb (l : list nat) : bool :=
  (fix go (l : list nat) := match l with [] => true | x :: r => negb (mem x r) && go r end) l.

Definition legal_sample (cell : list nat) (bound size : nat) : bool :=
  Nat.eqb (length cell) size && forallb (fun i => Nat.ltb i bound) cell && nodupb cell.

(* _get_unique_rand_indices *)
Definition unique_rand_indices (sel_size max_int : nat) (tape : list (list nat)) : outcome (list nat * list (list nat)) :=
  if Nat.leb max_int sel_size then Ok (iota max_int, tape)
  else match tape with
       | [] => BadTape
       | cell :: t => if legal_sample cell max_int sel_size then Ok (cell, t) else BadTape
       end.

Record af_state := mkAF { af_pop : list ind; af_removed : nat; af_tape : list (list nat) }.

Fixpoint af_loop (fuel : nat) (sel_size start target_removal : nat) (st : af_state) : outcome af_state :=
  match fuel with
  | O => Ok st                                   (* selection_attempts exhausted *)
  | S f =>
    if Nat.ltb (af_removed st) target_removal then
      match unique_rand_indices sel_size (start - af_removed st) (af_tape st) with
      | Ok (inds, tape') =>
        let to_remove := find_inds_for_removal sel_size inds (af_pop st) (target_removal - af_removed st) in
        let pop' := swap_removals (af_pop st) (sort_desc to_remove) 0 (af_removed st) in
        af_loop f sel_size start target_removal (mkAF pop' (af_removed st + length to_remove) tape')
      | Raises => Raises
      | BadTape => BadTape
      end
    else Ok st
  end.

Definition age_fitness (sel_size : nat) (pop : list ind) (target : nat) (tape : list (list nat))
  : outcome (list ind * list ind) :=     (* (returned population, caller's list afterwards) *)
  if Nat.ltb (length pop) target then Raises
  else let start := length pop in
       match af_loop (start * worst_case_factor) sel_size start (start - target) (mkAF pop 0 tape) with
       | Ok st => Ok (firstn (start - af_removed st) (af_pop st), af_pop st)
       | Raises => Raises
       | BadTape => BadTape
       end.

(* ---------------- tournament ---------------- *)
(* one tournament: members drawn without replacement (tape cell = indices), NaN-aware scan, copy *)
Definition tournament1 (size : nat) (pop : list ind) (cell : list nat) : outcome nat :=
  if negb (legal_sample cell (length pop) size) then BadTape
  else match scan_best (map (fun i => sfit (getp pop i)) cell) with
       | Some w => Ok (nth w cell 0%nat)
       | None => Raises                            (* tournament_members[0] on an empty sample *)
       end.

Fixpoint tournament (size : nat) (pop : list ind) (target : nat) (tape : list (list nat)) : outcome (list nat) :=
  match target with
  | O => Ok []
  | S t =>
    if Nat.ltb (length pop) size then Raises      (* numpy: cannot take a larger sample than population *)
    else
    match tape with
    | [] => BadTape
    | cell :: tp =>
      match tournament1 size pop cell with
      | Ok w => match tournament size pop t tp with
                | Ok ws => Ok (w :: ws) | Raises => Raises | BadTape => BadTape end
      | Raises => Raises
      | BadTape => BadTape
      end
    end
  end.

(* ---------------- deterministic crowding ---------------- *)
Definition most_fit_det (child parent : ind) : ind :=
  if kisnan (sfit parent) then child
  else if kisnan (sfit child) then parent
  else if klt (sfit child) (sfit parent) then child else parent.

(* pairs i = 0 .. target/2-1 ; [close i] is the oracle for  dist_a <= dist_b  of pair i *)
Fixpoint crowd_pairs (parents offspring : list ind) (close : list bool) (npairs : nat) {struct npairs} : list ind :=
  match npairs, parents, offspring, close with
  | S n, p1 :: p2 :: ps, c1 :: c2 :: cs, cl :: cls =>
    (if cl then [most_fit_det c1 p1; most_fit_det c2 p2] else [most_fit_det c2 p1; most_fit_det c1 p2])
    ++ crowd_pairs ps cs cls n
  | _, _, _, _ => parents
  end.

Definition crowding (pop : list ind) (target : nat) (close : list bool) : outcome (list ind) :=
  if negb (Nat.even (length pop)) || negb (Nat.even target) then Raises
  else let half := Nat.div (length pop) 2 in
       if Nat.ltb half target then Raises
       else if Nat.ltb (length close) (Nat.div target 2) then BadTape
       else Ok (firstn target (crowd_pairs (firstn half pop) (skipn half pop) close (Nat.div target 2))).

(* ---------------- encodings for the correspondence ---------------- *)
Definition enc_ids (l : list ind) : list Z := map (fun i => Z.of_nat (sid i)) l.
Definition enc_out {A} (f : A -> list Z) (o : outcome A) : list Z :=
  match o with Ok a => 0%Z :: f a | Raises => [1%Z] | BadTape => [2%Z] end.

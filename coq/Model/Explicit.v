(* Model of ExplicitRegression.evaluate_fitness_vector / get_fitness_vector_and_jacobian (property C07); the
   use_linear_correction option is modelled at the end of the file with scipy's linregress as an oracle.  Exact rationals; the equation's values f(x_i) and partials df(x_i)/dc_j are inputs
   (what AGraph returns: C01/C02). *)
From Coq Require Import QArith List.
Import ListNotations.

Fixpoint map2 {A B C} (f : A -> B -> C) (a : list A) (b : list B) : list C :=
  match a, b with x :: a', y :: b' => f x y :: map2 f a' b' | _, _ => [] end.

(* error = f_of_x - y ; relative: error / y *)
Definition fitness_vector (relative : bool) (fx y : list Q) : list Q :=
  map2 (fun f yi => if relative then ((f - yi) / yi)%Q else (f - yi)%Q) fx y.

(* df_dc is M x L (row i = data point i) ; relative: each row divided by y_i *)
Definition jacobian (relative : bool) (dfdc : list (list Q)) (y : list Q) : list (list Q) :=
  map2 (fun row yi => if relative then map (fun d => (d / yi)%Q) row else row) dfdc y.

(* every public entry point increments the counter once *)
Record er_state := mkER { eval_count : nat }.
Definition evaluate_fitness_vector (s : er_state) (relative : bool) (fx y : list Q) : er_state * list Q :=
  (mkER (S (eval_count s)), fitness_vector relative fx y).
Definition get_fitness_vector_and_jacobian (s : er_state) (relative : bool) (fx : list Q) (dfdc : list (list Q)) (y : list Q)
  : er_state * (list Q * list (list Q)) :=
  (mkER (S (eval_count s)), (fitness_vector relative fx y, jacobian relative dfdc y)).
(* __call__ = metric(evaluate_fitness_vector) ; get_fitness_and_gradient = (metric, dmetric)(get_fitness_vector_and_jacobian):
   one increment each *)

(* ---- use_linear_correction=True ----
   f_of_x = intercept + slope * f_of_x ; df_dc *= slope, where (slope, intercept) = scipy.stats.linregress(f_of_x, y): an
   ORACLE here ([None]: linregress raised ValueError and the code carries on uncorrected).  The Jacobian the code returns is
   the derivative of the corrected residual with slope and intercept HELD FIXED (see Proofs/MetricsProofs.v). *)
Definition corrected (lc : option (Q * Q)) (fx : list Q) : list Q :=
  match lc with None => fx | Some (slope, intercept) => map (fun f => (intercept + slope * f)%Q) fx end.
Definition corrected_d (lc : option (Q * Q)) (dfdc : list (list Q)) : list (list Q) :=
  match lc with None => dfdc | Some (slope, _) => map (map (fun d => (d * slope)%Q)) dfdc end.
Definition evaluate_fitness_vector_lc (s : er_state) (lc : option (Q * Q)) (relative : bool) (fx y : list Q) :=
  evaluate_fitness_vector s relative (corrected lc fx) y.
Definition get_fitness_vector_and_jacobian_lc (s : er_state) (lc : option (Q * Q)) (relative : bool) (fx : list Q)
           (dfdc : list (list Q)) (y : list Q) :=
  get_fitness_vector_and_jacobian s relative (corrected lc fx) (corrected_d lc dfdc) y.

(* Model of the migration phase of the PARALLEL archipelago as a transition system over n ranks (property C11, parallel case).
   bingo/evolutionary_optimizers/parallel_archipelago.py: _coordinate_migration_between_islands, _get_migration_partner,
   _population_exchange_program.  Every rank: look up the partner; if there is one, dump half of the population, sendrecv with
   the partner (buffered send, then a blocking receive from the partner), append what arrives, reset_fitness.
   One transition = the partner lookup + dump + send of one rank, or its receive.  A schedule is any list of ranks. *)
From Coq Require Import List Bool Arith.
From Bingo Require Import Model.Migration Model.ParPartner.
Import ListNotations.

Inductive mpc := MStart | MSent (q : nat) (rem : island) | MDone.

Record mstate := mkM {
  mpcs : list mpc;
  mpops : list island;                       (* island.population per rank *)
  mmail : list (option (nat * island))       (* the MIGRATION message sent by rank r and not yet received: (destination, payload) *)
}.

Section Par.
Variable order : list nat.                    (* the shuffle broadcast by rank 0 *)
Variable dumps : list (island * island).      (* per rank: what dump_fraction_of_population(0.5) hands out and what it keeps *)

Definition mstep (s : mstate) (r : nat) : option mstate :=
  match nth r (mpcs s) MDone with
  | MStart =>
      match partner order r with
      | Some (Some q) => let '(to, rem) := nth r dumps ([], []) in
                         Some (mkM (upd (mpcs s) r (MSent q rem)) (mpops s) (upd (mmail s) r (Some (q, to))))
      | Some None => Some (mkM (upd (mpcs s) r MDone) (mpops s) (mmail s))
      | None => None
      end
  | MSent q rem =>
      match nth q (mmail s) None with
      | Some (dst, payload) =>
          if Nat.eqb dst r
          then Some (mkM (upd (mpcs s) r MDone) (upd (mpops s) r (reset_fitness (rem ++ payload))) (upd (mmail s) q None))
          else None
      | None => None
      end
  | MDone => None
  end.

Definition minit (pops : list island) : mstate :=
  mkM (repeat MStart (length pops)) pops (repeat None (length pops)).
Fixpoint mrun (sched : list nat) (s : mstate) : mstate :=
  match sched with [] => s | r :: q => match mstep s r with Some s' => mrun q s' | None => mrun q s end end.
Definition mfinal (s : mstate) : bool := forallb (fun p => match p with MDone => true | _ => false end) (mpcs s).

(* what every rank must end up with *)
Definition final_pop (pops0 : list island) (r : nat) : island :=
  match partner order r with
  | Some (Some q) => reset_fitness (snd (nth r dumps ([], [])) ++ fst (nth q dumps ([], [])))
  | _ => nth r pops0 []
  end.
End Par.

(* Model of the locally-optimizing fitness wrapper (property C06).
   bingo/local_optimizers/local_opt_fitness.py: LocalOptFitnessFunction.__call__
   bingo/local_optimizers/scipy_optimizer.py: ScipyOptimizer.__call__, _sub_routine_for_obj_fn, _run_method_for_optimization
   bingo/symbolic_regression/equation_regressor.py: EquationRegressor.fit
   scipy is an ORACLE: a run calls the objective on any sequence of trial vectors (each call writes the trial into the
   individual) and then either returns a final vector or raises TypeError (the root-method shape rejection). *)
From Coq Require Import ZArith List Bool.
From Bingo Require Import Lib.Key.
Import ListNotations.

Section LO.
Variable C : Type.                          (* constants *)
Variable base : list C -> key.              (* base fitness of the equation as a function of its constants (NaN possible) *)

Record indiv := mkInd { consts : list C; needs_opt : bool }.

(* individual.set_local_optimization_params *)
Definition set_params (i : indiv) (p : list C) : indiv := mkInd p false.

Inductive run := Returns (trials : list (list C)) (final : list C) | RaisesTypeError (trials : list (list C)).

(* the objective sub-routine writes every trial vector into the individual *)
Definition after_trials (i : indiv) (trials : list (list C)) : indiv := fold_left set_params trials i.

Record optimizer := mkOpt { method : Z }.
Definition BFGS : Z := 3.

(* ScipyOptimizer.__call__ : (optimizer afterwards, individual afterwards, did it end normally) *)
Definition optimize (o : optimizer) (i : indiv) (r1 r2 : run) : optimizer * indiv * bool :=
  match consts i with
  | [] => (o, set_params i [], true)             (* num_params == 0: scipy is not consulted, the request is cleared *)
  | _ :: _ =>
  match r1 with
  | Returns tr fin => (o, set_params (after_trials i tr) fin, true)
  | RaisesTypeError tr =>
    let i1 := after_trials i tr in
    let o1 := mkOpt BFGS in                      (* method swapped to BFGS for the retry ... *)
    match r2 with
    | Returns tr2 fin2 => (mkOpt (method o), set_params (after_trials i1 tr2) fin2, true)   (* ... and restored *)
    | RaisesTypeError tr2 => (o1, after_trials i1 tr2, false)                              (* second TypeError propagates *)
    end
  end
  end.

(* LocalOptFitnessFunction.__call__ : optimize only if requested, then evaluate the base fitness afresh *)
Definition lo_call (o : optimizer) (i : indiv) (r1 r2 : run) : optimizer * indiv * option key :=
  if needs_opt i then
    let '(o', i', ok) := optimize o i r1 r2 in
    (o', i', if ok then Some (base (consts i')) else None)
  else (o, i, Some (base (consts i))).

(* EquationRegressor.fit: first fit, then fit_retries refits; keep the strictly best (NaN is never < anything) *)
Fixpoint refit_loop (best_f : key) (best_c : list C) (fits : list (key * list C)) : key * list C :=
  match fits with
  | [] => (best_f, best_c)
  | (f, c) :: r => if klt f best_f then refit_loop f c r else refit_loop best_f best_c r
  end.
Definition regressor_fit (first : key * list C) (retries : list (key * list C)) : key * list C :=
  refit_loop (fst first) (snd first) retries.
End LO.

(* Model of bingo/selection/{probabilistic_tournament,probabilistic_crowding}.py (property C08).
   Everything floating point (exp, nanmedian, cumsum, searchsorted, the comparison of a uniform draw with a
   probability) is an ORACLE recorded on the tape: the index [searchsorted] returned, the outcome of
   [np.random.random() < prob].  What the model keeps is which individual ends up where, which is what the
   membership and number clauses of C08 are about. *)
From Coq Require Import ZArith List Bool Arith.
From Bingo Require Export Model.Selection.
Import ListNotations.

(* ---------------- probabilistic tournament ---------------- *)
(* _probabilistic_model_selection: all-NaN sample -> potential_models[0] (no draw);
   otherwise potential_models[index], index = np.searchsorted(np.cumsum(w), rand) (IndexError when index = size) *)
Definition ptournament1 (size : nat) (pop : list ind) (cell : list nat) (pick : nat) : outcome nat :=
  if negb (legal_sample cell (length pop) size) then BadTape
  else if forallb (fun i => kisnan (sfit (getp pop i))) cell
       then match cell with [] => Raises | w :: _ => Ok w end
       else if Nat.ltb pick (length cell) then Ok (nth pick cell 0%nat) else Raises.

Fixpoint ptournament (size : nat) (pop : list ind) (target : nat) (tape : list (list nat * nat)) : outcome (list nat) :=
  match target with
  | O => Ok []
  | S t =>
    if Nat.ltb (length pop) size then Raises      (* numpy: cannot take a larger sample than population *)
    else
    match tape with
    | [] => BadTape
    | (cell, pick) :: tp =>
      match ptournament1 size pop cell pick with
      | Ok w => match ptournament size pop t tp with
                | Ok ws => Ok (w :: ws) | Raises => Raises | BadTape => BadTape end
      | Raises => Raises
      | BadTape => BadTape
      end
    end
  end.

(* ---------------- probabilistic crowding ---------------- *)
(* ProbabilisticCrowding._return_most_fit: a coin is consumed only when both fitness values are numbers;
   [None] on the tape = the arithmetic raised (ZeroDivisionError on Python floats) *)
Definition most_fit_prob (child parent : ind) (coins : list (option bool)) : outcome (ind * list (option bool)) :=
  if kisnan (sfit parent) then Ok (child, coins)
  else if kisnan (sfit child) then Ok (parent, coins)
  else match coins with
       | [] => BadTape
       | None :: _ => Raises
       | Some c :: r => Ok ((if c then child else parent), r)
       end.

(* GeneralizedCrowding.__call__ with that decision: slot 2i first, then slot 2i+1 *)
Fixpoint pcrowd_pairs (parents offspring : list ind) (close : list bool) (coins : list (option bool)) (npairs : nat)
  {struct npairs} : outcome (list ind) :=
  match npairs, parents, offspring, close with
  | S n, p1 :: p2 :: ps, c1 :: c2 :: cs, cl :: cls =>
    match most_fit_prob (if cl then c1 else c2) p1 coins with
    | Ok (x, coins1) =>
      match most_fit_prob (if cl then c2 else c1) p2 coins1 with
      | Ok (y, coins2) =>
        match pcrowd_pairs ps cs cls coins2 n with
        | Ok rest => Ok (x :: y :: rest) | Raises => Raises | BadTape => BadTape
        end
      | Raises => Raises | BadTape => BadTape
      end
    | Raises => Raises | BadTape => BadTape
    end
  | _, _, _, _ => Ok parents
  end.

Definition pcrowding (pop : list ind) (target : nat) (close : list bool) (coins : list (option bool)) : outcome (list ind) :=
  if negb (Nat.even (length pop)) || negb (Nat.even target) then Raises
  else let half := Nat.div (length pop) 2 in
       if Nat.ltb half target then Raises
       else if Nat.ltb (length close) (Nat.div target 2) then BadTape
       else match pcrowd_pairs (firstn half pop) (skipn half pop) close coins (Nat.div target 2) with
            | Ok l => Ok (firstn target l) | Raises => Raises | BadTape => BadTape
            end.

(* Model of bingo's computer-algebra simplification - property C03.
   bingo/symbolic_regression/agraph/simplification_backend/expression.py (Expression: equality, the ordering __lt__, base/exponent,
     term/coefficient), automatic_simplification.py (every rule), optional_expression_modification.py (_insert_subtraction,
     _replace_integer_powers), interpreter.py (build_cas_expression, build_agraph_stack), simplify.py (the pipeline).
   constant_folding.py is NOT modelled: fold_constants enters the pipeline as an arbitrary function (an oracle recorded by the harness).
   Recursions that are not structural take fuel; None = out of fuel or a case in which the Python code raises. *)
From Coq Require Import ZArith List Bool.
From Bingo Require Import Gen.OpDefs Model.Stack Model.Parse.
Import ListNotations.
Open Scope Z_scope.

Inductive cexpr := Leaf (op v : Z) | Node (op : Z) (args : list cexpr).

Definition opr (e : cexpr) : Z := match e with Leaf o _ => o | Node o _ => o end.
Definition args_of (e : cexpr) : list cexpr := match e with Node _ l => l | Leaf _ _ => [] end.
Definition leaf_val (e : cexpr) : Z := match e with Leaf _ v => v | Node _ _ => 0 end.
Definition mk_int (k : Z) : cexpr := Leaf INTEGER k.
Definition ZERO := mk_int 0.
Definition ONE := mk_int 1.
Definition NEG_ONE := mk_int (-1).

(* Expression.__eq__ *)
Fixpoint ceqb (a b : cexpr) : bool :=
  match a, b with
  | Leaf o v, Leaf o' v' => (o =? o') && (v =? v')
  | Node o l, Node o' l' =>
      (o =? o') && (fix leq (l l' : list cexpr) : bool :=
                      match l, l' with [], [] => true | x :: r, y :: q => ceqb x y && leq r q | _, _ => false end) l l'
  | _, _ => false
  end.
Definition oeqb (a b : option cexpr) : bool :=
  match a, b with Some x, Some y => ceqb x y | None, None => true | _, _ => false end.
Definition is_zero (e : cexpr) : bool := match e with Leaf o v => (o =? INTEGER) && (v =? 0) | _ => false end.
Definition is_one (e : cexpr) : bool := match e with Leaf o v => (o =? INTEGER) && (v =? 1) | _ => false end.
(* operator == INTEGER / CONSTANT: such expressions are leaves *)
Definition is_int (e : cexpr) : bool := match e with Leaf o _ => o =? INTEGER | Node _ _ => false end.
Definition is_cst (e : cexpr) : bool := match e with Leaf o _ => o =? CONSTANT | Node _ _ => false end.

Fixpoint is_constant_valued (e : cexpr) : bool :=
  match e with
  | Leaf o _ => (o =? INTEGER) || (o =? CONSTANT)
  | Node _ l => (fix all (l : list cexpr) : bool := match l with [] => true | x :: r => is_constant_valued x && all r end) l
  end.

(* base / exponent / term / coefficient (None where Python returns None) *)
Definition base_of (e : cexpr) : option cexpr :=
  match e with
  | Node o l => if o =? POWER then Some (nth 0 l ZERO) else Some e
  | Leaf o _ => if o =? INTEGER then None else Some e
  end.
Definition exponent_of (e : cexpr) : option cexpr :=
  match e with
  | Node o l => if o =? POWER then Some (nth 1 l ZERO) else Some ONE
  | Leaf o _ => if o =? INTEGER then None else Some ONE
  end.
Definition has_coeff (e : cexpr) : bool :=
  match e with
  | Node o l => (o =? MULTIPLICATION) && (let h := nth 0 l (Leaf VARIABLE 0) in is_int h || is_cst h)
  | Leaf _ _ => false
  end.
Definition term_of (e : cexpr) : option cexpr :=
  match e with
  | Node o l => if o =? MULTIPLICATION then (if has_coeff e then Some (Node MULTIPLICATION (tl l)) else Some e)
                else Some (Node MULTIPLICATION [e])
  | Leaf o _ => if o =? INTEGER then None else Some (Node MULTIPLICATION [e])
  end.
Definition coefficient_of (e : cexpr) : option cexpr :=
  match e with
  | Node o l => if has_coeff e then Some (nth 0 l ZERO) else Some ONE
  | Leaf o _ => if o =? INTEGER then None else Some ONE
  end.

(* ---------------- Expression.__lt__ ---------------- *)
Section Lt.
Variable lt : cexpr -> cexpr -> bool.     (* the recursive calls *)
(* _operands_lt on the REVERSED operand lists *)
Fixpoint operands_lt_rev (s o : list cexpr) : bool :=
  match s, o with
  | x :: r, y :: q => if ceqb x y then operands_lt_rev r q else lt x y
  | [], _ :: _ => true
  | _, [] => false
  end.
End Lt.
Definition general_lt (lt : cexpr -> cexpr -> bool) (a b : cexpr) : bool :=
  if negb (opr a =? opr b) then opr a <? opr b
  else match a, b with
       | Leaf _ v, Leaf _ v' => v <? v'
       | _, _ => operands_lt_rev lt (rev (args_of a)) (rev (args_of b))
       end.
Definition associative_lt (lt : cexpr -> cexpr -> bool) (aop : Z) (a b : cexpr) : bool :=
  if opr a =? aop then
    (if opr b =? aop then operands_lt_rev lt (rev (args_of a)) (rev (args_of b)) else operands_lt_rev lt (rev (args_of a)) [b])
  else operands_lt_rev lt [a] (rev (args_of b)).
Definition power_lt (lt : cexpr -> cexpr -> bool) (a b : cexpr) : bool :=
  let '(sb, se) := if opr a =? POWER then (nth 0 (args_of a) ZERO, nth 1 (args_of a) ZERO) else (a, ONE) in
  let '(ob, oe) := if opr b =? POWER then (nth 0 (args_of b) ZERO, nth 1 (args_of b) ZERO) else (b, ONE) in
  if ceqb sb ob then lt se oe else lt sb ob.
Fixpoint clt (fuel : nat) (a b : cexpr) : bool :=
  match fuel with
  | O => false
  | S f =>
    let lt := clt f in
    if is_constant_valued a || is_constant_valued b then
      (if negb (Bool.eqb (is_constant_valued a) (is_constant_valued b)) then is_constant_valued a else general_lt lt a b)
    else if (opr a =? MULTIPLICATION) || (opr b =? MULTIPLICATION) then associative_lt lt MULTIPLICATION a b
    else if (opr a =? POWER) || (opr b =? POWER) then power_lt lt a b
    else if (opr a =? ADDITION) || (opr b =? ADDITION) then associative_lt lt ADDITION a b
    else general_lt lt a b
  end.
Fixpoint csize (e : cexpr) : nat :=
  match e with Leaf _ _ => 1%nat | Node _ l => S ((fix sz (l : list cexpr) : nat := match l with [] => O | x :: r => (csize x + sz r)%nat end) l) end.
Definition expr_lt (a b : cexpr) : bool := clt (csize a + csize b + 2) a b.

(* ---------------- automatic_simplify ---------------- *)
Definition is_mul (e : cexpr) : bool := match e with Node o _ => o =? MULTIPLICATION | Leaf _ _ => false end.
Definition is_add (e : cexpr) : bool := match e with Node o _ => o =? ADDITION | Leaf _ _ => false end.
Definition is_pow (e : cexpr) : bool := match e with Node o _ => o =? POWER | Leaf _ _ => false end.
(* op.operands if op is a product (sum), else [op] *)
Definition factors (e : cexpr) : list cexpr := if is_mul e then args_of e else [e].
Definition addends (e : cexpr) : list cexpr := if is_add e then args_of e else [e].

Definition o_bind {A B} (o : option A) (f : A -> option B) : option B := match o with Some a => f a | None => None end.
Fixpoint mapM {A B} (f : A -> option B) (l : list A) : option (list B) :=
  match l with [] => Some [] | x :: r => o_bind (f x) (fun y => o_bind (mapM f r) (fun ys => Some (y :: ys))) end.

(* the mutually recursive core: power, product, sum, with their helpers.
   [chk]: the merge functions assume that simplifying a pair [x; y] yields nothing, one expression, or the pair itself in some
   order; with chk = true the model returns None when that assumption fails (chk = false is the code as written).
   [iexp]: the three power identities (b^e1 * b^e2 = b^(e1+e2), (b^e1)^e2 = b^(e1*e2), (a*b)^e = a^e * b^e) hold over the reals
   without side conditions only for integer exponents; with iexp = true the model returns None where the code would apply one of
   them to an exponent that is not an INTEGER leaf (iexp = false is the code as written).
   [fits]: integers live in the int64 command array; a folded integer that does not fit is not folded (fits64 below is the code;
   the parameter lets theorems also speak about unbounded integer folding) *)
Definition fits64 (k : Z) : bool := (- 2 ^ 63 <=? k) && (k <=? 2 ^ 63 - 1).
Section Core.
Variable chk : bool.
Variable iexp : bool.
Variable fits : Z -> bool.
(* _integer_power: exact base ** exponent, or None if it cannot be stored *)
Definition integer_power (b e : Z) : option Z :=
  if (1 <? Z.abs b) && (63 <? e) then None else
  (* bases 0, 1, -1 by cases: Z.pow iterates e times, and e can be 2^62 here *)
  let p := if b =? 0 then 0 else if b =? 1 then 1 else if b =? -1 then (if Z.even e then 1 else -1) else b ^ e in
  if fits p then Some p else None.
Fixpoint simplify_power (fuel : nat) (e : cexpr) : option cexpr :=
  match fuel with O => None | S f =>
    match args_of e with
    | [b; ex] =>
      if is_one b then Some ONE
      else if is_zero b && is_int ex && (0 <? leaf_val ex) then Some ZERO
      else if is_int ex || is_cst ex then simplify_constant_power f b ex
      else Some e
    | _ => None
    end
  end
with simplify_constant_power (fuel : nat) (b ex : cexpr) : option cexpr :=
  match fuel with O => None | S f =>
    if is_one ex then Some b
    else if is_zero ex then Some ONE
    else if is_int b && is_int ex && (0 <? leaf_val ex) then
      match integer_power (leaf_val b) (leaf_val ex) with Some p => Some (mk_int p) | None => Some (Node POWER [b; ex]) end
    else if is_pow b then
      match args_of b with
      | [bb; be] =>
        if iexp && negb (is_int be && is_int ex) then None else
        o_bind (simplify_product f (Node MULTIPLICATION [be; ex])) (fun ne =>
          if is_int be || is_cst be then simplify_constant_power f bb ne else Some (Node POWER [bb; ne]))
      | _ => None
      end
    else if is_mul b then
      if iexp && negb (is_int ex) then None else
      o_bind (mapM (fun x => simplify_constant_power f x ex) (args_of b)) (fun l => simplify_product f (Node MULTIPLICATION l))
    else Some (Node POWER [b; ex])
  end
with simplify_product (fuel : nat) (e : cexpr) : option cexpr :=
  match fuel with O => None | S f =>
    let ops := args_of e in
    if existsb (ceqb ZERO) ops then Some ZERO
    else match ops with
         | [] => None
         | [x] => Some x
         | _ => o_bind (simplify_product_rec f ops) (fun r =>
                  match r with [] => Some ONE | [x] => Some x | _ => Some (Node MULTIPLICATION r) end)
         end
  end
with simplify_product_rec (fuel : nat) (ops : list cexpr) : option (list cexpr) :=
  match fuel with O => None | S f =>
    match ops with
    | [op1; op2] =>
      if is_int op1 && is_int op2 then
        (if negb (fits (leaf_val op1 * leaf_val op2)) then (if expr_lt op2 op1 then Some [op2; op1] else Some ops) else
         let p := mk_int (leaf_val op1 * leaf_val op2) in if is_one p then Some [] else Some [p])
      else if negb (is_mul op1 || is_mul op2) then
        if is_one op1 then Some [op2]
        else if is_one op2 then Some [op1]
        else if oeqb (base_of op1) (base_of op2) then
          match base_of op1, exponent_of op1, exponent_of op2 with
          | Some b1, Some e1, Some e2 =>
            if iexp && negb (is_int e1 && is_int e2) then None else
            o_bind (simplify_sum f (Node ADDITION [e1; e2])) (fun ne =>
            o_bind (simplify_power f (Node POWER [b1; ne])) (fun c =>
              if is_one c then Some [] else Some [c]))
          | _, _, _ => None
          end
        else if expr_lt op2 op1 then Some [op2; op1]
        else Some ops
      else
        merge_products f (factors op1) (factors op2)
    | op0 :: rest =>
      match rest with
      | [] => None
      | _ => o_bind (simplify_product_rec f rest) (fun rs =>
               merge_products f (factors op0) rs)
      end
    | [] => None
    end
  end
with merge_products (fuel : nat) (o1 o2 : list cexpr) : option (list cexpr) :=
  match fuel with O => None | S f =>
    match o1, o2 with
    | [], _ => Some o2
    | _, [] => Some o1
    | x :: r1, y :: r2 =>
      o_bind (simplify_product_rec f [x; y]) (fun sf =>
        match sf with
        | [] => merge_products f r1 r2
        | [z] => o_bind (merge_products f r1 r2) (fun m => Some (z :: m))
        | z :: _ => if ceqb z x then o_bind (merge_products f r1 o2) (fun m => Some (z :: m))
                    else if chk && negb (ceqb z y) then None
                    else o_bind (merge_products f o1 r2) (fun m => Some (z :: m))
        end)
    end
  end
with simplify_sum (fuel : nat) (e : cexpr) : option cexpr :=
  match fuel with O => None | S f =>
    match args_of e with
    | [] => None
    | [x] => Some x
    | ops => o_bind (simplify_sum_rec f ops) (fun r =>
               match r with [] => Some ZERO | [x] => Some x | _ => Some (Node ADDITION r) end)
    end
  end
with simplify_sum_rec (fuel : nat) (ops : list cexpr) : option (list cexpr) :=
  match fuel with O => None | S f =>
    match ops with
    | [op1; op2] =>
      if is_int op1 && is_int op2 then
        (if negb (fits (leaf_val op1 + leaf_val op2)) then (if expr_lt op2 op1 then Some [op2; op1] else Some ops) else
         let p := mk_int (leaf_val op1 + leaf_val op2) in if is_zero p then Some [] else Some [p])
      else if negb (is_add op1 || is_add op2) then
        if is_zero op1 then Some [op2]
        else if is_zero op2 then Some [op1]
        else if oeqb (term_of op1) (term_of op2) then
          match term_of op1, coefficient_of op1, coefficient_of op2 with
          | Some t1, Some c1, Some c2 =>
            o_bind (simplify_sum f (Node ADDITION [c1; c2])) (fun nc =>
            o_bind (simplify_product f (Node MULTIPLICATION [nc; t1])) (fun c =>
              if is_zero c then Some [] else Some [c]))
          | _, _, _ => None
          end
        else if expr_lt op2 op1 then Some [op2; op1]
        else Some ops
      else
        merge_sums f (addends op1) (addends op2)
    | op0 :: rest =>
      match rest with
      | [] => None
      | _ => o_bind (simplify_sum_rec f rest) (fun rs => merge_sums f (addends op0) rs)
      end
    | [] => None
    end
  end
with merge_sums (fuel : nat) (o1 o2 : list cexpr) : option (list cexpr) :=
  match fuel with O => None | S f =>
    match o1, o2 with
    | [], _ => Some o2
    | _, [] => Some o1
    | x :: r1, y :: r2 =>
      o_bind (simplify_sum_rec f [x; y]) (fun sf =>
        match sf with
        | [] => merge_sums f r1 r2
        | [z] => o_bind (merge_sums f r1 r2) (fun m => Some (z :: m))
        | z :: _ => if ceqb z x then o_bind (merge_sums f r1 o2) (fun m => Some (z :: m))
                    else if chk && negb (ceqb z y) then None
                    else o_bind (merge_sums f o1 r2) (fun m => Some (z :: m))
        end)
    end
  end.

Definition simplify_quotient (fuel : nat) (e : cexpr) : option cexpr :=
  match args_of e with
  | [n; d] => o_bind (simplify_power fuel (Node POWER [d; NEG_ONE])) (fun di => simplify_product fuel (Node MULTIPLICATION [n; di]))
  | _ => None
  end.
Definition simplify_difference (fuel : nat) (e : cexpr) : option cexpr :=
  match args_of e with
  | [a; b] =>
    o_bind (if is_add b then mapM (fun x => simplify_product fuel (Node MULTIPLICATION [NEG_ONE; x])) (args_of b)
            else o_bind (simplify_product fuel (Node MULTIPLICATION [NEG_ONE; b])) (fun x => Some [x]))
           (fun negs => simplify_sum fuel (Node ADDITION (a :: negs)))
  | _ => None
  end.
Definition arg0 (e : cexpr) : cexpr := nth 0 (args_of e) ZERO.
Definition simplify_node (fuel : nat) (e : cexpr) : option cexpr :=
  let op := opr e in
  if op =? POWER then (match e with Node _ [b; ex] => simplify_power fuel (Node POWER [b; ex]) | _ => None end)
  else if op =? SAFE_POWER then
    match args_of e with [b; ex] => simplify_power fuel (Node POWER [Node ABS [b]; ex]) | _ => None end
  else if op =? MULTIPLICATION then simplify_product fuel e
  else if op =? ADDITION then simplify_sum fuel e
  else if op =? DIVISION then simplify_quotient fuel e
  else if op =? SUBTRACTION then simplify_difference fuel e
  else if (op =? SIN) || (op =? SINH) then (if is_zero (arg0 e) then Some ZERO else Some e)
  else if (op =? COS) || (op =? COSH) || (op =? EXPONENTIAL) then (if is_zero (arg0 e) then Some ONE else Some e)
  else if op =? LOGARITHM then
    (if is_one (arg0 e) then Some ZERO
     else match arg0 e with
          | Node o l => if o =? EXPONENTIAL then Some (nth 0 l ZERO) else Some e
          | Leaf _ _ => Some e
          end)
  else if (op =? ABS) || (op =? SQRT) then Some e
  else None.                                   (* KeyError *)
(* automatic_simplify: operands first, then the node; [rf] is the fuel handed to the rules *)
Fixpoint automatic_simplify (depth rf : nat) (e : cexpr) : option cexpr :=
  match depth with O => None | S d =>
    match e with
    | Leaf _ _ => Some e
    | Node op l => o_bind (mapM (automatic_simplify d rf) l) (fun l' => simplify_node rf (Node op l'))
    end
  end.

End Core.

(* ---------------- optional_modifications ---------------- *)
Fixpoint insert_subtraction (depth : nat) (e : cexpr) : option cexpr :=
  match depth with O => None | S d =>
    match e with
    | Leaf _ _ => Some e
    | Node op l =>
      o_bind (mapM (insert_subtraction d) l) (fun l' =>
        if negb (op =? ADDITION) then Some (Node op l')
        else
          let is_neg x := oeqb (coefficient_of x) (Some NEG_ONE) in
          let subs := flat_map (fun x => if is_neg x then
                                  match term_of x with
                                  | Some t => match args_of t with [y] => [y] | _ => [t] end
                                  | None => [] end else []) l' in
          let adds := filter (fun x => negb (is_neg x)) l' in
          match subs, adds with
          | [], _ => Some (Node ADDITION adds)
          | _, [] => Some (Node MULTIPLICATION [NEG_ONE; Node ADDITION subs])
          | _, _ => Some (Node SUBTRACTION [match adds with [a] => a | _ => Node ADDITION adds end;
                                            match subs with [s] => s | _ => Node ADDITION subs end])
          end)
    end
  end.
(* MAX_REPLACED_INTEGER_POWER *)
Definition max_replaced_integer_power : Z := 100.
Fixpoint replace_integer_powers (depth : nat) (e : cexpr) : option cexpr :=
  match depth with O => None | S d =>
    match e with
    | Leaf _ _ => Some e
    | Node op l =>
      o_bind (mapM (replace_integer_powers d) l) (fun l' =>
        match l' with
        | [b; ex] => if (op =? POWER) && is_int ex && (0 <? leaf_val ex) && (leaf_val ex <=? max_replaced_integer_power)
                     then Some (Node MULTIPLICATION (repeat b (Z.to_nat (leaf_val ex)))) else Some (Node op l')
        | _ => Some (Node op l')
        end)
    end
  end.
Definition optional_modifications (depth : nat) (e : cexpr) : option cexpr :=
  o_bind (insert_subtraction depth e) (replace_integer_powers depth).

(* ---------------- interpreter.py ---------------- *)
(* build_cas_expression: the tree below row [loc]; constants are named by their row *)
Fixpoint build_cas_rec (fuel : nat) (s : stack) (loc : Z) : option cexpr :=
  match fuel with O => None | S f =>
    let c := lookup s (0, 0, 0) loc in
    let n := node_of c in
    if is_terminal n then Some (Leaf n (if n =? CONSTANT then loc else p1_of c))
    else o_bind (build_cas_rec f s (p1_of c)) (fun a =>
         if is_arity_2 n then o_bind (build_cas_rec f s (p2_of c)) (fun b => Some (Node n [a; b])) else Some (Node n [a]))
  end.
Definition build_cas (s : stack) : option cexpr := build_cas_rec (S (length s)) s (Z.of_nat (length s) - 1).

(* build_agraph_stack: the command dictionary as the list of commands in insertion order *)
(* (find_cmd: Model/Parse.v - both builders keep a dictionary from commands to rows) *)
Definition add_command (c : cmd) (rows : stack) : Z * stack :=
  match find_cmd c rows 0 with Some i => (i, rows) | None => (Z.of_nat (length rows), rows ++ [c]) end.
(* _add_associative_operators_to_stack: balanced splitting of an n-ary operator *)
Fixpoint add_assoc (fuel : nat) (op : Z) (locs : list Z) (rows : stack) : option (Z * stack) :=
  match fuel with O => None | S f =>
    match locs with
    | [] => None
    | [x] => Some (x, rows)
    | _ => let d := (length locs / 2)%nat in
           o_bind (add_assoc f op (firstn d locs) rows) (fun '(l1, r1) =>
           o_bind (add_assoc f op (skipn d locs) r1) (fun '(l2, r2) => Some (add_command (op, l1, l2) r2)))
    end
  end.
Fixpoint build_stack_rec (fuel : nat) (e : cexpr) (rows : stack) : option (Z * stack) :=
  match fuel with O => None | S f =>
    match e with
    | Leaf op v => Some (add_command (op, v, v) rows)
    | Node op l =>
      o_bind ((fix go (l : list cexpr) (rows : stack) : option (list Z * stack) :=
                 match l with
                 | [] => Some ([], rows)
                 | x :: r => o_bind (build_stack_rec f x rows) (fun '(i, rows1) =>
                             o_bind (go r rows1) (fun '(is, rows2) => Some (i :: is, rows2)))
                 end) l rows) (fun '(locs, rows1) =>
        match locs with
        | [] => None
        | [a] => Some (add_command (op, a, a) rows1)
        | [a; b] => Some (add_command (op, a, b) rows1)
        | a :: rest =>
          if negb (is_constant_valued e) && is_constant_valued (nth 0 l ZERO)
          then o_bind (add_assoc (S (length locs)) op rest rows1) (fun '(loc, rows2) => Some (add_command (op, a, loc) rows2))
          else add_assoc (S (length locs)) op locs rows1
        end)
    end
  end.
Definition build_agraph_stack (e : cexpr) : option stack :=
  o_bind (build_stack_rec (S (csize e)) e []) (fun '(_, rows) =>
    Some (map (fun c => if node_of c =? CONSTANT then (CONSTANT, -1, -1) else c) rows)).

(* the shapes build_agraph_stack gives the intended meaning to: one operand for unary operators, two for binary ones, three or more
   only for sums and products *)
Fixpoint arity_ok (e : cexpr) : bool :=
  match e with
  | Leaf o _ => is_terminal o
  | Node o l =>
    negb (is_terminal o) &&
    (match l with
     | [] => false
     | [_] => negb (is_arity_2 o)
     | [_; _] => is_arity_2 o
     | _ => (o =? ADDITION) || (o =? MULTIPLICATION)
     end) &&
    (fix all (l : list cexpr) : bool := match l with [] => true | x :: r => arity_ok x && all r end) l
  end.

(* ---------------- simplify.py: the pipeline; [fold] stands for fold_constants ---------------- *)
Definition simplify_stack (chk iexp : bool) (fits : Z -> bool) (fuel : nat) (fold : cexpr -> cexpr) (s : stack) : option stack :=
  o_bind (build_cas s) (fun e0 =>
  o_bind (automatic_simplify chk iexp fits fuel fuel e0) (fun e1 =>
  o_bind (optional_modifications fuel (fold e1)) build_agraph_stack)).

(* Model of the best-individual queries (property C15).
   bingo/evolutionary_optimizers/island.py:get_best_individual
   bingo/evolutionary_optimizers/serial_archipelago.py:get_best_individual (after fix F7: same scan)
   bingo/evolutionary_optimizers/parallel_archipelago.py:get_best_individual  (Python min(key=...))
   bingo/evolutionary_optimizers/fitness_predictor_island.py:get_best_individual/_get_potential_hof_members *)
From Coq Require Import ZArith List Bool Arith.
From Bingo Require Export Lib.Key.
Import ListNotations.

(* best = population[0]; for indv in population: if indv.fitness < best.fitness or isnan(best.fitness): best = indv
   returns the index of the winner; [None] models the IndexError on an empty population *)
Fixpoint scan_go (fs : list key) (i : nat) (best : nat) (fbest : key) : nat :=
  match fs with
  | [] => best
  | f :: r => if klt f fbest || kisnan fbest then scan_go r (S i) i f else scan_go r (S i) best fbest
  end.
Definition scan_best (fs : list key) : option nat :=
  match fs with [] => None | f0 :: _ => Some (scan_go fs 0 0 f0) end.

(* Python min(iterable, key=...) : first element, replaced only by a strictly smaller one *)
Fixpoint pymin_go (fs : list key) (i : nat) (best : nat) (fbest : key) : nat :=
  match fs with
  | [] => best
  | f :: r => if klt f fbest then pymin_go r (S i) i f else pymin_go r (S i) best fbest
  end.
Definition pymin (fs : list key) : option nat :=
  match fs with [] => None | f0 :: r => Some (pymin_go r 1 0 f0) end.

Definition nthk (fs : list key) (i : nat) : key := nth i fs None.

(* archipelago: per-island scan, then the same scan over the island bests.
   Result: (island index, index within island). *)
Definition island_bests (isls : list (list key)) : option (list (nat * key)) :=
  fold_right (fun p acc => match scan_best p, acc with
                           | Some b, Some l => Some ((b, nthk p b) :: l) | _, _ => None end)
             (Some []) isls.
Definition arch_best (isls : list (list key)) : option (nat * nat) :=
  match island_bests isls with
  | None => None
  | Some bs => match scan_best (map snd bs) with
               | None => None
               | Some k => Some (k, fst (nth k bs (0%nat, None)))
               end
  end.
Definition arch_best_pymin (isls : list (list key)) : option (nat * nat) :=
  match island_bests isls with
  | None => None
  | Some bs => match pymin (map snd bs) with
               | None => None
               | Some k => Some (k, fst (nth k bs (0%nat, None)))
               end
  end.

(* predictor island: the population carries predicted fitness; reported objects are
   copies whose fitness is overwritten by the full-data fitness of their genome *)
Section Predictor.
  Variable G : Type.
  Variable full : G -> key.
  Record pind := mkP { genome : G; pfit : key }.
  Definition pred_best (pop : list pind) : option pind :=
    match scan_best (map pfit pop) with
    | None => None
    | Some b => match nth_error pop b with
                | Some p => Some (mkP (genome p) (full (genome p)))
                | None => None
                end
    end.
  (* hall entries (already copies held by the predicted-fitness hall) re-labelled *)
  Definition potential_members (hall : list pind) : list pind :=
    map (fun p => mkP (genome p) (full (genome p))) hall.
End Predictor.

Definition enc_on (o : option nat) : list Z :=
  match o with None => [-1] | Some n => [Z.of_nat n] end.
Definition enc_onn (o : option (nat * nat)) : list Z :=
  match o with None => [-1] | Some (a, b) => [Z.of_nat a; Z.of_nat b] end.

(* Model of AGraph objects as lazily updated caches over (command stack, simplification flag, constants), living in a
   store of arrays so that aliasing between an equation and its copies is expressible - property C18.
   bingo/symbolic_regression/agraph/agraph.py: command_array setter, mutable_command_array, _notify_modification, _update,
   set_local_optimization_params, needs_local_optimization, get_number_local_optimization_params, evaluate*/format/complexity
   (all "update first, then read"), __deepcopy__/_copy_agraph_values_to_new_graph;  bingo/chromosomes/chromosome.py: fitness, age.
   S is the deterministic stack transformation chosen by the flag (reduce_stack / simplify_stack): an abstract function here. *)
From Coq Require Import ZArith List Bool.
From Bingo Require Import Gen.OpDefs Model.Stack.
Import ListNotations.
Open Scope Z_scope.

Fixpoint upd {A} (l : list A) (i : nat) (x : A) : list A :=
  match l, i with [], _ => [] | _ :: r, O => x :: r | y :: r, Datatypes.S i' => y :: upd r i' x end.

(* constants renumbered 0..k-1 in stack order:  stack[const,1] = stack[const,2] = arange(num_const) *)
Fixpoint renumber (s : stack) (k : Z) : stack :=
  match s with
  | [] => []
  | c :: r => if node_of c =? CONSTANT then (CONSTANT, k, k) :: renumber r (k + 1) else c :: renumber r k
  end.
Definition n_const (s : stack) : nat := length (filter (fun c => node_of c =? CONSTANT) s).

Section Obj.
Variable Cst : Type.                    (* constant values *)
Variable one_c : Cst.                   (* the reset value 1.0 *)
Variable S : bool -> stack -> stack.    (* S use_simplification raw_stack *)

(* an equation object: two array references, an immutable tuple, flags *)
Record obj := mkO {
  cmd_p : nat; simp_p : nat; consts : list Cst; needs_opt : bool; modified : bool; use_simp : bool;
  fitness : option Z; fit_set : bool; age : Z }.
Record world := mkW { heap : list stack; objs : list obj }.

Definition deref (w : world) (p : nat) : stack := nth p (heap w) [].
Definition alloc (h : list stack) (s : stack) : list stack * nat := (h ++ [s], length h).

(* _notify_modification *)
Definition notify (g : obj) : obj :=
  mkO (cmd_p g) (simp_p g) (consts g) (needs_opt g) true (use_simp g) None false (age g).

(* _update (optimization_aggression = 0): a NEW simplified array is produced and renumbered *)
Definition update (h : list stack) (g : obj) : list stack * obj :=
  let s' := renumber (S (use_simp g) (nth (cmd_p g) h [])) 0 in
  let k := n_const s' in
  let '(h', p) := alloc h s' in
  if Nat.leb k (length (consts g))
  then (h', mkO (cmd_p g) p (firstn k (consts g)) (needs_opt g) false (use_simp g) (fitness g) (fit_set g) (age g))
  else (h', mkO (cmd_p g) p (repeat one_c k) (if Nat.ltb 0 k then true else needs_opt g) false (use_simp g)
                (fitness g) (fit_set g) (age g)).
Definition refresh (h : list stack) (g : obj) : list stack * obj := if modified g then update h g else (h, g).

(* ---- operations of a history; [i] names the object operated on ---- *)
Inductive op :=
| New (flag : bool) (s : stack)          (* g = AGraph(use_simplification=flag); g.command_array = <a new array holding s> *)
| SetArray (i : nat) (s : stack)         (* g.command_array = <a new array holding s> *)
| WriteRow (i : nat) (r : nat) (c : cmd) (* v = g.mutable_command_array ; v[r] = c   (a freshly obtained view) *)
| SetConsts (i : nat) (cs : list Cst)    (* n = g.get_number_local_optimization_params(); if len(cs) >= n: g.set_local_optimization_params(cs[:n]) *)
| Observe (i : nat)                      (* needs_local_optimization / number of params / evaluate* / formatted string / complexity *)
| SetFitness (i : nat) (f : Z)
| SetAge (i : nat) (a : Z)
| SetFlag (i : nat) (b : bool)           (* g.fit_set = b  (Island.reset_fitness clears the flag and keeps the value) *)
| Copy (i : nat).                        (* copy.deepcopy(g) / g.copy(): the duplicate becomes the last object *)

Definition set_obj (w : world) (h : list stack) (i : nat) (g : obj) : world := mkW h (upd (objs w) i g).

Definition step (w : world) (o : op) : world :=
  let h := heap w in
  match o with
  | New flag s =>
      let '(h1, p1) := alloc h s in
      let '(h2, p2) := alloc h1 [] in
      mkW h2 (objs w ++ [mkO p1 p2 [] false true flag None false 0])
  | SetArray i s =>
      match nth_error (objs w) i with None => w | Some g =>
        let '(h1, p) := alloc h s in
        set_obj w h1 i (notify (mkO p (simp_p g) (consts g) (needs_opt g) (modified g) (use_simp g) (fitness g) (fit_set g) (age g)))
      end
  | WriteRow i r c =>
      match nth_error (objs w) i with None => w | Some g =>
        set_obj w (upd h (cmd_p g) (upd (nth (cmd_p g) h []) r c)) i (notify g)
      end
  | SetConsts i cs =>
      match nth_error (objs w) i with None => w | Some g =>
        let '(h1, g1) := refresh h g in
        let n := length (consts g1) in
        if Nat.leb n (length cs)
        then set_obj w h1 i (mkO (cmd_p g1) (simp_p g1) (firstn n cs) false (modified g1) (use_simp g1) (fitness g1) (fit_set g1) (age g1))
        else set_obj w h1 i g1
      end
  | Observe i =>
      match nth_error (objs w) i with None => w | Some g =>
        let '(h1, g1) := refresh h g in set_obj w h1 i g1
      end
  | SetFitness i f =>
      match nth_error (objs w) i with None => w | Some g =>
        set_obj w h i (mkO (cmd_p g) (simp_p g) (consts g) (needs_opt g) (modified g) (use_simp g) (Some f) true (age g))
      end
  | SetAge i a =>
      match nth_error (objs w) i with None => w | Some g =>
        set_obj w h i (mkO (cmd_p g) (simp_p g) (consts g) (needs_opt g) (modified g) (use_simp g) (fitness g) (fit_set g) a)
      end
  | SetFlag i b =>
      match nth_error (objs w) i with None => w | Some g =>
        set_obj w h i (mkO (cmd_p g) (simp_p g) (consts g) (needs_opt g) (modified g) (use_simp g) (fitness g) b (age g))
      end
  | Copy i =>
      match nth_error (objs w) i with None => w | Some g =>
        let '(h1, p1) := alloc h (nth (cmd_p g) h []) in          (* np.copy(self.command_array) *)
        let '(h2, p2) := alloc h1 (nth (simp_p g) h []) in        (* np.copy(self._simplified_command_array) *)
        mkW h2 (objs w ++ [mkO p1 p2 (consts g) (needs_opt g) (modified g) (use_simp g) (fitness g) (fit_set g) (age g)])
      end
  end.
Definition run (ops : list op) : world := fold_left step ops (mkW [] []).

(* the object with its arrays read out: everything a caller can learn from it *)
Record view := mkV { v_cmd : stack; v_simp : stack; v_consts : list Cst; v_needs : bool; v_mod : bool; v_flag : bool;
                     v_fit : option Z; v_fset : bool; v_age : Z }.
Definition view_of (h : list stack) (g : obj) : view :=
  mkV (nth (cmd_p g) h []) (nth (simp_p g) h []) (consts g) (needs_opt g) (modified g) (use_simp g) (fitness g) (fit_set g) (age g).
Definition view_at (w : world) (i : nat) : option view := option_map (view_of (heap w)) (nth_error (objs w) i).

(* what the updating observers return is a function of this triple (simplified stack, constants, needs-opt flag) *)
Definition observation_of (h : list stack) (g : obj) : stack * list Cst * bool :=
  let '(h1, g1) := refresh h g in (nth (simp_p g1) h1 [], consts g1, needs_opt g1).
Definition observation (w : world) (i : nat) : option (stack * list Cst * bool) :=
  option_map (observation_of (heap w)) (nth_error (objs w) i).

(* the reference of the property: a freshly constructed equation given the same stack, flag and constants
     f = AGraph(flag); f.command_array = s; f.set_local_optimization_params(cs) [; needs_opt as given]  and then observed *)
Definition fresh_observation (flag : bool) (s : stack) (cs : list Cst) (no : bool) : stack * list Cst * bool :=
  observation_of [s; []] (mkO 0 1 cs no true flag None false 0).
End Obj.

Arguments mkO {Cst}. Arguments mkW {Cst}. Arguments cmd_p {Cst}. Arguments simp_p {Cst}. Arguments consts {Cst}.
Arguments needs_opt {Cst}. Arguments modified {Cst}. Arguments use_simp {Cst}. Arguments fitness {Cst}. Arguments fit_set {Cst}.
Arguments age {Cst}. Arguments heap {Cst}. Arguments objs {Cst}.
Arguments New {Cst}. Arguments SetArray {Cst}. Arguments WriteRow {Cst}. Arguments SetConsts {Cst}. Arguments Observe {Cst}.
Arguments SetFitness {Cst}. Arguments SetAge {Cst}. Arguments SetFlag {Cst}. Arguments Copy {Cst}.
Arguments mkV {Cst}. Arguments v_cmd {Cst}. Arguments v_simp {Cst}. Arguments v_consts {Cst}. Arguments v_needs {Cst}.
Arguments v_mod {Cst}. Arguments v_flag {Cst}. Arguments v_fit {Cst}. Arguments v_fset {Cst}. Arguments v_age {Cst}.

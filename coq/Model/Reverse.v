(* Model of reverse-mode differentiation (property C02).
   bingo/symbolic_regression/agraph/evaluation_backend/evaluation_backend.py: _reverse_eval, _evaluate_with_derivative.
   The per-operator adjoint rules are TRANSLATED (Gen/OpEval.v : rev_rule). *)
From Coq Require Import ZArith List Bool.
From Bingo Require Import Lib.Alg Gen.OpDefs Gen.OpEval Model.Stack.
Import ListNotations.
Open Scope Z_scope.

Section Rev.
Context {V : Type} (A : alg V).
Definition zero : V := a_of_int A 0.
Definition one : V := a_of_int A 1.

Fixpoint updv (l : list V) (i : nat) (x : V) : list V :=
  match l, i with [], _ => [] | _ :: r, O => x :: r | y :: r, S i' => y :: updv r i' x end.

(* reverse_eval[target] += amount   /   -= amount *)
Definition apply_update (re : list V) (u : Z * bool * V) : list V :=
  let '(t, plus, v) := u in
  let old := lookup re zero t in
  updv re (Z.to_nat (pyidx (Z.of_nat (length re)) t)) (if plus then a_add A old v else a_sub A old v).

(* one iteration of the backward loop at row i *)
Definition rev_step (s : stack) (fe : list V) (wrt : Z) (st : list V * list V) (i : nat) : list V * list V :=
  let '(re, deriv) := st in
  let c := nth i s (0, 0, 0) in
  if node_of c =? wrt then
    let col := Z.to_nat (pyidx (Z.of_nat (length deriv)) (p1_of c)) in
    (re, updv deriv col (a_add A (nth col deriv zero) (nth i re zero)))       (* derivative[:, param1] += reverse_eval[i] *)
  else
    (fold_left apply_update (rev_rule A (node_of c) (Z.of_nat i) (p1_of c) (p2_of c) (lookup fe zero) (lookup re zero)) re, deriv).

(* reverse_eval = [0]*n ; reverse_eval[-1] = 1.0 ; for i in range(n-1, -1, -1) *)
Definition reverse (s : stack) (fe : list V) (wrt : Z) (ncols : nat) : list V :=
  let n := length s in
  let re0 := updv (repeat zero n) (n - 1) one in
  snd (fold_left (rev_step s fe wrt) (rev (seq 0 n)) (re0, repeat zero ncols)).

(* _evaluate_with_derivative for one data row: (value, row of the derivative matrix) *)
Definition eval_with_derivative (s : stack) (xv cv : Z -> V) (wrt_x : bool) (ncols : nat) : V * list V :=
  let fe := forward A s xv cv in
  (last fe zero, reverse s fe (if wrt_x then VARIABLE else CONSTANT) ncols).
End Rev.

(* Model of bingo/stats/hall_of_fame.py and bingo/stats/pareto_front.py.
   Definitions only (executable); proofs are in Proofs/HofProofs.v.

   Keys are [option Z]: [None] is NaN, [Some z] a non-NaN float under an
   order embedding of the non-NaN floats (with -inf/+inf) into Z.
   Python's [<], [<=], [>], [!=] on floats become [klt], [kle], [kgt], [kne]
   which are all [false] (resp. [true] for [!=]) as soon as one side is NaN. *)
From Coq Require Import ZArith List Bool Arith.
From Bingo Require Export Lib.ListExtra Lib.Key.
Import ListNotations.
Open Scope Z_scope.

(* An individual offered to the hall: (object id, primary key, secondary key). *)
Record indiv := mkI { iid : nat; ik1 : key; ik2 : key }.

(* A resident: a deep copy ([eid], a fresh object id) of source [esrc]
   with the keys it had at copy time; [earr] is the arrival number. *)
Record entry := mkE { eid : nat; esrc : nat; ek1 : key; ek2 : key; earr : nat }.

Record hof := mkH {
  cap : option nat;          (* _max_size ; None for ParetoFront *)
  keys : list key;           (* _keys  *)
  items : list entry;        (* _items *)
  next_id : nat;             (* allocation counter for deepcopy *)
  next_arr : nat;
  err : bool                 (* an exception escaped *)
}.

Definition empty_hof (c : option nat) (base : nat) : hof :=
  mkH c [] [] base 0 false.

(* CPython bisect_right: lo, hi = 0, len(a); while lo < hi: mid = (lo+hi)//2;
   if x < a[mid]: hi = mid else: lo = mid+1; return lo *)
Fixpoint bisect_go (fuel : nat) (a : list key) (x : key) (lo hi : nat) : nat :=
  match fuel with
  | O => lo
  | S f =>
    if Nat.ltb lo hi then
      let mid := Nat.div (lo + hi) 2 in
      if klt x (nth mid a None) then bisect_go f a x lo mid
      else bisect_go f a x (S mid) hi
    else lo
  end.
Definition bisect_right (a : list key) (x : key) : nat :=
  bisect_go (S (length a)) a x 0 (length a).

(* HallOfFame.insert: deepcopy, key, bisect_right, two list.insert *)
Definition insert (h : hof) (i : indiv) : hof :=
  let e := mkE (next_id h) (iid i) (ik1 i) (ik2 i) (next_arr h) in
  let idx := bisect_right (keys h) (ik1 i) in
  mkH (cap h) (insert_at idx (ik1 i) (keys h)) (insert_at idx e (items h))
      (S (next_id h)) (S (next_arr h)) (err h).

(* the public method: an individual whose key is NaN is ignored (fix of finding F12a).  update / the Pareto update call insert
   only after their own NaN test, so they use [insert] directly (Proofs/HofProofs.v: insert_pub_of_should_add) *)
Definition insert_pub (h : hof) (i : indiv) : hof := if kisnan (ik1 i) then h else insert h i.

(* HallOfFame.remove(index) with Python index semantics; IndexError -> err *)
Definition py_index (len : nat) (i : Z) : option nat :=
  if (0 <=? i) && (i <? Z.of_nat len) then Some (Z.to_nat i)
  else if (i <? 0) && (0 <=? Z.of_nat len + i) then Some (Z.to_nat (Z.of_nat len + i))
  else None.

Definition remove (h : hof) (i : Z) : hof :=
  match py_index (length (keys h)) i with
  | None => mkH (cap h) (keys h) (items h) (next_id h) (next_arr h) true
  | Some n =>
    (* del self._keys[index]; del self._items[index]  (second may raise) *)
    match py_index (length (items h)) i with
    | None => mkH (cap h) (remove_at n (keys h)) (items h) (next_id h) (next_arr h) true
    | Some m => mkH (cap h) (remove_at n (keys h)) (remove_at m (items h))
                    (next_id h) (next_arr h) (err h)
    end
  end.

Definition clear (h : hof) : hof :=
  mkH (cap h) [] [] (next_id h) (next_arr h) (err h).

(* similarity is a decidable relation on source ids supplied by the caller;
   [sim a b] is called as similarity_func(resident, newcomer). Residents are
   copies, so similarity is looked up through their source id. *)
Section Sim.
Variable sim : option (nat -> nat -> bool).

Definition not_similar (h : hof) (i : indiv) : bool :=
  match sim with
  | None => true
  | Some f => forallb (fun e => negb (f (esrc e) (iid i))) (items h)
  end.

Definition last_key (h : hof) : key := last (keys h) None.

Definition should_add (h : hof) (i : indiv) : bool :=
  if kisnan (ik1 i) then false
  else match items h with
       | [] => match cap h with Some c => Nat.ltb 0 c | None => true end
                                        (* "if not self": admitted unless the capacity is 0 (fix of finding F12b) *)
       | _ =>
         if kle (ik1 i) (last_key h)
            || (match cap h with Some c => Nat.ltb (length (items h)) c | None => false end)
         then not_similar h i else false
       end.

Definition update1 (h : hof) (i : indiv) : hof :=
  if err h then h else
  if should_add h i then
    let h1 := match cap h with
              | Some c => if Nat.leb c (length (items h)) then remove h (-1) else h
              | None => h    (* len >= None raises TypeError: not reachable from ParetoFront *)
              end in
    if err h1 then h1 else insert h1 i
  else h.

Definition update (h : hof) (pop : list indiv) : hof := fold_left update1 pop h.

(* ---- ParetoFront ---- *)
Definition first_dominates (a1 a2 b1 b2 : key) : bool :=
  if kgt a1 b1 || kgt a2 b2 then false
  else kne a1 b1 || kne a2 b2.

Definition pf_not_dominated (h : hof) (i : indiv) : bool :=
  if kisnan (ik1 i) || kisnan (ik2 i) then false
  else forallb (fun e => negb (first_dominates (ek1 e) (ek2 e) (ik1 i) (ik2 i))) (items h).

(* indices of dominated members, ascending *)
Fixpoint dominated_idx (i : indiv) (l : list entry) (n : nat) : list nat :=
  match l with
  | [] => []
  | e :: l' => if first_dominates (ik1 i) (ik2 i) (ek1 e) (ek2 e)
               then n :: dominated_idx i l' (S n) else dominated_idx i l' (S n)
  end.

Definition pf_update1 (h : hof) (i : indiv) : hof :=
  if err h then h else
  if pf_not_dominated h i && not_similar h i then
    let dom := dominated_idx i (items h) 0 in
    let h1 := fold_left (fun h n => remove h (Z.of_nat n)) (rev dom) h in
    insert h1 i
  else h.

Definition pf_update (h : hof) (pop : list indiv) : hof := fold_left pf_update1 pop h.

(* ---- operation histories ---- *)
Inductive op :=
| OUpdate (pop : list indiv)
| OInsert (i : indiv)
| ORemove (idx : Z)
| OClear.

Definition step (pareto : bool) (h : hof) (o : op) : hof :=
  if err h then h else
  match o with
  | OUpdate pop => if pareto then pf_update h pop else update h pop
  | OInsert i => insert_pub h i
  | ORemove idx => remove h idx
  | OClear => clear h
  end.

Definition run (pareto : bool) (c : option nat) (base : nat) (ops : list op) : hof :=
  fold_left (step pareto) ops (empty_hof c base).
End Sim.

(* ---- canonical encoding for the correspondence check ---- *)
Definition enc_key (k : key) : list Z :=
  match k with None => [0] | Some z => [1; z] end.
Definition enc_hof (h : hof) : list Z :=
  (if err h then 1 else 0) :: Z.of_nat (length (keys h)) :: Z.of_nat (length (items h))
  :: flat_map enc_key (keys h)
  ++ flat_map (fun e => Z.of_nat (esrc e) :: enc_key (ek1 e) ++ enc_key (ek2 e)) (items h).

(* Model/Checkpoint.v's [ckpt_ops] is built from exactly the operations and tests TRANSLATED / pinned from the current
   source (Gen/CheckpointRules.v; property C13, re-proved on every run). *)
From Coq Require Import ZArith List Bool Arith.
From Bingo Require Import Model.Checkpoint Gen.CheckpointRules.
Import ListNotations.

Lemma ckpt_ops_is_source num prev a :
  ckpt_ops num prev a =
  match num with
  | None => (gen_write_ops a, prev)
  | Some n =>
    let prev' := prev ++ [a] in
    if gen_over n (length prev') then
      match gen_remove_oldest prev' with
      | Some (rm, rest) => (gen_write_ops a ++ [rm], rest)
      | None => (gen_write_ops a, prev')
      end
    else (gen_write_ops a, prev')
  end.
Proof.
  unfold ckpt_ops, gen_over, gen_remove_oldest, gen_write_ops. destruct num as [n|]; [|reflexivity].
  cbv zeta. destruct (Nat.ltb n (length (prev ++ [a]))); [|reflexivity].
  destruct (prev ++ [a]); reflexivity.
Qed.

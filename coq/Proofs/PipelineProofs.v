From Coq Require Import List Bool Arith Lia.
From Bingo Require Import Model.Pipeline.
Import ListNotations.

Section P.
Variables (G F : Type) (fit : G -> F) (opt : G -> G) (feq : F -> F -> bool).
Hypothesis feq_refl : forall v, feq v v = true.
Variable g0 : G.

Notation ind := (ind G F).
Definition valid (i : ind) : Prop := stored G F i = Some (fit (genome G F i)).
Definition fresh (i : ind) : Prop := flag G F i = true -> valid i.
Definition popok (i : ind) : Prop := stored G F i = None \/ valid i.
Definition evaluated (i : ind) : Prop := valid i /\ flag G F i = true.

Lemma dflt_fresh : fresh (dflt G F g0).
Proof. unfold fresh, dflt. simpl. discriminate. Qed.

Lemma nth_fresh pop p : Forall fresh pop -> fresh (nth p pop (dflt G F g0)).
Proof.
  intros H. destruct (Nat.lt_ge_cases p (length pop)) as [Hl|Hl].
  - rewrite Forall_forall in H. apply H. apply nth_In; auto.
  - rewrite nth_overflow by auto. apply dflt_fresh.
Qed.

Lemma nth_popok pop p : Forall popok pop -> popok (nth p pop (dflt G F g0)).
Proof.
  intros H. destruct (Nat.lt_ge_cases p (length pop)) as [Hl|Hl].
  - rewrite Forall_forall in H. apply H. apply nth_In; auto.
  - rewrite nth_overflow by auto. left. reflexivity.
Qed.

Lemma make_child_fresh pop reset s : Forall fresh pop -> fresh (make_child G F g0 pop reset s).
Proof.
  intros H. destruct s as [p|ps g|g]; unfold make_child, fresh; simpl; try discriminate.
  pose proof (nth_fresh pop p H) as Hp. destruct reset; [discriminate|]. exact Hp.
Qed.

Lemma variation_fresh reset pop specs : Forall fresh pop -> Forall fresh (variation G F g0 reset pop specs).
Proof.
  intros H. unfold variation. rewrite Forall_forall. intros c Hc. apply in_map_iff in Hc as [s [<- _]].
  apply make_child_fresh; auto.
Qed.

Lemma evaluate1_evaluated i : fresh i -> evaluated (evaluate1 G F fit opt i).
Proof.
  intros H. unfold evaluate1. destruct (flag G F i) eqn:E; [split; auto|].
  split; [reflexivity|reflexivity].
Qed.

Lemma evaluate_evaluated pop : Forall fresh pop -> Forall evaluated (evaluate G F fit opt pop).
Proof.
  intros H. unfold evaluate. rewrite Forall_forall. intros c Hc. apply in_map_iff in Hc as [i [<- Hi]].
  apply evaluate1_evaluated. rewrite Forall_forall in H. auto.
Qed.

Lemma read_ok_valid i : valid i -> read_ok G F fit feq i = Ok tt.
Proof. intros H. unfold read_ok. rewrite H. now rewrite feq_refl. Qed.

Lemma read_all_valid l : Forall valid l -> read_all G F fit feq l = Ok tt.
Proof. induction 1 as [|i r Hi Hr IH]; simpl; auto. rewrite read_ok_valid; auto. Qed.

Lemma evaluated_valid l : Forall evaluated l -> Forall valid l.
Proof. apply Forall_impl. intros i [H _]. exact H. Qed.

Lemma evaluated_popok l : Forall evaluated l -> Forall popok l.
Proof. apply Forall_impl. intros i [H _]. right. exact H. Qed.

(* diagnostics never read a stale or missing value when the offspring are evaluated and the parents
   hold either no value or the right one *)
Lemma diagnostics_ok pop : Forall popok pop -> forall offspring specs,
  Forall evaluated offspring -> diagnostics G F fit feq g0 pop offspring specs = Ok tt.
Proof.
  intros Hp. induction offspring as [|c cr IH]; intros specs Ho; destruct specs as [|s sr]; simpl; auto.
  inversion Ho as [|? ? Hc Hcr]; subst.
  set (ps := map (fun p => nth p pop (dflt G F g0)) (parents_of G s)).
  destruct ((match ps with [] => true | _ => false end)
            || existsb (fun p => match stored G F p with None => true | _ => false end) ps) eqn:E; [auto|].
  apply orb_false_elim in E as [_ E].
  rewrite read_ok_valid by apply Hc.
  assert (Hv : Forall valid ps).
  { rewrite Forall_forall. intros q Hq.
    assert (Hok : popok q).
    { unfold ps in Hq. apply in_map_iff in Hq as [p [<- _]]. apply nth_popok; auto. }
    destruct Hok as [Hn|Hv]; auto.
    exfalso. assert (existsb (fun p => match stored G F p with None => true | _ => false end) ps = true).
    { apply existsb_exists. exists q. split; auto. rewrite Hn. reflexivity. }
    congruence. }
  rewrite read_all_valid by auto. auto.
Qed.

Lemma selection_ok cands chosen : Forall evaluated cands ->
  (exists next, selection G F fit feq g0 cands chosen = Ok next /\ Forall evaluated next)
  \/ selection G F fit feq g0 cands chosen = BadOracle.
Proof.
  intros H. unfold selection. rewrite read_all_valid by (apply evaluated_valid; auto).
  destruct (forallb (fun n => Nat.ltb n (length cands)) chosen) eqn:E; [left|right; auto].
  eexists. split; [reflexivity|]. rewrite forallb_forall in E.
  rewrite Forall_forall. intros i Hi. apply in_map_iff in Hi as [n [<- Hn]].
  rewrite Forall_forall in H. apply H. apply nth_In. apply Nat.ltb_lt. auto.
Qed.

(* one generational step of any of the five algorithms, from ANY flag pattern of the population *)
Theorem step_ok a pop specs chosen : Forall fresh pop -> Forall popok pop ->
  (exists next, generational_step G F fit opt feq g0 a pop specs chosen = Ok next /\ Forall evaluated next)
  \/ generational_step G F fit opt feq g0 a pop specs chosen = BadOracle.
Proof.
  intros Hf Hp. unfold generational_step.
  set (offspring := variation G F g0 (uses_var_or a) pop specs).
  assert (Ho : Forall evaluated (evaluate G F fit opt offspring)).
  { apply evaluate_evaluated. apply variation_fresh; auto. }
  assert (Hpe : Forall evaluated (evaluate G F fit opt pop)) by (apply evaluate_evaluated; auto).
  destruct a.
  - destruct (selection_ok (evaluate G F fit opt offspring) chosen Ho) as [(next & E & Hn)|E]; rewrite E; auto.
    rewrite diagnostics_ok; auto; [left; eauto|apply evaluated_popok; auto].
  - rewrite diagnostics_ok; auto; [|apply evaluated_popok; auto].
    apply selection_ok. apply Forall_app; auto.
  - rewrite diagnostics_ok; auto. apply selection_ok; auto.
  - rewrite diagnostics_ok; auto; [|apply evaluated_popok; auto].
    apply selection_ok. apply Forall_app; auto.
  - rewrite diagnostics_ok; auto; [|apply evaluated_popok; auto].
    apply selection_ok. apply Forall_app; auto.
Qed.

(* island histories: steps, fitness resets, migration arrivals, regeneration, best-individual / hall-of-fame reads *)
Definition island_inv (st : list ind * nat) : Prop := Forall fresh (fst st) /\ Forall popok (fst st).
(* what may arrive by migration: individuals of islands with the same fitness function - no stored value, or the true one *)
Definition iop_ok (o : iop G F) : Prop := match o with IMigrate _ _ _ inc => Forall popok inc | _ => True end.

Lemma forallb_flag_valid pop : Forall fresh pop -> forallb (flag G F) pop = true -> Forall valid pop.
Proof.
  intros Hf Hb. rewrite forallb_forall in Hb. rewrite Forall_forall in *. intros i Hi. apply (Hf i Hi). apply Hb. exact Hi.
Qed.
Lemma unflag_ok l : Forall popok l -> Forall fresh (map (unflag G F) l) /\ Forall popok (map (unflag G F) l).
Proof.
  intros H. split; rewrite Forall_forall in *; intros i Hi; apply in_map_iff in Hi as [j [<- Hj]].
  - unfold fresh, unflag. simpl. discriminate.
  - destruct (H j Hj) as [E|E]; [left; exact E|right; exact E].
Qed.

Lemma island_op_ok a st o : island_inv st -> iop_ok o ->
  (exists st', island_op G F fit opt feq g0 a st o = Ok st' /\ island_inv st')
  \/ island_op G F fit opt feq g0 a st o = BadOracle.
Proof.
  destruct st as [pop age]. intros (Hf & Hp) Ho. simpl in *. destruct o as [specs chosen| | |gs|keep inc]; simpl.
  - destruct (step_ok a pop specs chosen Hf Hp) as [(next & E & Hn)|E]; rewrite E; auto.
    left. eexists. split; [reflexivity|]. split; simpl.
    + eapply Forall_impl; [|exact Hn]. intros i [H _] _. exact H.
    + apply evaluated_popok; auto.
  - left. eexists. split; [reflexivity|]. apply (unflag_ok pop Hp).
  - destruct (eval_due G F pop age) eqn:Ed.
    + pose proof (evaluate_evaluated pop Hf) as He.
      rewrite read_all_valid by (apply evaluated_valid; auto). left. eexists. split; [reflexivity|]. split; simpl.
      * eapply Forall_impl; [|exact He]. intros i [H _] _. exact H.
      * apply evaluated_popok; auto.
    + unfold eval_due in Ed. apply orb_false_iff in Ed as [_ Ed]. apply negb_false_iff in Ed.
      rewrite read_all_valid by (apply forallb_flag_valid; auto). left. eexists. split; [reflexivity|]. split; auto.
  - left. eexists. split; [reflexivity|]. split; simpl; rewrite Forall_forall; intros i Hi; apply in_map_iff in Hi as [g [<- _]].
    + unfold fresh. simpl. discriminate.
    + left. reflexivity.
  - destruct (forallb (fun k => Nat.ltb k (length pop)) keep); [|right; reflexivity].
    left. eexists. split; [reflexivity|]. apply unflag_ok. apply Forall_app. split; [|exact Ho].
    rewrite Forall_forall. intros i Hi. apply in_map_iff in Hi as [k [<- _]]. apply nth_popok. exact Hp.
Qed.

Theorem island_run_ok a : forall ops st, island_inv st -> Forall iop_ok ops ->
  (exists st', island_run G F fit opt feq g0 a st ops = Ok st' /\ island_inv st')
  \/ island_run G F fit opt feq g0 a st ops = BadOracle.
Proof.
  induction ops as [|o r IH]; intros st Hi Ho; simpl; [left; eauto|]. inversion Ho as [|? ? Ho1 Hor]; subst.
  destruct (island_op_ok a st o Hi Ho1) as [(st' & E & Hi')|E]; rewrite E; auto.
Qed.

End P.

(* Proofs for Model/Cas.v (property C03): every rewrite of automatic_simplify and of the optional modifications is an instance of
   an explicit list of algebraic laws.  Values live in an algebra with a REFINEMENT preorder [new <== old] ("wherever old is
   defined, new is defined and equal"): most laws are equations, five are refinements (0 <== a*0, 1 <== 1^e, 1 <== b^0 and the
   power identities), and the three power identities are only required for integer exponents when the model runs with
   iexp = true.  Instances: equality (every law unconditional - the degenerate reading), and option R with strict operations
   (Proofs/CasReal.v - the pointwise reading over the reals). *)
From Coq Require Import ZArith List Bool Lia Morphisms RelationClasses Setoid.
From Bingo Require Import Lib.Alg Gen.OpDefs Gen.OpEval Model.Stack Model.Cas.
Import ListNotations.
Local Open Scope Z_scope.

(* ---------- an induction principle that reaches the operands ---------- *)
Section Ind.
Variable P : cexpr -> Prop.
Hypothesis Hleaf : forall o v, P (Leaf o v).
Hypothesis Hnode : forall o l, Forall P l -> P (Node o l).
Fixpoint cexpr_ind2 (e : cexpr) : P e :=
  match e with
  | Leaf o v => Hleaf o v
  | Node o l => Hnode o l ((fix go (l : list cexpr) : Forall P l :=
                              match l with [] => Forall_nil _ | x :: r => Forall_cons x (cexpr_ind2 x) (go r) end) l)
  end.
End Ind.

Lemma ceqb_eq : forall a b, ceqb a b = true -> a = b.
Proof.
  induction a as [o v|o l IH] using cexpr_ind2; intros b H; destruct b as [o' v'|o' l']; cbn [ceqb] in H; try discriminate.
  - apply andb_prop in H as [H1 H2]. apply Z.eqb_eq in H1, H2. subst. reflexivity.
  - apply andb_prop in H as [H1 H2]. apply Z.eqb_eq in H1. subst o'. f_equal.
    revert l' H2. induction l as [|x r IHr]; intros l' H2; destruct l' as [|y q]; try discriminate; [reflexivity|].
    apply andb_prop in H2 as [Hx Hr]. inversion IH as [|? ? Px Pr]; subst. f_equal; [apply Px; exact Hx|apply IHr; assumption].
Qed.
Lemma oeqb_eq a b : oeqb a b = true -> a = b.
Proof. destruct a, b; cbn; intros H; try discriminate; [f_equal; apply ceqb_eq; exact H|reflexivity]. Qed.

Section Sem.
Context {V : Type} (A : alg V).
Variable ref : V -> V -> Prop.       (* ref new old *)
Variable iexp : bool.
Variable xv cv : Z -> V.
Notation "0" := (a_of_int A 0). Notation "1" := (a_of_int A 1).
Notation "x + y" := (a_add A x y). Notation "x * y" := (a_mul A x y).
Notation pw := (a_pow A).
Infix "<==" := ref (at level 70, no associativity).
(* the value is (the image of) an integer *)
Definition is_iv (e : V) : Prop := exists k, e = a_of_int A k.

Definition nsum (l : list V) : V := fold_right (a_add A) 0 l.
Definition nprod (l : list V) : V := fold_right (a_mul A) 1 l.
(* the value of an expression: n-ary sums and products; other operators read their first (two) operand(s) *)
Fixpoint ev (e : cexpr) : V :=
  match e with
  | Leaf o v => if o =? INTEGER then a_of_int A v else if o =? VARIABLE then xv v else cv v
  | Node o l =>
    let vs := map ev l in
    if o =? ADDITION then nsum vs else if o =? MULTIPLICATION then nprod vs
    else if is_arity_2 o then sem_op2 A o (nth 0 vs 0) (nth 1 vs 0) else sem_op1 A o (nth 0 vs 0)
  end.
Definition evs (l : list cexpr) : list V := map ev l.

(* ---------- the laws ---------- *)
Hypothesis ref_refl : forall a, a <== a.
Hypothesis ref_trans : forall a b c, a <== b -> b <== c -> a <== c.
Hypothesis op1_mono : forall o a a', a' <== a -> sem_op1 A o a' <== sem_op1 A o a.
Hypothesis op2_mono : forall o a a' b b', a' <== a -> b' <== b -> sem_op2 A o a' b' <== sem_op2 A o a b.
Hypothesis add_comm : forall a b, a + b = b + a.
Hypothesis add_assoc : forall a b c, a + (b + c) = (a + b) + c.
Hypothesis add_0_r : forall a, a + 0 = a.
Hypothesis mul_comm : forall a b, a * b = b * a.
Hypothesis mul_assoc : forall a b c, a * (b * c) = (a * b) * c.
Hypothesis mul_1_r : forall a, a * 1 = a.
Hypothesis mul_0_r : forall a, 0 <== a * 0.
Hypothesis distr : forall a b t, a * t + b * t = (a + b) * t.
Hypothesis int_add : forall a b, a_of_int A (a + b)%Z = a_of_int A a + a_of_int A b.
Hypothesis int_mul : forall a b, a_of_int A (a * b)%Z = a_of_int A a * a_of_int A b.
Hypothesis sub_def : forall a b, a_sub A a b = a + a_of_int A (-1) * b.
Hypothesis div_def : forall a b, a_div A a b = a * pw b (a_of_int A (-1)).
Hypothesis pow_1_l : forall e, 1 <== pw 1 e.
Hypothesis pow_0_l : forall k, (0 < k)%Z -> pw 0 (a_of_int A k) = 0.
Hypothesis pow_1_r : forall b, pw b 1 = b.
Hypothesis pow_0_r : forall b, 1 <== pw b 0.
Hypothesis pow_int : forall a k, (0 < k)%Z -> pw (a_of_int A a) (a_of_int A k) = a_of_int A (a ^ k)%Z.
Hypothesis pow_pow : forall b e1 e2, (iexp = true -> is_iv e1 /\ is_iv e2) -> pw b (e1 * e2) <== pw (pw b e1) e2.
Hypothesis pow_mul : forall a b e, (iexp = true -> is_iv e) -> pw a e * pw b e <== pw (a * b) e.
Hypothesis pow_add : forall b e1 e2, (iexp = true -> is_iv e1 /\ is_iv e2) -> pw b (e1 + e2) <== pw b e1 * pw b e2.
Hypothesis pow_add_nn : forall b k1 k2, (0 <= k1)%Z -> (0 <= k2)%Z ->
  pw b (a_of_int A k1) * pw b (a_of_int A k2) = pw b (a_of_int A (k1 + k2)%Z).
Hypothesis sin_0 : a_sin A 0 = 0.
Hypothesis sinh_0 : a_sinh A 0 = 0.
Hypothesis cos_0 : a_cos A 0 = 1.
Hypothesis cosh_0 : a_cosh A 0 = 1.
Hypothesis exp_0 : a_exp A 0 = 1.
Hypothesis log_1 : a_log A (a_abs A 1) = 0.
Hypothesis log_exp : forall x, a_log A (a_abs A (a_exp A x)) = x.

(* ---------- the preorder and the monotone operations, for rewriting ---------- *)
Local Instance ref_PreOrder : PreOrder ref := {| PreOrder_Reflexive := ref_refl; PreOrder_Transitive := ref_trans |}.
Lemma add_mono a a' b b' : a' <== a -> b' <== b -> a' + b' <== a + b.
Proof. intros H1 H2. exact (op2_mono ADDITION _ _ _ _ H1 H2). Qed.
Lemma mul_mono a a' b b' : a' <== a -> b' <== b -> a' * b' <== a * b.
Proof. intros H1 H2. exact (op2_mono MULTIPLICATION _ _ _ _ H1 H2). Qed.
Lemma pow_mono a a' b b' : a' <== a -> b' <== b -> pw a' b' <== pw a b.
Proof. intros H1 H2. exact (op2_mono POWER _ _ _ _ H1 H2). Qed.
Local Instance add_Proper : Proper (ref ==> ref ==> ref) (a_add A).
Proof. intros a' a H1 b' b H2. apply add_mono; assumption. Qed.
Local Instance mul_Proper : Proper (ref ==> ref ==> ref) (a_mul A).
Proof. intros a' a H1 b' b H2. apply mul_mono; assumption. Qed.
Local Instance pow_Proper : Proper (ref ==> ref ==> ref) (a_pow A).
Proof. intros a' a H1 b' b H2. apply pow_mono; assumption. Qed.
Lemma ref_of_eq a b : a = b -> a <== b. Proof. intros ->. reflexivity. Qed.

(* ---------- derived facts ---------- *)
Lemma add_0_l a : 0 + a = a. Proof. rewrite add_comm. apply add_0_r. Qed.
Lemma mul_1_l a : 1 * a = a. Proof. rewrite mul_comm. apply mul_1_r. Qed.
Lemma mul_0_l a : 0 <== 0 * a. Proof. rewrite mul_comm. apply mul_0_r. Qed.
Lemma int_mul_0 k : a_of_int A k * 0 = 0. Proof. rewrite <- int_mul, Z.mul_0_r. reflexivity. Qed.
Lemma nprod_app l m : nprod (l ++ m) = nprod l * nprod m.
Proof. induction l as [|x l IH]; cbn [app nprod fold_right]; [symmetry; apply mul_1_l|]. fold (nprod (l ++ m)). rewrite IH. apply mul_assoc. Qed.
Lemma nsum_app l m : nsum (l ++ m) = nsum l + nsum m.
Proof. induction l as [|x l IH]; cbn [app nsum fold_right]; [symmetry; apply add_0_l|]. fold (nsum (l ++ m)). rewrite IH. apply add_assoc. Qed.
Lemma nprod_cons x l : nprod (x :: l) = x * nprod l. Proof. reflexivity. Qed.
Lemma nsum_cons x l : nsum (x :: l) = x + nsum l. Proof. reflexivity. Qed.
Lemma nprod_one x : nprod [x] = x. Proof. cbn. apply mul_1_r. Qed.
Lemma nsum_one x : nsum [x] = x. Proof. cbn. apply add_0_r. Qed.
Lemma nprod_two x y : nprod [x; y] = x * y. Proof. cbn. rewrite mul_1_r. reflexivity. Qed.
Lemma nsum_two x y : nsum [x; y] = x + y. Proof. cbn. rewrite add_0_r. reflexivity. Qed.
Lemma nprod_zero l : In 0 l -> 0 <== nprod l.
Proof.
  induction l as [|x l IH]; intros H; [destruct H|]. cbn. fold (nprod l). destruct H as [->|H]; [apply mul_0_l|].
  rewrite <- (IH H). apply mul_0_r.
Qed.
Lemma nprod_mono l' l : Forall2 ref l' l -> nprod l' <== nprod l.
Proof. induction 1 as [|x y l' l Hxy _ IH]; [reflexivity|]. cbn. fold (nprod l') (nprod l). apply mul_mono; assumption. Qed.
Lemma nsum_mono l' l : Forall2 ref l' l -> nsum l' <== nsum l.
Proof. induction 1 as [|x y l' l Hxy _ IH]; [reflexivity|]. cbn. fold (nsum l') (nsum l). apply add_mono; assumption. Qed.

Lemma ev_int k : ev (mk_int k) = a_of_int A k. Proof. reflexivity. Qed.
Lemma is_zero_ev e : is_zero e = true -> ev e = 0.
Proof. destruct e as [o v|]; [|discriminate]. cbn. intros H. apply andb_prop in H as [H1 H2]. rewrite H1. apply Z.eqb_eq in H2. subst. reflexivity. Qed.
Lemma is_one_ev e : is_one e = true -> ev e = 1.
Proof. destruct e as [o v|]; [|discriminate]. cbn. intros H. apply andb_prop in H as [H1 H2]. rewrite H1. apply Z.eqb_eq in H2. subst. reflexivity. Qed.
Lemma is_int_ev e : is_int e = true -> ev e = a_of_int A (leaf_val e).
Proof. destruct e as [o v|o l]; unfold is_int; cbn; intros H; [rewrite H; reflexivity|discriminate]. Qed.

Lemma ev_mul l : ev (Node MULTIPLICATION l) = nprod (evs l). Proof. reflexivity. Qed.
Lemma ev_add l : ev (Node ADDITION l) = nsum (evs l). Proof. reflexivity. Qed.
Lemma ev_pow b e : ev (Node POWER [b; e]) = pw (ev b) (ev e). Proof. reflexivity. Qed.
Lemma nth_evs l k : nth k (evs l) 0 = ev (nth k l ZERO).
Proof. unfold evs. change 0 with (ev ZERO). apply map_nth. Qed.

(* x = base ^ exponent, x = coefficient * term *)
Lemma base_exponent e b x : base_of e = Some b -> exponent_of e = Some x -> ev e = pw (ev b) (ev x).
Proof.
  unfold base_of, exponent_of. destruct e as [o v|o l].
  - destruct (o =? INTEGER); [discriminate|]. intros Hb Hx. injection Hb as <-. injection Hx as <-. symmetry. apply pow_1_r.
  - destruct (Z.eqb_spec o POWER) as [->|N]; intros Hb Hx; injection Hb as <-; injection Hx as <-.
    + cbn [ev]. change (POWER =? ADDITION) with false. change (POWER =? MULTIPLICATION) with false. cbn iota.
      change (is_arity_2 POWER) with true. cbn iota. fold (evs l). rewrite !nth_evs. reflexivity.
    + symmetry. apply pow_1_r.
Qed.
Lemma coefficient_term e c t : coefficient_of e = Some c -> term_of e = Some t -> ev e = ev c * ev t.
Proof.
  unfold coefficient_of, term_of. destruct e as [o v|o l].
  - destruct (o =? INTEGER); [discriminate|]. intros Hc Ht. injection Hc as <-. injection Ht as <-.
    rewrite ev_mul. cbn [evs map nprod fold_right]. rewrite mul_1_r. symmetry. apply mul_1_l.
  - destruct (has_coeff (Node o l)) eqn:H.
    + cbn [has_coeff] in H. apply andb_prop in H as [Ho H]. apply Z.eqb_eq in Ho. subst o. change (MULTIPLICATION =? MULTIPLICATION) with true. cbn iota.
      intros Hc Ht. injection Hc as <-. injection Ht as <-. destruct l as [|h r]; [cbn in H; discriminate|]. cbn [nth tl]. rewrite !ev_mul. reflexivity.
    + destruct (o =? MULTIPLICATION); intros Hc Ht; injection Hc as <-; injection Ht as <-.
      * symmetry. apply mul_1_l.
      * rewrite ev_mul. cbn [evs map nprod fold_right]. rewrite mul_1_r. symmetry. apply mul_1_l.
Qed.

(* ---------- small facts about the accessors ---------- *)
Lemma factors_ev e : nprod (evs (factors e)) = ev e.
Proof.
  unfold factors. destruct e as [o v|o l]; cbn [is_mul]; [apply nprod_one|]. destruct (Z.eqb_spec o MULTIPLICATION) as [->|N]; [reflexivity|apply nprod_one].
Qed.
Lemma addends_ev e : nsum (evs (addends e)) = ev e.
Proof.
  unfold addends. destruct e as [o v|o l]; cbn [is_add]; [apply nsum_one|]. destruct (Z.eqb_spec o ADDITION) as [->|N]; [reflexivity|apply nsum_one].
Qed.
Lemma ceqb_refl : forall e, ceqb e e = true.
Proof.
  induction e as [o v|o l IH] using cexpr_ind2; cbn [ceqb]; [rewrite !Z.eqb_refl; reflexivity|]. rewrite Z.eqb_refl. cbn [andb].
  induction l as [|x r IHr]; [reflexivity|]. inversion IH as [|? ? Px Pr]; subst. rewrite Px, (IHr Pr). reflexivity.
Qed.
Lemma mapM_spec {X Y} (g : X -> option Y) : forall l l', mapM g l = Some l' -> Forall2 (fun x y => g x = Some y) l l'.
Proof.
  induction l as [|x l IH]; intros l' H; cbn [mapM] in H; [injection H as <-; constructor|].
  destruct (g x) as [y|] eqn:E; [|discriminate]. cbn [o_bind] in H. destruct (mapM g l) as [ys|]; [|discriminate]. cbn in H. injection H as <-.
  constructor; [exact E|apply IH; reflexivity].
Qed.
Lemma nprod_pow_map vs e : (iexp = true -> is_iv e) -> nprod (map (fun x => pw x e) vs) <== pw (nprod vs) e.
Proof.
  intros G. induction vs as [|x vs IH]; cbn; [apply pow_1_l|]. fold (nprod (map (fun x => pw x e) vs)). fold (nprod vs).
  rewrite IH. apply pow_mul. exact G.
Qed.

Lemma nprod_evs1 e : nprod (evs [e]) = ev e. Proof. apply nprod_one. Qed.
Lemma nsum_evs1 e : nsum (evs [e]) = ev e. Proof. apply nsum_one. Qed.
Lemma nprod_evs2 a b : nprod (evs [a; b]) = ev a * ev b. Proof. apply nprod_two. Qed.
Lemma nsum_evs2 a b : nsum (evs [a; b]) = ev a + ev b. Proof. apply nsum_two. Qed.
(* AC rearrangements used by the merges *)
Lemma mul4 a b c d : (a * b) * (c * d) = (a * c) * (b * d).
Proof. rewrite <- (mul_assoc a b (c * d)), (mul_assoc b c d), (mul_comm b c), <- (mul_assoc c b d), (mul_assoc a c (b * d)). reflexivity. Qed.
Lemma add4 a b c d : (a + b) + (c + d) = (a + c) + (b + d).
Proof. rewrite <- (add_assoc a b (c + d)), (add_assoc b c d), (add_comm b c), <- (add_assoc c b d), (add_assoc a c (b + d)). reflexivity. Qed.

Lemma mul_swap a b c : a * (b * c) = b * (a * c).
Proof. rewrite mul_assoc, (mul_comm a b), <- mul_assoc. reflexivity. Qed.
Lemma add_swap a b c : a + (b + c) = b + (a + c).
Proof. rewrite add_assoc, (add_comm a b), <- add_assoc. reflexivity. Qed.

(* ---------- the specifications of the mutually recursive core ---------- *)
Section Core.
Variable chk : bool.
Variable fits : Z -> bool.
Notation s_pow := (simplify_power chk iexp fits). Notation s_cpow := (simplify_constant_power chk iexp fits). Notation s_prod := (simplify_product chk iexp fits).
Notation s_prec := (simplify_product_rec chk iexp fits). Notation s_pmerge := (merge_products chk iexp fits). Notation s_sum := (simplify_sum chk iexp fits).
Notation s_srec := (simplify_sum_rec chk iexp fits). Notation s_smerge := (merge_sums chk iexp fits).


(* unfolding equations of the mutually recursive functions *)
Lemma s_pow_eq f e : s_pow (S f) e =
    match args_of e with
    | [b; ex] =>
      if is_one b then Some ONE
      else if is_zero b && is_int ex && (0 <? leaf_val ex) then Some ZERO
      else if is_int ex || is_cst ex then s_cpow f b ex
      else Some e
    | _ => None
    end.
Proof. reflexivity. Qed.
Lemma s_cpow_eq f b ex : s_cpow (S f) b ex =
    if is_one ex then Some b
    else if is_zero ex then Some ONE
    else if is_int b && is_int ex && (0 <? leaf_val ex) then
      match integer_power fits (leaf_val b) (leaf_val ex) with Some p => Some (mk_int p) | None => Some (Node POWER [b; ex]) end
    else if is_pow b then
      match args_of b with
      | [bb; be] =>
        if iexp && negb (is_int be && is_int ex) then None else
        o_bind (s_prod f (Node MULTIPLICATION [be; ex])) (fun ne =>
          if is_int be || is_cst be then s_cpow f bb ne else Some (Node POWER [bb; ne]))
      | _ => None
      end
    else if is_mul b then
      if iexp && negb (is_int ex) then None else
      o_bind (mapM (fun x => s_cpow f x ex) (args_of b)) (fun l => s_prod f (Node MULTIPLICATION l))
    else Some (Node POWER [b; ex]).
Proof. reflexivity. Qed.
Lemma s_prod_eq f e : s_prod (S f) e =
    let ops := args_of e in
    if existsb (ceqb ZERO) ops then Some ZERO
    else match ops with
         | [] => None
         | [x] => Some x
         | _ => o_bind (s_prec f ops) (fun r =>
                  match r with [] => Some ONE | [x] => Some x | _ => Some (Node MULTIPLICATION r) end)
         end.
Proof. reflexivity. Qed.
Lemma s_prec_eq f ops : s_prec (S f) ops =
    match ops with
    | [op1; op2] =>
      if is_int op1 && is_int op2 then
        (if negb (fits (leaf_val op1 * leaf_val op2)) then (if expr_lt op2 op1 then Some [op2; op1] else Some ops) else
         let p := mk_int (leaf_val op1 * leaf_val op2) in if is_one p then Some [] else Some [p])
      else if negb (is_mul op1 || is_mul op2) then
        if is_one op1 then Some [op2]
        else if is_one op2 then Some [op1]
        else if oeqb (base_of op1) (base_of op2) then
          match base_of op1, exponent_of op1, exponent_of op2 with
          | Some b1, Some e1, Some e2 =>
            if iexp && negb (is_int e1 && is_int e2) then None else
            o_bind (s_sum f (Node ADDITION [e1; e2])) (fun ne =>
            o_bind (s_pow f (Node POWER [b1; ne])) (fun c =>
              if is_one c then Some [] else Some [c]))
          | _, _, _ => None
          end
        else if expr_lt op2 op1 then Some [op2; op1]
        else Some ops
      else
        s_pmerge f (factors op1) (factors op2)
    | op0 :: rest =>
      match rest with
      | [] => None
      | _ => o_bind (s_prec f rest) (fun rs => s_pmerge f (factors op0) rs)
      end
    | [] => None
    end.
Proof. reflexivity. Qed.
Lemma s_pmerge_eq f o1 o2 : s_pmerge (S f) o1 o2 =
    match o1, o2 with
    | [], _ => Some o2
    | _, [] => Some o1
    | x :: r1, y :: r2 =>
      o_bind (s_prec f [x; y]) (fun sf =>
        match sf with
        | [] => s_pmerge f r1 r2
        | [z] => o_bind (s_pmerge f r1 r2) (fun m => Some (z :: m))
        | z :: _ => if ceqb z x then o_bind (s_pmerge f r1 o2) (fun m => Some (z :: m))
                    else if chk && negb (ceqb z y) then None
                    else o_bind (s_pmerge f o1 r2) (fun m => Some (z :: m))
        end)
    end.
Proof. reflexivity. Qed.
Lemma s_sum_eq f e : s_sum (S f) e =
    match args_of e with
    | [] => None
    | [x] => Some x
    | ops => o_bind (s_srec f ops) (fun r =>
               match r with [] => Some ZERO | [x] => Some x | _ => Some (Node ADDITION r) end)
    end.
Proof. reflexivity. Qed.
Lemma s_srec_eq f ops : s_srec (S f) ops =
    match ops with
    | [op1; op2] =>
      if is_int op1 && is_int op2 then
        (if negb (fits (leaf_val op1 + leaf_val op2)) then (if expr_lt op2 op1 then Some [op2; op1] else Some ops) else
         let p := mk_int (leaf_val op1 + leaf_val op2) in if is_zero p then Some [] else Some [p])
      else if negb (is_add op1 || is_add op2) then
        if is_zero op1 then Some [op2]
        else if is_zero op2 then Some [op1]
        else if oeqb (term_of op1) (term_of op2) then
          match term_of op1, coefficient_of op1, coefficient_of op2 with
          | Some t1, Some c1, Some c2 =>
            o_bind (s_sum f (Node ADDITION [c1; c2])) (fun nc =>
            o_bind (s_prod f (Node MULTIPLICATION [nc; t1])) (fun c =>
              if is_zero c then Some [] else Some [c]))
          | _, _, _ => None
          end
        else if expr_lt op2 op1 then Some [op2; op1]
        else Some ops
      else
        s_smerge f (addends op1) (addends op2)
    | op0 :: rest =>
      match rest with
      | [] => None
      | _ => o_bind (s_srec f rest) (fun rs => s_smerge f (addends op0) rs)
      end
    | [] => None
    end.
Proof. reflexivity. Qed.
Lemma s_smerge_eq f o1 o2 : s_smerge (S f) o1 o2 =
    match o1, o2 with
    | [], _ => Some o2
    | _, [] => Some o1
    | x :: r1, y :: r2 =>
      o_bind (s_srec f [x; y]) (fun sf =>
        match sf with
        | [] => s_smerge f r1 r2
        | [z] => o_bind (s_smerge f r1 r2) (fun m => Some (z :: m))
        | z :: _ => if ceqb z x then o_bind (s_smerge f r1 o2) (fun m => Some (z :: m))
                    else if chk && negb (ceqb z y) then None
                    else o_bind (s_smerge f o1 r2) (fun m => Some (z :: m))
        end)
    end.
Proof. reflexivity. Qed.

Lemma s_pmerge_eq_chk f o1 o2 : chk = true -> s_pmerge (S f) o1 o2 =
    match o1, o2 with
    | [], _ => Some o2
    | _, [] => Some o1
    | x :: r1, y :: r2 =>
      o_bind (s_prec f [x; y]) (fun sf =>
        match sf with
        | [] => s_pmerge f r1 r2
        | [z] => o_bind (s_pmerge f r1 r2) (fun m => Some (z :: m))
        | z :: _ => if ceqb z x then o_bind (s_pmerge f r1 o2) (fun m => Some (z :: m))
                    else if negb (ceqb z y) then None
                    else o_bind (s_pmerge f o1 r2) (fun m => Some (z :: m))
        end)
    end.
Proof.
  intros Ck. rewrite s_pmerge_eq. destruct o1 as [|x r1]; [reflexivity|]. destruct o2 as [|y r2]; [reflexivity|].
  destruct (s_prec f [x; y]) as [sf|]; [|reflexivity]. cbn [o_bind]. destruct sf as [|z [|w r]]; try reflexivity.
  destruct (ceqb z x); [reflexivity|]. destruct (ceqb z y); cbn [negb]; [rewrite andb_false_r; reflexivity|]. rewrite Ck. reflexivity.
Qed.
Lemma s_smerge_eq_chk f o1 o2 : chk = true -> s_smerge (S f) o1 o2 =
    match o1, o2 with
    | [], _ => Some o2
    | _, [] => Some o1
    | x :: r1, y :: r2 =>
      o_bind (s_srec f [x; y]) (fun sf =>
        match sf with
        | [] => s_smerge f r1 r2
        | [z] => o_bind (s_smerge f r1 r2) (fun m => Some (z :: m))
        | z :: _ => if ceqb z x then o_bind (s_smerge f r1 o2) (fun m => Some (z :: m))
                    else if negb (ceqb z y) then None
                    else o_bind (s_smerge f o1 r2) (fun m => Some (z :: m))
        end)
    end.
Proof.
  intros Ck. rewrite s_smerge_eq. destruct o1 as [|x r1]; [reflexivity|]. destruct o2 as [|y r2]; [reflexivity|].
  destruct (s_srec f [x; y]) as [sf|]; [|reflexivity]. cbn [o_bind]. destruct sf as [|z [|w r]]; try reflexivity.
  destruct (ceqb z x); [reflexivity|]. destruct (ceqb z y); cbn [negb]; [rewrite andb_false_r; reflexivity|]. rewrite Ck. reflexivity.
Qed.

Definition P_pow f := forall b ex r, s_pow f (Node POWER [b; ex]) = Some r -> ev r <== pw (ev b) (ev ex).
Definition P_cpow f := forall b ex r, s_cpow f b ex = Some r -> ev r <== pw (ev b) (ev ex).
Definition P_prod f := forall e r, s_prod f e = Some r -> ev r <== nprod (evs (args_of e)).
Definition P_prec f := forall ops l, s_prec f ops = Some l -> nprod (evs l) <== nprod (evs ops).
(* the pair case also says what shape the answer has (needed by the merges) *)
Definition P_pmerge f := forall o1 o2 l, s_pmerge f o1 o2 = Some l -> nprod (evs l) <== nprod (evs o1) * nprod (evs o2).
Definition P_sum f := forall e r, s_sum f e = Some r -> ev r <== nsum (evs (args_of e)).
Definition P_srec f := forall ops l, s_srec f ops = Some l -> nsum (evs l) <== nsum (evs ops).
Definition P_smerge f := forall o1 o2 l, s_smerge f o1 o2 = Some l -> nsum (evs l) <== nsum (evs o1) + nsum (evs o2).
Definition P_all f := P_pow f /\ P_cpow f /\ P_prod f /\ P_prec f /\ P_pmerge f /\ P_sum f /\ P_srec f /\ P_smerge f.

Lemma integer_power_val b e p : (0 < e)%Z -> integer_power fits b e = Some p -> p = (b ^ e)%Z.
Proof.
  intros He. unfold integer_power. destruct ((1 <? Z.abs b) && (63 <? e)); [discriminate|]. cbn zeta.
  match goal with |- (if fits ?q then _ else _) = _ -> _ => assert (E : q = (b ^ e)%Z); [|rewrite E; destruct (fits (b ^ e)); [intros H; injection H as <-; reflexivity|discriminate]] end.
  destruct (Z.eqb_spec b 0) as [->|N0]; [symmetry; apply Z.pow_0_l; exact He|].
  destruct (Z.eqb_spec b 1) as [->|N1]; [symmetry; apply Z.pow_1_l; lia|].
  destruct (Z.eqb_spec b (-1)) as [->|N2]; [|reflexivity].
  destruct (Z.even e) eqn:Ev.
  - apply Z.even_spec in Ev. change (-1)%Z with (- (1))%Z. rewrite (Z.pow_opp_even 1 e Ev), Z.pow_1_l by lia. reflexivity.
  - assert (Od : Z.Odd e) by (apply Z.odd_spec; rewrite <- Z.negb_even, Ev; reflexivity).
    change (-1)%Z with (- (1))%Z. rewrite (Z.pow_opp_odd 1 e Od), Z.pow_1_l by lia. reflexivity.
Qed.
Lemma step_pow f : P_cpow f -> P_pow (S f).
Proof.
  intros IH b ex r H. rewrite s_pow_eq in H. cbn [args_of] in H.
  destruct (is_one b) eqn:E1; [injection H as <-; rewrite (is_one_ev _ E1); apply pow_1_l|].
  destruct (is_zero b && is_int ex && (0 <? leaf_val ex)) eqn:E2.
  { injection H as <-. apply andb_prop in E2 as [E2 E4]. apply andb_prop in E2 as [E2 E3]. apply Z.ltb_lt in E4.
    rewrite (is_zero_ev _ E2), (is_int_ev _ E3). apply ref_of_eq. symmetry. apply pow_0_l. exact E4. }
  destruct (is_int ex || is_cst ex); [apply IH; exact H|]. injection H as <-. apply ref_of_eq. apply ev_pow.
Qed.
Lemma step_cpow f : P_cpow f -> P_prod f -> P_cpow (S f).
Proof.
  intros IHc IHp b ex r H. rewrite s_cpow_eq in H.
  destruct (is_one ex) eqn:E1; [injection H as <-; rewrite (is_one_ev _ E1); apply ref_of_eq; symmetry; apply pow_1_r|].
  destruct (is_zero ex) eqn:E2; [injection H as <-; rewrite (is_zero_ev _ E2); apply pow_0_r|].
  destruct (is_int b && is_int ex && (0 <? leaf_val ex)) eqn:E3.
  { destruct (integer_power fits (leaf_val b) (leaf_val ex)) as [p|] eqn:Ip; injection H as <-; [|apply ref_of_eq; apply ev_pow].
    apply andb_prop in E3 as [E3 E5]. apply andb_prop in E3 as [E3 E4]. apply Z.ltb_lt in E5.
    apply (integer_power_val _ _ _ E5) in Ip. subst p.
    rewrite (is_int_ev _ E3), (is_int_ev _ E4). apply ref_of_eq. symmetry. apply pow_int. exact E5. }
  destruct (is_pow b) eqn:E4.
  { destruct b as [o v|o l]; [discriminate E4|]. cbn [is_pow] in E4. apply Z.eqb_eq in E4. subst o. cbn [args_of] in H.
    destruct l as [|bb [|be [|? ?]]]; try discriminate H.
    destruct (iexp && negb (is_int be && is_int ex)) eqn:G; [discriminate H|].
    assert (Gv : iexp = true -> is_iv (ev be) /\ is_iv (ev ex)).
    { intros Hi. rewrite Hi in G. cbn [andb] in G. apply negb_false_iff in G. apply andb_prop in G as [G1 G2].
      split; eexists; apply is_int_ev; assumption. }
    destruct (s_prod f (Node MULTIPLICATION [be; ex])) as [ne|] eqn:Ep; [|discriminate H]. cbn [o_bind] in H.
    pose proof (IHp _ _ Ep) as Hne. cbn [args_of] in Hne. change (evs [be; ex]) with [ev be; ev ex] in Hne. rewrite nprod_two in Hne.
    rewrite ev_pow, <- (pow_pow _ _ _ Gv), <- Hne.
    destruct (is_int be || is_cst be); [apply IHc; exact H|]. injection H as <-. apply ref_of_eq. apply ev_pow. }
  destruct (is_mul b) eqn:E5.
  { destruct b as [o v|o l]; [discriminate E5|]. cbn [is_mul] in E5. apply Z.eqb_eq in E5. subst o. cbn [args_of] in H.
    destruct (iexp && negb (is_int ex)) eqn:G; [discriminate H|].
    assert (Gv : iexp = true -> is_iv (ev ex)).
    { intros Hi. rewrite Hi in G. cbn [andb] in G. apply negb_false_iff in G. eexists; apply is_int_ev; assumption. }
    destruct (mapM (fun x => s_cpow f x ex) l) as [l'|] eqn:Em; [|discriminate H]. cbn [o_bind] in H.
    rewrite (IHp _ _ H). cbn [args_of]. rewrite ev_mul, <- (nprod_pow_map _ _ Gv). apply nprod_mono.
    apply mapM_spec in Em. unfold evs. clear H E3 E4. induction Em as [|x y l l' Hxy Em IH]; [constructor|]. cbn [map].
    constructor; [apply (IHc _ _ _ Hxy)|exact IH]. }
  injection H as <-. apply ref_of_eq. apply ev_pow.
Qed.
Lemma step_prod f : P_prec f -> P_prod (S f).
Proof.
  intros IH e r H. rewrite s_prod_eq in H. cbn zeta in H. destruct (existsb (ceqb ZERO) (args_of e)) eqn:Ez.
  { injection H as <-. apply existsb_exists in Ez as (x & Hin & Hx). apply ceqb_eq in Hx. subst x. apply nprod_zero.
    change (a_of_int A 0) with (ev ZERO). apply in_map. exact Hin. }
  destruct (args_of e) as [|x [|y rest]] eqn:Ea; [discriminate| injection H as <-; apply ref_of_eq; symmetry; apply nprod_one|].
  destruct (s_prec f (x :: y :: rest)) as [r0|] eqn:Er; [|discriminate H]. cbn [o_bind] in H. rewrite <- (IH _ _ Er).
  destruct r0 as [|a [|b r1]]; injection H as <-; apply ref_of_eq; [reflexivity|symmetry; apply nprod_one|reflexivity].
Qed.
Lemma step_sum f : P_srec f -> P_sum (S f).
Proof.
  intros IH e r H. rewrite s_sum_eq in H.
  destruct (args_of e) as [|x [|y rest]] eqn:Ea; [discriminate| injection H as <-; apply ref_of_eq; symmetry; apply nsum_one|].
  destruct (s_srec f (x :: y :: rest)) as [r0|] eqn:Er; [|discriminate H]. cbn [o_bind] in H. rewrite <- (IH _ _ Er).
  destruct r0 as [|a [|b r1]]; injection H as <-; apply ref_of_eq; [reflexivity|symmetry; apply nsum_one|reflexivity].
Qed.

(* the pair case of _simplify_product_rec: value and shape *)
Lemma pair_prod f x y l : P_pow f -> P_sum f -> P_pmerge f -> s_prec (S f) [x; y] = Some l ->
  nprod (evs l) <== ev x * ev y /\
  (is_mul x || is_mul y = false -> l = [] \/ (exists z, l = [z]) \/ l = [x; y] \/ l = [y; x]).
Proof.
  intros IHpow IHsum IHm H. rewrite s_prec_eq in H. cbn zeta in H.
  destruct (is_int x && is_int y) eqn:E1.
  { apply andb_prop in E1 as [Ex Ey]. assert (Hv : a_of_int A (leaf_val x * leaf_val y) = ev x * ev y) by (rewrite int_mul, <- (is_int_ev _ Ex), <- (is_int_ev _ Ey); reflexivity).
    destruct (negb (fits (leaf_val x * leaf_val y))).
    { destruct (expr_lt y x); injection H as <-.
      - split; [|intros _; right; right; right; reflexivity]. rewrite nprod_evs2. apply ref_of_eq. apply mul_comm.
      - split; [|intros _; right; right; left; reflexivity]. apply ref_of_eq. apply nprod_evs2. }
    destruct (is_one (mk_int (leaf_val x * leaf_val y))) eqn:E2; injection H as <-.
    - split; [|intros _; left; reflexivity]. rewrite <- Hv. cbn. apply ref_of_eq. symmetry. apply (is_one_ev _ E2).
    - split; [|intros _; right; left; eexists; reflexivity]. rewrite <- Hv. apply ref_of_eq. apply nprod_evs1. }
  destruct (is_mul x || is_mul y) eqn:Em; cbn [negb] in H.
  { split; [|discriminate]. rewrite (IHm _ _ _ H), !factors_ev. reflexivity. }
  destruct (is_one x) eqn:E3; [injection H as <-; split; [rewrite (is_one_ev _ E3), nprod_evs1; apply ref_of_eq; symmetry; apply mul_1_l|intros _; right; left; eexists; reflexivity]|].
  destruct (is_one y) eqn:E4; [injection H as <-; split; [rewrite (is_one_ev _ E4), nprod_evs1; apply ref_of_eq; symmetry; apply mul_1_r|intros _; right; left; eexists; reflexivity]|].
  destruct (oeqb (base_of x) (base_of y)) eqn:E5.
  { apply oeqb_eq in E5. destruct (base_of x) as [b1|] eqn:Bx; [|destruct (exponent_of x), (exponent_of y); discriminate H].
    destruct (exponent_of x) as [e1|] eqn:Xx; [|discriminate H]. destruct (exponent_of y) as [e2|] eqn:Xy; [|discriminate H].
    destruct (iexp && negb (is_int e1 && is_int e2)) eqn:G; [discriminate H|].
    assert (Gv : iexp = true -> is_iv (ev e1) /\ is_iv (ev e2)).
    { intros Hi. rewrite Hi in G. cbn [andb] in G. apply negb_false_iff in G. apply andb_prop in G as [G1 G2].
      split; eexists; apply is_int_ev; assumption. }
    destruct (s_sum f (Node ADDITION [e1; e2])) as [ne|] eqn:Es; [|discriminate H]. cbn [o_bind] in H.
    destruct (s_pow f (Node POWER [b1; ne])) as [cc|] eqn:Ep; [|discriminate H]. cbn [o_bind] in H.
    pose proof (IHsum _ _ Es) as Hne. cbn [args_of] in Hne. change (evs [e1; e2]) with [ev e1; ev e2] in Hne. rewrite nsum_two in Hne.
    pose proof (IHpow _ _ _ Ep) as Hc. rewrite Hne in Hc.
    assert (Hv : ev cc <== ev x * ev y).
    { rewrite Hc, (base_exponent x b1 e1 Bx Xx), (base_exponent y b1 e2 (eq_sym E5) Xy). apply pow_add. exact Gv. }
    destruct (is_one cc) eqn:E6; injection H as <-.
    - split; [|intros _; left; reflexivity]. rewrite <- Hv. cbn. apply ref_of_eq. symmetry. apply (is_one_ev _ E6).
    - split; [|intros _; right; left; eexists; reflexivity]. rewrite <- Hv. apply ref_of_eq. apply nprod_evs1. }
  destruct (expr_lt y x); injection H as <-.
  - split; [|intros _; right; right; right; reflexivity]. rewrite nprod_evs2. apply ref_of_eq. apply mul_comm.
  - split; [|intros _; right; right; left; reflexivity]. apply ref_of_eq. apply nprod_evs2.
Qed.
Lemma step_prec f : P_pow f -> P_sum f -> P_pmerge f -> P_prec f -> P_prec (S f).
Proof.
  intros IHpow IHsum IHm IHr ops l H. destruct ops as [|x [|y [|z rest]]].
  - rewrite s_prec_eq in H. discriminate H.
  - rewrite s_prec_eq in H. discriminate H.
  - destruct (pair_prod f x y l IHpow IHsum IHm H) as [Hv _]. rewrite Hv. change (evs [x; y]) with [ev x; ev y]. apply ref_of_eq. symmetry. apply nprod_two.
  - rewrite s_prec_eq in H. destruct (s_prec f (y :: z :: rest)) as [rs|] eqn:Er; [|discriminate H]. cbn [o_bind] in H.
    rewrite (IHm _ _ _ H), factors_ev, (IHr _ _ Er). reflexivity.
Qed.
(* in the checked model a simplified pair with two or more members is the pair itself, in some order *)
Lemma step_pmerge f : chk = true -> (forall x y l, s_prec f [x; y] = Some l ->
    nprod (evs l) <== ev x * ev y) -> P_pmerge f -> P_pmerge (S f).
Proof.
  intros Ck IHpair IHm o1 o2 l H. rewrite (s_pmerge_eq_chk _ _ _ Ck) in H.
  destruct o1 as [|x r1]; [injection H as <-; cbn; apply ref_of_eq; symmetry; apply mul_1_l|].
  destruct o2 as [|y r2]; [injection H as <-; cbn [evs map nprod fold_right]; apply ref_of_eq; symmetry; apply mul_1_r|].
  destruct (s_prec f [x; y]) as [sf|] eqn:Es; [|discriminate H]. cbn [o_bind] in H. pose proof (IHpair _ _ _ Es) as Hv.
  change (evs (x :: r1)) with (ev x :: evs r1). change (evs (y :: r2)) with (ev y :: evs r2). rewrite !nprod_cons.
  destruct sf as [|z [|w sf']].
  - rewrite (IHm _ _ _ H). cbn in Hv. rewrite mul4, <- Hv. apply ref_of_eq. symmetry. apply mul_1_l.
  - destruct (s_pmerge f r1 r2) as [m|] eqn:Em; [|discriminate H]. cbn [o_bind] in H. injection H as <-.
    change (evs (z :: m)) with (ev z :: evs m). rewrite nprod_cons, (IHm _ _ _ Em), mul4. apply mul_mono; [|reflexivity].
    change (evs [z]) with [ev z] in Hv. rewrite nprod_one in Hv. exact Hv.
  - destruct (ceqb z x) eqn:Ezx.
    + apply ceqb_eq in Ezx. subst z. destruct (s_pmerge f r1 (y :: r2)) as [m|] eqn:Em; [|discriminate H]. cbn [o_bind] in H. injection H as <-.
      change (evs (x :: m)) with (ev x :: evs m). rewrite nprod_cons, (IHm _ _ _ Em).
      change (evs (y :: r2)) with (ev y :: evs r2). rewrite nprod_cons. apply ref_of_eq. apply mul_assoc.
    + destruct (ceqb z y) eqn:Ezy; cbn [negb] in H; [|discriminate H].
      apply ceqb_eq in Ezy. subst z. destruct (s_pmerge f (x :: r1) r2) as [m|] eqn:Em; [|discriminate H]. cbn [o_bind] in H. injection H as <-.
      change (evs (y :: m)) with (ev y :: evs m). rewrite nprod_cons, (IHm _ _ _ Em).
      change (evs (x :: r1)) with (ev x :: evs r1). rewrite nprod_cons.
      apply ref_of_eq. apply mul_swap.
Qed.

Lemma pair_sum f x y l : P_sum f -> P_prod f -> P_smerge f -> s_srec (S f) [x; y] = Some l -> nsum (evs l) <== ev x + ev y.
Proof.
  intros IHsum IHprod IHm H. rewrite s_srec_eq in H. cbn zeta in H.
  destruct (is_int x && is_int y) eqn:E1.
  { apply andb_prop in E1 as [Ex Ey]. assert (Hv : a_of_int A (leaf_val x + leaf_val y) = ev x + ev y) by (rewrite int_add, <- (is_int_ev _ Ex), <- (is_int_ev _ Ey); reflexivity).
    destruct (negb (fits (leaf_val x + leaf_val y))).
    { destruct (expr_lt y x); injection H as <-; [rewrite nsum_evs2; apply ref_of_eq; apply add_comm|apply ref_of_eq; apply nsum_evs2]. }
    destruct (is_zero (mk_int (leaf_val x + leaf_val y))) eqn:E2; injection H as <-.
    - rewrite <- Hv. cbn. apply ref_of_eq. symmetry. apply (is_zero_ev _ E2).
    - rewrite <- Hv. apply ref_of_eq. apply nsum_evs1. }
  destruct (is_add x || is_add y) eqn:Em; cbn [negb] in H.
  { rewrite (IHm _ _ _ H), !addends_ev. reflexivity. }
  destruct (is_zero x) eqn:E3; [injection H as <-; rewrite (is_zero_ev _ E3), nsum_evs1; apply ref_of_eq; symmetry; apply add_0_l|].
  destruct (is_zero y) eqn:E4; [injection H as <-; rewrite (is_zero_ev _ E4), nsum_evs1; apply ref_of_eq; symmetry; apply add_0_r|].
  destruct (oeqb (term_of x) (term_of y)) eqn:E5.
  { apply oeqb_eq in E5. destruct (term_of x) as [t1|] eqn:Tx; [|destruct (coefficient_of x), (coefficient_of y); discriminate H].
    destruct (coefficient_of x) as [c1|] eqn:Cx; [|discriminate H]. destruct (coefficient_of y) as [c2|] eqn:Cy; [|discriminate H].
    destruct (s_sum f (Node ADDITION [c1; c2])) as [nc|] eqn:Es; [|discriminate H]. cbn [o_bind] in H.
    destruct (s_prod f (Node MULTIPLICATION [nc; t1])) as [cc|] eqn:Ep; [|discriminate H]. cbn [o_bind] in H.
    pose proof (IHsum _ _ Es) as Hnc. cbn [args_of] in Hnc. rewrite nsum_evs2 in Hnc.
    pose proof (IHprod _ _ Ep) as Hc. cbn [args_of] in Hc. rewrite nprod_evs2, Hnc in Hc.
    assert (Hv : ev cc <== ev x + ev y).
    { rewrite Hc, (coefficient_term x c1 t1 Cx Tx), (coefficient_term y c2 t1 Cy (eq_sym E5)). apply ref_of_eq. symmetry. apply distr. }
    destruct (is_zero cc) eqn:E6; injection H as <-.
    - rewrite <- Hv. cbn. apply ref_of_eq. symmetry. apply (is_zero_ev _ E6).
    - rewrite <- Hv. apply ref_of_eq. apply nsum_evs1. }
  destruct (expr_lt y x); injection H as <-.
  - rewrite nsum_evs2. apply ref_of_eq. apply add_comm.
  - apply ref_of_eq. apply nsum_evs2.
Qed.
Lemma step_srec f : P_sum f -> P_prod f -> P_smerge f -> P_srec f -> P_srec (S f).
Proof.
  intros IHsum IHprod IHm IHr ops l H. destruct ops as [|x [|y [|z rest]]].
  - rewrite s_srec_eq in H. discriminate H.
  - rewrite s_srec_eq in H. discriminate H.
  - rewrite (pair_sum f x y l IHsum IHprod IHm H). apply ref_of_eq. symmetry. apply nsum_evs2.
  - rewrite s_srec_eq in H. destruct (s_srec f (y :: z :: rest)) as [rs|] eqn:Er; [|discriminate H]. cbn [o_bind] in H.
    rewrite (IHm _ _ _ H), addends_ev, (IHr _ _ Er). reflexivity.
Qed.
Lemma step_smerge f : chk = true -> (forall x y l, s_srec f [x; y] = Some l -> nsum (evs l) <== ev x + ev y) -> P_smerge f -> P_smerge (S f).
Proof.
  intros Ck IHpair IHm o1 o2 l H. rewrite (s_smerge_eq_chk _ _ _ Ck) in H.
  destruct o1 as [|x r1]; [injection H as <-; cbn; apply ref_of_eq; symmetry; apply add_0_l|].
  destruct o2 as [|y r2]; [injection H as <-; cbn [evs map nsum fold_right]; apply ref_of_eq; symmetry; apply add_0_r|].
  destruct (s_srec f [x; y]) as [sf|] eqn:Es; [|discriminate H]. cbn [o_bind] in H. pose proof (IHpair _ _ _ Es) as Hv.
  change (evs (x :: r1)) with (ev x :: evs r1). change (evs (y :: r2)) with (ev y :: evs r2). rewrite !nsum_cons.
  destruct sf as [|z [|w sf']].
  - rewrite (IHm _ _ _ H). cbn in Hv. rewrite add4, <- Hv. apply ref_of_eq. symmetry. apply add_0_l.
  - destruct (s_smerge f r1 r2) as [m|] eqn:Em; [|discriminate H]. cbn [o_bind] in H. injection H as <-.
    change (evs (z :: m)) with (ev z :: evs m). rewrite nsum_cons, (IHm _ _ _ Em), add4. apply add_mono; [|reflexivity]. rewrite nsum_evs1 in Hv. exact Hv.
  - destruct (ceqb z x) eqn:Ezx.
    + apply ceqb_eq in Ezx. subst z. destruct (s_smerge f r1 (y :: r2)) as [m|] eqn:Em; [|discriminate H]. cbn [o_bind] in H. injection H as <-.
      change (evs (x :: m)) with (ev x :: evs m). rewrite nsum_cons, (IHm _ _ _ Em).
      change (evs (y :: r2)) with (ev y :: evs r2). rewrite nsum_cons. apply ref_of_eq. apply add_assoc.
    + destruct (ceqb z y) eqn:Ezy; cbn [negb] in H; [|discriminate H].
      apply ceqb_eq in Ezy. subst z. destruct (s_smerge f (x :: r1) r2) as [m|] eqn:Em; [|discriminate H]. cbn [o_bind] in H. injection H as <-.
      change (evs (y :: m)) with (ev y :: evs m). rewrite nsum_cons, (IHm _ _ _ Em).
      change (evs (x :: r1)) with (ev x :: evs r1). rewrite nsum_cons. apply ref_of_eq. apply add_swap.
Qed.

(* all eight specifications, for every amount of fuel *)
Lemma P_all_0 : P_all 0.
Proof. repeat split; intros; discriminate. Qed.
Theorem core_sound : chk = true -> forall f, P_all f.
Proof.
  intros Ck. induction f as [|f (Ipow & Icpow & Iprod & Iprec & Ipm & Isum & Isrec & Ism)]; [apply P_all_0|].
  assert (Hpp : forall x y l, s_prec f [x; y] = Some l -> nprod (evs l) <== ev x * ev y).
  { intros x y l H. rewrite (Iprec _ _ H). apply ref_of_eq. apply nprod_evs2. }
  assert (Hsp : forall x y l, s_srec f [x; y] = Some l -> nsum (evs l) <== ev x + ev y).
  { intros x y l H. rewrite (Isrec _ _ H). apply ref_of_eq. apply nsum_evs2. }
  split; [apply step_pow; assumption|]. split; [apply step_cpow; assumption|]. split; [apply step_prod; assumption|].
  split; [apply step_prec; assumption|]. split; [apply step_pmerge; assumption|]. split; [apply step_sum; assumption|].
  split; [apply step_srec; assumption|apply step_smerge; assumption].
Qed.

(* ---------- quotient, difference, the unary rules, the node dispatcher ---------- *)
Lemma quotient_sound f e r : chk = true -> simplify_quotient chk iexp fits f e = Some r ->
  ev r <== ev (nth 0 (args_of e) ZERO) * pw (ev (nth 1 (args_of e) ZERO)) (a_of_int A (-1)).
Proof.
  intros Ck H. destruct (core_sound Ck f) as (Ipow & _ & Iprod & _). unfold simplify_quotient in H.
  destruct (args_of e) as [|n [|d [|? ?]]]; try discriminate H.
  destruct (s_pow f (Node POWER [d; NEG_ONE])) as [di|] eqn:Ep; [|discriminate H]. cbn [o_bind] in H.
  rewrite (Iprod _ _ H). cbn [args_of nth]. rewrite nprod_evs2, (Ipow _ _ _ Ep). reflexivity.
Qed.
Lemma neg_map_sound f l negs : chk = true -> mapM (fun x => s_prod f (Node MULTIPLICATION [NEG_ONE; x])) l = Some negs ->
  nsum (evs negs) <== a_of_int A (-1) * nsum (evs l).
Proof.
  intros Ck H. destruct (core_sound Ck f) as (_ & _ & Iprod & _). apply mapM_spec in H.
  induction H as [|x y l negs Hxy H IH]; [cbn; apply mul_0_r|].
  change (evs (y :: negs)) with (ev y :: evs negs). change (evs (x :: l)) with (ev x :: evs l). rewrite !nsum_cons, IH.
  rewrite (Iprod _ _ Hxy). cbn [args_of]. rewrite nprod_evs2. change (ev NEG_ONE) with (a_of_int A (-1)).
  rewrite (mul_comm (a_of_int A (-1)) (ev x)), (mul_comm (a_of_int A (-1)) (nsum (evs l))), distr. apply ref_of_eq. apply mul_comm.
Qed.
Lemma difference_sound f e r : chk = true -> simplify_difference chk iexp fits f e = Some r ->
  ev r <== ev (nth 0 (args_of e) ZERO) + a_of_int A (-1) * ev (nth 1 (args_of e) ZERO).
Proof.
  intros Ck H. destruct (core_sound Ck f) as (_ & _ & Iprod & _ & _ & Isum & _). unfold simplify_difference in H.
  destruct (args_of e) as [|a [|b [|? ?]]]; try discriminate H. cbn [nth].
  match type of H with o_bind ?X _ = _ => destruct X as [negs|] eqn:En; [|discriminate H] end. cbn [o_bind] in H.
  rewrite (Isum _ _ H). cbn [args_of]. change (evs (a :: negs)) with (ev a :: evs negs). rewrite nsum_cons. apply add_mono; [reflexivity|].
  destruct (is_add b) eqn:Eb.
  - rewrite (neg_map_sound _ _ _ Ck En). apply ref_of_eq. f_equal. destruct b as [|o l]; [discriminate Eb|]. cbn [is_add] in Eb. apply Z.eqb_eq in Eb. subst o. reflexivity.
  - destruct (s_prod f (Node MULTIPLICATION [NEG_ONE; b])) as [x|] eqn:Ep; [|discriminate En]. cbn [o_bind] in En. injection En as <-.
    rewrite nsum_evs1, (Iprod _ _ Ep). cbn [args_of]. apply ref_of_eq. apply nprod_evs2.
Qed.

Lemma ev_node_args o l l' : evs l' = evs l -> ev (Node o l') = ev (Node o l).
Proof. intros H. cbn [ev]. fold (evs l') (evs l). rewrite H. reflexivity. Qed.
Lemma nth_mono l' l k : Forall2 ref l' l -> nth k l' 0 <== nth k l 0.
Proof. intros H. revert k. induction H as [|x y l' l Hxy _ IH]; intros [|k]; cbn; try reflexivity; [exact Hxy|apply IH]. Qed.
Lemma ev_node_mono o l l' : Forall2 ref (evs l') (evs l) -> ev (Node o l') <== ev (Node o l).
Proof.
  intros H. cbn [ev]. fold (evs l') (evs l). destruct (o =? ADDITION); [apply nsum_mono; exact H|].
  destruct (o =? MULTIPLICATION); [apply nprod_mono; exact H|].
  destruct (is_arity_2 o); [apply op2_mono|apply op1_mono]; apply nth_mono; exact H.
Qed.
Lemma ev_unary o l : o <> ADDITION -> o <> MULTIPLICATION -> is_arity_2 o = false -> ev (Node o l) = sem_op1 A o (ev (nth 0 l ZERO)).
Proof.
  intros N1 N2 A2. cbn [ev]. destruct (Z.eqb_spec o ADDITION); [contradiction|]. destruct (Z.eqb_spec o MULTIPLICATION); [contradiction|].
  rewrite A2. fold (evs l). rewrite nth_evs. reflexivity.
Qed.
Lemma ev_binary o l : o <> ADDITION -> o <> MULTIPLICATION -> is_arity_2 o = true ->
  ev (Node o l) = sem_op2 A o (ev (nth 0 l ZERO)) (ev (nth 1 l ZERO)).
Proof.
  intros N1 N2 A2. cbn [ev]. destruct (Z.eqb_spec o ADDITION); [contradiction|]. destruct (Z.eqb_spec o MULTIPLICATION); [contradiction|].
  rewrite A2. fold (evs l). rewrite !nth_evs. reflexivity.
Qed.

Theorem simplify_node_sound f o l r : chk = true -> simplify_node chk iexp fits f (Node o l) = Some r -> ev r <== ev (Node o l).
Proof.
  intros Ck H. destruct (core_sound Ck f) as (Ipow & _ & Iprod & _ & _ & Isum & _). unfold simplify_node in H. cbn [opr] in H.
  destruct (Z.eqb_spec o POWER) as [->|N1].
  { destruct l as [|b [|ex [|? ?]]]; try discriminate H. rewrite (Ipow _ _ _ H). apply ref_of_eq. symmetry. apply ev_pow. }
  destruct (Z.eqb_spec o SAFE_POWER) as [->|N2].
  { cbn [args_of] in H. destruct l as [|b [|ex [|? ?]]]; try discriminate H. rewrite (Ipow _ _ _ H). reflexivity. }
  destruct (Z.eqb_spec o MULTIPLICATION) as [->|N3]; [rewrite (Iprod _ _ H); reflexivity|].
  destruct (Z.eqb_spec o ADDITION) as [->|N4]; [rewrite (Isum _ _ H); reflexivity|].
  destruct (Z.eqb_spec o DIVISION) as [->|N5].
  { rewrite (quotient_sound _ _ _ Ck H). cbn [args_of]. rewrite ev_binary by (try reflexivity; discriminate). cbn [sem_op2]. apply ref_of_eq. symmetry. apply div_def. }
  destruct (Z.eqb_spec o SUBTRACTION) as [->|N6].
  { rewrite (difference_sound _ _ _ Ck H). cbn [args_of]. rewrite ev_binary by (try reflexivity; discriminate). cbn [sem_op2]. apply ref_of_eq. symmetry. apply sub_def. }
  unfold arg0 in H. cbn [args_of] in H.
  destruct ((o =? SIN) || (o =? SINH)) eqn:E7.
  { destruct (is_zero (nth 0 l ZERO)) eqn:Z0; injection H as <-; [|reflexivity]. apply ref_of_eq.
    apply orb_prop in E7 as [E|E]; apply Z.eqb_eq in E; subst o; rewrite ev_unary by (try reflexivity; discriminate); rewrite (is_zero_ev _ Z0); cbn;
      [symmetry; apply sin_0|symmetry; apply sinh_0]. }
  destruct ((o =? COS) || (o =? COSH) || (o =? EXPONENTIAL)) eqn:E8.
  { destruct (is_zero (nth 0 l ZERO)) eqn:Z0; injection H as <-; [|reflexivity]. apply ref_of_eq.
    apply orb_prop in E8 as [E8|E]; [apply orb_prop in E8 as [E|E]|]; apply Z.eqb_eq in E; subst o; rewrite ev_unary by (try reflexivity; discriminate);
      rewrite (is_zero_ev _ Z0); cbn; symmetry; [apply cos_0|apply cosh_0|apply exp_0]. }
  destruct (Z.eqb_spec o LOGARITHM) as [->|N9].
  { apply ref_of_eq. rewrite ev_unary by (try reflexivity; discriminate). cbn [sem_op1]. change (sem_op1 A LOGARITHM ?x) with (a_log A (a_abs A x)).
    destruct (is_one (nth 0 l ZERO)) eqn:O1; [injection H as <-; rewrite (is_one_ev _ O1); symmetry; apply log_1|].
    destruct (nth 0 l ZERO) as [o' v'|o' l'] eqn:En; [injection H as <-; rewrite ev_unary by (try reflexivity; discriminate); rewrite En; reflexivity|].
    destruct (Z.eqb_spec o' EXPONENTIAL) as [->|N]; injection H as <-.
    - rewrite (ev_unary EXPONENTIAL l') by (try reflexivity; discriminate). cbn [sem_op1]. change (sem_op1 A EXPONENTIAL ?x) with (a_exp A x).
      symmetry. apply log_exp.
    - rewrite ev_unary by (try reflexivity; discriminate). rewrite En. reflexivity. }
  destruct ((o =? ABS) || (o =? SQRT)); [injection H as <-; reflexivity|discriminate H].
Qed.

Theorem automatic_simplify_sound : chk = true -> forall depth rf e r, automatic_simplify chk iexp fits depth rf e = Some r -> ev r <== ev e.
Proof.
  intros Ck. induction depth as [|d IH]; intros rf e r H; [discriminate H|]. cbn [automatic_simplify] in H.
  destruct e as [o v|o l]; [injection H as <-; reflexivity|].
  destruct (mapM (automatic_simplify chk iexp fits d rf) l) as [l'|] eqn:Em; [|discriminate H]. cbn [o_bind] in H.
  rewrite (simplify_node_sound _ _ _ _ Ck H). apply ev_node_mono. clear H.
  apply mapM_spec in Em. unfold evs. induction Em as [|x y l l' Hxy Em IHl]; [constructor|]. cbn [map].
  constructor; [apply (IH _ _ _ Hxy)|exact IHl].
Qed.
End Core.

(* ---------- optional_modifications ---------- *)
Lemma neg_operand x : oeqb (coefficient_of x) (Some NEG_ONE) = true ->
  exists t, term_of x = Some t /\ ev x = a_of_int A (-1) * ev t.
Proof.
  intros H. apply oeqb_eq in H. destruct (term_of x) as [t|] eqn:T.
  - exists t. split; [reflexivity|]. rewrite (coefficient_term x NEG_ONE t H T). reflexivity.
  - exfalso. unfold term_of, coefficient_of in *. destruct x as [o v|o l].
    + destruct (o =? INTEGER); discriminate.
    + destruct (o =? MULTIPLICATION); [destruct (has_coeff (Node o l))|]; discriminate.
Qed.
Definition sub_of (t : cexpr) : cexpr := match args_of t with [y] => y | _ => t end.
Lemma sub_of_ev x t : term_of x = Some t -> ev (sub_of t) = ev t.
Proof.
  unfold sub_of. intros H. destruct (args_of t) as [|y [|z r]] eqn:E; try reflexivity.
  (* a term is a product node *)
  assert (Tm : exists l, t = Node MULTIPLICATION l).
  { unfold term_of in H. destruct x as [o v|o l].
    - destruct (o =? INTEGER); [discriminate|]. injection H as <-. eexists; reflexivity.
    - destruct (Z.eqb_spec o MULTIPLICATION) as [->|N]; [destruct (has_coeff _); injection H as <-; eexists; reflexivity|injection H as <-; eexists; reflexivity]. }
  destruct Tm as (l & ->). cbn [args_of] in E. subst l. rewrite ev_mul. symmetry. apply nprod_evs1.
Qed.
Definition sub_list (x : cexpr) : list cexpr :=
  if oeqb (coefficient_of x) (Some NEG_ONE)
  then match term_of x with Some t => match args_of t with [y] => [y] | _ => [t] end | None => [] end else [].
Lemma mul_add_distr_l a b c : a * (b + c) = a * b + a * c.
Proof. rewrite (mul_comm a (b + c)), <- distr, (mul_comm b a), (mul_comm c a). reflexivity. Qed.
Lemma insert_subtraction_sum l :
  nsum (evs l) = nsum (evs (filter (fun x => negb (oeqb (coefficient_of x) (Some NEG_ONE))) l)) + a_of_int A (-1) * nsum (evs (flat_map sub_list l)).
Proof.
  induction l as [|x l IH]; [cbn; rewrite int_mul_0; symmetry; apply add_0_r|].
  cbn [filter]. change (flat_map sub_list (x :: l)) with (sub_list x ++ flat_map sub_list l).
  assert (Hs : nsum (evs (sub_list x ++ flat_map sub_list l)) = nsum (evs (sub_list x)) + nsum (evs (flat_map sub_list l)))
    by (unfold evs; rewrite map_app; apply nsum_app).
  rewrite Hs. change (evs (x :: l)) with (ev x :: evs l). rewrite nsum_cons, IH. clear Hs IH.
  unfold sub_list. destruct (oeqb (coefficient_of x) (Some NEG_ONE)) eqn:En; cbn [negb].
  - destruct (neg_operand x En) as (t & T & Hx). rewrite T.
    assert (E1 : nsum (evs (match args_of t with [y] => [y] | _ => [t] end)) = ev t).
    { pose proof (sub_of_ev x t T) as Hs. unfold sub_of in Hs. destruct (args_of t) as [|y [|z r]]; rewrite nsum_evs1; [reflexivity|exact Hs|reflexivity]. }
    rewrite E1, Hx, mul_add_distr_l. apply add_swap.
  - change (evs []) with (@nil V). cbn [nsum fold_right]. rewrite add_0_l.
    change (evs (x :: ?r)) with (ev x :: evs r). rewrite nsum_cons. apply add_assoc.
Qed.
Lemma nsum_single_or_node l : l <> [] -> ev (match l with [a] => a | _ => Node ADDITION l end) = nsum (evs l).
Proof. destruct l as [|a [|b r]]; intros H; [congruence|symmetry; apply nsum_evs1|reflexivity]. Qed.

Theorem insert_subtraction_sound : forall depth e r, insert_subtraction depth e = Some r -> ev r = ev e.
Proof.
  induction depth as [|d IH]; intros e r H; [discriminate H|]. cbn [insert_subtraction] in H.
  destruct e as [o v|o l]; [injection H as <-; reflexivity|].
  destruct (mapM (insert_subtraction d) l) as [l'|] eqn:Em; [|discriminate H]. cbn [o_bind] in H.
  assert (El : evs l' = evs l).
  { apply mapM_spec in Em. clear H. unfold evs. induction Em as [|x y l l' Hxy Em IHl]; [reflexivity|]. cbn [map]. rewrite IHl, (IH _ _ Hxy). reflexivity. }
  destruct (Z.eqb_spec o ADDITION) as [->|N]; cbn [negb] in H; [|injection H as <-; apply ev_node_args; exact El].
  rewrite ev_add, <- El. rewrite (insert_subtraction_sum l'). cbn zeta in H. fold sub_list in H.
  set (subs := flat_map sub_list l') in *. set (adds := filter _ l') in *.
  destruct subs as [|s0 subs'] eqn:Es.
  { injection H as <-. rewrite ev_add. cbn [evs map nsum fold_right]. rewrite int_mul_0. symmetry. apply add_0_r. }
  destruct adds as [|a0 adds'] eqn:Ea.
  { injection H as <-. rewrite ev_mul. change (evs [NEG_ONE; Node ADDITION (s0 :: subs')]) with [a_of_int A (-1); ev (Node ADDITION (s0 :: subs'))].
    rewrite nprod_two, ev_add. change (nsum (evs [])) with (a_of_int A 0). symmetry. apply add_0_l. }
  injection H as <-. rewrite ev_binary by (try reflexivity; discriminate). cbn [nth sem_op2]. change (sem_op2 A SUBTRACTION ?x ?y) with (a_sub A x y).
  rewrite sub_def. destruct adds' as [|a1 adds'']; destruct subs' as [|s1 subs'']; rewrite ?ev_add, ?nsum_evs1; reflexivity.
Qed.

Lemma map_repeat' {X Y} (g : X -> Y) x n : map g (repeat x n) = repeat (g x) n.
Proof. induction n as [|n IH]; [reflexivity|]. cbn. rewrite IH. reflexivity. Qed.
Lemma pow_repeat b : forall n, (0 < n)%nat -> pw b (a_of_int A (Z.of_nat n)) = nprod (repeat b n).
Proof.
  induction n as [|n IH]; intros H; [lia|]. destruct n as [|n].
  - cbn. rewrite mul_1_r. apply pow_1_r.
  - rewrite Nat2Z.inj_succ, <- Z.add_1_r, <- pow_add_nn, IH by lia. rewrite pow_1_r. cbn [repeat nprod fold_right]. apply mul_comm.
Qed.
Theorem replace_integer_powers_sound : forall depth e r, replace_integer_powers depth e = Some r -> ev r = ev e.
Proof.
  induction depth as [|d IH]; intros e r H; [discriminate H|]. cbn [replace_integer_powers] in H.
  destruct e as [o v|o l]; [injection H as <-; reflexivity|].
  destruct (mapM (replace_integer_powers d) l) as [l'|] eqn:Em; [|discriminate H]. cbn [o_bind] in H.
  assert (El : evs l' = evs l).
  { apply mapM_spec in Em. clear H. unfold evs. induction Em as [|x y l l' Hxy Em IHl]; [reflexivity|]. cbn [map]. rewrite IHl, (IH _ _ Hxy). reflexivity. }
  rewrite <- (ev_node_args o l l' El).
  destruct l' as [|b [|ex [|? ?]]]; try (injection H as <-; reflexivity).
  destruct ((o =? POWER) && is_int ex && (0 <? leaf_val ex) && (leaf_val ex <=? max_replaced_integer_power)) eqn:E; [|injection H as <-; reflexivity].
  apply andb_prop in E as [E _]. apply andb_prop in E as [E E3]. apply andb_prop in E as [E1 E2]. apply Z.eqb_eq in E1. apply Z.ltb_lt in E3. subst o. injection H as <-.
  rewrite ev_mul, ev_pow, (is_int_ev _ E2). unfold evs. rewrite map_repeat'. rewrite <- (Z2Nat.id (leaf_val ex)) at 2 by lia.
  symmetry. apply pow_repeat. lia.
Qed.
Theorem optional_modifications_sound depth e r : optional_modifications depth e = Some r -> ev r = ev e.
Proof.
  unfold optional_modifications. intros H. destruct (insert_subtraction depth e) as [e1|] eqn:E1; [|discriminate H]. cbn [o_bind] in H.
  rewrite (replace_integer_powers_sound _ _ _ H). apply (insert_subtraction_sound _ _ _ E1).
Qed.
End Sem.

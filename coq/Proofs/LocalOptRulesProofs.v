(* Model/LocalOpt.v's [lo_call] is the two statements of LocalOptFitnessFunction.__call__ as pinned and emitted, in source
   order, by tools/translate/tr_localopt.py (Gen/LocalOptRules.v; property C06, re-proved on every run). *)
From Coq Require Import ZArith List Bool.
From Bingo Require Import Lib.Key Model.LocalOpt Gen.LocalOptRules.
Import ListNotations.

Section I.
Variable C : Type.
Variable base : list C -> key.

(* running the statements of __call__: [None] as result = an exception propagates (or the function falls off its end) *)
Fixpoint interp (steps : list lo_step) (o : optimizer) (i : indiv C) (r1 r2 : run C) : optimizer * indiv C * option key :=
  match steps with
  | [] => (o, i, None)
  | OptimizeIfRequested :: rest =>
    if needs_opt C i then
      match optimize C o i r1 r2 with
      | (o', i', true) => interp rest o' i' r1 r2
      | (o', i', false) => (o', i', None)
      end
    else interp rest o i r1 r2
  | ReturnFreshBaseFitness :: _ => (o, i, Some (base (consts C i)))
  end.

Lemma lo_call_is_source o i r1 r2 : lo_call C base o i r1 r2 = interp gen_lo_steps o i r1 r2.
Proof.
  unfold lo_call, gen_lo_steps. cbn [interp]. destruct (needs_opt C i); [|reflexivity].
  destruct (optimize C o i r1 r2) as [[o' i'] ok]. destruct ok; reflexivity.
Qed.
End I.

Lemma delegation_is_pinned : gen_lo_delegates_counter_and_data = true.
Proof. reflexivity. Qed.

From Coq Require Import List Bool Arith Lia.
From Bingo Require Import Model.Migration Model.ParPartner Proofs.MigrationProofs.
Import ListNotations.

Lemma index_of_Some x : forall l i, index_of x l = Some i -> i < length l /\ nth i l 0 = x.
Proof.
  induction l as [|y r IH]; intros i H; [discriminate H|]. cbn [index_of] in H. destruct (Nat.eqb_spec y x) as [->|N].
  - injection H as <-. cbn. split; [lia|reflexivity].
  - destruct (index_of x r) as [j|] eqn:E; [|discriminate H]. injection H as <-. destruct (IH j eq_refl) as [a b]. cbn. split; [lia|exact b].
Qed.
Lemma index_of_nth : forall l i, NoDup l -> i < length l -> index_of (nth i l 0) l = Some i.
Proof.
  induction l as [|y r IH]; intros i ND Hi; [cbn in Hi; lia|]. inversion ND as [|? ? Hy NDr]; subst. destruct i as [|i]; cbn [nth index_of].
  - rewrite Nat.eqb_refl. reflexivity.
  - cbn in Hi. destruct (Nat.eqb_spec y (nth i r 0)) as [E|N].
    + exfalso. apply Hy. rewrite E. apply nth_In. lia.
    + rewrite IH by (assumption || lia). reflexivity.
Qed.
Lemma index_of_In x l : In x l -> exists i, index_of x l = Some i.
Proof.
  induction l as [|y r IH]; intros H; [destruct H|]. cbn [index_of]. destruct (Nat.eqb_spec y x) as [E|N]; [eauto|].
  destruct H as [H|H]; [congruence|]. destruct (IH H) as [i E]. rewrite E. eauto.
Qed.

Section P.
Variables (order : list nat) (n : nat).
Hypothesis perm : is_perm order n = true.

Let Hspec := is_perm_spec order n perm.

(* every rank of the communicator gets an answer *)
Lemma partner_defined r : r < n -> exists p, partner order r = Some p.
Proof.
  intros Hr. destruct Hspec as (Hl & Hb & ND).
  assert (Hin : In r order).
  { apply (Permutation.Permutation_in r (Permutation.Permutation_sym (is_perm_seq order n perm))). apply in_seq. lia. }
  destruct (index_of_In r order Hin) as [i E]. unfold partner. rewrite E. eauto.
Qed.

(* the relation is a matching: a partner is another rank of the communicator, and its partner is the rank itself *)
Lemma partner_symmetric r q : partner order r = Some (Some q) -> q < n /\ q <> r /\ partner order q = Some (Some r).
Proof.
  destruct Hspec as (Hl & Hb & ND). unfold partner. destruct (index_of r order) as [i|] eqn:E; [|discriminate].
  destruct (index_of_Some r order i E) as [Hi Hn]. intros H. injection H as H.
  destruct (Nat.even i) eqn:Ev.
  - destruct (Nat.ltb_spec (S i) (length order)) as [Hs|Hs]; [|discriminate H]. injection H as <-.
    split; [apply Hb; apply nth_In; exact Hs|]. split.
    + intros Eq. rewrite <- Hn in Eq. apply (proj1 (NoDup_nth order 0) ND) in Eq; lia.
    + rewrite (index_of_nth order (S i) ND Hs). rewrite Nat.even_succ. rewrite <- Nat.negb_even, Ev. cbn [negb].
      replace (S i - 1) with i by lia. rewrite Hn. reflexivity.
  - injection H as <-. assert (Hi1 : 1 <= i) by (destruct i; [discriminate Ev|lia]).
    split; [apply Hb; apply nth_In; lia|]. split.
    + intros Eq. rewrite <- Hn in Eq. apply (proj1 (NoDup_nth order 0) ND) in Eq; lia.
    + rewrite (index_of_nth order (i - 1) ND ltac:(lia)).
      assert (Ev1 : Nat.even (i - 1) = true).
      { replace i with (S (i - 1)) in Ev by lia. rewrite Nat.even_succ, <- Nat.negb_even in Ev. destruct (Nat.even (i - 1)); [reflexivity|discriminate Ev]. }
      rewrite Ev1. replace (S (i - 1)) with i by lia. destruct (Nat.ltb_spec i (length order)); [|lia]. rewrite Hn. reflexivity.
Qed.

(* only the rank in the last position of an odd-length list sits out: at most one rank, and only when n is odd *)
Lemma partner_none r : partner order r = Some None -> Nat.odd n = true /\ r = nth (n - 1) order 0.
Proof.
  destruct Hspec as (Hl & Hb & ND). unfold partner. destruct (index_of r order) as [i|] eqn:E; [|discriminate].
  destruct (index_of_Some r order i E) as [Hi Hn]. intros H. injection H as H.
  destruct (Nat.even i) eqn:Ev; [|discriminate H]. destruct (Nat.ltb_spec (S i) (length order)) as [Hs|Hs]; [discriminate H|].
  assert (Ei : i = n - 1) by lia. split; [|rewrite <- Ei; symmetry; exact Hn].
  rewrite <- Nat.negb_even. replace n with (S i) by lia. rewrite Nat.even_succ, <- Nat.negb_even, Ev. reflexivity.
Qed.
Lemma partner_none_unique r1 r2 : partner order r1 = Some None -> partner order r2 = Some None -> r1 = r2.
Proof. intros H1 H2. destruct (partner_none r1 H1) as [_ ->]. destruct (partner_none r2 H2) as [_ ->]. reflexivity. Qed.

(* the same pairing as the serial archipelago's: the rank that sits out is the serial one *)
Lemma partner_none_sit_out r : partner order r = Some None -> sit_out order = [r].
Proof.
  intros H. destruct (partner_none r H) as [Hodd ->]. destruct Hspec as (Hl & _ & _). clear perm Hspec H. revert n Hl Hodd.
  induction order as [order0 IH] using (well_founded_induction (Wf_nat.well_founded_ltof _ (@length nat))). intros m Hl Hodd.
  destruct order0 as [|a [|b r0]].
  - cbn in Hl. subst m. discriminate Hodd.
  - cbn in Hl. subst m. reflexivity.
  - cbn [sit_out]. cbn [length] in Hl. assert (Hm : m = S (S (length r0))) by lia. subst m.
    rewrite (IH r0 ltac:(unfold ltof; cbn; lia) (length r0) eq_refl ltac:(rewrite Nat.odd_succ, Nat.even_succ in Hodd; exact Hodd)).
    f_equal. replace (S (S (length r0)) - 1) with (S (S (length r0 - 1))) by (destruct r0; [discriminate Hodd|cbn; lia]). reflexivity.
Qed.
End P.

From Coq Require Import ZArith QArith List Bool Lia.
From Bingo Require Import Lib.Key Gen.Consts Model.Converge.
Import ListNotations.
Local Open Scope Z_scope.

(* ---------- the ordered exit test ---------- *)
Lemma check_exit_some c s e z : check_exit c s e = Some z ->
  (z = 0 /\ crit_convergence c s = true) \/
  (crit_convergence c s = false /\
    ((z = 1 /\ crit_stagnation c s = true) \/
     (z = 3 /\ crit_stagnation c s = false /\ crit_evals c s = true) \/
     (z = 4 /\ crit_stagnation c s = false /\ crit_evals c s = false /\ crit_time c s = true) \/
     (z = 5 /\ crit_stagnation c s = false /\ crit_evals c s = false /\ crit_time c s = false /\ crit_no_time e = true))).
Proof.
  unfold check_exit, exit_status_order.
  destruct (crit_convergence c s), (crit_stagnation c s), (crit_evals c s), (crit_time c s), (crit_no_time e);
    intros [= <-]; tauto.
Qed.

Lemma check_exit_none c s e : check_exit c s e = None <->
  crit_convergence c s = false /\ crit_stagnation c s = false /\ crit_evals c s = false /\
  crit_time c s = false /\ crit_no_time e = false.
Proof.
  unfold check_exit, exit_status_order.
  destruct (crit_convergence c s), (crit_stagnation c s), (crit_evals c s), (crit_time c s), (crit_no_time e);
    split; try discriminate; try tauto; intros (?&?&?&?&?); discriminate.
Qed.

(* ---------- what a returned result says ---------- *)
Record truthful (c : cfg) (r : result) (s : st) : Prop := {
  t_ngen : r_ngen r = age s - start_age s;
  t_fit : r_fitness r = best s;
  t_succ : r_success r = (r_status r =? 0);
  t_range : In (r_status r) [0; 1; 2; 3; 4; 5];
  t_0 : r_status r = 0 -> crit_convergence c s = true;
  t_not0 : r_status r <> 0 -> crit_convergence c s = false;
  t_1 : r_status r = 1 -> crit_stagnation c s = true;
  t_2 : r_status r = 2 -> max_gen c <= age s - start_age s;
  t_3 : r_status r = 3 -> crit_evals c s = true;
  t_4 : r_status r = 4 -> crit_time c s = true;
  t_5 : r_status r = 5 -> exists e, estimate c s = Ok (Some e) /\ crit_no_time (Some e) = true
}.

Lemma crit_no_time_some e : crit_no_time e = true -> exists q, e = Some q.
Proof. destruct e; simpl; [eauto|discriminate]. Qed.

Lemma truthful_exit c s e z : estimate c s = Ok e -> check_exit c s e = Some z ->
  truthful c (make_result s z) s.
Proof.
  intros He Hc. apply check_exit_some in Hc.
  constructor; simpl; auto.
  - destruct Hc as [[-> _]|[_ [[-> _]|[[-> _]|[[-> _]|[-> _]]]]]]; simpl; auto 10.
  - intros ->. destruct Hc as [[_ H]|[_ [[E _]|[[E _]|[[E _]|[E _]]]]]]; auto; discriminate.
  - intros Hz. destruct Hc as [[E _]|[H _]]; auto. congruence.
  - intros ->. destruct Hc as [[E _]|[_ [[_ H]|[[E _]|[[E _]|[E _]]]]]]; auto; discriminate.
  - intros ->. destruct Hc as [[E _]|[_ [[E _]|[[E _]|[[E _]|[E _]]]]]]; discriminate.
  - intros ->. destruct Hc as [[E _]|[_ [[E _]|[[_ [_ H]]|[[E _]|[E _]]]]]]; auto; discriminate.
  - intros ->. destruct Hc as [[E _]|[_ [[E _]|[[E _]|[[_ [_ [_ H]]]|[E _]]]]]]; auto; discriminate.
  - intros ->. destruct Hc as [[E _]|[_ [[E _]|[[E _]|[[E _]|[_ (_ & _ & _ & H)]]]]]]; try discriminate.
    destruct (crit_no_time_some _ H) as [q ->]. eauto.
Qed.

(* ---------- one round ---------- *)
Lemma do_round_spec c s k tape s' tape' : do_round c s k tape = Ok (s', tape') ->
  age s' = age s + k /\ start_age s' = start_age s /\ exists w, tape = w :: tape'.
Proof.
  unfold do_round. destruct tape as [|w t]; [discriminate|]. intros [= <- <-]. simpl. eauto.
Qed.

Lemma gens_to_evolve_pos c s g : 1 <= freq c -> gens_to_evolve c s = Ok g -> 1 <= g.
Proof.
  intros Hf. unfold gens_to_evolve. destruct (max_time c); [|intros [= <-]; auto].
  destruct (estimate c s) as [[e|]| | |]; try discriminate; [|intros [= <-]; auto].
  destruct (Qlt_le_dec 1 e); intros [= <-]; lia.
Qed.

Lemma do_round_not_fuel c s k tape : do_round c s k tape <> OutOfFuel.
Proof. unfold do_round. destruct tape; discriminate. Qed.
Lemma estimate_not_fuel c s : estimate c s <> OutOfFuel.
Proof.
  unfold estimate. destruct (max_time c); [|discriminate]. destruct (speeds s); [discriminate|].
  destruct (Qeq_bool _ _); discriminate.
Qed.
Lemma gens_not_fuel c s : gens_to_evolve c s <> OutOfFuel.
Proof.
  unfold gens_to_evolve. destruct (max_time c); [|discriminate].
  pose proof (estimate_not_fuel c s) as H.
  destruct (estimate c s) as [[e|]| | |]; try discriminate; try congruence.
  destruct (Qlt_le_dec 1 e); discriminate.
Qed.

(* ---------- the minimum-generation loop ---------- *)
Definition min_event (c : cfg) (e : event) : Prop :=
  match e with EvEvolve k g false => k = freq c /\ g < min_gen c | _ => False end.

Lemma min_loop_spec c : 1 <= freq c -> forall fuel s tape s' tape' tr,
  min_loop fuel c s tape = Ok (s', tape', tr) ->
  min_gen c <= age s' - start_age s' /\ start_age s' = start_age s /\ age s <= age s' /\
  Forall (min_event c) tr /\
  (age s' - age s = fold_right (fun e a => match e with EvEvolve k _ _ => k + a | _ => a end) 0 tr).
Proof.
  intros Hf. induction fuel as [|f IH]; intros s tape s' tape' tr; cbn [min_loop];
    destruct (Z.ltb_spec (age s - start_age s) (min_gen c)) as [Hlt|Hge]; try discriminate.
  - intros [= <- <- <-]. repeat split; auto; try lia. simpl. lia.
  - destruct (do_round c s (freq c) tape) as [[s1 tape1]| | |] eqn:Er; try discriminate.
    destruct (min_loop f c s1 tape1) as [[[s2 tape2] tr2]| | |] eqn:El; try discriminate.
    intros [= <- <- <-]. apply do_round_spec in Er as (A1 & A2 & _).
    destruct (IH _ _ _ _ _ El) as (B1 & B2 & B3 & B4 & B5).
    split; [lia|]. split; [congruence|]. split; [lia|]. split; [constructor; auto; simpl; auto|]. simpl. lia.
  - intros [= <- <- <-]. repeat split; auto; try lia. simpl. lia.
Qed.

Lemma min_loop_fuel c : 1 <= freq c -> forall fuel s tape,
  min_gen c - (age s - start_age s) < Z.of_nat fuel -> min_loop fuel c s tape <> OutOfFuel.
Proof.
  intros Hf. induction fuel as [|f IH]; intros s tape Hm; cbn [min_loop];
    destruct (Z.ltb_spec (age s - start_age s) (min_gen c)) as [Hlt|Hge]; try discriminate;
    try (exfalso; simpl in Hm; lia).
  pose proof (do_round_not_fuel c s (freq c) tape) as NF.
  destruct (do_round c s (freq c) tape) as [[s1 tape1]| | |] eqn:Er; try discriminate; try congruence.
  apply do_round_spec in Er as (A1 & A2 & _).
  specialize (IH s1 tape1 ltac:(lia)).
  destruct (min_loop f c s1 tape1) as [[[s2 tape2] tr2]| | |]; try discriminate. assumption.
Qed.

(* ---------- the main loop ---------- *)
(* allowed shapes of the event list of the main loop: rounds, each followed by a check; an exiting
   check is the last event; every round starts below max_generations and evolves >= 1 generation *)
Inductive main_shape (c : cfg) : list event -> Prop :=
| ms_done : main_shape c []
| ms_exit k g z : g < max_gen c -> 1 <= k -> main_shape c [EvEvolve k g true; EvCheck (Some z)]
| ms_round k g tr : g < max_gen c -> 1 <= k -> main_shape c tr ->
                    main_shape c (EvEvolve k g true :: EvCheck None :: tr).

Lemma main_loop_spec c : 1 <= freq c -> forall fuel s tape r s' tr,
  crit_convergence c s = false ->
  main_loop fuel c s tape = Ok (r, s', tr) ->
  truthful c r s' /\ start_age s' = start_age s /\ age s <= age s' /\ main_shape c tr.
Proof.
  intros Hf. induction fuel as [|f IH]; intros s tape r s' tr Hc; cbn [main_loop];
    destruct (Z.ltb_spec (age s - start_age s) (max_gen c)) as [Hlt|Hge]; try discriminate.
  - intros [= <- <- <-]. split; [|repeat split; auto; try lia; constructor].
    constructor; simpl; auto; unfold fallthrough_status; try discriminate; auto 10.
  - destruct (gens_to_evolve c s) as [g| | |] eqn:Eg; try discriminate.
    pose proof (gens_to_evolve_pos c s g Hf Eg) as Hg.
    destruct (do_round c s g tape) as [[s1 tape1]| | |] eqn:Er; try discriminate.
    apply do_round_spec in Er as (A1 & A2 & _).
    destruct (estimate c s1) as [e| | |] eqn:Ee; try discriminate.
    destruct (check_exit c s1 e) as [z|] eqn:Ec.
    + intros [= <- <- <-]. split; [eapply truthful_exit; eauto|].
      split; [auto|]. split; [lia|]. constructor; auto; lia.
    + destruct (main_loop f c s1 tape1) as [[[r2 s2] tr2]| | |] eqn:El; try discriminate.
      intros [= <- <- <-]. apply check_exit_none in Ec as (C0 & _).
      destruct (IH _ _ _ _ _ C0 El) as (T & B2 & B3 & B4).
      split; [auto|]. split; [congruence|]. split; [lia|]. constructor; auto; lia.
  - intros [= <- <- <-]. split; [|repeat split; auto; try lia; constructor].
    constructor; simpl; auto; unfold fallthrough_status; try discriminate; auto 10.
Qed.

Lemma main_loop_fuel c : 1 <= freq c -> forall fuel s tape,
  max_gen c - (age s - start_age s) < Z.of_nat fuel -> main_loop fuel c s tape <> OutOfFuel.
Proof.
  intros Hf. induction fuel as [|f IH]; intros s tape Hm; cbn [main_loop];
    destruct (Z.ltb_spec (age s - start_age s) (max_gen c)) as [Hlt|Hge]; try discriminate;
    try (exfalso; simpl in Hm; lia).
  pose proof (gens_not_fuel c s) as NG.
  destruct (gens_to_evolve c s) as [g| | |] eqn:Eg; try discriminate; try congruence.
  pose proof (gens_to_evolve_pos c s g Hf Eg) as Hg.
  pose proof (do_round_not_fuel c s g tape) as NF.
  destruct (do_round c s g tape) as [[s1 tape1]| | |] eqn:Er; try discriminate; try congruence.
  apply do_round_spec in Er as (A1 & A2 & _).
  pose proof (estimate_not_fuel c s1) as NE.
  destruct (estimate c s1) as [e| | |]; try discriminate; try congruence.
  destruct (check_exit c s1 e); try discriminate.
  specialize (IH s1 tape1 ltac:(lia)).
  destruct (main_loop f c s1 tape1) as [[[r2 s2] tr2]| | |]; try discriminate. assumption.
Qed.

(* ---------- the whole call ---------- *)
Definition cfg_ok (c : cfg) : Prop := 1 <= max_gen c /\ 0 <= min_gen c /\ 1 <= freq c.

Definition call_shape (c : cfg) (tr : list event) : Prop :=
  exists mins chk mains, tr = mins ++ EvCheck chk :: mains /\ Forall (min_event c) mins /\
    match chk with Some _ => mains = [] | None => main_shape c mains end.

Theorem euc_spec c s0 tape r s' tr : cfg_ok c -> euc c s0 tape = Ok (r, s', tr) ->
  truthful c r s' /\ start_age s' = age s0 /\ min_gen c <= r_ngen r /\ call_shape c tr.
Proof.
  intros (H1 & H2 & H3). unfold euc.
  destruct (min_loop _ c (enter s0) tape) as [[[s3 tape3] trm]| | |] eqn:Em; try discriminate.
  destruct (min_loop_spec c H3 _ _ _ _ _ _ Em) as (M1 & M2 & M3 & M4 & _).
  assert (Hs : start_age (enter s0) = age s0) by reflexivity.
  destruct (estimate c s3) as [e| | |] eqn:Ee; try discriminate.
  destruct (check_exit c s3 e) as [z|] eqn:Ec.
  - intros [= <- <- <-]. pose proof (truthful_exit _ _ _ _ Ee Ec) as T.
    split; auto. split; [congruence|]. split; [rewrite (t_ngen _ _ _ T); auto|].
    exists trm, (Some z), []. auto.
  - destruct (main_loop _ c s3 tape3) as [[[r4 s4] tr4]| | |] eqn:El; try discriminate.
    intros [= <- <- <-]. apply check_exit_none in Ec as (C0 & _).
    destruct (main_loop_spec c H3 _ _ _ _ _ _ C0 El) as (T & B2 & B3 & B4).
    split; auto. split; [congruence|]. split; [rewrite (t_ngen _ _ _ T); lia|].
    exists trm, None, tr4. auto.
Qed.

Theorem euc_always_returns c s0 tape : cfg_ok c -> euc c s0 tape <> OutOfFuel.
Proof.
  intros (H1 & H2 & H3). unfold euc.
  pose proof (min_loop_fuel c H3 (S (Z.to_nat (min_gen c))) (enter s0) tape) as F1.
  destruct (min_loop _ c (enter s0) tape) as [[[s3 tape3] trm]| | |] eqn:Em; try discriminate.
  2:{ exfalso. apply F1; auto. change (age (enter s0) - start_age (enter s0)) with (age s0 - age s0). lia. }
  destruct (min_loop_spec c H3 _ _ _ _ _ _ Em) as (M1 & M2 & M3 & _).
  pose proof (estimate_not_fuel c s3) as NE.
  destruct (estimate c s3) as [e| | |]; try discriminate; try congruence.
  destruct (check_exit c s3 e); try discriminate.
  pose proof (main_loop_fuel c H3 (S (Z.to_nat (max_gen c))) s3 tape3 ltac:(lia)) as F2.
  destruct (main_loop _ c s3 tape3) as [[[r4 s4] tr4]| | |]; try discriminate. assumption.
Qed.

(* success is reported exactly when the best fitness is at or below the threshold *)
Corollary success_iff c r s : truthful c r s -> (r_success r = true <-> crit_convergence c s = true).
Proof.
  intros T. rewrite (t_succ _ _ _ T). split.
  - intros H. apply Z.eqb_eq in H. apply (t_0 _ _ _ T); auto.
  - intros H. destruct (Z.eqb_spec (r_status r) 0); auto.
    rewrite (t_not0 _ _ _ T) in H; auto.
Qed.

(* the improvement age is only moved by a strict improvement (or a first / NaN->number best) *)
Lemma update_best_improve s : improve_age (update_best s) = age s \/
  (improve_age (update_best s) = improve_age s /\ improved (best s) (cur_best s) = false).
Proof. unfold update_best. simpl. destruct (improved (best s) (cur_best s)); auto. Qed.

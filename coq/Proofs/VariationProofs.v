(* Proofs for Model/Variation.v (property C04). *)
From Coq Require Import ZArith List Bool Lia Arith.
From Bingo Require Import Gen.OpDefs Gen.VarConsts Model.Stack Model.AGraphObj Model.Variation Proofs.AGraphObjProofs Proofs.ReduceProofs.
Import ListNotations.
Local Open Scope Z_scope.

(* ---------- the tape monad ---------- *)
Lemma bind_ok {A B} (m : M A) (f : A -> M B) t b t' :
  bind m f t = Ok b t' -> exists a t1, m t = Ok a t1 /\ f a t1 = Ok b t'.
Proof. unfold bind. destruct (m t) as [a t1| |]; try discriminate. intros H. exists a, t1. split; [reflexivity|exact H]. Qed.
Lemma ret_ok {A} (a b : A) t t' : ret a t = Ok b t' -> a = b /\ t = t'.
Proof. unfold ret. intros H. injection H as -> ->. split; reflexivity. Qed.
Lemma draw_range_ok lo hi t v t' : draw_range lo hi t = Ok v t' -> lo <= v < hi /\ t = v :: t'.
Proof.
  unfold draw_range. destruct (hi <=? lo); [discriminate|]. destruct t as [|x r]; [discriminate|].
  destruct ((lo <=? x) && (x <? hi)) eqn:E; [|discriminate]. intros H. injection H as -> ->.
  apply andb_prop in E as [E1 E2]. split; [lia|reflexivity].
Qed.
Lemma draw_below_ok n t v t' : draw_below n t = Ok v t' -> 0 <= v < n.
Proof. intros H. apply draw_range_ok in H. tauto. Qed.
Lemma pmf_draw_ok items t v t' : pmf_draw items t = Ok v t' -> In v items.
Proof.
  unfold pmf_draw. intros H. apply bind_ok in H as (k & t1 & Hk & Hr). apply draw_below_ok in Hk. apply ret_ok in Hr as [<- _].
  apply nth_In. lia.
Qed.
Lemma choice_ok items t v t' : choice items t = Ok v t' -> In v items.
Proof.
  unfold choice. intros H. apply bind_ok in H as (k & t1 & Hk & Hr). apply draw_below_ok in Hk. apply ret_ok in Hr as [<- _].
  apply nth_In. lia.
Qed.

Ltac inv_bind H :=
  let a := fresh "a" in let t1 := fresh "t" in let H1 := fresh "Hd" in
  apply bind_ok in H as (a & t1 & H1 & H).

(* ---------- well-formed rows ---------- *)
Section P.
Variable c : cfg.
Hypothesis Hcfg : cfg_ok c = true.

Lemma ops_are_operators o : In o (c_ops c) -> is_terminal o = false /\ existsb (Z.eqb o) (c_ops c) = true.
Proof.
  intros Hin. unfold cfg_ok in Hcfg. rewrite forallb_forall in Hcfg. specialize (Hcfg _ Hin).
  apply andb_prop in Hcfg as [H1 _]. apply negb_true_iff in H1. split; [exact H1|].
  apply existsb_exists. exists o. split; [exact Hin|apply Z.eqb_refl].
Qed.

Lemma row_ok_terminal i n p : (n = CONSTANT \/ n = INTEGER \/ (n = VARIABLE /\ 0 <= p < cD c)) -> row_ok c i (n, p, p) = true.
Proof.
  unfold row_ok, node_of, p1_of; cbn [fst snd]. intros [-> | [-> | [-> H]]]; cbn; try reflexivity.
  apply andb_true_intro. split; [apply Z.leb_le|apply Z.ltb_lt]; lia.
Qed.
Lemma row_ok_operator i o p1 p2 : In o (c_ops c) -> 0 <= p1 < i -> 0 <= p2 < i -> row_ok c i (o, p1, p2) = true.
Proof.
  intros Hin H1 H2. destruct (ops_are_operators o Hin) as [T E]. unfold row_ok, node_of, p1_of, p2_of; cbn [fst snd].
  rewrite T, E. cbn [andb]. repeat (apply andb_true_intro; split); try apply Z.leb_le; try apply Z.ltb_lt; lia.
Qed.

Lemma random_terminal_parameter_ok n t p t' : random_terminal_parameter c n t = Ok p t' ->
  (n = 0 /\ 0 <= p < cD c) \/ (n <> 0 /\ p = -1).
Proof.
  unfold random_terminal_parameter. destruct (Z.eqb_spec n 0) as [E|E]; intros H.
  - left. split; [exact E|]. eapply draw_below_ok; exact H.
  - right. apply ret_ok in H as [<- _]. split; [exact E|reflexivity].
Qed.
Lemma random_terminal_ok t n t' : random_terminal t = Ok n t' -> n = CONSTANT \/ n = VARIABLE.
Proof. intros H. apply pmf_draw_ok in H. cbn in H. destruct H as [<-|[<-|[]]]; [left|right]; reflexivity. Qed.
Lemma random_terminal_command_ok t r t' i : random_terminal_command c t = Ok r t' ->
  row_ok c i r = true /\ is_terminal (node_of r) = true.
Proof.
  unfold random_terminal_command. intros H. inv_bind H. inv_bind H. apply ret_ok in H as [<- _].
  apply random_terminal_ok in Hd. apply random_terminal_parameter_ok in Hd0.
  destruct Hd as [-> | ->]; (split; [apply row_ok_terminal|reflexivity]).
  - left; reflexivity.
  - right; right. split; [reflexivity|]. destruct Hd0 as [[_ H]|[N _]]; [exact H|exfalso; apply N; reflexivity].
Qed.
Lemma random_operator_ok t o t' : random_operator c t = Ok o t' -> In o (c_ops c).
Proof. apply pmf_draw_ok. Qed.
Lemma random_operator_command_ok loc t r t' : random_operator_command c loc t = Ok r t' -> row_ok c loc r = true.
Proof.
  unfold random_operator_command. intros H. inv_bind H. inv_bind H. inv_bind H. apply ret_ok in H as [<- _].
  apply row_ok_operator; [eapply random_operator_ok; exact Hd|eapply draw_below_ok; exact Hd0|eapply draw_below_ok; exact Hd1].
Qed.
Lemma random_command_ok loc t r t' : random_command c loc t = Ok r t' -> row_ok c loc r = true.
Proof.
  unfold random_command. destruct (loc <? c_init c); intros H.
  - eapply random_terminal_command_ok; exact H.
  - inv_bind H. destruct (a =? 0); [eapply random_terminal_command_ok; exact H|eapply random_operator_command_ok; exact H].
Qed.
(* the forced load rows *)
Lemma random_command_initial loc t r t' : loc < c_init c -> random_command c loc t = Ok r t' -> is_terminal (node_of r) = true.
Proof.
  unfold random_command. intros L. apply Z.ltb_lt in L. rewrite L. intros H. eapply (random_terminal_command_ok _ _ _ 0); exact H.
Qed.

(* ---------- rows_ok ---------- *)
Lemma rows_ok_app i a b : rows_ok c i (a ++ b) = rows_ok c i a && rows_ok c (i + Z.of_nat (length a)) b.
Proof.
  revert i; induction a as [|r a IH]; intros i; cbn [app rows_ok length].
  - rewrite Z.add_0_r. reflexivity.
  - rewrite IH. rewrite <- andb_assoc. do 3 f_equal. lia.
Qed.
Lemma rows_ok_nth i s k : rows_ok c i s = true -> (k < length s)%nat -> row_ok c (i + Z.of_nat k) (nth k s dcmd) = true.
Proof.
  revert i k; induction s as [|r s IH]; intros i k H L; [cbn in L; lia|].
  cbn [rows_ok] in H. apply andb_prop in H as [H1 H2]. destruct k as [|k]; cbn [nth].
  - rewrite Z.add_0_r. exact H1.
  - replace (i + Z.of_nat (S k)) with (i + 1 + Z.of_nat k) by lia. apply IH; [exact H2|cbn in L; lia].
Qed.
Lemma rows_ok_upd i s k r : rows_ok c i s = true -> row_ok c (i + Z.of_nat k) r = true -> rows_ok c i (upd s k r) = true.
Proof.
  revert i k; induction s as [|x s IH]; intros i k H R; [destruct k; exact H|].
  cbn [rows_ok] in H. apply andb_prop in H as [H1 H2]. destruct k as [|k]; cbn [upd rows_ok].
  - rewrite Z.add_0_r in R. rewrite R, H2. reflexivity.
  - rewrite H1. cbn [andb]. apply IH; [exact H2|]. replace (i + 1 + Z.of_nat k) with (i + Z.of_nat (S k)) by lia. exact R.
Qed.
Lemma wfr_upd s k r : wfr c s = true -> row_ok c (Z.of_nat k) r = true -> wfr c (upd s k r) = true.
Proof.
  unfold wfr. destruct s as [|x s]; [discriminate|]. intros H R.
  assert (rows_ok c 0 (upd (x :: s) k r) = true) by (apply rows_ok_upd; [exact H|exact R]).
  destruct (upd (x :: s) k r) eqn:E; [|assumption]. destruct k; discriminate E.
Qed.
Lemma wfr_rows s : wfr c s = true -> rows_ok c 0 s = true /\ s <> [].
Proof. unfold wfr. destruct s; [discriminate|]. intros H. split; [exact H|discriminate]. Qed.
Lemma rows_wfr s : rows_ok c 0 s = true -> s <> [] -> wfr c s = true.
Proof. unfold wfr. destruct s; [congruence|]. intros H _. exact H. Qed.

(* ---------- the generator ---------- *)
Lemma gen_rows_ok n : forall i t s t', gen_rows c n i t = Ok s t' -> rows_ok c i s = true /\ length s = n.
Proof.
  induction n as [|n IH]; intros i t s t' H; cbn [gen_rows] in H.
  - apply ret_ok in H as [<- _]. split; reflexivity.
  - inv_bind H. inv_bind H. apply ret_ok in H as [<- _]. destruct (IH _ _ _ _ Hd0) as [R L].
    cbn [rows_ok length]. rewrite (random_command_ok _ _ _ _ Hd), R, L. split; reflexivity.
Qed.
Theorem generate_wf size t s t' : (0 < size)%nat -> generate c size t = Ok s t' -> wfr c s = true /\ length s = size.
Proof.
  intros P H. destruct (gen_rows_ok _ _ _ _ _ H) as [R L]. split; [|exact L]. apply rows_wfr; [exact R|].
  intros ->. cbn in L. lia.
Qed.
Lemma gen_rows_initial n : forall i t s t' k, gen_rows c n i t = Ok s t' -> (k < n)%nat -> i + Z.of_nat k < c_init c ->
  is_terminal (node_of (nth k s dcmd)) = true.
Proof.
  induction n as [|n IH]; intros i t s t' k H L I; [lia|]. cbn [gen_rows] in H.
  inv_bind H. inv_bind H. apply ret_ok in H as [<- _]. destruct k as [|k]; cbn [nth].
  - eapply random_command_initial; [|exact Hd]. lia.
  - eapply IH; [exact Hd0|lia|lia].
Qed.

(* ---------- picking a location ---------- *)
Lemma idx_where_from_In {A} (f : nat -> A -> bool) l : forall i k, In k (idx_where_from f i l) ->
  exists x, nth_error l (k - i) = Some x /\ f k x = true /\ (i <= k)%nat.
Proof.
  induction l as [|x l IH]; intros i k H; cbn [idx_where_from] in H; [destruct H|].
  assert (Rest : In k (idx_where_from f (S i) l) -> exists y, nth_error (x :: l) (k - i) = Some y /\ f k y = true /\ (i <= k)%nat).
  { intros H'. destruct (IH _ _ H') as (y & N & F & L). exists y. split; [|split; [exact F|lia]].
    replace (k - i)%nat with (S (k - S i)) by lia. exact N. }
  destruct (f i x) eqn:E; [destruct H as [<-|H]|]; auto.
  exists x. rewrite Nat.sub_diag. split; [reflexivity|split; [exact E|lia]].
Qed.
Lemma nth_error_combine {A B} (a : list A) (b : list B) k x y :
  nth_error (combine a b) k = Some (x, y) -> nth_error a k = Some x /\ nth_error b k = Some y.
Proof.
  revert b k; induction a as [|u a IH]; intros b k H; [destruct k; discriminate H|].
  destruct b as [|v b]; [destruct k; discriminate H|]. destruct k as [|k]; cbn in *.
  - injection H as -> ->. split; reflexivity.
  - apply IH; exact H.
Qed.
Lemma loc_facts (f : nat -> cmd * bool -> bool) (s : stack) (u : list bool) loc :
  In loc (idx_where f (combine s u)) ->
  exists r b, nth_error s loc = Some r /\ nth_error u loc = Some b /\ f loc (r, b) = true.
Proof.
  intros H. destruct (idx_where_from_In _ _ _ _ H) as ([r b] & N & F & _). rewrite Nat.sub_0_r in N.
  apply nth_error_combine in N as [N1 N2]. exists r, b. auto.
Qed.
Lemma nth_error_removelast {A} (l : list A) k x : nth_error (removelast l) k = Some x -> nth_error l k = Some x.
Proof.
  revert k; induction l as [|y l IH]; intros k H; [destruct k; discriminate H|].
  destruct l as [|z l]; [destruct k; discriminate H|]. cbn [removelast] in H. destruct k as [|k]; [exact H|].
  cbn [nth_error] in *. apply IH. exact H.
Qed.
Lemma wfr_row s loc r : wfr c s = true -> nth_error s loc = Some r -> row_ok c (Z.of_nat loc) r = true /\ nth loc s dcmd = r /\ (loc < length s)%nat.
Proof.
  intros W N. destruct (wfr_rows s W) as [R _].
  assert (L : (loc < length s)%nat) by (apply nth_error_Some; congruence).
  assert (E : nth loc s dcmd = r) by (apply nth_error_nth; exact N).
  split; [|split; [exact E|exact L]]. rewrite <- E. apply (rows_ok_nth 0 s loc R L).
Qed.

Definition mut_spec (s : stack) (m : M (stack * bool)) : Prop :=
  forall t s' w t', m t = Ok (s', w) t' -> wfr c s' = true /\ length s' = length s /\ (w = false -> s' = s).

(* ---------- _mutate_command ---------- *)
Lemma cmd_loop_ok loc old : forall fuel new t r t', row_ok c loc new = true ->
  cmd_loop c loc old fuel new t = Ok (Some r) t' -> row_ok c loc r = true.
Proof.
  induction fuel as [|f IH]; intros new t r t' R H; cbn [cmd_loop] in H; destruct (bad_command old new).
  - apply ret_ok in H as [H _]. discriminate H.
  - apply ret_ok in H as [H _]. injection H as <-. exact R.
  - inv_bind H. eapply IH; [eapply random_command_ok; exact Hd|exact H].
  - apply ret_ok in H as [H _]. injection H as <-. exact R.
Qed.
Theorem mutate_command_spec s : wfr c s = true -> mut_spec s (mutate_command c s).
Proof.
  intros W t s' w t' H. unfold mutate_command in H. inv_bind H. inv_bind H. inv_bind H.
  apply choice_ok in Hd. apply loc_facts in Hd as (r & b & N & _ & _). destruct (wfr_row _ _ _ W N) as (R & E & L).
  destruct a1 as [n|]; apply ret_ok in H as [H _]; injection H as <- <-.
  - split; [|split; [apply upd_length|discriminate]]. apply wfr_upd; [exact W|].
    eapply cmd_loop_ok; [eapply random_command_ok; exact Hd0|exact Hd1].
  - split; [exact W|split; reflexivity].
Qed.

(* ---------- _mutate_node ---------- *)
Lemma randomize_node_ok loc cm t r t' : row_ok c loc cm = true -> randomize_node c cm t = Ok r t' -> row_ok c loc r = true.
Proof.
  unfold randomize_node. intros R H. destruct (is_terminal (node_of cm)) eqn:T.
  - change (random_terminal_command c t = Ok r t') in H. eapply random_terminal_command_ok; exact H.
  - inv_bind H. apply ret_ok in H as [<- _]. apply random_operator_ok in Hd.
    unfold row_ok in R. rewrite T in R. apply andb_prop in R as [R P4]. apply andb_prop in R as [R P3].
    apply andb_prop in R as [R P2]. apply andb_prop in R as [_ P1].
    apply row_ok_operator; [exact Hd|split; [apply Z.leb_le|apply Z.ltb_lt]; assumption|split; [apply Z.leb_le|apply Z.ltb_lt]; assumption].
Qed.
Lemma node_loop_ok loc old : forall fuel new t r t', row_ok c loc new = true ->
  node_loop c old fuel new t = Ok (Some r) t' -> row_ok c loc r = true.
Proof.
  induction fuel as [|f IH]; intros new t r t' R H; cbn [node_loop] in H; destruct (node_of old =? node_of new).
  - apply ret_ok in H as [H _]. discriminate H.
  - apply ret_ok in H as [H _]. injection H as <-. exact R.
  - inv_bind H. eapply IH; [eapply randomize_node_ok; [exact R|exact Hd]|exact H].
  - apply ret_ok in H as [H _]. injection H as <-. exact R.
Qed.
Theorem mutate_node_spec s : wfr c s = true -> mut_spec s (mutate_node c s).
Proof.
  intros W t s' w t' H. unfold mutate_node in H. inv_bind H. inv_bind H.
  apply choice_ok in Hd. apply loc_facts in Hd as (r & b & N & _ & _). destruct (wfr_row _ _ _ W N) as (R & E & L).
  destruct a0 as [n|]; apply ret_ok in H as [H _]; injection H as <- <-.
  - split; [|split; [apply upd_length|discriminate]]. apply wfr_upd; [exact W|].
    eapply node_loop_ok; [|exact Hd0]. rewrite E. exact R.
  - split; [exact W|split; reflexivity].
Qed.

(* ---------- _mutate_parameters ---------- *)
Lemma randomize_parameters_ok loc cm t r t' : row_ok c loc cm = true -> randomize_parameters c cm loc t = Ok r t' -> row_ok c loc r = true.
Proof.
  unfold randomize_parameters. intros R H. destruct (is_terminal (node_of cm)) eqn:T.
  - inv_bind H. apply ret_ok in H as [<- _]. apply random_terminal_parameter_ok in Hd.
    apply row_ok_terminal. destruct (is_terminal_true _ T) as [E|[E|E]].
    + right; left; exact E.
    + right; right. split; [exact E|]. destruct Hd as [[_ P]|[N _]]; [exact P|exfalso; apply N; exact E].
    + left; exact E.
  - unfold row_ok in R. rewrite T in R. apply andb_prop in R as [R P4]. apply andb_prop in R as [R P3].
    apply andb_prop in R as [R P2]. apply andb_prop in R as [Hop P1].
    assert (Hin : In (node_of cm) (c_ops c)).
    { apply existsb_exists in Hop as (o & Ho & Eo). apply Z.eqb_eq in Eo. subst o. exact Ho. }
    inv_bind H. apply draw_below_ok in Hd. destruct (is_arity_2 (node_of cm)).
    + inv_bind H. apply draw_below_ok in Hd0. apply ret_ok in H as [<- _]. apply row_ok_operator; assumption.
    + apply ret_ok in H as [<- _]. apply row_ok_operator; [exact Hin|exact Hd|].
      split; [apply Z.leb_le|apply Z.ltb_lt]; assumption.
Qed.
Lemma param_loop_ok loc old : forall fuel new t r t', row_ok c loc new = true ->
  param_loop c loc old fuel new t = Ok r t' -> row_ok c loc r = true.
Proof.
  induction fuel as [|f IH]; intros new t r t' R H; cbn [param_loop] in H; destruct (cmd_eqb old new).
  - discriminate H.
  - apply ret_ok in H as [<- _]. exact R.
  - inv_bind H. eapply IH; [eapply randomize_parameters_ok; [exact R|exact Hd]|exact H].
  - apply ret_ok in H as [<- _]. exact R.
Qed.
Theorem mutate_parameters_spec s : wfr c s = true -> mut_spec s (mutate_parameters c s).
Proof.
  intros W t s' w t' H. unfold mutate_parameters in H.
  match type of H with context [existsb (Nat.eqb 1) ?L] => set (inds0 := L) in H end.
  match type of H with (match ?L with _ => _ end) _ = _ => set (inds := L) in H end.
  assert (Sub : forall k, In k inds -> In k inds0).
  { intros k. unfold inds. destruct (_ && _); [|auto]. intros Hk. apply filter_In in Hk. tauto. }
  destruct inds as [|i0 rest] eqn:Ei.
  - apply ret_ok in H as [H _]. injection H as <- <-. split; [exact W|split; reflexivity].
  - inv_bind H. apply choice_ok in Hd. apply Sub in Hd. apply loc_facts in Hd as (r & b & N & _ & _).
    destruct (wfr_row _ _ _ W N) as (R & E & L).
    inv_bind H. apply ret_ok in H as [H _]. injection H as <- <-.
    split; [|split; [apply upd_length|discriminate]]. apply wfr_upd; [exact W|].
    eapply param_loop_ok; [|exact Hd]. rewrite E. exact R.
Qed.

(* ---------- _prune_branch ---------- *)
Lemma row_ok_operator_inv i r : is_terminal (node_of r) = false -> row_ok c i r = true ->
  In (node_of r) (c_ops c) /\ 0 <= p1_of r < i /\ 0 <= p2_of r < i.
Proof.
  intros T R. unfold row_ok in R. rewrite T in R. apply andb_prop in R as [R P4]. apply andb_prop in R as [R P3].
  apply andb_prop in R as [R P2]. apply andb_prop in R as [Hop P1].
  apply existsb_exists in Hop as (o & Ho & Eo). apply Z.eqb_eq in Eo. subst o.
  apply Z.leb_le in P1, P3. apply Z.ltb_lt in P2, P4. auto.
Qed.
Lemma prune_rows_length loc pr : forall s i, length (prune_rows loc pr i s) = length s.
Proof. induction s as [|r s IH]; intros i; cbn [prune_rows length]; [reflexivity|rewrite IH; reflexivity]. Qed.
Lemma prune_rows_ok loc pr : 0 <= pr < loc -> forall s i, rows_ok c i s = true -> rows_ok c i (prune_rows loc pr i s) = true.
Proof.
  intros P. induction s as [|r s IH]; intros i H; [reflexivity|]. cbn [rows_ok] in H. apply andb_prop in H as [H1 H2].
  cbn [prune_rows rows_ok]. rewrite (IH _ H2), andb_true_r.
  destruct (loc <=? i) eqn:L; [|exact H1]. destruct (is_terminal (node_of r)) eqn:T; [exact H1|]. cbn [andb negb].
  apply Z.leb_le in L. destruct (row_ok_operator_inv _ _ T H1) as (Hin & B1 & B2).
  apply row_ok_operator; [exact Hin| |].
  - destruct (p1_of r =? loc); lia.
  - destruct (p2_of r =? loc); lia.
Qed.
Lemma prune_no_write loc pr : forall s i, prune_writes loc i s = false -> prune_rows loc pr i s = s.
Proof.
  induction s as [|r s IH]; intros i H; [reflexivity|]. cbn [prune_writes] in H. apply orb_false_iff in H as [H1 H2].
  cbn [prune_rows]. rewrite (IH _ H2). f_equal.
  destruct ((loc <=? i) && negb (is_terminal (node_of r))); [|reflexivity]. cbn [andb] in H1.
  apply orb_false_iff in H1 as [E1 E2]. rewrite E1, E2. destruct r as [[n a] b]. reflexivity.
Qed.
Theorem prune_branch_spec s : wfr c s = true -> mut_spec s (prune_branch s).
Proof.
  intros W t s' w t' H. unfold prune_branch in H.
  match type of H with (match ?L with _ => _ end) _ = _ => set (inds := L) in H end.
  assert (Sub : forall k, In k inds -> exists r b, nth_error (removelast s) k = Some r /\ nth_error (utilized s) k = Some b /\
                 (snd (r, b) && negb (is_terminal (node_of (fst (r, b))))) = true).
  { intros k Hk. apply loc_facts in Hk. exact Hk. }
  destruct inds as [|i0 rest] eqn:Ei.
  - apply ret_ok in H as [H _]. injection H as <- <-. split; [exact W|split; reflexivity].
  - inv_bind H. apply choice_ok in Hd. apply Sub in Hd as (r & b & N & _ & F).
    apply nth_error_removelast in N. destruct (wfr_row _ _ _ W N) as (R & E & L).
    cbn [fst snd] in F. apply andb_prop in F as [_ T]. apply negb_true_iff in T.
    destruct (row_ok_operator_inv _ _ T R) as (_ & B1 & B2).
    inv_bind H. apply ret_ok in H as [H _]. injection H as <- <-. rewrite E.
    assert (P : 0 <= (if a0 =? 0 then p1_of r else p2_of r) < Z.of_nat a) by (destruct (a0 =? 0); assumption).
    destruct (wfr_rows _ W) as [R0 NE].
    split; [|split; [apply prune_rows_length|intros Hw; apply prune_no_write; exact Hw]].
    apply rows_wfr; [apply prune_rows_ok; [exact P|exact R0]|].
    intros Hnil. apply (f_equal (@length cmd)) in Hnil. rewrite prune_rows_length in Hnil. destruct s; [congruence|discriminate Hnil].
Qed.

(* ---------- _fork_mutation ---------- *)
Lemma util_loop_length s : forall k u, length (util_loop s k u) = length u.
Proof.
  induction k as [|k IH]; intros u; cbn [util_loop]; [reflexivity|]. rewrite IH.
  destruct (nth (S k) u false && negb (is_terminal (node_of (nth (S k) s (0, 0, 0))))); [|reflexivity].
  destruct (is_arity_2 _); rewrite ?set_true_length; reflexivity.
Qed.
Lemma utilized_length s : length (utilized s) = length s.
Proof. unfold utilized. rewrite util_loop_length, updb_length, repeat_length. reflexivity. Qed.

Lemma tag_from_length : forall s u i, length u = length s -> length (tag_from i s u) = length s.
Proof.
  induction s as [|r s IH]; intros u i L; [reflexivity|]. destruct u as [|b u]; [discriminate L|].
  cbn [tag_from length]. rewrite IH; [reflexivity|]. cbn in L. lia.
Qed.
Lemma tag_from_rows (P : cmd -> bool) : forall s u i, forallb P s = true -> forallb (fun x => P (t_row x)) (tag_from i s u) = true.
Proof.
  induction s as [|r s IH]; intros u i H; [reflexivity|]. destruct u as [|b u]; [reflexivity|].
  cbn [forallb] in H. apply andb_prop in H as [H1 H2]. cbn [tag_from forallb]. unfold t_row at 1; cbn [fst].
  rewrite H1, (IH _ _ H2). reflexivity.
Qed.
Lemma tag_from_In : forall s u i k r b, nth_error s k = Some r -> nth_error u k = Some b -> In (r, b, (i + k)%nat) (tag_from i s u).
Proof.
  induction s as [|x s IH]; intros u i k r b N1 N2; [destruct k; discriminate N1|].
  destruct u as [|y u]; [destruct k; discriminate N2|]. destruct k as [|k]; cbn in N1, N2; cbn [tag_from].
  - injection N1 as ->. injection N2 as ->. left. rewrite Nat.add_0_r. reflexivity.
  - right. replace (i + S k)%nat with (S i + k)%nat by lia. apply IH; assumption.
Qed.
Lemma partition3_length (tg : list tagged) loc :
  (length (filter (fun x => t_util x && Nat.leb (t_idx x) loc) tg) + length (filter (fun x => negb (t_util x)) tg) +
   length (filter (fun x => t_util x && negb (Nat.leb (t_idx x) loc)) tg))%nat = length tg.
Proof.
  induction tg as [|x tg IH]; [reflexivity|]. cbn [filter].
  destruct (t_util x); destruct (Nat.leb (t_idx x) loc); cbn [andb negb length]; lia.
Qed.

Definition pre_ok (r : cmd) : bool :=
  let n := node_of r in
  if is_terminal n then (if n =? VARIABLE then (0 <=? p1_of r) && (p1_of r <? cD c) else true)
  else existsb (Z.eqb n) (c_ops c) && (0 <=? p1_of r) && (0 <=? p2_of r).
Definition col_lt (col : bool) (i : Z) (r : cmd) : bool := is_terminal (node_of r) || (col_of col r <? i).
Fixpoint cols_lt (col : bool) (i : Z) (s : stack) : bool :=
  match s with [] => true | r :: q => col_lt col i r && cols_lt col (i + 1) q end.

Lemma row_ok_pre i r : row_ok c i r = true -> pre_ok r = true.
Proof.
  unfold row_ok, pre_ok. destruct (is_terminal (node_of r)); [auto|]. intros R.
  apply andb_prop in R as [R P4]. apply andb_prop in R as [R P3]. apply andb_prop in R as [R P2]. apply andb_prop in R as [Hop P1].
  rewrite Hop, P1, P3. reflexivity.
Qed.
Lemma row_ok_join i r : pre_ok r = true -> col_lt false i r = true -> col_lt true i r = true -> row_ok c i r = true.
Proof.
  unfold row_ok, pre_ok, col_lt, col_of. destruct (is_terminal (node_of r)); [auto|]. cbn [orb]. intros R C1 C2.
  apply andb_prop in R as [R P3]. apply andb_prop in R as [Hop P1]. rewrite Hop, P1, P3, C1, C2. reflexivity.
Qed.
Lemma rows_ok_pre : forall s i, rows_ok c i s = true -> forallb pre_ok s = true.
Proof.
  induction s as [|r s IH]; intros i H; [reflexivity|]. cbn [rows_ok] in H. apply andb_prop in H as [H1 H2].
  cbn [forallb]. rewrite (row_ok_pre _ _ H1), (IH _ H2). reflexivity.
Qed.
Lemma rows_ok_join : forall s i, forallb pre_ok s = true -> cols_lt false i s = true -> cols_lt true i s = true -> rows_ok c i s = true.
Proof.
  induction s as [|r s IH]; intros i P C1 C2; [reflexivity|]. cbn [forallb cols_lt] in *.
  apply andb_prop in P as [P1 P2]. apply andb_prop in C1 as [A1 A2]. apply andb_prop in C2 as [B1 B2].
  cbn [rows_ok]. rewrite (row_ok_join _ _ P1 A1 B1), (IH _ P2 A2 B2). reflexivity.
Qed.

Lemma set_col_facts col r v : is_terminal (node_of r) = false -> pre_ok r = true -> 0 <= v ->
  pre_ok (set_col col r v) = true /\ col_of col (set_col col r v) = v /\ col_of (negb col) (set_col col r v) = col_of (negb col) r /\
  node_of (set_col col r v) = node_of r.
Proof.
  intros T P V. destruct r as [[n a] b]. unfold pre_ok, set_col, col_of, node_of, p1_of, p2_of in *; cbn [fst snd] in *.
  rewrite T in *. apply andb_prop in P as [P P3]. apply andb_prop in P as [Hop P1]. apply Z.leb_le in V.
  destruct col; cbn [negb fst snd]; rewrite ?T, Hop, ?P1, ?P3, ?V; repeat split; reflexivity.
Qed.
Lemma fix_rows_spec col : forall s i t s' t', 0 <= i -> forallb pre_ok s = true -> fix_rows col i s t = Ok s' t' ->
  length s' = length s /\ forallb pre_ok s' = true /\ cols_lt col i s' = true /\
  (cols_lt (negb col) i s = true -> cols_lt (negb col) i s' = true).
Proof.
  induction s as [|r s IH]; intros i t s' t' I P H; cbn [fix_rows] in H.
  - apply ret_ok in H as [<- _]. repeat split; auto.
  - cbn [forallb] in P. apply andb_prop in P as [P1 P2]. inv_bind H. inv_bind H. apply ret_ok in H as [<- _].
    destruct (IH (i + 1) _ _ _ ltac:(lia) P2 Hd0) as (L & Q & C & Cn).
    assert (Row : pre_ok a = true /\ col_lt col i a = true /\ (col_lt (negb col) i r = true -> col_lt (negb col) i a = true)).
    { unfold needs_fix in Hd. destruct (is_terminal (node_of r)) eqn:T; cbn [negb andb] in Hd.
      - apply ret_ok in Hd as [<- _]. unfold col_lt. rewrite T. auto.
      - destruct (i <=? col_of col r) eqn:E.
        + inv_bind Hd. apply ret_ok in Hd as [<- _]. apply draw_below_ok in Hd1.
          destruct (set_col_facts col r a1 T P1 ltac:(lia)) as (F1 & F2 & F3 & F4).
          unfold col_lt. rewrite F4, T, F2, F3. cbn [orb]. split; [exact F1|]. split; [apply Z.ltb_lt; lia|auto].
        + apply ret_ok in Hd as [<- _]. unfold col_lt. rewrite T. cbn [orb]. split; [exact P1|]. split; [|auto].
          apply Z.ltb_lt. apply Z.leb_gt in E. exact E. }
    destruct Row as (R1 & R2 & R3). cbn [length forallb cols_lt]. rewrite L, R1, Q, R2, C. repeat split; auto.
    intros Hn. apply andb_prop in Hn as [N1 N2]. rewrite (R3 N1), (Cn N2). reflexivity.
Qed.
Lemma fix_col_spec col s t s' t' : forallb pre_ok s = true -> fix_col col s t = Ok s' t' ->
  length s' = length s /\ forallb pre_ok s' = true /\ cols_lt col 0 s' = true /\
  (cols_lt (negb col) 0 s = true -> cols_lt (negb col) 0 s' = true).
Proof.
  intros P H. unfold fix_col in H. destruct (first_fix col 0 s) as [f|] eqn:F.
  - inv_bind H. eapply fix_rows_spec; [lia|exact P|exact H].
  - apply ret_ok in H as [<- _]. split; [reflexivity|]. split; [exact P|]. split; [|auto].
    clear P. revert F. generalize 0. induction s as [|r s IH]; intros i F; [reflexivity|]. cbn [first_fix] in F.
    destruct (needs_fix col i r) eqn:E; [discriminate|]. cbn [cols_lt]. rewrite (IH _ F), andb_true_r.
    unfold needs_fix in E. unfold col_lt. destruct (is_terminal (node_of r)); [reflexivity|]. cbn [negb andb orb] in *.
    apply Z.ltb_lt. apply Z.leb_gt in E. exact E.
Qed.

Lemma pos_of_bounds x : forall l k, In x l -> k <= pos_of x l k < k + Z.of_nat (length l).
Proof.
  induction l as [|y l IH]; intros k H; [destruct H|]. cbn [pos_of length]. destruct (Nat.eqb_spec x y) as [E|E]; [lia|].
  destruct H as [H|H]; [congruence|]. specialize (IH (k + 1) H). lia.
Qed.
Lemma pos_of_app x l1 l2 k : In x l1 -> pos_of x (l1 ++ l2) k = pos_of x l1 k.
Proof.
  revert k; induction l1 as [|y l1 IH]; intros k H; [destruct H|]. cbn [app pos_of]. destruct (Nat.eqb_spec x y) as [E|E]; [reflexivity|].
  destruct H as [H|H]; [congruence|]. apply IH; exact H.
Qed.
Lemma pos_of_nonneg x : forall l k, 0 <= k -> 0 <= pos_of x l k.
Proof. induction l as [|y l IH]; intros k K; cbn [pos_of]; [lia|]. destruct (Nat.eqb x y); [lia|]. apply IH. lia. Qed.

Lemma arity2_loop_ok : forall fuel t a t', arity2_loop c fuel t = Ok (Some a) t' -> In a (c_ops c).
Proof.
  induction fuel as [|f IH]; intros t a t' H; cbn [arity2_loop] in H.
  - apply ret_ok in H as [H _]. discriminate H.
  - inv_bind H. destruct (is_arity_2 a0).
    + apply ret_ok in H as [H _]. injection H as <-. eapply random_operator_ok; exact Hd.
    + eapply IH; exact H.
Qed.

Lemma fork_rows2_spec a2 mcl start_i end_i fork_size n_term : In a2 (c_ops c) -> 0 <= mcl < start_i ->
  start_i + fork_size - 1 <= end_i ->
  forall k i s t s' t', start_i <= i -> i + Z.of_nat k = start_i + fork_size -> (Z.to_nat end_i < length s)%nat ->
  rows_ok c 0 s = true -> fork_rows2 c a2 mcl start_i end_i fork_size n_term k i s t = Ok s' t' ->
  rows_ok c 0 s' = true /\ length s' = length s.
Proof.
  intros Ha Hm He. induction k as [|k IH]; intros i s t s' t' Hi Hk Hl R H; cbn [fork_rows2] in H.
  - apply ret_ok in H as [<- _]. split; [exact R|reflexivity].
  - inv_bind H.
    assert (Step : rows_ok c 0 a = true /\ length a = length s).
    { destruct (i <? start_i + n_term).
      - inv_bind Hd. apply ret_ok in Hd as [<- _]. split; [|apply upd_length].
        apply rows_ok_upd; [exact R|]. eapply random_terminal_command_ok; exact Hd0.
      - destruct (i =? start_i + fork_size - 1) eqn:E.
        + inv_bind Hd. apply ret_ok in Hd as [<- _]. apply draw_range_ok in Hd0 as [Hp _]. split; [|apply upd_length].
          apply Z.eqb_eq in E. apply rows_ok_upd; [exact R|]. apply row_ok_operator; [exact Ha|lia|lia].
        + inv_bind Hd. inv_bind Hd. inv_bind Hd. apply ret_ok in Hd as [<- _].
          apply draw_range_ok in Hd1 as [Hp1 _]. apply draw_range_ok in Hd2 as [Hp2 _]. split; [|apply upd_length].
          apply rows_ok_upd; [exact R|]. apply row_ok_operator; [eapply random_operator_ok; exact Hd0|lia|lia]. }
    destruct Step as [R' L']. destruct (IH (i + 1) a t0 s' t' ltac:(lia) ltac:(lia) ltac:(lia) R' H) as [R'' L''].
    split; [exact R''|lia].
Qed.
Lemma fork_rows1_spec mcl start_i end_i fork_size : 0 <= mcl < start_i -> start_i + fork_size - 1 <= end_i ->
  forall k i s t s' t', start_i <= i -> i + Z.of_nat k = start_i + fork_size -> (Z.to_nat end_i < length s)%nat ->
  rows_ok c 0 s = true -> fork_rows1 c mcl start_i end_i fork_size k i s t = Ok s' t' ->
  rows_ok c 0 s' = true /\ length s' = length s.
Proof.
  intros Hm He. induction k as [|k IH]; intros i s t s' t' Hi Hk Hl R H; cbn [fork_rows1] in H.
  - apply ret_ok in H as [<- _]. split; [exact R|reflexivity].
  - inv_bind H. apply random_operator_ok in Hd.
    match type of H with fork_rows1 _ _ _ _ _ _ _ ?S1 _ = _ => set (s1 := S1) in H end.
    assert (Step : rows_ok c 0 s1 = true /\ length s1 = length s).
    { unfold s1. destruct (Z.eqb_spec i start_i) as [E|E]; [|destruct (Z.eqb_spec i (start_i + fork_size - 1)) as [E'|E']];
        (split; [|apply upd_length]); (apply rows_ok_upd; [exact R|]); apply row_ok_operator; try exact Hd; lia. }
    destruct Step as [R' L']. destruct (IH (i + 1) s1 t0 s' t' ltac:(lia) ltac:(lia) ltac:(lia) R' H) as [R'' L''].
    split; [exact R''|lia].
Qed.
Lemma insert_fork_spec s fork_size mcl start_i end_i t s' t' : 0 <= mcl < start_i -> 2 <= fork_size ->
  start_i + fork_size - 1 <= end_i -> (Z.to_nat end_i < length s)%nat -> rows_ok c 0 s = true ->
  insert_fork c s fork_size mcl start_i end_i t = Ok s' t' -> rows_ok c 0 s' = true /\ length s' = length s.
Proof.
  intros Hm Hf He Hl R H. unfold insert_fork in H. inv_bind H. destruct a as [a2|].
  - inv_bind H. eapply (fork_rows2_spec a2 mcl start_i end_i fork_size a); try eassumption; try lia.
    eapply arity2_loop_ok; exact Hd.
  - eapply (fork_rows1_spec mcl start_i end_i fork_size); try eassumption; lia.
Qed.

Theorem fork_mutation_spec s : wfr c s = true -> mut_spec s (fork_mutation c s).
Proof.
  intros W t s' w t' H. destruct (wfr_rows _ W) as [R0 NE]. unfold fork_mutation in H.
  set (util := utilized s) in H. set (tg := tag_from O s util) in H.
  set (unut := filter (fun x => negb (t_util x)) tg) in H.
  destruct (Z.of_nat (length unut) <? 2) eqn:E2.
  - apply ret_ok in H as [H _]. injection H as <- <-. split; [exact W|split; reflexivity].
  - apply Z.ltb_ge in E2. inv_bind H. apply draw_range_ok in Hd as [Hfs _]. inv_bind H.
    apply choice_ok in Hd. apply loc_facts in Hd as (r & b & N1 & N2 & F). cbn [snd] in F. subst b. rename a0 into loc.
    set (before := filter (fun x => t_util x && Nat.leb (t_idx x) loc) tg) in H.
    set (after := filter (fun x => t_util x && negb (Nat.leb (t_idx x) loc)) tg) in H.
    set (final := before ++ unut ++ after) in H.
    set (start_i := Z.of_nat (length before)) in H. set (n_un := Z.of_nat (length unut)) in *.
    set (end_i := start_i + n_un - 1) in H. set (new_idx := map t_idx final) in H.
    set (mcl := pos_of loc new_idx 0) in H.
    match type of H with bind (fix_col false ?RM) _ _ = _ => set (remapped := RM) in H end.
    inv_bind H. inv_bind H. inv_bind H. apply ret_ok in H as [H _]. injection H as <- <-.
    (* sizes *)
    assert (Ltg : length tg = length s) by (apply tag_from_length; apply utilized_length).
    assert (Lfin : length final = length s).
    { unfold final. rewrite !app_length. rewrite <- Ltg, <- (partition3_length tg loc). fold before unut after. lia. }
    (* the chosen row sits in [before] *)
    assert (Hin : In loc (map t_idx before)).
    { apply in_map_iff. exists (r, true, loc). split; [reflexivity|]. apply filter_In. split.
      - apply (tag_from_In s util O loc r true N1 N2).
      - unfold t_util, t_idx; cbn [fst snd]. rewrite Nat.leb_refl. reflexivity. }
    assert (Hmcl : 0 <= mcl < start_i).
    { unfold mcl, new_idx, final. rewrite map_app, (pos_of_app _ _ _ _ Hin).
      pose proof (pos_of_bounds loc _ 0 Hin) as B. rewrite map_length in B. fold start_i in B. lia. }
    (* every row keeps a valid node and non-negative operands through the move and the remapping *)
    assert (Ptg : forallb (fun x => pre_ok (t_row x)) tg = true) by (apply tag_from_rows; eapply rows_ok_pre; exact R0).
    assert (Pfin : forallb (fun x => pre_ok (t_row x)) final = true).
    { rewrite forallb_forall in Ptg. apply forallb_forall. intros x Hx. apply Ptg. unfold final in Hx.
      apply in_app_or in Hx as [Hx|Hx]; [|apply in_app_or in Hx as [Hx|Hx]]; apply filter_In in Hx; tauto. }
    assert (Prem : forallb pre_ok remapped = true).
    { unfold remapped. rewrite forallb_forall in Pfin. apply forallb_forall. intros y Hy. apply in_map_iff in Hy as (x & <- & Hx).
      specialize (Pfin x Hx). destruct (t_util x && negb (is_terminal (node_of (t_row x)))) eqn:Eu; [|exact Pfin].
      apply andb_prop in Eu as [_ T]. apply negb_true_iff in T. unfold pre_ok in *. cbn [node_of p1_of p2_of fst snd].
      fold (node_of (t_row x)). rewrite T in *. apply andb_prop in Pfin as [Pf _]. apply andb_prop in Pf as [Hop _]. rewrite Hop. cbn [andb].
      assert (Sh : forall old, 0 <= (if old =? zi loc then end_i else pos_of (Z.to_nat old) new_idx 0)).
      { intros old. destruct (old =? zi loc); [unfold end_i, start_i; lia|apply pos_of_nonneg; lia]. }
      apply andb_true_intro. split; apply Z.leb_le; apply Sh. }
    destruct (fix_col_spec false _ _ _ _ Prem Hd) as (L1 & P1 & C1 & _).
    destruct (fix_col_spec true _ _ _ _ P1 Hd0) as (L2 & P2 & C2 & K2). cbn [negb] in K2. specialize (K2 C1).
    assert (R2 : rows_ok c 0 a1 = true) by (apply rows_ok_join; assumption).
    assert (La1 : length a1 = length s) by (rewrite L2, L1; unfold remapped; rewrite map_length; exact Lfin).
    assert (Hend : (Z.to_nat end_i < length a1)%nat).
    { rewrite La1, <- Lfin. unfold final. rewrite !app_length. unfold end_i, start_i, n_un. lia. }
    destruct (insert_fork_spec a1 a mcl start_i end_i _ _ _ Hmcl ltac:(lia) ltac:(unfold end_i; lia) Hend R2 Hd1) as [R3 L3].
    split; [|split; [lia|discriminate]]. apply rows_wfr; [exact R3|].
    intros ->. cbn in L3. destruct s; [congruence|]. rewrite La1 in L3. discriminate L3.
Qed.

(* ---------- AGraphMutation.__call__ ---------- *)
Theorem mutate_spec s : wfr c s = true -> mut_spec s (mutate c s).
Proof.
  intros W t s' w t' H. unfold mutate in H. inv_bind H.
  destruct (a =? 0); [eapply mutate_command_spec; eassumption|].
  destruct (a =? 1); [eapply mutate_node_spec; eassumption|].
  destruct (a =? 2); [eapply mutate_parameters_spec; eassumption|].
  destruct (a =? 3); [eapply prune_branch_spec; eassumption|eapply fork_mutation_spec; eassumption].
Qed.

(* ---------- AGraphCrossover.__call__ ---------- *)
Lemma rows_ok_firstn_skipn s k i : rows_ok c i s = true -> (k <= length s)%nat ->
  rows_ok c i (firstn k s) = true /\ rows_ok c (i + Z.of_nat k) (skipn k s) = true.
Proof.
  intros R L. rewrite <- (firstn_skipn k s) in R. rewrite rows_ok_app in R. apply andb_prop in R as [R1 R2].
  rewrite firstn_length_le in R2 by exact L. split; assumption.
Qed.
Theorem crossover_spec p1 p2 t c1 c2 t' : wfr c p1 = true -> wfr c p2 = true -> crossover p1 p2 t = Ok (c1, c2) t' ->
  wfr c c1 = true /\ wfr c c2 = true /\ length c1 = length p1 /\ length c2 = length p1 /\ length p2 = length p1.
Proof.
  intros W1 W2 H. unfold crossover in H. destruct (Nat.eqb_spec (length p1) (length p2)) as [EL|EL]; [|discriminate H]. cbn [negb] in H.
  inv_bind H. apply ret_ok in H as [H _]. injection H as <- <-. apply draw_range_ok in Hd as [Hcp _].
  unfold cross_lo, cross_hi_offset in Hcp. set (k := Z.to_nat a).
  assert (K1 : (k <= length p1)%nat) by (unfold k; lia). assert (K2 : (k <= length p2)%nat) by lia.
  destruct (wfr_rows _ W1) as [R1 _]. destruct (wfr_rows _ W2) as [R2 _].
  destruct (rows_ok_firstn_skipn p1 k 0 R1 K1) as [A1 B1]. destruct (rows_ok_firstn_skipn p2 k 0 R2 K2) as [A2 B2].
  assert (La : length (firstn k p1 ++ skipn k p2) = length p1) by (rewrite app_length, firstn_length_le, skipn_length by exact K1; lia).
  assert (Lb : length (firstn k p2 ++ skipn k p1) = length p1) by (rewrite app_length, firstn_length_le, skipn_length by exact K2; lia).
  assert (NE : forall l : stack, length l = length p1 -> l <> []) by (intros l Hl ->; cbn in Hl; lia).
  split; [|split; [|split; [exact La|split; [exact Lb|symmetry; exact EL]]]]; (apply rows_wfr; [|apply NE; assumption]);
    rewrite rows_ok_app, firstn_length_le by assumption; [rewrite A1, B2|rewrite A2, B1]; reflexivity.
Qed.

(* ---------- closure: everything reachable by any sequence of variations ---------- *)
Inductive reachable (size : nat) : stack -> Prop :=
| r_gen t s t' : generate c size t = Ok s t' -> reachable size s
| r_mut p t s w t' : reachable size p -> mutate c p t = Ok (s, w) t' -> reachable size s
| r_cross1 p1 p2 t c1 c2 t' : reachable size p1 -> reachable size p2 -> crossover p1 p2 t = Ok (c1, c2) t' -> reachable size c1
| r_cross2 p1 p2 t c1 c2 t' : reachable size p1 -> reachable size p2 -> crossover p1 p2 t = Ok (c1, c2) t' -> reachable size c2.
Theorem reachable_wf size s : (0 < size)%nat -> reachable size s -> wfr c s = true /\ length s = size.
Proof.
  intros P H. induction H as [t s t' G|p t s w t' Hp [Wp Lp] Hm|p1 p2 t c1 c2 t' H1 [W1 L1] H2 [W2 L2] Hc|p1 p2 t c1 c2 t' H1 [W1 L1] H2 [W2 L2] Hc].
  - eapply generate_wf; eassumption.
  - destruct (mutate_spec p Wp _ _ _ _ Hm) as (W & L & _). split; [exact W|lia].
  - destruct (crossover_spec _ _ _ _ _ _ W1 W2 Hc) as (A & _ & LA & _). split; [exact A|lia].
  - destruct (crossover_spec _ _ _ _ _ _ W1 W2 Hc) as (_ & B & _ & LB & _). split; [exact B|lia].
Qed.

(* ---------- the one loop without a bound: parameter mutation can always leave it ---------- *)
Lemma draw_below_cons n v rest : 0 <= v < n -> draw_below n (v :: rest) = Ok v rest.
Proof.
  intros H. unfold draw_below, draw_range. destruct (Z.leb_spec n 0); [lia|].
  destruct (Z.leb_spec 0 v); [|lia]. destruct (Z.ltb_spec v n); [|lia]. reflexivity.
Qed.
Lemma rp_variable r loc v rest : node_of r = VARIABLE -> 0 <= v < cD c ->
  randomize_parameters c r loc (v :: rest) = Ok (VARIABLE, v, v) rest.
Proof.
  intros E H. unfold randomize_parameters. rewrite E. cbn [is_terminal VARIABLE INTEGER Z.eqb]. unfold random_terminal_parameter. cbn [Z.eqb].
  unfold bind. rewrite (draw_below_cons _ _ _ H). reflexivity.
Qed.
Lemma rp_arity2 r loc v v2 rest : is_terminal (node_of r) = false -> is_arity_2 (node_of r) = true -> 0 <= v < loc -> 0 <= v2 < loc ->
  randomize_parameters c r loc (v :: v2 :: rest) = Ok (node_of r, v, v2) rest.
Proof.
  intros T A H H2. unfold randomize_parameters. rewrite T. unfold bind at 1. rewrite (draw_below_cons _ _ _ H). rewrite A.
  unfold bind. rewrite (draw_below_cons _ _ _ H2). reflexivity.
Qed.
Lemma rp_arity1 r loc v rest : is_terminal (node_of r) = false -> is_arity_2 (node_of r) = false -> 0 <= v < loc ->
  randomize_parameters c r loc (v :: rest) = Ok (node_of r, v, p2_of r) rest.
Proof.
  intros T A H. unfold randomize_parameters. rewrite T. unfold bind at 1. rewrite (draw_below_cons _ _ _ H). rewrite A. reflexivity.
Qed.
Lemma param_loop_exit_step loc r fuel draws rest n : cmd_eqb r r = true ->
  randomize_parameters c r loc (draws ++ rest) = Ok n rest -> cmd_eqb r n = false ->
  param_loop c loc r (S fuel) r (draws ++ rest) = Ok n rest.
Proof.
  intros Eqb Hr Ne. cbn [param_loop]. rewrite Eqb. unfold bind. rewrite Hr. destruct fuel; cbn [param_loop]; rewrite Ne; reflexivity.
Qed.
Theorem param_loop_can_exit s loc r b : wfr c s = true ->
  nth_error s loc = Some r -> nth_error (utilized s) loc = Some b ->
  negb (no_param_mut c (node_of r)) = true -> (loc = 1%nat -> is_terminal (node_of r) = true) ->
  exists draws n, forall fuel rest, param_loop c (zi loc) r (S fuel) r (draws ++ rest) = Ok n rest /\ cmd_eqb r n = false.
Proof.
  intros W N _ NP L1. destruct (wfr_row _ _ _ W N) as (R & _ & _).
  apply negb_true_iff in NP. unfold no_param_mut in NP. apply orb_false_iff in NP as [NP NV]. apply orb_false_iff in NP as [NC NI].
  assert (Eqb : cmd_eqb r r = true) by (unfold cmd_eqb; rewrite !Z.eqb_refl; reflexivity).
  set (v := if p1_of r =? 0 then 1 else 0).
  assert (Nev : (p1_of r =? v) = false) by (unfold v; destruct (Z.eqb_spec (p1_of r) 0) as [E1|E1]; [rewrite E1; reflexivity|apply Z.eqb_neq; exact E1]).
  assert (Ne : forall n b2, cmd_eqb r (n, v, b2) = false).
  { intros n b2. unfold cmd_eqb. cbn [node_of p1_of p2_of fst snd]. fold (p1_of r). rewrite Nev, andb_false_r. reflexivity. }
  destruct (is_terminal (node_of r)) eqn:T.
  - (* a variable with at least two input columns *)
    destruct (is_terminal_true _ T) as [E|[E|E]]; [rewrite E in NI; discriminate|rewrite E in NV|rewrite E in NC; discriminate].
    cbn in NV. rewrite andb_true_r in NV. apply Z.leb_gt in NV.
    assert (Hv : 0 <= v < cD c) by (unfold v; destruct (p1_of r =? 0); lia).
    exists [v], (VARIABLE, v, v). intros fuel rest. split; [|apply Ne].
    apply param_loop_exit_step; [exact Eqb|apply rp_variable; assumption|apply Ne].
  - (* an operator at row >= 2 *)
    assert (L2 : 2 <= zi loc).
    { destruct (row_ok_operator_inv _ _ T R) as (_ & B1 & _). unfold zi in *.
      destruct loc as [|[|loc]]; [lia|specialize (L1 eq_refl); discriminate|lia]. }
    assert (Hv : 0 <= v < zi loc) by (unfold v; destruct (p1_of r =? 0); lia).
    destruct (is_arity_2 (node_of r)) eqn:A2.
    + exists [v; 0], (node_of r, v, 0). intros fuel rest. split; [|apply Ne].
      apply param_loop_exit_step; [exact Eqb|apply rp_arity2; try assumption; lia|apply Ne].
    + exists [v], (node_of r, v, p2_of r). intros fuel rest. split; [|apply Ne].
      apply param_loop_exit_step; [exact Eqb|apply rp_arity1; assumption|apply Ne].
Qed.

(* ---------- a well-formed genome is a well-formed stack once its constants are numbered (what AGraph._update does) ---------- *)
Lemma renumber_wf : forall s i k, 0 <= k -> rows_ok c i s = true -> wf_from (cD c) i (renumber s k) = true.
Proof.
  induction s as [|r s IH]; intros i k K H; [reflexivity|]. cbn [rows_ok] in H. apply andb_prop in H as [H1 H2].
  cbn [renumber]. destruct (Z.eqb_spec (node_of r) CONSTANT) as [E|E]; cbn [wf_from].
  - rewrite (IH (i + 1) (k + 1) ltac:(lia) H2), andb_true_r. unfold wf_cmd; cbn [node_of p1_of fst snd]. cbn. apply Z.leb_le. exact K.
  - rewrite (IH _ _ K H2), andb_true_r. unfold wf_cmd. unfold row_ok in H1. destruct (is_terminal (node_of r)) eqn:T.
    + destruct (is_terminal_true _ T) as [E'|[E'|E']]; [rewrite E'; reflexivity| |contradiction].
      rewrite E' in *. cbn in H1 |- *. exact H1.
    + apply andb_prop in H1 as [H1 P4]. apply andb_prop in H1 as [H1 P3]. apply andb_prop in H1 as [H1 P2]. apply andb_prop in H1 as [Hop P1].
      apply existsb_exists in Hop as (o & Ho & Eo). apply Z.eqb_eq in Eo. subst o.
      unfold cfg_ok in Hcfg. rewrite forallb_forall in Hcfg. specialize (Hcfg _ Ho). apply andb_prop in Hcfg as [_ Kn].
      rewrite Kn, P1, P2, P3, P4. reflexivity.
Qed.
Theorem wfr_evaluable s : wfr c s = true -> wf (cD c) (renumber s 0) = true.
Proof.
  intros W. destruct (wfr_rows _ W) as [R NE]. unfold wf. rewrite (renumber_wf s 0 0 ltac:(lia) R), andb_true_r.
  destruct s as [|r s]; [congruence|]. cbn [renumber]. destruct (node_of r =? CONSTANT); reflexivity.
Qed.
End P.

(* C09: elitist algorithms never lose their best solution. Builds on Model/Selection.v (C08), Model/Hof.v (C10). *)
From Coq Require Import ZArith List Bool Arith Lia Permutation Sorted.
From Bingo Require Import Model.Best Model.Selection Proofs.SelectionProofs.
Import ListNotations.
Local Open Scope nat_scope.

(* B is at least as good as A: every non-NaN member of A is matched by a member of B that is no worse *)
Definition covers (A B : list ind) : Prop :=
  forall x fx, In x A -> sfit x = Some fx -> exists y fy, In y B /\ sfit y = Some fy /\ (fy <= fx)%Z.

Lemma covers_refl A : covers A A.
Proof. intros x fx Hx E. exists x, fx. repeat split; auto. lia. Qed.
Lemma covers_trans A B C : covers A B -> covers B C -> covers A C.
Proof.
  intros H1 H2 x fx Hx E. destruct (H1 x fx Hx E) as (y & fy & Hy & Ey & L1).
  destruct (H2 y fy Hy Ey) as (z & fz & Hz & Ez & L2). exists z, fz. repeat split; auto. lia.
Qed.
Lemma covers_incl A B B' : covers A B -> incl B B' -> covers A B'.
Proof. intros H I x fx Hx E. destruct (H x fx Hx E) as (y & fy & Hy & R). exists y, fy. split; auto. Qed.
Lemma covers_sub A A' B : incl A' A -> covers A B -> covers A' B.
Proof. intros I H x fx Hx E. apply (H x fx); auto. Qed.
Lemma covers_perm A A' B B' : Permutation A A' -> Permutation B B' -> covers A B -> covers A' B'.
Proof.
  intros PA PB H x fx Hx E. apply (Permutation_in _ (Permutation_sym PA)) in Hx.
  destruct (H x fx Hx E) as (y & fy & Hy & R). exists y, fy. split; auto. apply (Permutation_in _ PB); auto.
Qed.
Lemma covers_app A1 A2 B1 B2 : covers A1 B1 -> covers A2 B2 -> covers (A1 ++ A2) (B1 ++ B2).
Proof.
  intros H1 H2 x fx Hx E. apply in_app_or in Hx as [Hx|Hx].
  - destruct (H1 x fx Hx E) as (y & fy & Hy & R). exists y, fy. split; auto. apply in_or_app; auto.
  - destruct (H2 x fx Hx E) as (y & fy & Hy & R). exists y, fy. split; auto. apply in_or_app; auto.
Qed.

(* ---------- array facts ---------- *)
Lemma getp_upd_same pop i x : i < length pop -> getp (upd pop i x) i = x.
Proof. unfold getp. revert i; induction pop as [|y r IH]; intros [|i] H; simpl in *; try lia; auto. apply IH; lia. Qed.
Lemma getp_upd_other pop i j x : i <> j -> getp (upd pop i x) j = getp pop j.
Proof. unfold getp. revert i j; induction pop as [|y r IH]; intros [|i] [|j] H; simpl; auto; try lia. Qed.

Lemma getp_swap pop a b j : a < length pop -> b < length pop ->
  getp (swap pop a b) j = if Nat.eqb j b then getp pop a else if Nat.eqb j a then getp pop b else getp pop j.
Proof.
  intros Ha Hb. unfold swap.
  destruct (Nat.eqb_spec j b) as [->|Hjb].
  - rewrite getp_upd_same; auto. rewrite upd_length. auto.
  - rewrite getp_upd_other by auto. destruct (Nat.eqb_spec j a) as [->|Hja].
    + rewrite getp_upd_same; auto.
    + rewrite getp_upd_other by auto. reflexivity.
Qed.

(* strictly descending *)
Definition sdesc (l : list nat) : Prop := StronglySorted (fun a b => b < a) l.

(* survivors stay inside the shrinking live region.  [bound] = current size of the live region,
   positions >= bound already hold removed individuals. *)
Lemma swap_removals_survivors : forall sorted pop i nr bound,
  bound + i + nr = length pop -> sdesc sorted -> (forall r, In r sorted -> r < bound) ->
  length sorted <= bound ->
  forall j, j < bound -> ~ In j sorted ->
  exists q, q < bound - length sorted /\ getp (swap_removals pop sorted i nr) q = getp pop j.
Proof.
  induction sorted as [|r rest IH]; intros pop i nr bound Hb Hs Hr Hl j Hj Hnj; cbn [swap_removals].
  - exists j. simpl. split; [lia|reflexivity].
  - simpl in Hl. apply StronglySorted_inv in Hs as [Hs Hall]. rewrite Forall_forall in Hall.
    assert (Hrb : r < bound) by (apply Hr; simpl; auto).
    assert (ET : length pop - (i + nr + 1) = bound - 1) by lia. rewrite ET.
    set (T := bound - 1). set (pop' := swap pop r T).
    assert (Lp : length pop' = length pop) by apply swap_length.
    assert (Hrest : forall x, In x rest -> x < T).
    { intros x Hx. specialize (Hall x Hx). unfold T. lia. }
    assert (Hjr : j <> r) by (intros ->; apply Hnj; simpl; auto).
    assert (Hnjr : ~ In j rest) by (intros H; apply Hnj; simpl; auto).
    destruct (Nat.eq_dec j T) as [EjT|NjT].
    + (* the survivor sits at the target position: it moves to position r *)
      assert (HrT : r < T) by (unfold T in *; lia).
      assert (Hnr : ~ In r rest) by (intros H; specialize (Hall r H); lia).
      destruct (IH pop' (S i) nr T ltac:(rewrite Lp; unfold T; lia) Hs Hrest ltac:(unfold T; lia) r HrT Hnr)
        as (q & Hq & Eq).
      exists q. split; [simpl; unfold T in *; lia|]. rewrite Eq. unfold pop'.
      rewrite getp_swap by (unfold T; lia). subst j.
      destruct (Nat.eqb_spec r T); [lia|]. rewrite Nat.eqb_refl. reflexivity.
    + assert (HjT : j < T) by (unfold T in *; lia).
      destruct (IH pop' (S i) nr T ltac:(rewrite Lp; unfold T; lia) Hs Hrest ltac:(unfold T; lia) j HjT Hnjr)
        as (q & Hq & Eq).
      exists q. split; [simpl; unfold T in *; lia|]. rewrite Eq. unfold pop'.
      rewrite getp_swap by (unfold T; lia).
      destruct (Nat.eqb_spec j T); [lia|]. destruct (Nat.eqb_spec j r); [lia|]. reflexivity.
Qed.

(* sort_desc yields a strictly descending list on duplicate-free input *)
Lemma ins_desc_In x l y : In y (ins_desc x l) <-> y = x \/ In y l.
Proof.
  split; intros H.
  - apply (Permutation_in _ (ins_desc_perm x l)) in H. simpl in H. destruct H; auto.
  - apply (Permutation_in _ (Permutation_sym (ins_desc_perm x l))). simpl. destruct H; auto.
Qed.
Lemma ins_desc_sdesc x l : sdesc l -> ~ In x l -> sdesc (ins_desc x l).
Proof.
  induction l as [|y r IH]; simpl; intros Hs Hn; [repeat constructor|].
  apply StronglySorted_inv in Hs as [Hs Hall]. destruct (Nat.leb_spec y x).
  - constructor; [constructor; auto|]. constructor; [lia|].
    rewrite Forall_forall in *. intros z Hz. specialize (Hall z Hz). lia.
  - constructor; [apply IH; auto|]. rewrite Forall_forall in *. intros z Hz.
    apply ins_desc_In in Hz as [->|Hz]; [lia|auto].
Qed.
Lemma sort_desc_sdesc l : NoDup l -> sdesc (sort_desc l).
Proof.
  induction 1 as [|x l Hn Hd IH]; simpl; [constructor|]. apply ins_desc_sdesc; auto.
  intros Hin. apply Hn. apply (Permutation_in _ (sort_desc_perm l)). exact Hin.
Qed.

Lemma In_firstn_getp pop n x : In x (firstn n pop) -> exists j, j < n /\ j < length pop /\ getp pop j = x.
Proof.
  revert n; induction pop as [|y r IH]; intros [|n] H; simpl in H; try tauto.
  destruct H as [<-|H].
  - exists 0. simpl. split; [lia|split; [lia|reflexivity]].
  - destruct (IH n H) as (j & H1 & H2 & H3). exists (S j). simpl. split; [lia|split; [lia|exact H3]].
Qed.
Lemma getp_In_firstn pop n j : j < n -> j < length pop -> In (getp pop j) (firstn n pop).
Proof.
  revert n j; induction pop as [|y r IH]; intros [|n] [|j] H1 H2; simpl in *; try lia; auto.
  right. apply IH; lia.
Qed.

(* one pass of the loop: the new live prefix covers the old one *)
Lemma af_iteration_covers sel pop live nr inds needed :
  live + nr = length pop -> NoDup inds -> (forall i, In i inds -> i < live) -> 1 <= needed ->
  let s := find_inds_for_removal sel inds pop needed in
  covers (firstn live pop) (firstn (live - length s) (swap_removals pop (sort_desc s) 0 nr)).
Proof.
  intros Hl Hnd Hb Hn s.
  destruct (find_inds_spec sel inds pop needed Hnd Hn) as (J & Ns & Ls). fold s in J, Ns, Ls.
  set (srt := sort_desc s).
  assert (Psrt : Permutation srt s) by apply sort_desc_perm.
  assert (Hsd : sdesc srt) by (apply sort_desc_sdesc; auto).
  assert (Hsb : forall r, In r srt -> r < live).
  { intros r Hr. apply (Permutation_in _ Psrt) in Hr. destruct (J r Hr) as [Hin _]. auto. }
  assert (Hlen : length srt = length s) by (apply Permutation_length; auto).
  assert (Hle : length srt <= live).
  { rewrite Hlen. apply NoDup_incl_length with (l' := seq 0 live) in Ns; [rewrite seq_length in Ns; auto|].
    intros r Hr. apply in_seq. destruct (J r Hr) as [Hin _]. specialize (Hb r Hin). lia. }
  pose proof (swap_removals_perm srt pop 0 nr ltac:(intros r Hr; specialize (Hsb r Hr); lia) ltac:(lia)) as [_ Lfin].
  assert (Surv : forall j, j < live -> ~ In j s ->
            In (getp pop j) (firstn (live - length s) (swap_removals pop srt 0 nr))).
  { intros j Hj Hnj.
    destruct (swap_removals_survivors srt pop 0 nr live ltac:(lia) Hsd Hsb Hle j Hj
                ltac:(intros H; apply Hnj; apply (Permutation_in _ Psrt); auto)) as (q & Hq & Eq).
    rewrite <- Eq. rewrite <- Hlen. apply getp_In_firstn; [auto|rewrite Lfin; lia]. }
  intros x fx Hx Ex. destruct (In_firstn_getp _ _ _ Hx) as (j & Hj & Hjl & <-).
  destruct (in_dec Nat.eq_dec j s) as [Hin|Hnin].
  - destruct (J j Hin) as [_ [Hnan|(w & Hw & Hws & (fw & fr & Ew & Er & _ & Hle'))]].
    + unfold isnan_i in Hnan. congruence.
    + exists (getp pop w), fw. split; [apply Surv; auto|]. split; auto. congruence.
  - exists (getp pop j), fx. split; [apply Surv; auto|]. split; auto. lia.
Qed.

Lemma af_loop_covers pop0 sel start tr : tr <= start -> forall fuel st st',
  af_inv pop0 start tr st -> af_loop fuel sel start tr st = Ok st' ->
  covers (firstn (start - af_removed st) (af_pop st)) (firstn (start - af_removed st') (af_pop st')).
Proof.
  intros Htr. induction fuel as [|f IH]; intros st st' Hi; cbn [af_loop].
  - intros [= <-]. apply covers_refl.
  - destruct (Nat.ltb_spec (af_removed st) tr) as [Hlt|Hge]; [|intros [= <-]; apply covers_refl].
    destruct (unique_rand_indices sel (start - af_removed st) (af_tape st)) as [[inds tape']| |] eqn:Eu;
      try discriminate.
    pose proof (unique_rand_indices_spec _ _ _ _ _ Eu) as [Hnd Hb].
    destruct Hi as [P L R].
    set (to_remove := find_inds_for_removal sel inds (af_pop st) (tr - af_removed st)).
    intros Hloop.
    pose proof (af_iteration_covers sel (af_pop st) (start - af_removed st) (af_removed st) inds (tr - af_removed st)
                  ltac:(lia) Hnd Hb ltac:(lia)) as C1. cbn zeta in C1. fold to_remove in C1.
    destruct (find_inds_spec sel inds (af_pop st) (tr - af_removed st) Hnd ltac:(lia)) as (J & N & Ln).
    fold to_remove in J, N, Ln.
    set (st1 := mkAF (swap_removals (af_pop st) (sort_desc to_remove) 0 (af_removed st))
                     (af_removed st + length to_remove) tape') in *.
    assert (Hi1 : af_inv pop0 start tr st1).
    { assert (Hsr : forall r, In r (sort_desc to_remove) -> r < length (af_pop st)).
      { intros r Hr. apply (Permutation_in _ (sort_desc_perm _)) in Hr.
        destruct (J r Hr) as [Hin _]. specialize (Hb r Hin). lia. }
      assert (Hls : length (sort_desc to_remove) = length to_remove)
        by (apply Permutation_length, sort_desc_perm).
      destruct (swap_removals_perm (sort_desc to_remove) (af_pop st) 0 (af_removed st) Hsr ltac:(lia)) as [P' L'].
      constructor; cbn [af_pop af_removed st1]; [etransitivity; eauto|congruence|lia]. }
    specialize (IH st1 st' Hi1 Hloop).
    eapply covers_trans; [|exact IH]. cbn [af_pop af_removed st1].
    replace (start - (af_removed st + length to_remove)) with (start - af_removed st - length to_remove) by lia.
    exact C1.
Qed.

(* age-fitness selection: every non-NaN member of the input is matched by a survivor that is no worse *)
Theorem age_fitness_keeps_best sel pop target tape ret after :
  age_fitness sel pop target tape = Ok (ret, after) -> covers pop ret.
Proof.
  unfold age_fitness. destruct (Nat.ltb_spec (length pop) target) as [|Hle]; [discriminate|].
  destruct (af_loop _ _ _ _ _) as [st| |] eqn:El; try discriminate. intros [= <- <-].
  assert (Hi : af_inv pop (length pop) (length pop - target) (mkAF pop 0 tape)).
  { constructor; simpl; auto. lia. }
  pose proof (af_loop_covers pop sel (length pop) (length pop - target) ltac:(lia) _ _ _ Hi El) as C.
  cbn [af_pop af_removed] in C. rewrite Nat.sub_0_r, firstn_all in C. exact C.
Qed.

(* deterministic crowding with target = number of parents: the survivors cover the parents *)
Theorem crowding_keeps_best pop close out :
  crowding pop (Nat.div (length pop) 2) close = Ok out ->
  covers (firstn (Nat.div (length pop) 2) pop) out.
Proof.
  intros H. destruct (crowding_spec _ _ _ _ H) as (H1 & H2 & H3). cbn zeta in *.
  set (h := Nat.div (length pop) 2) in *.
  intros x fx Hx Ex. destruct (In_firstn_getp _ _ _ Hx) as (j & Hj & Hjl & <-).
  specialize (H3 j Hj).
  assert (Hin : In (nth j out dflt) out) by (apply nth_In; lia).
  destruct (most_fit_det_spec (getp pop (h + paired j close)) (getp pop j)) as [E|[E [Hn|Hlt]]].
  - exists (getp pop j), fx. rewrite <- E, <- H3. repeat split; auto. rewrite H3, E. auto. lia.
  - congruence.
  - rewrite Ex in Hlt. destruct (sfit (getp pop (h + paired j close))) as [fc|] eqn:Ec; [|discriminate].
    simpl in Hlt. apply Z.ltb_lt in Hlt.
    exists (getp pop (h + paired j close)), fc. rewrite <- E, <- H3. repeat split; auto.
    + rewrite H3, E. auto.
    + lia.
Qed.

(* archipelago: if every island's new population covers its old one, the union does; migration only
   permutes the union *)
Lemma covers_concat : forall (A B : list (list ind)), Forall2 covers A B -> covers (concat A) (concat B).
Proof. induction 1; simpl; [apply covers_refl|apply covers_app; auto]. Qed.

(* ---------- hall of fame ---------- *)
From Bingo Require Import Lib.ListExtra Model.Hof Proofs.HofProofs.

Theorem hof_best_bound (base c : nat) (ops : list op) : (1 <= c)%nat -> only_updates ops ->
  let h := run None false (Some c) base ops in
  forall z, In z (nn (all_updates ops)) -> exists b, hd_error (zs_of h) = Some b /\ (b <= z)%Z.
Proof.
  intros Hc Ho h z Hz.
  destruct (C10_smallest base c ops Hc Ho) as (_ & Hk & Hs & Hl & rest & HP & Hord). fold h in Hk, Hs, Hl, HP, Hord.
  assert (Hlen : (1 <= length (zs_of h))%nat).
  { assert (length (keys h) = length (zs_of h)) by (rewrite Hk, map_length; auto).
    destruct (nn (all_updates ops)) as [|y l] eqn:E; [destruct Hz|]. simpl in Hl. lia. }
  destruct (zs_of h) as [|b tl] eqn:Ez; [simpl in Hlen; lia|].
  exists b. split; [reflexivity|].
  apply (Permutation_in _ (Permutation_sym HP)) in Hz. apply in_app_or in Hz as [Hz|Hz].
  - destruct Hz as [<-|Hz]; [lia|]. apply StronglySorted_inv in Hs as [_ Hall].
    rewrite Forall_forall in Hall. apply Hall; auto.
  - apply Hord; simpl; auto.
Qed.

(* Proofs for Model/Parse.v (property C16): postfix_to_command_array_and_constants builds the tree its postfix input denotes. *)
From Coq Require Import ZArith List Bool Lia.
From Bingo Require Import Lib.Alg Gen.OpDefs Gen.OpEval Gen.Strings Model.Stack Model.Parse Model.ParseTree Proofs.ReduceProofs Proofs.ParseProofs.
Import ListNotations.
Local Open Scope Z_scope.

Definition unary_node (f : Z) : bool := negb (is_terminal f) && negb (is_arity_2 f).
Fixpoint q_ok (q : qexpr) : bool :=
  match q with
  | QAtom (TVarConst n k) => (n =? VARIABLE) && (0 <=? k)
  | QAtom (TInt k) => k <=? 9223372036854775807
  | QAtom (TLit _) => true
  | QAtom _ => false
  | QOp1 f a => unary_node f && q_ok a
  | QOp2 (TOp n _ _) a b => is_arity_2 n && q_ok a && q_ok b
  | QOp2 _ _ _ => false
  end.
(* the expression (in the sense of C01) a parse tree stands for, literals numbered from n in order of occurrence *)
Fixpoint q_expr (q : qexpr) (n : Z) : expr * Z :=
  match q with
  | QAtom (TVarConst _ k) => (EX k, n)
  | QAtom (TInt k) => (EInt k, n)
  | QAtom (TLit _) => (EC n, n + 1)
  | QAtom _ => (EInt 0, n)
  | QOp1 f a => let '(ea, n1) := q_expr a n in (EOp1 f ea, n1)
  | QOp2 o a b => let '(ea, n1) := q_expr a n in let '(eb, n2) := q_expr b n1 in
                  (EOp2 (match o with TOp node _ _ => node | _ => 0 end) ea eb, n2)
  end.
Fixpoint q_lits (q : qexpr) : list str :=
  match q with
  | QAtom (TLit t) => [t] | QAtom _ => []
  | QOp1 _ a => q_lits a
  | QOp2 _ a b => q_lits a ++ q_lits b
  end.
Fixpoint esize (e : expr) : nat :=
  match e with EOp1 _ a => S (esize a) | EOp2 _ a b => S (esize a + esize b) | _ => 1%nat end.

Lemma q_expr_count q : forall n, snd (q_expr q n) = n + Z.of_nat (length (q_lits q)).
Proof.
  induction q as [t|f a IHa|o a IHa b IHb]; intros n; cbn [q_expr q_lits].
  - destruct t; cbn; lia.
  - specialize (IHa n). destruct (q_expr a n). cbn in *. exact IHa.
  - specialize (IHa n). destruct (q_expr a n) as [ea n1]. specialize (IHb n1). destruct (q_expr b n1) as [eb n2]. cbn in *.
    rewrite app_length. lia.
Qed.

(* ---------- invariant of the builder ---------- *)
Definition scoped (rows : stack) : Prop :=
  forall j, (j < length rows)%nat -> let c := nth j rows dflt_cmd in
    is_terminal (node_of c) = true \/ (0 <= p1_of c < Z.of_nat j /\ 0 <= p2_of c < Z.of_nat j).
Definition BInv (b : bstate) : Prop :=
  scoped (b_rows b) /\ Forall (fun i => 0 <= i < Z.of_nat (length (b_rows b))) (b_stack b).
Definition tree_at (rows : stack) (i : Z) : expr := nth (Z.to_nat i) (denote_all rows) (EInt 0).

Lemma tree_at_app rows ext i : 0 <= i < Z.of_nat (length rows) -> tree_at (rows ++ ext) i = tree_at rows i.
Proof. intros H. unfold tree_at. apply denote_all_prefix. lia. Qed.
Lemma scoped_snoc rows c : scoped rows ->
  (is_terminal (node_of c) = true \/ (0 <= p1_of c < Z.of_nat (length rows) /\ 0 <= p2_of c < Z.of_nat (length rows))) ->
  scoped (rows ++ [c]).
Proof.
  intros S H j Hj. rewrite app_length in Hj. cbn in Hj. destruct (Nat.eq_dec j (length rows)) as [->|N].
  - rewrite app_nth2, Nat.sub_diag by lia. exact H.
  - rewrite app_nth1 by lia. apply S. lia.
Qed.

Lemma find_cmd_spec c : forall rows i j, find_cmd c rows i = Some j ->
  i <= j < i + Z.of_nat (length rows) /\ nth (Z.to_nat (j - i)) rows dflt_cmd = c.
Proof.
  induction rows as [|r rows IH]; intros i j H; cbn [find_cmd] in H; [discriminate|].
  destruct (cmd_eqb3 c r) eqn:E.
  - injection H as <-. cbn [length]. split; [lia|]. rewrite Z.sub_diag. cbn.
    unfold cmd_eqb3 in E. apply andb_prop in E as [E E3]. apply andb_prop in E as [E1 E2].
    apply Z.eqb_eq in E1, E2, E3. destruct c as [[a b] d], r as [[a' b'] d']. cbn in *. subst. reflexivity.
  - destruct (IH _ _ H) as [B N]. cbn [length]. split; [lia|].
    replace (Z.to_nat (j - i)) with (S (Z.to_nat (j - (i + 1)))) by lia. exact N.
Qed.

(* the tree of a row is determined by its command and the trees of its operands *)
Lemma tree_at_row rows j : scoped rows -> (j < length rows)%nat ->
  tree_at rows (Z.of_nat j) = mk_expr (nth j rows dflt_cmd) (tree_at rows).
Proof.
  intros S Hj. unfold tree_at at 1. rewrite Nat2Z.id. rewrite denote_all_nth by exact Hj.
  set (c := nth j rows dflt_cmd). specialize (S j Hj). fold c in S. cbn zeta in S.
  assert (Pre : forall x, 0 <= x < Z.of_nat j -> lookup (denote_all (firstn j rows)) (EInt 0) x = tree_at rows x).
  { intros x Hx. rewrite lookup_nat by lia. unfold tree_at. rewrite <- (firstn_skipn j rows) at 2.
    symmetry. apply denote_all_prefix. rewrite firstn_length. lia. }
  unfold mk_expr. destruct S as [T|[B1 B2]].
  - destruct (is_terminal_true _ T) as [E|[E|E]]; rewrite E; reflexivity.
  - destruct (node_of c =? INTEGER); [reflexivity|]. destruct (node_of c =? VARIABLE); [reflexivity|].
    destruct (node_of c =? CONSTANT); [reflexivity|]. rewrite !Pre by assumption. reflexivity.
Qed.

(* pushing a command: a new row, or the index of the equal existing row - either way the index denotes the command's tree *)
Lemma push_cmd_spec b stk consts c :
  scoped (b_rows b) -> Forall (fun i => 0 <= i < Z.of_nat (length (b_rows b))) stk ->
  (is_terminal (node_of c) = true \/ (0 <= p1_of c < Z.of_nat (length (b_rows b)) /\ 0 <= p2_of c < Z.of_nat (length (b_rows b)))) ->
  let b' := push_cmd b stk consts c in
  BInv b' /\ b_consts b' = consts /\
  exists i ext, b_stack b' = i :: stk /\ b_rows b' = b_rows b ++ ext /\ 0 <= i < Z.of_nat (length (b_rows b')) /\
    tree_at (b_rows b') i = mk_expr c (tree_at (b_rows b)) /\
    ((ext = [c] /\ i = Z.of_nat (length (b_rows b))) \/ (ext = [] /\ i < Z.of_nat (length (b_rows b)))).
Proof.
  intros S F H. unfold push_cmd. destruct (find_cmd c (b_rows b) 0) as [j|] eqn:E; cbn zeta.
  - destruct (find_cmd_spec _ _ _ _ E) as [Bj Nj]. rewrite Z.sub_0_r in Nj. cbn [b_stack b_rows b_consts].
    split; [unfold BInv; cbn [b_stack b_rows]; split; [exact S|constructor; [lia|exact F]]|]. split; [reflexivity|].
    exists j, []. rewrite app_nil_r. repeat split; try lia.
    + rewrite <- (Z2Nat.id j) at 1 by lia. rewrite tree_at_row by (try exact S; lia). rewrite Nj. reflexivity.
    + right. split; [reflexivity|lia].
  - cbn [b_stack b_rows b_consts]. split; [unfold BInv; cbn [b_stack b_rows]; split|].
    + apply scoped_snoc; assumption.
    + rewrite app_length. cbn [length]. constructor; [lia|]. eapply Forall_impl; [|exact F]. cbn. intros; lia.
    + split; [reflexivity|]. exists (Z.of_nat (length (b_rows b))), [c]. rewrite app_length. cbn [length].
      repeat split; try lia.
      * unfold tree_at at 1. rewrite Nat2Z.id, denote_all_snoc, app_nth2 by (rewrite denote_all_length; lia).
        rewrite denote_all_length, Nat.sub_diag. cbn [nth].
        unfold mk_expr. destruct H as [T|[B1 B2]].
        -- destruct (is_terminal_true _ T) as [E'|[E'|E']]; rewrite E'; reflexivity.
        -- destruct (node_of c =? INTEGER); [reflexivity|]. destruct (node_of c =? VARIABLE); [reflexivity|].
           destruct (node_of c =? CONSTANT); [reflexivity|]. unfold tree_at. rewrite !lookup_nat by lia. reflexivity.
      * left. split; reflexivity.
Qed.

(* ---------- the builder on the postfix form of a tree ---------- *)
Definition run_b (ts : list tok) (s : option bstate) := fold_left build_step ts s.
Lemma run_b_app a b s : run_b (a ++ b) s = run_b b (run_b a s).
Proof. apply fold_left_app. Qed.

Definition built (q : qexpr) (b b' : bstate) : Prop :=
  BInv b' /\ exists i ext, b_stack b' = i :: b_stack b /\ b_rows b' = b_rows b ++ ext /\
    b_consts b' = b_consts b ++ q_lits q /\ 0 <= i < Z.of_nat (length (b_rows b')) /\
    tree_at (b_rows b') i = fst (q_expr q (Z.of_nat (length (b_consts b)))) /\
    (ext <> [] -> i = Z.of_nat (length (b_rows b')) - 1).

Lemma atom_built b consts' c (q : qexpr) e :
  BInv b -> is_terminal (node_of c) = true -> mk_expr c (tree_at (b_rows b)) = e ->
  consts' = b_consts b ++ q_lits q -> fst (q_expr q (Z.of_nat (length (b_consts b)))) = e ->
  built q b (push_cmd b (b_stack b) consts' c).
Proof.
  intros [S F] T M Ec Eq. destruct (push_cmd_spec b (b_stack b) consts' c S F (or_introl T)) as (I' & C' & i & ext & St & Rw & Bi & Tr & Alt).
  split; [exact I'|]. exists i, ext. split; [exact St|]. split; [exact Rw|]. split; [rewrite C'; exact Ec|]. split; [exact Bi|].
  split; [rewrite Tr, M, Eq; reflexivity|]. intros NE. destruct Alt as [[-> ->]|[-> _]]; [|congruence].
  rewrite Rw, app_length. cbn [length]. lia.
Qed.

Lemma operator_row_scoped rows j c : scoped rows -> 0 <= j < Z.of_nat (length rows) -> nth (Z.to_nat j) rows dflt_cmd = c ->
  is_terminal (node_of c) = false -> p1_of c < j /\ p2_of c < j.
Proof.
  intros S B N T. specialize (S (Z.to_nat j) ltac:(lia)). cbn zeta in S. rewrite N in S. destruct S as [S|[S1 S2]]; [congruence|]. lia.
Qed.

Theorem build_post q : q_ok q = true -> forall b, BInv b -> exists b', run_b (post q) (Some b) = Some b' /\ built q b b'.
Proof.
  induction q as [t|f a IHa|o a IHa x IHx]; intros Q b I; cbn [q_ok] in Q.
  - destruct t as [| | | |n k|k|txt|]; try discriminate Q; cbn [post run_b fold_left build_step]; try rewrite Q; eexists; (split; [reflexivity|]).
    + apply andb_prop in Q as [En _]. apply Z.eqb_eq in En. subst n.
      eapply atom_built; try exact I; try reflexivity. cbn [q_lits]. rewrite app_nil_r. reflexivity.
    + eapply atom_built; try exact I; try reflexivity. cbn [q_lits]. rewrite app_nil_r. reflexivity.
    + eapply atom_built; try exact I; try reflexivity.
  - (* f(a) *)
    apply andb_prop in Q as [U Qa]. destruct (IHa Qa b I) as (b1 & R1 & I1 & ia & ea & St1 & Rw1 & Cs1 & Bi1 & Tr1 & L1).
    cbn [post]. rewrite run_b_app. rewrite R1. cbn [run_b fold_left build_step]. rewrite St1.
    unfold unary_node in U. apply andb_prop in U as [T A2]. apply negb_true_iff in T, A2.
    destruct I as [S0 F0]. destruct I1 as [S1 F1]. rewrite St1 in F1. inversion F1 as [|? ? Bia F1']; subst.
    destruct (push_cmd_spec b1 (b_stack b) (b_consts b1) (f, ia, ia) S1 F1' (or_intror (conj Bia Bia))) as (I' & C' & i & ext & St & Rw & Bi & Tr & Alt).
    eexists. split; [reflexivity|]. split; [exact I'|]. exists i, (ea ++ ext).
    split; [exact St|]. split; [rewrite Rw, Rw1; repeat rewrite <- app_assoc; reflexivity|]. split; [rewrite C', Cs1; reflexivity|]. split; [exact Bi|]. split.
    + rewrite Tr. cbn [q_expr]. destruct (q_expr a (Z.of_nat (length (b_consts b)))) as [ex n1] eqn:Eq. cbn [fst] in *.
      unfold mk_expr; cbn [node_of p1_of p2_of fst snd]. destruct (is_terminal_false _ T) as (N1 & N2 & N3).
      destruct (Z.eqb_spec f INTEGER); [contradiction|]. destruct (Z.eqb_spec f VARIABLE); [contradiction|].
      destruct (Z.eqb_spec f CONSTANT); [contradiction|]. rewrite A2, Tr1. reflexivity.
    + intros NE. destruct Alt as [[-> ->]|[-> Lt]].
      * rewrite Rw, app_length. cbn [length]. lia.
      * (* the final command hit an existing row: nothing was created before either *)
        rewrite app_nil_r in NE, Rw. exfalso. specialize (L1 NE).
        unfold push_cmd in St, Rw. destruct (find_cmd (f, ia, ia) (b_rows b1) 0) as [j|] eqn:E.
        -- cbn [b_stack] in St. injection St as <-. destruct (find_cmd_spec _ _ _ _ E) as [Bj Nj]. rewrite Z.sub_0_r in Nj.
           destruct (operator_row_scoped (b_rows b1) j (f, ia, ia) S1 ltac:(lia) Nj T) as [P _]. cbn [p1_of fst snd] in P. lia.
        -- cbn [b_rows] in Rw. apply (f_equal (@length cmd)) in Rw. rewrite app_length in Rw. cbn in Rw. lia.
  - (* a o x *)
    destruct o as [n pr w| | | | | | |]; try discriminate Q. apply andb_prop in Q as [Q Qx]. apply andb_prop in Q as [A2 Qa].
    destruct (IHa Qa b I) as (b1 & R1 & I1 & ia & ea & St1 & Rw1 & Cs1 & Bi1 & Tr1 & L1).
    destruct (IHx Qx b1 I1) as (b2 & R2 & I2 & ix & ex & St2 & Rw2 & Cs2 & Bi2 & Tr2 & L2).
    cbn [post]. rewrite !run_b_app. rewrite R1, R2. cbn [run_b fold_left build_step]. rewrite St2, St1.
    destruct I as [S0 F0]. destruct I1 as [S1 F1]. destruct I2 as [S2 F2]. rewrite St2, St1 in F2.
    inversion F2 as [|? ? Bix F2']; subst. inversion F2' as [|? ? Bia2 F2'']; subst.
    assert (T : is_terminal n = false) by (destruct (is_terminal n) eqn:T; [|reflexivity]; destruct (is_terminal_true _ T) as [-> | [-> | ->]]; discriminate A2).
    destruct (push_cmd_spec b2 (b_stack b) (b_consts b2) (n, ia, ix) S2 F2'' (or_intror (conj Bia2 Bix))) as (I' & C' & i & ext & St & Rw & Bi & Tr & Alt).
    eexists. split; [reflexivity|]. split; [exact I'|]. exists i, (ea ++ ex ++ ext).
    split; [exact St|]. split; [rewrite Rw, Rw2, Rw1; repeat rewrite <- app_assoc; reflexivity|]. split; [rewrite C', Cs2, Cs1; repeat rewrite <- app_assoc; reflexivity|].
    split; [exact Bi|]. split.
    + rewrite Tr. cbn [q_expr]. destruct (q_expr a (Z.of_nat (length (b_consts b)))) as [ea' n1] eqn:Eqa.
      assert (En1 : n1 = Z.of_nat (length (b_consts b1))).
      { pose proof (q_expr_count a (Z.of_nat (length (b_consts b)))) as Hc. rewrite Eqa in Hc. cbn [snd] in Hc.
        rewrite Cs1, app_length. lia. }
      rewrite En1. destruct (q_expr x (Z.of_nat (length (b_consts b1)))) as [ex' n2] eqn:Eqx. cbn [fst] in *.
      unfold mk_expr; cbn [node_of p1_of p2_of fst snd]. destruct (is_terminal_false _ T) as (N1 & N2 & N3).
      destruct (Z.eqb_spec n INTEGER); [contradiction|]. destruct (Z.eqb_spec n VARIABLE); [contradiction|].
      destruct (Z.eqb_spec n CONSTANT); [contradiction|]. rewrite A2. f_equal.
      * rewrite Rw2. rewrite tree_at_app by exact Bi1. exact Tr1.
      * exact Tr2.
    + intros NE. destruct Alt as [[-> ->]|[-> Lt]].
      * rewrite Rw, app_length. cbn [length]. lia.
      * rewrite app_nil_r in NE, Rw. exfalso.
        unfold push_cmd in St, Rw. destruct (find_cmd (n, ia, ix) (b_rows b2) 0) as [j|] eqn:E.
        -- cbn [b_stack] in St. injection St as <-. destruct (find_cmd_spec _ _ _ _ E) as [Bj Nj]. rewrite Z.sub_0_r in Nj.
           destruct (operator_row_scoped (b_rows b2) j (n, ia, ix) S2 ltac:(lia) Nj T) as [P1 P2]. cbn [p1_of p2_of fst snd] in P1, P2.
           destruct ex as [|r0 ex0].
           ++ rewrite app_nil_r in NE, Rw2. assert (NEa : ea <> []) by exact NE. specialize (L1 NEa). rewrite Rw2 in Bj. lia.
           ++ assert (NEx : r0 :: ex0 <> []) by discriminate. specialize (L2 NEx). lia.
        -- cbn [b_rows] in Rw. apply (f_equal (@length cmd)) in Rw. rewrite app_length in Rw. cbn in Rw. lia.
Qed.

(* from the empty state: the root is the LAST row (the row an AGraph evaluates), and the constants are the literals in order *)
Theorem build_printed q : q_ok q = true ->
  exists rows, build (post q) = Some (rows, q_lits q) /\ rows <> [] /\
    scoped rows /\ denote rows = fst (q_expr q 0).
Proof.
  intros Q. assert (I0 : BInv (mkB [] [] [])).
  { split; [intros j H; cbn in H; lia|constructor]. }
  destruct (build_post q Q (mkB [] [] []) I0) as (b' & R & I' & i & ext & St & Rw & Cs & Bi & Tr & L).
  cbn [b_stack b_rows b_consts app length] in *. unfold build. unfold run_b in R. rewrite R, St. exists (b_rows b').
  rewrite Cs. split; [reflexivity|].
  assert (NE : b_rows b' <> []) by (intros E; rewrite E in Bi; cbn in Bi; lia).
  split; [exact NE|]. split; [apply I'|]. rewrite Rw in NE. specialize (L NE).
  change (Z.of_nat 0) with 0 in Tr. unfold denote. rewrite <- Tr. unfold tree_at. rewrite L.
  rewrite <- (nth_last (denote_all (b_rows b')) (EInt 0)). rewrite denote_all_length. f_equal. lia.
Qed.

(* ---------- meaning: the recovered tree means what the printed tree means ---------- *)
Section Sem.
Context {V : Type} (A : alg V).
Variable xv : Z -> V.
Variable val : str -> V.                 (* float(token) as a value *)

Definition tok_node (o : tok) : Z := match o with TOp node _ _ => node | _ => 0 end.
Fixpoint qsem (q : qexpr) : V :=
  match q with
  | QAtom (TVarConst _ k) => xv k
  | QAtom (TInt k) => a_of_int A k
  | QAtom (TLit t) => val t
  | QAtom _ => a_of_int A 0
  | QOp1 f a => sem_op1 A f (qsem a)
  | QOp2 o a b => sem_op2 A (tok_node o) (qsem a) (qsem b)
  end.
Fixpoint psem (e : pexpr) : V :=
  match e with
  | PVar k => xv k | PInt k => a_of_int A k | PLitc t => val t
  | POp1 f a => sem_op1 A f (psem a)
  | PAdd a b => a_add A (psem a) (psem b)
  | PSub a b => a_sub A (psem a) (psem b)
  | PBin n _ _ a b => sem_op2 A n (psem a) (psem b)
  | PSafe a b => a_pow A (a_abs A (psem a)) (psem b)
  end.

(* the two re-association laws the printer relies on (true of the reals; floating point satisfies them up to rounding) *)
Hypothesis add_assoc : forall a b c, a_add A a (a_add A b c) = a_add A (a_add A a b) c.
Hypothesis add_sub_assoc : forall a b c, a_add A a (a_sub A b c) = a_sub A (a_add A a b) c.

Lemma recov_sem e : forall pending,
  qsem (recov e pending) = match pending with None => psem e | Some t0 => a_add A (qsem t0) (psem e) end.
Proof.
  induction e as [k|k|t|f a IHa|a IHa b IHb|a IHa b IHb|n pr w a IHa b IHb|a IHa b IHb]; intros pending; cbn [recov psem].
  - destruct pending; reflexivity.
  - destruct pending; reflexivity.
  - destruct pending; reflexivity.
  - destruct pending; cbn [qsem]; rewrite (IHa None); reflexivity.
  - rewrite IHb, IHa. destruct pending as [t0|]; [|reflexivity]. symmetry. apply add_assoc.
  - cbn [qsem]. rewrite IHa, (IHb None). destruct pending as [t0|]; [|reflexivity].
    change (sem_op2 A (tok_node T_SUB) (a_add A (qsem t0) (psem a)) (psem b)) with (a_sub A (a_add A (qsem t0) (psem a)) (psem b)).
    symmetry. apply add_sub_assoc.
  - destruct pending; cbn [qsem]; rewrite (IHa None), (IHb None); reflexivity.
  - destruct pending; cbn [qsem]; rewrite (IHa None), (IHb None); reflexivity.
Qed.

(* the C01 expression of a parse tree means the same, when constant k holds the value of the k-th literal *)
Lemma q_expr_sem q : forall n cv, (forall k, (k < length (q_lits q))%nat -> cv (n + Z.of_nat k) = val (nth k (q_lits q) [])) ->
  sem A xv cv (fst (q_expr q n)) = qsem q.
Proof.
  induction q as [t|f a IHa|o a IHa b IHb]; intros n cv H; cbn [q_expr qsem q_lits] in *.
  - destruct t; cbn [fst sem]; try reflexivity. specialize (H O ltac:(cbn; lia)). cbn in H. rewrite Z.add_0_r in H. exact H.
  - specialize (IHa n cv H). destruct (q_expr a n) as [ea n1]. cbn [fst sem] in *. rewrite IHa. reflexivity.
  - pose proof (q_expr_count a n) as Ca. specialize (IHa n cv). destruct (q_expr a n) as [ea n1]. cbn [snd] in Ca.
    specialize (IHb n1 cv). destruct (q_expr b n1) as [eb n2]. cbn [fst sem] in *. rewrite IHa, IHb; [reflexivity| |].
    + intros k Hk. rewrite Ca. specialize (H (length (q_lits a) + k)%nat ltac:(rewrite app_length; lia)).
      rewrite app_nth2 in H by lia. replace (length (q_lits a) + k - length (q_lits a))%nat with k in H by lia.
      rewrite <- H. f_equal. lia.
    + intros k Hk. specialize (H k ltac:(rewrite app_length; lia)). rewrite app_nth1 in H by lia. exact H.
Qed.
End Sem.

(* ---------- printed trees are well-formed parse trees ---------- *)
Fixpoint p_ok (e : pexpr) : bool :=
  match e with
  | PVar k => 0 <=? k | PInt k => k <=? 9223372036854775807 | PLitc _ => true
  | POp1 f a => unary_node f && p_ok a
  | PAdd a b | PSub a b | PSafe a b => p_ok a && p_ok b
  | PBin n pr _ a b => is_arity_2 n && (0 <? pr) && p_ok a && p_ok b
  end.
Lemma p_ok_prec e : p_ok e = true -> prec_ok e = true.
Proof.
  induction e as [k|k|t|f a IHa|a IHa b IHb|a IHa b IHb|n pr w a IHa b IHb|a IHa b IHb]; cbn [p_ok prec_ok]; intros H; try reflexivity.
  - apply andb_prop in H as [_ H]. auto.
  - apply andb_prop in H as [H1 H2]. rewrite IHa, IHb by assumption. reflexivity.
  - apply andb_prop in H as [H1 H2]. rewrite IHa, IHb by assumption. reflexivity.
  - apply andb_prop in H as [H H4]. apply andb_prop in H as [H H3]. apply andb_prop in H as [H1 H2].
    rewrite H2, IHa, IHb by assumption. reflexivity.
  - apply andb_prop in H as [H1 H2]. rewrite IHa, IHb by assumption. reflexivity.
Qed.
Lemma recov_ok e : p_ok e = true -> forall pending, match pending with None => True | Some t0 => q_ok t0 = true end ->
  q_ok (recov e pending) = true.
Proof.
  induction e as [k|k|t|f a IHa|a IHa b IHb|a IHa b IHb|n pr w a IHa b IHb|a IHa b IHb]; cbn [p_ok]; intros H pending HP; cbn [recov].
  - destruct pending as [t0|]; cbn [q_ok]; rewrite ?HP, ?H; reflexivity.
  - destruct pending as [t0|]; cbn [q_ok T_ADD]; rewrite ?HP, ?H; reflexivity.
  - destruct pending as [t0|]; cbn [q_ok]; rewrite ?HP; reflexivity.
  - apply andb_prop in H as [H1 H2]. specialize (IHa H2 None I).
    destruct pending as [t0|]; cbn [q_ok T_ADD]; rewrite ?HP, H1, IHa; reflexivity.
  - apply andb_prop in H as [H1 H2]. apply IHb; [exact H2|]. apply IHa; assumption.
  - apply andb_prop in H as [H1 H2]. cbn [q_ok T_SUB]. rewrite (IHa H1 pending HP), (IHb H2 None I). reflexivity.
  - apply andb_prop in H as [H H4]. apply andb_prop in H as [H H3]. apply andb_prop in H as [H1 H2].
    specialize (IHa H3 None I). specialize (IHb H4 None I).
    destruct pending as [t0|]; cbn [q_ok T_ADD]; rewrite ?HP, H1, IHa, IHb; reflexivity.
  - apply andb_prop in H as [H1 H2]. specialize (IHa H1 None I). specialize (IHb H2 None I).
    destruct pending as [t0|]; cbn [q_ok T_ADD T_POW]; rewrite ?HP, IHa, IHb; reflexivity.
Qed.

(* ---------- tokens of a printed equation -> command array: the whole token-level pipeline ---------- *)
Theorem parse_printed_tokens e : p_ok e = true ->
  exists rows, infix_to_postfix (toks e) = Some (post (recov e None)) /\
               build (post (recov e None)) = Some (rows, q_lits (recov e None)) /\
               rows <> [] /\ scoped rows /\ denote rows = fst (q_expr (recov e None) 0).
Proof.
  intros H. destruct (build_printed (recov e None) (recov_ok e H None I)) as (rows & B & NE & S & D).
  exists rows. split; [apply infix_to_postfix_printed; apply p_ok_prec; exact H|]. auto.
Qed.

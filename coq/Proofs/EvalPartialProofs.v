(* Proofs about the raising-fitness extension of Model/EvalPhase.v (property C19). *)
From Coq Require Import List Bool Arith.
From Bingo Require Import Model.EvalPhase.
Import ListNotations.

Section P.
Variables (G F : Type) (fit : G -> F) (opt : G -> G) (k : G -> nat) (faulty : G -> bool).
Notation indiv := (indiv G F).

(* the phase returns iff no due individual makes the fitness function raise, and then it returns exactly
   what the total model returns *)
Lemma serial_p_some red : forall pop c r,
  serial_eval_p G F fit opt k faulty red c pop = Some r ->
  r = serial_eval G F fit opt k red c pop /\ existsb (due_faulty G F faulty red) pop = false.
Proof.
  induction pop as [|i pop IH]; intros c r; cbn [serial_eval_p serial_eval existsb].
  - intros [= <-]. split; reflexivity.
  - unfold due_faulty at 1. destruct (due G F red i) eqn:Ed; cbn [andb].
    + destruct (faulty (genome G F i)) eqn:Ef; [discriminate|].
      destruct (fitness_call G F fit opt k c i) as [c1 i'] eqn:Efc.
      destruct (serial_eval_p G F fit opt k faulty red c1 pop) as [[c2 r']|] eqn:Es; [|discriminate].
      intros [= <-]. destruct (IH c1 (c2, r') Es) as [H1 H2]. rewrite <- H1. cbn [orb]. split; [reflexivity|exact H2].
    + destruct (serial_eval_p G F fit opt k faulty red c pop) as [[c2 r']|] eqn:Es; [|discriminate].
      intros [= <-]. destruct (IH c (c2, r') Es) as [H1 H2]. rewrite <- H1. cbn [orb]. split; [reflexivity|exact H2].
Qed.

Lemma serial_p_none red : forall pop c,
  serial_eval_p G F fit opt k faulty red c pop = None -> existsb (due_faulty G F faulty red) pop = true.
Proof.
  induction pop as [|i pop IH]; intros c; cbn [serial_eval_p existsb]; [discriminate|].
  unfold due_faulty at 1. destruct (due G F red i) eqn:Ed; cbn [andb].
  - destruct (faulty (genome G F i)) eqn:Ef; [reflexivity|]. cbn [orb].
    destruct (fitness_call G F fit opt k c i) as [c1 i'] eqn:Efc.
    destruct (serial_eval_p G F fit opt k faulty red c1 pop) as [[c2 r']|] eqn:Es; [discriminate|].
    intros _. exact (IH c1 Es).
  - cbn [orb]. destruct (serial_eval_p G F fit opt k faulty red c pop) as [[c2 r']|] eqn:Es; [discriminate|].
    intros _. exact (IH c Es).
Qed.

Lemma multi_p_some red perm fresh c pop r :
  multiprocess_eval_p G F fit opt k faulty red perm fresh c pop = Some r ->
  r = multiprocess_eval G F fit opt k red perm fresh c pop /\ existsb (due_faulty G F faulty red) pop = false.
Proof.
  unfold multiprocess_eval_p. destruct (existsb (due_faulty G F faulty red) pop); [discriminate|].
  intros [= <-]. split; reflexivity.
Qed.

Lemma multi_p_none red perm fresh c pop :
  multiprocess_eval_p G F fit opt k faulty red perm fresh c pop = None ->
  existsb (due_faulty G F faulty red) pop = true.
Proof.
  unfold multiprocess_eval_p. destruct (existsb (due_faulty G F faulty red) pop); [reflexivity|discriminate].
Qed.

(* serial and multi-process evaluation raise on exactly the same populations *)
Lemma raise_agreement red perm fresh c pop :
  serial_eval_p G F fit opt k faulty red c pop = None <->
  multiprocess_eval_p G F fit opt k faulty red perm fresh c pop = None.
Proof.
  split; intros H.
  - apply serial_p_none in H. unfold multiprocess_eval_p. rewrite H. reflexivity.
  - apply multi_p_none in H.
    destruct (serial_eval_p G F fit opt k faulty red c pop) as [r|] eqn:E; [|reflexivity].
    apply serial_p_some in E as [_ E]. congruence.
Qed.
End P.

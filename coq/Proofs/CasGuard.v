(* Property C03: the integer-exponent guard of Model/Cas.v never fires on expressions all of whose power nodes carry INTEGER-leaf
   exponents (in particular on every expression built from a stack without power operators: division contributes only the
   exponent -1).  On such expressions the guarded model (iexp = true, the one the pointwise theorem over the reals is about) and
   the model of the code as written (iexp = false) compute the same result, and the result is again such an expression. *)
From Coq Require Import ZArith List Bool Lia.
From Bingo Require Import Lib.Alg Gen.OpDefs Model.Stack Model.Cas Proofs.CasProofs.
Import ListNotations.
Local Open Scope Z_scope.

Definition pow_ok (o : Z) (l : list cexpr) : bool :=
  if (o =? POWER) || (o =? SAFE_POWER) then match l with [_; ex] => is_int ex | _ => false end else true.
Fixpoint int_exps (e : cexpr) : bool :=
  match e with
  | Leaf _ _ => true
  | Node o l => pow_ok o l && (fix all (l : list cexpr) : bool := match l with [] => true | x :: r => int_exps x && all r end) l
  end.
Notation all_ie := (forallb int_exps).
Lemma int_exps_node o l : int_exps (Node o l) = pow_ok o l && all_ie l.
Proof.
  cbn [int_exps]. fold int_exps.
  assert (E : (fix all (l0 : list cexpr) : bool := match l0 with [] => true | x :: r => int_exps x && all r end) l = all_ie l).
  { induction l as [|x r IH]; [reflexivity|]. cbn [forallb]. rewrite IH. reflexivity. }
  rewrite E. reflexivity.
Qed.
Lemma is_int_ie e : is_int e = true -> int_exps e = true.
Proof. destruct e; [reflexivity|discriminate]. Qed.
Lemma ie_mul l : int_exps (Node MULTIPLICATION l) = all_ie l. Proof. rewrite int_exps_node. reflexivity. Qed.
Lemma ie_add l : int_exps (Node ADDITION l) = all_ie l. Proof. rewrite int_exps_node. reflexivity. Qed.
Lemma ie_pow b ex : int_exps (Node POWER [b; ex]) = is_int ex && (int_exps b && (int_exps ex && true)).
Proof. rewrite int_exps_node. reflexivity. Qed.
Lemma ie_pow_intro b ex : int_exps b = true -> is_int ex = true -> int_exps (Node POWER [b; ex]) = true.
Proof. intros Hb He. rewrite ie_pow, He, Hb, (is_int_ie _ He). reflexivity. Qed.
Lemma all_ie_in l x : all_ie l = true -> In x l -> int_exps x = true.
Proof. intros H Hin. rewrite forallb_forall in H. apply H. exact Hin. Qed.

Lemma ie_factors e : int_exps e = true -> all_ie (factors e) = true.
Proof.
  unfold factors. destruct e as [o v|o l]; cbn [is_mul]; [reflexivity|]. intros H.
  destruct (o =? MULTIPLICATION); [|cbn [forallb]; rewrite H; reflexivity]. rewrite int_exps_node in H. apply andb_prop in H as [_ H]. exact H.
Qed.
Lemma ie_addends e : int_exps e = true -> all_ie (addends e) = true.
Proof.
  unfold addends. destruct e as [o v|o l]; cbn [is_add]; [reflexivity|]. intros H.
  destruct (o =? ADDITION); [|cbn [forallb]; rewrite H; reflexivity]. rewrite int_exps_node in H. apply andb_prop in H as [_ H]. exact H.
Qed.
Lemma ie_base e b : int_exps e = true -> base_of e = Some b -> int_exps b = true.
Proof.
  unfold base_of. destruct e as [o v|o l]; intros H E.
  - destruct (o =? INTEGER); [discriminate|]. injection E as <-. reflexivity.
  - destruct (Z.eqb_spec o POWER) as [->|N]; injection E as <-; [|exact H].
    rewrite int_exps_node in H. apply andb_prop in H as [P H]. destruct l as [|x [|y [|? ?]]]; try discriminate P.
    cbn in H. apply andb_prop in H as [H _]. exact H.
Qed.
Lemma ie_exponent e x : int_exps e = true -> exponent_of e = Some x -> is_int x = true.
Proof.
  unfold exponent_of. destruct e as [o v|o l]; intros H E.
  - destruct (o =? INTEGER); [discriminate|]. injection E as <-. reflexivity.
  - destruct (Z.eqb_spec o POWER) as [->|N]; injection E as <-; [|reflexivity].
    rewrite int_exps_node in H. apply andb_prop in H as [P _]. destruct l as [|a [|y [|? ?]]]; try discriminate P. exact P.
Qed.
Lemma ie_term e t : int_exps e = true -> term_of e = Some t -> int_exps t = true.
Proof.
  unfold term_of. destruct e as [o v|o l]; intros H E.
  - destruct (o =? INTEGER); [discriminate|]. injection E as <-. reflexivity.
  - destruct (Z.eqb_spec o MULTIPLICATION) as [->|N].
    + destruct (has_coeff (Node MULTIPLICATION l)); injection E as <-; [|exact H].
      rewrite ie_mul in *. destruct l as [|h r]; [reflexivity|]. cbn in H. apply andb_prop in H as [_ H]. exact H.
    + injection E as <-. rewrite ie_mul. cbn [forallb]. rewrite H. reflexivity.
Qed.
Lemma ie_coefficient e c : int_exps e = true -> coefficient_of e = Some c -> int_exps c = true.
Proof.
  unfold coefficient_of. destruct e as [o v|o l]; intros H E.
  - destruct (o =? INTEGER); [discriminate|]. injection E as <-. reflexivity.
  - destruct (has_coeff (Node o l)) eqn:Hc; injection E as <-; [|reflexivity].
    cbn [has_coeff] in Hc. apply andb_prop in Hc as [_ Hc]. destruct l as [|h r]; [reflexivity|]. cbn [nth] in *.
    destruct h as [oh vh|oh lh]; [reflexivity|]. cbn in Hc. discriminate Hc.
Qed.

Lemma mapM_ext_in {X Y} (g h : X -> option Y) l : (forall x, In x l -> g x = h x) -> mapM g l = mapM h l.
Proof.
  induction l as [|x l IH]; intros H; [reflexivity|]. cbn [mapM]. rewrite (H x (or_introl eq_refl)).
  rewrite IH by (intros y Hy; apply H; right; exact Hy). reflexivity.
Qed.
Lemma mapM_all {X} (g : X -> option cexpr) l l' : mapM g l = Some l' -> (forall x y, In x l -> g x = Some y -> int_exps y = true) ->
  all_ie l' = true.
Proof.
  intros H P. apply mapM_spec in H. induction H as [|x y l l' Hxy _ IH]; [reflexivity|]. cbn [forallb].
  rewrite (P x y (or_introl eq_refl) Hxy), IH; [reflexivity|]. intros x' y' Hin. apply P. right. exact Hin.
Qed.

(* "the guarded and the unguarded run agree, and the result satisfies P" *)
Definition ok1 {X} (P : X -> Prop) (t f : option X) : Prop := t = f /\ forall r, f = Some r -> P r.
Lemma ok1_some {X} (P : X -> Prop) x : P x -> ok1 P (Some x) (Some x).
Proof. intros H. split; [reflexivity|]. intros r E. injection E as <-. exact H. Qed.
Lemma ok1_none {X} (P : X -> Prop) : ok1 P None None.
Proof. split; [reflexivity|]. intros r E. discriminate E. Qed.
Lemma ok1_bind {X Y} (P : X -> Prop) (Q : Y -> Prop) t f kt kf :
  ok1 P t f -> (forall x, f = Some x -> P x -> ok1 Q (kt x) (kf x)) -> ok1 Q (o_bind t kt) (o_bind f kf).
Proof. intros [-> Hp] K. destruct f as [x|]; cbn [o_bind]; [apply K; [reflexivity|apply Hp; reflexivity]|apply ok1_none]. Qed.
Lemma ok1_weaken {X} (P Q : X -> Prop) t f : (forall x, P x -> Q x) -> ok1 P t f -> ok1 Q t f.
Proof. intros W [E H]. split; [exact E|]. intros r Er. apply W, H, Er. Qed.
Lemma ok1_mapM (g h : cexpr -> option cexpr) l :
  (forall x, In x l -> ok1 (fun r => int_exps r = true) (g x) (h x)) -> ok1 (fun l' => all_ie l' = true) (mapM g l) (mapM h l).
Proof.
  induction l as [|x l IH]; intros H; [apply ok1_some; reflexivity|]. cbn [mapM].
  apply (ok1_bind _ _ _ _ _ _ (H x (or_introl eq_refl))). intros y _ Hy.
  apply (ok1_bind _ _ _ _ _ _ (IH (fun z Hz => H z (or_intror Hz)))). intros ys _ Hys. apply ok1_some. cbn [forallb]. rewrite Hy, Hys. reflexivity.
Qed.

Section Guard.
Variable chk : bool.
(* unbounded integer folding: no folded integer is ever rejected as too large for the command array *)
Variable fits : Z -> bool.
Hypothesis fits_all : forall k, fits k = true.
Notation IE := (fun r : cexpr => int_exps r = true).
Notation AIE := (fun l : list cexpr => all_ie l = true).

(* sums and products of two integer leaves are integer leaves *)
Lemma sum_ints iexp f x y r : is_int x = true -> is_int y = true ->
  simplify_sum chk iexp fits f (Node ADDITION [x; y]) = Some r -> is_int r = true.
Proof.
  intros Hx Hy H. destruct f as [|[|f]]; try discriminate H. rewrite s_sum_eq in H. cbn [args_of] in H. rewrite s_srec_eq in H.
  rewrite Hx, Hy in H. cbn [andb] in H. rewrite fits_all in H. cbn [negb] in H. cbn zeta in H. destruct (is_zero (mk_int (leaf_val x + leaf_val y))); cbn [o_bind] in H; injection H as <-; reflexivity.
Qed.
Lemma prod_ints iexp f x y r : is_int x = true -> is_int y = true ->
  simplify_product chk iexp fits f (Node MULTIPLICATION [x; y]) = Some r -> is_int r = true.
Proof.
  intros Hx Hy H. destruct f as [|f]; [discriminate H|]. rewrite s_prod_eq in H. cbn [args_of] in H. cbn zeta in H.
  destruct (existsb (ceqb ZERO) [x; y]); [injection H as <-; reflexivity|]. destruct f as [|f]; [discriminate H|]. rewrite s_prec_eq in H.
  rewrite Hx, Hy in H. cbn [andb] in H. rewrite fits_all in H. cbn [negb] in H. cbn zeta in H. destruct (is_one (mk_int (leaf_val x * leaf_val y))); cbn [o_bind] in H; injection H as <-; reflexivity.
Qed.

Definition Q_pow f := forall b ex, int_exps b = true -> is_int ex = true ->
  ok1 IE (simplify_power chk true fits f (Node POWER [b; ex])) (simplify_power chk false fits f (Node POWER [b; ex])).
Definition Q_cpow f := forall b ex, int_exps b = true -> is_int ex = true ->
  ok1 IE (simplify_constant_power chk true fits f b ex) (simplify_constant_power chk false fits f b ex).
Definition Q_prod f := forall e, all_ie (args_of e) = true -> ok1 IE (simplify_product chk true fits f e) (simplify_product chk false fits f e).
Definition Q_prec f := forall ops, all_ie ops = true -> ok1 AIE (simplify_product_rec chk true fits f ops) (simplify_product_rec chk false fits f ops).
Definition Q_pmerge f := forall o1 o2, all_ie o1 = true -> all_ie o2 = true ->
  ok1 AIE (merge_products chk true fits f o1 o2) (merge_products chk false fits f o1 o2).
Definition Q_sum f := forall e, all_ie (args_of e) = true -> ok1 IE (simplify_sum chk true fits f e) (simplify_sum chk false fits f e).
Definition Q_srec f := forall ops, all_ie ops = true -> ok1 AIE (simplify_sum_rec chk true fits f ops) (simplify_sum_rec chk false fits f ops).
Definition Q_smerge f := forall o1 o2, all_ie o1 = true -> all_ie o2 = true ->
  ok1 AIE (merge_sums chk true fits f o1 o2) (merge_sums chk false fits f o1 o2).
Definition Q_all f := Q_pow f /\ Q_cpow f /\ Q_prod f /\ Q_prec f /\ Q_pmerge f /\ Q_sum f /\ Q_srec f /\ Q_smerge f.

Lemma g_pow f : Q_cpow f -> Q_pow (S f).
Proof.
  intros IH b ex Hb He. rewrite !s_pow_eq. cbn [args_of]. destruct (is_one b); [apply ok1_some; reflexivity|].
  destruct (is_zero b && is_int ex && (0 <? leaf_val ex)); [apply ok1_some; reflexivity|]. rewrite He. cbn [orb]. apply IH; assumption.
Qed.
Lemma g_cpow f : Q_cpow f -> Q_prod f -> Q_cpow (S f).
Proof.
  intros IHc IHp b ex Hb He. rewrite !s_cpow_eq. destruct (is_one ex); [apply ok1_some; exact Hb|].
  destruct (is_zero ex); [apply ok1_some; reflexivity|].
  destruct (is_int b && is_int ex && (0 <? leaf_val ex));
    [destruct (integer_power fits (leaf_val b) (leaf_val ex)); apply ok1_some; [reflexivity|apply ie_pow_intro; assumption]|].
  destruct (is_pow b) eqn:E4.
  { destruct b as [o v|o l]; [discriminate E4|]. cbn [is_pow] in E4. apply Z.eqb_eq in E4. subst o. cbn [args_of].
    rewrite int_exps_node in Hb. apply andb_prop in Hb as [P Hl]. destruct l as [|bb [|be [|z zs]]]; [apply ok1_none|apply ok1_none| |apply ok1_none].
    change (pow_ok POWER [bb; be]) with (is_int be) in P. cbn [forallb] in Hl. apply andb_prop in Hl as [Hbb _].
    rewrite P, He. cbn [andb negb orb].
    apply (ok1_bind IE IE). { apply IHp. cbn [args_of forallb]. rewrite (is_int_ie _ P), (is_int_ie _ He). reflexivity. }
    intros ne Ene _. apply IHc; [exact Hbb|]. apply (prod_ints _ _ _ _ _ P He Ene). }
  destruct (is_mul b) eqn:E5.
  { destruct b as [o v|o l]; [discriminate E5|]. cbn [is_mul] in E5. apply Z.eqb_eq in E5. subst o. cbn [args_of].
    rewrite ie_mul in Hb. rewrite He. cbn [andb negb].
    apply (ok1_bind AIE IE). { apply ok1_mapM. intros x Hx. apply IHc; [apply (all_ie_in _ _ Hb Hx)|exact He]. }
    intros l' _ Hl'. apply IHp. exact Hl'. }
  apply ok1_some. apply ie_pow_intro; assumption.
Qed.
Lemma g_prod f : Q_prec f -> Q_prod (S f).
Proof.
  intros IH e He. rewrite !s_prod_eq. cbn zeta. destruct (existsb (ceqb ZERO) (args_of e)); [apply ok1_some; reflexivity|].
  destruct (args_of e) as [|x [|y rest]] eqn:Ea; [apply ok1_none| |].
  - apply ok1_some. cbn [forallb] in He. apply andb_prop in He as [He _]. exact He.
  - apply (ok1_bind AIE IE); [apply IH; exact He|]. intros r _ Hr. destruct r as [|a [|b r1]]; apply ok1_some; [reflexivity| |].
    + cbn [forallb] in Hr. apply andb_prop in Hr as [Hr _]. exact Hr.
    + rewrite ie_mul. exact Hr.
Qed.
Lemma g_sum f : Q_srec f -> Q_sum (S f).
Proof.
  intros IH e He. rewrite !s_sum_eq. destruct (args_of e) as [|x [|y rest]] eqn:Ea; [apply ok1_none| |].
  - apply ok1_some. cbn [forallb] in He. apply andb_prop in He as [He _]. exact He.
  - apply (ok1_bind AIE IE); [apply IH; exact He|]. intros r _ Hr. destruct r as [|a [|b r1]]; apply ok1_some; [reflexivity| |].
    + cbn [forallb] in Hr. apply andb_prop in Hr as [Hr _]. exact Hr.
    + rewrite ie_add. exact Hr.
Qed.
Lemma g_prec f : Q_pow f -> Q_sum f -> Q_pmerge f -> Q_prec f -> Q_prec (S f).
Proof.
  intros IHpow IHsum IHm IHr ops Ho. rewrite !s_prec_eq. destruct ops as [|x [|y [|z rest]]]; [apply ok1_none|apply ok1_none| |].
  - cbn [forallb] in Ho. apply andb_prop in Ho as [Hx Ho]. apply andb_prop in Ho as [Hy _].
    destruct (is_int x && is_int y).
    { rewrite fits_all. cbn [negb]. cbn zeta. destruct (is_one (mk_int (leaf_val x * leaf_val y))); apply ok1_some; reflexivity. }
    destruct (negb (is_mul x || is_mul y)); [|apply IHm; [apply ie_factors; exact Hx|apply ie_factors; exact Hy]].
    destruct (is_one x); [apply ok1_some; cbn [forallb]; rewrite Hy; reflexivity|].
    destruct (is_one y); [apply ok1_some; cbn [forallb]; rewrite Hx; reflexivity|].
    destruct (oeqb (base_of x) (base_of y)).
    { destruct (base_of x) as [b1|] eqn:Bx; [|destruct (exponent_of x), (exponent_of y); apply ok1_none].
      destruct (exponent_of x) as [e1|] eqn:Xx; [|apply ok1_none]. destruct (exponent_of y) as [e2|] eqn:Xy; [|apply ok1_none].
      pose proof (ie_exponent _ _ Hx Xx) as I1. pose proof (ie_exponent _ _ Hy Xy) as I2. rewrite I1, I2. cbn [andb negb].
      apply (ok1_bind IE AIE). { apply IHsum. cbn [args_of forallb]. rewrite (is_int_ie _ I1), (is_int_ie _ I2). reflexivity. }
      intros ne Ene _. apply (ok1_bind IE AIE). { apply IHpow; [apply (ie_base _ _ Hx Bx)|apply (sum_ints _ _ _ _ _ I1 I2 Ene)]. }
      intros c _ Hc. destruct (is_one c); apply ok1_some; [reflexivity|]. cbn [forallb]. rewrite Hc. reflexivity. }
    destruct (expr_lt y x); apply ok1_some; cbn [forallb]; rewrite Hx, Hy; reflexivity.
  - cbn [forallb] in Ho. apply andb_prop in Ho as [Hx Ho].
    apply (ok1_bind AIE AIE); [apply IHr; exact Ho|]. intros rs _ Hrs. apply IHm; [apply ie_factors; exact Hx|exact Hrs].
Qed.
Lemma g_pmerge f : Q_prec f -> Q_pmerge f -> Q_pmerge (S f).
Proof.
  intros IHp IHm o1 o2 H1 H2. rewrite !s_pmerge_eq. destruct o1 as [|x r1]; [apply ok1_some; exact H2|].
  destruct o2 as [|y r2]; [apply ok1_some; exact H1|].
  pose proof H1 as H1'. pose proof H2 as H2'. cbn [forallb] in H1', H2'. apply andb_prop in H1' as [Hx Hr1]. apply andb_prop in H2' as [Hy Hr2].
  apply (ok1_bind AIE AIE). { apply IHp. cbn [forallb]. rewrite Hx, Hy. reflexivity. }
  intros sf _ Hsf. destruct sf as [|z [|w sf']].
  - apply IHm; assumption.
  - cbn [forallb] in Hsf. apply andb_prop in Hsf as [Hz _].
    apply (ok1_bind AIE AIE); [apply IHm; assumption|]. intros m _ Hm. apply ok1_some. cbn [forallb]. rewrite Hz, Hm. reflexivity.
  - cbn [forallb] in Hsf. apply andb_prop in Hsf as [Hz _]. destruct (ceqb z x).
    + apply (ok1_bind AIE AIE); [apply IHm; assumption|]. intros m _ Hm. apply ok1_some. cbn [forallb]. rewrite Hz, Hm. reflexivity.
    + destruct (chk && negb (ceqb z y)); [apply ok1_none|].
      apply (ok1_bind AIE AIE); [apply IHm; assumption|]. intros m _ Hm. apply ok1_some. cbn [forallb]. rewrite Hz, Hm. reflexivity.
Qed.
Lemma g_srec f : Q_sum f -> Q_prod f -> Q_smerge f -> Q_srec f -> Q_srec (S f).
Proof.
  intros IHsum IHprod IHm IHr ops Ho. rewrite !s_srec_eq. destruct ops as [|x [|y [|z rest]]]; [apply ok1_none|apply ok1_none| |].
  - cbn [forallb] in Ho. apply andb_prop in Ho as [Hx Ho]. apply andb_prop in Ho as [Hy _].
    destruct (is_int x && is_int y).
    { rewrite fits_all. cbn [negb]. cbn zeta. destruct (is_zero (mk_int (leaf_val x + leaf_val y))); apply ok1_some; reflexivity. }
    destruct (negb (is_add x || is_add y)); [|apply IHm; [apply ie_addends; exact Hx|apply ie_addends; exact Hy]].
    destruct (is_zero x); [apply ok1_some; cbn [forallb]; rewrite Hy; reflexivity|].
    destruct (is_zero y); [apply ok1_some; cbn [forallb]; rewrite Hx; reflexivity|].
    destruct (oeqb (term_of x) (term_of y)).
    { destruct (term_of x) as [t1|] eqn:Tx; [|destruct (coefficient_of x), (coefficient_of y); apply ok1_none].
      destruct (coefficient_of x) as [c1|] eqn:Cx; [|apply ok1_none]. destruct (coefficient_of y) as [c2|] eqn:Cy; [|apply ok1_none].
      apply (ok1_bind IE AIE).
      { apply IHsum. cbn [args_of forallb]. rewrite (ie_coefficient _ _ Hx Cx), (ie_coefficient _ _ Hy Cy). reflexivity. }
      intros nc _ Hnc. apply (ok1_bind IE AIE). { apply IHprod. cbn [args_of forallb]. rewrite Hnc, (ie_term _ _ Hx Tx). reflexivity. }
      intros c _ Hc. destruct (is_zero c); apply ok1_some; [reflexivity|]. cbn [forallb]. rewrite Hc. reflexivity. }
    destruct (expr_lt y x); apply ok1_some; cbn [forallb]; rewrite Hx, Hy; reflexivity.
  - cbn [forallb] in Ho. apply andb_prop in Ho as [Hx Ho].
    apply (ok1_bind AIE AIE); [apply IHr; exact Ho|]. intros rs _ Hrs. apply IHm; [apply ie_addends; exact Hx|exact Hrs].
Qed.
Lemma g_smerge f : Q_srec f -> Q_smerge f -> Q_smerge (S f).
Proof.
  intros IHp IHm o1 o2 H1 H2. rewrite !s_smerge_eq. destruct o1 as [|x r1]; [apply ok1_some; exact H2|].
  destruct o2 as [|y r2]; [apply ok1_some; exact H1|].
  pose proof H1 as H1'. pose proof H2 as H2'. cbn [forallb] in H1', H2'. apply andb_prop in H1' as [Hx Hr1]. apply andb_prop in H2' as [Hy Hr2].
  apply (ok1_bind AIE AIE). { apply IHp. cbn [forallb]. rewrite Hx, Hy. reflexivity. }
  intros sf _ Hsf. destruct sf as [|z [|w sf']].
  - apply IHm; assumption.
  - cbn [forallb] in Hsf. apply andb_prop in Hsf as [Hz _].
    apply (ok1_bind AIE AIE); [apply IHm; assumption|]. intros m _ Hm. apply ok1_some. cbn [forallb]. rewrite Hz, Hm. reflexivity.
  - cbn [forallb] in Hsf. apply andb_prop in Hsf as [Hz _]. destruct (ceqb z x).
    + apply (ok1_bind AIE AIE); [apply IHm; assumption|]. intros m _ Hm. apply ok1_some. cbn [forallb]. rewrite Hz, Hm. reflexivity.
    + destruct (chk && negb (ceqb z y)); [apply ok1_none|].
      apply (ok1_bind AIE AIE); [apply IHm; assumption|]. intros m _ Hm. apply ok1_some. cbn [forallb]. rewrite Hz, Hm. reflexivity.
Qed.

Lemma Q_all_0 : Q_all 0.
Proof. repeat split; intros; discriminate. Qed.
Theorem guard_core : forall f, Q_all f.
Proof.
  induction f as [|f (Ipow & Icpow & Iprod & Iprec & Ipm & Isum & Isrec & Ism)]; [apply Q_all_0|].
  split; [apply g_pow; assumption|]. split; [apply g_cpow; assumption|]. split; [apply g_prod; assumption|].
  split; [apply g_prec; assumption|]. split; [apply g_pmerge; assumption|]. split; [apply g_sum; assumption|].
  split; [apply g_srec; assumption|apply g_smerge; assumption].
Qed.

(* ---------- quotient, difference, the node dispatcher, the traversal ---------- *)
Lemma g_quotient f e : all_ie (args_of e) = true -> ok1 IE (simplify_quotient chk true fits f e) (simplify_quotient chk false fits f e).
Proof.
  intros H. destruct (guard_core f) as (Ipow & _ & Iprod & _). unfold simplify_quotient.
  destruct (args_of e) as [|n [|d [|? ?]]]; [apply ok1_none|apply ok1_none| |apply ok1_none].
  cbn [forallb] in H. apply andb_prop in H as [Hn H]. apply andb_prop in H as [Hd _].
  apply (ok1_bind IE IE); [apply Ipow; [exact Hd|reflexivity]|]. intros di _ Hdi. apply Iprod. cbn [args_of forallb]. rewrite Hn, Hdi. reflexivity.
Qed.
Lemma g_difference f e : all_ie (args_of e) = true -> ok1 IE (simplify_difference chk true fits f e) (simplify_difference chk false fits f e).
Proof.
  intros H. destruct (guard_core f) as (_ & _ & Iprod & _ & _ & Isum & _). unfold simplify_difference.
  destruct (args_of e) as [|a [|b [|? ?]]]; [apply ok1_none|apply ok1_none| |apply ok1_none].
  cbn [forallb] in H. apply andb_prop in H as [Ha H]. apply andb_prop in H as [Hb _].
  apply (ok1_bind AIE IE).
  - destruct (is_add b) eqn:Eb.
    + destruct b as [|o l]; [discriminate Eb|]. cbn [is_add] in Eb. apply Z.eqb_eq in Eb. subst o. rewrite ie_add in Hb. cbn [args_of].
      apply ok1_mapM. intros x Hx. apply Iprod. cbn [args_of forallb]. rewrite (all_ie_in _ _ Hb Hx). reflexivity.
    + apply (ok1_bind IE AIE); [apply Iprod; cbn [args_of forallb]; rewrite Hb; reflexivity|]. intros x _ Hx. apply ok1_some.
      cbn [forallb]. rewrite Hx. reflexivity.
  - intros negs _ Hn. apply Isum. cbn [args_of forallb]. rewrite Ha, Hn. reflexivity.
Qed.
Lemma g_node f o l : int_exps (Node o l) = true -> ok1 IE (simplify_node chk true fits f (Node o l)) (simplify_node chk false fits f (Node o l)).
Proof.
  intros H. pose proof H as H0. rewrite int_exps_node in H. apply andb_prop in H as [P Hl].
  destruct (guard_core f) as (Ipow & _ & Iprod & _ & _ & Isum & _). unfold simplify_node. cbn [opr].
  destruct (Z.eqb_spec o POWER) as [->|N1].
  { destruct l as [|b [|ex [|? ?]]]; [apply ok1_none|apply ok1_none| |apply ok1_none].
    change (pow_ok POWER [b; ex]) with (is_int ex) in P. cbn [forallb] in Hl. apply andb_prop in Hl as [Hb _]. apply Ipow; assumption. }
  destruct (Z.eqb_spec o SAFE_POWER) as [->|N2].
  { cbn [args_of]. destruct l as [|b [|ex [|? ?]]]; [apply ok1_none|apply ok1_none| |apply ok1_none].
    change (pow_ok SAFE_POWER [b; ex]) with (is_int ex) in P. cbn [forallb] in Hl. apply andb_prop in Hl as [Hb _].
    apply Ipow; [|exact P]. rewrite int_exps_node. cbn [forallb]. rewrite Hb. reflexivity. }
  destruct (Z.eqb_spec o MULTIPLICATION) as [->|N3]; [apply Iprod; exact Hl|].
  destruct (Z.eqb_spec o ADDITION) as [->|N4]; [apply Isum; exact Hl|].
  destruct (Z.eqb_spec o DIVISION) as [->|N5]; [apply g_quotient; exact Hl|].
  destruct (Z.eqb_spec o SUBTRACTION) as [->|N6]; [apply g_difference; exact Hl|].
  unfold arg0. cbn [args_of].
  destruct ((o =? SIN) || (o =? SINH)); [destruct (is_zero (nth 0 l ZERO)); apply ok1_some; [reflexivity|exact H0]|].
  destruct ((o =? COS) || (o =? COSH) || (o =? EXPONENTIAL)); [destruct (is_zero (nth 0 l ZERO)); apply ok1_some; [reflexivity|exact H0]|].
  destruct (o =? LOGARITHM).
  { destruct (is_one (nth 0 l ZERO)); [apply ok1_some; reflexivity|]. destruct (nth 0 l ZERO) as [o' v'|o' l'] eqn:En; [apply ok1_some; exact H0|].
    destruct (o' =? EXPONENTIAL); apply ok1_some; [|exact H0].
    assert (Hin : int_exps (Node o' l') = true).
    { destruct l as [|h r]; [discriminate En|]. cbn [nth] in En. subst h. cbn [forallb] in Hl. apply andb_prop in Hl as [Hh _]. exact Hh. }
    rewrite int_exps_node in Hin. apply andb_prop in Hin as [_ Hl']. destruct l' as [|h r]; [reflexivity|]. cbn [nth forallb] in *.
    apply andb_prop in Hl' as [Hh _]. exact Hh. }
  destruct ((o =? ABS) || (o =? SQRT)); [apply ok1_some; exact H0|apply ok1_none].
Qed.

Theorem guard_automatic : forall depth rf e, int_exps e = true ->
  ok1 IE (automatic_simplify chk true fits depth rf e) (automatic_simplify chk false fits depth rf e).
Proof.
  induction depth as [|d IH]; intros rf e He; [apply ok1_none|]. cbn [automatic_simplify].
  destruct e as [o v|o l]; [apply ok1_some; reflexivity|]. pose proof He as H0. rewrite int_exps_node in He. apply andb_prop in He as [P Hl].
  (* the exponent of a power node is a leaf: the traversal returns it unchanged *)
  apply (ok1_bind (fun l' => all_ie l' = true /\ pow_ok o l' = true) IE).
  - assert (M : ok1 AIE (mapM (automatic_simplify chk true fits d rf) l) (mapM (automatic_simplify chk false fits d rf) l)).
    { apply ok1_mapM. intros x Hx. apply IH. apply (all_ie_in _ _ Hl Hx). }
    destruct M as [E M]. split; [exact E|]. intros l' El'. split; [apply M; exact El'|].
    unfold pow_ok in *. destruct ((o =? POWER) || (o =? SAFE_POWER)); [|reflexivity].
    destruct l as [|b [|ex [|? ?]]]; try discriminate P. cbn [mapM] in El'.
    destruct (automatic_simplify chk false fits d rf b) as [b'|]; [|discriminate El']. cbn [o_bind] in El'.
    destruct d as [|d']; [discriminate El'|]. destruct ex as [oe ve|? ?]; [|discriminate P]. cbn [automatic_simplify o_bind] in El'.
    injection El' as <-. exact P.
  - intros l' _ [Hl' P']. apply g_node. rewrite int_exps_node, P', Hl'. reflexivity.
Qed.
End Guard.

(* ---------- stacks without power operators ---------- *)
Lemma lookup_in_or_default (s : stack) d i : In (lookup s d i) s \/ lookup s d i = d.
Proof. unfold lookup. destruct (nth_in_or_default (Z.to_nat (pyidx (Z.of_nat (length s)) i)) s d) as [H|H]; [left|right]; exact H. Qed.
Lemma build_cas_rec_int_exps (s : stack) :
  (forall c, In c s -> node_of c <> POWER /\ node_of c <> SAFE_POWER) ->
  forall fuel loc e, build_cas_rec fuel s loc = Some e -> int_exps e = true.
Proof.
  intros NP. induction fuel as [|f IH]; intros loc e H; [discriminate H|]. cbn [build_cas_rec] in H. cbn zeta in H.
  set (c := lookup s (0, 0, 0) loc) in *.
  assert (Nc : node_of c <> POWER /\ node_of c <> SAFE_POWER).
  { destruct (lookup_in_or_default s (0, 0, 0) loc) as [Hin|Hd]; [apply NP; exact Hin|]. fold c in Hd. rewrite Hd. split; discriminate. }
  destruct (is_terminal (node_of c)); [injection H as <-; reflexivity|].
  destruct (build_cas_rec f s (p1_of c)) as [a|] eqn:Ea; [|discriminate H]. cbn [o_bind] in H.
  assert (PO : forall l, pow_ok (node_of c) l = true).
  { intros l. unfold pow_ok. destruct Nc as [N1 N2]. apply Z.eqb_neq in N1, N2. rewrite N1, N2. reflexivity. }
  destruct (is_arity_2 (node_of c)).
  - destruct (build_cas_rec f s (p2_of c)) as [b|] eqn:Eb; [|discriminate H]. cbn [o_bind] in H. injection H as <-.
    rewrite int_exps_node, PO. cbn [forallb]. rewrite (IH _ _ Ea), (IH _ _ Eb). reflexivity.
  - injection H as <-. rewrite int_exps_node, PO. cbn [forallb]. rewrite (IH _ _ Ea). reflexivity.
Qed.
Theorem power_free_stack_simplified_as_written chk fits (s : stack) e0 : (forall k, fits k = true) ->
  (forall c, In c s -> node_of c <> POWER /\ node_of c <> SAFE_POWER) -> build_cas s = Some e0 ->
  forall depth rf, automatic_simplify chk true fits depth rf e0 = automatic_simplify chk false fits depth rf e0.
Proof.
  intros FA NP H depth rf. apply (guard_automatic chk fits FA depth rf e0). apply (build_cas_rec_int_exps s NP _ _ _ H).
Qed.

(* ---------- the merge check: whenever the checked model (chk = true) returns a result, the code as written returns the same ---------- *)
Definition le1 {X} (t f : option X) : Prop := forall r, t = Some r -> f = Some r.
Lemma le1_refl {X} (t : option X) : le1 t t. Proof. intros r H. exact H. Qed.
Lemma le1_none {X} (f : option X) : le1 None f. Proof. intros r H. discriminate H. Qed.
Lemma le1_bind {X Y} (t f : option X) (kt kf : X -> option Y) :
  le1 t f -> (forall x, le1 (kt x) (kf x)) -> le1 (o_bind t kt) (o_bind f kf).
Proof. intros H K r E. destruct t as [x|]; [|discriminate E]. rewrite (H x eq_refl). cbn [o_bind] in *. apply K. exact E. Qed.
Lemma le1_mapM {X Y} (g h : X -> option Y) l : (forall x, le1 (g x) (h x)) -> le1 (mapM g l) (mapM h l).
Proof.
  intros H. induction l as [|x l IH]; [apply le1_refl|]. cbn [mapM]. apply le1_bind; [apply H|]. intros y.
  apply le1_bind; [exact IH|]. intros ys. apply le1_refl.
Qed.

Lemma guard_le {X} (a b g : bool) (t f : option X) : (b = true -> a = true) -> le1 t f ->
  le1 (if a && g then None else t) (if b && g then None else f).
Proof.
  intros H L. destruct a; cbn [andb].
  - destruct g; [apply le1_none|]. rewrite andb_false_r. exact L.
  - destruct b; [discriminate (H eq_refl)|]. exact L.
Qed.

(* the two assertion flags only ever remove answers: with more assertions switched on (T) every answer is also the answer of the
   model with fewer (F) - in particular of the code as written (both off) *)
Section Flags.
Variables chkT iexpT chkF iexpF : bool.
Hypothesis Hc : chkF = true -> chkT = true.
Hypothesis Hi : iexpF = true -> iexpT = true.
Variable fits : Z -> bool.
Definition R_all f :=
  (forall e, le1 (simplify_power chkT iexpT fits f e) (simplify_power chkF iexpF fits f e)) /\
  (forall b ex, le1 (simplify_constant_power chkT iexpT fits f b ex) (simplify_constant_power chkF iexpF fits f b ex)) /\
  (forall e, le1 (simplify_product chkT iexpT fits f e) (simplify_product chkF iexpF fits f e)) /\
  (forall ops, le1 (simplify_product_rec chkT iexpT fits f ops) (simplify_product_rec chkF iexpF fits f ops)) /\
  (forall o1 o2, le1 (merge_products chkT iexpT fits f o1 o2) (merge_products chkF iexpF fits f o1 o2)) /\
  (forall e, le1 (simplify_sum chkT iexpT fits f e) (simplify_sum chkF iexpF fits f e)) /\
  (forall ops, le1 (simplify_sum_rec chkT iexpT fits f ops) (simplify_sum_rec chkF iexpF fits f ops)) /\
  (forall o1 o2, le1 (merge_sums chkT iexpT fits f o1 o2) (merge_sums chkF iexpF fits f o1 o2)).
Ltac same := first [apply le1_refl | apply le1_none].
Theorem flags_core : forall f, R_all f.
Proof.
  induction f as [|f (Ipow & Icpow & Iprod & Iprec & Ipm & Isum & Isrec & Ism)]; [repeat split; intros; apply le1_none|].
  repeat split.
  - intros e. rewrite !s_pow_eq. destruct (args_of e) as [|b [|ex [|? ?]]]; try same.
    destruct (is_one b); [same|]. destruct (is_zero b && is_int ex && (0 <? leaf_val ex)); [same|]. destruct (is_int ex || is_cst ex); [apply Icpow|same].
  - intros b ex. rewrite !s_cpow_eq. destruct (is_one ex); [same|]. destruct (is_zero ex); [same|].
    destruct (is_int b && is_int ex && (0 <? leaf_val ex)); [same|]. destruct (is_pow b).
    { destruct (args_of b) as [|bb [|be [|? ?]]]; try same. apply (guard_le _ _ _ _ _ Hi).
      apply le1_bind; [apply Iprod|]. intros ne. destruct (is_int be || is_cst be); [apply Icpow|same]. }
    destruct (is_mul b); [|same]. apply (guard_le _ _ _ _ _ Hi).
    apply le1_bind; [apply le1_mapM; intros x; apply Icpow|]. intros l. apply Iprod.
  - intros e. rewrite !s_prod_eq. cbn zeta. destruct (existsb (ceqb ZERO) (args_of e)); [same|].
    destruct (args_of e) as [|x [|y rest]]; try same. apply le1_bind; [apply Iprec|]. intros r. same.
  - intros ops. rewrite !s_prec_eq. destruct ops as [|x [|y [|z rest]]]; try same.
    + destruct (is_int x && is_int y); [same|]. destruct (negb (is_mul x || is_mul y)); [|apply Ipm].
      destruct (is_one x); [same|]. destruct (is_one y); [same|]. destruct (oeqb (base_of x) (base_of y)); [|same].
      destruct (base_of x) as [b1|]; [|same]. destruct (exponent_of x) as [e1|]; [|same]. destruct (exponent_of y) as [e2|]; [|same].
      apply (guard_le _ _ _ _ _ Hi).
      apply le1_bind; [apply Isum|]. intros ne. apply le1_bind; [apply Ipow|]. intros c'. same.
    + apply le1_bind; [apply Iprec|]. intros rs. apply Ipm.
  - intros o1 o2. rewrite !s_pmerge_eq. destruct o1 as [|x r1]; [same|]. destruct o2 as [|y r2]; [same|].
    apply le1_bind; [apply Iprec|]. intros sf. destruct sf as [|z [|w sf']].
    + apply Ipm.
    + apply le1_bind; [apply Ipm|]. intros m. same.
    + destruct (ceqb z x); [apply le1_bind; [apply Ipm|]; intros m; same|].
      apply (guard_le _ _ _ _ _ Hc). apply le1_bind; [apply Ipm|]. intros m. same.
  - intros e. rewrite !s_sum_eq. destruct (args_of e) as [|x [|y rest]]; try same. apply le1_bind; [apply Isrec|]. intros r. same.
  - intros ops. rewrite !s_srec_eq. destruct ops as [|x [|y [|z rest]]]; try same.
    + destruct (is_int x && is_int y); [same|]. destruct (negb (is_add x || is_add y)); [|apply Ism].
      destruct (is_zero x); [same|]. destruct (is_zero y); [same|]. destruct (oeqb (term_of x) (term_of y)); [|same].
      destruct (term_of x); [|same]. destruct (coefficient_of x); [|same]. destruct (coefficient_of y); [|same].
      apply le1_bind; [apply Isum|]. intros nc. apply le1_bind; [apply Iprod|]. intros c'. same.
    + apply le1_bind; [apply Isrec|]. intros rs. apply Ism.
  - intros o1 o2. rewrite !s_smerge_eq. destruct o1 as [|x r1]; [same|]. destruct o2 as [|y r2]; [same|].
    apply le1_bind; [apply Isrec|]. intros sf. destruct sf as [|z [|w sf']].
    + apply Ism.
    + apply le1_bind; [apply Ism|]. intros m. same.
    + destruct (ceqb z x); [apply le1_bind; [apply Ism|]; intros m; same|].
      apply (guard_le _ _ _ _ _ Hc). apply le1_bind; [apply Ism|]. intros m. same.
Qed.
Lemma flags_node f e : le1 (simplify_node chkT iexpT fits f e) (simplify_node chkF iexpF fits f e).
Proof.
  destruct (flags_core f) as (Ipow & _ & Iprod & _ & _ & Isum & _). unfold simplify_node.
  destruct (opr e =? POWER). { destruct e as [|o [|b [|ex [|? ?]]]]; try same. apply Ipow. }
  destruct (opr e =? SAFE_POWER). { destruct (args_of e) as [|b [|ex [|? ?]]]; try same. apply Ipow. }
  destruct (opr e =? MULTIPLICATION); [apply Iprod|]. destruct (opr e =? ADDITION); [apply Isum|].
  destruct (opr e =? DIVISION).
  { unfold simplify_quotient. destruct (args_of e) as [|n [|d [|? ?]]]; try same. apply le1_bind; [apply Ipow|]. intros di. apply Iprod. }
  destruct (opr e =? SUBTRACTION).
  { unfold simplify_difference. destruct (args_of e) as [|a [|b [|? ?]]]; try same. apply le1_bind; [|intros negs; apply Isum].
    destruct (is_add b); [apply le1_mapM; intros x; apply Iprod|]. apply le1_bind; [apply Iprod|]. intros x. same. }
  same.
Qed.
Theorem flags_automatic : forall depth rf e r,
  automatic_simplify chkT iexpT fits depth rf e = Some r -> automatic_simplify chkF iexpF fits depth rf e = Some r.
Proof.
  induction depth as [|d IH]; intros rf e r H; [discriminate H|]. revert r H.
  change (le1 (automatic_simplify chkT iexpT fits (S d) rf e) (automatic_simplify chkF iexpF fits (S d) rf e)).
  cbn [automatic_simplify]. destruct e as [o v|o l]; [apply le1_refl|]. apply le1_bind; [apply le1_mapM; intros x r; apply IH|].
  intros l'. apply flags_node.
Qed.
End Flags.
(* every answer of the fully checked model is the answer of the code as written *)
Theorem checked_answers_are_the_codes fits depth rf e r :
  automatic_simplify true true fits depth rf e = Some r -> automatic_simplify false false fits depth rf e = Some r.
Proof. apply flags_automatic; reflexivity. Qed.

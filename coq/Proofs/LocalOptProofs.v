From Coq Require Import ZArith List Bool Lia.
From Bingo Require Import Lib.Key Model.LocalOpt.
Import ListNotations.

Section P.
Variable C : Type.
Variable base : list C -> key.
Notation indiv := (indiv C).

Lemma after_trials_needs i tr : tr <> [] -> needs_opt C (after_trials C i tr) = false.
Proof.
  intros H. unfold after_trials. revert i. induction tr as [|t tr IH]; intros i; [congruence|]. simpl.
  destruct tr as [|t2 tr]; [reflexivity|]. apply IH. discriminate.
Qed.

(* 1-3, 5: whatever scipy does (any trial sequence, any final vector, TypeError on the first attempt or not) *)
Theorem lo_call_spec o i r1 r2 o' i' v : lo_call C base o i r1 r2 = (o', i', Some v) ->
  v = base (consts C i') /\                               (* the value reported is the base fitness of the constants held afterwards *)
  (needs_opt C i = true -> needs_opt C i' = false) /\    (* it no longer requests optimization *)
  method o' = method o.                                   (* the method option is restored after the BFGS fallback *)
Proof.
  unfold lo_call. destruct (needs_opt C i) eqn:En.
  - unfold optimize. destruct (consts C i) as [|c0 cs]; [intros [= <- <- <-]; repeat split; auto|]. destruct r1 as [tr fin|tr].
    + intros [= <- <- <-]. repeat split; auto.
    + destruct r2 as [tr2 fin2|tr2]; [|discriminate]. intros [= <- <- <-]. repeat split; auto.
  - intros [= <- <- <-]. repeat split; auto; discriminate.
Qed.

Theorem lo_call_final_constants o i r1 r2 o' i' v : lo_call C base o i r1 r2 = (o', i', Some v) ->
  needs_opt C i = true ->
  (consts C i = [] /\ consts C i' = []) \/                  (* no constants: scipy is not consulted *)
  (exists tr fin, r1 = Returns C tr fin /\ consts C i' = fin) \/
  (exists tr tr2 fin, r1 = RaisesTypeError C tr /\ r2 = Returns C tr2 fin /\ consts C i' = fin).
Proof.
  unfold lo_call. intros H En. rewrite En in H. unfold optimize in H.
  destruct (consts C i) as [|c0 cs]; [injection H as <- <- <-; left; auto|]. destruct r1 as [tr fin|tr].
  - injection H as <- <- <-. right. left. exists tr, fin. auto.
  - destruct r2 as [tr2 fin2|tr2]; [|discriminate]. injection H as <- <- <-. right. right. exists tr, tr2, fin2. auto.
Qed.

(* 4: an individual that does not request optimization is evaluated with its constants untouched, scipy is not consulted *)
Theorem lo_call_untouched o i r1 r2 : needs_opt C i = false ->
  lo_call C base o i r1 r2 = (o, i, Some (base (consts C i))).
Proof. intros H. unfold lo_call. now rewrite H. Qed.

(* 6: refitting never returns constants worse than those of the first fit, and the fitness reported belongs to the
   constants returned *)
Lemma refit_loop_spec : forall fits bf bc,
  let '(f, c) := refit_loop C bf bc fits in
  klt bf f = false /\
  ((f, c) = (bf, bc) \/ In (f, c) fits) .
Proof.
  induction fits as [|[f1 c1] r IH]; intros bf bc; cbn [refit_loop].
  - split; [destruct bf; simpl; auto; apply Z.ltb_irrefl|auto].
  - destruct (klt f1 bf) eqn:E.
    + specialize (IH f1 c1). destruct (refit_loop C f1 c1 r) as [f c]. destruct IH as [H1 H2]. split.
      * destruct bf as [b|], f1 as [x|], f as [y|]; simpl in *; try discriminate; auto.
        apply Z.ltb_lt in E. apply Z.ltb_ge in H1. apply Z.ltb_ge. lia.
      * right. destruct H2 as [H2|H2]; [left; congruence|right; auto].
    + specialize (IH bf bc). destruct (refit_loop C bf bc r) as [f c]. destruct IH as [H1 H2]. split; auto.
      destruct H2 as [H2|H2]; auto. right. right. auto.
Qed.

Theorem regressor_fit_spec first retries :
  Forall (fun fc => fst fc = base (snd fc)) (first :: retries) ->       (* every fit reports the base fitness of its constants (1.) *)
  let '(f, c) := regressor_fit C first retries in
  klt (fst first) f = false /\ f = base c.
Proof.
  intros H. unfold regressor_fit. pose proof (refit_loop_spec retries (fst first) (snd first)) as S.
  destruct (refit_loop C (fst first) (snd first) retries) as [f c]. destruct S as [S1 S2]. split; auto.
  rewrite Forall_forall in H. destruct S2 as [E|Hin].
  - injection E as -> ->. apply (H first). simpl; auto.
  - apply (H (f, c)). simpl; auto.
Qed.
End P.

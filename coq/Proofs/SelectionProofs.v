From Coq Require Import ZArith List Bool Arith Lia Permutation.
From Bingo Require Import Model.Best Model.Selection Proofs.BestProofs.
Import ListNotations.
Local Open Scope nat_scope.

Lemma nth_firstn_lt {A} (l : list A) n j d : j < n -> nth j (firstn n l) d = nth j l d.
Proof.
  revert n j; induction l as [|x l IH]; intros [|n] [|j] H; simpl; auto; try lia.
  apply IH. lia.
Qed.
Lemma nth_skipn {A} (l : list A) n j d : nth j (skipn n l) d = nth (n + j) l d.
Proof.
  revert n j; induction l as [|x l IH]; intros [|n] j; simpl; auto.
  destruct j; auto.
Qed.

(* ===================== tournament ===================== *)
Lemma mem_In x s : mem x s = true <-> In x s.
Proof.
  unfold mem. rewrite existsb_exists. split.
  - intros (y & Hy & E). apply Nat.eqb_eq in E. now subst.
  - intros H. exists x. split; auto. apply Nat.eqb_refl.
Qed.
Lemma mem_false x s : mem x s = false <-> ~ In x s.
Proof. rewrite <- mem_In. destruct (mem x s); split; congruence. Qed.

Lemma legal_sample_spec cell bound size : legal_sample cell bound size = true ->
  length cell = size /\ (forall i, In i cell -> i < bound) /\ NoDup cell.
Proof.
  unfold legal_sample. intros H. apply andb_prop in H as [H H3]. apply andb_prop in H as [H1 H2].
  apply Nat.eqb_eq in H1. rewrite forallb_forall in H2. repeat split; auto.
  - intros i Hi. apply Nat.ltb_lt. auto.
  - clear -H3. induction cell as [|x r IH]; [constructor|].
    unfold nodupb in H3. apply andb_prop in H3 as [Hx Hr]. constructor.
    + apply negb_true_iff in Hx. now apply mem_false in Hx.
    + apply IH. exact Hr.
Qed.

Definition tour_winner_ok (pop : list ind) (cell : list nat) (w : nat) : Prop :=
  In w cell /\ w < length pop /\
  (forall m, In m cell -> klt (sfit (getp pop m)) (sfit (getp pop w)) = false) /\
  (sfit (getp pop w) = None -> forall m, In m cell -> sfit (getp pop m) = None).

Lemma tournament1_spec size pop cell w : tournament1 size pop cell = Ok w ->
  length cell = size /\ tour_winner_ok pop cell w.
Proof.
  unfold tournament1. destruct (legal_sample cell (length pop) size) eqn:El; [|discriminate].
  simpl. apply legal_sample_spec in El as (Hl & Hb & Hnd).
  set (f := fun i => sfit (getp pop i)).
  destruct (scan_best (map f cell)) as [r|] eqn:Es; [|discriminate]. intros [= <-].
  destruct (scan_best_minimal _ _ Es) as (Hr & Hmin & Hnan). rewrite map_length in *.
  assert (Hn : forall j, j < length cell -> nthk (map f cell) j = f (nth j cell 0)).
  { intros j Hj. unfold nthk. rewrite (nth_indep _ None (f 0)) by (rewrite map_length; auto).
    apply map_nth. }
  split; auto. unfold tour_winner_ok. repeat split.
  - apply nth_In; auto.
  - apply Hb. apply nth_In; auto.
  - intros m Hm. destruct (In_nth _ _ 0 Hm) as (j & Hj & <-).
    specialize (Hmin j Hj). rewrite !Hn in Hmin by auto. exact Hmin.
  - intros Hw m Hm. destruct (In_nth _ _ 0 Hm) as (j & Hj & <-).
    change (f (nth j cell 0) = None). rewrite <- Hn by auto. apply Hnan; auto. rewrite Hn by auto. exact Hw.
Qed.

Lemma tournament_spec size pop : forall target tape ws, tournament size pop target tape = Ok ws ->
  length ws = target /\
  Forall2 (fun w cell => length cell = size /\ tour_winner_ok pop cell w) ws (firstn target tape).
Proof.
  induction target as [|t IH]; intros tape ws; cbn [tournament].
  - intros [= <-]. split; auto. constructor.
  - destruct (Nat.ltb (length pop) size); [discriminate|].
    destruct tape as [|cell tp]; [discriminate|].
    destruct (tournament1 size pop cell) as [w| |] eqn:E1; try discriminate.
    destruct (tournament size pop t tp) as [ws'| |] eqn:E2; try discriminate.
    intros [= <-]. destruct (IH _ _ E2) as [Hl Hf]. split; [simpl; lia|].
    simpl. constructor; auto. apply tournament1_spec in E1. exact E1.
Qed.

(* ===================== deterministic crowding ===================== *)
Definition paired (j : nat) (close : list bool) : nat :=
  if nth (Nat.div j 2) close true then j else if Nat.even j then S j else j - 1.

Lemma most_fit_det_spec ch par :
  most_fit_det ch par = par \/
  (most_fit_det ch par = ch /\ (sfit par = None \/ klt (sfit ch) (sfit par) = true)).
Proof.
  unfold most_fit_det. destruct (sfit par) eqn:Ep; simpl; [|right; auto].
  destruct (kisnan (sfit ch)); [left; auto|].
  destruct (klt (sfit ch) (Some z)) eqn:E; [right; auto|left; auto].
Qed.

Lemma paired_SS j cl cls : paired (S (S j)) (cl :: cls) = S (S (paired j cls)).
Proof.
  unfold paired. replace (Nat.div (S (S j)) 2) with (S (Nat.div j 2)).
  2:{ change (S (S j)) with (2 + j). rewrite (Nat.add_comm 2 j).
      replace (j + 2) with (j + 1 * 2) by lia. rewrite Nat.div_add by lia. lia. }
  cbn [nth]. destruct (nth (Nat.div j 2) cls true); auto.
  change (Nat.even (S (S j))) with (Nat.even j). destruct (Nat.even j) eqn:Ev; auto.
  destruct j as [|j]; [discriminate|]. lia.
Qed.

Lemma crowd_pairs_spec : forall n parents offspring close,
  2 * n <= length parents -> 2 * n <= length offspring -> n <= length close ->
  length (crowd_pairs parents offspring close n) = length parents /\
  forall j, j < 2 * n ->
    nth j (crowd_pairs parents offspring close n) dflt
    = most_fit_det (nth (paired j close) offspring dflt) (nth j parents dflt).
Proof.
  induction n as [|n IH]; intros parents offspring close Hp Ho Hc.
  - cbn [crowd_pairs]. split; auto. intros j Hj. exfalso. lia.
  - destruct parents as [|p1 [|p2 ps]]; simpl in Hp; try lia.
    destruct offspring as [|c1 [|c2 cs]]; simpl in Ho; try lia.
    destruct close as [|cl cls]; simpl in Hc; try lia.
    cbn [crowd_pairs].
    destruct (IH ps cs cls ltac:(lia) ltac:(lia) ltac:(lia)) as [Hl Hj].
    split.
    + rewrite app_length, Hl. destruct cl; simpl; lia.
    + intros j Hlt. destruct j as [|[|j]].
      * unfold paired. simpl. destruct cl; reflexivity.
      * unfold paired. simpl. destruct cl; reflexivity.
      * rewrite paired_SS. destruct cl; simpl; apply Hj; lia.
Qed.

Lemma crowding_spec pop target close out : crowding pop target close = Ok out ->
  let h := Nat.div (length pop) 2 in
  length out = target /\ target <= h /\
  forall j, j < target ->
    nth j out dflt = most_fit_det (getp pop (h + paired j close)) (getp pop j).
Proof.
  unfold crowding. destruct (negb (Nat.even (length pop)) || negb (Nat.even target)) eqn:Ee; [discriminate|].
  apply orb_false_elim in Ee as [E1 E2]. apply negb_false_iff in E1, E2.
  apply Nat.even_spec in E1 as [h Eh]. apply Nat.even_spec in E2 as [t Et].
  assert (Hh : Nat.div (length pop) 2 = h) by (rewrite Eh, Nat.mul_comm; apply Nat.div_mul; lia).
  assert (Ht : Nat.div target 2 = t) by (rewrite Et, Nat.mul_comm; apply Nat.div_mul; lia).
  rewrite Hh, Ht. destruct (Nat.ltb_spec h target); [discriminate|].
  destruct (Nat.ltb_spec (length close) t); [discriminate|]. intros [= <-]. cbn zeta.
  assert (L1 : length (firstn h pop) = h) by (rewrite firstn_length; lia).
  assert (L2 : length (skipn h pop) = h) by (rewrite skipn_length; lia).
  destruct (crowd_pairs_spec t (firstn h pop) (skipn h pop) close ltac:(lia) ltac:(lia) ltac:(lia)) as [Hl Hj].
  split; [rewrite firstn_length, Hl; lia|]. split; [lia|].
  intros j Hlt. rewrite nth_firstn_lt by lia. rewrite Hj by lia. unfold getp. f_equal.
  - rewrite nth_skipn. reflexivity.
  - rewrite nth_firstn_lt by lia. reflexivity.
Qed.

(* ===================== age-fitness: the removal decision ===================== *)
Lemma add_In x y s : In y (add x s) <-> y = x \/ In y s.
Proof.
  unfold add. destruct (mem x s) eqn:E.
  - apply mem_In in E. split; [auto|]. intros [->|H]; auto.
  - simpl. split; intros [H|H]; auto.
Qed.
Lemma add_length x s : length (add x s) <= S (length s).
Proof. unfold add. destruct (mem x s); simpl; lia. Qed.
Lemma add_nodup x s : NoDup s -> NoDup (add x s).
Proof.
  unfold add. destruct (mem x s) eqn:E; auto. intros H. constructor; auto. now apply mem_false.
Qed.

Definition isnan_i (pop : list ind) (i : nat) : Prop := sfit (getp pop i) = None.
Definition dominates (pop : list ind) (w r : nat) : Prop :=
  exists fw fr, sfit (getp pop w) = Some fw /\ sfit (getp pop r) = Some fr /\
                (sage (getp pop w) <= sage (getp pop r))%Z /\ (fw <= fr)%Z.

Lemma dominates_trans pop a b c : dominates pop a b -> dominates pop b c -> dominates pop a c.
Proof.
  intros (fa & fb & Ea & Eb & H1 & H2) (fb' & fc & Eb' & Ec & H3 & H4).
  rewrite Eb in Eb'. injection Eb' as <-. exists fa, fc. repeat split; auto; lia.
Qed.

Lemma first_not_dominated_spec pop a b :
  kisnan (sfit (getp pop a)) = false -> kisnan (sfit (getp pop b)) = false ->
  first_not_dominated (getp pop a) (getp pop b) = true -> dominates pop a b.
Proof.
  unfold first_not_dominated, dominates. intros Ha Hb H.
  destruct (sfit (getp pop a)) as [fa|]; [|discriminate].
  destruct (sfit (getp pop b)) as [fb|]; [|discriminate].
  apply negb_true_iff, orb_false_elim in H as [H1 H2]. simpl in H2.
  apply Z.ltb_ge in H1, H2. exists fa, fb. auto.
Qed.

(* every index in the removal set is one of the sampled indices and is NaN or dominated by a
   sampled index that is NOT in the removal set *)
Definition justified (pop : list ind) (inds s : list nat) : Prop :=
  forall r, In r s -> In r inds /\
    (isnan_i pop r \/ exists w, In w inds /\ ~ In w s /\ dominates pop w r).

Lemma add_justified pop inds s x : justified pop inds s -> In x inds -> ~ In x s ->
  (isnan_i pop x \/ exists w, In w inds /\ ~ In w s /\ w <> x /\ dominates pop w x) ->
  justified pop inds (add x s).
Proof.
  intros J Hx Hn Hj r Hr. apply add_In in Hr as [->|Hr].
  - split; auto. destruct Hj as [Hj|(w & Hw & Hws & Hne & Hd)]; auto.
    right. exists w. repeat split; auto. rewrite add_In. intros [E|E]; auto.
  - destruct (J r Hr) as [Hin [Hnan|(w & Hw & Hws & Hd)]]; split; auto.
    destruct (Nat.eq_dec w x) as [->|Hne].
    + destruct Hj as [Hj|(w' & Hw' & Hws' & Hne' & Hd')].
      * destruct Hd as (fw & ? & E & _). unfold isnan_i in Hj. congruence.
      * right. exists w'. repeat split; auto.
        -- rewrite add_In. intros [E|E]; auto.
        -- eapply dominates_trans; eauto.
    + right. exists w. repeat split; auto. rewrite add_In. intros [E|E]; auto.
Qed.

(* invariant of the inner loop for a fixed [a]: K says that if [a] itself has entered the set it is
   NaN or dominated by an already visited, still surviving index *)
Definition Kinv (pop : list ind) (a : nat) (visited s : list nat) : Prop :=
  In a s -> isnan_i pop a \/ exists w, In w visited /\ ~ In w s /\ dominates pop w a.

Lemma update_step pop inds a b visited s :
  justified pop inds s -> Kinv pop a visited s ->
  In a inds -> In b inds -> a <> b -> ~ In b s -> ~ In b visited -> (forall v, In v visited -> In v inds) ->
  let s' := update_removal_set pop a b s in
  justified pop inds s' /\ Kinv pop a (visited ++ [b]) s' /\ length s' <= S (length s) /\
  (NoDup s -> NoDup s').
Proof.
  intros J K Ha Hb Hab Hbs Hbv Hvis. unfold update_removal_set.
  assert (Kmono : forall s2, (forall y, In y s2 <-> y = b \/ In y s) ->
            Kinv pop a (visited ++ [b]) s2).
  { intros s2 Hs2 Has2. apply Hs2 in Has2 as [E|Has]; [congruence|].
    destruct (K Has) as [Hn|(w & Hw & Hws & Hd)]; auto. right. exists w.
    repeat split; auto; [apply in_or_app; auto|]. rewrite Hs2. intros [E|E]; auto. congruence. }
  assert (Ksame : Kinv pop a (visited ++ [b]) s).
  { intros Has. destruct (K Has) as [Hn|(w & Hw & Hws & Hd)]; auto.
    right. exists w. repeat split; auto. apply in_or_app; auto. }
  destruct (kisnan (sfit (getp pop a))) eqn:Na.
  { (* a is NaN: add a *)
    assert (Hna : isnan_i pop a) by (unfold isnan_i; destruct (sfit (getp pop a)); [discriminate|auto]).
    cbn zeta. destruct (in_dec Nat.eq_dec a s) as [Has|Has].
    - unfold add. apply mem_In in Has. rewrite Has. split; [auto|split; [auto|split; [lia|auto]]].
    - split; [apply add_justified; auto|split; [|split; [apply add_length|apply add_nodup]]].
      intros _. auto. }
  destruct (kisnan (sfit (getp pop b))) eqn:Nb.
  { assert (Hnb : isnan_i pop b) by (unfold isnan_i; destruct (sfit (getp pop b)); [discriminate|auto]).
    cbn zeta. split; [apply add_justified; auto|split; [|split; [apply add_length|apply add_nodup]]].
    apply Kmono. intros y. apply add_In. }
  destruct (first_not_dominated (getp pop a) (getp pop b)) eqn:Fab.
  { (* a is no worse than b: b goes *)
    pose proof (first_not_dominated_spec pop a b Na Nb Fab) as Dab.
    cbn zeta. split; [apply add_justified; auto|split; [|split; [apply add_length|apply add_nodup]]].
    - right. destruct (in_dec Nat.eq_dec a s) as [Has|Has].
      + destruct (K Has) as [Hn|(w & Hw & Hws & Hd)].
        * unfold isnan_i in Hn. rewrite Hn in Na. discriminate.
        * exists w. repeat split; auto. { intros ->. auto. } eapply dominates_trans; eauto.
      + exists a. repeat split; auto.
    - apply Kmono. intros y. apply add_In. }
  destruct (first_not_dominated (getp pop b) (getp pop a)) eqn:Fba.
  { pose proof (first_not_dominated_spec pop b a Nb Na Fba) as Dba.
    cbn zeta. destruct (in_dec Nat.eq_dec a s) as [Has|Has].
    - unfold add. apply mem_In in Has. rewrite Has. split; [auto|split; [auto|split; [lia|auto]]].
    - split; [apply add_justified; auto|split; [|split; [apply add_length|apply add_nodup]]].
      + right. exists b. repeat split; auto.
      + intros _. right. exists b. repeat split; auto; [apply in_or_app; simpl; auto|].
        rewrite add_In. intros [E|E]; auto. }
  cbn zeta. split; [auto|split; [auto|split; [lia|auto]]].
Qed.

Lemma inner_spec pop inds a needed : forall bs visited s s' early,
  inner pop a bs needed s = (s', early) ->
  justified pop inds s -> Kinv pop a visited s -> In a inds -> ~ In a bs ->
  (forall b, In b bs -> In b inds) -> NoDup (visited ++ bs) -> (forall v, In v visited -> In v inds) ->
  length s < needed -> NoDup s ->
  justified pop inds s' /\ NoDup s' /\
  (if early then length s' <= needed else length s' < needed).
Proof.
  induction bs as [|b r IH]; intros visited s s' early; cbn [inner].
  - intros [= <- <-]. auto.
  - intros E J K Ha Hab Hbs Hnd Hvis Hlen Hns.
    assert (Hnd' : NoDup ((visited ++ [b]) ++ r)) by (rewrite <- app_assoc; exact Hnd).
    assert (Hbv : ~ In b visited).
    { intros Hin. apply NoDup_remove_2 in Hnd. apply Hnd. apply in_or_app; auto. }
    assert (Hvis' : forall v, In v (visited ++ [b]) -> In v inds).
    { intros v Hv. apply in_app_or in Hv as [Hv|[<-|[]]]; auto. apply Hbs; simpl; auto. }
    destruct (mem b s) eqn:Mb.
    + apply (IH (visited ++ [b]) s s' early); auto.
      * intros Has. destruct (K Has) as [Hn|(w & Hw & Hws & Hd)]; auto.
        right. exists w. repeat split; auto. apply in_or_app; auto.
      * simpl in Hab. tauto.
      * intros b' Hb'. apply Hbs. simpl; auto.
    + apply mem_false in Mb.
      assert (Hne : a <> b) by (intros ->; apply Hab; simpl; auto).
      pose proof (update_step pop inds a b visited s J K Ha (Hbs b (or_introl eq_refl)) Hne Mb Hbv Hvis) as U.
      cbn zeta in U. destruct U as (J' & K' & L' & N').
      destruct (Nat.leb_spec needed (length (update_removal_set pop a b s))) as [Hge|Hlt].
      * injection E as <- <-. split; [auto|split; [auto|lia]].
      * apply (IH (visited ++ [b]) (update_removal_set pop a b s) s' early); auto.
        -- simpl in Hab. tauto.
        -- intros b' Hb'. apply Hbs. simpl; auto.
Qed.

Lemma outer_spec pop all needed : forall inds s,
  (forall i, In i inds -> In i all) -> NoDup inds ->
  justified pop all s -> length s < needed -> NoDup s ->
  let s' := outer pop inds needed s in
  justified pop all s' /\ NoDup s' /\ length s' <= needed.
Proof.
  induction inds as [|a r IH]; intros s Hsub Hnd J Hlen Hns; cbn [outer].
  - split; [auto|split; [auto|lia]].
  - destruct r as [|b r'].
    + split; [auto|split; [auto|lia]].
    + remember (b :: r') as r eqn:Er.
      assert (Hsub' : forall i, In i r -> In i all) by (intros; apply Hsub; simpl; auto).
      inversion Hnd as [|? ? Har Hndr]; subst x l.
      destruct (mem a s) eqn:Ma.
      * apply IH; auto.
      * destruct (inner pop a r needed s) as [s1 early] eqn:Ei.
        apply mem_false in Ma.
        destruct (inner_spec pop all a needed r [] s s1 early Ei J) as (J1 & N1 & L1); auto.
        -- intros Has. contradiction.
        -- apply Hsub. simpl; auto.
        -- intros v [].
        -- destruct early; [split; [auto|split; auto]|]. apply IH; auto.
Qed.

Lemma streamlined_pair_spec pop i1 i2 : i1 <> i2 ->
  let s := streamlined_pair pop i1 i2 in
  justified pop [i1; i2] s /\ NoDup s /\ length s <= 1.
Proof.
  intros Hne. unfold streamlined_pair.
  assert (J1 : forall x w, (x = i1 \/ x = i2) -> (w = i1 \/ w = i2) -> w <> x ->
                 (isnan_i pop x \/ dominates pop w x) -> justified pop [i1; i2] [x] /\ NoDup [x] /\ length [x] <= 1).
  { intros x w Hx Hw Hwx Hj. split; [|split; [constructor; [simpl; tauto|constructor]|simpl; lia]].
    intros r [<-|[]]. split; [simpl; destruct Hx; auto|].
    destruct Hj as [Hj|Hj]; auto. right. exists w. split; [simpl; destruct Hw; auto|split; auto].
    simpl. intros [E|[]]. auto. }
  destruct (kisnan (sfit (getp pop i1))) eqn:N1.
  { apply (J1 i1 i2); auto. left. unfold isnan_i. destruct (sfit (getp pop i1)); [discriminate|auto]. }
  destruct (kisnan (sfit (getp pop i2))) eqn:N2.
  { apply (J1 i2 i1); auto. left. unfold isnan_i. destruct (sfit (getp pop i2)); [discriminate|auto]. }
  destruct (first_not_dominated (getp pop i1) (getp pop i2)) eqn:F12.
  { apply (J1 i2 i1); auto. right. apply first_not_dominated_spec; auto. }
  destruct (first_not_dominated (getp pop i2) (getp pop i1)) eqn:F21.
  { apply (J1 i1 i2); auto. right. apply first_not_dominated_spec; auto. }
  split; [intros r []|split; [constructor|simpl; lia]].
Qed.

Lemma find_inds_spec sel inds pop needed : NoDup inds -> 1 <= needed ->
  let s := find_inds_for_removal sel inds pop needed in
  justified pop inds s /\ NoDup s /\ length s <= needed.
Proof.
  intros Hnd Hn. unfold find_inds_for_removal.
  destruct (Nat.ltb_spec (length inds) 2) as [Hl|Hl].
  { split; [intros r []|split; [constructor|simpl; lia]]. }
  destruct (Nat.eqb sel 2).
  - destruct inds as [|i1 [|i2 rest]]; simpl in Hl; try lia. cbn [nth].
    assert (Hne : i1 <> i2). { inversion Hnd; subst. simpl in *. intros ->. tauto. }
    destruct (streamlined_pair_spec pop i1 i2 Hne) as (J & N & L).
    split; [|split; [auto|lia]]. intros r Hr. destruct (J r Hr) as [Hin Hj]. split.
    + simpl in *. tauto.
    + destruct Hj as [Hj|(w & Hw & Hws & Hd)]; auto. right. exists w. repeat split; auto. simpl in *. tauto.
  - apply outer_spec; [auto|auto|intros r []|simpl; lia|constructor].
Qed.

(* ===================== age-fitness: the loop only permutes and truncates ===================== *)
Lemma upd_length {A} (l : list A) i x : length (upd l i x) = length l.
Proof. revert i; induction l as [|y l IH]; intros [|i]; simpl; auto. Qed.

Lemma upd_perm {A} (r : list A) j x d : j < length r ->
  Permutation (nth j r d :: upd r j x) (x :: r).
Proof.
  revert j; induction r as [|y r IH]; intros [|j] H; simpl in *; try lia.
  - apply perm_swap.
  - etransitivity; [apply perm_swap|]. etransitivity; [apply perm_skip, IH; lia|]. apply perm_swap.
Qed.

Lemma swap_length pop i j : length (swap pop i j) = length pop.
Proof. unfold swap. now rewrite !upd_length. Qed.

Lemma upd_same {A} (l : list A) i d : upd l i (nth i l d) = l.
Proof. revert i; induction l as [|y l IH]; intros [|i]; simpl; auto. f_equal; auto. Qed.

Lemma swap_perm pop : forall i j, i < length pop -> j < length pop -> Permutation (swap pop i j) pop.
Proof.
  unfold swap, getp. induction pop as [|x r IH]; intros [|i] [|j] Hi Hj; simpl in *; try lia.
  - reflexivity.
  - apply upd_perm. lia.
  - apply upd_perm. lia.
  - apply perm_skip. apply IH; lia.
Qed.

Lemma swap_removals_perm : forall sorted pop i nr,
  (forall r, In r sorted -> r < length pop) -> i + length sorted + nr <= length pop ->
  Permutation (swap_removals pop sorted i nr) pop /\ length (swap_removals pop sorted i nr) = length pop.
Proof.
  induction sorted as [|r rest IH]; intros pop i nr Hr Hl; cbn [swap_removals]; [split; auto|].
  simpl in Hl.
  assert (Hs : Permutation (swap pop r (length pop - (i + nr + 1))) pop).
  { apply swap_perm; [apply Hr; simpl; auto|lia]. }
  destruct (IH (swap pop r (length pop - (i + nr + 1))) (S i) nr) as [P L].
  - intros r' Hr'. rewrite swap_length. apply Hr. simpl; auto.
  - rewrite swap_length. lia.
  - rewrite swap_length in L. split; [etransitivity; eauto|auto].
Qed.

Lemma ins_desc_perm x l : Permutation (ins_desc x l) (x :: l).
Proof.
  induction l as [|y r IH]; simpl; auto. destruct (Nat.leb y x); auto.
  etransitivity; [apply perm_skip, IH|apply perm_swap].
Qed.
Lemma sort_desc_perm l : Permutation (sort_desc l) l.
Proof.
  induction l as [|x l IH]; simpl; auto. etransitivity; [apply ins_desc_perm|auto].
Qed.

Lemma unique_rand_indices_spec sel max_int tape inds tape' :
  unique_rand_indices sel max_int tape = Ok (inds, tape') ->
  NoDup inds /\ forall i, In i inds -> i < max_int.
Proof.
  unfold unique_rand_indices. destruct (Nat.leb max_int sel).
  - intros [= <- <-]. unfold iota. split; [apply seq_NoDup|]. intros i Hi. apply in_seq in Hi. lia.
  - destruct tape as [|cell t]; [discriminate|].
    destruct (legal_sample cell max_int sel) eqn:El; [|discriminate]. intros [= <- <-].
    apply legal_sample_spec in El as (_ & Hb & Hn). auto.
Qed.

Record af_inv (pop0 : list ind) (start tr : nat) (st : af_state) : Prop := {
  ai_perm : Permutation (af_pop st) pop0;
  ai_len : length (af_pop st) = start;
  ai_rem : af_removed st <= tr
}.

Lemma af_loop_inv pop0 sel start tr : tr <= start -> forall fuel st st',
  af_inv pop0 start tr st -> af_loop fuel sel start tr st = Ok st' -> af_inv pop0 start tr st'.
Proof.
  intros Htr. induction fuel as [|f IH]; intros st st' Hi; cbn [af_loop].
  - intros [= <-]. auto.
  - destruct (Nat.ltb_spec (af_removed st) tr) as [Hlt|Hge]; [|intros [= <-]; auto].
    destruct (unique_rand_indices sel (start - af_removed st) (af_tape st)) as [[inds tape']| |] eqn:Eu;
      try discriminate.
    apply unique_rand_indices_spec in Eu as [Hnd Hb].
    destruct Hi as [P L R].
    destruct (find_inds_spec sel inds (af_pop st) (tr - af_removed st) Hnd ltac:(lia)) as (J & N & Ln).
    set (to_remove := find_inds_for_removal sel inds (af_pop st) (tr - af_removed st)) in *.
    apply IH. 
    assert (Hsr : forall r, In r (sort_desc to_remove) -> r < length (af_pop st)).
    { intros r Hr. apply (Permutation_in _ (sort_desc_perm _)) in Hr.
      destruct (J r Hr) as [Hin _]. specialize (Hb r Hin). lia. }
    assert (Hls : length (sort_desc to_remove) = length to_remove)
      by (apply Permutation_length, sort_desc_perm).
    destruct (swap_removals_perm (sort_desc to_remove) (af_pop st) 0 (af_removed st) Hsr ltac:(lia)) as [P' L'].
    constructor; cbn [af_pop af_removed].
    + etransitivity; eauto.
    + congruence.
    + lia.
Qed.

Lemma age_fitness_spec sel pop target tape ret after :
  age_fitness sel pop target tape = Ok (ret, after) ->
  Permutation after pop /\
  (exists k, ret = firstn k after) /\
  target <= length ret <= length pop.
Proof.
  unfold age_fitness. destruct (Nat.ltb_spec (length pop) target) as [|Hle]; [discriminate|].
  destruct (af_loop _ _ _ _ _) as [st| |] eqn:El; try discriminate. intros [= <- <-].
  assert (Hi : af_inv pop (length pop) (length pop - target) (mkAF pop 0 tape)).
  { constructor; simpl; auto. lia. }
  destruct (af_loop_inv pop sel (length pop) (length pop - target) ltac:(lia) _ _ _ Hi El) as [P L R].
  split; auto. split; [eexists; reflexivity|].
  rewrite firstn_length, L. lia.
Qed.

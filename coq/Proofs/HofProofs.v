(* Proofs about Model/Hof.v (property C10, reused by C09). *)
From Coq Require Import ZArith List Bool Arith Lia Permutation Sorted ZifyBool ZifyNat.
From Bingo Require Import Lib.ListExtra Model.Hof.
Import ListNotations.
Ltac Zify.zify_post_hook ::= Z.div_mod_to_equations.

Definition idf (z : Z) : Z := z.

(* ---------- bisect_right on a sorted NaN-free key list ---------- *)
Lemma bisect_go_spec zs z : StronglySorted Z.le zs ->
  forall fuel lo hi, (lo <= cnt_le idf z zs <= hi)%nat -> (hi <= length zs)%nat ->
  (hi - lo < fuel)%nat ->
  bisect_go fuel (map Some zs) (Some z) lo hi = cnt_le idf z zs.
Proof.
  intros Hs. induction fuel as [|f IH]; intros lo hi Hc Hh Hf; [lia|].
  cbn [bisect_go]. destruct (Nat.ltb_spec lo hi) as [Hlt|Hge]; [|lia].
  set (mid := Nat.div (lo + hi) 2).
  assert (Hm : (lo <= mid < hi)%nat) by (unfold mid; lia).
  assert (Hn : nth mid (map Some zs) None = Some (nth mid zs 0%Z)).
  { rewrite (nth_indep _ None (Some 0%Z)) by (rewrite map_length; lia).
    apply map_nth. }
  unfold key in *. rewrite Hn. cbn [klt].
  pose proof (cnt_le_nth idf z zs 0%Z mid Hs ltac:(lia)) as Hiff. unfold idf at 2 in Hiff.
  destruct (Z.ltb_spec z (nth mid zs 0%Z)) as [Hz|Hz].
  - apply IH; lia.
  - apply IH; lia.
Qed.

Lemma bisect_right_spec zs z : StronglySorted Z.le zs ->
  bisect_right (map Some zs) (Some z) = cnt_le idf z zs.
Proof.
  intros Hs. unfold bisect_right. rewrite map_length.
  apply bisect_go_spec; auto; pose proof (cnt_le_le idf z zs); lia.
Qed.

Lemma cnt_le_map {A} (f : A -> Z) z l : cnt_le idf z (map f l) = cnt_le f z l.
Proof.
  unfold cnt_le, idf. induction l as [|x l IH]; simpl; auto.
  destruct (f x <=? z)%Z; simpl; auto.
Qed.

Lemma le_f_idf_sorted zs : StronglySorted Z.le zs <-> StronglySorted (le_f idf) zs.
Proof. split; intros H; exact H. Qed.

(* ---------- the state invariant valid for any interleaving of operations ---------- *)
Definition zk (e : entry) : Z := match ek1 e with Some z => z | None => 0%Z end.

(* key order refined by arrival order *)
Definition karr (a b : entry) : Prop :=
  (zk a < zk b)%Z \/ (zk a = zk b /\ (earr a < earr b)%nat).

Record good (base : nat) (h : hof) : Prop := {
  g_keys : keys h = map ek1 (items h);
  g_nonan : Forall (fun e => ek1 e <> None) (items h);
  g_sorted : StronglySorted (le_f zk) (items h);
  g_karr : StronglySorted karr (items h);
  g_arr : Forall (fun e => (earr e < next_arr h)%nat) (items h);
  g_fresh : Forall (fun e => (base <= eid e < next_id h)%nat) (items h);
  g_nodup : NoDup (map eid (items h));
  g_base : (base <= next_id h)%nat
}.

Lemma keys_as_zs h : keys h = map ek1 (items h) ->
  Forall (fun e => ek1 e <> None) (items h) -> keys h = map Some (map zk (items h)).
Proof.
  intros -> H. rewrite map_map. apply map_ext_in. intros e He.
  rewrite Forall_forall in H. specialize (H e He). unfold zk. destruct (ek1 e); congruence.
Qed.

Lemma sorted_map_zk l : StronglySorted (le_f zk) l -> StronglySorted Z.le (map zk l).
Proof.
  induction 1; simpl; constructor; auto.
  rewrite Forall_forall in *. intros z Hz. apply in_map_iff in Hz as [e [<- He]]. apply H0; auto.
Qed.

Lemma good_empty c base : good base (empty_hof c base).
Proof. constructor; simpl; auto; try constructor. Qed.

Lemma good_clear base h : good base h -> good base (clear h).
Proof. intros [? ? ? ? ? ? ? ?]. constructor; simpl; auto; constructor. Qed.

Lemma Forall_remove_at {A} (P : A -> Prop) n l : Forall P l -> Forall P (remove_at n l).
Proof. rewrite !Forall_forall. intros H x Hx. apply H. eapply remove_at_In; eauto. Qed.

Lemma NoDup_remove_at {A} n (l : list A) : NoDup l -> NoDup (remove_at n l).
Proof.
  revert n; induction l as [|x l IH]; intros [|n] H; simpl; auto; inversion H; subst; auto.
  constructor; auto. intros Hin. apply remove_at_In in Hin. auto.
Qed.

Lemma py_index_lt len i n : py_index len i = Some n -> (n < len)%nat.
Proof.
  unfold py_index.
  destruct ((0 <=? i)%Z && (i <? Z.of_nat len)%Z) eqn:E1; [intros [= <-]; lia|].
  destruct ((i <? 0)%Z && (0 <=? Z.of_nat len + i)%Z) eqn:E2; [intros [= <-]; lia|discriminate].
Qed.

Lemma good_remove base h i : good base h -> err (remove h i) = err h -> good base (remove h i).
Proof.
  intros [Hk Hn Hs Hka Ha Hf Hd Hb] He. unfold remove in *.
  assert (El : length (keys h) = length (items h)) by (rewrite Hk, map_length; auto).
  rewrite El in *.
  destruct (py_index (length (items h)) i) as [n|] eqn:E.
  - constructor; simpl; auto.
    + rewrite Hk. symmetry. apply remove_at_map.
    + apply Forall_remove_at; auto.
    + apply remove_at_sorted; auto.
    + apply remove_at_sorted; auto.
    + apply Forall_remove_at; auto.
    + apply Forall_remove_at; auto.
    + rewrite remove_at_map. apply NoDup_remove_at; auto.
  - constructor; simpl; auto.
Qed.

(* remove with a valid index never raises *)
Lemma remove_ok h i : length (keys h) = length (items h) ->
  py_index (length (items h)) i <> None -> err (remove h i) = err h.
Proof.
  intros El Hi. unfold remove. rewrite El.
  destruct (py_index (length (items h)) i); [reflexivity|congruence].
Qed.

Lemma good_insert base h i : good base h -> ik1 i <> None -> good base (insert h i).
Proof.
  intros [Hk Hn Hs Hka Ha Hf Hd Hb] Hi.
  destruct (ik1 i) as [z|] eqn:Ez; [|congruence].
  unfold insert. rewrite Ez.
  set (e := mkE (next_id h) (iid i) (Some z) (ik2 i) (next_arr h)).
  assert (Hzk : zk e = z) by reflexivity.
  assert (Hidx : bisect_right (keys h) (Some z) = cnt_le zk (zk e) (items h)).
  { rewrite (keys_as_zs h Hk Hn), bisect_right_spec by (apply sorted_map_zk; auto).
    rewrite cnt_le_map, Hzk. reflexivity. }
  rewrite Hidx.
  assert (HP : Permutation (insert_at (cnt_le zk (zk e) (items h)) e (items h)) (e :: items h))
    by apply insert_at_perm.
  constructor; cbn [keys items next_id next_arr].
  - rewrite Hk. rewrite insert_at_map. reflexivity.
  - rewrite Forall_forall. intros a Hin. apply (Permutation_in _ HP) in Hin.
    destruct Hin as [<-|Hin]; [simpl; congruence|]. rewrite Forall_forall in Hn; auto.
  - apply insert_at_cnt_sorted; auto; unfold le_f; intros; lia.
  - apply insert_at_cnt_sorted; auto; unfold karr; intros a Hin Hle.
    + rewrite Forall_forall in Ha. specialize (Ha a Hin). simpl. lia.
    + left; lia.
  - rewrite Forall_forall. intros a Hin. apply (Permutation_in _ HP) in Hin.
    destruct Hin as [<-|Hin]; [simpl; lia|]. rewrite Forall_forall in Ha. specialize (Ha a Hin). lia.
  - rewrite Forall_forall. intros a Hin. apply (Permutation_in _ HP) in Hin.
    destruct Hin as [<-|Hin]; [simpl; lia|]. rewrite Forall_forall in Hf. specialize (Hf a Hin). lia.
  - eapply Permutation_NoDup; [symmetry; apply Permutation_map; exact HP|].
    simpl. constructor; auto. intros Hin. apply in_map_iff in Hin as [a [Ea Hin]].
    rewrite Forall_forall in Hf. specialize (Hf a Hin). lia.
  - lia.
Qed.

Section WithSim.
Variable sim : option (nat -> nat -> bool).

Lemma should_add_nonan h i : should_add sim h i = true -> ik1 i <> None.
Proof. unfold should_add. destruct (ik1 i); simpl; congruence. Qed.

Lemma good_update1 base h i : good base h -> err (update1 sim h i) = false ->
  good base (update1 sim h i).
Proof.
  intros Hg. unfold update1. destruct (err h) eqn:Eh; [congruence|].
  destruct (should_add sim h i) eqn:Es; auto.
  apply should_add_nonan in Es.
  destruct (cap h) as [c|]; [|rewrite Eh; intros _; apply good_insert; auto].
  destruct (Nat.leb c (length (items h))).
  - destruct (err (remove h (-1))) eqn:Er; [congruence|]. intros _.
    apply good_insert; auto. apply good_remove; auto. congruence.
  - rewrite Eh. intros _. apply good_insert; auto.
Qed.

Lemma insert_err h i : err (insert h i) = err h.
Proof. reflexivity. Qed.

Lemma update1_err_sticky h i : err h = true -> err (update1 sim h i) = true.
Proof. intros H. unfold update1. rewrite H. auto. Qed.

Lemma fold_err_sticky {A} (f : hof -> A -> hof) :
  (forall h a, err h = true -> err (f h a) = true) ->
  forall l h, err h = true -> err (fold_left f l h) = true.
Proof. intros Hf. induction l; simpl; auto. Qed.

Lemma good_update base pop : forall h, good base h -> err (update sim h pop) = false ->
  good base (update sim h pop).
Proof.
  unfold update. induction pop as [|i pop IH]; simpl; auto. intros h Hg He.
  destruct (err (update1 sim h i)) eqn:E1.
  - rewrite (fold_err_sticky _ update1_err_sticky) in He; auto. discriminate.
  - apply IH; auto. apply good_update1; auto.
Qed.

(* ---- Pareto front: removal of dominated members is a filter ---- *)
Definition domby (i : indiv) (e : entry) : bool :=
  first_dominates (ik1 i) (ik2 i) (ek1 e) (ek2 e).

Lemma dominated_idx_app i l1 l2 n :
  dominated_idx i (l1 ++ l2) n = dominated_idx i l1 n ++ dominated_idx i l2 (n + length l1).
Proof.
  revert n; induction l1 as [|e l1 IH]; intros n; simpl.
  - now rewrite Nat.add_0_r.
  - rewrite IH. replace (S n + length l1)%nat with (n + S (length l1))%nat by lia.
    destruct (first_dominates _ _ _ _); reflexivity.
Qed.

Definition same_but_lists (h h' : hof) : Prop :=
  cap h' = cap h /\ next_id h' = next_id h /\ next_arr h' = next_arr h /\ err h' = err h.

Lemma pf_remove_fold i : forall es pre h,
  items h = pre ++ es -> keys h = map ek1 (items h) ->
  let h' := fold_left (fun h n => remove h (Z.of_nat n)) (rev (dominated_idx i es (length pre))) h in
  items h' = pre ++ filter (fun e => negb (domby i e)) es /\ keys h' = map ek1 (items h')
  /\ same_but_lists h h'.
Proof.
  induction es as [|e es IH]; intros pre h Hi Hk; cbn zeta.
  - simpl. rewrite Hi. repeat split; auto. now rewrite <- Hi.
  - cbn [dominated_idx filter]. fold (domby i e).
    specialize (IH (pre ++ [e]) h).
    rewrite app_length in IH. simpl in IH. rewrite Nat.add_1_r in IH.
    rewrite <- app_assoc in IH. simpl in IH. specialize (IH Hi Hk).
    destruct (domby i e) eqn:Ed; cbn [negb].
    + cbn [rev]. rewrite fold_left_app. cbn [fold_left].
      set (h1 := fold_left _ _ h) in *. destruct IH as (I1 & I2 & I3 & I4 & I5 & I6).
      rewrite <- app_assoc in I1. simpl in I1.
      assert (Hidx : py_index (length (items h1)) (Z.of_nat (length pre)) = Some (length pre)).
      { unfold py_index. rewrite I1, app_length. simpl.
        destruct (Z.leb_spec 0 (Z.of_nat (length pre))); [|lia].
        destruct (Z.ltb_spec (Z.of_nat (length pre)) (Z.of_nat (length pre + S (length (filter (fun e0 => negb (domby i e0)) es)))));
          [|lia]. simpl. now rewrite Nat2Z.id. }
      unfold remove. rewrite I2, map_length, Hidx. cbn [items keys cap next_id next_arr err].
      rewrite I1, remove_at_app_len. repeat split; auto.
      rewrite <- remove_at_map, remove_at_app_len. reflexivity.
    + destruct IH as (I1 & I2 & I3). rewrite <- app_assoc in I1. simpl in I1. auto.
Qed.
End WithSim.

(* ================= T2: any interleaving of operations ================= *)
Lemma StronglySorted_filter {A} (R : A -> A -> Prop) p l :
  StronglySorted R l -> StronglySorted R (filter p l).
Proof.
  induction 1 as [|x l Hs IH Hall]; simpl; [constructor|].
  destruct (p x); auto. constructor; auto.
  rewrite Forall_forall in *. intros a Ha. apply filter_In in Ha as [Ha _]. auto.
Qed.

Lemma Forall_filter {A} (P : A -> Prop) p l : Forall P l -> Forall P (filter p l).
Proof. rewrite !Forall_forall. intros H x Hx. apply filter_In in Hx as [Hx _]. auto. Qed.

Lemma NoDup_map_filter {A B} (f : A -> B) p l : NoDup (map f l) -> NoDup (map f (filter p l)).
Proof.
  induction l as [|x l IH]; simpl; auto. intros H. inversion H; subst.
  destruct (p x); simpl; auto. constructor; auto.
  intros Hin. apply in_map_iff in Hin as [a [Ea Ha]]. apply filter_In in Ha as [Ha _].
  apply H2. rewrite <- Ea. apply in_map; auto.
Qed.

Lemma good_filter base h h' p : good base h -> items h' = filter p (items h) ->
  keys h' = map ek1 (items h') -> same_but_lists h h' -> good base h'.
Proof.
  intros [Hk Hn Hs Hka Ha Hf Hd Hb] Hi Hk' (S1 & S2 & S3 & S4).
  constructor; rewrite ?Hi, ?S2, ?S3; auto.
  - rewrite Hk', Hi; auto.
  - apply Forall_filter; auto.
  - apply StronglySorted_filter; auto.
  - apply StronglySorted_filter; auto.
  - apply Forall_filter; auto.
  - apply Forall_filter; auto.
  - apply NoDup_map_filter; auto.
Qed.

Section WithSim2.
Variable sim : option (nat -> nat -> bool).

Lemma pf_nd_nonan h i : pf_not_dominated h i = true -> ik1 i <> None /\ ik2 i <> None.
Proof.
  unfold pf_not_dominated. destruct (ik1 i), (ik2 i); simpl; try discriminate.
  intros _. split; congruence.
Qed.

Lemma pf_update1_shape h i : keys h = map ek1 (items h) -> err h = false ->
  pf_not_dominated h i && not_similar sim h i = true ->
  exists h1, pf_update1 sim h i = insert h1 i /\
    items h1 = filter (fun e => negb (domby i e)) (items h) /\
    keys h1 = map ek1 (items h1) /\ same_but_lists h h1.
Proof.
  intros Hk He Hc. unfold pf_update1. rewrite He, Hc.
  pose proof (pf_remove_fold i (items h) [] h eq_refl Hk) as H. cbn zeta in H. simpl in H.
  eexists; split; [reflexivity|]. exact H.
Qed.

Lemma good_pf_update1 base h i : good base h -> err h = false -> good base (pf_update1 sim h i).
Proof.
  intros Hg He.
  destruct (pf_not_dominated h i && not_similar sim h i) eqn:Ec.
  - destruct (pf_update1_shape h i (g_keys _ _ Hg) He Ec) as (h1 & -> & Hi & Hk & Hsame).
    apply andb_prop in Ec as [Ec _]. apply pf_nd_nonan in Ec as [Ec _].
    apply good_insert; auto. eapply good_filter; eauto.
  - unfold pf_update1. rewrite He, Ec. auto.
Qed.

Lemma pf_update1_noerr h i : keys h = map ek1 (items h) -> err h = false -> err (pf_update1 sim h i) = false.
Proof.
  intros Hk He. destruct (pf_not_dominated h i && not_similar sim h i) eqn:Ec.
  - destruct (pf_update1_shape h i Hk He Ec) as (h1 & -> & _ & _ & (_ & _ & _ & S4)).
    rewrite insert_err. congruence.
  - unfold pf_update1. rewrite He, Ec. auto.
Qed.

Lemma good_pf_update base pop : forall h, good base h -> err h = false ->
  good base (pf_update sim h pop) /\ err (pf_update sim h pop) = false.
Proof.
  unfold pf_update. induction pop as [|i pop IH]; simpl; auto. intros h Hg He.
  apply IH; [apply good_pf_update1; auto|apply pf_update1_noerr; auto; apply Hg].
Qed.

Lemma good_step pareto base h o : good base h ->
  err (step sim pareto h o) = false -> good base (step sim pareto h o).
Proof.
  intros Hg. unfold step. destruct (err h) eqn:Eh; [congruence|].
  destruct o as [pop|i|idx|].
  - destruct pareto; intros He.
    + apply good_pf_update; auto.
    + apply good_update; auto.
  - intros _. unfold insert_pub. destruct (ik1 i) as [z|] eqn:Ek; cbn [kisnan]; [|exact Hg].
    apply good_insert; auto. congruence.
  - intros He. apply good_remove; auto. congruence.
  - intros _. apply good_clear; auto.
Qed.

Lemma step_err_sticky pareto h o : err h = true -> err (step sim pareto h o) = true.
Proof. intros H. unfold step. rewrite H. auto. Qed.

Lemma good_run_from pareto base ops : forall h, good base h ->
  err (fold_left (step sim pareto) ops h) = false -> good base (fold_left (step sim pareto) ops h).
Proof.
  induction ops as [|o ops IH]; simpl; auto. intros h Hg He.
  destruct (err (step sim pareto h o)) eqn:E1.
  - rewrite (fold_err_sticky _ (step_err_sticky pareto)) in He; auto. discriminate.
  - apply IH; auto. apply good_step; auto.
Qed.

Theorem any_history_good pareto c base ops :
  err (run sim pareto c base ops) = false -> good base (run sim pareto c base ops).
Proof. intros. apply good_run_from; auto. apply good_empty. Qed.
End WithSim2.

(* ================= T1: update-only, no similarity: the smallest keys ever offered ======== *)
Definition nn (l : list indiv) : list Z :=
  flat_map (fun i => match ik1 i with Some z => [z] | None => [] end) l.

Lemma nn_app l1 l2 : nn (l1 ++ l2) = nn l1 ++ nn l2.
Proof. unfold nn. apply flat_map_app. Qed.

Definition zs_of (h : hof) : list Z := map zk (items h).

Record inv1 (base c : nat) (h : hof) (seen : list Z) : Prop := {
  i_good : good base h;
  i_err : err h = false;
  i_cap : cap h = Some c;
  i_split : exists rest,
      Permutation (zs_of h ++ rest) seen /\
      (forall a b, In a (zs_of h) -> In b rest -> (a <= b)%Z) /\
      (length (items h) < c -> rest = [])%nat;
  i_len : (length (items h) <= c)%nat
}.

Lemma remove_last h : length (keys h) = length (items h) -> items h <> [] ->
  remove h (-1) = mkH (cap h) (removelast (keys h)) (removelast (items h))
                      (next_id h) (next_arr h) (err h).
Proof.
  intros El Hne. unfold remove. rewrite El.
  assert (Hl : (1 <= length (items h))%nat) by (destruct (items h); simpl; [congruence|lia]).
  assert (Hp : py_index (length (items h)) (-1) = Some (length (items h) - 1)%nat).
  { unfold py_index. simpl ((0 <=? -1)%Z). cbn [andb].
    destruct (Z.leb_spec 0 (Z.of_nat (length (items h)) + -1)); [|lia].
    simpl. f_equal. lia. }
  rewrite Hp. rewrite <- El at 1. rewrite !remove_at_last; auto.
  intros E. rewrite E in El. simpl in El. lia.
Qed.

Lemma insert_items_perm h i :
  exists e, zk e = match ik1 i with Some z => z | None => 0%Z end /\
            Permutation (items (insert h i)) (e :: items h).
Proof.
  unfold insert. eexists (mkE _ _ _ _ _). split; [|apply insert_at_perm]. reflexivity.
Qed.

Lemma last_map_some zs : zs <> [] -> last (map Some zs) None = Some (last zs 0%Z).
Proof.
  induction zs as [|z zs IH]; [congruence|]. intros _.
  destruct zs as [|y zs]; [reflexivity|].
  change (last (map Some (z :: y :: zs)) None) with (last (map Some (y :: zs)) None).
  rewrite IH by congruence. reflexivity.
Qed.

Lemma zs_removelast l : map zk (removelast l) = removelast (map zk l).
Proof.
  induction l as [|x l IH]; simpl; auto. destruct l; simpl in *; auto. f_equal; auto.
Qed.

Lemma inv1_step base c h seen i : (1 <= c)%nat -> inv1 base c h seen ->
  inv1 base c (update1 None h i) (seen ++ nn [i]).
Proof.
  intros Hc [Hg He Hcap (rest & HP & Hord & Hfull) Hlen].
  pose proof (g_keys _ _ Hg) as Hk.
  assert (El : length (keys h) = length (items h)) by (rewrite Hk, map_length; auto).
  assert (Hzs : keys h = map Some (zs_of h)) by (apply keys_as_zs; apply Hg).
  unfold nn. simpl. rewrite app_nil_r.
  unfold update1. rewrite He. unfold should_add.
  destruct (ik1 i) as [z|] eqn:Ez; cbn [kisnan].
  2:{ rewrite app_nil_r. constructor; eauto. }
  assert (Hins : forall h1, good base h1 -> err h1 = false -> cap h1 = Some c ->
            forall rest1, Permutation (z :: zs_of h1 ++ rest1) (seen ++ [z]) ->
            (forall a b, In a (z :: zs_of h1) -> In b rest1 -> (a <= b)%Z) ->
            (S (length (items h1)) < c -> rest1 = [])%nat -> (S (length (items h1)) <= c)%nat ->
            inv1 base c (insert h1 i) (seen ++ [z])).
  { intros h1 Hg1 He1 Hc1 rest1 P1 O1 F1 L1.
    destruct (insert_items_perm h1 i) as (e & Hze & Pe). rewrite Ez in Hze.
    assert (Pz : Permutation (zs_of (insert h1 i)) (z :: zs_of h1)).
    { unfold zs_of. rewrite (Permutation_map zk Pe). simpl. rewrite Hze. reflexivity. }
    assert (Li : length (items (insert h1 i)) = S (length (items h1))).
    { rewrite (Permutation_length Pe). reflexivity. }
    constructor; auto.
    - apply good_insert; auto. congruence.
    - exists rest1. split; [|split].
      + rewrite Pz. exact P1.
      + intros a b Ha Hb. apply O1; auto. apply (Permutation_in _ Pz); auto.
      + rewrite Li. auto.
    - rewrite Li. auto. }
  destruct (items h) as [|e0 l0] eqn:Ei.
  - (* empty hall *)
    rewrite Hcap. destruct (Nat.ltb_spec 0 c) as [_|Hc0]; [|lia]. destruct (Nat.leb_spec c (length (@nil entry))); [simpl in *; lia|].
    rewrite He. rewrite <- Ei in *.
    assert (Hr : rest = []) by (apply Hfull; rewrite Ei; simpl; lia). subst rest.
    apply (Hins h Hg He Hcap []); rewrite ?Ei; simpl; try lia; auto.
    rewrite <- HP. rewrite !app_nil_r. apply Permutation_cons_append.
  - rewrite <- Ei in *.
    assert (Hne : items h <> []) by (rewrite Ei; congruence).
    assert (Hzne : zs_of h <> []) by (unfold zs_of; rewrite Ei; simpl; congruence).
    unfold not_similar. rewrite Hcap.
    unfold last_key. rewrite Hzs, last_map_some by auto. cbn [kle].
    set (w := last (zs_of h) 0%Z).
    assert (Hsz : StronglySorted Z.le (zs_of h)) by (apply sorted_map_zk; apply Hg).
    assert (Hw : forall a, In a (zs_of h) -> (a <= w)%Z) by (intros; apply sorted_last_max; auto).
    assert (Hwin : In w (zs_of h)).
    { unfold w. rewrite (app_removelast_last 0%Z Hzne) at 2. apply in_or_app. right. simpl. auto. }
    destruct (Nat.ltb_spec (length (items h)) c) as [Hnf|Hf].
    + (* not full *)
      rewrite orb_true_r. destruct (Nat.leb_spec c (length (items h))); [lia|].
      rewrite He. rewrite (Hfull Hnf) in *.
      apply (Hins h Hg He Hcap []); auto; try lia.
      * rewrite <- HP. rewrite !app_nil_r. apply Permutation_cons_append.
      * intros a b _ [].
    + rewrite orb_false_r.
      destruct (Z.leb_spec z w) as [Hzw|Hzw].
      * (* full, admitted: evict the worst *)
        destruct (Nat.leb_spec c (length (items h))); [|lia].
        rewrite remove_last by auto. cbn [err]. rewrite He.
        set (h1 := mkH _ _ _ _ _ _).
        assert (Hg1 : good base h1).
        { pose proof (good_remove base h (-1) Hg) as G. rewrite remove_last in G by auto.
          rewrite He in G. apply G. reflexivity. }
        assert (Hz1 : zs_of h1 = removelast (zs_of h)) by (unfold zs_of, h1; simpl; apply zs_removelast).
        assert (Hl1 : S (length (items h1)) = length (items h)).
        { unfold h1. simpl. rewrite (app_removelast_last e0 Hne) at 2.
          rewrite app_length. simpl. lia. }
        apply (Hins h1 Hg1 eq_refl Hcap (w :: rest)); try lia.
        -- rewrite Hz1. rewrite <- HP.
           rewrite <- (removelast_last_perm (zs_of h) 0%Z Hzne) at 2. fold w.
           rewrite <- Permutation_cons_append. apply perm_skip.
           rewrite <- Permutation_middle. simpl. reflexivity.
        -- intros a b Ha Hb.
           assert (a <= w)%Z.
           { destruct Ha as [<-|Ha]; auto. apply Hw. rewrite Hz1 in Ha. apply In_removelast; auto. }
           destruct Hb as [<-|Hb]; auto. specialize (Hord w b Hwin Hb). lia.
      * (* full, rejected *)
        constructor; auto. exists (z :: rest). split; [|split].
        -- rewrite <- HP. rewrite <- Permutation_middle. rewrite Permutation_cons_append. reflexivity.
        -- intros a b Ha [<-|Hb]; auto. specialize (Hw a Ha). lia.
        -- lia.
Qed.

Lemma inv1_update base c pop : (1 <= c)%nat -> forall h seen, inv1 base c h seen ->
  inv1 base c (update None h pop) (seen ++ nn pop).
Proof.
  intros Hc. unfold update. induction pop as [|i pop IH]; intros h seen Hi; cbn [fold_left].
  - unfold nn; simpl. rewrite app_nil_r. auto.
  - change (i :: pop) with ([i] ++ pop). rewrite nn_app, app_assoc.
    apply IH. apply inv1_step; auto.
Qed.

Lemma inv1_empty base c : inv1 base c (empty_hof (Some c) base) [].
Proof.
  constructor; simpl; auto; [apply good_empty| |lia].
  exists []. simpl. repeat split; auto. intros a b [].
Qed.

Fixpoint all_updates (ops : list op) : list indiv :=
  match ops with
  | OUpdate pop :: ops' => pop ++ all_updates ops'
  | _ :: ops' => all_updates ops'
  | [] => []
  end.
Definition only_updates (ops : list op) : Prop :=
  Forall (fun o => match o with OUpdate _ => True | _ => False end) ops.

Lemma inv1_run base c ops : (1 <= c)%nat -> only_updates ops -> forall h seen, inv1 base c h seen ->
  inv1 base c (fold_left (step None false) ops h) (seen ++ nn (all_updates ops)).
Proof.
  intros Hc Ho. induction Ho as [|o ops Hoo Ho IH]; intros h seen Hi; cbn [fold_left all_updates].
  - unfold nn; simpl; rewrite app_nil_r; auto.
  - destruct o as [pop| | |]; try contradiction.
    rewrite nn_app, app_assoc. apply IH.
    unfold step. rewrite (i_err _ _ _ _ Hi). apply inv1_update; auto.
Qed.

(* ================= T3: Pareto front = the non-dominated offers ================= *)
Definition tri := (nat * Z * Z)%type.
Definition domt (a b : tri) : bool :=
  let '(_, a1, a2) := a in let '(_, b1, b2) := b in
  (a1 <=? b1)%Z && (a2 <=? b2)%Z && (negb (a1 =? b1)%Z || negb (a2 =? b2)%Z).

Arguments domt : simpl never.

Lemma first_dominates_some a1 a2 b1 b2 n m :
  first_dominates (Some a1) (Some a2) (Some b1) (Some b2) = domt (n, a1, a2) (m, b1, b2).
Proof.
  unfold first_dominates, domt, kgt, klt, kne.
  destruct (Z.ltb_spec b1 a1), (Z.ltb_spec b2 a2), (Z.leb_spec a1 b1), (Z.leb_spec a2 b2);
    simpl; try lia; reflexivity.
Qed.

Lemma domt_irrefl a : domt a a = false.
Proof. destruct a as [[n a1] a2]. unfold domt. rewrite !Z.eqb_refl. simpl. now rewrite andb_false_r. Qed.

Lemma domt_trans a b c : domt a b = true -> domt b c = true -> domt a c = true.
Proof.
  destruct a as [[? a1] a2], b as [[? b1] b2], c as [[? c1] c2]. unfold domt.
  intros H1 H2.
  destruct (Z.leb_spec a1 b1), (Z.leb_spec a2 b2), (Z.leb_spec b1 c1), (Z.leb_spec b2 c2);
    simpl in *; try discriminate.
  destruct (Z.eqb_spec a1 b1), (Z.eqb_spec a2 b2), (Z.eqb_spec b1 c1), (Z.eqb_spec b2 c2);
    simpl in *; try discriminate;
  destruct (Z.leb_spec a1 c1), (Z.leb_spec a2 c2); try lia; simpl;
  destruct (Z.eqb_spec a1 c1), (Z.eqb_spec a2 c2); simpl; try lia; reflexivity.
Qed.

Definition zk2 (e : entry) : Z := match ek2 e with Some z => z | None => 0%Z end.
Definition et (e : entry) : tri := (esrc e, zk e, zk2 e).
Definition ft (h : hof) : list tri := map et (items h).

Definition vo (l : list indiv) : list tri :=
  flat_map (fun i => match ik1 i, ik2 i with
                     | Some a, Some b => [(iid i, a, b)] | _, _ => [] end) l.
Lemma vo_app l1 l2 : vo (l1 ++ l2) = vo l1 ++ vo l2.
Proof. apply flat_map_app. Qed.

Definition nondom (offers : list tri) (o : tri) : bool :=
  forallb (fun q => negb (domt q o)) offers.

Record pinv (base : nat) (h : hof) (offers : list tri) : Prop := {
  p_good : good base h;
  p_err : err h = false;
  p_k2 : Forall (fun e => ek2 e <> None) (items h);
  p_perm : Permutation (ft h) (filter (nondom offers) offers);
  p_cover : forall o, In o offers -> In o (ft h) \/ exists m, In m (ft h) /\ domt m o = true
}.

Lemma filter_perm {A} (p : A -> bool) l1 l2 : Permutation l1 l2 -> Permutation (filter p l1) (filter p l2).
Proof.
  induction 1; simpl; auto.
  - destruct (p x); auto.
  - destruct (p x), (p y); auto. apply perm_swap.
  - etransitivity; eauto.
Qed.

Lemma filter_filter {A} (p q : A -> bool) l :
  filter p (filter q l) = filter (fun x => q x && p x) l.
Proof. induction l as [|x l IH]; simpl; auto. destruct (q x); simpl; [destruct (p x)|]; rewrite ?IH; auto. Qed.

Lemma nondom_app offers o x : nondom (offers ++ [o]) x = nondom offers x && negb (domt o x).
Proof. unfold nondom. rewrite forallb_app. simpl. now rewrite andb_true_r. Qed.

Lemma pinv_members base h offers : pinv base h offers ->
  forall m, In m (ft h) -> In m offers /\ nondom offers m = true.
Proof.
  intros Hp m Hm. apply (Permutation_in _ (p_perm _ _ _ Hp)) in Hm.
  apply filter_In in Hm. exact Hm.
Qed.

(* an offer is dominated by some offer iff it is dominated by a front member *)
Lemma nondom_iff_front base h offers o : pinv base h offers ->
  nondom offers o = forallb (fun m => negb (domt m o)) (ft h).
Proof.
  intros Hp. apply eq_true_iff_eq. unfold nondom. rewrite !forallb_forall. split; intros H x Hx.
  - apply H. eapply pinv_members; eauto.
  - destruct (p_cover _ _ _ Hp x Hx) as [Hin|(m & Hm & Hd)]; [auto|].
    destruct (domt x o) eqn:E; auto. specialize (H m Hm).
    rewrite (domt_trans _ _ _ Hd E) in H. discriminate.
Qed.

Lemma items_nd_front h i a b : ik1 i = Some a -> ik2 i = Some b ->
  Forall (fun e => ek1 e <> None) (items h) -> Forall (fun e => ek2 e <> None) (items h) ->
  forallb (fun e => negb (first_dominates (ek1 e) (ek2 e) (ik1 i) (ik2 i))) (items h)
  = forallb (fun m => negb (domt m (iid i, a, b))) (ft h).
Proof.
  intros E1 E2 H1 H2. unfold ft. rewrite E1, E2.
  induction (items h) as [|e l IH]; simpl; auto.
  inversion H1; subst. inversion H2; subst. rewrite IH by auto. f_equal. f_equal.
  unfold et, zk, zk2. destruct (ek1 e), (ek2 e); try congruence.
  apply (first_dominates_some _ _ _ _ (esrc e) (iid i)).
Qed.

Lemma insert_items_perm2 h i :
  exists e, esrc e = iid i /\ ek1 e = ik1 i /\ ek2 e = ik2 i /\
            Permutation (items (insert h i)) (e :: items h).
Proof.
  unfold insert. eexists (mkE _ _ _ _ _). split; [|split; [|split; [|apply insert_at_perm]]]; reflexivity.
Qed.

Lemma map_et_filter i a b l : ik1 i = Some a -> ik2 i = Some b ->
  Forall (fun e => ek1 e <> None) l -> Forall (fun e => ek2 e <> None) l ->
  map et (filter (fun e => negb (domby i e)) l)
  = filter (fun m => negb (domt (iid i, a, b) m)) (map et l).
Proof.
  intros E1 E2 H1 H2. induction l as [|e l IH]; cbn [map filter]; auto.
  inversion H1; subst. inversion H2; subst.
  assert (Ed : domby i e = domt (iid i, a, b) (et e)).
  { unfold domby, et, zk, zk2. rewrite E1, E2. destruct (ek1 e), (ek2 e); try congruence.
    apply (first_dominates_some _ _ _ _ (iid i) (esrc e)). }
  rewrite Ed. destruct (domt (iid i, a, b) (et e)); cbn [negb map]; rewrite IH; auto.
Qed.

Lemma pinv_step base h offers i : pinv base h offers ->
  pinv base (pf_update1 None h i) (offers ++ vo [i]).
Proof.
  intros Hp. pose proof Hp as [Hg He Hk2 HP Hcov].
  pose proof (g_nonan _ _ Hg) as Hk1.
  unfold vo. simpl. rewrite app_nil_r.
  destruct (ik1 i) as [a|] eqn:E1.
  2:{ rewrite app_nil_r. unfold pf_update1, pf_not_dominated. rewrite He, E1. simpl. auto. }
  destruct (ik2 i) as [b|] eqn:E2.
  2:{ rewrite app_nil_r. unfold pf_update1, pf_not_dominated. rewrite He, E1, E2. simpl. auto. }
  set (o := (iid i, a, b)).
  assert (Hnd : pf_not_dominated h i = nondom offers o).
  { unfold pf_not_dominated. rewrite E1, E2. cbn [kisnan orb].
    rewrite <- E1, <- E2. rewrite (items_nd_front h i a b E1 E2 Hk1 Hk2).
    symmetry. eapply nondom_iff_front; eauto. }
  destruct (nondom offers o) eqn:End.
  - (* admitted *)
    assert (Ec : pf_not_dominated h i && not_similar None h i = true) by (rewrite Hnd; reflexivity).
    destruct (pf_update1_shape None h i (g_keys _ _ Hg) He Ec) as (h1 & -> & Hi1 & Hk1' & Hsame).
    assert (Hg1 : good base h1) by (eapply good_filter; eauto).
    destruct (insert_items_perm2 h1 i) as (e & Es & Ee1 & Ee2 & Pe).
    assert (Het : et e = o) by (unfold et, zk, zk2, o; rewrite Es, Ee1, Ee2, E1, E2; reflexivity).
    assert (Hft1 : ft h1 = filter (fun m => negb (domt o m)) (ft h)).
    { unfold ft. rewrite Hi1. apply map_et_filter; auto. }
    assert (Pft : Permutation (ft (insert h1 i)) (o :: ft h1)).
    { unfold ft. rewrite (Permutation_map et Pe). simpl. rewrite Het. reflexivity. }
    constructor.
    + apply good_insert; auto. congruence.
    + rewrite insert_err. destruct Hsame as (_ & _ & _ & ->). auto.
    + rewrite Forall_forall. intros x Hx. apply (Permutation_in _ Pe) in Hx.
      destruct Hx as [<-|Hx]; [congruence|].
      rewrite Hi1 in Hx. apply filter_In in Hx as [Hx _]. rewrite Forall_forall in Hk2; auto.
    + rewrite Pft, Hft1. rewrite filter_app. simpl.
      rewrite nondom_app, End, domt_irrefl. simpl.
      rewrite <- Permutation_cons_append. apply perm_skip.
      rewrite (filter_perm _ _ _ HP), filter_filter.
      erewrite filter_ext; [reflexivity|]. intros x. now rewrite nondom_app.
    + intros q Hq. apply in_app_or in Hq as [Hq|[<-|[]]].
      * destruct (Hcov q Hq) as [Hin|(m & Hm & Hd)].
        -- destruct (domt o q) eqn:Eoq.
           ++ right. exists o. split; auto. apply (Permutation_in _ (Permutation_sym Pft)). simpl; auto.
           ++ left. apply (Permutation_in _ (Permutation_sym Pft)). right.
              rewrite Hft1. apply filter_In. rewrite Eoq. auto.
        -- right. destruct (domt o m) eqn:Eom.
           ++ exists o. split; [apply (Permutation_in _ (Permutation_sym Pft)); simpl; auto|].
              eapply domt_trans; eauto.
           ++ exists m. split; auto. apply (Permutation_in _ (Permutation_sym Pft)). right.
              rewrite Hft1. apply filter_In. rewrite Eom. auto.
      * left. apply (Permutation_in _ (Permutation_sym Pft)). simpl; auto.
  - (* rejected: dominated by some offer, hence by a front member *)
    unfold pf_update1. rewrite He, Hnd. cbn [andb].
    assert (Hm : exists m, In m (ft h) /\ domt m o = true).
    { rewrite (nondom_iff_front base h offers o Hp) in End.
      destruct (forallb _ (ft h)) eqn:Ef; [discriminate|].
      clear -Ef. induction (ft h) as [|m l IH]; simpl in Ef; [discriminate|].
      destruct (domt m o) eqn:Ed; simpl in Ef.
      - exists m. simpl; auto.
      - destruct (IH Ef) as (m' & ? & ?). exists m'. simpl; auto. }
    destruct Hm as (m & Hm & Hd).
    destruct (pinv_members base h offers Hp m Hm) as [Hmo Hmn].
    constructor; auto.
    + rewrite HP. rewrite filter_app. simpl. rewrite nondom_app, End. simpl. rewrite app_nil_r.
      erewrite filter_ext_in; [reflexivity|]. intros x Hx. rewrite nondom_app.
      destruct (nondom offers x) eqn:Ex; auto. simpl.
      destruct (domt o x) eqn:Eox; auto. exfalso.
      pose proof (domt_trans _ _ _ Hd Eox) as Hmx.
      unfold nondom in Ex. rewrite forallb_forall in Ex. specialize (Ex m Hmo).
      rewrite Hmx in Ex. discriminate.
    + intros q Hq. apply in_app_or in Hq as [Hq|[<-|[]]]; auto. right. exists m. auto.
Qed.

Lemma pinv_update base pop : forall h offers, pinv base h offers ->
  pinv base (pf_update None h pop) (offers ++ vo pop).
Proof.
  unfold pf_update. induction pop as [|i pop IH]; intros h offers Hp; cbn [fold_left].
  - unfold vo; simpl. rewrite app_nil_r. auto.
  - change (i :: pop) with ([i] ++ pop). rewrite vo_app, app_assoc. apply IH. apply pinv_step; auto.
Qed.

Lemma pinv_empty base : pinv base (empty_hof None base) [].
Proof.
  constructor; simpl; auto; try apply good_empty.
Qed.

Lemma pinv_run base ops : only_updates ops -> forall h offers, pinv base h offers ->
  pinv base (fold_left (step None true) ops h) (offers ++ vo (all_updates ops)).
Proof.
  intros Ho. induction Ho as [|o ops Hoo Ho IH]; intros h offers Hp; cbn [fold_left all_updates].
  - unfold vo; simpl; rewrite app_nil_r; auto.
  - destruct o as [pop| | |]; try contradiction.
    rewrite vo_app, app_assoc. apply IH.
    unfold step. rewrite (p_err _ _ _ Hp). apply pinv_update; auto.
Qed.

(* members of the front never dominate one another *)
Lemma pinv_antichain base h offers : pinv base h offers ->
  forall m1 m2, In m1 (ft h) -> In m2 (ft h) -> domt m1 m2 = false.
Proof.
  intros Hp m1 m2 H1 H2.
  destruct (pinv_members base h offers Hp m1 H1) as [Ho1 _].
  destruct (pinv_members base h offers Hp m2 H2) as [_ Hn2].
  unfold nondom in Hn2. rewrite forallb_forall in Hn2. specialize (Hn2 m1 Ho1).
  destruct (domt m1 m2); auto.
Qed.

(* ---- with a similarity filter: no resident is similar to a later one ---- *)
Section SimFront.
Variable f : nat -> nat -> bool.
Definition nosim (h : hof) : Prop :=
  forall a b, In a (items h) -> In b (items h) -> (earr a < earr b)%nat -> f (esrc a) (esrc b) = false.

Lemma nosim_pf_update1 base h i : good base h -> err h = false -> nosim h ->
  nosim (pf_update1 (Some f) h i).
Proof.
  intros Hg He Hn.
  destruct (pf_not_dominated h i && not_similar (Some f) h i) eqn:Ec.
  - destruct (pf_update1_shape (Some f) h i (g_keys _ _ Hg) He Ec) as (h1 & -> & Hi1 & _ & (_ & _ & S3 & _)).
    apply andb_prop in Ec as [_ Ens]. unfold not_similar in Ens. rewrite forallb_forall in Ens.
    intros a b Ha Hb Hlt. unfold insert in Ha, Hb. cbn [items] in Ha, Hb.
    apply (Permutation_in _ (insert_at_perm _ _ _)) in Ha, Hb.
    assert (Hsub : forall x, In x (items h1) -> In x (items h) /\ (earr x < next_arr h1)%nat).
    { intros x Hx. rewrite Hi1 in Hx. apply filter_In in Hx as [Hx _]. split; auto.
      rewrite S3. pose proof (g_arr _ _ Hg) as Ga. rewrite Forall_forall in Ga. auto. }
    destruct Ha as [<-|Ha], Hb as [<-|Hb]; cbn [earr esrc] in *.
    + lia.
    + apply Hsub in Hb as [_ Hb]. lia.
    + apply Hsub in Ha as [Ha _]. specialize (Ens a Ha). now apply negb_true_iff in Ens.
    + apply Hn; auto; apply Hsub; auto.
  - unfold pf_update1. rewrite He, Ec. auto.
Qed.

Lemma nosim_pf_update base pop : forall h, good base h -> err h = false -> nosim h ->
  nosim (pf_update (Some f) h pop).
Proof.
  unfold pf_update. induction pop as [|i pop IH]; intros h Hg He Hn; cbn [fold_left]; auto.
  apply IH; [apply good_pf_update1|apply pf_update1_noerr; auto; apply Hg|eapply nosim_pf_update1]; eauto.
Qed.

Lemma nosim_run base ops : only_updates ops -> forall h, good base h -> err h = false -> nosim h ->
  nosim (fold_left (step (Some f) true) ops h).
Proof.
  intros Ho. induction Ho as [|o ops Hoo Ho IH]; intros h Hg He Hn; cbn [fold_left]; auto.
  destruct o as [pop| | |]; try contradiction.
  unfold step at 2. rewrite He.
  destruct (good_pf_update (Some f) base pop h Hg He) as [G E].
  apply IH; auto. eapply nosim_pf_update; eauto.
Qed.
End SimFront.

(* ================= statements exported to Properties/C10.v ================= *)
Definition C10_smallest_stmt : Prop :=
  forall (base c : nat) (ops : list op), (1 <= c)%nat -> only_updates ops ->
  let h := run None false (Some c) base ops in
  let seen := nn (all_updates ops) in
  err h = false /\
  keys h = map Some (zs_of h) /\                      (* no NaN key is held *)
  StronglySorted Z.le (zs_of h) /\                    (* ascending *)
  length (keys h) = Nat.min c (length seen) /\        (* up to capacity *)
  exists rest, Permutation (zs_of h ++ rest) seen /\  (* a sub-multiset of what was offered ... *)
               forall a b, In a (zs_of h) -> In b rest -> (a <= b)%Z.  (* ... the smallest ones *)

Lemma C10_smallest : C10_smallest_stmt.
Proof.
  intros base c ops Hc Ho h seen.
  pose proof (inv1_run base c ops Hc Ho _ _ (inv1_empty base c)) as Hi. simpl in Hi.
  fold (run None false (Some c) base ops) in Hi. fold h in Hi. fold seen in Hi.
  destruct Hi as [Hg He Hcap (rest & HP & Hord & Hfull) Hlen].
  pose proof (g_keys _ _ Hg) as Hk.
  split; [auto|]. split; [apply keys_as_zs; apply Hg|].
  split; [apply sorted_map_zk; apply Hg|]. split.
  - rewrite Hk, map_length. apply Permutation_length in HP. rewrite app_length in HP.
    unfold zs_of in HP. rewrite map_length in HP.
    destruct (Nat.ltb_spec (length (items h)) c) as [Hlt|Hge].
    + rewrite (Hfull Hlt) in HP. simpl in HP. lia.
    + lia.
  - exists rest. auto.
Qed.

(* capacity 0 (after the fix of finding F12b): the hall stays empty, nothing raises *)
Lemma cap0_update1 sim h i : cap h = Some 0%nat -> items h = [] -> update1 sim h i = h.
Proof.
  intros Hc Hi. unfold update1. destruct (err h); [reflexivity|]. unfold should_add. rewrite Hi, Hc.
  destruct (kisnan (ik1 i)); reflexivity.
Qed.
Lemma cap0_update sim pop : forall h, cap h = Some 0%nat -> items h = [] -> update sim h pop = h.
Proof.
  unfold update. induction pop as [|i pop IH]; intros h Hc Hi; [reflexivity|]. cbn [fold_left]. rewrite (cap0_update1 sim h i Hc Hi). apply IH; assumption.
Qed.
Definition C10_capacity_zero_stmt : Prop :=
  forall sim (base : nat) (ops : list op), only_updates ops ->
  let h := run sim false (Some 0%nat) base ops in err h = false /\ keys h = [] /\ items h = [].
Lemma C10_capacity_zero : C10_capacity_zero_stmt.
Proof.
  intros sim base ops Ho. unfold run.
  assert (G : forall h, cap h = Some 0%nat -> items h = [] -> fold_left (step sim false) ops h = h).
  { induction Ho as [|o ops Hoo _ IH]; intros h Hc Hi; [reflexivity|]. cbn [fold_left]. destruct o as [pop| | |]; try destruct Hoo.
    assert (E : step sim false h (OUpdate pop) = h).
    { unfold step. destruct (err h); [reflexivity|]. apply cap0_update; assumption. }
    rewrite E. apply IH; assumption. }
  rewrite G by reflexivity. cbn. repeat split; reflexivity.
Qed.

(* the public insert never admits a NaN key; where update / the Pareto update call insert, the NaN test is dead code *)
Lemma insert_pub_of_should_add sim h i : should_add sim h i = true -> insert_pub h i = insert h i.
Proof. unfold should_add, insert_pub. destruct (kisnan (ik1 i)); [discriminate|reflexivity]. Qed.
Lemma insert_pub_of_pf sim h i : pf_not_dominated h i && not_similar sim h i = true -> insert_pub h i = insert h i.
Proof.
  unfold pf_not_dominated, insert_pub. destruct (kisnan (ik1 i)); [cbn; discriminate|reflexivity].
Qed.
Lemma insert_pub_nan h i : ik1 i = None -> insert_pub h i = h.
Proof. intros E. unfold insert_pub. rewrite E. reflexivity. Qed.

Definition C10_any_history_stmt : Prop :=
  forall sim pareto c (base : nat) (ops : list op),
  let h := run sim pareto c base ops in
  err h = false ->               (* no IndexError escaped *)
  keys h = map ek1 (items h) /\
  Forall (fun e => ek1 e <> None) (items h) /\
  StronglySorted (fun a b => (zk a <= zk b)%Z) (items h) /\
  StronglySorted karr (items h) /\                            (* earlier arrivals first among equals *)
  Forall (fun e => (base <= eid e)%nat) (items h) /\          (* independent copies: fresh objects *)
  NoDup (map eid (items h)).

Lemma C10_any_history : C10_any_history_stmt.
Proof.
  intros sim pareto c base ops h He.
  destruct (any_history_good sim pareto c base ops He) as [? ? ? ? ? Hf ? ?].
  repeat split; auto. rewrite Forall_forall in *. intros e Hin. specialize (Hf e Hin). lia.
Qed.

Definition C10_pareto_stmt : Prop :=
  forall (base : nat) (ops : list op), only_updates ops ->
  let h := run None true None base ops in
  let offers := vo (all_updates ops) in
  err h = false /\
  Permutation (ft h) (filter (nondom offers) offers) /\
  (forall m1 m2, In m1 (ft h) -> In m2 (ft h) -> domt m1 m2 = false).

Lemma C10_pareto : C10_pareto_stmt.
Proof.
  intros base ops Ho h offers.
  pose proof (pinv_run base ops Ho _ _ (pinv_empty base)) as Hp. simpl in Hp.
  fold (run None true None base ops) in Hp. fold h in Hp. fold offers in Hp.
  split; [apply Hp|]. split; [apply Hp|]. eapply pinv_antichain; eauto.
Qed.

Definition C10_pareto_sim_stmt : Prop :=
  forall (f : nat -> nat -> bool) (base : nat) (ops : list op), only_updates ops ->
  let h := run (Some f) true None base ops in
  forall a b, In a (items h) -> In b (items h) -> (earr a < earr b)%nat ->
              f (esrc a) (esrc b) = false.

Lemma C10_pareto_sim : C10_pareto_sim_stmt.
Proof.
  intros f base ops Ho h. unfold h, run.
  apply (nosim_run f base ops Ho); auto; [apply good_empty|]. intros a b [].
Qed.

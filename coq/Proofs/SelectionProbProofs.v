(* Proofs about Model/SelectionProb.v (property C08, probabilistic operators). *)
From Coq Require Import ZArith List Bool Arith Lia.
From Bingo Require Import Model.Best Model.Selection Model.SelectionProb Proofs.SelectionProofs.
Import ListNotations.
Local Open Scope nat_scope.

(* ===================== probabilistic tournament ===================== *)
Lemma ptournament1_spec size pop cell pick w : ptournament1 size pop cell pick = Ok w ->
  length cell = size /\ In w cell /\ w < length pop.
Proof.
  unfold ptournament1. destruct (legal_sample cell (length pop) size) eqn:El; [|discriminate]. cbn [negb].
  unfold legal_sample in El. apply andb_prop in El as [El _]. apply andb_prop in El as [El1 El2].
  apply Nat.eqb_eq in El1. rewrite forallb_forall in El2.
  assert (Hin : forall x, In x cell -> x < length pop) by (intros x Hx; apply Nat.ltb_lt, El2, Hx).
  destruct (forallb _ cell).
  - destruct cell as [|c r]; [discriminate|]. intros [= <-]. repeat split; auto. left; auto. apply Hin; left; auto.
  - destruct (Nat.ltb_spec pick (length cell)); [|discriminate]. intros [= <-].
    assert (In (nth pick cell 0) cell) by (apply nth_In; assumption). repeat split; auto.
Qed.

Lemma ptournament_spec size pop : forall target tape ws, ptournament size pop target tape = Ok ws ->
  length ws = target /\
  Forall2 (fun w cp => length (fst cp) = size /\ In w (fst cp) /\ w < length pop) ws (firstn target tape).
Proof.
  induction target as [|t IH]; intros tape ws; cbn [ptournament].
  - intros [= <-]. split; auto. constructor.
  - destruct (Nat.ltb (length pop) size); [discriminate|].
    destruct tape as [|[cell pick] tp]; [discriminate|].
    destruct (ptournament1 size pop cell pick) as [w| |] eqn:E1; try discriminate.
    destruct (ptournament size pop t tp) as [ws'| |] eqn:E2; try discriminate.
    intros [= <-]. destruct (IH tp ws' E2) as [Hl HF]. split; [simpl; lia|].
    cbn [firstn]. constructor; auto. apply ptournament1_spec in E1. exact E1.
Qed.

(* ===================== probabilistic crowding ===================== *)
(* what a slot may hold: the parent or the paired child; forced when one of them is NaN *)
Definition slot_ok (out ch par : ind) : Prop :=
  (out = par \/ out = ch) /\
  (sfit par = None -> out = ch) /\
  (sfit par <> None -> sfit ch = None -> out = par).

Lemma most_fit_prob_spec ch par coins x coins' : most_fit_prob ch par coins = Ok (x, coins') -> slot_ok x ch par.
Proof.
  unfold most_fit_prob, slot_ok. destruct (sfit par) eqn:Ep; cbn [kisnan].
  - destruct (sfit ch) eqn:Ec; cbn [kisnan].
    + destruct coins as [|[c|] r]; try discriminate. intros [= <- _].
      repeat split; try congruence. destruct c; auto.
    + intros [= <- _]. repeat split; auto; congruence.
  - intros [= <- _]. repeat split; auto; congruence.
Qed.

Lemma pcrowd_pairs_spec : forall n parents offspring close coins out,
  2 * n <= length parents -> 2 * n <= length offspring -> n <= length close ->
  pcrowd_pairs parents offspring close coins n = Ok out ->
  length out = length parents /\
  forall j, j < 2 * n -> slot_ok (nth j out dflt) (nth (paired j close) offspring dflt) (nth j parents dflt).
Proof.
  induction n as [|n IH]; intros parents offspring close coins out Hp Ho Hc.
  - cbn [pcrowd_pairs]. intros [= <-]. split; auto. intros j Hj. exfalso. lia.
  - destruct parents as [|p1 [|p2 ps]]; simpl in Hp; try lia.
    destruct offspring as [|c1 [|c2 cs]]; simpl in Ho; try lia.
    destruct close as [|cl cls]; simpl in Hc; try lia.
    cbn [pcrowd_pairs].
    destruct (most_fit_prob (if cl then c1 else c2) p1 coins) as [[x coins1]| |] eqn:E1; try discriminate.
    destruct (most_fit_prob (if cl then c2 else c1) p2 coins1) as [[y coins2]| |] eqn:E2; try discriminate.
    destruct (pcrowd_pairs ps cs cls coins2 n) as [rest| |] eqn:E3; try discriminate.
    intros [= <-].
    destruct (IH ps cs cls coins2 rest ltac:(lia) ltac:(lia) ltac:(lia) E3) as [Hl Hj].
    apply most_fit_prob_spec in E1, E2.
    split; [simpl; lia|].
    intros j Hlt. destruct j as [|[|j]].
    + unfold paired. simpl. destruct cl; exact E1.
    + unfold paired. simpl. destruct cl; exact E2.
    + rewrite paired_SS. cbn [nth]. apply Hj. lia.
Qed.

Lemma pcrowding_spec pop target close coins out : pcrowding pop target close coins = Ok out ->
  let h := Nat.div (length pop) 2 in
  length out = target /\ target <= h /\
  forall j, j < target -> slot_ok (nth j out dflt) (getp pop (h + paired j close)) (getp pop j).
Proof.
  unfold pcrowding. destruct (negb (Nat.even (length pop)) || negb (Nat.even target)) eqn:Ee; [discriminate|].
  apply orb_false_elim in Ee as [E1 E2]. apply negb_false_iff in E1, E2.
  apply Nat.even_spec in E1 as [h Eh]. apply Nat.even_spec in E2 as [t Et].
  assert (Hh : Nat.div (length pop) 2 = h) by (rewrite Eh, Nat.mul_comm; apply Nat.div_mul; lia).
  assert (Ht : Nat.div target 2 = t) by (rewrite Et, Nat.mul_comm; apply Nat.div_mul; lia).
  rewrite Hh, Ht. destruct (Nat.ltb_spec h target); [discriminate|].
  destruct (Nat.ltb_spec (length close) t); [discriminate|].
  destruct (pcrowd_pairs (firstn h pop) (skipn h pop) close coins t) as [l| |] eqn:El; try discriminate.
  intros [= <-]. cbn zeta.
  assert (L1 : length (firstn h pop) = h) by (rewrite firstn_length; lia).
  assert (L2 : length (skipn h pop) = h) by (rewrite skipn_length; lia).
  destruct (pcrowd_pairs_spec t (firstn h pop) (skipn h pop) close coins l ltac:(lia) ltac:(lia) ltac:(lia) El) as [Hl Hj].
  split; [rewrite firstn_length, Hl; lia|]. split; [lia|].
  intros j Hlt. rewrite nth_firstn_lt by lia.
  specialize (Hj j ltac:(lia)). rewrite nth_skipn in Hj. rewrite (nth_firstn_lt pop h j) in Hj by lia. exact Hj.
Qed.

(* Proofs for Model/Parse.v + Model/ParseTree.v (property C16): the shunting-yard recovers the printed tree. *)
From Coq Require Import ZArith List Bool Lia.
From Bingo Require Import Gen.OpDefs Gen.Strings Model.Stack Model.Parse Model.ParseTree.
Import ListNotations.
Local Open Scope Z_scope.

Definition run (ts : list tok) (s : option (list tok * list tok)) := fold_left sy_step ts s.
Lemma run_app a b s : run (a ++ b) s = run b (run a s).
Proof. apply fold_left_app. Qed.
Lemma run_single t s : run [t] s = sy_step s t.
Proof. reflexivity. Qed.

(* the part of the operator stack that belongs to enclosing constructs: empty, or topped by an opening parenthesis *)
Definition base_ok (base : list tok) : Prop := base = [] \/ exists r, base = TLp :: r.
Definition nn_op (t : tok) : bool := match t with TOp _ pr _ => 0 <=? pr | _ => false end.
Definition pre_of (pl : bool) : list tok := if pl then [T_ADD] else [].
Definition lead (pending : option qexpr) : list tok := match pending with None => [] | Some t0 => post t0 end.
Definition is_some {A} (o : option A) : bool := match o with Some _ => true | None => false end.

Lemma pop_ops_all pr (w : bool) : (pr = 0 /\ w = false) -> forall p base out, forallb nn_op p = true -> base_ok base ->
  pop_ops pr w (p ++ base) out = (base, out ++ p).
Proof.
  intros [-> ->]. induction p as [|t p IH]; intros base out H B; cbn [app].
  - rewrite app_nil_r. destruct B as [->|(r & ->)]; reflexivity.
  - cbn [forallb] in H. apply andb_prop in H as [H1 H2]. destruct t as [n q w'| | | | | | |]; try discriminate H1. cbn [pop_ops nn_op] in *.
    assert (E : (0 <? q) || (q =? 0) && negb false = true).
    { apply Z.leb_le in H1. destruct (Z.ltb_spec 0 q); [reflexivity|]. cbn. rewrite andb_true_r. apply Z.eqb_eq. lia. }
    rewrite E. rewrite (IH base _ H2 B). rewrite <- app_assoc. reflexivity.
Qed.
Lemma pop_ops_none pr w pl base out : 0 < pr -> base_ok base -> pop_ops pr w (pre_of pl ++ base) out = (pre_of pl ++ base, out).
Proof.
  intros P B. destruct pl; cbn [pre_of app].
  - cbn [pop_ops T_ADD]. unfold T_ADD. cbn [pop_ops].
    destruct (Z.ltb_spec pr 0); [lia|]. destruct (Z.eqb_spec 0 pr); [lia|]. reflexivity.
  - destruct B as [->|(r & ->)]; reflexivity.
Qed.
Lemma pop_to_lp_ops : forall p r out, forallb nn_op p = true -> pop_to_lp (p ++ TLp :: r) out = (TLp :: r, out ++ p).
Proof.
  induction p as [|t p IH]; intros r out H; cbn [app].
  - rewrite app_nil_r. reflexivity.
  - cbn [forallb] in H. apply andb_prop in H as [H1 H2]. destruct t; try discriminate H1. cbn [pop_to_lp].
    rewrite (IH _ _ H2). rewrite <- app_assoc. reflexivity.
Qed.

Definition sy_claim (e : pexpr) : Prop :=
  forall (pl : bool) base out, base_ok base ->
  exists p o, run (toks e) (Some (pre_of pl ++ base, out)) = Some (p ++ base, out ++ o) /\ forallb nn_op p = true /\
              forall pending, is_some pending = pl -> lead pending ++ o ++ p = post (recov e pending).

(* "( a )" on a stack whose top is not a function; and "f ( a )" *)
Lemma group_plain a st out : sy_claim a -> (match st with TFun _ :: _ => False | _ => True end) ->
  run ([TLp] ++ toks a ++ [TRp]) (Some (st, out)) = Some (st, out ++ post (recov a None)).
Proof.
  intros IH NF. rewrite !run_app. cbn [run fold_left sy_step].
  destruct (IH false (TLp :: st) out (or_intror (ex_intro _ st eq_refl))) as (p & o & R & NN & M). cbn [pre_of app] in R.
  rewrite R. cbn [fold_left sy_step]. rewrite (pop_to_lp_ops _ _ _ NN).
  specialize (M None eq_refl). cbn [lead app] in M. rewrite <- app_assoc, M.
  destruct st as [|t r]; [reflexivity|]. destruct t; try reflexivity. destruct NF.
Qed.
Lemma group_fun f a st out : sy_claim a ->
  run ([TFun f; TLp] ++ toks a ++ [TRp]) (Some (st, out)) = Some (st, out ++ post (recov a None) ++ [TFun f]).
Proof.
  intros IH. rewrite !run_app. cbn [run fold_left sy_step].
  destruct (IH false (TLp :: TFun f :: st) out (or_intror (ex_intro _ _ eq_refl))) as (p & o & R & NN & M). cbn [pre_of app] in R.
  rewrite R. cbn [fold_left sy_step]. rewrite (pop_to_lp_ops _ _ _ NN).
  specialize (M None eq_refl). cbn [lead app] in M. rewrite <- !app_assoc. rewrite <- M. rewrite <- !app_assoc. reflexivity.
Qed.

Lemma pre_base_not_fun pl base : base_ok base -> match pre_of pl ++ base with TFun _ :: _ => False | _ => True end.
Proof. intros [->|(r & ->)]; destruct pl; exact I. Qed.

Lemma plus_post pending q : lead pending ++ post q ++ pre_of (is_some pending) =
  post (match pending with None => q | Some t0 => QOp2 T_ADD t0 q end).
Proof. destruct pending as [t0|]; cbn [lead is_some pre_of post app]; [reflexivity|apply app_nil_r]. Qed.

Theorem shunting_yard_claim e : prec_ok e = true -> sy_claim e.
Proof.
  induction e as [k|k|t|f a IHa|a IHa b IHb|a IHa b IHb|n pr w a IHa b IHb|a IHa b IHb]; intros PO pl base out B; cbn [prec_ok] in PO.
  - exists (pre_of pl), [TVarConst VARIABLE k]. split; [reflexivity|]. split; [destruct pl; reflexivity|].
    intros pending <-. cbn [recov]. apply (plus_post pending (QAtom _)).
  - exists (pre_of pl), [TInt k]. split; [reflexivity|]. split; [destruct pl; reflexivity|].
    intros pending <-. cbn [recov]. apply (plus_post pending (QAtom _)).
  - exists (pre_of pl), [TLit t]. split; [reflexivity|]. split; [destruct pl; reflexivity|].
    intros pending <-. cbn [recov]. apply (plus_post pending (QAtom _)).
  - exists (pre_of pl), (post (recov a None) ++ [TFun f]). split; [|split; [destruct pl; reflexivity|]].
    + cbn [toks]. apply group_fun. apply IHa; exact PO.
    + intros pending <-. cbn [recov]. apply (plus_post pending (QOp1 f _)).
  - (* a + b *)
    apply andb_prop in PO as [POa POb].
    destruct (IHa POa pl base out B) as (pa & oa & Ra & NNa & Ma).
    destruct (IHb POb true base (out ++ oa ++ pa) B) as (pb & ob & Rb & NNb & Mb).
    exists pb, (oa ++ pa ++ ob). split; [|split; [exact NNb|]].
    + cbn [toks]. rewrite !run_app. rewrite Ra. cbn [run fold_left sy_step T_ADD].
      rewrite (pop_ops_all 0 false (conj eq_refl eq_refl) pa base _ NNa B).
      cbn [pre_of app] in Rb. rewrite <- app_assoc. rewrite Rb. rewrite <- !app_assoc. reflexivity.
    + intros pending E. cbn [recov]. rewrite <- (Mb (Some (recov a pending)) eq_refl). cbn [lead].
      rewrite <- (Ma pending E). rewrite <- !app_assoc. reflexivity.
  - (* a - (b) *)
    apply andb_prop in PO as [POa POb].
    destruct (IHa POa pl base out B) as (pa & oa & Ra & NNa & Ma).
    exists [T_SUB], (oa ++ pa ++ post (recov b None)). split; [|split; [reflexivity|]].
    + cbn [toks]. rewrite run_app. rewrite Ra.
      change ([T_SUB; TLp] ++ toks b ++ [TRp]) with ([T_SUB] ++ ([TLp] ++ toks b ++ [TRp])). rewrite run_app.
      rewrite run_single. unfold T_SUB at 1. cbn [sy_step].
      rewrite (pop_ops_all 0 false (conj eq_refl eq_refl) pa base _ NNa B).
      rewrite (group_plain b (TOp SUBTRACTION 0 false :: base) _ (IHb POb) I). rewrite <- !app_assoc. reflexivity.
    + intros pending E. cbn [recov post]. rewrite <- (Ma pending E). rewrite <- !app_assoc. reflexivity.
  - (* (a) op (b) *)
    apply andb_prop in PO as [PO POb]. apply andb_prop in PO as [Ppr POa]. apply Z.ltb_lt in Ppr.
    exists (TOp n pr w :: pre_of pl), (post (recov a None) ++ post (recov b None)). split; [|split].
    + cbn [toks].
      replace ([TLp] ++ toks a ++ [TRp; TOp n pr w; TLp] ++ toks b ++ [TRp])
        with (([TLp] ++ toks a ++ [TRp]) ++ [TOp n pr w] ++ ([TLp] ++ toks b ++ [TRp])) by (rewrite <- !app_assoc; reflexivity).
      rewrite run_app. rewrite (group_plain a _ _ (IHa POa) (pre_base_not_fun pl base B)).
      rewrite run_app. rewrite run_single. cbn [sy_step]. rewrite (pop_ops_none pr w pl base _ Ppr B).
      rewrite (group_plain b (TOp n pr w :: pre_of pl ++ base) _ (IHb POb) I). rewrite <- !app_assoc. reflexivity.
    + cbn [forallb nn_op]. destruct (Z.leb_spec 0 pr); [|lia]. destruct pl; reflexivity.
    + intros pending <-. cbn [recov]. rewrite <- (plus_post pending (QOp2 (TOp n pr w) _ _)). cbn [post]. rewrite <- !app_assoc. reflexivity.
  - (* abs(a) ^ (b) *)
    apply andb_prop in PO as [POa POb].
    exists (T_POW :: pre_of pl), ((post (recov a None) ++ [TFun ABS]) ++ post (recov b None)). split; [|split].
    + cbn [toks].
      replace ([TFun ABS; TLp] ++ toks a ++ [TRp; T_POW; TLp] ++ toks b ++ [TRp])
        with (([TFun ABS; TLp] ++ toks a ++ [TRp]) ++ [T_POW] ++ ([TLp] ++ toks b ++ [TRp])) by (rewrite <- !app_assoc; reflexivity).
      rewrite run_app. rewrite (group_fun ABS a _ _ (IHa POa)).
      rewrite run_app. rewrite run_single. unfold T_POW at 1. cbn [sy_step]. rewrite (pop_ops_none 2 true pl base _ ltac:(lia) B).
      rewrite (group_plain b (TOp POWER 2 true :: pre_of pl ++ base) _ (IHb POb) I). rewrite <- !app_assoc. reflexivity.
    + destruct pl; reflexivity.
    + intros pending <-. cbn [recov]. rewrite <- (plus_post pending (QOp2 T_POW (QOp1 ABS _) _)). cbn [post]. rewrite <- !app_assoc. reflexivity.
Qed.

Lemma flush_ops : forall p out, forallb nn_op p = true -> flush p out = Some (out ++ p).
Proof.
  induction p as [|t p IH]; intros out H; cbn [flush]; [rewrite app_nil_r; reflexivity|].
  cbn [forallb] in H. apply andb_prop in H as [H1 H2]. destruct t; try discriminate H1. rewrite (IH _ H2), <- app_assoc. reflexivity.
Qed.
(* infix_to_postfix on the tokens of a printed equation yields the postfix form of the recovered tree *)
Theorem infix_to_postfix_printed e : prec_ok e = true -> infix_to_postfix (toks e) = Some (post (recov e None)).
Proof.
  intros PO. destruct (shunting_yard_claim e PO false [] [] (or_introl eq_refl)) as (p & o & R & NN & M).
  unfold infix_to_postfix. cbn [pre_of app] in R. unfold run in R. rewrite R, app_nil_r. cbn [app].
  rewrite (flush_ops _ _ NN). specialize (M None eq_refl). cbn [lead app] in M. rewrite M. reflexivity.
Qed.

(* C07: the translated metrics and their paired derivatives (Gen/Metrics.v) against calculus over R. *)
From Coquelicot Require Import Coquelicot.
From Coq Require Import Reals List Lra Lia.
From Bingo Require Import Lib.RVec Gen.Metrics.
Import ListNotations.
Open Scope R_scope.

(* the residual vector as a list of functions of ONE constant (the others are fixed), with the corresponding
   row of the Jacobian^T: derivs fs t0 ds  <->  d fs_i / dt (t0) = ds_i *)
Definition derivs (fs : list (R -> R)) (t0 : R) (ds : list R) : Prop :=
  Forall2 (fun f d => is_derive f t0 d) fs ds.

Lemma derivs_length fs t0 ds : derivs fs t0 ds -> length ds = length fs.
Proof. induction 1; simpl; auto. Qed.

Lemma vmean_derive gs dgs t0 : derivs gs t0 dgs ->
  is_derive (fun t => vmean (at_ gs t)) t0 (vmean dgs).
Proof.
  intros H. unfold vmean, vlen. rewrite (derivs_length _ _ _ H).
  apply (is_derive_ext (fun t => / INR (length gs) * vsum (at_ gs t))).
  - intros t. rewrite at_length. unfold Rdiv. apply Rmult_comm.
  - replace (vsum dgs / INR (length gs)) with (/ INR (length gs) * vsum dgs) by (unfold Rdiv; ring).
    apply is_derive_scal. apply vsum_derive. exact H.
Qed.

Lemma vmean_nil : vmean [] = 0.
Proof. unfold vmean, vsum, Rdiv. simpl. ring. Qed.
Lemma vmul_nil_r v : vmul v [] = [].
Proof. destruct v; reflexivity. Qed.

(* row j of  np.mean(v * M, axis=1) *)
Lemma row_of_mmean v M j : nth j (mmean1 (mrowmul v M)) 0 = vmean (vmul v (nth j M [])).
Proof.
  unfold mmean1, mrowmul. rewrite map_map.
  rewrite <- (map_nth (fun row => vmean (vmul v row)) M [] j).
  rewrite vmul_nil_r, vmean_nil. reflexivity.
Qed.
Lemma nth_vscale s l j : nth j (vscale s l) 0 = s * nth j l 0.
Proof.
  unfold vscale. rewrite <- (map_nth (Rmult s) l 0 j). now rewrite Rmult_0_r.
Qed.

(* ---- squares ---- *)
Definition sq_fs (fs : list (R -> R)) : list (R -> R) := map (fun f t => f t * f t) fs.
Lemma vsquare_at fs t : vsquare (at_ fs t) = at_ (sq_fs fs) t.
Proof. unfold vsquare, at_, sq_fs. rewrite !map_map. reflexivity. Qed.

Lemma sq_derivs fs t0 ds : derivs fs t0 ds ->
  exists dsq, derivs (sq_fs fs) t0 dsq /\ vmean dsq = 2 * vmean (vmul (at_ fs t0) ds).
Proof.
  intros H.
  assert (K : exists dsq, derivs (sq_fs fs) t0 dsq /\ vsum dsq = 2 * vsum (vmul (at_ fs t0) ds) /\ length dsq = length fs).
  { induction H as [|f d fs ds Hf Hfs IH]; simpl.
    - exists []. repeat split; [constructor|simpl; lra].
    - destruct IH as (dsq & H1 & H2 & H3). exists (d * f t0 + f t0 * d :: dsq). repeat split; simpl; auto; [|lra].
      constructor; auto.
      apply (is_derive_mult (K := R_AbsRing) f f t0 d d Hf Hf). intros a b. apply Rmult_comm. }
  destruct K as (dsq & H1 & H2 & H3). exists dsq. split; auto.
  unfold vmean, vlen. rewrite H2, H3.
  assert (L : length (vmul (at_ fs t0) ds) = length fs).
  { clear -H. induction H; simpl; auto. }
  rewrite L. unfold Rdiv. ring.
Qed.

Lemma mse_derive fs t0 ds : derivs fs t0 ds ->
  is_derive (fun t => vmean (vsquare (at_ fs t))) t0 (2 * vmean (vmul (at_ fs t0) ds)).
Proof.
  intros H. destruct (sq_derivs fs t0 ds H) as (dsq & H1 & <-).
  apply (is_derive_ext (fun t => vmean (at_ (sq_fs fs) t))).
  - intros t. now rewrite vsquare_at.
  - apply vmean_derive. exact H1.
Qed.

Lemma abs_derivs fs t0 ds : derivs fs t0 ds -> Forall (fun f => f t0 <> 0) fs ->
  derivs (map (fun f t => Rabs (f t)) fs) t0 (vmul (vsign (at_ fs t0)) ds).
Proof.
  induction 1 as [|f d fs ds Hf Hfs IH]; intros Hnz; simpl; [constructor|].
  inversion Hnz; subst. constructor; [apply is_derive_Rabs; auto|]. apply IH; auto.
Qed.

(* ================= the four theorems ================= *)
Section Metrics.
Variables (fs : list (R -> R)) (t0 : R) (M : list (list R)) (j : nat) (kparams : R).
Hypothesis Hd : derivs fs t0 (nth j M []).

Theorem mse_gradient :
  is_derive (fun t => mean_squared_error (at_ fs t) kparams) t0
            (nth j (d_mean_squared_error_derivative (at_ fs t0) M) 0).
Proof.
  unfold mean_squared_error, d_mean_squared_error_derivative.
  rewrite nth_vscale, row_of_mmean. apply mse_derive. exact Hd.
Qed.

Theorem mae_gradient : Forall (fun f => f t0 <> 0) fs ->
  is_derive (fun t => mean_absolute_error (at_ fs t) kparams) t0
            (nth j (d_mean_absolute_error_derivative (at_ fs t0) M) 0).
Proof.
  intros Hnz. unfold mean_absolute_error, d_mean_absolute_error_derivative. rewrite row_of_mmean.
  set (ds := nth j M []) in *.
  assert (K : derivs (map (fun f t => Rabs (f t)) fs) t0 (vmul (vsign (at_ fs t0)) ds))
    by (apply abs_derivs; auto).
  apply (is_derive_ext (fun t => vmean (at_ (map (fun f t => Rabs (f t)) fs) t))).
  - intros t. unfold vabs, at_. now rewrite !map_map.
  - apply vmean_derive. exact K.
Qed.

Theorem rmse_gradient : 0 < vmean (vsquare (at_ fs t0)) ->
  is_derive (fun t => root_mean_squared_error (at_ fs t) kparams) t0
            (nth j (d_root_mean_squared_error_derivative (at_ fs t0) M) 0).
Proof.
  intros Hpos. unfold root_mean_squared_error, d_root_mean_squared_error_derivative.
  rewrite nth_vscale, row_of_mmean.
  pose proof (is_derive_sqrt (fun t => vmean (vsquare (at_ fs t))) t0 _ (mse_derive fs t0 _ Hd) Hpos) as D.
  assert (Hs : sqrt (vmean (vsquare (at_ fs t0))) <> 0).
  { intros E. apply sqrt_eq_0 in E; lra. }
  replace (IZR 1 / sqrt (vmean (vsquare (at_ fs t0))) * vmean (vmul (at_ fs t0) (nth j M [])))
    with (2 * vmean (vmul (at_ fs t0) (nth j M [])) / (2 * sqrt (vmean (vsquare (at_ fs t0))))) by (field; exact Hs).
  exact D.
Qed.

(* negative Laplace-approximated marginal likelihood (after fix F1) *)
Theorem nmll_gradient : 0 < vmean (vsquare (at_ fs t0)) ->
  is_derive (fun t => negative_nmll_laplace (at_ fs t) kparams) t0
            (nth j (d_negative_nmll_laplace_derivative (at_ fs t0) M) 0).
Proof.
  intros Hpos. unfold negative_nmll_laplace, d_negative_nmll_laplace_derivative. cbv zeta.
  rewrite !nth_vscale, row_of_mmean.
  set (n := vlen (at_ fs t0)). set (mse0 := vmean (vsquare (at_ fs t0))) in *.
  set (g := fun t => vmean (vsquare (at_ fs t))).
  set (dg := 2 * vmean (vmul (at_ fs t0) (nth j M []))).
  assert (Dg : is_derive g t0 dg) by (apply mse_derive; exact Hd).
  assert (Dln : is_derive (fun t => ln (g t)) t0 (dg * / mse0)).
  { apply (is_derive_comp ln g t0 (/ mse0) dg); auto. apply is_derive_ln. exact Hpos. }
  set (b := IZR 1 / sqrt n).
  set (A := - ((IZR 1 - b) * (- n / IZR 2))).
  set (B := - ((IZR 1 - b) * (- (n / IZR 2) - n / IZR 2 * ln (IZR 2 * PI)) + ln b / IZR 2 * (kparams + IZR 1))).
  apply (is_derive_ext (fun t => A * ln (g t) + B)).
  - intros t. unfold g, A, B, b, n, vlen. rewrite !at_length.
    change (@eq R (- ((IZR 1 - IZR 1 / sqrt (INR (length fs))) * (- INR (length fs) / IZR 2)) * ln (vmean (vsquare (at_ fs t))) +
      - ((IZR 1 - IZR 1 / sqrt (INR (length fs))) * (- (INR (length fs) / IZR 2) - INR (length fs) / IZR 2 * ln (IZR 2 * PI)) +
         ln (IZR 1 / sqrt (INR (length fs))) / IZR 2 * (kparams + IZR 1)))
      (- ((IZR 1 - IZR 1 / sqrt (INR (length fs))) *
          (- INR (length fs) / IZR 2 * ln (vmean (vsquare (at_ fs t))) - INR (length fs) / IZR 2 -
           INR (length fs) / IZR 2 * ln (IZR 2 * PI)) +
          ln (IZR 1 / sqrt (INR (length fs))) / IZR 2 * (kparams + IZR 1)))).
    unfold Rdiv. ring.
  - match goal with |- is_derive _ _ ?dd =>
      replace dd with (A * (dg * / mse0) + 0) by (unfold A, dg, Rdiv; ring) end.
    apply (is_derive_plus (V := R_NormedModule) (fun t => A * ln (g t)) (fun _ => B) t0 (A * (dg * / mse0)) 0).
    + apply is_derive_scal. exact Dln.
    + apply (is_derive_const (V := R_NormedModule) B t0).
Qed.
End Metrics.

(* ---- the metrics are the textbook formulas; an exact fit is a minimiser ---- *)
Lemma vsum_nonneg l : Forall (fun x => 0 <= x) l -> 0 <= vsum l.
Proof. induction 1; simpl; lra. Qed.

Theorem mae_mse_rmse_nonnegative v k :
  0 <= mean_absolute_error v k /\ 0 <= mean_squared_error v k /\ 0 <= root_mean_squared_error v k.
Proof.
  unfold mean_absolute_error, mean_squared_error, root_mean_squared_error, vmean, vlen.
  assert (H1 : 0 <= vsum (vabs v)).
  { apply vsum_nonneg. unfold vabs. rewrite Forall_forall. intros x Hx. apply in_map_iff in Hx as [y [<- _]]. apply Rabs_pos. }
  assert (H2 : 0 <= vsum (vsquare v)).
  { apply vsum_nonneg. unfold vsquare. rewrite Forall_forall. intros x Hx. apply in_map_iff in Hx as [y [<- _]]. nra. }
  assert (Hd : forall s, 0 <= s -> 0 <= s / INR (length v)).
  { intros s Hs. destruct v as [|x v]; [simpl; unfold Rdiv; rewrite Rinv_0; lra|].
    apply Rmult_le_pos; auto. left. apply Rinv_0_lt_compat. apply lt_0_INR. simpl. lia. }
  assert (L1 : length (vabs v) = length v) by apply map_length.
  assert (L2 : length (vsquare v) = length v) by apply map_length.
  rewrite L1, L2. split; [auto|]. split; [auto|]. apply sqrt_pos.
Qed.

Lemma vsum_zeros (f : R -> R) n : f 0 = 0 -> vsum (map f (repeat 0 n)) = 0.
Proof. intros Hf. induction n; simpl; auto. rewrite IHn, Hf. lra. Qed.

Theorem zero_residual_has_zero_fitness n k :
  let v := repeat 0 n in
  mean_absolute_error v k = 0 /\ mean_squared_error v k = 0 /\ root_mean_squared_error v k = 0.
Proof.
  intros v. unfold mean_absolute_error, mean_squared_error, root_mean_squared_error, vmean, vabs, vsquare, v.
  rewrite (vsum_zeros Rabs n Rabs_R0). rewrite (vsum_zeros (fun x => x * x) n) by lra.
  unfold Rdiv. rewrite !Rmult_0_l. split; [auto|]. split; [auto|]. apply sqrt_0.
Qed.

(* ---- residual assembly: f(x_i; c) - y_i, divided by y_i in relative mode ---- *)
Fixpoint map2 {A B C} (f : A -> B -> C) (a : list A) (b : list B) : list C :=
  match a, b with x :: a', y :: b' => f x y :: map2 f a' b' | _, _ => [] end.

Definition residual_fs (relative : bool) (fs : list (R -> R)) (ys : list R) : list (R -> R) :=
  map2 (fun f y => if relative then (fun t => (f t - y) / y) else (fun t => f t - y)) fs ys.
Definition residual_ds (relative : bool) (ds : list R) (ys : list R) : list R :=
  map2 (fun d y => if relative then d / y else d) ds ys.

(* if column j of the model Jacobian df/dc_j is correct (C02), the corresponding column of the residual
   Jacobian assembled by ExplicitRegression is correct, in absolute and in relative mode *)
Theorem residual_jacobian relative fs ys t0 ds : derivs fs t0 ds -> length ys = length fs ->
  (relative = true -> Forall (fun y => y <> 0) ys) ->
  derivs (residual_fs relative fs ys) t0 (residual_ds relative ds ys).
Proof.
  intros H. revert ys. induction H as [|f d fs ds Hf Hfs IH]; intros [|y ys] Hl Hy; simpl in *; try constructor; try lia.
  - destruct relative.
    + specialize (Hy eq_refl). inversion Hy; subst.
      apply (is_derive_ext (fun t => / y * (f t - y))); [intros t; unfold Rdiv; apply Rmult_comm|].
      replace (d / y) with (/ y * (d - 0)) by (unfold Rdiv; ring).
      apply is_derive_scal. apply (is_derive_minus (V := R_NormedModule) f (fun _ => y) t0 d 0); auto.
      apply (is_derive_const (V := R_NormedModule) y t0).
    + replace d with (d - 0) by ring.
      apply (is_derive_minus (V := R_NormedModule) f (fun _ => y) t0 d 0); auto.
      apply (is_derive_const (V := R_NormedModule) y t0).
  - apply IH; [lia|]. intros E. specialize (Hy E). inversion Hy; auto.
Qed.

(* ---- use_linear_correction: the corrected model values a + b*f and the scaled Jacobian column, (b, a) held fixed ---- *)
Definition corrected_fs (b a : R) (fs : list (R -> R)) : list (R -> R) := map (fun f t => a + b * f t) fs.
Definition corrected_ds (b : R) (ds : list R) : list R := map (fun d => d * b) ds.

Theorem corrected_jacobian b a fs t0 ds : derivs fs t0 ds -> derivs (corrected_fs b a fs) t0 (corrected_ds b ds).
Proof.
  induction 1 as [|f d fs ds Hf _ IH]; cbn [corrected_fs corrected_ds map]; constructor; [|exact IH].
  replace (d * b) with (0 + b * d) by ring.
  apply (is_derive_plus (V := R_NormedModule) (fun _ => a) (fun t => b * f t) t0 0 (b * d)).
  - apply (is_derive_const (V := R_NormedModule) a t0).
  - apply is_derive_scal. exact Hf.
Qed.

(* composed with the residual assembly: what get_fitness_vector_and_jacobian returns under linear correction *)
Theorem corrected_residual_jacobian relative b a fs ys t0 ds : derivs fs t0 ds -> length ys = length fs ->
  (relative = true -> Forall (fun y => y <> 0) ys) ->
  derivs (residual_fs relative (corrected_fs b a fs) ys) t0 (residual_ds relative (corrected_ds b ds) ys).
Proof.
  intros H Hl Hy. apply residual_jacobian; [apply corrected_jacobian; exact H| |exact Hy].
  unfold corrected_fs. rewrite map_length. exact Hl.
Qed.

From Coq Require Import ZArith QArith Qabs List Bool Lia ZifyBool.
From Bingo Require Import Gen.SavGol Model.Implicit.
Import ListNotations.
Local Open Scope Z_scope.

(* ---------- the translated recursion never runs out of fuel for the orders used ---------- *)
Lemma gram_polynomial_fuel : forall f1 f2 i m k s, k < Z.of_nat f1 -> k < Z.of_nat f2 ->
  gram_polynomial f1 i m k s = gram_polynomial f2 i m k s.
Proof.
  induction f1 as [|f1 IH]; intros [|f2] i m k s H1 H2; cbn [gram_polynomial]; try reflexivity.
  - destruct (Z.ltb_spec 0 k); [lia|]. destruct (Z.eqb_spec k 0); [lia|]. reflexivity.
  - destruct (Z.ltb_spec 0 k); [lia|]. destruct (Z.eqb_spec k 0); [lia|]. reflexivity.
  - destruct (Z.ltb_spec 0 k); [|reflexivity].
    rewrite !(IH f2) by lia. reflexivity.
Qed.

(* with order <= 3 the built-in fuel of 8 is never exhausted: any larger fuel gives the same value *)
Lemma gram_polynomial_fuel_enough i m k s : k <= sg_order -> forall extra,
  gram_polynomial gp_fuel i m k s = gram_polynomial (extra + gp_fuel) i m k s.
Proof.
  intros H1 extra. apply gram_polynomial_fuel; unfold gp_fuel, sg_order in *; lia.
Qed.

(* ---------- the weight table ---------- *)
Lemma m_half_eq : m_half = 3. Proof. reflexivity. Qed.
Lemma ks_eq : ks = [-3; -2; -1; 0; 1; 2; 3]. Proof. reflexivity. Qed.

Lemma Wt_is_W : forallb (fun k => forallb (fun w => Qeq_bool (Wt k w) (W k w)) (zrange 0 7)) ks = true.
Proof. vm_compute. reflexivity. Qed.

(* the centre column: the classical 7-point cubic first-derivative filter [22 -67 -58 0 58 67 -22]/252 *)
Lemma centre_column :
  map (fun k => Wt k 3) ks = [11 # 126; -67 # 252; -29 # 126; 0; 29 # 126; 67 # 252; -11 # 126]%Q.
Proof. reflexivity. Qed.

Definition cubic (a b c d t : Q) : Q := (a + b * t + c * t * t + d * t * t * t)%Q.
Definition cubic' (b c d t : Q) : Q := (b + (2 # 1) * c * t + (3 # 1) * d * t * t)%Q.

Ltac compute_wt :=
  repeat match goal with
         | |- context [Wt ?k ?w] => let v := eval vm_compute in (Wt k w) in change (Wt k w) with v
         | |- context [inject_Z ?z] => let v := eval vm_compute in (inject_Z z) in change (inject_Z z) with v
         end.

(* every column of the table differentiates cubics exactly at its own offset *)
Lemma column_exact a b c d (w : Z) : 0 <= w <= 6 -> forall i : Q,
  (sumq (map (fun k => cubic a b c d (i + inject_Z k) * Wt k w) ks)
   == cubic' b c d (i + inject_Z (w - 3)))%Q.
Proof.
  intros Hw i. rewrite ks_eq.
  assert (w = 0 \/ w = 1 \/ w = 2 \/ w = 3 \/ w = 4 \/ w = 5 \/ w = 6) as Hc by lia.
  destruct Hc as [->|[->|[->|[->|[->|[->| ->]]]]]]; cbn [map]; unfold sumq; cbn [fold_left];
    compute_wt; unfold cubic, cubic'; ring.
Qed.

(* ---------- index regimes ---------- *)
Lemma conv_index_interior i L : 3 <= i -> i + 4 <= L -> conv_index i L m_half = (i, 3).
Proof.
  intros H1 H2. unfold conv_index. rewrite m_half_eq.
  destruct (Z.ltb_spec i 3); [lia|]. destruct (Z.leb_spec (L - i) 3); [lia|]. reflexivity.
Qed.
Lemma conv_index_front i L : 0 <= i < 3 -> conv_index i L m_half = (3, i).
Proof. intros H. unfold conv_index. rewrite m_half_eq. destruct (Z.ltb_spec i 3); [reflexivity|lia]. Qed.
Lemma conv_index_back i L : 3 <= i -> L - i <= 3 -> conv_index i L m_half = (L - 4, 7 - (L - i)).
Proof.
  intros H1 H2. unfold conv_index. rewrite m_half_eq.
  destruct (Z.ltb_spec i 3); [lia|]. destruct (Z.leb_spec (L - i) 3); [|lia]. f_equal; lia.
Qed.

(* ---------- the filter on a cubic trajectory ---------- *)
Definition cubic_samples (a b c d : Q) (L : nat) : list Q :=
  map (fun t => cubic a b c d (inject_Z (Z.of_nat t))) (seq 0 L).

Lemma cubic_samples_length a b c d L : length (cubic_samples a b c d L) = L.
Proof. unfold cubic_samples. now rewrite map_length, seq_length. Qed.

Lemma nthZ_cubic a b c d L j : 0 <= j < Z.of_nat L ->
  nthZ (cubic_samples a b c d L) j = cubic a b c d (inject_Z j).
Proof.
  intros Hj. unfold nthZ. destruct (Z.leb_spec 0 j); [|lia].
  unfold cubic_samples.
  rewrite (nth_indep _ 0%Q (cubic a b c d (inject_Z (Z.of_nat 0)))) by (rewrite map_length, seq_length; lia).
  rewrite (map_nth (fun t => cubic a b c d (inject_Z (Z.of_nat t)))).
  rewrite seq_nth by lia. simpl. now rewrite Z2Nat.id by lia.
Qed.

Lemma In_ks k : In k ks -> -3 <= k <= 3.
Proof. rewrite ks_eq. simpl. lia. Qed.

Lemma zrange_In lo hi x : In x (zrange lo hi) <-> lo <= x < hi.
Proof.
  unfold zrange. rewrite in_map_iff. split.
  - intros (n & <- & Hn). apply in_seq in Hn. lia.
  - intros H. exists (Z.to_nat (x - lo)). split; [lia|]. apply in_seq. lia.
Qed.

(* for any trajectory of at least 7 samples the index regimes never leave the array *)
Lemma conv_ok_all (y : list Q) i : 7 <= Z.of_nat (length y) -> 0 <= i < Z.of_nat (length y) -> conv_ok y i = true.
Proof.
  intros HL Hi. unfold conv_ok. set (L := Z.of_nat (length y)) in *.
  assert (Hcase : i < 3 \/ (3 <= i /\ i + 4 <= L) \/ (3 <= i /\ L - i <= 3)) by lia.
  destruct Hcase as [H|[[H1 H2]|[H1 H2]]].
  - rewrite conv_index_front by lia. apply forallb_forall. intros k Hk. apply In_ks in Hk. unfold py_in_range. lia.
  - rewrite conv_index_interior by lia. apply forallb_forall. intros k Hk. apply In_ks in Hk. unfold py_in_range. lia.
  - rewrite conv_index_back by lia. apply forallb_forall. intros k Hk. apply In_ks in Hk. unfold py_in_range. lia.
Qed.

(* EVERY output sample of the filter (also the ones computed with the asymmetric boundary columns) is the
   exact derivative of the cubic at that sample *)
Lemma conv_at_cubic a b c d L i : (7 <= L)%nat -> 0 <= i < Z.of_nat L ->
  (conv_at (cubic_samples a b c d L) i == cubic' b c d (inject_Z i))%Q.
Proof.
  intros HL Hi. unfold conv_at. rewrite cubic_samples_length.
  assert (Hcase : i < 3 \/ (3 <= i /\ i + 4 <= Z.of_nat L) \/ (3 <= i /\ Z.of_nat L - i <= 3)) by lia.
  assert (Hgen : forall yc w, 0 <= w <= 6 -> 3 <= yc -> yc + 3 < Z.of_nat L -> yc + (w - 3) = i ->
            (sumq (map (fun k => nthZ (cubic_samples a b c d L) (yc + k) * Wt k w) ks) == cubic' b c d (inject_Z i))%Q).
  { intros yc w Hw H1 H2 E.
    rewrite (map_ext_in _ (fun k => (cubic a b c d (inject_Z yc + inject_Z k) * Wt k w)%Q)).
    - rewrite column_exact by auto. rewrite <- inject_Z_plus, E. reflexivity.
    - intros k Hk. apply In_ks in Hk. rewrite nthZ_cubic by lia. now rewrite inject_Z_plus. }
  destruct Hcase as [H|[[H1 H2]|[H1 H2]]].
  - rewrite conv_index_front by lia. apply Hgen; lia.
  - rewrite conv_index_interior by lia. apply Hgen; lia.
  - rewrite conv_index_back by lia. apply Hgen; lia.
Qed.

Theorem sg_filter_cubic a b c d L : (7 <= L)%nat ->
  exists f, sg_filter (cubic_samples a b c d L) = Some f /\
            Forall2 Qeq f (map (fun i => cubic' b c d (inject_Z i)) (zrange 0 (Z.of_nat L))).
Proof.
  intros HL. unfold sg_filter. rewrite cubic_samples_length.
  assert (Hok : forallb (conv_ok (cubic_samples a b c d L)) (zrange 0 (Z.of_nat L)) = true).
  { apply forallb_forall. intros i Hi. apply zrange_In in Hi.
    apply conv_ok_all; rewrite cubic_samples_length; lia. }
  rewrite Hok. eexists. split; [reflexivity|].
  assert (Hall : forall i, In i (zrange 0 (Z.of_nat L)) -> 0 <= i < Z.of_nat L) by (intros i Hi; apply zrange_In in Hi; lia).
  revert Hall. generalize (zrange 0 (Z.of_nat L)). intros l.
  induction l as [|i r IH]; intros Hall; simpl; constructor.
  - apply conv_at_cubic; auto. apply Hall. simpl; auto.
  - apply IH. intros j Hj. apply Hall. simpl; auto.
Qed.

(* ---------- trimming, segments ---------- *)
Lemma skipn_seq k : forall s n, skipn k (seq s n) = seq (s + k) (n - k).
Proof.
  induction k as [|k IH]; intros s n; simpl.
  - now rewrite Nat.add_0_r, Nat.sub_0_r.
  - destruct n as [|n]; simpl; auto. rewrite IH. f_equal. lia.
Qed.
Lemma firstn_seq k : forall s n, firstn k (seq s n) = seq s (Nat.min k n).
Proof.
  induction k as [|k IH]; intros s n; simpl; auto.
  destruct n as [|n]; simpl; auto. f_equal. apply IH.
Qed.

Lemma trim_map {A B} (g : A -> B) l : trim (map g l) = map g (trim l).
Proof. unfold trim. now rewrite map_length, skipn_map, firstn_map. Qed.

Lemma trim_seq s n : trim (seq s n) = seq (s + 3) (n - 7).
Proof.
  unfold trim, trim_front, trim_back. rewrite seq_length. simpl Z.to_nat.
  rewrite skipn_seq, firstn_seq. f_equal. lia.
Qed.

Lemma zrange0 n : zrange 0 (Z.of_nat n) = map Z.of_nat (seq 0 n).
Proof. unfold zrange. rewrite Z.sub_0_r, Nat2Z.id. apply map_ext. intros; lia. Qed.

(* which rows are retained: per segment [start, end), the rows start+3 .. end-5 *)
Theorem retained_rows_spec mask :
  retained_rows mask = concat (map (fun se => seq (fst se + 3) (snd se - fst se - 7)) (segments mask 0 0)).
Proof. unfold retained_rows. f_equal. apply map_ext. intros se. apply trim_seq. Qed.

(* segments are maximal NaN-free runs *)
Lemma segments_spec : forall mask start cur, (start <= cur)%nat ->
  Forall (fun se => (fst se <= snd se)%nat) (segments mask start cur).
Proof.
  induction mask as [|b r IH]; intros start cur H; simpl.
  - constructor; auto.
  - destruct b; [constructor; auto|]; apply IH; lia.
Qed.

Definition seg_deriv (coef : nat * nat -> Q * Q * Q * Q) (se : nat * nat) : list Q :=
  let '(_, b, c, d) := coef se in
  map (fun n => cubic' b c d (inject_Z (Z.of_nat n))) (seq 3 (snd se - fst se - 7)).

Lemma Forall2_app_Qeq l1 l1' l2 l2' : Forall2 Qeq l1 l1' -> Forall2 Qeq l2 l2' -> Forall2 Qeq (l1 ++ l2) (l1' ++ l2').
Proof. induction 1; simpl; auto. Qed.

Lemma Forall2_trim l l' : Forall2 Qeq l l' -> Forall2 Qeq (trim l) (trim l').
Proof.
  intros H. unfold trim.
  assert (EL : length l = length l') by (induction H; simpl; auto). rewrite EL.
  assert (S1 : forall k (a b : list Q), Forall2 Qeq a b -> Forall2 Qeq (skipn k a) (skipn k b)).
  { induction k; intros a b Hab; simpl; auto. destruct Hab; auto. }
  assert (S2 : forall k (a b : list Q), Forall2 Qeq a b -> Forall2 Qeq (firstn k a) (firstn k b)).
  { induction k; intros a b Hab; simpl; auto. destruct Hab; auto. }
  apply S2, S1, H.
Qed.

(* main theorem for the time derivatives: if on every NaN-separated trajectory (of at least 7 samples) the column
   is a cubic polynomial of the sample index, possibly a different one per trajectory, the filter succeeds and the
   retained derivative rows are exactly the derivatives of those cubics *)
Theorem partials_exact_on_cubics mask col (coef : nat * nat -> Q * Q * Q * Q) :
  Forall (fun se => (7 <= snd se - fst se)%nat /\
                    let '(a, b, c, d) := coef se in slice col (fst se) (snd se) = cubic_samples a b c d (snd se - fst se))
         (segments mask 0 0) ->
  exists xs ds, partials_col mask col = Some (xs, ds) /\
    xs = concat (map (fun se => trim (slice col (fst se) (snd se))) (segments mask 0 0)) /\
    Forall2 Qeq ds (concat (map (seg_deriv coef) (segments mask 0 0))).
Proof.
  unfold partials_col. generalize (segments mask 0 0). intros segs H.
  assert (K : exists ds,
     option_concat (map (fun se => match sg_filter (slice col (fst se) (snd se)) with
                                   | Some f => Some (trim f) | None => None end) segs) = Some ds /\
     Forall2 Qeq ds (concat (map (seg_deriv coef) segs))).
  { induction H as [|se r Hse Hr IH]; simpl; [exists []; split; auto|].
    destruct Hse as [HL Hc]. destruct (coef se) as [[[a b] c] d] eqn:Ec.
    destruct (sg_filter_cubic a b c d (snd se - fst se) HL) as (f & Ef & Hf).
    rewrite Hc, Ef. destruct IH as (ds & Eds & Hds). rewrite Eds.
    eexists. split; [reflexivity|]. apply Forall2_app_Qeq; auto.
    unfold seg_deriv. rewrite Ec.
    apply Forall2_trim in Hf. rewrite trim_map, zrange0, trim_map, trim_seq, map_map in Hf. exact Hf. }
  destruct K as (ds & E & Hds). rewrite E. eauto.
Qed.

(* samples of one trajectory never influence another: a trajectory's contribution is a function of its own slice *)
Theorem trajectory_contribution_is_local col1 col2 s e :
  slice col1 s e = slice col2 s e ->
  sg_filter (slice col1 s e) = sg_filter (slice col2 s e) /\ trim (slice col1 s e) = trim (slice col2 s e).
Proof. intros ->. auto. Qed.

(* ---------- the implicit-regression fitness ---------- *)
Local Open Scope Q_scope.

Lemma fold_plus l : forall acc, fold_left Qplus l acc == acc + sumq l.
Proof.
  unfold sumq. induction l as [|x l IH]; intros acc; simpl; [ring|].
  rewrite IH. rewrite (IH (0 + x)). ring.
Qed.
Lemma sumq_cons x l : sumq (x :: l) == x + sumq l.
Proof. unfold sumq at 1. simpl. rewrite fold_plus. ring. Qed.
Lemma sumq_nil : sumq [] == 0. Proof. reflexivity. Qed.

Lemma abs_sum_le l : Qabs (sumq l) <= sumabs l.
Proof.
  unfold sumabs. induction l as [|x l IH]; cbn [map].
  - rewrite !sumq_nil. simpl. apply Qle_refl.
  - rewrite !sumq_cons. eapply Qle_trans; [apply Qabs_triangle|]. apply Qplus_le_r. exact IH.
Qed.
Lemma sumabs_nonneg l : 0 <= sumabs l.
Proof.
  unfold sumabs. induction l as [|x l IH]; cbn [map]; [rewrite sumq_nil; apply Qle_refl|].
  rewrite sumq_cons. pose proof (Qabs_nonneg x). 
  replace 0 with (0 + 0) by reflexivity. apply Qplus_le_compat; auto.
Qed.

Lemma sumq_scale a l : sumq (map (Qmult a) l) == a * sumq l.
Proof.
  induction l as [|x l IH]; cbn [map]; [rewrite !sumq_nil; ring|]. rewrite !sumq_cons, IH. ring.
Qed.
Lemma sumabs_scale a l : sumabs (map (Qmult a) l) == Qabs a * sumabs l.
Proof.
  unfold sumabs. induction l as [|x l IH]; cbn [map]; [rewrite !sumq_nil; ring|].
  rewrite !sumq_cons. rewrite IH. rewrite (Qabs_Qmult a x). ring.
Qed.

Lemma row_value_some dots v : row_value dots = Some v ->
  0 < sumabs dots /\ v = sumq dots / sumabs dots.
Proof.
  unfold row_value. destruct (Qeq_bool (sumabs dots) 0) eqn:E; [discriminate|]. intros [= <-].
  split; auto. apply Qeq_bool_neq in E. pose proof (sumabs_nonneg dots).
  destruct (Qlt_le_dec 0 (sumabs dots)); auto. exfalso. apply E. apply Qle_antisym; auto.
Qed.

(* each row of the fitness vector lies in [-1, 1] *)
Theorem row_value_bounded dots v : row_value dots = Some v -> Qabs v <= 1.
Proof.
  intros H. apply row_value_some in H as [Hpos ->].
  unfold Qdiv. rewrite Qabs_Qmult. rewrite (Qabs_pos (/ sumabs dots)).
  2:{ apply Qlt_le_weak. apply Qinv_lt_0_compat. exact Hpos. }
  apply Qle_shift_div_r; auto. rewrite Qmult_1_l. apply abs_sum_le.
Qed.

(* exact invariant of the data: zero *)
Theorem row_value_invariant dots v : row_value dots = Some v -> sumq dots == 0 -> v == 0.
Proof. intros H H0. apply row_value_some in H as [_ ->]. rewrite H0. unfold Qdiv. ring. Qed.

Lemma Qabs_zero a : Qabs a == 0 -> a == 0.
Proof.
  apply (Qabs_case a (fun y => y == 0 -> a == 0)); intros H E; [exact E|].
  rewrite <- (Qopp_involutive a). rewrite E. reflexivity.
Qed.

(* multiplying the equation (hence every df_dx entry) by a non-zero constant only flips the sign of the row value *)
Theorem row_value_scale a dots : ~ a == 0 ->
  match row_value dots, row_value (map (Qmult a) dots) with
  | Some v, Some v' => Qabs v' == Qabs v
  | None, None => True
  | _, _ => False
  end.
Proof.
  intros Ha. unfold row_value.
  assert (Hz : sumabs (map (Qmult a) dots) == 0 <-> sumabs dots == 0).
  { rewrite sumabs_scale. split; intros H.
    - apply Qmult_integral in H as [H|H]; auto. exfalso. apply Ha. apply Qabs_zero. exact H.
    - rewrite H. ring. }
  destruct (Qeq_bool (sumabs dots) 0) eqn:E1, (Qeq_bool (sumabs (map (Qmult a) dots)) 0) eqn:E2; auto.
  - apply Qeq_bool_eq in E1. apply Qeq_bool_neq in E2. apply E2, Hz, E1.
  - apply Qeq_bool_neq in E1. apply Qeq_bool_eq in E2. apply E1, Hz, E2.
  - apply Qeq_bool_neq in E1. rewrite sumq_scale, sumabs_scale.
    assert (Ha' : ~ Qabs a == 0) by (intros E; apply Ha; apply Qabs_zero; exact E).
    assert (HT : 0 < sumabs dots).
    { pose proof (sumabs_nonneg dots). destruct (Qlt_le_dec 0 (sumabs dots)); auto.
      exfalso. apply E1. apply Qle_antisym; auto. }
    assert (HaT : 0 < Qabs a * sumabs dots).
    { apply Qmult_lt_0_compat; auto. pose proof (Qabs_nonneg a).
      destruct (Qlt_le_dec 0 (Qabs a)); auto. exfalso. apply Ha'. apply Qle_antisym; auto. }
    assert (Hdiv : forall x y, 0 < y -> Qabs (x / y) == Qabs x / y).
    { intros x y Hy. unfold Qdiv. rewrite Qabs_Qmult. rewrite (Qabs_pos (/ y)); [reflexivity|].
      apply Qlt_le_weak. apply Qinv_lt_0_compat. exact Hy. }
    rewrite !Hdiv by auto. rewrite Qabs_Qmult. field. split; auto.
Qed.

Lemma all_some_scale a rows : ~ a == 0 ->
  match all_some (map row_value rows), all_some (map row_value (map (map (Qmult a)) rows)) with
  | Some vs, Some vs' => Forall2 (fun v v' => Qabs v' == Qabs v) vs vs'
  | None, None => True
  | _, _ => False
  end.
Proof.
  intros Ha. induction rows as [|r rows IH]; simpl; [constructor|].
  pose proof (row_value_scale a r Ha) as H.
  destruct (row_value r) as [v|], (row_value (map (Qmult a) r)) as [v'|]; try contradiction; auto.
  destruct (all_some (map row_value rows)) as [vs|], (all_some (map row_value (map (map (Qmult a)) rows))) as [vs'|];
    try contradiction; auto.
Qed.

Lemma sum_abs_bound vs : Forall (fun v => Qabs v <= 1) vs ->
  0 <= sumq (map Qabs vs) /\ sumq (map Qabs vs) <= inject_Z (Z.of_nat (length vs)).
Proof.
  induction 1 as [|v vs Hv Hvs [IH1 IH2]]; cbn [map length].
  - rewrite sumq_nil. split; apply Qle_refl.
  - rewrite sumq_cons. pose proof (Qabs_nonneg v). split.
    + replace 0 with (0 + 0) by reflexivity. apply Qplus_le_compat; auto.
    + rewrite Nat2Z.inj_succ, <- Z.add_1_l, inject_Z_plus. apply Qplus_le_compat; auto.
Qed.

Lemma all_some_bounded rows vs : all_some (map row_value rows) = Some vs -> Forall (fun v => Qabs v <= 1) vs.
Proof.
  revert vs; induction rows as [|r rows IH]; intros vs; simpl; [intros [= <-]; constructor|].
  destruct (row_value r) as [v|] eqn:Er; [|discriminate].
  destruct (all_some (map row_value rows)) as [vs0|]; [|discriminate]. intros [= <-].
  constructor; auto. eapply row_value_bounded; eauto.
Qed.

(* the fitness (mean absolute error of the normalised vector) lies in [0, 1] whenever it is a number *)
Theorem implicit_fitness_range rows f : implicit_fitness rows = Some f -> 0 <= f /\ f <= 1.
Proof.
  unfold implicit_fitness. destruct (all_some (map row_value rows)) as [vs|] eqn:E; [|discriminate].
  destruct (Nat.eqb_spec (length vs) 0) as [|Hn]; [discriminate|]. intros [= <-].
  destruct (sum_abs_bound vs (all_some_bounded _ _ E)) as [H0 H1].
  assert (Hpos : 0 < inject_Z (Z.of_nat (length vs))).
  { change 0 with (inject_Z 0). rewrite <- Zlt_Qlt. lia. }
  split.
  - apply Qle_shift_div_l; [exact Hpos|]. rewrite Qmult_0_l. exact H0.
  - apply Qle_shift_div_r; [exact Hpos|]. rewrite Qmult_1_l. exact H1.
Qed.

(* unchanged when the equation is multiplied by a non-zero constant *)
Theorem implicit_fitness_scale_invariant a rows : ~ a == 0 ->
  match implicit_fitness rows, implicit_fitness (map (map (Qmult a)) rows) with
  | Some f, Some f' => f' == f
  | None, None => True
  | _, _ => False
  end.
Proof.
  intros Ha. unfold implicit_fitness. pose proof (all_some_scale a rows Ha) as H.
  destruct (all_some (map row_value rows)) as [vs|], (all_some (map row_value (map (map (Qmult a)) rows))) as [vs'|];
    try contradiction; auto.
  assert (EL : length vs' = length vs) by (induction H; simpl; auto).
  assert (ES : sumq (map Qabs vs') == sumq (map Qabs vs)).
  { induction H; cbn [map]; [reflexivity|]. rewrite !sumq_cons, H, IHForall2; [reflexivity|].
    inversion EL; auto. }
  rewrite EL. destruct (Nat.eqb (length vs) 0); auto. rewrite ES. reflexivity.
Qed.

(* zero for an exact invariant of the data *)
Theorem implicit_fitness_invariant rows f : implicit_fitness rows = Some f ->
  Forall (fun dots => sumq dots == 0) rows -> f == 0.
Proof.
  unfold implicit_fitness. destruct (all_some (map row_value rows)) as [vs|] eqn:E; [|discriminate].
  destruct (Nat.eqb (length vs) 0); [discriminate|]. intros [= <-] H.
  assert (Hz : sumq (map Qabs vs) == 0).
  { revert vs E. induction H as [|r rows Hr Hrows IH]; intros vs E; simpl in E.
    - injection E as <-. reflexivity.
    - destruct (row_value r) as [v|] eqn:Er; [|discriminate].
      destruct (all_some (map row_value rows)) as [vs0|] eqn:E0; [|discriminate]. injection E as <-.
      cbn [map]. rewrite sumq_cons, (IH vs0 eq_refl). rewrite (row_value_invariant r v Er Hr). reflexivity. }
  rewrite Hz. unfold Qdiv. ring.
Qed.

(* The Pareto dominance test TRANSLATED from the current source (Gen/ParetoRule.v) is the one Model/Hof.v uses
   (property C10; re-proved on every run). *)
From Coq Require Import ZArith Bool.
From Bingo Require Import Lib.Key Model.Hof Gen.ParetoRule.

Lemma first_dominates_is_source a1 a2 b1 b2 : first_dominates a1 a2 b1 b2 = gen_first_dominates a1 a2 b1 b2.
Proof. reflexivity. Qed.

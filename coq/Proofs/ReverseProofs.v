(* C02: reverse-mode differentiation computes the true partial derivatives (over R). *)
From Coquelicot Require Import Coquelicot.
From Coq Require Import Reals ZArith List Lra Lia Bool.
From Bingo Require Import Lib.Alg Gen.OpDefs Gen.OpEval Model.Stack Model.Reverse Proofs.StackProofs Proofs.ReduceProofs.
Import ListNotations.
Open Scope R_scope.

(* the real-number algebra: np.power is a^b = exp(b ln a) on positive bases *)
Definition r_alg : alg R :=
  mkAlg R IZR (/ 2) Rplus Rminus Rmult Rdiv Rpower sin cos sinh cosh exp ln Rabs sqrt sign.

(* ---------- derivatives of the elementary functions ---------- *)
Lemma comp1 g f t0 dg df : is_derive g (f t0) dg -> is_derive f t0 df -> is_derive (fun t => g (f t)) t0 (dg * df).
Proof.
  intros Hg Hf. evar_last; [apply (is_derive_comp g f t0 dg df Hg Hf)|]. unfold scal; simpl; unfold mult; simpl. ring.
Qed.

Lemma d_sin x : is_derive sin x (cos x). Proof. auto_derive; [auto|ring]. Qed.
Lemma d_cos x : is_derive cos x (- sin x). Proof. auto_derive; [auto|ring]. Qed.
Lemma d_exp x : is_derive exp x (exp x). Proof. auto_derive; [auto|ring]. Qed.
Lemma d_sinh x : is_derive sinh x (cosh x).
Proof. unfold sinh, cosh. auto_derive; [auto|field]. Qed.
Lemma d_cosh x : is_derive cosh x (sinh x).
Proof. unfold sinh, cosh. auto_derive; [auto|field]. Qed.
Lemma d_abs x : x <> 0 -> is_derive Rabs x (sign x).
Proof.
  intros Hx. evar_last; [apply (is_derive_Rabs (fun t => t) x 1); [apply (is_derive_id x)|exact Hx]|]. ring.
Qed.
Lemma d_lnabs x : x <> 0 -> is_derive (fun t => ln (Rabs t)) x (/ x).
Proof.
  intros Hx. evar_last.
  - apply (comp1 ln Rabs x (/ Rabs x) (sign x)); [apply is_derive_ln; apply Rabs_pos_lt; exact Hx|apply d_abs; exact Hx].
  - destruct (Rlt_dec 0 x) as [Hp|Hn].
    + rewrite Rabs_pos_eq by lra. rewrite sign_eq_1 by lra. field. lra.
    + assert (x < 0) by lra. rewrite Rabs_left by lra. rewrite sign_eq_m1 by lra. field. lra.
Qed.
Lemma d_sqrtabs x : x <> 0 -> is_derive (fun t => sqrt (Rabs t)) x (sign x / (2 * sqrt (Rabs x))).
Proof.
  intros Hx. evar_last.
  - apply (is_derive_sqrt Rabs x (sign x)); [apply d_abs; exact Hx|apply Rabs_pos_lt; exact Hx].
  - reflexivity.
Qed.

(* ---------- local partial derivatives of the 14 operators (the hand-written calculus spec) ---------- *)
Open Scope Z_scope.
Definition dop1 (op : Z) (a : R) : R :=
  if op =? SIN then cos a else if op =? COS then (- sin a)%R else if op =? SINH then cosh a
  else if op =? COSH then sinh a else if op =? EXPONENTIAL then exp a else if op =? LOGARITHM then (/ a)%R
  else if op =? ABS then sign a else if op =? SQRT then (sign a / (2 * sqrt (Rabs a)))%R else 0%R.
Definition dop2 (op : Z) (a b : R) : R * R :=
  if op =? ADDITION then (1, 1)%R else if op =? SUBTRACTION then (1, -1)%R
  else if op =? MULTIPLICATION then (b, a) else if op =? DIVISION then (/ b, - (a / b) / b)%R
  else if op =? POWER then (Rpower a b * b / a, Rpower a b * ln a)%R
  else if op =? SAFE_POWER then (Rpower (Rabs a) b * b / a, Rpower (Rabs a) b * ln (Rabs a))%R
  else (0, 0)%R.
(* where each operator is differentiable (the open set of the property) *)
Definition ok1 (op : Z) (a : R) : Prop :=
  (op = LOGARITHM \/ op = ABS \/ op = SQRT -> a <> 0%R).
Definition ok2 (op : Z) (a b : R) : Prop :=
  (op = DIVISION -> b <> 0%R) /\ (op = POWER -> (0 < a)%R) /\ (op = SAFE_POWER -> a <> 0%R).
Open Scope R_scope.

Lemma op1_derive op f t0 df : is_derive f t0 df -> ok1 op (f t0) ->
  is_derive (fun t => sem_op1 r_alg op (f t)) t0 (dop1 op (f t0) * df).
Proof.
  intros Hf Hok. unfold sem_op1, dop1, ok1 in *. simpl.
  destruct (Z.eqb_spec op SIN); [apply (comp1 sin f); [apply d_sin|auto]|].
  destruct (Z.eqb_spec op COS); [apply (comp1 cos f); [apply d_cos|auto]|].
  destruct (Z.eqb_spec op SINH); [apply (comp1 sinh f); [apply d_sinh|auto]|].
  destruct (Z.eqb_spec op COSH); [apply (comp1 cosh f); [apply d_cosh|auto]|].
  destruct (Z.eqb_spec op EXPONENTIAL); [apply (comp1 exp f); [apply d_exp|auto]|].
  destruct (Z.eqb_spec op LOGARITHM); [apply (comp1 (fun x => ln (Rabs x)) f); [apply d_lnabs; auto|auto]|].
  destruct (Z.eqb_spec op ABS); [apply (comp1 Rabs f); [apply d_abs; auto|auto]|].
  destruct (Z.eqb_spec op SQRT); [apply (comp1 (fun x => sqrt (Rabs x)) f); [apply d_sqrtabs; auto|auto]|].
  evar_last; [apply (is_derive_const (V := R_NormedModule) (dv r_alg) t0)|]. symmetry. apply Rmult_0_l.
Qed.

Lemma rpower_derive f g t0 df dg : is_derive f t0 df -> is_derive g t0 dg -> 0 < f t0 ->
  is_derive (fun t => Rpower (f t) (g t)) t0 (Rpower (f t0) (g t0) * g t0 / f t0 * df + Rpower (f t0) (g t0) * ln (f t0) * dg).
Proof.
  intros Hf Hg Hpos. unfold Rpower.
  assert (Hln : is_derive (fun t => ln (f t)) t0 (/ f t0 * df)) by (apply (comp1 ln f); [apply is_derive_ln; auto|auto]).
  assert (Hm : is_derive (fun t => g t * ln (f t)) t0 (dg * ln (f t0) + g t0 * (/ f t0 * df))).
  { apply (is_derive_mult (K := R_AbsRing) g (fun t => ln (f t)) t0 dg (/ f t0 * df) Hg Hln). intros a b. apply Rmult_comm. }
  evar_last; [apply (comp1 exp (fun t => g t * ln (f t)) t0 _ _ (d_exp _) Hm)|]. field. lra.
Qed.

Lemma op2_derive op f g t0 df dg : is_derive f t0 df -> is_derive g t0 dg -> ok2 op (f t0) (g t0) ->
  is_derive (fun t => sem_op2 r_alg op (f t) (g t)) t0
            (fst (dop2 op (f t0) (g t0)) * df + snd (dop2 op (f t0) (g t0)) * dg).
Proof.
  intros Hf Hg (Hd & Hp & Hs). unfold sem_op2, dop2. simpl.
  destruct (Z.eqb_spec op ADDITION).
  { simpl. evar_last; [apply (is_derive_plus (V := R_NormedModule) f g t0 df dg Hf Hg)|]. unfold plus; simpl. ring. }
  destruct (Z.eqb_spec op SUBTRACTION).
  { simpl. evar_last; [apply (is_derive_minus (V := R_NormedModule) f g t0 df dg Hf Hg)|]. unfold minus, plus, opp; simpl. ring. }
  destruct (Z.eqb_spec op MULTIPLICATION).
  { simpl. evar_last; [apply (is_derive_mult (K := R_AbsRing) f g t0 df dg Hf Hg); intros a b; apply Rmult_comm|].
    unfold plus, mult; simpl. ring. }
  destruct (Z.eqb_spec op DIVISION).
  { simpl. specialize (Hd e). evar_last; [apply (is_derive_div f g t0 df dg Hf Hg Hd)|]. field. exact Hd. }
  destruct (Z.eqb_spec op POWER).
  { simpl. evar_last; [apply (rpower_derive f g t0 df dg Hf Hg (Hp e))|]. ring. }
  destruct (Z.eqb_spec op SAFE_POWER).
  { simpl. specialize (Hs e).
    assert (Ha : is_derive (fun t => Rabs (f t)) t0 (sign (f t0) * df)) by (apply (comp1 Rabs f); [apply d_abs; auto|auto]).
    evar_last; [apply (rpower_derive (fun t => Rabs (f t)) g t0 _ dg Ha Hg); apply Rabs_pos_lt; auto|].
    destruct (Rlt_dec 0 (f t0)) as [Hpos|Hneg].
    - rewrite Rabs_pos_eq by lra. rewrite sign_eq_1 by lra. field. lra.
    - assert (f t0 < 0) by lra. rewrite Rabs_left by lra. rewrite sign_eq_m1 by lra. field. lra. }
  simpl. evar_last; [apply (is_derive_const (V := R_NormedModule) (dv r_alg) t0)|].
  symmetry. rewrite !Rmult_0_l. apply Rplus_0_l.
Qed.

(* ---------- forward-mode tangent of an expression tree, and where it is the derivative ---------- *)
Section Tangent.
Variables (xv cv : Z -> R) (dxv dcv : Z -> R).     (* environment at t0 and its derivative *)

Fixpoint dsem (e : expr) : R :=
  match e with
  | EInt _ => 0
  | EX k => dxv k
  | EC k => dcv k
  | EOp1 op a => dop1 op (sem r_alg xv cv a) * dsem a
  | EOp2 op a b => fst (dop2 op (sem r_alg xv cv a) (sem r_alg xv cv b)) * dsem a
                   + snd (dop2 op (sem r_alg xv cv a) (sem r_alg xv cv b)) * dsem b
  end.

Fixpoint ok_expr (e : expr) : Prop :=
  match e with
  | EOp1 op a => ok1 op (sem r_alg xv cv a) /\ ok_expr a
  | EOp2 op a b => ok2 op (sem r_alg xv cv a) (sem r_alg xv cv b) /\ ok_expr a /\ ok_expr b
  | _ => True
  end.
End Tangent.

Theorem expr_derive (X C : R -> Z -> R) (dxv dcv : Z -> R) t0 :
  (forall k, is_derive (fun t => X t k) t0 (dxv k)) ->
  (forall k, is_derive (fun t => C t k) t0 (dcv k)) ->
  forall e, ok_expr (X t0) (C t0) e ->
  is_derive (fun t => sem r_alg (X t) (C t) e) t0 (dsem (X t0) (C t0) dxv dcv e).
Proof.
  intros HX HC. induction e as [z|k|k|op a IHa|op a IHa b IHb]; intros Hok; cbn [sem dsem].
  - apply (is_derive_const (V := R_NormedModule) (IZR z) t0).
  - apply HX.
  - apply HC.
  - destruct Hok as [H1 Ha]. apply (op1_derive op (fun t => sem r_alg (X t) (C t) a) t0 _ (IHa Ha) H1).
  - destruct Hok as (H2 & Ha & Hb).
    apply (op2_derive op (fun t => sem r_alg (X t) (C t) a) (fun t => sem r_alg (X t) (C t) b) t0 _ _ (IHa Ha) (IHb Hb) H2).
Qed.

(* ---------- the reverse sweep, algebraically ---------- *)
Fixpoint dot (k : nat) (re : list R) (T : nat -> R) : R :=
  match k with O => 0 | S k' => dot k' re T + nth k' re 0 * T k' end.

Lemma updv_length (l : list R) i x : length (updv l i x) = length l.
Proof. revert i; induction l as [|y l IH]; intros [|i]; simpl; auto. Qed.
Lemma updv_same (l : list R) i x : (i < length l)%nat -> nth i (updv l i x) 0 = x.
Proof. revert i; induction l as [|y l IH]; intros [|i] H; simpl in *; try lia; auto. apply IH; lia. Qed.
Lemma updv_other (l : list R) i j x : i <> j -> nth j (updv l i x) 0 = nth j l 0.
Proof. revert i j; induction l as [|y l IH]; intros [|i] [|j] H; simpl; auto; try lia. Qed.

Lemma dot_updv_lt k re T p v : (p < k)%nat -> (p < length re)%nat ->
  dot k (updv re p (nth p re 0 + v)) T = dot k re T + v * T p.
Proof.
  induction k as [|k IH]; intros Hp Hl; [lia|]. simpl.
  destruct (Nat.eq_dec p k) as [->|Hne].
  - rewrite updv_same by auto.
    assert (E : dot k (updv re k (nth k re 0 + v)) T = dot k re T).
    { clear IH Hp. generalize (nth k re 0 + v). intros x.
      assert (G : forall m, (m <= k)%nat -> dot m (updv re k x) T = dot m re T).
      { induction m as [|m IHm]; intros Hm; simpl; auto. rewrite IHm by lia. rewrite updv_other by lia. reflexivity. }
      apply G. lia. }
    rewrite E. ring.
  - rewrite IH by lia. rewrite updv_other by auto. ring.
Qed.
Lemma dot_updv_ge k re T p x : (k <= p)%nat -> dot k (updv re p x) T = dot k re T.
Proof.
  induction k as [|k IH]; intros Hp; simpl; auto. rewrite IH by lia. rewrite updv_other by lia. reflexivity.
Qed.

Definition sum_updates (ups : list (Z * bool * R)) (T : nat -> R) : R :=
  fold_right (fun (u : Z * bool * R) (acc : R) =>
                (if snd (fst u) then snd u else - snd u) * T (Z.to_nat (fst (fst u))) + acc) 0 ups.

Lemma lookup_nth (l : list R) i : (0 <= i)%Z -> lookup l (zero r_alg) i = nth (Z.to_nat i) l 0.
Proof.
  intros H. unfold lookup, pyidx. destruct (Z.leb_spec 0 i); [|lia]. reflexivity.
Qed.

Lemma apply_updates_spec k T : forall ups re,
  (forall u, In u ups -> (0 <= fst (fst u) < Z.of_nat k)%Z) -> (k <= length re)%nat ->
  let re' := fold_left (apply_update r_alg) ups re in
  length re' = length re /\ dot k re' T = dot k re T + sum_updates ups T /\
  (forall j, (k <= j)%nat -> nth j re' 0 = nth j re 0).
Proof.
  induction ups as [|[[t pl] v] ups IH]; intros re Hin Hk; cbn [fold_left].
  - cbn zeta. simpl. repeat split; auto. ring.
  - assert (Ht : (0 <= t < Z.of_nat k)%Z) by (apply (Hin (t, pl, v)); simpl; auto).
    set (re1 := apply_update r_alg re (t, pl, v)).
    assert (E1 : re1 = updv re (Z.to_nat t) (nth (Z.to_nat t) re 0 + (if pl then v else - v))).
    { unfold re1, apply_update. rewrite lookup_nth by lia. unfold pyidx.
      destruct (Z.leb_spec 0 t); [|lia]. f_equal. destruct pl; simpl; [reflexivity|unfold Rminus; reflexivity]. }
    destruct (IH re1) as (L & Dt & U).
    + intros u Hu. apply Hin. simpl; auto.
    + rewrite E1, updv_length. auto.
    + cbn zeta. split; [rewrite L, E1, updv_length; auto|]. split.
      * rewrite Dt, E1. rewrite dot_updv_lt by lia. simpl. ring.
      * intros j Hj. rewrite U by auto. rewrite E1. apply updv_other. lia.
Qed.

(* ---------- each translated adjoint rule distributes re_i times the local partials ---------- *)
Lemma rule_effect_terminal n ri p1 p2 (fe re : Z -> R) : is_terminal n = true ->
  rev_rule r_alg n ri p1 p2 fe re = [].
Proof.
  intros H. apply is_terminal_true in H as [->|[->| ->]]; reflexivity.
Qed.

Lemma rule_effect2 n ri p1 p2 (fe re : Z -> R) (T : nat -> R) : is_arity_2 n = true ->
  fe ri = sem_op2 r_alg n (fe p1) (fe p2) -> ok2 n (fe p1) (fe p2) ->
  sum_updates (rev_rule r_alg n ri p1 p2 fe re) T
  = re ri * (fst (dop2 n (fe p1) (fe p2)) * T (Z.to_nat p1) + snd (dop2 n (fe p1) (fe p2)) * T (Z.to_nat p2))
  /\ forall u, In u (rev_rule r_alg n ri p1 p2 fe re) -> fst (fst u) = p1 \/ fst (fst u) = p2.
Proof.
  intros H2 Hv (Hd & Hp & Hs).
  assert (Hin : In n [ADDITION; SUBTRACTION; MULTIPLICATION; DIVISION; POWER; SAFE_POWER]).
  { unfold is_arity_2 in H2.
    repeat match type of H2 with context [Z.eqb n ?K] =>
      destruct (Z.eqb_spec n K) as [->|?]; [vm_compute in H2; try discriminate; simpl; tauto|] end. discriminate. }
  simpl in Hin.
  destruct Hin as [<-|[<-|[<-|[<-|[<-|[<-|[]]]]]]]; cbv [rev_rule rev_add rev_subtract rev_multiply rev_divide rev_pow rev_safe_pow
      ADDITION SUBTRACTION MULTIPLICATION DIVISION POWER SAFE_POWER INTEGER VARIABLE CONSTANT SIN COS SINH COSH EXPONENTIAL
      LOGARITHM ABS SQRT Z.eqb Pos.eqb] in *;
    unfold sum_updates, sem_op2, dop2 in *; simpl in *.
  - split; [ring|intros u [<-|[<-|[]]]; auto].
  - split; [ring|intros u [<-|[<-|[]]]; auto].
  - split; [ring|intros u [<-|[<-|[]]]; auto].
  - split; [rewrite Hv; field; apply Hd; reflexivity|intros u [<-|[<-|[]]]; auto].
  - split; [rewrite Hv; assert (0 < fe p1) by (apply Hp; reflexivity); field; lra|intros u [<-|[<-|[]]]; auto].
  - split; [rewrite Hv; assert (fe p1 <> 0) by (apply Hs; reflexivity); field; auto|intros u [<-|[<-|[]]]; auto].
Qed.

Lemma rule_effect1 n ri p1 p2 (fe re : Z -> R) (T : nat -> R) : is_terminal n = false -> is_arity_2 n = false ->
  known_node n = true -> fe ri = sem_op1 r_alg n (fe p1) -> ok1 n (fe p1) ->
  sum_updates (rev_rule r_alg n ri p1 p2 fe re) T = re ri * (dop1 n (fe p1) * T (Z.to_nat p1))
  /\ forall u, In u (rev_rule r_alg n ri p1 p2 fe re) -> fst (fst u) = p1.
Proof.
  intros Ht H2 Hk Hv Hok.
  assert (Hin : In n [SIN; COS; SINH; COSH; EXPONENTIAL; LOGARITHM; ABS; SQRT]).
  { unfold known_node in Hk. apply existsb_exists in Hk as (K & HK & E). apply Z.eqb_eq in E. subst K.
    unfold all_nodes in HK. simpl in HK.
    repeat (destruct HK as [<-|HK]; [first [vm_compute in Ht; discriminate | vm_compute in H2; discriminate | simpl; tauto]|]).
    destruct HK. }
  simpl in Hin. unfold ok1 in Hok.
  destruct Hin as [<-|[<-|[<-|[<-|[<-|[<-|[<-|[<-|[]]]]]]]]];
    cbv [rev_rule rev_sin rev_cos rev_sinh rev_cosh rev_exp rev_log rev_abs rev_sqrt
      ADDITION SUBTRACTION MULTIPLICATION DIVISION POWER SAFE_POWER INTEGER VARIABLE CONSTANT SIN COS SINH COSH EXPONENTIAL
      LOGARITHM ABS SQRT Z.eqb Pos.eqb] in *;
    unfold sum_updates, sem_op1, dop1 in *; simpl in *.
  - split; [ring|intros u [<-|[]]; auto].
  - split; [ring|intros u [<-|[]]; auto].
  - split; [ring|intros u [<-|[]]; auto].
  - split; [ring|intros u [<-|[]]; auto].
  - split; [rewrite Hv; ring|intros u [<-|[]]; auto].
  - split; [unfold Rdiv; ring|intros u [<-|[]]; auto].
  - split; [ring|intros u [<-|[]]; auto].
  - split; [|intros u [<-|[]]; auto].
    assert (Ha : fe p1 <> 0) by (apply Hok; auto).
    assert (Hs : sqrt (Rabs (fe p1)) <> 0).
    { intros E. apply sqrt_eq_0 in E; [|apply Rabs_pos]. apply Rabs_eq_0 in E. auto. }
    rewrite Hv. field. exact Hs.
Qed.

(* ---------- the sweep computes the tangent of the root ---------- *)
Section Sweep.
Variables (s : stack) (D : Z) (xv cv : Z -> R) (wrt_x : bool) (ncols : nat).
Hypothesis Hwf : wf D s = true.
Let n := length s.
Let es := denote_all s.
Let wrt := if wrt_x then VARIABLE else CONSTANT.
Definition leaf_dx (col : nat) (k : Z) : R := if wrt_x && (k =? Z.of_nat col)%Z then 1 else 0.
Definition leaf_dc (col : nat) (k : Z) : R := if negb wrt_x && (k =? Z.of_nat col)%Z then 1 else 0.
Definition tangent (col j : nat) : R := dsem xv cv (leaf_dx col) (leaf_dc col) (nth j es (EInt 0)).
Definition val (j : nat) : R := sem r_alg xv cv (nth j es (EInt 0)).

(* every row of the wrt kind loads an existing column; every operator row is differentiable at this point *)
Hypothesis Hcols : forall i, (i < n)%nat -> node_of (nth i s dflt_cmd) = wrt ->
  (0 <= p1_of (nth i s dflt_cmd) < Z.of_nat ncols)%Z.
Hypothesis Hdiff : forall i, (i < n)%nat -> ok_expr xv cv (nth i es (EInt 0)).

Lemma n_pos : (1 <= n)%nat.
Proof. unfold n. unfold wf in Hwf. destruct s; simpl in *; [discriminate|lia]. Qed.

Lemma fe_nth j : (j < n)%nat -> nth j (forward r_alg s xv cv) 0 = val j.
Proof.
  intros Hj. rewrite forward_is_denotation. unfold val, es.
  change 0 with (sem r_alg xv cv (EInt 0)). apply map_nth.
Qed.

Lemma es_operand i p : (i < n)%nat -> (0 <= p < Z.of_nat i)%Z ->
  lookup (denote_all (firstn i s)) (EInt 0) p = nth (Z.to_nat p) es (EInt 0).
Proof.
  intros Hi Hp. rewrite lookup_nat by lia. unfold es.
  rewrite <- (firstn_skipn i s) at 2. rewrite denote_all_prefix; auto. rewrite firstn_length. unfold n in Hi. lia.
Qed.

Lemma es_row i : (i < n)%nat ->
  nth i es (EInt 0) = mk_expr (nth i s dflt_cmd) (lookup (denote_all (firstn i s)) (EInt 0)).
Proof. intros Hi. unfold es. apply denote_all_nth. exact Hi. Qed.

Definition sinv (k : nat) (st : list R * list R) : Prop :=
  length (fst st) = n /\ length (snd st) = ncols /\
  forall col, (col < ncols)%nat -> nth col (snd st) 0 + dot k (fst st) (tangent col) = tangent col (n - 1).

Lemma sweep_step k st : (k < n)%nat -> sinv (S k) st ->
  sinv k (rev_step r_alg s (forward r_alg s xv cv) wrt st k).
Proof.
  intros Hk (Lr & Ld & Hinv). destruct st as [re deriv]. simpl in Lr, Ld, Hinv.
  pose proof (wf_operands_ok D s Hwf) as Hok.
  unfold rev_step. set (c := nth k s dflt_cmd).
  change (nth k s (0%Z, 0%Z, 0%Z)) with c.
  pose proof (es_row k Hk) as Erow. fold c in Erow.
  destruct (Z.eqb_spec (node_of c) wrt) as [Ew|Nw].
  - (* a load row of the kind we differentiate with respect to: its adjoint goes into the column *)
    destruct (Hcols k Hk Ew) as [C0 C1]. fold c in C0, C1.
    assert (Ecol : Z.to_nat (pyidx (Z.of_nat (length deriv)) (p1_of c)) = Z.to_nat (p1_of c)).
    { unfold pyidx. destruct (Z.leb_spec 0 (p1_of c)); [reflexivity|lia]. }
    rewrite Ecol. set (pc := Z.to_nat (p1_of c)).
    assert (Etan : forall col, tangent col k = if Nat.eqb col pc then 1 else 0).
    { intros col. unfold tangent. rewrite Erow. unfold mk_expr. rewrite Ew. unfold wrt.
      assert (G : forall b : bool,
        dsem xv cv (fun k0 => if b && (k0 =? Z.of_nat col)%Z then 1 else 0) (fun k0 => if negb b && (k0 =? Z.of_nat col)%Z then 1 else 0)
          (if ((if b then VARIABLE else CONSTANT) =? INTEGER)%Z then EInt (p1_of c)
           else if ((if b then VARIABLE else CONSTANT) =? VARIABLE)%Z then EX (p1_of c)
           else if ((if b then VARIABLE else CONSTANT) =? CONSTANT)%Z then EC (p1_of c)
           else if is_arity_2 (if b then VARIABLE else CONSTANT)
                then EOp2 (if b then VARIABLE else CONSTANT) (lookup (denote_all (firstn k s)) (EInt 0) (p1_of c))
                                                             (lookup (denote_all (firstn k s)) (EInt 0) (p2_of c))
                else EOp1 (if b then VARIABLE else CONSTANT) (lookup (denote_all (firstn k s)) (EInt 0) (p1_of c)))
        = if Nat.eqb col pc then 1 else 0).
      { intros [|]; vm_compute (VARIABLE =? INTEGER)%Z; vm_compute (VARIABLE =? VARIABLE)%Z;
          vm_compute (CONSTANT =? INTEGER)%Z; vm_compute (CONSTANT =? VARIABLE)%Z; vm_compute (CONSTANT =? CONSTANT)%Z;
          cbn [dsem negb andb];
          destruct (Z.eqb_spec (p1_of c) (Z.of_nat col)), (Nat.eqb_spec col pc); try reflexivity; exfalso; unfold pc in *; lia. }
      exact (G wrt_x). }
    split; [exact Lr|]. split; [cbn [snd]; rewrite updv_length; exact Ld|].
    intros col Hc. cbn [fst snd]. specialize (Hinv col Hc). simpl in Hinv. rewrite Etan in Hinv.
    destruct (Nat.eqb_spec col pc) as [->|Hne].
    + rewrite updv_same by (unfold pc in *; lia). unfold zero; simpl. lra.
    + rewrite updv_other by auto. lra.
  - destruct (is_terminal (node_of c)) eqn:Et.
    + (* another terminal: nothing happens and its tangent is 0 *)
      rewrite rule_effect_terminal by auto. cbn [fold_left].
      assert (Etan : forall col, tangent col k = 0).
      { intros col. unfold tangent. rewrite Erow. unfold mk_expr.
        apply is_terminal_true in Et as [E|[E|E]]; rewrite E in *.
        - reflexivity.
        - vm_compute (VARIABLE =? INTEGER)%Z. vm_compute (VARIABLE =? VARIABLE)%Z. cbn [dsem]. unfold leaf_dx, wrt in *.
          destruct wrt_x; [congruence|reflexivity].
        - vm_compute (CONSTANT =? INTEGER)%Z. vm_compute (CONSTANT =? VARIABLE)%Z. vm_compute (CONSTANT =? CONSTANT)%Z.
          cbn [dsem]. unfold leaf_dc, wrt in *. destruct wrt_x; [reflexivity|congruence]. }
      split; [exact Lr|]. split; [exact Ld|]. intros col Hc. cbn [fst snd].
      specialize (Hinv col Hc). simpl in Hinv. rewrite Etan in Hinv. lra.
    + (* an operator row: its adjoint is distributed over the operand rows *)
      destruct (Hok k Hk Et) as [P1 P2]. fold c in P1, P2.
      set (fe := forward r_alg s xv cv).
      set (ups := rev_rule r_alg (node_of c) (Z.of_nat k) (p1_of c) (p2_of c) (lookup fe (zero r_alg)) (lookup re (zero r_alg))).
      assert (Lfe : length fe = n) by (unfold fe; rewrite forward_is_denotation, map_length; unfold es; apply denote_all_length).
      assert (Fv : forall p, (0 <= p < Z.of_nat n)%Z -> lookup fe (zero r_alg) p = val (Z.to_nat p)).
      { intros p Hp. rewrite lookup_nth by lia. apply fe_nth. lia. }
      assert (E1 : nth (Z.to_nat (p1_of c)) es (EInt 0) = lookup (denote_all (firstn k s)) (EInt 0) (p1_of c))
        by (symmetry; apply es_operand; auto).
      assert (E2 : nth (Z.to_nat (p2_of c)) es (EInt 0) = lookup (denote_all (firstn k s)) (EInt 0) (p2_of c))
        by (symmetry; apply es_operand; auto).
      apply is_terminal_false in Et as (N1 & N2 & N3).
      assert (Emk : nth k es (EInt 0) =
                    if is_arity_2 (node_of c) then EOp2 (node_of c) (nth (Z.to_nat (p1_of c)) es (EInt 0)) (nth (Z.to_nat (p2_of c)) es (EInt 0))
                    else EOp1 (node_of c) (nth (Z.to_nat (p1_of c)) es (EInt 0))).
      { rewrite Erow. unfold mk_expr.
        destruct (Z.eqb_spec (node_of c) INTEGER); [congruence|].
        destruct (Z.eqb_spec (node_of c) VARIABLE); [congruence|].
        destruct (Z.eqb_spec (node_of c) CONSTANT); [congruence|].
        rewrite E1, E2. reflexivity. }
      assert (Hkn : known_node (node_of c) = true).
      { unfold wf in Hwf. apply andb_prop in Hwf as [_ W]. pose proof (wf_from_nth D s 0 k W Hk) as Wc. fold c in Wc.
        unfold wf_cmd in Wc. apply andb_prop in Wc as [Wc _]. exact Wc. }
      pose proof (Hdiff k Hk) as Hdk. rewrite Emk in Hdk.
      assert (Heff : forall col, sum_updates ups (tangent col) = nth k re 0 * tangent col k /\
                                 forall u, In u ups -> (0 <= fst (fst u) < Z.of_nat k)%Z).
      { intros col. unfold tangent at 2. rewrite Emk.
        destruct (is_arity_2 (node_of c)) eqn:A2.
        - destruct Hdk as (Ok2 & _ & _).
          destruct (rule_effect2 (node_of c) (Z.of_nat k) (p1_of c) (p2_of c) (lookup fe (zero r_alg)) (lookup re (zero r_alg)) (tangent col) A2) as [S1 S2].
          + rewrite !Fv by lia. rewrite Nat2Z.id. unfold val. rewrite Emk. reflexivity.
          + rewrite !Fv by lia. exact Ok2.
          + fold ups in S1, S2. split.
            * rewrite S1. rewrite !Fv by lia. rewrite lookup_nth by lia. rewrite Nat2Z.id. cbn [dsem]. unfold tangent, val. ring.
            * intros u Hu. destruct (S2 u Hu) as [->| ->]; lia.
        - destruct Hdk as (Ok1 & _).
          assert (Tf : is_terminal (node_of c) = false).
          { destruct (is_terminal (node_of c)) eqn:E; auto. apply is_terminal_true in E. tauto. }
          destruct (rule_effect1 (node_of c) (Z.of_nat k) (p1_of c) (p2_of c) (lookup fe (zero r_alg)) (lookup re (zero r_alg)) (tangent col) Tf A2 Hkn) as [S1 S2].
          + rewrite !Fv by lia. rewrite Nat2Z.id. unfold val. rewrite Emk. reflexivity.
          + rewrite !Fv by lia. exact Ok1.
          + fold ups in S1, S2. split.
            * rewrite S1. rewrite !Fv by lia. rewrite lookup_nth by lia. rewrite Nat2Z.id. cbn [dsem]. unfold tangent, val. ring.
            * intros u Hu. rewrite (S2 u Hu). lia. }
      destruct (Heff 0%nat) as [_ Htargets].
      split; [|split; [exact Ld|]].
      * cbn [fst]. destruct (apply_updates_spec k (tangent 0) ups re Htargets ltac:(lia)) as (L & _ & _). rewrite L. exact Lr.
      * intros col Hc. cbn [fst snd].
        destruct (apply_updates_spec k (tangent col) ups re Htargets ltac:(lia)) as (_ & Dt & _).
        rewrite Dt. destruct (Heff col) as [Se _]. rewrite Se.
        specialize (Hinv col Hc). simpl in Hinv. lra.
Qed.

Lemma sweep_all : forall k st, (k <= n)%nat -> sinv k st ->
  sinv 0 (fold_left (rev_step r_alg s (forward r_alg s xv cv) wrt) (rev (seq 0 k)) st).
Proof.
  induction k as [|k IH]; intros st Hk Hs; [exact Hs|].
  rewrite seq_S, rev_app_distr. simpl. apply IH; [lia|]. apply sweep_step; [lia|exact Hs].
Qed.

Lemma dot_unit k m (T : nat -> R) len : (m < len)%nat ->
  dot k (updv (repeat 0 len) m 1) T = if Nat.ltb m k then T m else 0.
Proof.
  intros Hm. induction k as [|k IH]; simpl; [reflexivity|]. rewrite IH.
  destruct (Nat.eq_dec m k) as [->|Hne].
  - rewrite updv_same by (rewrite repeat_length; auto).
    destruct (Nat.ltb_spec k k); [lia|]. destruct (Nat.ltb_spec k (S k)); [|lia]. ring.
  - rewrite updv_other by auto.
    assert (E0 : nth k (repeat 0 len) 0 = 0).
    { destruct (Nat.lt_ge_cases k len); [apply nth_repeat|apply nth_overflow; rewrite repeat_length; auto]. }
    rewrite E0. destruct (Nat.ltb_spec m k), (Nat.ltb_spec m (S k)); try lia; ring.
Qed.

(* the row of the derivative matrix computed by the reverse sweep is the tangent of the last row *)
Theorem reverse_is_tangent : forall col, (col < ncols)%nat ->
  nth col (reverse r_alg s (forward r_alg s xv cv) wrt ncols) 0 = tangent col (n - 1).
Proof.
  intros col Hc. unfold reverse. fold n.
  pose proof n_pos as Hn.
  set (st0 := (updv (repeat (zero r_alg) n) (n - 1) (one r_alg), repeat (zero r_alg) ncols)).
  assert (H0 : sinv n st0).
  { unfold sinv, st0. cbn [fst snd]. rewrite updv_length, !repeat_length. split; [auto|]. split; [auto|].
    intros c0 Hc0. change (zero r_alg) with 0. change (one r_alg) with 1.
    rewrite dot_unit by lia. destruct (Nat.ltb_spec (n - 1) n); [|lia].
    rewrite nth_repeat. ring. }
  destruct (sweep_all n st0 (le_n _) H0) as (_ & _ & Hfin). specialize (Hfin col Hc). simpl in Hfin. lra.
Qed.
End Sweep.

(* ---------- extensionality in the environment ---------- *)
Lemma sem_ext xv xv' cv cv' e : (forall k, xv k = xv' k) -> (forall k, cv k = cv' k) ->
  sem r_alg xv cv e = sem r_alg xv' cv' e.
Proof. intros Hx Hc. induction e; cbn [sem]; auto; congruence. Qed.
Lemma dsem_ext xv xv' cv cv' dx dc e : (forall k, xv k = xv' k) -> (forall k, cv k = cv' k) ->
  dsem xv cv dx dc e = dsem xv' cv' dx dc e.
Proof.
  intros Hx Hc. induction e; cbn [dsem]; auto.
  - rewrite IHe, (sem_ext xv xv' cv cv' e Hx Hc). reflexivity.
  - rewrite IHe1, IHe2, (sem_ext xv xv' cv cv' e1 Hx Hc), (sem_ext xv xv' cv cv' e2 Hx Hc). reflexivity.
Qed.
Lemma ok_expr_ext xv xv' cv cv' e : (forall k, xv k = xv' k) -> (forall k, cv k = cv' k) ->
  ok_expr xv cv e -> ok_expr xv' cv' e.
Proof.
  intros Hx Hc. induction e; cbn [ok_expr]; auto.
  - rewrite (sem_ext xv xv' cv cv' e Hx Hc). tauto.
  - rewrite (sem_ext xv xv' cv cv' e1 Hx Hc), (sem_ext xv xv' cv cv' e2 Hx Hc). tauto.
Qed.

Lemma nth_last_expr (l : list expr) : nth (length l - 1) l (EInt 0) = last l (EInt 0).
Proof. apply nth_last. Qed.

(* ================= main theorems ================= *)
Section Main.
Variables (s : stack) (D : Z) (xv cv : Z -> R).
Hypothesis Hwf : wf D s = true.
(* every operator on the evaluation path is differentiable at this point: power bases positive,
   no abs/sqrt/log argument and no divisor at zero (stated for every row: AGraph passes reduced stacks) *)
Hypothesis Hdiff : forall i, (i < length s)%nat -> ok_expr xv cv (nth i (denote_all s) (EInt 0)).

Definition set_at (f : Z -> R) (col : nat) (t : R) : Z -> R := fun k => if (k =? Z.of_nat col)%Z then t else f k.

Theorem x_gradient_is_partial_derivative ncols col : (col < ncols)%nat ->
  (forall i, (i < length s)%nat -> node_of (nth i s dflt_cmd) = VARIABLE -> (0 <= p1_of (nth i s dflt_cmd) < Z.of_nat ncols)%Z) ->
  let '(v, d) := eval_with_derivative r_alg s xv cv true ncols in
  v = root r_alg s xv cv /\
  is_derive (fun t => root r_alg s (set_at xv col t) cv) (xv (Z.of_nat col)) (nth col d 0).
Proof.
  intros Hc Hcols. unfold eval_with_derivative. split; [reflexivity|].
  rewrite (reverse_is_tangent s D xv cv true ncols Hwf Hcols Hdiff col Hc).
  unfold tangent. rewrite <- denote_all_length, nth_last_expr. fold (denote s).
  apply (is_derive_ext (fun t => sem r_alg (set_at xv col t) cv (denote s))); [intros t; symmetry; apply root_is_denotation|].
  assert (E0 : forall k, set_at xv col (xv (Z.of_nat col)) k = xv k).
  { intros k. unfold set_at. destruct (Z.eqb_spec k (Z.of_nat col)); congruence. }
  rewrite (dsem_ext xv (set_at xv col (xv (Z.of_nat col))) cv cv) by (auto; intros; symmetry; apply E0).
  apply (expr_derive (fun t => set_at xv col t) (fun _ => cv) (leaf_dx true col) (leaf_dc true col) (xv (Z.of_nat col))).
  - intros k. unfold set_at, leaf_dx. simpl andb. destruct (Z.eqb_spec k (Z.of_nat col)).
    + apply (is_derive_id (xv (Z.of_nat col))).
    + apply (is_derive_const (V := R_NormedModule) (xv k) _).
  - intros k. unfold leaf_dc. simpl. apply (is_derive_const (V := R_NormedModule) (cv k) _).
  - apply (ok_expr_ext xv _ cv cv); [intros; symmetry; apply E0|auto|].
    unfold denote. rewrite <- nth_last_expr, denote_all_length. apply Hdiff.
    unfold wf in Hwf. destruct s; simpl in *; [discriminate|lia].
Qed.

Theorem c_gradient_is_partial_derivative ncols col : (col < ncols)%nat ->
  (forall i, (i < length s)%nat -> node_of (nth i s dflt_cmd) = CONSTANT -> (0 <= p1_of (nth i s dflt_cmd) < Z.of_nat ncols)%Z) ->
  let '(v, d) := eval_with_derivative r_alg s xv cv false ncols in
  v = root r_alg s xv cv /\
  is_derive (fun t => root r_alg s xv (set_at cv col t)) (cv (Z.of_nat col)) (nth col d 0).
Proof.
  intros Hc Hcols. unfold eval_with_derivative. split; [reflexivity|].
  rewrite (reverse_is_tangent s D xv cv false ncols Hwf Hcols Hdiff col Hc).
  unfold tangent. rewrite <- denote_all_length, nth_last_expr. fold (denote s).
  apply (is_derive_ext (fun t => sem r_alg xv (set_at cv col t) (denote s))); [intros t; symmetry; apply root_is_denotation|].
  assert (E0 : forall k, set_at cv col (cv (Z.of_nat col)) k = cv k).
  { intros k. unfold set_at. destruct (Z.eqb_spec k (Z.of_nat col)); congruence. }
  rewrite (dsem_ext xv xv cv (set_at cv col (cv (Z.of_nat col)))) by (auto; intros; symmetry; apply E0).
  apply (expr_derive (fun _ => xv) (fun t => set_at cv col t) (leaf_dx false col) (leaf_dc false col) (cv (Z.of_nat col))).
  - intros k. unfold leaf_dx. simpl. apply (is_derive_const (V := R_NormedModule) (xv k) _).
  - intros k. unfold set_at, leaf_dc. simpl andb. destruct (Z.eqb_spec k (Z.of_nat col)).
    + apply (is_derive_id (cv (Z.of_nat col))).
    + apply (is_derive_const (V := R_NormedModule) (cv k) _).
  - apply (ok_expr_ext xv xv cv _); [auto|intros; symmetry; apply E0|].
    unfold denote. rewrite <- nth_last_expr, denote_all_length. apply Hdiff.
    unfold wf in Hwf. destruct s; simpl in *; [discriminate|lia].
Qed.
End Main.

(* ---------- inputs or constants the equation does not use get derivative EXACTLY zero (any algebra) ---------- *)
Section Zero.
Context {V : Type} (A : alg V).
Lemma updv_length_g (l : list V) i x : length (updv l i x) = length l.
Proof. revert i; induction l as [|y l IH]; intros [|i]; simpl; auto. Qed.
Lemma updv_other_g (l : list V) i j x d : i <> j -> nth j (updv l i x) d = nth j l d.
Proof. revert i j; induction l as [|y l IH]; intros [|i] [|j] H; simpl; auto; try lia. Qed.

Theorem unused_column_is_exactly_zero (s : stack) (fe : list V) (wrt : Z) (ncols col : nat) :
  (forall i, (i < length s)%nat -> node_of (nth i s dflt_cmd) = wrt ->
             Z.to_nat (pyidx (Z.of_nat ncols) (p1_of (nth i s dflt_cmd))) <> col) ->
  nth col (reverse A s fe wrt ncols) (zero A) = zero A.
Proof.
  intros Hno. unfold reverse.
  set (st0 := (updv (repeat (zero A) (length s)) (length s - 1) (one A), repeat (zero A) ncols)).
  assert (G : forall l st, (forall i, In i l -> (i < length s)%nat) ->
              length (snd st) = ncols -> nth col (snd st) (zero A) = zero A ->
              let st' := fold_left (rev_step A s fe wrt) l st in
              length (snd st') = ncols /\ nth col (snd st') (zero A) = zero A).
  { induction l as [|i l IH]; intros st Hl L Z0; cbn [fold_left]; [cbn zeta; auto|].
    assert (Hi : (i < length s)%nat) by (apply Hl; simpl; auto).
    assert (K : length (snd (rev_step A s fe wrt st i)) = ncols /\ nth col (snd (rev_step A s fe wrt st i)) (zero A) = zero A).
    { destruct st as [re deriv]. unfold rev_step. cbn [snd] in *.
      destruct (Z.eqb_spec (node_of (nth i s (0%Z, 0%Z, 0%Z))) wrt) as [E|E]; cbn [snd]; [|auto].
      rewrite updv_length_g. split; [exact L|]. rewrite updv_other_g; [exact Z0|].
      rewrite L. apply Hno; auto. }
    destruct K as [K1 K2]. apply IH; auto. intros j Hj. apply Hl. simpl; auto. }
  apply (G (rev (seq 0 (length s))) st0).
  - intros i Hi. apply in_rev in Hi. apply in_seq in Hi. lia.
  - unfold st0. simpl. apply repeat_length.
  - unfold st0. simpl. destruct (Nat.lt_ge_cases col ncols); [apply nth_repeat|apply nth_overflow; rewrite repeat_length; auto].
Qed.
End Zero.

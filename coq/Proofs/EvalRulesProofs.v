(* The 'due' test TRANSLATED from the current source (Gen/EvalRules.v) is the one Model/EvalPhase.v uses
   (properties C19 and C17a; re-proved on every run). *)
From Coq Require Import Bool.
From Bingo Require Import Model.EvalPhase Gen.EvalRules.

Lemma due_is_source (G F : Type) (red : bool) (i : indiv G F) : due G F red i = gen_due red (fit_set G F i).
Proof. reflexivity. Qed.

Lemma protocol_is_pinned : gen_protocol_pinned = true.
Proof. reflexivity. Qed.

(* The parallel migration phase (Model/ParMigrate.v): under EVERY interleaving of the ranks no reachable state is stuck, and when
   every rank has finished, each rank holds exactly what the pairing prescribes - which conserves the individuals. *)
From Coq Require Import List Bool Arith Lia Permutation.
From Bingo Require Import Model.Migration Model.ParPartner Model.ParMigrate Proofs.MigrationProofs Proofs.ParPartnerProofs.
Import ListNotations.

Lemma partner_lt order n r p : is_perm order n = true -> partner order r = Some p -> r < n.
Proof.
  intros H E. destruct (is_perm_spec order n H) as (Hl & Hb & _). unfold partner in E.
  destruct (index_of r order) as [i|] eqn:Ei; [|discriminate E]. destruct (index_of_Some r order i Ei) as [Hi Hn].
  apply Hb. rewrite <- Hn. apply nth_In. exact Hi.
Qed.

Section P.
Variables (order : list nat) (n : nat) (dumps : list (island * island)) (pops0 : list island).
Hypothesis perm : is_perm order n = true.
Hypothesis Ldumps : length dumps = n.
Hypothesis Lpops0 : length pops0 = n.
Notation mstep := (mstep order dumps).
Notation mrun := (mrun order dumps).
Notation pc_at s r := (nth r (mpcs s) MDone).
Notation dump_of r := (nth r dumps ([], [])).

Definition mail_spec (pcs : list mpc) (r : nat) : option (nat * island) :=
  match nth r pcs MDone with
  | MStart => None
  | _ => match partner order r with
         | Some (Some q) => match nth q pcs MDone with MDone => None | _ => Some (q, fst (dump_of r)) end
         | _ => None
         end
  end.

Record MInv (s : mstate) : Prop := {
  m_len : length (mpcs s) = n /\ length (mpops s) = n /\ length (mmail s) = n;
  m_sent : forall r q rem, r < n -> pc_at s r = MSent q rem -> partner order r = Some (Some q) /\ rem = snd (dump_of r);
  m_done : forall r q, r < n -> pc_at s r = MDone -> partner order r = Some (Some q) -> pc_at s q <> MStart;
  m_mail : forall r, r < n -> nth r (mmail s) None = mail_spec (mpcs s) r;
  m_pops : forall r, r < n -> nth r (mpops s) [] = match pc_at s r with MDone => final_pop order dumps pops0 r | _ => nth r pops0 [] end
}.

Lemma nth_repeat {A} (x d : A) : forall m k, k < m -> nth k (repeat x m) d = x.
Proof. induction m as [|m IH]; intros [|k] H; cbn; try lia; [reflexivity|apply IH; lia]. Qed.

Lemma minit_inv : MInv (minit pops0).
Proof.
  unfold minit. rewrite Lpops0. constructor; cbn [mpcs mpops mmail].
  - rewrite !repeat_length. auto.
  - intros r q rem Hr E. rewrite nth_repeat in E by exact Hr. discriminate E.
  - intros r q Hr E. rewrite nth_repeat in E by exact Hr. discriminate E.
  - intros r Hr. unfold mail_spec. rewrite !nth_repeat by exact Hr. reflexivity.
  - intros r Hr. rewrite nth_repeat by exact Hr. reflexivity.
Qed.

(* nobody has a rank without partner as its partner, and partners are mutual *)
Lemma partner_sym r q : partner order r = Some (Some q) -> q < n /\ q <> r /\ partner order q = Some (Some r).
Proof. apply (partner_symmetric order n perm). Qed.

Lemma mstep_inv s r s' : MInv s -> mstep s r = Some s' -> MInv s'.
Proof.
  intros [(L1 & L2 & L3) HS HD HM HP] H. unfold ParMigrate.mstep in H.
  destruct (Nat.lt_ge_cases r n) as [Hr|Hr]; [|rewrite nth_overflow in H by lia; discriminate H].
  destruct (pc_at s r) eqn:Epc.
  - (* MStart *)
    destruct (partner order r) as [[q|]|] eqn:Ep; [| |discriminate H].
    + destruct (dump_of r) as [to rem] eqn:Ed. injection H as <-. destruct (partner_sym r q Ep) as (Hq & Nq & Eq).
      assert (Qnd : pc_at s q <> MDone).
      { intros C. apply (HD q r Hq C Eq). exact Epc. }
      constructor; cbn [mpcs mpops mmail].
      * rewrite !upd_length. auto.
      * intros r' q' rem' Hr' E. destruct (Nat.eq_dec r' r) as [->|N].
        -- rewrite nth_upd_same in E by lia. injection E as <- <-. rewrite Ed. auto.
        -- rewrite nth_upd_other in E by congruence. apply (HS r' q' rem' Hr' E).
      * intros r' q' Hr' E Ep'. destruct (Nat.eq_dec r' r) as [->|N]; [rewrite nth_upd_same in E by lia; discriminate E|].
        rewrite nth_upd_other in E by congruence. destruct (Nat.eq_dec q' r) as [->|N'].
        -- rewrite nth_upd_same by lia. discriminate.
        -- rewrite nth_upd_other by congruence. apply (HD r' q' Hr' E Ep').
      * intros r' Hr'. unfold mail_spec. destruct (Nat.eq_dec r' r) as [->|N].
        -- rewrite !nth_upd_same by lia. rewrite Ep. rewrite nth_upd_other by congruence. rewrite Ed. cbn [fst].
           destruct (pc_at s q); try reflexivity. exfalso. apply Qnd. reflexivity.
        -- rewrite !(nth_upd_other _ r r') by congruence. rewrite (HM r' Hr'). unfold mail_spec.
           destruct (pc_at s r') eqn:E'; try reflexivity;
             (destruct (partner order r') as [[q'|]|] eqn:Ep'; try reflexivity;
              destruct (Nat.eq_dec q' r) as [->|N']; [rewrite nth_upd_same by lia; rewrite Epc; reflexivity|rewrite nth_upd_other by congruence; reflexivity]).
      * intros r' Hr'. destruct (Nat.eq_dec r' r) as [->|N].
        -- rewrite nth_upd_same by lia. rewrite (HP r Hr), Epc. reflexivity.
        -- rewrite nth_upd_other by congruence. apply (HP r' Hr').
    + injection H as <-. constructor; cbn [mpcs mpops mmail].
      * rewrite !upd_length. auto.
      * intros r' q' rem' Hr' E. destruct (Nat.eq_dec r' r) as [->|N]; [rewrite nth_upd_same in E by lia; discriminate E|].
        rewrite nth_upd_other in E by congruence. apply (HS r' q' rem' Hr' E).
      * intros r' q' Hr' E Ep'. destruct (Nat.eq_dec q' r) as [->|N'].
        -- destruct (Nat.eq_dec r' r) as [->|N]; [congruence|]. destruct (partner_sym r' r Ep') as (_ & _ & C). congruence.
        -- rewrite nth_upd_other by congruence. destruct (Nat.eq_dec r' r) as [->|N]; [congruence|].
           rewrite nth_upd_other in E by congruence. apply (HD r' q' Hr' E Ep').
      * intros r' Hr'. unfold mail_spec. destruct (Nat.eq_dec r' r) as [->|N].
        -- rewrite nth_upd_same by lia. rewrite Ep. rewrite (HM r Hr). unfold mail_spec. rewrite Epc. reflexivity.
        -- rewrite (nth_upd_other _ r r') by congruence. rewrite (HM r' Hr'). unfold mail_spec.
           destruct (pc_at s r') eqn:E'; try reflexivity;
             (destruct (partner order r') as [[q'|]|] eqn:Ep'; try reflexivity;
              destruct (Nat.eq_dec q' r) as [->|N']; [destruct (partner_sym r' r Ep') as (_ & _ & C); congruence|rewrite nth_upd_other by congruence; reflexivity]).
      * intros r' Hr'. destruct (Nat.eq_dec r' r) as [->|N].
        -- rewrite nth_upd_same by lia. rewrite (HP r Hr), Epc. unfold final_pop. rewrite Ep. reflexivity.
        -- rewrite nth_upd_other by congruence. apply (HP r' Hr').
  - (* MSent q rem *)
    destruct (HS r q rem Hr Epc) as [Ep ->]. destruct (partner_sym r q Ep) as (Hq & Nq & Eq).
    destruct (nth q (mmail s) None) as [[dst payload]|] eqn:Em; [|discriminate H].
    destruct (Nat.eqb_spec dst r) as [->|Nd]; [|discriminate H]. injection H as <-.
    pose proof (HM q Hq) as Mq. rewrite Em in Mq. unfold mail_spec in Mq.
    assert (Qs : pc_at s q <> MStart) by (intros C; rewrite C in Mq; discriminate Mq).
    assert (Pl : payload = fst (dump_of q)).
    { destruct (pc_at s q); [congruence| |]; rewrite Eq, Epc in Mq; congruence. }
    constructor; cbn [mpcs mpops mmail].
    + rewrite !upd_length. auto.
    + intros r' q' rem' Hr' E. destruct (Nat.eq_dec r' r) as [->|N]; [rewrite nth_upd_same in E by lia; discriminate E|].
      rewrite nth_upd_other in E by congruence. apply (HS r' q' rem' Hr' E).
    + intros r' q' Hr' E Ep'. destruct (Nat.eq_dec q' r) as [->|N'].
      * rewrite nth_upd_same by lia. discriminate.
      * rewrite nth_upd_other by congruence. destruct (Nat.eq_dec r' r) as [->|N].
        -- assert (q' = q) by congruence. subst q'. exact Qs.
        -- rewrite nth_upd_other in E by congruence. apply (HD r' q' Hr' E Ep').
    + intros r' Hr'. unfold mail_spec. destruct (Nat.eq_dec r' q) as [->|Nq'].
      * rewrite nth_upd_same by lia. rewrite (nth_upd_other _ r q) by congruence. rewrite Eq. rewrite nth_upd_same by lia.
        destruct (pc_at s q); reflexivity.
      * rewrite (nth_upd_other _ q r') by congruence. rewrite (HM r' Hr'). unfold mail_spec. destruct (Nat.eq_dec r' r) as [->|N].
        -- rewrite nth_upd_same by lia. rewrite Epc, Ep. rewrite (nth_upd_other _ r q) by congruence. reflexivity.
        -- rewrite (nth_upd_other _ r r') by congruence.
           destruct (pc_at s r') eqn:E'; try reflexivity;
             (destruct (partner order r') as [[q'|]|] eqn:Ep'; try reflexivity;
              destruct (Nat.eq_dec q' r) as [->|N']; [destruct (partner_sym r' r Ep') as (_ & _ & C); congruence|rewrite nth_upd_other by congruence; reflexivity]).
    + intros r' Hr'. destruct (Nat.eq_dec r' r) as [->|N].
      * rewrite !nth_upd_same by lia. unfold final_pop. rewrite Ep, Pl. reflexivity.
      * rewrite !(nth_upd_other _ r r') by congruence. apply (HP r' Hr').
  - discriminate H.
Qed.

Lemma mrun_inv sched : forall s, MInv s -> MInv (mrun sched s).
Proof.
  induction sched as [|r q IH]; intros s HI; cbn [ParMigrate.mrun]; [exact HI|].
  destruct (mstep s r) as [s'|] eqn:E; [apply IH; eapply mstep_inv; eassumption|apply IH; exact HI].
Qed.

(* no reachable state is stuck: a rank that waits for its partner's message finds it, or the partner can still move *)
Theorem m_deadlock_free s : MInv s -> mfinal s = true \/ exists r, r < n /\ mstep s r <> None.
Proof.
  intros [(L1 & L2 & L3) HS HD HM HP].
  destruct (mfinal s) eqn:Fn; [left; reflexivity|right]. unfold mfinal in Fn.
  assert (Hex : exists r, r < n /\ pc_at s r <> MDone).
  { rewrite <- L1. clear -Fn. induction (mpcs s) as [|p l IH]; [discriminate Fn|]. cbn [forallb] in Fn. destruct p.
    - exists 0. cbn. split; [lia|discriminate].
    - exists 0. cbn. split; [lia|discriminate].
    - cbn [andb] in Fn. destruct (IH Fn) as (r & Hr & Hp). exists (S r). cbn. split; [lia|exact Hp]. }
  destruct Hex as (r & Hr & Hp). destruct (pc_at s r) eqn:Epc; [| |congruence].
  - exists r. split; [exact Hr|]. unfold ParMigrate.mstep. rewrite Epc. destruct (partner_defined order n perm r Hr) as [p Ep]. rewrite Ep.
    destruct p as [q|]; [destruct (dump_of r); discriminate|discriminate].
  - destruct (HS r q rem Hr Epc) as [Ep _]. destruct (partner_sym r q Ep) as (Hq & Nq & Eq).
    destruct (pc_at s q) eqn:Eq'.
    + exists q. split; [exact Hq|]. unfold ParMigrate.mstep. rewrite Eq', Eq. destruct (dump_of q); discriminate.
    + exists r. split; [exact Hr|]. unfold ParMigrate.mstep. rewrite Epc. rewrite (HM q Hq). unfold mail_spec. rewrite Eq', Eq, Epc.
      rewrite Nat.eqb_refl. discriminate.
    + exists r. split; [exact Hr|]. unfold ParMigrate.mstep. rewrite Epc. rewrite (HM q Hq). unfold mail_spec. rewrite Eq', Eq, Epc.
      rewrite Nat.eqb_refl. discriminate.
Qed.

(* when every rank has finished: every rank holds what the pairing prescribes, and no message is left *)
Theorem m_final_state s : MInv s -> mfinal s = true ->
  (forall r, r < n -> nth r (mpops s) [] = final_pop order dumps pops0 r) /\ (forall r, r < n -> nth r (mmail s) None = None).
Proof.
  intros [(L1 & L2 & L3) HS HD HM HP] Fn. unfold mfinal in Fn. rewrite forallb_forall in Fn.
  assert (Dn : forall r, r < n -> pc_at s r = MDone).
  { intros r Hr. assert (Hl : r < length (mpcs s)) by lia. specialize (Fn (pc_at s r) (nth_In (mpcs s) MDone Hl)). destruct (pc_at s r); try discriminate Fn. reflexivity. }
  split; intros r Hr.
  - rewrite (HP r Hr), (Dn r Hr). reflexivity.
  - rewrite (HM r Hr). unfold mail_spec. rewrite (Dn r Hr). destruct (partner order r) as [[q|]|] eqn:Ep; try reflexivity.
    destruct (partner_sym r q Ep) as (Hq & _). rewrite (Dn q Hq). reflexivity.
Qed.
(* ---------- conservation ---------- *)
Lemma partner_at_even pre a b rest : order = pre ++ a :: b :: rest -> Nat.even (length pre) = true ->
  partner order a = Some (Some b) /\ partner order b = Some (Some a).
Proof.
  intros E Ev. destruct (is_perm_spec order n perm) as (Hl & _ & ND).
  assert (Ha : nth (length pre) order 0 = a) by (rewrite E; apply nth_middle).
  assert (Hb : nth (S (length pre)) order 0 = b).
  { rewrite E. replace (pre ++ a :: b :: rest) with ((pre ++ [a]) ++ b :: rest) by (rewrite <- app_assoc; reflexivity).
    replace (S (length pre)) with (length (pre ++ [a])) by (rewrite app_length; cbn; lia). apply nth_middle. }
  assert (L : S (length pre) < length order) by (rewrite E, app_length; cbn; lia).
  assert (Pa : partner order a = Some (Some b)).
  { unfold partner. rewrite <- Ha at 1. rewrite (index_of_nth order (length pre) ND ltac:(lia)). rewrite Ev.
    destruct (Nat.ltb_spec (S (length pre)) (length order)); [rewrite Hb; reflexivity|lia]. }
  split; [exact Pa|]. apply (partner_symmetric order n perm a b Pa).
Qed.
Lemma partner_last pre c : order = pre ++ [c] -> Nat.even (length pre) = true -> partner order c = Some None.
Proof.
  intros E Ev. destruct (is_perm_spec order n perm) as (Hl & _ & ND).
  assert (Hc : nth (length pre) order 0 = c) by (rewrite E; apply nth_middle).
  assert (L : length order = S (length pre)) by (rewrite E, app_length; cbn; lia).
  unfold partner. rewrite <- Hc at 1. rewrite (index_of_nth order (length pre) ND ltac:(lia)). rewrite Ev.
  destruct (Nat.ltb_spec (S (length pre)) (length order)); [lia|reflexivity].
Qed.

Lemma ids_reset l : map fst (reset_fitness l) = map fst l.
Proof. unfold reset_fitness. rewrite map_map. reflexivity. Qed.

(* what the dump hands out and what it keeps are together the rank's population (dump_fraction_of_population shuffles and splits) *)
Definition dumps_valid : Prop :=
  forall r, r < n -> Permutation (map fst (fst (dump_of r) ++ snd (dump_of r))) (map fst (nth r pops0 [])).

Lemma conserve_suffix : dumps_valid -> forall suf pre, order = pre ++ suf -> Nat.even (length pre) = true ->
  Permutation (map fst (flat_map (final_pop order dumps pops0) suf)) (map fst (flat_map (fun r => nth r pops0 []) suf)).
Proof.
  intros DV. destruct (is_perm_spec order n perm) as (Hl & Hb & ND).
  fix IH 1. intros [|a [|b rest]] pre E Ev.
  - reflexivity.
  - cbn [flat_map]. rewrite !app_nil_r. unfold final_pop. rewrite (partner_last pre a E Ev). reflexivity.
  - destruct (partner_at_even pre a b rest E Ev) as [Pa Pb].
    assert (Ha : a < n) by (apply Hb; rewrite E; apply in_or_app; right; left; reflexivity).
    assert (Hbn : b < n) by (apply Hb; rewrite E; apply in_or_app; right; right; left; reflexivity).
    specialize (IH rest (pre ++ [a; b])). rewrite <- app_assoc in IH. specialize (IH E).
    rewrite app_length in IH. cbn [length] in IH. replace (length pre + 2) with (S (S (length pre))) in IH by lia.
    rewrite Nat.even_succ_succ in IH. specialize (IH Ev).
    cbn [flat_map]. unfold final_pop at 1 2. rewrite Pa, Pb. rewrite !map_app, !ids_reset, !map_app.
    pose proof (DV a Ha) as Va. pose proof (DV b Hbn) as Vb. rewrite map_app in Va, Vb.
    apply (Permutation_count_occ Nat.eq_dec). intros x.
    pose proof (proj1 (Permutation_count_occ Nat.eq_dec _ _) Va x) as Ca. pose proof (proj1 (Permutation_count_occ Nat.eq_dec _ _) Vb x) as Cb.
    pose proof (proj1 (Permutation_count_occ Nat.eq_dec _ _) IH x) as Cr.
    rewrite !count_occ_app in *. unfold island, indv in *. lia.
Qed.

Lemma map_nth_seq {A} (d : A) : forall l, map (fun r => nth r l d) (seq 0 (length l)) = l.
Proof.
  induction l as [|x l IH]; [reflexivity|]. cbn [length seq map nth]. f_equal. rewrite <- seq_shift, map_map. cbn [nth]. exact IH.
Qed.

(* the individuals of the archipelago before and after: the same multiset of identities, for every outcome of the shuffles *)
Theorem m_conserves : dumps_valid ->
  Permutation (ids (map (final_pop order dumps pops0) (seq 0 n))) (ids pops0).
Proof.
  intros DV. unfold ids.
  assert (Ep : concat pops0 = flat_map (fun r => nth r pops0 []) (seq 0 n)).
  { rewrite flat_map_concat_map. rewrite <- Lpops0. rewrite map_nth_seq. reflexivity. }
  rewrite Ep. rewrite <- flat_map_concat_map.
  pose proof (is_perm_seq order n perm) as PS.
  transitivity (map fst (flat_map (final_pop order dumps pops0) order)).
  - apply Permutation_map. apply Permutation_flat_map. symmetry. exact PS.
  - transitivity (map fst (flat_map (fun r => nth r pops0 []) order)).
    + apply (conserve_suffix DV order []); reflexivity.
    + apply Permutation_map. apply Permutation_flat_map. exact PS.
Qed.

(* sizes and flags *)
Lemma final_pop_flags r q : partner order r = Some (Some q) -> Forall (fun p => snd p = false) (final_pop order dumps pops0 r).
Proof.
  intros E. unfold final_pop. rewrite E. unfold reset_fitness. rewrite Forall_forall. intros p Hp. apply in_map_iff in Hp as [x [<- _]]. reflexivity.
Qed.
Lemma final_pop_idle r : partner order r = Some None -> final_pop order dumps pops0 r = nth r pops0 [].
Proof. intros E. unfold final_pop. rewrite E. reflexivity. Qed.
Lemma final_pop_size m : (forall r, r < n -> length (nth r pops0 []) = m) ->
  (forall r, r < n -> length (fst (dump_of r)) = half_round m /\ length (snd (dump_of r)) = m - half_round m) ->
  half_round m <= m -> forall r, r < n -> length (final_pop order dumps pops0 r) = m.
Proof.
  intros Hm Hd Hh r Hr. unfold final_pop. destruct (partner order r) as [[q|]|] eqn:E; try (apply Hm; exact Hr).
  destruct (partner_sym r q E) as (Hq & _). unfold reset_fitness. rewrite map_length, app_length.
  destruct (Hd r Hr) as [_ ->]. destruct (Hd q Hq) as [-> _]. lia.
Qed.
End P.

From Coq Require Import ZArith List Bool Lia Sorted.
From Bingo Require Import Model.Checkpoint.
Import ListNotations.
Local Open Scope Z_scope.

Lemma name_eqb_eq x y : name_eqb x y = true <-> x = y.
Proof.
  destruct x, y; simpl; split; try discriminate; try (intros H; apply Z.eqb_eq in H; congruence);
    intros [= ->]; apply Z.eqb_refl.
Qed.
Lemma set_same f n v : set f n v n = v.
Proof. unfold set. assert (E : name_eqb n n = true) by (apply name_eqb_eq; auto). now rewrite E. Qed.
Lemma set_other f n v m : m <> n -> set f n v m = f m.
Proof.
  intros H. unfold set. destruct (name_eqb m n) eqn:E; auto. apply name_eqb_eq in E. congruence.
Qed.

(* the intermediate states of a list of steps *)
Fixpoint states (ops : list op) (f : fs) : list fs :=
  match ops with [] => [] | o :: r => let f' := apply_op f o in f' :: states r f' end.

Lemma run_ops_app a b f : run_ops (a ++ b) f = run_ops b (run_ops a f).
Proof. unfold run_ops. apply fold_left_app. Qed.
Lemma states_app a b f : states (a ++ b) f = states a f ++ states b (run_ops a f).
Proof. revert f; induction a as [|o a IH]; intros f; simpl; auto. f_equal. apply IH. Qed.
Lemma nth_states ops f k d : (k < length ops)%nat ->
  nth k (states ops f) d = run_ops (firstn (S k) ops) f.
Proof.
  revert f k; induction ops as [|o r IH]; intros f k H; simpl in H; [lia|].
  destruct k; simpl; auto. apply IH. lia.
Qed.
Lemma states_length ops f : length (states ops f) = length ops.
Proof. revert f; induction ops; intros; simpl; auto. Qed.

(* [good prev f]: every remembered checkpoint is complete on disk *)
Definition good (prev : list Z) (f : fs) : Prop := forall a, In a prev -> f (Final a) = Some (Complete a).
Definition has_complete (cands : list Z) (f : fs) : Prop :=
  exists a, In a cands /\ f (Final a) = Some (Complete a).
(* names this call may touch *)
Definition foreign (own : list Z) (m : name) : Prop := forall x, In x own -> m <> Final x /\ m <> Tmp x.

Lemma has_complete_incl l l' f : incl l l' -> has_complete l f -> has_complete l' f.
Proof. intros H (a & Ha & E). exists a. auto. Qed.

Record step_facts (n : nat) (prev : list Z) (a : Z) (f : fs) (ops : list op) (prev' : list Z) : Prop := {
  sf_nonempty : prev' <> [];
  sf_good : good prev' (run_ops ops f);
  sf_nodup : NoDup prev';
  sf_incl : incl prev' (prev ++ [a]);
  sf_newest : In a prev';
  sf_len : (length prev' <= n)%nat;
  sf_foreign : forall m, foreign (prev ++ [a]) m -> Forall (fun g => g m = f m) (states ops f);
  sf_always : prev <> [] -> Forall (has_complete (prev ++ [a])) (states ops f);
  sf_after_rename : Forall (has_complete (prev ++ [a])) (skipn 2 (states ops f));
  sf_removed_own : forall x, In (Remove x) ops -> In x prev /\ ~ In x prev';
  sf_dropped_gone : forall x, In x (prev ++ [a]) -> ~ In x prev' -> run_ops ops f (Final x) = None;
  sf_older_untouched : forall x, ~ In x (prev ++ [a]) -> Forall (fun g => g (Final x) = f (Final x)) (states ops f)
}.

Lemma ckpt_ops_spec n prev a f ops prev' :
  (1 <= n)%nat -> ckpt_ops (Some n) prev a = (ops, prev') ->
  good prev f -> NoDup prev -> ~ In a prev -> (length prev <= n)%nat ->
  step_facts n prev a f ops prev'.
Proof.
  intros Hn E G Hnd Ha Hlen. unfold ckpt_ops in E.
  set (f1 := apply_op f (OpenTmp a)). set (f2 := apply_op f1 (FinishTmp a)). set (f3 := apply_op f2 (Rename a)).
  assert (F3a : f3 (Final a) = Some (Complete a)).
  { unfold f3, apply_op. rewrite set_other by discriminate. rewrite set_same.
    unfold f2, apply_op. now rewrite set_same. }
  assert (F123 : forall x, x <> a -> f1 (Final x) = f (Final x) /\ f2 (Final x) = f (Final x) /\ f3 (Final x) = f (Final x)).
  { intros x Hx. unfold f3, f2, f1, apply_op. rewrite !set_other by (try discriminate; congruence). auto. }
  assert (G3 : good (prev ++ [a]) f3).
  { intros x Hx. apply in_app_or in Hx as [Hx|[<-|[]]]; auto.
    destruct (F123 x) as (_ & _ & ->); auto. intros ->. auto. }
  assert (O3 : forall m, foreign (prev ++ [a]) m -> f1 m = f m /\ f2 m = f m /\ f3 m = f m).
  { intros m Hm. destruct (Hm a ltac:(apply in_or_app; simpl; auto)) as [M1 M2].
    unfold f3, f2, f1, apply_op. rewrite !set_other by auto. auto. }
  assert (HC12 : prev <> [] -> has_complete (prev ++ [a]) f1 /\ has_complete (prev ++ [a]) f2).
  { intros Hne. destruct prev as [|p0 pr]; [congruence|].
    assert (p0 <> a) by (intros ->; apply Ha; simpl; auto).
    destruct (F123 p0 H) as (E1 & E2 & _).
    split; exists p0; (split; [simpl; auto|]); [rewrite E1|rewrite E2]; apply G; simpl; auto. }
  assert (HC3 : has_complete (prev ++ [a]) f3).
  { exists a. split; auto. apply in_or_app; simpl; auto. }
  assert (Nd3 : NoDup (prev ++ [a])).
  { clear -Hnd Ha. induction prev as [|p pr IH]; simpl; [constructor; [simpl; tauto|constructor]|].
    inversion Hnd; subst. constructor.
    - intros Hin. apply in_app_or in Hin as [Hin|[<-|[]]]; [auto|apply Ha; simpl; auto].
    - apply IH; auto. intros Hin. apply Ha. simpl; auto. }
  destruct (Nat.ltb_spec n (length (prev ++ [a]))) as [Hlt|Hge].
  - destruct prev as [|old rest]; [simpl in Hlt; lia|].
    simpl app in E. injection E as <- <-.
    set (f4 := apply_op f3 (Remove old)).
    assert (Hold : old <> a) by (intros ->; apply Ha; simpl; auto).
    simpl app in Nd3. inversion Nd3 as [|? ? Hnin Nd4]; subst.
    assert (R4 : run_ops [OpenTmp a; FinishTmp a; Rename a; Remove old] f = f4) by reflexivity.
    assert (F4 : forall x, x <> old -> f4 (Final x) = f3 (Final x)).
    { intros x Hx. unfold f4, apply_op. rewrite set_other by congruence. auto. }
    constructor.
    + destruct rest; discriminate.
    + rewrite R4. intros x Hx. rewrite F4 by (intros ->; auto). apply G3. simpl. auto.
    + exact Nd4.
    + intros x Hx. simpl. auto.
    + apply in_or_app. simpl. auto.
    + rewrite app_length in *. simpl in *. lia.
    + intros m Hm. destruct (O3 m Hm) as (E1 & E2 & E3). simpl. repeat constructor; auto.
      unfold apply_op. rewrite set_other; auto. fold f1 f2 f3.
      destruct (Hm old ltac:(simpl; auto)); auto.
    + intros Hne. destruct (HC12 Hne) as [C1 C2]. simpl. repeat constructor; auto.
      exists a. split; [simpl; right; apply in_or_app; simpl; auto|]. fold f1 f2 f3 f4. rewrite F4; auto.
    + simpl. repeat constructor; auto.
      exists a. split; [simpl; right; apply in_or_app; simpl; auto|]. fold f1 f2 f3 f4. rewrite F4; auto.
    + intros x Hx. simpl in Hx. destruct Hx as [Hx|[Hx|[Hx|[Hx|[]]]]]; try discriminate.
      injection Hx as <-. split; [simpl; auto|exact Hnin].
    + intros x Hx Hnx. rewrite R4. simpl in Hx. destruct Hx as [<-|Hx]; [|contradiction].
      unfold f4, apply_op. apply set_same.
    + intros x Hx. assert (x <> a) by (intros ->; apply Hx; simpl; right; apply in_or_app; simpl; auto).
      assert (x <> old) by (intros ->; apply Hx; simpl; auto).
      destruct (F123 x H) as (E1 & E2 & E3). simpl. repeat constructor; auto.
      fold f1 f2 f3 f4. rewrite F4; auto.
  - injection E as <- <-.
    assert (R3 : run_ops [OpenTmp a; FinishTmp a; Rename a] f = f3) by reflexivity.
    constructor.
    + destruct prev; discriminate.
    + rewrite R3. exact G3.
    + exact Nd3.
    + apply incl_refl.
    + apply in_or_app. simpl. auto.
    + lia.
    + intros m Hm. destruct (O3 m Hm) as (E1 & E2 & E3). simpl. repeat constructor; auto.
    + intros Hne. destruct (HC12 Hne) as [C1 C2]. simpl. repeat constructor; auto.
    + simpl. repeat constructor; auto.
    + intros x Hx. simpl in Hx. destruct Hx as [Hx|[Hx|[Hx|[]]]]; discriminate.
    + intros x Hx Hnx. contradiction.
    + intros x Hx. assert (x <> a) by (intros ->; apply Hx; apply in_or_app; simpl; auto).
      destruct (F123 x H) as (E1 & E2 & E3). simpl. repeat constructor; auto.
Qed.

(* ---- a whole call ---- *)
Fixpoint call_prev (num : option nat) (prev : list Z) (ages : list Z) : list Z :=
  match ages with [] => prev | a :: r => call_prev num (snd (ckpt_ops num prev a)) r end.

Lemma Forall_impl_in {A} (P Q : A -> Prop) l : (forall x, P x -> Q x) -> Forall P l -> Forall Q l.
Proof. intros H. apply Forall_impl. exact H. Qed.

Lemma skipn_app_le {A} k (l1 l2 : list A) : (k <= length l1)%nat -> skipn k (l1 ++ l2) = skipn k l1 ++ l2.
Proof.
  revert l1; induction k as [|k IH]; intros l1 H; simpl; auto.
  destruct l1; simpl in *; [lia|]. apply IH. lia.
Qed.

Lemma sorted_lt_head a r x : StronglySorted Z.lt (a :: r) -> In x r -> a < x.
Proof. intros H. apply StronglySorted_inv in H as [_ H]. rewrite Forall_forall in H. auto. Qed.

Record call_facts (n : nat) (prev ages : list Z) (f : fs) : Prop := {
  cf_always : prev <> [] -> Forall (has_complete (prev ++ ages)) (states (call_ops (Some n) prev ages) f);
  cf_foreign : forall m, foreign (prev ++ ages) m ->
               Forall (fun g => g m = f m) (states (call_ops (Some n) prev ages) f);
  cf_removed_own : forall x, In (Remove x) (call_ops (Some n) prev ages) -> In x (prev ++ ages);
  cf_final_len : (length (call_prev (Some n) prev ages) <= n)%nat;
  cf_final_kept_or_gone : forall x, In x (prev ++ ages) ->
      In x (call_prev (Some n) prev ages) \/ run_ops (call_ops (Some n) prev ages) f (Final x) = None;
  cf_final_good : good (call_prev (Some n) prev ages) (run_ops (call_ops (Some n) prev ages) f)
}.

Lemma call_spec n : (1 <= n)%nat -> forall ages prev f,
  good prev f -> NoDup prev -> (length prev <= n)%nat ->
  (forall x a, In x prev -> In a ages -> x < a) -> StronglySorted Z.lt ages ->
  call_facts n prev ages f.
Proof.
  intros Hn. induction ages as [|a r IH]; intros prev f G Nd Hl Hlt Hs.
  - constructor; cbn [call_ops call_prev states].
    + intros _. constructor.
    + intros m _. constructor.
    + intros x [].
    + exact Hl.
    + intros x Hx. rewrite app_nil_r in Hx. left. exact Hx.
    + exact G.
  - destruct (ckpt_ops (Some n) prev a) as [ops1 prev1] eqn:Ec.
    assert (Ha : ~ In a prev). { intros Hin. specialize (Hlt a a Hin (or_introl eq_refl)). lia. }
    pose proof (ckpt_ops_spec n prev a f ops1 prev1 Hn Ec G Nd Ha Hl) as S.
    apply StronglySorted_inv in Hs as Hs'. destruct Hs' as [Hsr Hall].
    assert (Hlt1 : forall x a', In x prev1 -> In a' r -> x < a').
    { intros x a' Hx Ha'. apply (sf_incl _ _ _ _ _ _ S) in Hx. apply in_app_or in Hx as [Hx|[<-|[]]].
      - apply Hlt; simpl; auto.
      - eapply sorted_lt_head; eauto. }
    pose proof (IH prev1 (run_ops ops1 f) (sf_good _ _ _ _ _ _ S) (sf_nodup _ _ _ _ _ _ S)
                   (sf_len _ _ _ _ _ _ S) Hlt1 Hsr) as C.
    assert (I1 : incl (prev ++ [a]) (prev ++ a :: r)).
    { intros x Hx. apply in_app_or in Hx as [Hx|[<-|[]]]; apply in_or_app; simpl; auto. }
    assert (I2 : incl (prev1 ++ r) (prev ++ a :: r)).
    { intros x Hx. apply in_app_or in Hx as [Hx|Hx].
      - apply I1. apply (sf_incl _ _ _ _ _ _ S). auto.
      - apply in_or_app. simpl. auto. }
    constructor; cbn [call_ops call_prev]; rewrite Ec; cbn [snd].
    + intros Hne. rewrite states_app. apply Forall_app. split.
      * eapply Forall_impl; [|apply (sf_always _ _ _ _ _ _ S Hne)]. intros g. apply has_complete_incl; auto.
      * eapply Forall_impl; [|apply (cf_always _ _ _ _ C (sf_nonempty _ _ _ _ _ _ S))].
        intros g. apply has_complete_incl; auto.
    + intros m Hm. rewrite states_app. apply Forall_app. split.
      * apply (sf_foreign _ _ _ _ _ _ S). intros x Hx. apply Hm. auto.
      * assert (E1 : run_ops ops1 f m = f m).
        { pose proof (sf_foreign _ _ _ _ _ _ S m ltac:(intros x Hx; apply Hm; auto)) as F.
          destruct ops1 as [|o ops1']; [reflexivity|].
          rewrite Forall_forall in F.
          assert (Hl1 : (length ops1' < length (o :: ops1'))%nat) by (simpl; lia).
          pose proof (nth_states (o :: ops1') f (length ops1') f Hl1) as N.
          rewrite firstn_all2 in N by (simpl; lia). rewrite <- N. apply F. apply nth_In.
          rewrite states_length. simpl. lia. }
        eapply Forall_impl; [|apply (cf_foreign _ _ _ _ C m)].
        -- intros g Hg. rewrite Hg. exact E1.
        -- intros x Hx. apply Hm. auto.
    + intros x Hx. apply in_app_or in Hx as [Hx|Hx].
      * apply (sf_removed_own _ _ _ _ _ _ S) in Hx as [Hx _]. apply in_or_app; auto.
      * apply I2. apply (cf_removed_own _ _ _ _ C). auto.
    + apply (cf_final_len _ _ _ _ C).
    + intros x Hx. rewrite run_ops_app.
      destruct (in_dec Z.eq_dec x (prev1 ++ r)) as [Hin|Hnin].
      * apply (cf_final_kept_or_gone _ _ _ _ C). auto.
      * right.
        assert (Hx1 : In x (prev ++ [a])).
        { apply in_app_or in Hx as [Hx|[<-|Hx]]; [apply in_or_app; auto|apply in_or_app; simpl; auto|].
          exfalso. apply Hnin. apply in_or_app. auto. }
        assert (Hx2 : ~ In x prev1) by (intros Hin; apply Hnin; apply in_or_app; auto).
        pose proof (sf_dropped_gone _ _ _ _ _ _ S x Hx1 Hx2) as Egone.
        (* untouched by the rest of the call: x is not in prev1 ++ r *)
        revert Egone. generalize (run_ops ops1 f). intros f1 Egone.
        clear -Hnin Egone Hn.
        revert prev1 f1 Hnin Egone. induction r as [|a2 r2 IHr]; intros prev1 f1 Hnin Egone; cbn [call_ops].
        { exact Egone. }
        destruct (ckpt_ops (Some n) prev1 a2) as [ops2 prev2] eqn:Ec2. rewrite run_ops_app.
        apply IHr.
        -- intros Hin. apply Hnin. apply in_app_or in Hin as [Hin|Hin].
           ++ unfold ckpt_ops in Ec2.
              destruct (Nat.ltb n (length (prev1 ++ [a2]))).
              ** destruct (prev1 ++ [a2]) as [|o rest] eqn:Ep; injection Ec2 as <- <-.
                 --- destruct Hin.
                 --- assert (In x (prev1 ++ [a2])) by (rewrite Ep; simpl; auto).
                     apply in_app_or in H as [H|[<-|[]]]; apply in_or_app; simpl; auto.
              ** injection Ec2 as <- <-. apply in_app_or in Hin as [H|[<-|[]]]; apply in_or_app; simpl; auto.
           ++ apply in_or_app. simpl. auto.
        -- assert (Hxa : x <> a2) by (intros ->; apply Hnin; apply in_or_app; simpl; auto).
           assert (Hxp : ~ In x prev1) by (intros H; apply Hnin; apply in_or_app; auto).
           unfold ckpt_ops in Ec2.
           assert (T3 : forall g, run_ops [OpenTmp a2; FinishTmp a2; Rename a2] g (Final x) = g (Final x)).
           { intros g. unfold run_ops. simpl. rewrite !set_other by (try discriminate; congruence). auto. }
           destruct (Nat.ltb n (length (prev1 ++ [a2]))).
           ++ destruct (prev1 ++ [a2]) as [|o rest] eqn:Ep; injection Ec2 as <- <-.
              ** rewrite T3. auto.
              ** unfold run_ops. cbn [app fold_left apply_op].
                 destruct (Z.eq_dec x o) as [->|Hxo]; [apply set_same|].
                 rewrite !set_other by (try discriminate; congruence). auto.
           ++ injection Ec2 as <- <-. rewrite T3. auto.
    + rewrite run_ops_app. apply (cf_final_good _ _ _ _ C).
Qed.

(* ---- top level: a call starts with an empty remembered list (reset=True) ---- *)
Lemma first_ckpt n a : (1 <= n)%nat ->
  ckpt_ops (Some n) [] a = ([OpenTmp a; FinishTmp a; Rename a], [a]).
Proof. intros H. unfold ckpt_ops. simpl. destruct (Nat.ltb_spec n 1); [lia|reflexivity]. Qed.

Theorem crash_leaves_complete n a0 r f0 k : (1 <= n)%nat -> StronglySorted Z.lt (a0 :: r) ->
  (3 <= k)%nat -> has_complete (a0 :: r) (crash_state (Some n) (a0 :: r) k f0).
Proof.
  intros Hn Hs Hk. unfold crash_state. cbn [call_ops]. rewrite (first_ckpt n a0 Hn).
  set (w := [OpenTmp a0; FinishTmp a0; Rename a0]).
  set (rest := call_ops (Some n) [a0] r).
  set (f3 := run_ops w f0).
  assert (G3 : good [a0] f3).
  { intros x [<-|[]]. unfold f3, w, run_ops. simpl. rewrite set_other by discriminate. rewrite set_same.
    now rewrite set_same. }
  assert (E : firstn k (w ++ rest) = w ++ firstn (k - 3) rest).
  { rewrite firstn_app. simpl length. replace (firstn k w) with w; [reflexivity|].
    destruct k as [|[|[|k]]]; try (exfalso; lia). simpl. now rewrite firstn_nil. }
  rewrite E, run_ops_app. fold f3.
  apply StronglySorted_inv in Hs as Hs'. destruct Hs' as [Hsr Hall].
  assert (C : call_facts n [a0] r f3).
  { apply call_spec; [exact Hn|exact G3|constructor; [simpl; tauto|constructor]|simpl; lia| |exact Hsr].
    intros x a [<-|[]] Ha. rewrite Forall_forall in Hall. auto. }
  destruct (Nat.eq_dec (k - 3) 0) as [E0|E0].
  - rewrite E0. simpl. exists a0. split; [simpl; auto|]. apply G3. simpl; auto.
  - pose proof (cf_always _ _ _ _ C ltac:(discriminate)) as A. fold rest in A.
    destruct (Nat.le_gt_cases (length rest) (k - 3)) as [Hge|Hlt].
    + rewrite firstn_all2 by auto.
      destruct rest as [|o rest'] eqn:Er.
      * simpl. exists a0. split; [simpl; auto|]. apply G3; simpl; auto.
      * rewrite Forall_forall in A.
        assert (Hl1 : (length rest' < length (o :: rest'))%nat) by (simpl; lia).
        pose proof (nth_states (o :: rest') f3 (length rest') f3 Hl1) as N.
        rewrite firstn_all2 in N by (simpl; lia). rewrite <- N.
        apply (A (nth (length rest') (states (o :: rest') f3) f3)). apply nth_In.
        rewrite states_length. simpl. lia.
    + destruct (k - 3)%nat as [|j] eqn:Ej; [congruence|].
      assert (Hlt' : (j < length rest)%nat) by lia.
      rewrite Forall_forall in A. rewrite <- (nth_states rest f3 j f3 Hlt').
      apply (A (nth j (states rest f3) f3)). apply nth_In. rewrite states_length. auto.
Qed.

Lemma call_spec_nil n ages f : (1 <= n)%nat -> StronglySorted Z.lt ages -> call_facts n [] ages f.
Proof.
  intros. apply call_spec; [assumption|intros x []|constructor|simpl; lia|intros x a []|assumption].
Qed.

Theorem crash_never_touches_foreign_files n ages f0 k m : (1 <= n)%nat -> StronglySorted Z.lt ages ->
  foreign ages m -> crash_state (Some n) ages k f0 m = f0 m.
Proof.
  intros Hn Hs Hm. unfold crash_state.
  assert (C : call_facts n [] ages f0) by (apply call_spec_nil; auto).
  pose proof (cf_foreign _ _ _ _ C m Hm) as F. set (ops := call_ops (Some n) [] ages) in *.
  destruct k as [|j]; [reflexivity|].
  destruct (Nat.le_gt_cases (length ops) j) as [Hge|Hlt].
  - rewrite firstn_all2 by lia. destruct ops as [|o ops'] eqn:Eo; [reflexivity|].
    rewrite Forall_forall in F.
    assert (Hl1 : (length ops' < length (o :: ops'))%nat) by (simpl; lia).
    pose proof (nth_states (o :: ops') f0 (length ops') f0 Hl1) as N.
    rewrite firstn_all2 in N by (simpl; lia). rewrite <- N. apply F. apply nth_In.
    rewrite states_length. simpl. lia.
  - rewrite Forall_forall in F. rewrite <- (nth_states ops f0 j f0 Hlt). apply F. apply nth_In.
    rewrite states_length. auto.
Qed.

Theorem only_own_checkpoints_removed n ages x : (1 <= n)%nat -> StronglySorted Z.lt ages ->
  In (Remove x) (call_ops (Some n) [] ages) -> In x ages.
Proof.
  intros Hn Hs H.
  assert (C : call_facts n [] ages (fun _ => None)) by (apply call_spec_nil; auto).
  apply (cf_removed_own _ _ _ _ C) in H. exact H.
Qed.

Theorem retained_after_call n ages f0 : (1 <= n)%nat -> StronglySorted Z.lt ages ->
  let kept := call_prev (Some n) [] ages in
  let f := run_ops (call_ops (Some n) [] ages) f0 in
  (length kept <= n)%nat /\
  (forall a, In a kept -> f (Final a) = Some (Complete a)) /\
  (forall a, In a ages -> In a kept \/ f (Final a) = None).
Proof.
  intros Hn Hs kept f.
  assert (C : call_facts n [] ages f0) by (apply call_spec_nil; auto).
  split; [apply (cf_final_len _ _ _ _ C)|]. split; [apply (cf_final_good _ _ _ _ C)|].
  intros a Ha. apply (cf_final_kept_or_gone _ _ _ _ C). exact Ha.
Qed.

(* a later call re-writes <base>_<a0>.pkl: the complete file of the earlier call survives the rewrite *)
Theorem rewrite_keeps_old n a0 r f0 k : (1 <= n)%nat -> StronglySorted Z.lt (a0 :: r) ->
  f0 (Final a0) = Some (Complete a0) -> has_complete (a0 :: r) (crash_state (Some n) (a0 :: r) k f0).
Proof.
  intros Hn Hs H0. destruct (Nat.le_gt_cases 3 k) as [Hk|Hk].
  - apply crash_leaves_complete; auto.
  - exists a0. split; [simpl; auto|]. unfold crash_state. cbn [call_ops]. rewrite (first_ckpt n a0 Hn).
    destruct k as [|[|[|k]]]; try lia; unfold run_ops; simpl; rewrite ?set_other by discriminate; auto.
Qed.

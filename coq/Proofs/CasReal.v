(* Property C03: the pointwise reading of the simplifier's identities over the reals.
   Values are [option R] - None stands for "not a finite real number" (division by zero, logarithm of zero, a negative base with
   a non-integer exponent, zero with a negative exponent) - every operation is strict, and [oref new old] says: wherever the old
   value is defined, the new one is defined and equal.  This file proves that this algebra satisfies [cas_laws] with the
   integer-exponent guard (iexp = true); floating-point rounding and overflow are not modelled. *)
From Coq Require Import Reals ZArith List Bool Lia Lra.
From Bingo Require Import Lib.Alg Gen.OpDefs Model.Stack Model.Cas Proofs.CasProofs Proofs.CasPipeline.
Local Open Scope R_scope.

Definition oref (n o : option R) : Prop := forall v, o = Some v -> n = Some v.
Definition l1 (f : R -> R) (a : option R) : option R := match a with Some x => Some (f x) | None => None end.
Definition l2 (f : R -> R -> R) (a b : option R) : option R :=
  match a, b with Some x, Some y => Some (f x y) | _, _ => None end.
(* the integer a real number is, if it is one *)
Definition int_of (y : R) : option Z := let k := (up y - 1)%Z in if Req_EM_T (IZR k) y then Some k else None.
(* integer powers: x^k, undefined for 0 to a negative power *)
Definition dpow (x : R) (k : Z) : option R :=
  if (k <? 0)%Z then (if Req_EM_T x 0 then None else Some (powerRZ x k)) else Some (powerRZ x k).
(* np.power: an integer exponent as above; otherwise defined for positive bases *)
Definition opow (a b : option R) : option R :=
  match a, b with
  | Some x, Some y =>
    match int_of y with
    | Some k => dpow x k
    | None => if Rlt_dec 0 x then Some (Rpower x y) else None
    end
  | _, _ => None
  end.
Definition odiv (a b : option R) : option R :=
  match a, b with Some x, Some y => if Req_EM_T y 0 then None else Some (x / y) | _, _ => None end.
Definition olog (a : option R) : option R :=
  match a with Some x => if Rlt_dec 0 x then Some (ln x) else None | None => None end.
Definition rsign (x : R) : R := if Rlt_dec x 0 then -1 else if Rlt_dec 0 x then 1 else 0.
Definition real_alg : alg (option R) :=
  mkAlg (option R) (fun k => Some (IZR k)) (Some (/ 2)) (l2 Rplus) (l2 Rminus) (l2 Rmult) odiv opow
        (l1 sin) (l1 cos) (l1 sinh) (l1 cosh) (l1 exp) olog (l1 Rabs) (l1 sqrt) (l1 rsign).

(* ---------- integers among the reals ---------- *)
Lemma int_of_IZR k : int_of (IZR k) = Some k.
Proof.
  unfold int_of. assert (E : up (IZR k) = (k + 1)%Z).
  { symmetry. apply tech_up; rewrite plus_IZR; lra. }
  rewrite E. replace (k + 1 - 1)%Z with k by lia. destruct (Req_EM_T (IZR k) (IZR k)) as [_|N]; [reflexivity|contradiction].
Qed.
Lemma opow_IZR x k : opow (Some x) (Some (IZR k)) = dpow x k.
Proof. unfold opow. rewrite int_of_IZR. reflexivity. Qed.

(* ---------- integer powers ---------- *)
Lemma powerRZ_0_pos k : (0 < k)%Z -> powerRZ 0 k = 0.
Proof. destruct k as [|p|p]; intros H; try lia. cbn. apply pow_i. lia. Qed.
Lemma powerRZ_add_gen x m n : x <> 0 \/ (0 <= m /\ 0 <= n)%Z -> powerRZ x (m + n) = powerRZ x m * powerRZ x n.
Proof.
  intros [H|[Hm Hn]]; [apply powerRZ_add; exact H|].
  rewrite <- (Z2Nat.id m Hm), <- (Z2Nat.id n Hn), <- Nat2Z.inj_add, <- !pow_powerRZ. apply pow_add.
Qed.
Lemma powerRZ_neg1 y : powerRZ y (-1) = / y.
Proof. unfold powerRZ. change (Pos.to_nat 1) with 1%nat. rewrite pow_1. reflexivity. Qed.
Lemma powerRZ_mul_gen x m n : x <> 0 \/ (0 <= m /\ 0 <= n)%Z \/ m = 0%Z -> powerRZ x (m * n) = powerRZ (powerRZ x m) n.
Proof.
  intros [H|[[Hm Hn]|H]].
  - (* induction on n in both directions *)
    assert (Hy : powerRZ x m <> 0) by (apply powerRZ_NOR; exact H).
    pattern n. apply Z.peano_ind.
    + rewrite Z.mul_0_r. reflexivity.
    + intros k IH. replace (m * Z.succ k)%Z with (m * k + m)%Z by lia. unfold Z.succ.
      rewrite (powerRZ_add x _ _ H), (powerRZ_add _ k 1 Hy), IH. f_equal. symmetry. apply powerRZ_1.
    + intros k IH. replace (m * Z.pred k)%Z with (m * k + - m)%Z by lia. replace (Z.pred k) with (k + -1)%Z by lia.
      rewrite (powerRZ_add x _ _ H), (powerRZ_add _ k (-1) Hy), IH, powerRZ_neg', powerRZ_neg1. reflexivity.
  - rewrite <- (Z2Nat.id m Hm), <- (Z2Nat.id n Hn), <- Nat2Z.inj_mul, <- !pow_powerRZ. apply pow_mult.
  - subst m. cbn. rewrite powerRZ_R1. reflexivity.
Qed.

(* ---------- the refinement preorder; strict operations are monotone ---------- *)
Lemma oref_refl a : oref a a. Proof. intros v H. exact H. Qed.
Lemma oref_trans a b c : oref a b -> oref b c -> oref a c. Proof. intros H1 H2 v H. apply H1, H2, H. Qed.
Lemma oref_none a : oref a None. Proof. intros v H. discriminate H. Qed.
Lemma oref_some a x : oref a (Some x) -> a = Some x. Proof. intros H. apply H. reflexivity. Qed.
Lemma l1_mono f a a' : oref a' a -> oref (l1 f a') (l1 f a).
Proof. intros H. destruct a as [x|]; [|apply oref_none]. rewrite (oref_some _ _ H). apply oref_refl. Qed.
Lemma l2_mono f a a' b b' : oref a' a -> oref b' b -> oref (l2 f a' b') (l2 f a b).
Proof.
  intros H1 H2. destruct a as [x|]; [|apply oref_none]. destruct b as [y|]; [|apply oref_none].
  rewrite (oref_some _ _ H1), (oref_some _ _ H2). apply oref_refl.
Qed.
Lemma strict2_mono (g : option R -> option R -> option R) : (forall b, g None b = None) -> (forall a, g a None = None) ->
  forall a a' b b', oref a' a -> oref b' b -> oref (g a' b') (g a b).
Proof.
  intros G1 G2 a a' b b' H1 H2. destruct a as [x|]; [|rewrite G1; apply oref_none]. destruct b as [y|]; [|rewrite G2; apply oref_none].
  rewrite (oref_some _ _ H1), (oref_some _ _ H2). apply oref_refl.
Qed.
Lemma opow_mono a a' b b' : oref a' a -> oref b' b -> oref (opow a' b') (opow a b).
Proof. apply strict2_mono; [reflexivity|intros [x|]; reflexivity]. Qed.
Lemma odiv_mono a a' b b' : oref a' a -> oref b' b -> oref (odiv a' b') (odiv a b).
Proof. apply strict2_mono; [reflexivity|intros [x|]; reflexivity]. Qed.
Lemma olog_mono a a' : oref a' a -> oref (olog a') (olog a).
Proof. intros H. destruct a as [x|]; [|apply oref_none]. rewrite (oref_some _ _ H). apply oref_refl. Qed.

Lemma op1_mono_real o a a' : oref a' a -> oref (sem_op1 real_alg o a') (sem_op1 real_alg o a).
Proof.
  intros H. unfold sem_op1. repeat match goal with |- context [if ?c then _ else _] => destruct c end;
    cbn; try (apply l1_mono; exact H); try apply oref_refl.
  - apply olog_mono. apply l1_mono. exact H.
  - apply l1_mono. apply l1_mono. exact H.
Qed.
Lemma op2_mono_real o a a' b b' : oref a' a -> oref b' b -> oref (sem_op2 real_alg o a' b') (sem_op2 real_alg o a b).
Proof.
  intros H1 H2. unfold sem_op2. repeat match goal with |- context [if ?c then _ else _] => destruct c end;
    cbn; try (apply l2_mono; assumption); try apply oref_refl.
  - apply odiv_mono; assumption.
  - apply opow_mono; assumption.
  - apply opow_mono; [apply l1_mono|]; assumption.
Qed.

(* ---------- defined integer powers ---------- *)
Lemma dpow_some x k v : dpow x k = Some v <-> v = powerRZ x k /\ (x <> 0 \/ (0 <= k)%Z).
Proof.
  unfold dpow. destruct (Z.ltb_spec k 0) as [Hk|Hk].
  - destruct (Req_EM_T x 0) as [X|X].
    + split; [discriminate|]. intros [_ [N|N]]; [contradiction|lia].
    + split; [intros H; injection H as <-; split; [reflexivity|left; exact X]|intros [-> _]; reflexivity].
  - split; [intros H; injection H as <-; split; [reflexivity|right; exact Hk]|intros [-> _]; reflexivity].
Qed.
Lemma dpow_nn x k : (0 <= k)%Z -> dpow x k = Some (powerRZ x k).
Proof. intros H. apply dpow_some. split; [reflexivity|right; exact H]. Qed.
Lemma powerRZ_0_nz k : powerRZ 0 k <> 0 -> (k <= 0)%Z.
Proof. intros H. destruct (Z.ltb_spec 0 k) as [P|P]; [|exact P]. exfalso. apply H. apply powerRZ_0_pos. exact P. Qed.

Notation I k := (Some (IZR k)).

(* ---------- the laws ---------- *)
Lemma r_pow_pow b k1 k2 : oref (opow b (l2 Rmult (I k1) (I k2))) (opow (opow b (I k1)) (I k2)).
Proof.
  destruct b as [x|]; [|apply oref_none]. cbn [l2]. rewrite <- mult_IZR, !opow_IZR.
  destruct (dpow x k1) as [y|] eqn:E1; [|apply oref_none]. rewrite opow_IZR. intros v E2.
  apply dpow_some in E1 as [-> C1]. apply dpow_some in E2 as [-> C2]. apply dpow_some.
  destruct (Req_EM_T x 0) as [X|X].
  - subst x. destruct C1 as [C1|C1]; [contradiction|]. destruct (Z.eq_dec k1 0) as [->|N1].
    + split; [symmetry; apply powerRZ_mul_gen; right; right; reflexivity|right; lia].
    + assert (P1 : (0 < k1)%Z) by lia. rewrite (powerRZ_0_pos _ P1) in *. destruct C2 as [C2|C2]; [contradiction|].
      split; [|right; lia]. rewrite (powerRZ_mul_gen 0 k1 k2) by (right; left; lia). rewrite (powerRZ_0_pos _ P1). reflexivity.
  - split; [symmetry; apply powerRZ_mul_gen; left; exact X|left; exact X].
Qed.
Lemma r_pow_mul a b k : oref (l2 Rmult (opow a (I k)) (opow b (I k))) (opow (l2 Rmult a b) (I k)).
Proof.
  destruct a as [x|]; [|apply oref_none]. destruct b as [y|]; [|apply oref_none]. cbn [l2]. rewrite !opow_IZR. intros v E.
  apply dpow_some in E as [-> C].
  assert (Cx : x <> 0 \/ (0 <= k)%Z) by (destruct C as [C|C]; [left; intros ->; apply C; lra|right; exact C]).
  assert (Cy : y <> 0 \/ (0 <= k)%Z) by (destruct C as [C|C]; [left; intros ->; apply C; lra|right; exact C]).
  rewrite (proj2 (dpow_some x k _) (conj eq_refl Cx)), (proj2 (dpow_some y k _) (conj eq_refl Cy)). cbn. rewrite powerRZ_mult. reflexivity.
Qed.
Lemma r_pow_add b k1 k2 : oref (opow b (l2 Rplus (I k1) (I k2))) (l2 Rmult (opow b (I k1)) (opow b (I k2))).
Proof.
  destruct b as [x|]; [|apply oref_none]. cbn [l2]. rewrite <- plus_IZR, !opow_IZR. intros v E.
  destruct (dpow x k1) as [y1|] eqn:E1; [|discriminate E]. destruct (dpow x k2) as [y2|] eqn:E2; [|discriminate E].
  cbn in E. injection E as <-. apply dpow_some in E1 as [-> C1]. apply dpow_some in E2 as [-> C2]. apply dpow_some.
  destruct (Req_EM_T x 0) as [X|X].
  - destruct C1 as [C1|C1]; [contradiction|]. destruct C2 as [C2|C2]; [contradiction|].
    split; [symmetry; apply powerRZ_add_gen; right; split; assumption|right; lia].
  - split; [symmetry; apply powerRZ_add_gen; left; exact X|left; exact X].
Qed.
Lemma r_pow_add_nn b k1 k2 : (0 <= k1)%Z -> (0 <= k2)%Z -> l2 Rmult (opow b (I k1)) (opow b (I k2)) = opow b (I (k1 + k2)).
Proof.
  intros H1 H2. destruct b as [x|]; [|reflexivity]. rewrite !opow_IZR, !dpow_nn by lia. cbn. f_equal. symmetry.
  apply powerRZ_add_gen. right. split; assumption.
Qed.
Lemma r_pow_1_l e : oref (I 1) (opow (I 1) e).
Proof.
  destruct e as [y|]; [|apply oref_none]. unfold opow. destruct (int_of y) as [k|].
  - intros v E. apply dpow_some in E as [-> _]. rewrite powerRZ_R1. reflexivity.
  - destruct (Rlt_dec 0 1) as [_|N]; [|exfalso; apply N; lra]. unfold Rpower. rewrite ln_1, Rmult_0_r, exp_0. apply oref_refl.
Qed.
Lemma r_div a b : odiv a b = l2 Rmult a (opow b (I (-1))).
Proof.
  destruct b as [y|]; [|destruct a; reflexivity]. rewrite opow_IZR. unfold dpow. change (-1 <? 0)%Z with true. cbn iota.
  destruct a as [x|]; cbn [odiv l2]; [|destruct (Req_EM_T y 0); reflexivity].
  destruct (Req_EM_T y 0); [reflexivity|]. rewrite powerRZ_neg1. reflexivity.
Qed.

Theorem real_laws : cas_laws real_alg oref true.
Proof.
  constructor; cbn [a_of_int a_add a_sub a_mul a_div a_pow a_sin a_cos a_sinh a_cosh a_exp a_log a_abs real_alg].
  - exact oref_refl.
  - exact oref_trans.
  - exact op1_mono_real.
  - exact op2_mono_real.
  - intros [x|] [y|]; cbn; try reflexivity. f_equal. ring.
  - intros [x|] [y|] [z|]; cbn; try reflexivity. f_equal. ring.
  - intros [x|]; cbn; [f_equal; ring|reflexivity].
  - intros [x|] [y|]; cbn; try reflexivity. f_equal. ring.
  - intros [x|] [y|] [z|]; cbn; try reflexivity. f_equal. ring.
  - intros [x|]; cbn; [f_equal; ring|reflexivity].
  - intros [x|]; cbn; [|apply oref_none]. intros v E. injection E as <-. f_equal. ring.
  - intros [x|] [y|] [z|]; cbn; try reflexivity. f_equal. ring.
  - intros a b. cbn. rewrite plus_IZR. reflexivity.
  - intros a b. cbn. rewrite mult_IZR. reflexivity.
  - intros [x|] [y|]; cbn; try reflexivity. f_equal. ring.
  - exact r_div.
  - exact r_pow_1_l.
  - intros k Hk. rewrite opow_IZR, dpow_nn by lia. rewrite powerRZ_0_pos by exact Hk. reflexivity.
  - intros [x|]; [|reflexivity]. rewrite opow_IZR, dpow_nn by lia. rewrite powerRZ_1. reflexivity.
  - intros [x|]; [|apply oref_none]. rewrite opow_IZR, dpow_nn by lia. apply oref_refl.
  - intros a k Hk. rewrite opow_IZR, dpow_nn by lia. f_equal.
    rewrite <- (Z2Nat.id k) at 1 by lia. rewrite <- pow_powerRZ, pow_IZR, Z2Nat.id by lia. reflexivity.
  - intros b e1 e2 G. destruct (G eq_refl) as [[k1 ->] [k2 ->]]. apply r_pow_pow.
  - intros a b e G. destruct (G eq_refl) as [k ->]. apply r_pow_mul.
  - intros b e1 e2 G. destruct (G eq_refl) as [[k1 ->] [k2 ->]]. apply r_pow_add.
  - exact r_pow_add_nn.
  - cbn. rewrite sin_0. reflexivity.
  - cbn. rewrite sinh_0. reflexivity.
  - cbn. rewrite cos_0. reflexivity.
  - cbn. rewrite cosh_0. reflexivity.
  - cbn. rewrite exp_0. reflexivity.
  - cbn. rewrite Rabs_R1. destruct (Rlt_dec 0 1) as [_|N]; [rewrite ln_1; reflexivity|exfalso; apply N; lra].
  - intros [x|]; [|reflexivity]. cbn. rewrite (Rabs_pos_eq (exp x)) by (left; apply exp_pos).
    destruct (Rlt_dec 0 (exp x)) as [_|N]; [rewrite ln_exp; reflexivity|exfalso; apply N; apply exp_pos].
Qed.

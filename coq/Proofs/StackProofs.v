From Coq Require Import ZArith List Bool Lia.
From Bingo Require Import Lib.Alg Gen.OpDefs Gen.OpEval Model.Stack.
Import ListNotations.
Local Open Scope Z_scope.

Section P.
Context {V : Type} (A : alg V).

Lemma last_map_helper {T U} (f : T -> U) (l : list T) d : last (map f l) (f d) = f (last l d).
Proof. induction l as [|x l IH]; simpl; auto. destruct l; simpl in *; auto. Qed.

Lemma lookup_map {T U} (f : T -> U) (l : list T) d i : lookup (map f l) (f d) i = f (lookup l d i).
Proof. unfold lookup. rewrite map_length. apply map_nth. Qed.

(* one translated forward rule applied to the values of the operand rows = the meaning of the expression
   that row denotes (17 node types, checked against the hand-written semantics sem_op1/sem_op2) *)
Lemma fwd_rule_is_sem c xv cv (es : list expr) :
  fwd_rule A (node_of c) (p1_of c) (p2_of c) xv cv (lookup (map (sem A xv cv) es) (dv A))
  = sem A xv cv (mk_expr c (lookup es (EInt 0))).
Proof.
  rewrite (fwd_rule_ext A _ _ _ xv cv _ (fun i => sem A xv cv (lookup es (EInt 0) i))).
  2:{ intros i. change (dv A) with (sem A xv cv (EInt 0)). apply lookup_map. }
  unfold mk_expr. remember (node_of c) as n eqn:En. clear En.
  assert (Hcases : In n all_nodes \/ ~ In n all_nodes).
  { destruct (in_dec Z.eq_dec n all_nodes); auto. }
  destruct Hcases as [Hin|Hout].
  - unfold all_nodes in Hin. simpl in Hin.
    repeat (destruct Hin as [<-|Hin]; [reflexivity|]). destruct Hin.
  - assert (Hne : forall K, In K all_nodes -> (n =? K) = false).
    { intros K HK. apply Z.eqb_neq. intros ->. auto. }
    unfold fwd_rule, is_arity_2.
    rewrite !Hne by (unfold all_nodes; simpl; tauto).
    cbn [sem]. unfold sem_op1. rewrite !Hne by (unfold all_nodes; simpl; tauto). reflexivity.
Qed.

(* 1. the forward pass computes, row by row, the value of the expression each row denotes *)
Theorem forward_is_denotation (s : stack) xv cv :
  forward A s xv cv = map (sem A xv cv) (denote_all s).
Proof.
  unfold forward, denote_all.
  assert (G : forall es, fold_left (fun acc c => acc ++ [fwd_rule A (node_of c) (p1_of c) (p2_of c) xv cv (lookup acc (dv A))])
                          s (map (sem A xv cv) es)
              = map (sem A xv cv) (fold_left (fun acc c => acc ++ [mk_expr c (lookup acc (EInt 0))]) s es)).
  { induction s as [|c r IH]; intros es; simpl; auto.
    rewrite fwd_rule_is_sem. rewrite <- IH. f_equal. rewrite map_app. reflexivity. }
  exact (G []).
Qed.

Corollary root_is_denotation (s : stack) xv cv : root A s xv cv = sem A xv cv (denote s).
Proof.
  unfold root, denote. rewrite forward_is_denotation.
  change (dv A) with (sem A xv cv (EInt 0)). apply last_map_helper.
Qed.
End P.

(* Property C12, liveness part: from EVERY reachable state of one non-blocking evolve call some continuation reaches the final
   state (all ranks returned).  Together with deadlock freedom this says the protocol has no trap: no reachable state is stuck,
   and none is doomed to run forever.  (Termination under EVERY fair schedule additionally needs the quantitative premise of the
   property - helpers must not produce age updates faster than rank 0 drains them - and is not proved; see DESIGN.)
   Proof: a lexicographic measure (phase of rank 0, distance of the helpers from the barrier, pending messages, remaining deficit)
   and, in every non-final state satisfying the invariant, one enabled step that decreases it. *)
From Coq Require Import ZArith List Bool Lia Wf_nat.
From Bingo Require Import Model.ParArch Proofs.ParArchProofs.
Import ListNotations.
Local Open Scope Z_scope.

(* ---------- lexicographic order on quadruples of naturals ---------- *)
Definition lt4 (p q : nat * nat * nat * nat) : Prop :=
  let '(a, b, c, d) := p in let '(a', b', c', d') := q in
  (a < a' \/ (a = a' /\ (b < b' \/ (b = b' /\ (c < c' \/ (c = c' /\ d < d'))))))%nat.
Lemma lt4_wf : well_founded lt4.
Proof.
  intros [[[a b] c] d]. revert b c d.
  induction a as [a IHa] using lt_wf_ind. intros b. induction b as [b IHb] using lt_wf_ind. intros c.
  induction c as [c IHc] using lt_wf_ind. intros d. induction d as [d IHd] using lt_wf_ind.
  constructor. intros [[[a' b'] c'] d'] H. cbn in H.
  destruct H as [H|[-> [H|[-> [H|[-> H]]]]]]; [apply IHa|apply IHb|apply IHc|apply IHd]; exact H.
Qed.

Section Live.
Variable n : nat.
Variable sync target : Z.
Hypothesis n_pos : (1 <= n)%nat.
Hypothesis sync_pos : 1 <= sync.
Notation step := (step n sync target).
Notation Inv := (Inv n target).
Let sync_nonneg : 0 <= sync. Proof. lia. Qed.

(* the invariant, extended: rank 0 is about to evolve only while the mean age is below the target *)
Definition Inv2 (s : state) : Prop := Inv s /\ (pc_of s 0 = Evolve -> sum_total (total s) < target * Z.of_nat n).

Lemma helper_step_keeps s r s' : Inv s -> (1 <= r < n)%nat -> step s r = Some s' -> pc_of s' 0 = pc_of s 0 /\ total s' = total s.
Proof.
  intros HI Hr H. pose proof (i_pch _ _ _ HI r Hr) as Ph. destruct (i_len _ _ _ HI) as (L1 & _).
  unfold step in H. fold (pc_of s r) in H. assert (R0 : Nat.eqb r 0 = false) by (apply Nat.eqb_neq; lia).
  assert (K : forall p, pc_of (mkS (upd (pcs s) r p) (age s) (total s) (mbox s) (exitf s) (arrived s)) 0 = pc_of s 0).
  { intros p. unfold pc_of. cbn. apply nth_upd_ne. lia. }
  destruct (pc_of s r) eqn:Ep; try (destruct Ph; fail); try discriminate H.
  - rewrite R0 in H. injection H as <-. split; [unfold pc_of; cbn; apply nth_upd_ne; lia|reflexivity].
  - injection H as <-. split; [unfold pc_of; cbn; apply nth_upd_ne; lia|reflexivity].
  - injection H as <-. unfold set_pc. split; [unfold pc_of; cbn; apply nth_upd_ne; lia|reflexivity].
  - destruct (nth r (exitf s) false); [|discriminate H]. injection H as <-. split; [unfold pc_of; cbn; apply nth_upd_ne; lia|reflexivity].
  - injection H as <-. split; [unfold pc_of; cbn; apply nth_upd_ne; lia|reflexivity].
  - destruct (all_arrived s); [|discriminate H]. rewrite R0 in H. injection H as <-. unfold set_pc.
    split; [unfold pc_of; cbn; apply nth_upd_ne; lia|reflexivity].
Qed.

Lemma step_inv2 s r s' : Inv2 s -> (r < n)%nat -> step s r = Some s' -> Inv2 s'.
Proof.
  intros [HI HE] Hr H. split; [eapply step_inv; eassumption|]. intros E'.
  destruct (Nat.eq_dec r 0) as [->|Nr].
  - (* rank 0 reaches Evolve only from the probe that found the mean below the target *)
    unfold step in H. fold (pc_of s 0) in H. destruct (i_len _ _ _ HI) as (L1 & _).
    assert (U : forall p a t m e ar, pc_of (mkS (upd (pcs s) 0 p) a t m e ar) 0 = p).
    { intros. unfold pc_of. cbn. apply nth_upd_eq. lia. }
    pose proof (i_pc0 _ _ _ HI) as P0. remember (pc_of s 0) as p0 eqn:Ep. destruct p0; try discriminate H; try (destruct P0; fail).
    + cbn [Nat.eqb] in H. injection H as <-. rewrite U in E'. discriminate E'.
    + destruct (mbox s) as [|[src v] m].
      * destruct final.
        -- injection H as <-. unfold set_pc in E'. rewrite U in E'. discriminate E'.
        -- injection H as <-. unfold set_pc in E'. rewrite U in E'. unfold set_pc. cbn [total].
           destruct (below_target n target (total s)) eqn:B; [unfold below_target in B; apply Z.ltb_lt in B; exact B|].
           unfold after_loop in E'. destruct (Nat.ltb 1 n); discriminate E'.
      * injection H as <-. unfold set_pc in E'. rewrite U in E'. discriminate E'.
    + destruct (take_from src (mbox s)) as [[v m']|]; [|discriminate H]. injection H as <-. rewrite U in E'. discriminate E'.
    + injection H as <-. rewrite U in E'. destruct (Nat.ltb (S k) n); discriminate E'.
    + injection H as <-. rewrite U in E'. discriminate E'.
    + destruct (all_arrived s); [|discriminate H]. cbn [Nat.eqb] in H. injection H as <-. rewrite U in E'. discriminate E'.
  - destruct (helper_step_keeps s r s' HI ltac:(lia) H) as [K1 K2]. rewrite K2. apply HE. rewrite <- K1. exact E'.
Qed.

(* ---------- the measure ---------- *)
Definition ph0 (p : pc) : nat :=
  match p with
  | Evolve | Probe false | Recv false _ => n + 10
  | SendExit k => n + 5 - k
  | BarArrive => 4 | BarLeave => 3 | Probe true | Recv true _ => 2 | Done => 1 | _ => 0
  end.
Definition hdist (p : pc) : nat :=
  match p with Evolve => 6 | SendAge => 5 | ProbeExit => 4 | RecvExit => 3 | BarArrive => 2 | BarLeave => 1 | _ => 0 end.
Definition hd (s : state) : nat := list_sum (map hdist (tl (pcs s))).
Definition defic (s : state) : nat := Z.to_nat (target * Z.of_nat n - sum_total (total s)).
Definition flag (p : pc) : nat := match p with Probe _ => 1 | _ => 0 end.
Definition M (s : state) : nat * nat * nat * nat :=
  (ph0 (pc_of s 0), hd s, length (mbox s), 2 * defic s + flag (pc_of s 0))%nat.

Lemma list_sum_upd (l : list pc) r p : (r < length l)%nat ->
  (list_sum (map hdist (upd l r p)) + hdist (nth r l Done) = list_sum (map hdist l) + hdist p)%nat.
Proof.
  revert r. induction l as [|x l IH]; intros [|r] H; cbn [length] in H; try lia; cbn [upd map list_sum fold_right nth].
  - lia.
  - specialize (IH r ltac:(lia)). unfold list_sum in IH. lia.
Qed.
Lemma hd_upd_helper s r p a t m e ar : (1 <= r < length (pcs s))%nat ->
  (hd (mkS (upd (pcs s) r p) a t m e ar) + hdist (pc_of s r) = hd s + hdist p)%nat.
Proof.
  intros Hr. unfold hd, pc_of. cbn [pcs]. destruct (pcs s) as [|x l]; [cbn in Hr; lia|]. destruct r as [|r]; [lia|]. cbn [upd tl nth].
  apply list_sum_upd. cbn in Hr. lia.
Qed.
Lemma hd_upd_0 s p a t m e ar : hd (mkS (upd (pcs s) 0 p) a t m e ar) = hd s.
Proof. unfold hd. cbn [pcs]. destruct (pcs s); reflexivity. Qed.
Lemma pc0_upd s p a t m e ar : (1 <= length (pcs s))%nat -> pc_of (mkS (upd (pcs s) 0 p) a t m e ar) 0 = p.
Proof. intros H. unfold pc_of. cbn. apply nth_upd_eq. lia. Qed.
Lemma pc0_upd_helper s r p a t m e ar : (1 <= r)%nat -> pc_of (mkS (upd (pcs s) r p) a t m e ar) 0 = pc_of s 0.
Proof. intros H. unfold pc_of. cbn. apply nth_upd_ne. lia. Qed.

(* an evolve step of rank 0 raises the reported sum by at least the sync frequency *)
Lemma sum_total_upd0 (t : list (option Z)) v a : (1 <= length t)%nat ->
  (forall w, nth 0 t None = Some w -> w <= a) -> 0 <= a -> a + sync = v -> sum_total t + sync <= sum_total (upd t 0 (Some v)).
Proof.
  intros L H Ha <-. destruct t as [|o t]; [cbn in L; lia|]. unfold sum_total. cbn. destruct o as [w|]; [specialize (H w eq_refl); lia|lia].
Qed.
Lemma take_from_length src : forall m v m', take_from src m = Some (v, m') -> length m = S (length m').
Proof.
  induction m as [|[s0 v0] m IH]; intros v m' H; [discriminate H|]. cbn [take_from] in H. destruct (Nat.eqb s0 src).
  - injection H as <- <-. reflexivity.
  - destruct (take_from src m) as [[v1 m1]|]; [|discriminate H]. injection H as <- <-. cbn. rewrite (IH _ _ eq_refl). reflexivity.
Qed.

(* ---------- in every non-final state some enabled step decreases the measure ---------- *)
Theorem progress s : Inv2 s -> final s = false -> exists r s', (r < n)%nat /\ step s r = Some s' /\ lt4 (M s') (M s).
Proof.
  intros [HI HE] Fn. pose proof HI as [Len P0 Ph Ex Co Ar Af Mb Rc Dn To Go Nn]. destruct Len as (L1 & L2 & L3 & L4 & L5).
  assert (L1' : (1 <= length (pcs s))%nat) by lia.
  remember (pc_of s 0) as p0 eqn:Ep. destruct p0 as [|f|f src|k| | | | | |]; try (destruct P0; fail).
  - (* Evolve *)
    exists 0%nat. eexists. split; [lia|]. split; [unfold step; fold (pc_of s 0); rewrite <- Ep; cbn [Nat.eqb]; reflexivity|].
    unfold M. rewrite pc0_upd by exact L1'. rewrite hd_upd_0. cbn [mbox total]. rewrite <- Ep. cbn [ph0 flag].
    right. split; [reflexivity|]. right. split; [reflexivity|]. right. split; [reflexivity|].
    specialize (HE eq_refl). unfold defic.
    assert (S1 : sum_total (total s) + sync <= sum_total (upd (total s) 0 (Some (nth 0 (age s) 0 + sync)))).
    { apply (sum_total_upd0 _ _ (nth 0 (age s) 0)); [lia| |apply (Nn 0%nat); lia|reflexivity]. intros w Hw. apply (To 0%nat w); [lia|exact Hw]. }
    cbn [total]. lia.
  - (* Probe *)
    exists 0%nat. destruct (mbox s) as [|[src v] m] eqn:Em.
    + destruct f.
      * eexists. split; [lia|]. split; [unfold step; fold (pc_of s 0); rewrite <- Ep, Em; reflexivity|].
        unfold M, set_pc. rewrite pc0_upd by exact L1'. rewrite hd_upd_0. rewrite <- Ep. cbn [ph0]. left. lia.
      * eexists. split; [lia|]. split; [unfold step; fold (pc_of s 0); rewrite <- Ep, Em; reflexivity|].
        unfold M, set_pc. rewrite pc0_upd by exact L1'. rewrite hd_upd_0. rewrite <- Ep. cbn [ph0 mbox total].
        destruct (below_target n target (total s)).
        -- right. split; [reflexivity|]. right. split; [reflexivity|]. right. split; [rewrite Em; reflexivity|]. unfold defic. cbn [total flag]. lia.
        -- left. unfold after_loop. destruct (Nat.ltb 1 n); cbn [ph0]; lia.
    + eexists. split; [lia|]. split; [unfold step; fold (pc_of s 0); rewrite <- Ep, Em; reflexivity|].
      unfold M, set_pc. rewrite pc0_upd by exact L1'. rewrite hd_upd_0. rewrite <- Ep. cbn [mbox total].
      right. split; [destruct f; reflexivity|]. right. split; [reflexivity|]. right. split; [rewrite Em; reflexivity|]. unfold defic. cbn [total flag]. lia.
  - (* Recv *)
    exists 0%nat. destruct (Rc f src eq_refl) as (v & m' & Et). eexists. split; [lia|].
    split; [unfold step; fold (pc_of s 0); rewrite <- Ep, Et; reflexivity|].
    unfold M. rewrite pc0_upd by exact L1'. rewrite hd_upd_0. rewrite <- Ep. cbn [mbox].
    right. split; [destruct f; reflexivity|]. right. split; [reflexivity|]. left. rewrite (take_from_length _ _ _ _ Et). lia.
  - (* SendExit *)
    exists 0%nat. eexists. split; [lia|]. split; [unfold step; fold (pc_of s 0); rewrite <- Ep; reflexivity|].
    unfold M. rewrite pc0_upd by exact L1'. rewrite hd_upd_0. rewrite <- Ep. cbn [ph0]. left. cbn in P0.
    destruct (Nat.ltb_spec (S k) n); cbn [ph0]; lia.
  - (* BarArrive *)
    exists 0%nat. eexists. split; [lia|]. split; [unfold step; fold (pc_of s 0); rewrite <- Ep; reflexivity|].
    unfold M. rewrite pc0_upd by exact L1'. rewrite hd_upd_0. rewrite <- Ep. cbn [ph0]. left. lia.
  - (* BarLeave: rank 0 waits in the barrier *)
    destruct (all_arrived s) eqn:Ea.
    + exists 0%nat. eexists. split; [lia|]. split; [unfold step; fold (pc_of s 0); rewrite <- Ep, Ea; cbn [Nat.eqb]; reflexivity|].
      unfold M. rewrite pc0_upd by exact L1'. rewrite hd_upd_0. rewrite <- Ep. cbn [ph0]. left. lia.
    + (* some helper has not arrived: let it move towards the barrier *)
      assert (Hex : exists r, (r < n)%nat /\ nth r (arrived s) false = false).
      { unfold all_arrived in Ea. rewrite <- L5. clear -Ea. induction (arrived s) as [|b l IH]; [discriminate Ea|]. cbn [forallb] in Ea.
        destruct b; [destruct (IH Ea) as (r & Hr & E); exists (Datatypes.S r); split; [cbn; lia|exact E]|exists 0%nat; split; [cbn; lia|reflexivity]]. }
      destruct Hex as (r & Hr & Har). rewrite Ar in Har by exact Hr.
      assert (R1 : (1 <= r < n)%nat). { destruct r; [unfold pc_of in Ep; unfold pc_of in Har; rewrite <- Ep in Har; discriminate Har|lia]. }
      pose proof (Ph r R1) as Pr. exists r.
      assert (R0 : Nat.eqb r 0 = false) by (apply Nat.eqb_neq; lia).
      assert (Ef : consumed (pc_of s r) = false -> nth r (exitf s) false = true).
      { intros C. rewrite Ex by exact Hr. rewrite C. destruct r; [lia|reflexivity]. }
      remember (pc_of s r) as pr eqn:Epr. destruct pr; try (destruct Pr; fail); try discriminate Har.
      * eexists. split; [exact Hr|]. split; [unfold step; fold (pc_of s r); rewrite <- Epr, R0; reflexivity|].
        unfold M. rewrite pc0_upd_helper by lia. cbn [mbox total]. right. split; [reflexivity|]. left.
        pose proof (hd_upd_helper s r SendAge (upd (age s) r (nth r (age s) 0 + sync)) (total s) (mbox s) (exitf s) (arrived s) ltac:(lia)) as Hh.
        rewrite <- Epr in Hh. cbn [hdist] in Hh. lia.
      * eexists. split; [exact Hr|]. split; [unfold step; fold (pc_of s r); rewrite <- Epr; reflexivity|].
        unfold M. rewrite pc0_upd_helper by lia. right. split; [reflexivity|]. left.
        pose proof (hd_upd_helper s r ProbeExit (age s) (total s) (mbox s ++ [(r, nth r (age s) 0)]) (exitf s) (arrived s) ltac:(lia)) as Hh.
        rewrite <- Epr in Hh. cbn [hdist] in Hh. lia.
      * eexists. split; [exact Hr|]. split; [unfold step; fold (pc_of s r); rewrite <- Epr, (Ef eq_refl); reflexivity|].
        unfold M, set_pc. rewrite pc0_upd_helper by lia. right. split; [reflexivity|]. left.
        pose proof (hd_upd_helper s r RecvExit (age s) (total s) (mbox s) (exitf s) (arrived s) ltac:(lia)) as Hh.
        rewrite <- Epr in Hh. cbn [hdist] in Hh. lia.
      * eexists. split; [exact Hr|]. split; [unfold step; fold (pc_of s r); rewrite <- Epr, (Ef eq_refl); reflexivity|].
        unfold M. rewrite pc0_upd_helper by lia. right. split; [reflexivity|]. left.
        pose proof (hd_upd_helper s r BarArrive (age s) (total s) (mbox s) (upd (exitf s) r false) (arrived s) ltac:(lia)) as Hh.
        rewrite <- Epr in Hh. cbn [hdist] in Hh. lia.
      * eexists. split; [exact Hr|]. split; [unfold step; fold (pc_of s r); rewrite <- Epr; reflexivity|].
        unfold M. rewrite pc0_upd_helper by lia. right. split; [reflexivity|]. left.
        pose proof (hd_upd_helper s r BarLeave (age s) (total s) (mbox s) (exitf s) (upd (arrived s) r true) ltac:(lia)) as Hh.
        rewrite <- Epr in Hh. cbn [hdist] in Hh. lia.
  - (* Done: every rank is in the barrier; some helper has not left it yet *)
    assert (Hin : forall r, (r < n)%nat -> in_barrier (pc_of s r) = true) by (apply Af; reflexivity).
    assert (Ea : all_arrived s = true).
    { unfold all_arrived. apply forallb_forall. intros b Hb. apply In_nth with (d := false) in Hb as (k & Hk & <-). rewrite Ar by lia. apply Hin. lia. }
    assert (Hex : exists r, (r < n)%nat /\ pc_of s r <> Done).
    { unfold final in Fn. rewrite <- L1. unfold pc_of. clear -Fn. induction (pcs s) as [|p l IH]; [discriminate Fn|]. cbn [forallb] in Fn.
      destruct p; try (exists 0%nat; split; [cbn; lia|cbn; discriminate]).
      cbn [andb] in Fn. destruct (IH Fn) as (r & Hr & E). exists (Datatypes.S r). split; [cbn; lia|exact E]. }
    destruct Hex as (r & Hr & Nd). assert (R1 : (1 <= r < n)%nat). { destruct r; [congruence|lia]. }
    pose proof (Ph r R1) as Pr. pose proof (Hin r Hr) as Hb. exists r.
    assert (R0 : Nat.eqb r 0 = false) by (apply Nat.eqb_neq; lia).
    remember (pc_of s r) as pr eqn:Epr. destruct pr; try (destruct Pr; fail); try discriminate Hb; [|congruence].
    eexists. split; [exact Hr|]. split; [unfold step; fold (pc_of s r); rewrite <- Epr, Ea, R0; reflexivity|].
    unfold M, set_pc. rewrite pc0_upd_helper by lia. right. split; [reflexivity|]. left.
    pose proof (hd_upd_helper s r Done (age s) (total s) (mbox s) (exitf s) (arrived s) ltac:(lia)) as Hh.
    rewrite <- Epr in Hh. cbn [hdist] in Hh. lia.
Qed.

Lemma run_inv2 sched : forall s, Inv2 s -> Inv2 (run n sync target sched s).
Proof.
  induction sched as [|r q IH]; intros s HI; cbn [run]; [exact HI|]. destruct (step s r) as [s'|] eqn:E; [|apply IH; exact HI].
  apply IH. destruct (Nat.lt_ge_cases r n) as [Hr|Hr]; [eapply step_inv2; eassumption|].
  (* a rank outside the communicator has no program counter: it is Done *)
  exfalso. destruct HI as [HI _]. destruct (i_len _ _ _ HI) as (L1 & _). unfold step in E. rewrite (nth_overflow (pcs s) Done) in E by lia. discriminate E.
Qed.
Lemma run_app a : forall b s, run n sync target (a ++ b) s = run n sync target b (run n sync target a s).
Proof. induction a as [|r a IH]; intros b s; [reflexivity|]. cbn [app run]. destruct (step s r); apply IH. Qed.

Theorem can_always_finish s : Inv2 s -> exists sched, final (run n sync target sched s) = true.
Proof.
  remember (M s) as m eqn:Em. revert s Em. induction m as [m IH] using (well_founded_induction lt4_wf). intros s -> HI.
  destruct (final s) eqn:Fn; [exists []; exact Fn|].
  destruct (progress s HI Fn) as (r & s' & Hr & Hs & Hlt).
  destruct (IH (M s') Hlt s' eq_refl (step_inv2 s r s' HI Hr Hs)) as (q & Hq).
  exists (r :: q). cbn [run]. rewrite Hs. exact Hq.
Qed.

Lemma sum_total_none k : sum_total (repeat None k) = 0.
Proof. induction k as [|k IH]; [reflexivity|]. unfold sum_total in *. cbn. exact IH. Qed.
Theorem init_inv2 ages arch_age : length ages = n -> (forall k, (k < n)%nat -> 0 <= nth k ages 0) ->
  (target <= arch_age -> target * Z.of_nat n <= sum_list ages) -> 0 <= arch_age -> Inv2 (init n target ages arch_age).
Proof.
  intros L N G A0. split; [eapply init_inv; eauto|]. unfold init, pc_of. cbn [pcs total nth]. rewrite sum_total_none.
  destruct (Z.ltb_spec arch_age target) as [Hlt|Hge]; [intros _; nia|]. unfold after_loop. destruct (Nat.ltb 1 n); discriminate.
Qed.

(* from every state an evolve call can reach, the call can still complete on every rank *)
Theorem reachable_can_finish ages arch_age sched : length ages = n -> (forall k, (k < n)%nat -> 0 <= nth k ages 0) ->
  (target <= arch_age -> target * Z.of_nat n <= sum_list ages) -> 0 <= arch_age ->
  exists more, final (run n sync target (sched ++ more) (init n target ages arch_age)) = true.
Proof.
  intros L N G A0. destruct (can_always_finish _ (run_inv2 sched _ (init_inv2 ages arch_age L N G A0))) as (more & Hm).
  exists more. rewrite run_app. exact Hm.
Qed.
End Live.

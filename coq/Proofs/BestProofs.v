From Coq Require Import ZArith List Bool Arith Lia.
From Bingo Require Import Model.Best.
Import ListNotations.

Definition not_better (fs : list key) (fr : key) : Prop :=
  forall j, (j < length fs)%nat -> klt (nthk fs j) fr = false.

(* invariant of the scan over a suffix: [best] indexes into the full list *)
Lemma scan_go_spec all : forall fs pre i best,
  all = pre ++ fs -> i = length pre ->
  (best < length all)%nat ->
  (* everything seen so far is not strictly better than the incumbent, and the incumbent
     is NaN only if everything seen so far is NaN *)
  (forall j, (j < i)%nat -> klt (nthk all j) (nthk all best) = false) ->
  (nthk all best = None -> forall j, (j < i)%nat -> nthk all j = None) ->
  (i = 0%nat -> best = 0%nat) ->
  let r := scan_go fs i best (nthk all best) in
  (r < length all)%nat /\
  (forall j, (j < length all)%nat -> klt (nthk all j) (nthk all r) = false) /\
  (nthk all r = None -> forall j, (j < length all)%nat -> nthk all j = None).
Proof.
  induction fs as [|f fs IH]; intros pre i best Hall Hi Hb Hnb Hnan H0; cbn [scan_go].
  - assert (E : length pre = length all) by (rewrite Hall, app_nil_r; auto). subst i.
    rewrite E in *. repeat split; auto.
  - assert (Hf : nthk all i = f).
    { unfold nthk. rewrite Hall. rewrite app_nth2 by lia. rewrite Hi, Nat.sub_diag. reflexivity. }
    assert (Hil : (i < length all)%nat).
    { rewrite Hall, app_length. simpl. lia. }
    assert (Hall' : all = (pre ++ [f]) ++ fs) by (rewrite <- app_assoc; exact Hall).
    assert (Hi' : S i = length (pre ++ [f])) by (rewrite app_length; simpl; lia).
    destruct (klt f (nthk all best) || kisnan (nthk all best)) eqn:E.
    + rewrite <- Hf. apply (IH (pre ++ [f])); auto.
      * intros j Hj. assert (j < i \/ j = i)%nat as [Hlt| ->] by lia.
        -- rewrite Hf. specialize (Hnb j Hlt). apply orb_prop in E as [E|E].
           ++ destruct (nthk all j) as [a|], f as [b|], (nthk all best) as [c|]; simpl in *; try congruence.
              apply Z.ltb_lt in E. apply Z.ltb_ge in Hnb. apply Z.ltb_ge. lia.
           ++ destruct (nthk all best); simpl in E; [discriminate|].
              rewrite (Hnan eq_refl j Hlt). destruct f; reflexivity.
        -- destruct (nthk all i) as [a|]; simpl; auto. apply Z.ltb_irrefl.
      * intros Hn j Hj. assert (j < i \/ j = i)%nat as [Hlt| ->] by lia; auto.
        rewrite Hf in Hn. subst f. apply orb_prop in E as [E|E].
        -- rewrite Hn in E. simpl in E. discriminate.
        -- destruct (nthk all best) eqn:Eb; simpl in E; [discriminate|]. apply Hnan; auto.
      * intros; lia.
    + apply orb_false_elim in E as [E1 E2].
      apply (IH (pre ++ [f])); auto.
      * intros j Hj. assert (j < i \/ j = i)%nat as [Hlt| ->] by lia; auto. now rewrite Hf.
      * intros Hn. rewrite Hn in E2. discriminate.
      * intros; lia.
Qed.

Definition minimal_at (fs : list key) (r : nat) : Prop :=
  (r < length fs)%nat /\
  (forall j, (j < length fs)%nat -> klt (nthk fs j) (nthk fs r) = false) /\
  (nthk fs r = None -> forall j, (j < length fs)%nat -> nthk fs j = None).

Lemma scan_best_minimal fs r : scan_best fs = Some r -> minimal_at fs r.
Proof.
  destruct fs as [|f0 fs]; [discriminate|]. cbn [scan_best]. intros [= <-].
  change f0 with (nthk (f0 :: fs) 0).
  apply (scan_go_spec (f0 :: fs) (f0 :: fs) [] 0 0); simpl; auto; try lia.
Qed.

Lemma scan_best_some fs : fs <> [] -> exists r, scan_best fs = Some r.
Proof. destruct fs; [congruence|]. intros _. eexists; reflexivity. Qed.

(* ---- Python min: same, but only when the incumbent is never NaN ---- *)
Lemma pymin_go_spec all : forall fs pre i best,
  all = pre ++ fs -> i = length pre ->
  (best < length all)%nat ->
  (forall j, (j < length all)%nat -> nthk all j <> None) ->
  (forall j, (j < i)%nat -> klt (nthk all j) (nthk all best) = false) ->
  let r := pymin_go fs i best (nthk all best) in
  (r < length all)%nat /\
  (forall j, (j < length all)%nat -> klt (nthk all j) (nthk all r) = false).
Proof.
  induction fs as [|f fs IH]; intros pre i best Hall Hi Hb Hnn Hnb; cbn [pymin_go].
  - assert (E : length pre = length all) by (rewrite Hall, app_nil_r; auto). subst i.
    rewrite E in *. auto.
  - assert (Hf : nthk all i = f).
    { unfold nthk. rewrite Hall. rewrite app_nth2 by lia. rewrite Hi, Nat.sub_diag. reflexivity. }
    assert (Hil : (i < length all)%nat) by (rewrite Hall, app_length; simpl; lia).
    assert (Hall' : all = (pre ++ [f]) ++ fs) by (rewrite <- app_assoc; exact Hall).
    assert (Hi' : S i = length (pre ++ [f])) by (rewrite app_length; simpl; lia).
    destruct (klt f (nthk all best)) eqn:E.
    + rewrite <- Hf. apply (IH (pre ++ [f])); auto.
      intros j Hj. assert (j < i \/ j = i)%nat as [Hlt| ->] by lia.
      * rewrite Hf. specialize (Hnb j Hlt).
        destruct (nthk all j) as [a|], f as [b|], (nthk all best) as [c|]; simpl in *; try congruence.
        apply Z.ltb_lt in E. apply Z.ltb_ge in Hnb. apply Z.ltb_ge. lia.
      * destruct (nthk all i) as [a|]; simpl; auto. apply Z.ltb_irrefl.
    + apply (IH (pre ++ [f])); auto.
      intros j Hj. assert (j < i \/ j = i)%nat as [Hlt| ->] by lia; auto. now rewrite Hf.
Qed.

Lemma pymin_minimal fs r : (forall j, (j < length fs)%nat -> nthk fs j <> None) ->
  pymin fs = Some r ->
  (r < length fs)%nat /\ (forall j, (j < length fs)%nat -> klt (nthk fs j) (nthk fs r) = false).
Proof.
  destruct fs as [|f0 fs]; [discriminate|]. cbn [pymin]. intros Hnn [= <-].
  change f0 with (nthk (f0 :: fs) 0).
  apply (pymin_go_spec (f0 :: fs) fs [f0] 1 0); simpl; auto; try lia.
  intros j Hj. assert (j = 0%nat) by lia. subst. unfold nthk; simpl.
  destruct f0; simpl; auto. apply Z.ltb_irrefl.
Qed.

(* ---- archipelago ---- *)
Lemma island_bests_spec isls bs : island_bests isls = Some bs ->
  length bs = length isls /\
  forall k, (k < length isls)%nat ->
    let p := nth k isls [] in let b := fst (nth k bs (0%nat, None)) in
    minimal_at p b /\ snd (nth k bs (0%nat, None)) = nthk p b.
Proof.
  revert bs; induction isls as [|p isls IH]; intros bs; simpl.
  - intros [= <-]. split; auto. intros; lia.
  - destruct (scan_best p) as [b|] eqn:Eb; [|discriminate].
    destruct (island_bests isls) as [l|]; [|discriminate]. intros [= <-].
    destruct (IH l eq_refl) as [Hl Hk]. split; [simpl; lia|].
    intros [|k] Hlt; simpl.
    + split; auto. apply scan_best_minimal; auto.
    + apply Hk. lia.
Qed.

Definition all_members_not_better (isls : list (list key)) (f : key) : Prop :=
  forall k j, (k < length isls)%nat -> (j < length (nth k isls []))%nat ->
    klt (nthk (nth k isls []) j) f = false.

Lemma klt_trans_false a b c : klt a b = false -> klt b c = false -> b <> None -> klt a c = false.
Proof.
  destruct a as [a|], b as [b|], c as [c|]; simpl; try congruence.
  intros H1 H2 _. apply Z.ltb_ge in H1, H2. apply Z.ltb_ge. lia.
Qed.

Lemma arch_best_minimal isls k b : arch_best isls = Some (k, b) ->
  (k < length isls)%nat /\ (b < length (nth k isls []))%nat /\
  let f := nthk (nth k isls []) b in
  all_members_not_better isls f /\
  (f = None -> forall k' j, (k' < length isls)%nat -> (j < length (nth k' isls []))%nat ->
               nthk (nth k' isls []) j = None).
Proof.
  unfold arch_best. destruct (island_bests isls) as [bs|] eqn:Eb; [|discriminate].
  destruct (scan_best (map snd bs)) as [k0|] eqn:Es; [|discriminate]. intros [= <- <-].
  destruct (island_bests_spec isls bs Eb) as [Hl Hk].
  destruct (scan_best_minimal _ _ Es) as (Hr & Hmin & Hnan).
  rewrite map_length in *. rewrite Hl in *.
  destruct (Hk k0 Hr) as [(Hb & Hbmin & Hbnan) Hsnd]. cbn zeta in *.
  assert (Hfk : forall k', (k' < length isls)%nat ->
            nthk (map snd bs) k' = nthk (nth k' isls []) (fst (nth k' bs (0%nat, None)))).
  { intros k' Hk'. unfold nthk at 1. change None with (snd (0%nat, @None Z)).
    rewrite map_nth. apply Hk; auto. }
  split; auto. split; auto. split.
  - intros k' j Hk' Hj. destruct (Hk k' Hk') as [(Hb' & Hbmin' & Hbnan') _].
    specialize (Hmin k' Hk'). rewrite Hfk in Hmin by auto. rewrite (Hfk k0 Hr) in Hmin.
    specialize (Hbmin' j Hj).
    destruct (nthk (nth k' isls []) (fst (nth k' bs (0%nat, None)))) eqn:Ek'.
    + eapply klt_trans_false; eauto. congruence.
    + rewrite (Hbnan' eq_refl j Hj). reflexivity.
  - intros Hn k' j Hk' Hj. rewrite <- (Hfk k0 Hr) in Hn.
    specialize (Hnan Hn k' Hk'). rewrite Hfk in Hnan by auto.
    destruct (Hk k' Hk') as [(_ & _ & Hbnan') _]. auto.
Qed.

(* ---- predictor island ---- *)
Lemma pred_best_true_fitness G (full : G -> key) pop p :
  pred_best G full pop = Some p ->
  pfit G p = full (genome G p) /\
  exists b q, nth_error pop b = Some q /\ genome G q = genome G p /\ minimal_at (map (pfit G) pop) b.
Proof.
  unfold pred_best. destruct (scan_best (map (pfit G) pop)) as [b|] eqn:Es; [|discriminate].
  destruct (nth_error pop b) as [q|] eqn:En; [|discriminate]. intros [= <-]. simpl.
  split; auto. exists b, q. repeat split; auto; apply scan_best_minimal; auto.
Qed.

Lemma potential_members_true_fitness G (full : G -> key) hall :
  Forall (fun p => pfit G p = full (genome G p)) (potential_members G full hall) /\
  map (genome G) (potential_members G full hall) = map (genome G) hall.
Proof.
  unfold potential_members. split.
  - rewrite Forall_forall. intros p Hp. apply in_map_iff in Hp as [q [<- _]]. reflexivity.
  - rewrite map_map. reflexivity.
Qed.

(* Proofs for Model/Parse.v (property C16), character level: the tokenizer maps the printed string to the printed tokens. *)
From Coq Require Import ZArith List Bool Lia ZifyBool.
From Bingo Require Import Gen.OpDefs Gen.Strings Model.Stack Model.Parse Model.ParseTree.
Import ListNotations.
Local Open Scope Z_scope.

Definition hd0 (s : str) : Z := hd 0 s.
Definition last0 (s : str) : Z := last s 0.
Lemma hd0_app u v : u <> [] -> hd0 (u ++ v) = hd0 u.
Proof. destruct u; [congruence|reflexivity]. Qed.
Lemma last_app_ne {A} (u v : list A) d : v <> [] -> last (u ++ v) d = last v d.
Proof.
  intros H. induction u as [|x u IH]; [reflexivity|]. cbn [app]. destruct (u ++ v) eqn:E.
  - destruct u; [cbn in E; congruence|discriminate E].
  - cbn [last]. exact IH.
Qed.
Lemma last0_app u v : v <> [] -> last0 (u ++ v) = last0 v.
Proof. intros H. unfold last0. apply last_app_ne; exact H. Qed.

(* ---------- adjacent pairs ---------- *)
Section Adj.
Variable P : Z -> Z -> bool.
Fixpoint adj_ok (s : str) : bool :=
  match s with x :: r => (match r with y :: _ => P x y | [] => true end) && adj_ok r | [] => true end.
Lemma adj_ok_app u v : u <> [] -> v <> [] -> adj_ok (u ++ v) = adj_ok u && P (last0 u) (hd0 v) && adj_ok v.
Proof.
  intros Hu Hv. induction u as [|x u IH]; [congruence|]. destruct u as [|y u].
  - cbn [app adj_ok last0 last]. destruct v as [|z v]; [congruence|]. cbn [hd0 hd]. unfold last0; cbn. reflexivity.
  - specialize (IH ltac:(discriminate)). cbn [app] in *. cbn [adj_ok] in *. rewrite IH.
    unfold last0. cbn [last]. destruct (P x y); reflexivity.
Qed.
Fixpoint adj_chain (l : list str) : bool :=
  match l with
  | u :: r => adj_ok u && (match r with v :: _ => P (last0 u) (hd0 v) | [] => true end) && adj_chain r
  | [] => true
  end.
Lemma adj_concat l : Forall (fun u => u <> []) l -> adj_ok (concat l) = adj_chain l.
Proof.
  induction l as [|u l IH]; intros F; [reflexivity|]. inversion F as [|? ? Hu F']; subst. specialize (IH F').
  cbn [concat adj_chain]. destruct l as [|v l].
  - cbn [concat]. rewrite app_nil_r, !andb_true_r. reflexivity.
  - inversion F' as [|? ? Hv F'']; subst.
    assert (NE : concat (v :: l) <> []) by (cbn [concat]; destruct v; [congruence|discriminate]).
    rewrite adj_ok_app by assumption. rewrite IH. cbn [concat]. rewrite (hd0_app v (concat l) Hv). reflexivity.
Qed.
End Adj.

(* ---------- str.replace of a two-character pattern ---------- *)
Definition no_pair (a b : Z) : str -> bool := adj_ok (fun x y => negb ((x =? a) && (y =? b))).
Lemma replace2_id a b rep s : no_pair a b s = true -> replace2 a b rep s = s.
Proof.
  unfold no_pair. induction s as [|x r IH]; intros H; [reflexivity|]. cbn [adj_ok] in H. apply andb_prop in H as [H1 H2].
  cbn [replace2]. destruct r as [|y r']; [reflexivity|]. apply negb_true_iff in H1. rewrite H1. rewrite (IH H2). reflexivity.
Qed.
Lemma replace2_app a b rep : forall u v, (u = [] \/ last0 u <> a) -> replace2 a b rep (u ++ v) = replace2 a b rep u ++ replace2 a b rep v.
Proof.
  intros u. induction u as [u IH] using (well_founded_induction (Wf_nat.well_founded_ltof _ (@length Z))); intros v L.
  destruct u as [|x u']; [reflexivity|]. destruct L as [L|L]; [discriminate L|]. destruct u' as [|y u''].
  - unfold last0 in L; cbn in L. cbn [app replace2]. destruct v as [|z v']; [reflexivity|].
    destruct (Z.eqb_spec x a); [congruence|]. reflexivity.
  - cbn [app replace2]. destruct ((x =? a) && (y =? b)) eqn:E.
    + rewrite <- app_assoc. f_equal. apply IH; [unfold Wf_nat.ltof; cbn; lia|].
      destruct u'' as [|z u3]; [left; reflexivity|right]. unfold last0 in *. cbn [last] in L. exact L.
    + cbn [app]. f_equal. apply (IH (y :: u'')); [unfold Wf_nat.ltof; cbn; lia|]. right. unfold last0 in *. cbn [last] in L. exact L.
Qed.

Lemma adj_ok_weaken (P Q : Z -> Z -> bool) s : (forall x y, P x y = true -> Q x y = true) -> adj_ok P s = true -> adj_ok Q s = true.
Proof.
  intros W. induction s as [|x r IH]; intros H; [reflexivity|]. cbn [adj_ok] in *. apply andb_prop in H as [H1 H2].
  rewrite (IH H2), andb_true_r. destruct r; [reflexivity|]. apply W; exact H1.
Qed.
Lemma adj_ok_mid (P : Z -> Z -> bool) pre c d post : adj_ok P (pre ++ c :: d :: post) = true -> P c d = true.
Proof.
  induction pre as [|x pre IH]; intros H; cbn [app adj_ok] in H.
  - apply andb_prop in H as [H _]. exact H.
  - apply andb_prop in H as [_ H]. exact (IH H).
Qed.

(* ---------- the bad-substring test ---------- *)
Lemma contains_pair_false p0 p1 rest s : no_pair p0 p1 s = true -> contains (p0 :: p1 :: rest) s = false.
Proof.
  unfold no_pair. induction s as [|x r IH]; intros H; [reflexivity|]. cbn [adj_ok] in H. apply andb_prop in H as [H1 H2].
  cbn [contains]. rewrite (IH H2), orb_false_r. cbn [starts_with]. destruct r as [|y r'].
  - destruct (p0 =? x); reflexivity.
  - apply negb_true_iff in H1. rewrite (Z.eqb_sym p0 x), (Z.eqb_sym p1 y).
    destruct (x =? p0); [|reflexivity]. cbn [andb] in *. rewrite H1. reflexivity.
Qed.
Lemma contains_char_false c s : forallb (fun x => negb (x =? c)) s = true -> contains [c] s = false.
Proof.
  induction s as [|x r IH]; intros H; [reflexivity|]. cbn [forallb] in H. apply andb_prop in H as [H1 H2].
  cbn [contains starts_with]. rewrite (IH H2), orb_false_r. apply negb_true_iff in H1. rewrite Z.eqb_sym, H1. reflexivity.
Qed.

(* ---------- negative_pattern.sub is the identity when every '-' is followed by white space or a digit ---------- *)
Definition P_neg (x y : Z) : bool := negb (x =? 45) || is_space y || is_digit y.
Lemma neg_sub_id s : adj_ok P_neg s = true -> neg_sub s = s.
Proof.
  induction s as [|x r IH]; intros H; [reflexivity|]. cbn [adj_ok] in H. apply andb_prop in H as [H1 H2].
  cbn [neg_sub]. destruct r as [|y r']; [reflexivity|]. unfold P_neg in H1.
  destruct (x =? 45); cbn [negb orb andb] in *; [rewrite H1|]; cbn [negb]; rewrite (IH H2); reflexivity.
Qed.

(* ---------- negative_base_pattern.sub is the identity when every '^' follows a ')' ---------- *)
Definition P_hat (x y : Z) : bool := negb (y =? 94) || (x =? 41).
Definition numch (c : Z) : bool := is_digit c || (c =? 46) || (c =? 101) || (c =? 69) || (c =? 43) || (c =? 45) || is_space c.
Lemma take_while_spec f : forall s a b, take_while f s = (a, b) -> s = a ++ b /\ forallb f a = true.
Proof.
  induction s as [|x r IH]; intros a b H; cbn [take_while] in H.
  - injection H as <- <-. split; reflexivity.
  - destruct (f x) eqn:E.
    + destruct (take_while f r) as [a' b'] eqn:T. injection H as <- <-. destruct (IH _ _ eq_refl) as [-> F].
      split; [reflexivity|]. cbn [forallb]. rewrite E, F. reflexivity.
    + injection H as <- <-. split; reflexivity.
Qed.
Lemma forallb_weaken {A} (f g : A -> bool) l : (forall x, f x = true -> g x = true) -> forallb f l = true -> forallb g l = true.
Proof. intros W H. rewrite forallb_forall in *. intros x Hx. apply W, H, Hx. Qed.
Lemma digit_numch c : is_digit c = true -> numch c = true.
Proof. unfold numch. intros ->. reflexivity. Qed.
Lemma space_numch c : is_space c = true -> numch c = true.
Proof. unfold numch. intros ->. rewrite !orb_true_r. reflexivity. Qed.
Lemma scan_exponent_spec s ex r : scan_exponent s = (ex, r) -> s = ex ++ r /\ forallb numch ex = true.
Proof.
  unfold scan_exponent. destruct s as [|e s']; [intros H; injection H as <- <-; split; reflexivity|].
  destruct ((e =? 101) || (e =? 69)) eqn:Ee; [|intros H; injection H as <- <-; split; reflexivity].
  set (sg_r1 := match s' with x :: r' => if (x =? 43) || (x =? 45) then ([x], r') else ([], s') | [] => ([], s') end).
  assert (Hs : s' = fst sg_r1 ++ snd sg_r1 /\ forallb numch (fst sg_r1) = true).
  { unfold sg_r1. destruct s' as [|x r']; [split; reflexivity|]. destruct ((x =? 43) || (x =? 45)) eqn:Ex; cbn [fst snd]; [|split; reflexivity].
    split; [reflexivity|]. cbn [forallb]. unfold numch. apply orb_prop in Ex as [->| ->]; rewrite ?orb_true_r; reflexivity. }
  destruct sg_r1 as [sg r1]. cbn [fst snd] in Hs. destruct Hs as [-> Fs].
  destruct (take_while is_digit r1) as [ds r2] eqn:T. destruct (take_while_spec _ _ _ _ T) as [-> Fd].
  destruct ds as [|d ds']; intros H; injection H as <- <-; [split; reflexivity|].
  split; [cbn [app]; rewrite <- !app_assoc; reflexivity|]. cbn [forallb]. rewrite forallb_app, Fs.
  assert (numch e = true) by (unfold numch; apply orb_prop in Ee as [->| ->]; rewrite ?orb_true_r; reflexivity).
  rewrite H. cbn [andb]. apply (forallb_weaken _ _ _ digit_numch Fd).
Qed.
Lemma scan_num_pow_spec r num rest : scan_num_pow r = Some (num, rest) ->
  exists u c, r = u ++ c :: 94 :: rest /\ c <> 41.
Proof.
  unfold scan_num_pow. destruct (take_while is_digit r) as [d1 r1] eqn:T1. destruct (take_while_spec _ _ _ _ T1) as [-> F1].
  destruct d1 as [|d d1']; [discriminate|].
  set (dot_r2 := match r1 with x :: r' => if x =? 46 then ([x], r') else ([], r1) | [] => ([], r1) end).
  assert (Hd : r1 = fst dot_r2 ++ snd dot_r2 /\ forallb numch (fst dot_r2) = true).
  { unfold dot_r2. destruct r1 as [|x r']; [split; reflexivity|]. destruct (x =? 46) eqn:Ex; cbn [fst snd]; [|split; reflexivity].
    split; [reflexivity|]. cbn [forallb]. unfold numch. rewrite Ex, ?orb_true_r. reflexivity. }
  destruct dot_r2 as [dot r2]. cbn [fst snd] in Hd. destruct Hd as [-> Fdot].
  destruct (take_while is_digit r2) as [d2 r3] eqn:T2. destruct (take_while_spec _ _ _ _ T2) as [-> F2].
  destruct (scan_exponent r3) as [ex r4] eqn:Tx. destruct (scan_exponent_spec _ _ _ Tx) as [-> Fx].
  destruct (take_while is_space r4) as [sp r5] eqn:T5. destruct (take_while_spec _ _ _ _ T5) as [-> F5].
  destruct r5 as [|x r6]; [discriminate|]. destruct (x =? 94) eqn:E94; [|discriminate]. intros H. injection H as <- <-.
  apply Z.eqb_eq in E94. subst x.
  set (body := (d :: d1') ++ dot ++ d2 ++ ex ++ sp).
  assert (Fb : forallb numch body = true).
  { unfold body. rewrite !forallb_app. rewrite (forallb_weaken _ _ _ digit_numch F1), Fdot, (forallb_weaken _ _ _ digit_numch F2), Fx,
      (forallb_weaken _ _ _ space_numch F5). reflexivity. }
  assert (NE : body <> []) by (unfold body; discriminate).
  destruct (exists_last NE) as (u & c & Eb). exists u, c. split.
  - change ((d :: d1') ++ (dot ++ d2 ++ ex ++ sp ++ 94 :: r6)) with ((d :: d1') ++ dot ++ d2 ++ ex ++ sp ++ 94 :: r6).
    replace ((d :: d1') ++ dot ++ d2 ++ ex ++ sp ++ 94 :: r6) with (body ++ 94 :: r6) by (unfold body; rewrite <- !app_assoc; reflexivity).
    rewrite Eb, <- app_assoc. reflexivity.
  - rewrite Eb, forallb_app in Fb. apply andb_prop in Fb as [_ Fc]. cbn [forallb] in Fc. rewrite andb_true_r in Fc.
    intros ->. discriminate Fc.
Qed.
Lemma neg_base_sub_id : forall fuel prev s, adj_ok P_hat (prev :: s) = true -> neg_base_sub fuel prev s = s.
Proof.
  induction fuel as [|f IH]; intros prev s H; [reflexivity|]. cbn [neg_base_sub]. destruct s as [|x r]; [reflexivity|].
  assert (Hr : adj_ok P_hat (x :: r) = true) by (cbn [adj_ok] in H; apply andb_prop in H as [_ H]; exact H).
  destruct ((x =? 45) && negb (is_word prev || (prev =? 46) || (prev =? 41))) eqn:E.
  - destruct (scan_num_pow r) as [[num rest]|] eqn:Sc.
    + exfalso. destruct (scan_num_pow_spec _ _ _ Sc) as (u & c & -> & Nc).
      assert (Pc : P_hat c 94 = true) by (apply (adj_ok_mid P_hat (prev :: x :: u) c 94 rest); exact H).
      unfold P_hat in Pc. cbn in Pc. apply Z.eqb_eq in Pc. contradiction.
    + rewrite (IH _ _ Hr). reflexivity.
  - rewrite (IH _ _ Hr). reflexivity.
Qed.

(* ---------- padding and splitting ---------- *)
Lemma pad_app u v : pad (u ++ v) = pad u ++ pad v.
Proof. apply flat_map_app. Qed.
Lemma pad_id s : forallb (fun c => negb (is_padded c)) s = true -> pad s = s.
Proof.
  induction s as [|x r IH]; intros H; [reflexivity|]. cbn [forallb] in H. apply andb_prop in H as [H1 H2].
  unfold pad in *. cbn [flat_map]. apply negb_true_iff in H1. rewrite H1, (IH H2). reflexivity.
Qed.
Lemma words_acc_space cur u v : words_acc cur (u ++ 32 :: v) = words_acc cur u ++ words_acc [] v.
Proof.
  revert cur. induction u as [|x u IH]; intros cur; cbn [app words_acc].
  - cbn. destruct cur; reflexivity.
  - destruct (x =? 32); [|apply IH]. destruct cur; cbn [app]; rewrite IH; reflexivity.
Qed.
Lemma words_space u v : words (u ++ 32 :: v) = words u ++ words v.
Proof. apply words_acc_space. Qed.
Lemma words_acc_nospace : forall s cur, forallb (fun c => negb (c =? 32)) s = true ->
  words_acc cur s = match rev cur ++ s with [] => [] | w => [w] end.
Proof.
  induction s as [|x r IH]; intros cur H.
  - cbn [words_acc]. rewrite app_nil_r. destruct cur as [|c cur']; [reflexivity|]. destruct (rev (c :: cur')) eqn:E; [|reflexivity].
    apply (f_equal (@length Z)) in E. rewrite rev_length in E. discriminate E.
  - cbn [forallb] in H. apply andb_prop in H as [H1 H2]. apply negb_true_iff in H1. cbn [words_acc]. rewrite H1.
    rewrite (IH _ H2). cbn [rev]. rewrite <- app_assoc. reflexivity.
Qed.
Lemma words_single s : s <> [] -> forallb (fun c => negb (c =? 32)) s = true -> words s = [s].
Proof. intros NE H. unfold words. rewrite (words_acc_nospace _ _ H). cbn. destruct s; [congruence|reflexivity]. Qed.
(* an atom's text survives padding and splitting as one token *)
Definition plain (c : Z) : bool := negb (is_padded c) && negb (c =? 32).
Lemma atom_words s : s <> [] -> forallb plain s = true -> pad s = s /\ words s = [s].
Proof.
  intros NE H. split.
  - apply pad_id. eapply forallb_weaken; [|exact H]. intros x Hx. apply andb_prop in Hx. tauto.
  - apply words_single; [exact NE|]. eapply forallb_weaken; [|exact H]. intros x Hx. apply andb_prop in Hx. tauto.
Qed.

(* ---------- decimal numerals ---------- *)
Lemma parse_nat_app s t a : parse_nat (s ++ t) a = parse_nat t (parse_nat s a).
Proof. revert a; induction s as [|d s IH]; intros a; [reflexivity|]. cbn [app parse_nat]. apply IH. Qed.
Lemma dec_pos_acc : forall fuel n acc, dec_pos fuel n acc = dec_pos fuel n [] ++ acc.
Proof.
  induction fuel as [|f IH]; intros n acc; cbn [dec_pos]; [reflexivity|]. destruct (n <? 10); [reflexivity|].
  rewrite (IH _ (_ :: acc)), (IH _ [_]). rewrite <- app_assoc. reflexivity.
Qed.
Lemma dec_pos_spec : forall fuel n, 0 <= n < 2 ^ Z.of_nat fuel ->
  parse_nat (dec_pos fuel n []) 0 = n /\ forallb is_digit (dec_pos fuel n []) = true /\ (0 < fuel -> dec_pos fuel n [] <> [])%nat.
Proof.
  induction fuel as [|f IH]; intros n H.
  - cbn in H. assert (n = 0) by lia. subst. cbn. split; [reflexivity|]. split; [reflexivity|]. lia.
  - cbn [dec_pos]. destruct (Z.ltb_spec n 10) as [L|L].
    + split; [cbn [parse_nat]; unfold digit_char; lia|]. split; [|intros _; discriminate]. cbn [forallb]. unfold is_digit, digit_char.
      rewrite andb_true_r. apply andb_true_intro. split; apply Z.leb_le; lia.
    + rewrite dec_pos_acc. rewrite Nat2Z.inj_succ, Z.pow_succ_r in H by lia.
      assert (B : 0 <= n / 10 < 2 ^ Z.of_nat f).
      { split; [apply Z.div_pos; lia|]. apply Z.div_lt_upper_bound; lia. }
      destruct (IH _ B) as (Pv & Dg & _). rewrite parse_nat_app, Pv. cbn [parse_nat]. unfold digit_char.
      split; [pose proof (Z.div_mod n 10 ltac:(lia)); lia|]. split.
      * rewrite forallb_app, Dg. cbn [forallb andb]. unfold is_digit. pose proof (Z.mod_pos_bound n 10 ltac:(lia)).
        rewrite andb_true_r. apply andb_true_intro. split; apply Z.leb_le; lia.
      * intros _ E. apply app_eq_nil in E as [_ E]. discriminate E.
Qed.
Lemma dec_nonneg k : 0 <= k -> parse_nat (dec k) 0 = k /\ forallb is_digit (dec k) = true /\ dec k <> [].
Proof.
  intros H. unfold dec. destruct (Z.ltb_spec k 0); [lia|].
  assert (B : 0 <= k < 2 ^ Z.of_nat (S (Z.to_nat (Z.log2 k)))).
  { split; [exact H|]. rewrite Nat2Z.inj_succ, Z2Nat.id by apply Z.log2_nonneg.
    destruct (Z.eq_dec k 0) as [->|N]; [cbn; lia|]. apply Z.log2_spec. lia. }
  destruct (dec_pos_spec _ _ B) as (P1 & P2 & P3). split; [exact P1|]. split; [exact P2|]. apply P3. lia.
Qed.
Lemma digit_plain c : is_digit c = true -> plain c = true.
Proof.
  unfold is_digit, plain, is_padded. intros H. apply andb_prop in H as [H1 H2]. apply Z.leb_le in H1, H2.
  repeat (match goal with |- context [?a =? ?b] => destruct (Z.eqb_spec a b); [lia|] end). reflexivity.
Qed.
Lemma digit_lower c : is_digit c = true -> lower_char c = c.
Proof.
  unfold is_digit, lower_char. intros H. apply andb_prop in H as [H1 H2]. apply Z.leb_le in H1, H2.
  destruct (Z.leb_spec 65 c); [lia|]. reflexivity.
Qed.
Lemma map_id_on {A} (f : A -> A) l : (forall x, In x l -> f x = x) -> map f l = l.
Proof. induction l as [|x l IH]; intros H; [reflexivity|]. cbn [map]. rewrite H by (left; reflexivity). rewrite IH; [reflexivity|]. intros y Hy. apply H. right; exact Hy. Qed.
Lemma digits_lower s : forallb is_digit s = true -> map lower_char s = s.
Proof. intros H. apply map_id_on. intros x Hx. apply digit_lower. rewrite forallb_forall in H. apply H, Hx. Qed.

(* ---------- the shape of a printed string ---------- *)
Definition PP (x y : Z) : bool :=
  negb ((x =? 41) && (y =? 40)) && negb ((x =? 111) && (y =? 111)) && negb ((x =? 110) && (y =? 97)) && P_neg x y && P_hat x y.
Definition isL (c : Z) : bool := is_digit c || (c =? 41).
Definition isF (c : Z) : bool :=
  (c =? 88) || is_digit c || (c =? 45) || (c =? 40) || (c =? 97) || (c =? 99) || (c =? 101) || (c =? 108) || (c =? 115).
Definition okch (c : Z) : bool := negb (c =? 73) && negb (c =? 122).

Lemma isL_rp c : isL c = true -> PP c 41 = true.
Proof. unfold isL, is_digit, PP, P_neg, P_hat, is_space, is_digit. intros H. lia. Qed.
Lemma isL_sp c : isL c = true -> PP c 32 = true.
Proof. unfold isL, is_digit, PP, P_neg, P_hat, is_space, is_digit. intros H. lia. Qed.
Lemma isF_lp c : isF c = true -> PP 40 c = true.
Proof. unfold isF, is_digit, PP, P_neg, P_hat, is_space, is_digit. intros H. lia. Qed.
Lemma isF_sp c : isF c = true -> PP 32 c = true.
Proof. unfold isF, is_digit, PP, P_neg, P_hat, is_space, is_digit. intros H. lia. Qed.
Lemma digit_pp x y : is_digit x = true -> is_digit y = true -> PP x y = true.
Proof. unfold is_digit, PP, P_neg, P_hat, is_space, is_digit. intros H1 H2. lia. Qed.
Lemma us_digit y : is_digit y = true -> PP 95 y = true.
Proof. unfold is_digit, PP, P_neg, P_hat, is_space, is_digit. intros H. lia. Qed.
Lemma lit_pp x y : lit_char x = true -> lit_char y = true -> negb (x =? 45) || is_digit y = true -> PP x y = true.
Proof. unfold lit_char, is_digit, PP, P_neg, P_hat, is_space, is_digit. intros H1 H2 H3. lia. Qed.
Lemma digit_isL c : is_digit c = true -> isL c = true.
Proof. unfold isL. intros ->. reflexivity. Qed.
Lemma digit_isF c : is_digit c = true -> isF c = true.
Proof. unfold isF. intros ->. rewrite orb_true_r. reflexivity. Qed.
Lemma digit_okch c : is_digit c = true -> okch c = true.
Proof. unfold is_digit, okch. intros H. lia. Qed.
Lemma lit_okch c : lit_char c = true -> okch c = true.
Proof. unfold lit_char, is_digit, okch. intros H. lia. Qed.
Lemma lit_plain c : lit_char c = true -> plain c = true.
Proof. unfold lit_char, is_digit, plain, is_padded. intros H. lia. Qed.
Lemma lit_lower c : lit_char c = true -> lower_char c = c.
Proof. unfold lit_char, is_digit, lower_char. intros H. destruct ((65 <=? c) && (c <=? 90)) eqn:E; [lia|reflexivity]. Qed.

Lemma digits_adj s : forallb is_digit s = true -> adj_ok PP s = true.
Proof.
  induction s as [|x r IH]; intros H; [reflexivity|]. cbn [forallb] in H. apply andb_prop in H as [H1 H2]. cbn [adj_ok].
  rewrite (IH H2), andb_true_r. destruct r as [|y r']; [reflexivity|]. cbn [forallb] in H2. apply andb_prop in H2 as [H2 _].
  apply digit_pp; assumption.
Qed.
Lemma lit_adj s : forallb lit_char s = true -> minus_ok s = true -> adj_ok PP s = true.
Proof.
  induction s as [|x r IH]; intros H M; [reflexivity|]. cbn [forallb] in H. apply andb_prop in H as [H1 H2].
  cbn [minus_ok] in M. apply andb_prop in M as [M1 M2]. cbn [adj_ok]. rewrite (IH H2 M2), andb_true_r.
  destruct r as [|y r']; [reflexivity|]. cbn [forallb] in H2. apply andb_prop in H2 as [H2 _]. apply lit_pp; assumption.
Qed.

(* a string with its first and last character, well-shaped inside *)
Definition SS (s : str) (f l : Z) : Prop := s <> [] /\ adj_ok PP s = true /\ forallb okch s = true /\ hd0 s = f /\ last0 s = l.
Lemma SS_app u v f1 l1 f2 l2 : SS u f1 l1 -> SS v f2 l2 -> PP l1 f2 = true -> SS (u ++ v) f1 l2.
Proof.
  intros (N1 & A1 & O1 & F1 & L1) (N2 & A2 & O2 & F2 & L2) B. split; [destruct u; [congruence|discriminate]|].
  split; [rewrite adj_ok_app by assumption; rewrite A1, A2, L1, F2, B; reflexivity|].
  split; [rewrite forallb_app, O1, O2; reflexivity|]. split; [rewrite hd0_app by exact N1; exact F1|rewrite last0_app by exact N2; exact L2].
Qed.
Ltac ss_fixed := split; [discriminate|]; split; [reflexivity|]; split; [reflexivity|]; split; reflexivity.

Lemma SS_digits s : s <> [] -> forallb is_digit s = true -> exists f l, SS s f l /\ is_digit f = true /\ is_digit l = true.
Proof.
  intros NE H. exists (hd0 s), (last0 s). split; [split; [exact NE|]; split; [apply digits_adj; exact H|]; split; [|split; reflexivity]|].
  - eapply forallb_weaken; [|exact H]. apply digit_okch.
  - rewrite forallb_forall in H. split; apply H.
    + destruct s; [congruence|left; reflexivity].
    + unfold last0. destruct (exists_last NE) as (u & c & ->). rewrite last_last. apply in_or_app. right. left. reflexivity.
Qed.

Definition RR (hat : bool) (e : pexpr) : Prop := exists f l, SS (render hat e) f l /\ isF f = true /\ isL l = true.

Lemma op_text_SS n pr w hat :
  ((n =? MULTIPLICATION) && (pr =? 1) && negb w) || ((n =? DIVISION) && (pr =? 1) && negb w) || ((n =? POWER) && (pr =? 2) && w) = true ->
  exists f l, SS ([41] ++ op_text n hat ++ [40]) 41 40 /\ f = 41 /\ l = 40.
Proof.
  intros H. exists 41, 40. split; [|split; reflexivity].
  assert (C : n = MULTIPLICATION \/ n = DIVISION \/ n = POWER) by (unfold MULTIPLICATION, DIVISION, POWER in *; lia).
  destruct C as [-> | [-> | ->]]; destruct hat; cbn; ss_fixed.
Qed.

Theorem render_shape hat e : text_ok e = true -> RR hat e.
Proof.
  induction e as [k|k|t|f a IHa|a IHa b IHb|a IHa b IHb|n pr w a IHa b IHb|a IHa b IHb]; intros T; cbn [text_ok] in T; unfold RR; cbn [render].
  - apply Z.leb_le in T. destruct (dec_nonneg k T) as (_ & Dg & NE). destruct (SS_digits _ NE Dg) as (f & l & S & Ff & Fl).
    exists 88, l. split; [|split; [reflexivity|apply digit_isL; exact Fl]].
    apply (SS_app [88; 95] (dec k) 88 95 f l); [ss_fixed|exact S|apply us_digit; exact Ff].
  - apply andb_prop in T as [T _]. apply Z.leb_le in T. destruct (dec_nonneg k T) as (_ & Dg & NE). destruct (SS_digits _ NE Dg) as (f & l & S & Ff & Fl).
    exists f, l. split; [exact S|]. split; [apply digit_isF; exact Ff|apply digit_isL; exact Fl].
  - unfold lit_ok in T. apply andb_prop in T as [T T5]. apply andb_prop in T as [T T4]. apply andb_prop in T as [T T3]. apply andb_prop in T as [T1 T2].
    destruct t as [|c t']; [discriminate T4|]. exists c, (last0 (c :: t')). split; [|split].
    + split; [discriminate|]. split; [apply lit_adj; assumption|]. split; [eapply forallb_weaken; [|exact T1]; apply lit_okch|split; reflexivity].
    + unfold isF, is_digit in *. lia.
    + apply digit_isL. exact T5.
  - apply andb_prop in T as [Tf Ta]. destruct (IHa Ta) as (fa & la & Sa & Fa & La).
    assert (Pre : exists f0, SS (fun_name f ++ [40]) f0 40 /\ isF f0 = true).
    { cbn [existsb] in Tf. unfold SIN, COS, SINH, COSH, EXPONENTIAL, LOGARITHM, ABS, SQRT in Tf.
      assert (C : f = 6 \/ f = 7 \/ f = 14 \/ f = 15 \/ f = 8 \/ f = 9 \/ f = 11 \/ f = 12) by lia.
      destruct C as [-> | [-> | [-> | [-> | [-> | [-> | [-> | ->]]]]]]]; cbn; eexists; (split; [ss_fixed|reflexivity]). }
    destruct Pre as (f0 & S0 & F0). exists f0, 41. split; [|split; [exact F0|reflexivity]].
    rewrite app_assoc. apply (SS_app _ _ f0 40 fa 41 S0); [|apply isF_lp; exact Fa].
    apply (SS_app _ _ fa la 41 41 Sa); [ss_fixed|apply isL_rp; exact La].
  - apply andb_prop in T as [Ta Tb]. destruct (IHa Ta) as (fa & la & Sa & Fa & La). destruct (IHb Tb) as (fb & lb & Sb & Fb & Lb).
    exists fa, lb. split; [|split; assumption].
    apply (SS_app _ _ fa la 32 lb Sa); [|apply isL_sp; exact La].
    apply (SS_app [32; 43; 32] _ 32 32 fb lb); [ss_fixed|exact Sb|apply isF_sp; exact Fb].
  - apply andb_prop in T as [Ta Tb]. destruct (IHa Ta) as (fa & la & Sa & Fa & La). destruct (IHb Tb) as (fb & lb & Sb & Fb & Lb).
    exists fa, 41. split; [|split; [exact Fa|reflexivity]].
    apply (SS_app _ _ fa la 32 41 Sa); [|apply isL_sp; exact La].
    apply (SS_app [32; 45; 32; 40] _ 32 40 fb 41); [ss_fixed| |apply isF_lp; exact Fb].
    apply (SS_app _ _ fb lb 41 41 Sb); [ss_fixed|apply isL_rp; exact Lb].
  - apply andb_prop in T as [T Tb]. apply andb_prop in T as [Top Ta].
    destruct (IHa Ta) as (fa & la & Sa & Fa & La). destruct (IHb Tb) as (fb & lb & Sb & Fb & Lb).
    destruct (op_text_SS n pr w hat Top) as (_ & _ & Sop & _ & _).
    exists 40, 41. split; [|split; reflexivity].
    apply (SS_app [40] _ 40 40 fa 41); [ss_fixed| |apply isF_lp; exact Fa].
    apply (SS_app _ _ fa la 41 41 Sa); [|apply isL_rp; exact La].
    replace ([41] ++ op_text n hat ++ [40] ++ render hat b ++ [41]) with (([41] ++ op_text n hat ++ [40]) ++ render hat b ++ [41])
      by (rewrite <- !app_assoc; reflexivity).
    apply (SS_app _ _ 41 40 fb 41 Sop); [|apply isF_lp; exact Fb].
    apply (SS_app _ _ fb lb 41 41 Sb); [ss_fixed|apply isL_rp; exact Lb].
  - apply andb_prop in T as [Ta Tb]. destruct (IHa Ta) as (fa & la & Sa & Fa & La). destruct (IHb Tb) as (fb & lb & Sb & Fb & Lb).
    assert (Sop : SS ([41] ++ op_text POWER hat ++ [40]) 41 40) by (destruct hat; cbn; ss_fixed).
    exists 97, 41. split; [|split; reflexivity].
    apply (SS_app [97; 98; 115; 40] _ 97 40 fa 41); [ss_fixed| |apply isF_lp; exact Fa].
    apply (SS_app _ _ fa la 41 41 Sa); [|apply isL_rp; exact La].
    replace ([41] ++ op_text POWER hat ++ [40] ++ render hat b ++ [41]) with (([41] ++ op_text POWER hat ++ [40]) ++ render hat b ++ [41])
      by (rewrite <- !app_assoc; reflexivity).
    apply (SS_app _ _ 41 40 fb 41 Sop); [|apply isF_lp; exact Fb].
    apply (SS_app _ _ fb lb 41 41 Sb); [ss_fixed|apply isL_rp; exact Lb].
Qed.

(* ---------- the tokenizer on a printed string ---------- *)
Lemma contains_absent p0 rest s : forallb (fun x => negb (x =? p0)) s = true -> contains (p0 :: rest) s = false.
Proof.
  induction s as [|x r IH]; intros H; [reflexivity|]. cbn [forallb] in H. apply andb_prop in H as [H1 H2].
  cbn [contains starts_with]. rewrite (IH H2), orb_false_r. apply negb_true_iff in H1. rewrite Z.eqb_sym, H1. reflexivity.
Qed.
Lemma no_pair_absent a b s : forallb (fun x => negb (x =? a)) s = true -> no_pair a b s = true.
Proof.
  unfold no_pair. induction s as [|x r IH]; intros H; [reflexivity|]. cbn [forallb] in H. apply andb_prop in H as [H1 H2].
  cbn [adj_ok]. rewrite (IH H2), andb_true_r. destruct r; [reflexivity|]. apply negb_true_iff in H1. rewrite H1. reflexivity.
Qed.

Lemma no_bad_substrings e : text_ok e = true -> existsb (fun b => contains b (render false e)) bad_substrings = false.
Proof.
  intros T. destruct (render_shape false e T) as (f & l & (NE & A & O & _ & _) & _ & _).
  unfold bad_substrings. cbn [existsb].
  rewrite (contains_absent 122 [111; 111]) by (eapply forallb_weaken; [|exact O]; unfold okch; intros x Hx; lia).
  rewrite (contains_absent 73 []) by (eapply forallb_weaken; [|exact O]; unfold okch; intros x Hx; lia).
  rewrite (contains_pair_false 111 111 []) by (unfold no_pair; eapply adj_ok_weaken; [|exact A]; unfold PP; intros x y Hp; lia).
  rewrite (contains_pair_false 110 97 [110]) by (unfold no_pair; eapply adj_ok_weaken; [|exact A]; unfold PP; intros x y Hp; lia).
  reflexivity.
Qed.
Lemma replace_rp_lp e : text_ok e = true -> replace2 41 40 [41; 42; 40] (render false e) = render false e.
Proof.
  intros T. destruct (render_shape false e T) as (f & l & (NE & A & O & _ & _) & _ & _).
  apply replace2_id. unfold no_pair. eapply adj_ok_weaken; [|exact A]. unfold PP. intros x y Hp. lia.
Qed.

Lemma replace_digits s : forallb is_digit s = true -> replace2 42 42 [94] s = s.
Proof. intros H. apply replace2_id, no_pair_absent. eapply forallb_weaken; [|exact H]. unfold is_digit. intros x Hx. lia. Qed.
Lemma last0_isL_ne hat e : text_ok e = true -> render hat e = [] \/ last0 (render hat e) <> 42.
Proof. intros T. destruct (render_shape hat e T) as (f & l & (_ & _ & _ & _ & L) & _ & IL). right. rewrite L. unfold isL, is_digit in IL. lia. Qed.
Lemma replace_pow e : text_ok e = true -> replace2 42 42 [94] (render false e) = render true e.
Proof.
  induction e as [k|k|t|f a IHa|a IHa b IHb|a IHa b IHb|n pr w a IHa b IHb|a IHa b IHb]; intros T; pose proof T as T0; cbn [text_ok] in T; cbn [render].
  - apply Z.leb_le in T. destruct (dec_nonneg k T) as (_ & Dg & _).
    rewrite replace2_app by (right; unfold last0; cbn; lia). rewrite (replace_digits _ Dg). reflexivity.
  - apply andb_prop in T as [T _]. apply Z.leb_le in T. destruct (dec_nonneg k T) as (_ & Dg & _). apply replace_digits; exact Dg.
  - unfold lit_ok in T. apply andb_prop in T as [T _]. apply andb_prop in T as [T _]. apply andb_prop in T as [T _]. apply andb_prop in T as [T1 _].
    apply replace2_id, no_pair_absent. eapply forallb_weaken; [|exact T1]. unfold lit_char, is_digit. intros x Hx. lia.
  - apply andb_prop in T as [Tf Ta].
    assert (Pre : replace2 42 42 [94] (fun_name f ++ [40]) = fun_name f ++ [40] /\ last0 (fun_name f ++ [40]) <> 42).
    { cbn [existsb] in Tf. unfold SIN, COS, SINH, COSH, EXPONENTIAL, LOGARITHM, ABS, SQRT in Tf.
      assert (C : f = 6 \/ f = 7 \/ f = 14 \/ f = 15 \/ f = 8 \/ f = 9 \/ f = 11 \/ f = 12) by lia.
      destruct C as [-> | [-> | [-> | [-> | [-> | [-> | [-> | ->]]]]]]]; cbn; (split; [reflexivity|lia]). }
    destruct Pre as [P1 P2]. rewrite app_assoc. rewrite replace2_app by (right; exact P2). rewrite P1.
    rewrite replace2_app by (apply last0_isL_ne; exact Ta). rewrite (IHa Ta). rewrite <- app_assoc. reflexivity.
  - apply andb_prop in T as [Ta Tb]. rewrite replace2_app by (apply last0_isL_ne; exact Ta). rewrite (IHa Ta).
    rewrite replace2_app by (right; unfold last0; cbn; lia). rewrite (IHb Tb). reflexivity.
  - apply andb_prop in T as [Ta Tb]. rewrite replace2_app by (apply last0_isL_ne; exact Ta). rewrite (IHa Ta).
    rewrite replace2_app by (right; unfold last0; cbn; lia). rewrite replace2_app by (apply last0_isL_ne; exact Tb). rewrite (IHb Tb). reflexivity.
  - apply andb_prop in T as [T Tb]. apply andb_prop in T as [Top Ta].
    rewrite replace2_app by (right; unfold last0; cbn; lia). rewrite replace2_app by (apply last0_isL_ne; exact Ta). rewrite (IHa Ta).
    replace ([41] ++ op_text n false ++ [40] ++ render false b ++ [41]) with (([41] ++ op_text n false ++ [40]) ++ render false b ++ [41])
      by (rewrite <- !app_assoc; reflexivity).
    assert (Pm : replace2 42 42 [94] ([41] ++ op_text n false ++ [40]) = [41] ++ op_text n true ++ [40] /\ last0 ([41] ++ op_text n false ++ [40]) <> 42).
    { assert (C : n = MULTIPLICATION \/ n = DIVISION \/ n = POWER) by (unfold MULTIPLICATION, DIVISION, POWER in *; lia).
      destruct C as [-> | [-> | ->]]; cbn; (split; [reflexivity|lia]). }
    destruct Pm as [P1 P2]. rewrite replace2_app by (right; exact P2). rewrite P1.
    rewrite replace2_app by (apply last0_isL_ne; exact Tb). rewrite (IHb Tb). cbn [replace2]. rewrite <- !app_assoc. reflexivity.
  - apply andb_prop in T as [Ta Tb].
    rewrite replace2_app by (right; unfold last0; cbn; lia). rewrite replace2_app by (apply last0_isL_ne; exact Ta). rewrite (IHa Ta).
    replace ([41] ++ op_text POWER false ++ [40] ++ render false b ++ [41]) with ([41; 42; 42; 40] ++ render false b ++ [41]) by reflexivity.
    rewrite replace2_app by (right; unfold last0; cbn; lia). rewrite replace2_app by (apply last0_isL_ne; exact Tb). rewrite (IHb Tb). reflexivity.
Qed.

Lemma neg_sub_render e : text_ok e = true -> neg_sub (render true e) = render true e.
Proof.
  intros T. destruct (render_shape true e T) as (f & l & (NE & A & O & _ & _) & _ & _).
  apply neg_sub_id. eapply adj_ok_weaken; [|exact A]. unfold PP. intros x y Hp. lia.
Qed.
Lemma neg_base_sub_render fuel e : text_ok e = true -> neg_base_sub fuel 0 (render true e) = render true e.
Proof.
  intros T. destruct (render_shape true e T) as (f & l & (NE & A & O & F & _) & IF & _).
  apply neg_base_sub_id. destruct (render true e) as [|c r] eqn:E; [congruence|]. cbn [adj_ok].
  apply andb_true_intro. split.
  - unfold hd0 in F. cbn in F. subst f. unfold P_hat, isF, is_digit in *. lia.
  - change (adj_ok P_hat (c :: r) = true). eapply adj_ok_weaken; [|exact A]. unfold PP. intros x y Hp. lia.
Qed.

(* ---------- padding + split(" ") yields the token texts ---------- *)
Lemma words_piece w v : w <> [] -> forallb (fun c => negb (c =? 32)) w = true -> words (w ++ 32 :: v) = w :: words v.
Proof. intros NE H. rewrite words_space, (words_single w NE H). reflexivity. Qed.
Lemma words_lead v : words (32 :: v) = words v.
Proof. reflexivity. Qed.
Lemma atom_tokens s rest : s <> [] -> forallb plain s = true -> words (pad s ++ 32 :: rest) = s :: words rest.
Proof.
  intros NE H. destruct (atom_words s NE H) as [Pd _]. rewrite Pd. apply words_piece; [exact NE|].
  eapply forallb_weaken; [|exact H]. intros x Hx. apply andb_prop in Hx. tauto.
Qed.

(* generalised: the tokens of e followed by the tokens of whatever comes after a space *)
Lemma words_render e : text_ok e = true -> forall rest, words (pad (render true e) ++ 32 :: rest) = toks_text e ++ words rest.
Proof.
  induction e as [k|k|t|f a IHa|a IHa b IHb|a IHa b IHb|n pr w a IHa b IHb|a IHa b IHb]; intros T rest; cbn [text_ok] in T; cbn [render toks_text].
  - apply Z.leb_le in T. destruct (dec_nonneg k T) as (_ & Dg & NE).
    apply atom_tokens; [discriminate|]. cbn [app forallb]. rewrite (forallb_weaken _ _ _ digit_plain Dg). reflexivity.
  - apply andb_prop in T as [T _]. apply Z.leb_le in T. destruct (dec_nonneg k T) as (_ & Dg & NE).
    apply atom_tokens; [exact NE|]. apply (forallb_weaken _ _ _ digit_plain Dg).
  - unfold lit_ok in T. apply andb_prop in T as [T _]. apply andb_prop in T as [T T4]. apply andb_prop in T as [T _]. apply andb_prop in T as [T1 _].
    apply atom_tokens; [destruct t; [discriminate T4|discriminate]|]. apply (forallb_weaken _ _ _ lit_plain T1).
  - apply andb_prop in T as [Tf Ta]. rewrite !pad_app.
    assert (Pre : pad (fun_name f) = fun_name f /\ fun_name f <> [] /\ forallb (fun c => negb (c =? 32)) (fun_name f) = true).
    { cbn [existsb] in Tf. unfold SIN, COS, SINH, COSH, EXPONENTIAL, LOGARITHM, ABS, SQRT in Tf.
      assert (C : f = 6 \/ f = 7 \/ f = 14 \/ f = 15 \/ f = 8 \/ f = 9 \/ f = 11 \/ f = 12) by lia.
      destruct C as [-> | [-> | [-> | [-> | [-> | [-> | [-> | ->]]]]]]]; cbn; (split; [reflexivity|split; [discriminate|reflexivity]]). }
    destruct Pre as (P1 & P2 & P3). rewrite P1. change (pad [40]) with [32; 40; 32]. change (pad [41]) with [32; 41; 32].
    rewrite <- !app_assoc. cbn [app]. rewrite (words_piece _ _ P2 P3).
    change (40 :: 32 :: pad (render true a) ++ 32 :: 41 :: 32 :: 32 :: rest) with ([40] ++ 32 :: (pad (render true a) ++ 32 :: 41 :: 32 :: 32 :: rest)).
    rewrite (words_piece [40]) by (try discriminate; reflexivity). rewrite (IHa Ta).
    change (41 :: 32 :: 32 :: rest) with ([41] ++ 32 :: 32 :: rest). rewrite (words_piece [41]) by (try discriminate; reflexivity).
    rewrite ?words_lead; repeat rewrite <- app_assoc; reflexivity.
  - apply andb_prop in T as [Ta Tb]. rewrite !pad_app. change (pad [32; 43; 32]) with [32; 43; 32]. rewrite <- !app_assoc. cbn [app].
    rewrite (IHa Ta). change (43 :: 32 :: pad (render true b) ++ 32 :: rest) with ([43] ++ 32 :: (pad (render true b) ++ 32 :: rest)).
    rewrite (words_piece [43]) by (try discriminate; reflexivity). rewrite (IHb Tb). repeat rewrite <- app_assoc; reflexivity.
  - apply andb_prop in T as [Ta Tb]. rewrite !pad_app. change (pad [32; 45; 32; 40]) with [32; 45; 32; 32; 40; 32]. change (pad [41]) with [32; 41; 32].
    rewrite <- !app_assoc. cbn [app]. rewrite (IHa Ta).
    change (45 :: 32 :: 32 :: 40 :: 32 :: pad (render true b) ++ 32 :: 41 :: 32 :: 32 :: rest)
      with ([45] ++ 32 :: 32 :: ([40] ++ 32 :: (pad (render true b) ++ 32 :: ([41] ++ 32 :: 32 :: rest)))).
    rewrite (words_piece [45]) by (try discriminate; reflexivity). rewrite words_lead.
    rewrite (words_piece [40]) by (try discriminate; reflexivity). rewrite (IHb Tb).
    rewrite (words_piece [41]) by (try discriminate; reflexivity). rewrite ?words_lead; repeat rewrite <- app_assoc; reflexivity.
  - apply andb_prop in T as [T Tb]. apply andb_prop in T as [Top Ta]. rewrite !pad_app.
    change (pad [40]) with [32; 40; 32]. change (pad [41]) with [32; 41; 32].
    assert (Po : pad (op_text n true) = [32] ++ op_text n true ++ [32] /\ op_text n true <> [] /\ forallb (fun c => negb (c =? 32)) (op_text n true) = true).
    { assert (C : n = MULTIPLICATION \/ n = DIVISION \/ n = POWER) by (unfold MULTIPLICATION, DIVISION, POWER in *; lia).
      destruct C as [-> | [-> | ->]]; cbn; (split; [reflexivity|split; [discriminate|reflexivity]]). }
    destruct Po as (P1 & P2 & P3). rewrite P1. rewrite <- !app_assoc. cbn [app]. rewrite words_lead.
    change (40 :: 32 :: pad (render true a) ++ 32 :: 41 :: 32 :: 32 :: op_text n true ++ 32 :: 32 :: 40 :: 32 :: pad (render true b) ++ 32 :: 41 :: 32 :: 32 :: rest)
      with ([40] ++ 32 :: (pad (render true a) ++ 32 :: ([41] ++ 32 :: 32 :: (op_text n true ++ 32 :: 32 :: ([40] ++ 32 :: (pad (render true b) ++ 32 :: ([41] ++ 32 :: 32 :: rest))))))).
    rewrite (words_piece [40]) by (try discriminate; reflexivity). rewrite (IHa Ta).
    rewrite (words_piece [41]) by (try discriminate; reflexivity). rewrite words_lead.
    rewrite (words_piece _ _ P2 P3). rewrite words_lead.
    rewrite (words_piece [40]) by (try discriminate; reflexivity). rewrite (IHb Tb).
    rewrite (words_piece [41]) by (try discriminate; reflexivity). rewrite ?words_lead; repeat rewrite <- app_assoc; reflexivity.
  - apply andb_prop in T as [Ta Tb]. rewrite !pad_app.
    change (pad [97; 98; 115; 40]) with [97; 98; 115; 32; 40; 32]. change (pad [41]) with [32; 41; 32]. change (pad (op_text POWER true)) with [32; 94; 32].
    change (pad [40]) with [32; 40; 32]. rewrite <- !app_assoc. cbn [app].
    change (97 :: 98 :: 115 :: 32 :: 40 :: 32 :: pad (render true a) ++ 32 :: 41 :: 32 :: 32 :: 94 :: 32 :: 32 :: 40 :: 32 :: pad (render true b) ++ 32 :: 41 :: 32 :: 32 :: rest)
      with ([97; 98; 115] ++ 32 :: ([40] ++ 32 :: (pad (render true a) ++ 32 :: ([41] ++ 32 :: 32 :: ([94] ++ 32 :: 32 :: ([40] ++ 32 :: (pad (render true b) ++ 32 :: ([41] ++ 32 :: 32 :: rest)))))))).
    rewrite (words_piece [97; 98; 115]) by (try discriminate; reflexivity).
    rewrite (words_piece [40]) by (try discriminate; reflexivity). rewrite (IHa Ta).
    rewrite (words_piece [41]) by (try discriminate; reflexivity). rewrite words_lead.
    rewrite (words_piece [94]) by (try discriminate; reflexivity). rewrite words_lead.
    rewrite (words_piece [40]) by (try discriminate; reflexivity). rewrite (IHb Tb).
    rewrite (words_piece [41]) by (try discriminate; reflexivity). rewrite ?words_lead; repeat rewrite <- app_assoc; reflexivity.
Qed.
Lemma words_pad_render e : text_ok e = true -> words (pad (render true e)) = toks_text e.
Proof.
  intros T. pose proof (words_render e T []) as H. rewrite words_space in H. cbn [words words_acc] in H.
  rewrite !app_nil_r in H. exact H.
Qed.

(* ---------- classification of the (lower-cased) token texts ---------- *)
Section Cls.
Variable isf : str -> bool.

Lemma classify_var k : 0 <= k -> classify isf (map lower_char ([88; 95] ++ dec k)) = TVarConst VARIABLE k.
Proof.
  intros H. destruct (dec_nonneg k H) as (Pv & Dg & NE). cbn [app map]. change (lower_char 88) with 120. change (lower_char 95) with 95.
  rewrite (digits_lower _ Dg). remember (dec k) as d eqn:Ed. unfold classify. cbn.
  unfold all_digits in *. destruct d as [|d0 ds]; [congruence|]. rewrite Dg, Pv. reflexivity.
Qed.
Lemma classify_digit_start c r : is_digit c = true \/ (c = 45 /\ r <> []) ->
  classify isf (c :: r) = if all_digits (c :: r) then TInt (parse_nat (c :: r) 0) else if isf (c :: r) then TLit (c :: r) else TBad (c :: r).
Proof.
  intros H. unfold classify. cbn [map operator_table function_table assoc_str str_eqb fst snd].
  assert (N : forall K, In K [42; 43; 47; 94; 97; 99; 101; 108; 115; 40; 41; 120] -> (c =? K) = false).
  { intros K HK. cbn [In] in HK. unfold is_digit in H. lia. }
  repeat match goal with |- context [c =? ?K] => rewrite (N K) by (cbn; tauto) end. cbn [andb].
  assert (E45 : (c =? 45) && str_eqb r [] = false).
  { destruct H as [H|[-> H]]; [unfold is_digit in H; destruct (c =? 45) eqn:E; [lia|reflexivity]|]. destruct r; [congruence|reflexivity]. }
  rewrite E45. destruct r as [|u ds]; [reflexivity|]. cbn [orb andb]. reflexivity.
Qed.
Lemma classify_int k : 0 <= k -> classify isf (map lower_char (dec k)) = TInt k.
Proof.
  intros H. destruct (dec_nonneg k H) as (Pv & Dg & NE). rewrite (digits_lower _ Dg).
  destruct (dec k) as [|c r] eqn:E; [congruence|]. rewrite classify_digit_start.
  - unfold all_digits. rewrite Dg. rewrite Pv. reflexivity.
  - left. cbn [forallb] in Dg. apply andb_prop in Dg. tauto.
Qed.
Lemma classify_lit t : lit_ok t = true -> isf t = true -> classify isf (map lower_char t) = TLit t.
Proof.
  intros T F. unfold lit_ok in T. apply andb_prop in T as [T T5]. apply andb_prop in T as [T T4]. apply andb_prop in T as [T T3]. apply andb_prop in T as [T1 T2].
  assert (Lw : map lower_char t = t).
  { apply map_id_on. intros x Hx. apply lit_lower. rewrite forallb_forall in T1. apply T1, Hx. }
  rewrite Lw. destruct t as [|c r]; [discriminate T4|]. rewrite classify_digit_start.
  - apply negb_true_iff in T3. rewrite T3, F. reflexivity.
  - destruct (is_digit c) eqn:D; [left; reflexivity|right]. cbn [orb] in T4. apply Z.eqb_eq in T4. split; [exact T4|].
    intros ->. subst c. cbn in T5. discriminate T5.
Qed.

Fixpoint p_lits (e : pexpr) : list str :=
  match e with
  | PLitc t => [t] | PVar _ | PInt _ => []
  | POp1 _ a => p_lits a
  | PAdd a b | PSub a b | PSafe a b | PBin _ _ _ a b => p_lits a ++ p_lits b
  end.

Theorem classify_toks e : text_ok e = true -> (forall t, In t (p_lits e) -> isf t = true) ->
  map (classify isf) (map (map lower_char) (toks_text e)) = toks e.
Proof.
  induction e as [k|k|t|f a IHa|a IHa b IHb|a IHa b IHb|n pr w a IHa b IHb|a IHa b IHb]; intros T L; cbn [text_ok] in T; cbn [toks_text toks p_lits] in *.
  - cbn [map]. rewrite classify_var by (apply Z.leb_le; exact T). reflexivity.
  - apply andb_prop in T as [T _]. cbn [map]. rewrite classify_int by (apply Z.leb_le; exact T). reflexivity.
  - cbn [map]. rewrite classify_lit; [reflexivity|exact T|apply L; left; reflexivity].
  - apply andb_prop in T as [Tf Ta]. rewrite !map_app. pose proof (IHa Ta L) as Ea. unfold str in *. rewrite Ea.
    cbn [existsb] in Tf. unfold SIN, COS, SINH, COSH, EXPONENTIAL, LOGARITHM, ABS, SQRT in Tf.
    assert (C : f = 6 \/ f = 7 \/ f = 14 \/ f = 15 \/ f = 8 \/ f = 9 \/ f = 11 \/ f = 12) by lia.
    destruct C as [-> | [-> | [-> | [-> | [-> | [-> | [-> | ->]]]]]]]; reflexivity.
  - apply andb_prop in T as [Ta Tb]. rewrite !map_app. pose proof (IHa Ta (fun t Ht => L t (in_or_app _ _ t (or_introl Ht)))) as Ea. pose proof (IHb Tb (fun t Ht => L t (in_or_app _ _ t (or_intror Ht)))) as Eb. unfold str in *. rewrite Ea, Eb. reflexivity.
  - apply andb_prop in T as [Ta Tb]. rewrite !map_app. pose proof (IHa Ta (fun t Ht => L t (in_or_app _ _ t (or_introl Ht)))) as Ea. pose proof (IHb Tb (fun t Ht => L t (in_or_app _ _ t (or_intror Ht)))) as Eb. unfold str in *. rewrite Ea, Eb. reflexivity.
  - apply andb_prop in T as [T Tb]. apply andb_prop in T as [Top Ta]. rewrite !map_app.
    pose proof (IHa Ta (fun t Ht => L t (in_or_app _ _ t (or_introl Ht)))) as Ea. pose proof (IHb Tb (fun t Ht => L t (in_or_app _ _ t (or_intror Ht)))) as Eb.
    unfold str in *. rewrite Ea, Eb.
    assert (C : (n = MULTIPLICATION /\ pr = 1 /\ w = false) \/ (n = DIVISION /\ pr = 1 /\ w = false) \/ (n = POWER /\ pr = 2 /\ w = true)).
    { unfold MULTIPLICATION, DIVISION, POWER in *. destruct w; cbn [negb] in Top; lia. }
    destruct C as [(-> & -> & ->) | [(-> & -> & ->) | (-> & -> & ->)]]; reflexivity.
  - apply andb_prop in T as [Ta Tb]. rewrite !map_app. pose proof (IHa Ta (fun t Ht => L t (in_or_app _ _ t (or_introl Ht)))) as Ea. pose proof (IHb Tb (fun t Ht => L t (in_or_app _ _ t (or_intror Ht)))) as Eb. unfold str in *. rewrite Ea, Eb. reflexivity.
Qed.
End Cls.

(* ---------- the tokenizer on the string the printer produced ---------- *)
Theorem tokenize_render e : text_ok e = true -> tokenize (render false e) = Some (map (map lower_char) (toks_text e)).
Proof.
  intros T. unfold tokenize. rewrite (no_bad_substrings e T). rewrite (replace_rp_lp e T), (replace_pow e T), (neg_sub_render e T).
  rewrite (neg_base_sub_render _ e T). rewrite (words_pad_render e T). reflexivity.
Qed.
Theorem tokens_of_printed_string isf e : text_ok e = true -> (forall t, In t (p_lits e) -> isf t = true) ->
  option_map (map (classify isf)) (tokenize (render false e)) = Some (toks e).
Proof. intros T L. rewrite (tokenize_render e T). cbn [option_map]. rewrite (classify_toks isf e T L). reflexivity. Qed.

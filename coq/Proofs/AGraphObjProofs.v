(* Proofs for Model/AGraphObj.v (property C18). *)
From Coq Require Import ZArith List Bool Lia Arith.
From Bingo Require Import Gen.OpDefs Model.Stack Model.AGraphObj.
Import ListNotations.
Local Open Scope nat_scope.

(* ---------- list updates ---------- *)
Lemma upd_length {A} (l : list A) i x : length (upd l i x) = length l.
Proof. revert i; induction l as [|y r IH]; intros [|i]; simpl; auto. Qed.
Lemma nth_upd {A} (l : list A) i j x d :
  nth j (upd l i x) d = if Nat.eqb j i then (if Nat.ltb i (length l) then x else d) else nth j l d.
Proof.
  revert i j; induction l as [|y r IH]; intros i j.
  - simpl. destruct (Nat.eqb j i); destruct j; destruct i; reflexivity.
  - destruct i as [|i]; destruct j as [|j]; simpl; try reflexivity.
    rewrite IH. destruct (Nat.eqb j i); [|reflexivity].
    change (Nat.ltb (Datatypes.S i) (Datatypes.S (length r))) with (Nat.ltb i (length r)). reflexivity.
Qed.
Lemma nth_error_upd {A} (l : list A) i j x :
  nth_error (upd l i x) j = if Nat.eqb j i then (match nth_error l i with Some _ => Some x | None => None end) else nth_error l j.
Proof.
  revert i j; induction l as [|y r IH]; intros i j.
  - simpl. destruct (Nat.eqb j i); destruct j; destruct i; reflexivity.
  - destruct i as [|i]; destruct j as [|j]; simpl; try reflexivity. apply IH.
Qed.
Lemma nth_app_lt {A} (l m : list A) p d : p < length l -> nth p (l ++ m) d = nth p l d.
Proof. intros H. apply app_nth1; exact H. Qed.
Lemma nth_app_len {A} (l : list A) x m d : nth (length l) (l ++ x :: m) d = x.
Proof. rewrite app_nth2 by lia. rewrite Nat.sub_diag. reflexivity. Qed.
Lemma nth_error_snoc {A} (l : list A) x j :
  nth_error (l ++ [x]) j = if Nat.ltb j (length l) then nth_error l j else if Nat.eqb j (length l) then Some x else None.
Proof.
  destruct (Nat.ltb_spec j (length l)) as [H|H].
  - apply nth_error_app1; exact H.
  - rewrite nth_error_app2 by exact H. destruct (Nat.eqb_spec j (length l)) as [E|E].
    + subst. rewrite Nat.sub_diag. reflexivity.
    + destruct (j - length l) as [|k] eqn:K; [lia|]. simpl. destruct k; reflexivity.
Qed.

Section P.
Variable Cst : Type.
Variable one_c : Cst.
Variable S : bool -> stack -> stack.
Notation obj := (obj Cst). Notation world := (world Cst). Notation op := (op Cst).
Notation step := (step Cst one_c S). Notation run := (run Cst one_c S).
Notation update := (update Cst one_c S). Notation refresh := (refresh Cst one_c S).
Notation view_of := (view_of Cst). Notation view_at := (view_at Cst).
Notation observation_of := (observation_of Cst one_c S). Notation observation := (observation Cst one_c S).

Definition ok_obj (h : list stack) (g : obj) : Prop := cmd_p g < length h /\ simp_p g < length h /\ cmd_p g <> simp_p g.
Definition sep (g1 g2 : obj) : Prop :=
  cmd_p g1 <> cmd_p g2 /\ cmd_p g1 <> simp_p g2 /\ simp_p g1 <> cmd_p g2 /\ simp_p g1 <> simp_p g2.
(* the cache is coherent whenever the flag says it is *)
Definition coherent (h : list stack) (g : obj) : Prop :=
  modified g = false ->
  nth (simp_p g) h [] = renumber (S (use_simp g) (nth (cmd_p g) h [])) 0 /\ length (consts g) = n_const (nth (simp_p g) h []).
Definition Inv (w : world) : Prop :=
  (forall i g, nth_error (objs w) i = Some g -> ok_obj (heap w) g /\ coherent (heap w) g) /\
  (forall i j gi gj, i <> j -> nth_error (objs w) i = Some gi -> nth_error (objs w) j = Some gj -> sep gi gj).
Definition frame (h h' : list stack) (g : obj) : Prop :=
  nth (cmd_p g) h' [] = nth (cmd_p g) h [] /\ nth (simp_p g) h' [] = nth (simp_p g) h [].

Lemma sep_sym g1 g2 : sep g1 g2 -> sep g2 g1.
Proof. unfold sep; intros (a & b & c & d); repeat split; congruence. Qed.
Lemma frame_view h h' g : frame h h' g -> view_of h' g = view_of h g.
Proof. intros [a b]; unfold AGraphObj.view_of; rewrite a, b; reflexivity. Qed.
Lemma frame_coherent h h' g : frame h h' g -> coherent h g -> coherent h' g.
Proof. intros [a b] C M; unfold coherent in C; rewrite a, b; exact (C M). Qed.
Lemma ok_obj_mono h h' g : length h <= length h' -> ok_obj h g -> ok_obj h' g.
Proof. unfold ok_obj; intros L (a & b & c); repeat split; try lia; exact c. Qed.

(* ---------- update / refresh ---------- *)
Lemma update_spec h g :
  let '(h1, g1) := update h g in
  exists s', h1 = h ++ [s'] /\ s' = renumber (S (use_simp g) (nth (cmd_p g) h [])) 0 /\
    cmd_p g1 = cmd_p g /\ simp_p g1 = length h /\ modified g1 = false /\ use_simp g1 = use_simp g /\
    fitness g1 = fitness g /\ fit_set g1 = fit_set g /\ age g1 = age g /\ length (consts g1) = n_const s' /\
    (consts g1, needs_opt g1) =
      (if Nat.leb (n_const s') (length (consts g)) then (firstn (n_const s') (consts g), needs_opt g)
       else (repeat one_c (n_const s'), if Nat.ltb 0 (n_const s') then true else needs_opt g)).
Proof.
  unfold AGraphObj.update, alloc.
  set (s' := renumber _ 0).
  destruct (Nat.leb (n_const s') (length (consts g))) eqn:L; exists s'; cbn.
  - repeat (split; [reflexivity|]). split; [apply firstn_length_le; apply Nat.leb_le; exact L|rewrite L; reflexivity].
  - repeat (split; [reflexivity|]). split; [apply repeat_length|rewrite L; reflexivity].
Qed.

Lemma refresh_cases h g :
  (modified g = false /\ refresh h g = (h, g)) \/ (modified g = true /\ refresh h g = update h g).
Proof. unfold AGraphObj.refresh; destruct (modified g); [right|left]; split; reflexivity. Qed.

(* refresh: the heap only grows by a fresh cell, the command array reference is kept, the result is coherent and unmodified *)
Lemma refresh_spec h g : ok_obj h g -> coherent h g ->
  let '(h1, g1) := refresh h g in
  (exists ext, h1 = h ++ ext) /\ cmd_p g1 = cmd_p g /\ ok_obj h1 g1 /\ coherent h1 g1 /\ modified g1 = false /\
  (simp_p g1 = simp_p g \/ (simp_p g1 = length h /\ length h < length h1)) /\
  use_simp g1 = use_simp g /\ fitness g1 = fitness g /\ fit_set g1 = fit_set g /\ age g1 = age g /\
  nth (cmd_p g1) h1 [] = nth (cmd_p g) h [].
Proof.
  intros OK C. destruct (refresh_cases h g) as [[M E]|[M E]]; rewrite E.
  - split; [exists []; rewrite app_nil_r; reflexivity|]. repeat split; auto; try apply OK. apply C; exact M. apply C; exact M.
  - pose proof (update_spec h g) as U. destruct (update h g) as [h1 g1].
    destruct U as (s' & Eh & Es & Ec & Ep & Em & Ef & Efi & Efs & Ea & El & _).
    destruct OK as (o1 & o2 & o3). subst h1.
    split; [exists [s']; reflexivity|]. split; [exact Ec|].
    split; [unfold ok_obj; rewrite Ec, Ep, app_length; simpl; repeat split; lia|].
    split.
    { intros _. rewrite Ec, Ep, Ef. rewrite nth_app_len. rewrite nth_app_lt by exact o1. split; [exact Es | exact El]. }
    split; [exact Em|]. split; [right; split; [exact Ep | rewrite app_length; simpl; lia]|].
    repeat split; auto. rewrite Ec. apply nth_app_lt; exact o1.
Qed.

(* ---------- one step leaves every other object alone ---------- *)
Definition target (o : op) : option nat :=
  match o with New _ _ => None | Copy _ => None | SetArray i _ => Some i | WriteRow i _ _ => Some i | SetConsts i _ => Some i
             | Observe i => Some i | SetFitness i _ => Some i | SetAge i _ => Some i | SetFlag i _ => Some i end.

Lemma frame_app h ext g : ok_obj h g -> frame h (h ++ ext) g.
Proof. intros (a & b & _); split; apply nth_app_lt; assumption. Qed.
Lemma frame_refl h g : frame h h g.
Proof. split; reflexivity. Qed.

Lemma step_frame w o j gj : Inv w -> nth_error (objs w) j = Some gj -> target o <> Some j ->
  nth_error (objs (step w o)) j = Some gj /\ frame (heap w) (heap (step w o)) gj /\ length (heap w) <= length (heap (step w o)).
Proof.
  intros [I1 I2] Hj T.
  assert (Jlt : j < length (objs w)) by (apply nth_error_Some; congruence).
  destruct (I1 _ _ Hj) as [OKj _].
  assert (keep : forall i g', i <> j -> nth_error (upd (objs w) i g') j = Some gj).
  { intros i g' N. rewrite nth_error_upd. destruct (Nat.eqb_spec j i); [congruence|exact Hj]. }
  assert (snoc : forall g', nth_error (objs w ++ [g']) j = Some gj).
  { intros g'. rewrite nth_error_app1 by exact Jlt. exact Hj. }
  destruct o as [flag s|i s|i r c|i cs|i|i f|i a|i b|i]; cbn [AGraphObj.step target] in *.
  - unfold alloc; cbn. split; [apply snoc|]. rewrite <- app_assoc. split; [apply frame_app; exact OKj|rewrite app_length; lia].
  - destruct (nth_error (objs w) i) as [g|] eqn:Hi; [|repeat split; auto].
    unfold alloc, set_obj; cbn. split; [apply keep; congruence|]. split; [apply frame_app; exact OKj|rewrite app_length; lia].
  - destruct (nth_error (objs w) i) as [g|] eqn:Hi; [|repeat split; auto].
    unfold set_obj; cbn. split; [apply keep; congruence|].
    assert (N : i <> j) by congruence. destruct (I2 _ _ _ _ N Hi Hj) as (a & b & _).
    split; [|rewrite upd_length; lia]. split; rewrite nth_upd.
    + destruct (Nat.eqb_spec (cmd_p gj) (cmd_p g)); [congruence|reflexivity].
    + destruct (Nat.eqb_spec (simp_p gj) (cmd_p g)); [congruence|reflexivity].
  - destruct (nth_error (objs w) i) as [g|] eqn:Hi; [|repeat split; auto].
    destruct (I1 _ _ Hi) as [OKi Ci]. pose proof (refresh_spec (heap w) g OKi Ci) as R.
    destruct (refresh (heap w) g) as [h1 g1]. destruct R as ((ext & Eh) & _).
    assert (N : i <> j) by congruence.
    destruct (Nat.leb _ _); unfold set_obj; cbn; (split; [apply keep; exact N|]); subst h1;
      (split; [apply frame_app; exact OKj|rewrite app_length; lia]).
  - destruct (nth_error (objs w) i) as [g|] eqn:Hi; [|repeat split; auto].
    destruct (I1 _ _ Hi) as [OKi Ci]. pose proof (refresh_spec (heap w) g OKi Ci) as R.
    destruct (refresh (heap w) g) as [h1 g1]. destruct R as ((ext & Eh) & _).
    assert (N : i <> j) by congruence.
    unfold set_obj; cbn; (split; [apply keep; exact N|]); subst h1;
      (split; [apply frame_app; exact OKj|rewrite app_length; lia]).
  - destruct (nth_error (objs w) i) as [g|] eqn:Hi; [|repeat split; auto].
    unfold set_obj; cbn. split; [apply keep; congruence|]. split; [apply frame_refl|lia].
  - destruct (nth_error (objs w) i) as [g|] eqn:Hi; [|repeat split; auto].
    unfold set_obj; cbn. split; [apply keep; congruence|]. split; [apply frame_refl|lia].
  - destruct (nth_error (objs w) i) as [g|] eqn:Hi; [|repeat split; auto].
    unfold set_obj; cbn. split; [apply keep; congruence|]. split; [apply frame_refl|lia].
  - destruct (nth_error (objs w) i) as [g|] eqn:Hi; [|repeat split; auto].
    unfold alloc; cbn. split; [apply snoc|]. rewrite <- app_assoc. split; [apply frame_app; exact OKj|rewrite app_length; lia].
Qed.

(* ---------- the invariant is preserved ---------- *)
Lemma inv_upd h objs0 h' i g g' :
  Inv (mkW h objs0) -> nth_error objs0 i = Some g -> length h <= length h' ->
  (forall j gj, j <> i -> nth_error objs0 j = Some gj -> frame h h' gj) ->
  ok_obj h' g' -> coherent h' g' ->
  (forall j gj, j <> i -> nth_error objs0 j = Some gj -> sep g' gj) ->
  Inv (mkW h' (upd objs0 i g')).
Proof.
  intros [I1 I2] Hi L F OK C SP. split; cbn [heap objs] in *.
  - intros j gj Hj. rewrite nth_error_upd in Hj. destruct (Nat.eqb_spec j i) as [E|E].
    + rewrite Hi in Hj. injection Hj as <-. split; assumption.
    + destruct (I1 _ _ Hj) as [a b]. split; [eapply ok_obj_mono; eassumption|eapply frame_coherent; [eapply F; eassumption|exact b]].
  - intros a b ga gb N Ha Hb. rewrite nth_error_upd in Ha, Hb.
    destruct (Nat.eqb_spec a i) as [Ea|Ea]; destruct (Nat.eqb_spec b i) as [Eb|Eb].
    + congruence.
    + rewrite Hi in Ha. injection Ha as <-. first [exact (SP _ _ Eb Hb)|exact (SP _ _ Ea Ha)|exact (SP _ _ Ha)|exact (SP _ _ Hb)].
    + rewrite Hi in Hb. injection Hb as <-. apply sep_sym. first [exact (SP _ _ Eb Hb)|exact (SP _ _ Ea Ha)|exact (SP _ _ Ha)|exact (SP _ _ Hb)].
    + exact (I2 _ _ _ _ N Ha Hb).
Qed.

Lemma inv_app h objs0 h' g' :
  Inv (mkW h objs0) -> length h <= length h' ->
  (forall j gj, nth_error objs0 j = Some gj -> frame h h' gj) ->
  ok_obj h' g' -> coherent h' g' ->
  (forall j gj, nth_error objs0 j = Some gj -> sep g' gj) ->
  Inv (mkW h' (objs0 ++ [g'])).
Proof.
  intros [I1 I2] L F OK C SP. split; cbn [heap objs] in *.
  - intros j gj Hj. rewrite nth_error_snoc in Hj. destruct (Nat.ltb j (length objs0)).
    + destruct (I1 _ _ Hj) as [a b]. split; [eapply ok_obj_mono; eassumption|eapply frame_coherent; [eapply F; eassumption|exact b]].
    + destruct (Nat.eqb j (length objs0)); [|discriminate]. injection Hj as <-. split; assumption.
  - intros a b ga gb N Ha Hb. rewrite nth_error_snoc in Ha, Hb.
    destruct (Nat.ltb_spec a (length objs0)) as [La|La]; destruct (Nat.ltb_spec b (length objs0)) as [Lb|Lb].
    + exact (I2 _ _ _ _ N Ha Hb).
    + destruct (Nat.eqb b (length objs0)); [|discriminate]. injection Hb as <-. apply sep_sym. first [exact (SP _ _ Eb Hb)|exact (SP _ _ Ea Ha)|exact (SP _ _ Ha)|exact (SP _ _ Hb)].
    + destruct (Nat.eqb a (length objs0)); [|discriminate]. injection Ha as <-. first [exact (SP _ _ Eb Hb)|exact (SP _ _ Ea Ha)|exact (SP _ _ Ha)|exact (SP _ _ Hb)].
    + destruct (Nat.eqb_spec a (length objs0)); [|discriminate]. destruct (Nat.eqb_spec b (length objs0)); [|discriminate]. congruence.
Qed.

(* a reference to a cell allocated now differs from every reference held by an existing object *)
Lemma sep_fresh h (g' gj : obj) : ok_obj h gj ->
  (length h <= cmd_p g' \/ cmd_p g' <> cmd_p gj /\ cmd_p g' <> simp_p gj) ->
  (length h <= simp_p g' \/ simp_p g' <> cmd_p gj /\ simp_p g' <> simp_p gj) -> sep g' gj.
Proof. unfold ok_obj, sep. intros (a & b & c) [X|[X1 X2]] [Y|[Y1 Y2]]; repeat split; try lia; assumption. Qed.

Lemma step_inv w o : Inv w -> Inv (step w o).
Proof.
  intros I. pose proof I as [I1 I2]. destruct w as [h objs0]. cbn [heap objs] in *.
  destruct o as [flag s|i s|i r c|i cs|i|i f|i a|i b|i]; cbn [AGraphObj.step heap objs].
  - unfold alloc; cbn. rewrite <- app_assoc.
    apply (inv_app h); try exact I.
    + rewrite app_length; lia.
    + intros j gj Hj. apply frame_app. apply (I1 _ _ Hj).
    + unfold ok_obj, notify; cbn [cmd_p simp_p]. repeat rewrite app_length; cbn [length]; lia.
    + intros M; discriminate M.
    + intros j gj Hj. apply (sep_fresh h); [apply (I1 _ _ Hj)| |]; left; cbn [cmd_p simp_p]; repeat rewrite app_length; cbn [length]; lia.
  - destruct (nth_error objs0 i) as [g|] eqn:Hi; [|exact I]. destruct (I1 _ _ Hi) as [(o1 & o2 & o3) Ci].
    unfold alloc, set_obj; cbn.
    eapply (inv_upd h); try exact I; try exact Hi.
    + rewrite app_length; lia.
    + intros j gj N Hj. apply frame_app. apply (I1 _ _ Hj).
    + unfold ok_obj, notify; cbn [cmd_p simp_p]. repeat rewrite app_length; cbn [length]; lia.
    + intros M; discriminate M.
    + intros j gj N Hj. apply (sep_fresh h); [apply (I1 _ _ Hj)|left; cbn; lia|right; cbn].
      assert (N' : i <> j) by congruence. destruct (I2 _ _ _ _ N' Hi Hj) as (_ & _ & a & b). split; assumption.
  - destruct (nth_error objs0 i) as [g|] eqn:Hi; [|exact I]. destruct (I1 _ _ Hi) as [(o1 & o2 & o3) Ci].
    unfold set_obj; cbn.
    eapply (inv_upd h); try exact I; try exact Hi.
    + rewrite upd_length; lia.
    + intros j gj N Hj. assert (N' : i <> j) by congruence. destruct (I2 _ _ _ _ N' Hi Hj) as (a & b & _).
      split; rewrite nth_upd.
      * destruct (Nat.eqb_spec (cmd_p gj) (cmd_p g)); [congruence|reflexivity].
      * destruct (Nat.eqb_spec (simp_p gj) (cmd_p g)); [congruence|reflexivity].
    + unfold ok_obj; cbn. rewrite upd_length. lia.
    + intros M; discriminate M.
    + intros j gj N Hj. assert (N' : i <> j) by congruence. exact (I2 _ _ _ _ N' Hi Hj).
  - destruct (nth_error objs0 i) as [g|] eqn:Hi; [|exact I]. destruct (I1 _ _ Hi) as [OKi Ci].
    pose proof (refresh_spec h g OKi Ci) as R. destruct (refresh h g) as [h1 g1].
    destruct R as ((ext & Eh) & Ec & OK1 & C1 & M1 & SP & Ef & _).
    assert (L : length h <= length h1) by (subst h1; rewrite app_length; lia).
    assert (FRM : forall j gj, j <> i -> nth_error objs0 j = Some gj -> frame h h1 gj).
    { intros j gj N Hj. subst h1. apply frame_app. apply (I1 _ _ Hj). }
    assert (SEP : forall j gj, j <> i -> nth_error objs0 j = Some gj -> sep g1 gj).
    { intros j gj N Hj. assert (N' : i <> j) by congruence. destruct (I2 _ _ _ _ N' Hi Hj) as (a & b & c & d).
      apply (sep_fresh h); [apply (I1 _ _ Hj)|right; rewrite Ec; split; assumption|].
      destruct SP as [SP|[SP _]]; [right; rewrite SP; split; assumption|left; lia]. }
    destruct (Nat.leb_spec (length (consts g1)) (length cs)) as [LE|LE]; unfold set_obj; cbn.
    + eapply (inv_upd h); try exact I; try exact Hi; try exact L; try exact FRM.
      * exact OK1.
      * intros M. cbn in *. destruct (C1 M1) as [a b]. split; [exact a|]. rewrite firstn_length_le by exact LE. exact b.
      * exact SEP.
    + eapply (inv_upd h); try exact I; try exact Hi; try exact L; try exact FRM; assumption.
  - destruct (nth_error objs0 i) as [g|] eqn:Hi; [|exact I]. destruct (I1 _ _ Hi) as [OKi Ci].
    pose proof (refresh_spec h g OKi Ci) as R. destruct (refresh h g) as [h1 g1].
    destruct R as ((ext & Eh) & Ec & OK1 & C1 & M1 & SP & Ef & _).
    assert (L : length h <= length h1) by (subst h1; rewrite app_length; lia).
    unfold set_obj; cbn. eapply (inv_upd h); try exact I; try exact Hi; try exact L; try assumption.
    + intros j gj N Hj. subst h1. apply frame_app. apply (I1 _ _ Hj).
    + intros j gj N Hj. assert (N' : i <> j) by congruence. destruct (I2 _ _ _ _ N' Hi Hj) as (a & b & c & d).
      apply (sep_fresh h); [apply (I1 _ _ Hj)|right; rewrite Ec; split; assumption|].
      destruct SP as [SP|[SP _]]; [right; rewrite SP; split; assumption|left; lia].
  - destruct (nth_error objs0 i) as [g|] eqn:Hi; [|exact I]. destruct (I1 _ _ Hi) as [OKi Ci].
    unfold set_obj; cbn. eapply (inv_upd h); try exact I; try exact Hi; try (intros; apply frame_refl); try lia.
    + exact OKi.
    + exact Ci.
    + intros j gj N Hj. assert (N' : i <> j) by congruence. exact (I2 _ _ _ _ N' Hi Hj).
  - destruct (nth_error objs0 i) as [g|] eqn:Hi; [|exact I]. destruct (I1 _ _ Hi) as [OKi Ci].
    unfold set_obj; cbn. eapply (inv_upd h); try exact I; try exact Hi; try (intros; apply frame_refl); try lia.
    + exact OKi.
    + exact Ci.
    + intros j gj N Hj. assert (N' : i <> j) by congruence. exact (I2 _ _ _ _ N' Hi Hj).
  - destruct (nth_error objs0 i) as [g|] eqn:Hi; [|exact I]. destruct (I1 _ _ Hi) as [OKi Ci].
    unfold set_obj; cbn. eapply (inv_upd h); try exact I; try exact Hi; try (intros; apply frame_refl); try lia.
    + exact OKi.
    + exact Ci.
    + intros j gj N Hj. assert (N' : i <> j) by congruence. exact (I2 _ _ _ _ N' Hi Hj).
  - destruct (nth_error objs0 i) as [g|] eqn:Hi; [|exact I]. destruct (I1 _ _ Hi) as [(o1 & o2 & o3) Ci].
    unfold alloc; cbn. rewrite <- app_assoc.
    apply (inv_app h); try exact I.
    + rewrite app_length; lia.
    + intros j gj Hj. apply frame_app. apply (I1 _ _ Hj).
    + unfold ok_obj, notify; cbn [cmd_p simp_p]. repeat rewrite app_length; cbn [length]; lia.
    + intros M. cbn in *. rewrite app_length; cbn [length].
      replace (length h + 1) with (Datatypes.S (length h)) by lia.
      rewrite (app_nth2 h _ _ (Nat.le_succ_diag_r _)). replace (Datatypes.S (length h) - length h) with 1 by lia. cbn [nth].
      rewrite nth_app_len. exact (Ci M).
    + intros j gj Hj. apply (sep_fresh h); [apply (I1 _ _ Hj)| |]; left; cbn [cmd_p simp_p]; repeat rewrite app_length; cbn [length]; lia.
Qed.

Lemma inv_init : Inv (mkW [] []).
Proof. split; intros i; destruct i; cbn; intros; discriminate. Qed.

Lemma fold_inv ops w : Inv w -> Inv (fold_left step ops w).
Proof. revert w; induction ops as [|o ops IH]; intros w I; cbn; [exact I|]. apply IH. apply step_inv. exact I. Qed.
Lemma run_inv ops : Inv (run ops).
Proof. apply fold_inv. exact inv_init. Qed.

(* ---------- what observers return depends on the view only ---------- *)
Definition obs_view (v : view Cst) : stack * list Cst * bool :=
  if v_mod v then
    let s' := renumber (S (v_flag v) (v_cmd v)) 0 in
    let k := n_const s' in
    if Nat.leb k (length (v_consts v)) then (s', firstn k (v_consts v), v_needs v)
    else (s', repeat one_c k, if Nat.ltb 0 k then true else v_needs v)
  else (v_simp v, v_consts v, v_needs v).

Lemma observation_of_view h g : observation_of h g = obs_view (view_of h g).
Proof.
  unfold AGraphObj.observation_of, AGraphObj.refresh, obs_view, AGraphObj.view_of; cbn [v_mod v_flag v_cmd v_consts v_needs v_simp].
  destruct (modified g); [|reflexivity].
  unfold AGraphObj.update, alloc. destruct (Nat.leb _ _); cbn [simp_p consts needs_opt]; rewrite nth_app_len; reflexivity.
Qed.
Lemma observation_view w i : observation w i = option_map obs_view (view_at w i).
Proof. unfold AGraphObj.observation, AGraphObj.view_at. destruct (nth_error (objs w) i); cbn; [rewrite observation_of_view|]; reflexivity. Qed.

(* ---------- clause 1: every observation is the one a fresh equation would give ---------- *)
Lemma observation_is_fresh h g : coherent h g ->
  observation_of h g = fresh_observation Cst one_c S (use_simp g) (nth (cmd_p g) h []) (consts g) (needs_opt g).
Proof.
  intros C. unfold fresh_observation. rewrite !observation_of_view.
  unfold obs_view, AGraphObj.view_of; cbn [v_mod v_flag v_cmd v_consts v_needs v_simp cmd_p simp_p consts needs_opt modified use_simp nth].
  destruct (modified g) eqn:M; [reflexivity|].
  destruct (C M) as [E L]. cbv zeta. rewrite <- E, <- L, Nat.leb_refl, firstn_all. reflexivity.
Qed.

Theorem reachable_observation_is_fresh ops i g :
  nth_error (objs (run ops)) i = Some g ->
  observation (run ops) i =
  Some (fresh_observation Cst one_c S (use_simp g) (nth (cmd_p g) (heap (run ops)) []) (consts g) (needs_opt g)).
Proof.
  intros H. unfold AGraphObj.observation. rewrite H. cbn. f_equal. apply observation_is_fresh.
  destruct (run_inv ops) as [I1 _]. apply (I1 _ _ H).
Qed.

Theorem reachable_cache_coherent ops i g :
  nth_error (objs (run ops)) i = Some g -> modified g = false ->
  nth (simp_p g) (heap (run ops)) [] = renumber (S (use_simp g) (nth (cmd_p g) (heap (run ops)) [])) 0 /\
  length (consts g) = n_const (nth (simp_p g) (heap (run ops)) []).
Proof. intros H M. destruct (run_inv ops) as [I1 _]. destruct (I1 _ _ H) as [_ C]. exact (C M). Qed.

(* ---------- every write raises the flag, clears the fitness and installs the written stack ---------- *)
Theorem set_array_effect w i g s : Inv w -> nth_error (objs w) i = Some g ->
  view_at (step w (SetArray i s)) i =
  Some (mkV s (nth (simp_p g) (heap w) []) (consts g) (needs_opt g) true (use_simp g) None false (age g)).
Proof.
  intros [I1 _] H. destruct (I1 _ _ H) as [(o1 & o2 & o3) _].
  unfold AGraphObj.view_at, AGraphObj.step. rewrite H. unfold alloc, set_obj; cbn [objs heap].
  rewrite nth_error_upd, Nat.eqb_refl, H. cbn. unfold AGraphObj.view_of; cbn.
  rewrite nth_app_len, nth_app_lt by exact o2. reflexivity.
Qed.
Theorem write_row_effect w i g r c : Inv w -> nth_error (objs w) i = Some g ->
  view_at (step w (WriteRow i r c)) i =
  Some (mkV (upd (nth (cmd_p g) (heap w) []) r c) (nth (simp_p g) (heap w) []) (consts g) (needs_opt g) true (use_simp g) None false (age g)).
Proof.
  intros [I1 _] H. destruct (I1 _ _ H) as [(o1 & o2 & o3) _].
  unfold AGraphObj.view_at, AGraphObj.step. rewrite H. unfold set_obj; cbn [objs heap].
  rewrite nth_error_upd, Nat.eqb_refl, H. cbn. unfold AGraphObj.view_of; cbn.
  rewrite !nth_upd, Nat.eqb_refl. destruct (Nat.ltb_spec (cmd_p g) (length (heap w))); [|lia].
  destruct (Nat.eqb_spec (simp_p g) (cmd_p g)); [congruence|reflexivity].
Qed.

(* ---------- clause 2: independence ---------- *)
Lemma step_view_other w o j : Inv w -> j < length (objs w) -> target o <> Some j -> view_at (step w o) j = view_at w j.
Proof.
  intros I L T. destruct (nth_error (objs w) j) as [gj|] eqn:Hj; [|apply nth_error_None in Hj; lia].
  destruct (step_frame _ _ _ _ I Hj T) as (H1 & F & _).
  unfold AGraphObj.view_at. rewrite H1, Hj. cbn. f_equal. apply frame_view; exact F.
Qed.
Lemma step_objs_length w o : length (objs w) <= length (objs (step w o)).
Proof.
  destruct o; cbn [AGraphObj.step]; unfold alloc, set_obj;
    try (destruct (nth_error (objs w) i); [|lia]);
    try (destruct (refresh (heap w) o) as [h1 g1]); try destruct (Nat.leb _ _); cbn [objs];
    rewrite ?upd_length, ?app_length; cbn [length]; lia.
Qed.
Lemma fold_objs_length ws : forall w, length (objs w) <= length (objs (fold_left step ws w)).
Proof. induction ws as [|o ws IH]; intros w; cbn [fold_left]; [lia|]. pose proof (step_objs_length w o). specialize (IH (step w o)). lia. Qed.
Theorem others_untouched ops : forall w j, Inv w -> j < length (objs w) ->
  Forall (fun o => target o <> Some j) ops -> view_at (fold_left step ops w) j = view_at w j.
Proof.
  induction ops as [|o ops IH]; intros w j I L F; cbn [fold_left]; [reflexivity|].
  inversion F as [|? ? T F']; subst.
  rewrite IH; [apply step_view_other; assumption|apply step_inv; exact I| |exact F'].
  pose proof (step_objs_length w o). lia.
Qed.

(* a copy has the same stack, cache, constants, flags, fitness, evaluated flag and age as its source *)
Theorem copy_same w i g : Inv w -> nth_error (objs w) i = Some g ->
  view_at (step w (Copy i)) (length (objs w)) = Some (view_of (heap w) g) /\
  view_at (step w (Copy i)) i = view_at w i.
Proof.
  intros I H. pose proof I as [I1 _]. destruct (I1 _ _ H) as [(o1 & o2 & o3) _]. split.
  - unfold AGraphObj.view_at, AGraphObj.step. rewrite H. unfold alloc; cbn [objs heap].
    rewrite nth_error_snoc, Nat.ltb_irrefl, Nat.eqb_refl. cbn. unfold AGraphObj.view_of; cbn. f_equal.
    rewrite app_nth1 by (rewrite app_length; cbn; lia).
    rewrite nth_app_len, (nth_app_len (heap w ++ [nth (cmd_p g) (heap w) []])). reflexivity.
  - apply step_view_other; [exact I| |discriminate]. apply nth_error_Some; congruence.
Qed.

(* ---------- the protocol of the variation operators (property C04): copy the parent, then touch only the copy ---------- *)
Theorem set_age_effect w i g a : Inv w -> nth_error (objs w) i = Some g ->
  view_at (step w (SetAge i a)) i =
  Some (mkV (nth (cmd_p g) (heap w) []) (nth (simp_p g) (heap w) []) (consts g) (needs_opt g) (modified g) (use_simp g)
            (fitness g) (fit_set g) a).
Proof.
  intros _ H. unfold AGraphObj.view_at, AGraphObj.step. rewrite H. unfold set_obj; cbn [objs heap].
  rewrite nth_error_upd, Nat.eqb_refl, H. reflexivity.
Qed.

Definition is_write_to (ch : nat) (o : op) : Prop := exists r x, o = WriteRow ch r x.
(* after a copy and ANY number of row writes through the copy's mutable view: age kept; flag and fitness cleared iff something was written *)
Lemma writes_to_child ch : forall (writes : list op) w v, Inv w -> view_at w ch = Some v -> Forall (is_write_to ch) writes ->
  exists v', view_at (fold_left step writes w) ch = Some v' /\ v_age v' = v_age v /\ v_flag v' = v_flag v /\
             length (v_cmd v') = length (v_cmd v) /\
             (writes = [] -> v' = v) /\ (writes <> [] -> v_fset v' = false /\ v_fit v' = None /\ v_mod v' = true).
Proof.
  induction writes as [|o writes IH]; intros w v I V F; cbn [fold_left].
  - exists v. split; [exact V|]. split; [reflexivity|]. split; [reflexivity|]. split; [reflexivity|]. split; [reflexivity|]. intros N; exfalso; apply N; reflexivity.
  - inversion F as [|? ? (r & x & ->) F']; subst.
    unfold AGraphObj.view_at in V. destruct (nth_error (objs w) ch) as [g|] eqn:Hg; [|discriminate V]. cbn in V. injection V as <-.
    pose proof (write_row_effect w ch g r x I Hg) as E.
    destruct (IH _ _ (step_inv _ _ I) E F') as (v' & V' & A & Fl & Ln & _ & Wr).
    exists v'. split; [exact V'|]. cbn [v_age v_flag v_cmd AGraphObj.view_of] in *. rewrite upd_length in Ln.
    split; [exact A|]. split; [exact Fl|]. split; [exact Ln|]. split; [intros N; discriminate N|]. intros _.
    destruct writes as [|o2 writes2].
    + cbn [fold_left] in V'. rewrite E in V'. injection V' as <-. cbn. auto.
    + apply Wr. discriminate.
Qed.

Theorem mutation_protocol ops i g (writes : list op) :
  let w := run ops in
  nth_error (objs w) i = Some g ->
  let ch := length (objs w) in
  Forall (is_write_to ch) writes ->
  let w' := fold_left step writes (step w (Copy i)) in
  view_at w' i = view_at w i /\
  exists v', view_at w' ch = Some v' /\ v_age v' = age g /\
             (writes = [] -> v' = view_of (heap w) g) /\
             (writes <> [] -> v_fset v' = false /\ v_fit v' = None /\ v_mod v' = true).
Proof.
  intros w H ch F w'. pose proof (run_inv ops) as I. fold w in I.
  destruct (copy_same w i g I H) as [C1 C2].
  assert (Li : i < length (objs w)) by (apply nth_error_Some; congruence).
  split.
  - unfold w'. rewrite others_untouched; [exact C2|apply step_inv; exact I| |].
    + pose proof (step_objs_length w (Copy i)). lia.
    + eapply Forall_impl; [|exact F]. intros o (r & x & ->). cbn. intros E. injection E as E. fold ch in E. lia.
  - destruct (writes_to_child ch writes _ _ (step_inv _ _ I) C1 F) as (v' & V & A & _ & _ & N & W).
    exists v'. split; [exact V|]. split; [exact A|]. split; [exact N|exact W].
Qed.

Theorem crossover_protocol ops i j gi gj (writes : list op) a :
  let w := run ops in
  nth_error (objs w) i = Some gi -> nth_error (objs w) j = Some gj ->
  let c1 := length (objs w) in let c2 := Datatypes.S (length (objs w)) in
  Forall (fun o => is_write_to c1 o \/ is_write_to c2 o) writes ->
  let w' := fold_left step (writes ++ [SetAge c1 a; SetAge c2 a]) (step (step w (Copy i)) (Copy j)) in
  view_at w' i = view_at w i /\ view_at w' j = view_at w j /\
  option_map v_age (view_at w' c1) = Some a /\ option_map v_age (view_at w' c2) = Some a.
Proof.
  intros w Hi Hj c1 c2 F w'. pose proof (run_inv ops) as I. fold w in I.
  set (w1 := step w (Copy i)). set (w2 := step w1 (Copy j)).
  assert (I1 : Inv w1) by (apply step_inv; exact I). assert (I2 : Inv w2) by (apply step_inv; exact I1).
  assert (Li : i < length (objs w)) by (apply nth_error_Some; congruence).
  assert (Lj : j < length (objs w)) by (apply nth_error_Some; congruence).
  assert (L1 : length (objs w1) = Datatypes.S (length (objs w))).
  { unfold w1, AGraphObj.step. rewrite Hi. unfold alloc; cbn [objs]. rewrite app_length; cbn [length]; lia. }
  assert (Hj1 : exists gj1, nth_error (objs w1) j = Some gj1).
  { destruct (nth_error (objs w1) j) eqn:E; [eauto|]. apply nth_error_None in E. lia. }
  destruct Hj1 as (gj1 & Hj1).
  assert (L2 : length (objs w2) = Datatypes.S (Datatypes.S (length (objs w)))).
  { unfold w2, AGraphObj.step. rewrite Hj1. unfold alloc; cbn [objs]. rewrite app_length; cbn [length]; lia. }
  assert (Tg : Forall (fun o => target o <> Some i /\ target o <> Some j) (writes ++ [SetAge c1 a; SetAge c2 a])).
  { apply Forall_app. split.
    - eapply Forall_impl; [|exact F]. intros o [(r & x & ->)|(r & x & ->)]; cbn; split; intros E; injection E as E; unfold c1, c2 in E; lia.
    - repeat constructor; cbn; intros E; injection E as E; unfold c1, c2 in E; lia. }
  assert (Keep : forall k, k < length (objs w) -> view_at w2 k = view_at w k).
  { intros k Lk. unfold w2. rewrite step_view_other; [|exact I1|lia|discriminate].
    unfold w1. apply step_view_other; [exact I|exact Lk|discriminate]. }
  split; [|split].
  - unfold w'. fold w1 w2. rewrite others_untouched; [apply Keep; exact Li|exact I2|lia|].
    eapply Forall_impl; [|exact Tg]. intros o [A _]; exact A.
  - unfold w'. fold w1 w2. rewrite others_untouched; [apply Keep; exact Lj|exact I2|lia|].
    eapply Forall_impl; [|exact Tg]. intros o [_ B]; exact B.
  - unfold w'. fold w1 w2. rewrite fold_left_app. set (w3 := fold_left step writes w2).
    assert (I3 : Inv w3) by (apply fold_inv; exact I2).
    assert (L3 : Datatypes.S (Datatypes.S (length (objs w))) <= length (objs w3)).
    { unfold w3. pose proof (fold_objs_length writes w2). lia. }
    cbn [fold_left].
    assert (E1 : exists g1, nth_error (objs w3) c1 = Some g1).
    { destruct (nth_error (objs w3) c1) eqn:E; [eauto|]. apply nth_error_None in E. unfold c1 in E. lia. }
    destruct E1 as (g1 & E1). pose proof (set_age_effect w3 c1 g1 a I3 E1) as A1.
    set (w4 := step w3 (SetAge c1 a)) in *. assert (I4 : Inv w4) by (apply step_inv; exact I3).
    assert (E2 : exists g2, nth_error (objs w4) c2 = Some g2).
    { destruct (nth_error (objs w4) c2) eqn:E; [eauto|]. apply nth_error_None in E. pose proof (step_objs_length w3 (SetAge c1 a)). fold w4 in H. unfold c2 in E. lia. }
    destruct E2 as (g2 & E2). pose proof (set_age_effect w4 c2 g2 a I4 E2) as A2.
    split.
    + rewrite step_view_other; [rewrite A1; reflexivity|exact I4| |cbn; intros E; injection E as E; unfold c1, c2 in E; lia].
      pose proof (step_objs_length w3 (SetAge c1 a)). fold w4 in H. unfold c1. lia.
    + rewrite A2. reflexivity.
Qed.
End P.

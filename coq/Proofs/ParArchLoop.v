(* Property C12, fair termination, FIRST phase: rank 0 leaves its loop.
   (1) Under EVERY interleaving rank 0 goes round its loop at most defic(s) times: the reported ages only grow (messages of one
       source are delivered in order and carry non-decreasing ages - invariant Mono), and every evolve slice of rank 0 raises the
       reported sum by at least the sync frequency.  So the only way for the loop phase not to end is a drain that never finds
       the mailbox empty - exactly the situation the property's pacing premise excludes.
   (2) Paced rounds: every rank gets a turn, the helpers fewer than n turns altogether, and rank 0 at least twice as many turns
       as the helpers plus one ("helpers do not produce age updates faster than rank 0 can receive them").  Under paced rounds the
       potential Lam = 2 defic + 2 |mailbox| + flag falls by one per round while rank 0 is in its loop; afterwards
       ParArchFair.v's potential Phi takes over.  Omega combines the two: Omega(s) paced rounds complete the call on every rank. *)
From Coq Require Import ZArith List Bool Lia Arith Permutation.
From Bingo Require Import Model.ParArch Proofs.ParArchProofs Proofs.ParArchLive Proofs.ParArchFair.
Import ListNotations.
Local Open Scope nat_scope.

(* ---------- reported ages only grow ---------- *)
Definition lowb (t : list (option Z)) (k : nat) : Z := match nth k t None with Some v => v | None => 0%Z end.
Definition bump (lb : nat -> Z) (src : nat) (v : Z) : nat -> Z := fun k => if Nat.eqb k src then v else lb k.
Fixpoint mono (lb : nat -> Z) (m : list (nat * Z)) : Prop :=
  match m with [] => True | (src, v) :: r => (lb src <= v)%Z /\ mono (bump lb src v) r end.

Lemma mono_ext : forall m lb lb', (forall k v, In (k, v) m -> lb k = lb' k) -> mono lb m -> mono lb' m.
Proof.
  induction m as [|[s0 v0] m IH]; intros lb lb' E H; [exact I|]. cbn [mono] in *. destruct H as [H1 H2]. split.
  - rewrite <- (E s0 v0 (or_introl eq_refl)). exact H1.
  - apply (IH (bump lb s0 v0)); [|exact H2]. intros k v Hk. unfold bump. destruct (Nat.eqb k s0); [reflexivity|]. apply (E k v). right. exact Hk.
Qed.
Lemma mono_app : forall m lb r a, mono lb m -> (lb r <= a)%Z -> (forall v, In (r, v) m -> (v <= a)%Z) -> mono lb (m ++ [(r, a)]).
Proof.
  induction m as [|[s0 v0] m IH]; intros lb r a H L B; cbn [app mono] in *.
  - split; [exact L|exact I].
  - destruct H as [H1 H2]. split; [exact H1|]. apply IH; [exact H2| |intros v Hv; apply B; right; exact Hv].
    unfold bump. destruct (Nat.eqb_spec r s0) as [->|N]; [apply B; left; reflexivity|exact L].
Qed.
Lemma mono_take src : forall m lb v m', take_from src m = Some (v, m') -> mono lb m -> (lb src <= v)%Z /\ mono (bump lb src v) m'.
Proof.
  induction m as [|[s0 v0] m IH]; intros lb v m' H Hm; [discriminate H|]. cbn [take_from] in H. cbn [mono] in Hm. destruct Hm as [H1 H2].
  destruct (Nat.eqb_spec s0 src) as [->|N].
  - injection H as <- <-. split; [exact H1|exact H2].
  - destruct (take_from src m) as [[v1 m1]|] eqn:E; [|discriminate H]. injection H as <- <-.
    destruct (IH (bump lb s0 v0) v1 m1 eq_refl H2) as [K1 K2]. split.
    + unfold bump in K1. destruct (Nat.eqb_spec src s0) as [->|_]; [congruence|exact K1].
    + cbn [mono]. split.
      * unfold bump. destruct (Nat.eqb_spec s0 src) as [->|_]; [congruence|exact H1].
      * apply (mono_ext m1 (bump (bump lb s0 v0) src v1)); [|exact K2]. intros k w _. unfold bump.
        destruct (Nat.eqb k src) eqn:E1, (Nat.eqb k s0) eqn:E2; try reflexivity.
        apply Nat.eqb_eq in E1, E2. congruence.
Qed.

Lemma sum_total_upd_gen : forall (t : list (option Z)) k v, k < length t ->
  sum_total (upd t k (Some v)) = (sum_total t - lowb t k + v)%Z.
Proof.
  induction t as [|o t IH]; intros [|k] v H; cbn [length] in H; try lia.
  - unfold sum_total, lowb. cbn. destruct o; lia.
  - specialize (IH k v ltac:(lia)). unfold sum_total, lowb in *. cbn. destruct o; lia.
Qed.
Lemma lowb_upd (t : list (option Z)) src v k : src < length t -> lowb (upd t src (Some v)) k = bump (lowb t) src v k.
Proof.
  intros H. unfold lowb, bump. destruct (Nat.eqb_spec k src) as [->|N].
  - rewrite nth_upd_eq by exact H. reflexivity.
  - rewrite nth_upd_ne by congruence. reflexivity.
Qed.

Section Loop.
Variable n : nat.
Variable sync target : Z.
Hypothesis n_pos : 1 <= n.
Hypothesis sync_pos : (1 <= sync)%Z.
Notation step := (step n sync target).
Notation run := (run n sync target).
Notation Inv := (Inv n target).
Notation Inv2 := (Inv2 n target).
Notation good := (good n target).
Notation defic := (defic n target).
Notation Phi := (Phi n).
Let sync_nonneg : (0 <= sync)%Z. Proof. lia. Qed.

Definition Mono (s : state) : Prop := mono (lowb (total s)) (mbox s).
(* a state in which rank 0 is still in its loop *)
Definition IL (s : state) : Prop := Inv2 s /\ Mono s /\ post_loop (pc_of s 0) = false.
Definition Lam (s : state) : nat := 2 * defic s + 2 * length (mbox s) + flag (pc_of s 0).
Definition count0 (l : list nat) : nat := length (filter (fun r => Nat.eqb r 0) l).

(* ---------- a helper's step ---------- *)
Lemma helper_step_mbox s r s' : Inv s -> 1 <= r < n -> step s r = Some s' ->
  mbox s' = mbox s \/ mbox s' = mbox s ++ [(r, age_of s r)].
Proof.
  intros HI Hr H. pose proof (i_pch _ _ _ HI r Hr) as Ph. unfold ParArch.step in H. fold (pc_of s r) in H.
  assert (R0 : Nat.eqb r 0 = false) by (apply Nat.eqb_neq; lia).
  destruct (pc_of s r) eqn:Ep; try (destruct Ph; fail); try discriminate H.
  - rewrite R0 in H. injection H as <-. left. reflexivity.
  - injection H as <-. right. reflexivity.
  - injection H as <-. left. reflexivity.
  - destruct (nth r (exitf s) false); [|discriminate H]. injection H as <-. left. reflexivity.
  - injection H as <-. left. reflexivity.
  - destruct (all_arrived s); [|discriminate H]. rewrite R0 in H. injection H as <-. left. reflexivity.
Qed.

Lemma stepH_loop s r s' : IL s -> 1 <= r < n -> step s r = Some s' ->
  IL s' /\ Lam s' <= Lam s + 2 /\ defic s' = defic s.
Proof.
  intros (I2 & Mo & PL) Hr H. pose proof I2 as [HI _].
  destruct (helper_step_keeps n sync target n_pos s r s' HI Hr H) as [K1 K2].
  pose proof (step_inv2 n sync target n_pos sync_pos s r s' I2 ltac:(lia) H) as I2'.
  assert (D : defic s' = defic s) by (unfold ParArchLive.defic; rewrite K2; reflexivity).
  destruct (helper_step_mbox s r s' HI Hr H) as [Em|Em].
  - split; [split; [exact I2'|split; [unfold Mono; rewrite K2, Em; exact Mo|rewrite K1; exact PL]]|].
    split; [unfold Lam; rewrite D, Em, K1; lia|exact D].
  - split; [split; [exact I2'|split; [|rewrite K1; exact PL]]|].
    + unfold Mono. rewrite K2, Em. apply mono_app; [exact Mo| |].
      * unfold lowb. destruct (nth r (total s) None) as [v|] eqn:Et; [apply (i_total _ _ _ HI r v ltac:(lia) Et)|apply (i_nonneg _ _ _ HI r ltac:(lia))].
      * intros v Hv. pose proof (i_mbox _ _ _ HI) as Mb. rewrite Forall_forall in Mb. apply (Mb (r, v) Hv).
    + split; [unfold Lam; rewrite D, Em, K1, app_length; cbn [length]; lia|exact D].
Qed.
(* ---------- rank 0's step while it is in its loop ---------- *)
Lemma step0_enabled s : IL s -> step s 0 <> None.
Proof.
  intros ([HI _] & _ & PL). unfold ParArch.step. fold (pc_of s 0).
  remember (pc_of s 0) as p0 eqn:Ep. destruct p0 as [|f|f src|k| | | | | |]; try discriminate PL.
  - cbn [Nat.eqb]. discriminate.
  - destruct (mbox s) as [|[src v] m]; [destruct f|]; discriminate.
  - destruct (i_recv _ _ _ HI f src (eq_sym Ep)) as (v & m' & E). rewrite E. discriminate.
Qed.

Lemma step0_loop s s' : IL s -> step s 0 = Some s' ->
  (good s' /\ length (mbox s') <= length (mbox s)) \/
  (IL s' /\ Lam s' + 1 <= Lam s /\ defic s' + (match pc_of s 0 with Evolve => 1 | _ => 0 end) <= defic s).
Proof.
  intros (I2 & Mo & PL) H. pose proof I2 as [HI HE].
  pose proof (step_inv2 n sync target n_pos sync_pos s 0 s' I2 ltac:(lia) H) as I2'.
  destruct (i_len _ _ _ HI) as (L1 & L2 & L3 & _). assert (L1' : 1 <= length (pcs s)) by lia.
  pose proof (i_mbox _ _ _ HI) as Mb. rewrite Forall_forall in Mb.
  unfold ParArch.step in H. fold (pc_of s 0) in H.
  remember (pc_of s 0) as p0 eqn:Ep. destruct p0 as [|f|f src|k| | | | | |]; try discriminate PL.
  - (* Evolve: the reported sum rises by at least sync *)
    cbn [Nat.eqb] in H. injection H as <-. right. split.
    + split; [exact I2'|]. split.
      * unfold Mono. cbn [total mbox]. apply (mono_ext _ (lowb (total s))); [|exact Mo]. intros k v Hk.
        destruct (Mb _ Hk) as [Hk1 _]. cbn [fst] in Hk1. unfold lowb. rewrite nth_upd_ne by lia. reflexivity.
      * rewrite (pc0_upd n n_pos) by exact L1'. reflexivity.
    + unfold Lam. rewrite (pc0_upd n n_pos) by exact L1'. cbn [mbox flag]. specialize (HE eq_refl).
      unfold ParArchLive.defic. cbn [total].
      assert (S1 : (sum_total (total s) + sync <= sum_total (upd (total s) 0 (Some (nth 0 (age s) 0 + sync))))%Z).
      { apply (sum_total_upd0 n sync n_pos (total s) _ (nth 0 (age s) 0%Z)); [lia| | |reflexivity].
        - intros w Hw. apply (i_total _ _ _ HI 0 w ltac:(lia) Hw).
        - apply (i_nonneg _ _ _ HI 0 ltac:(lia)). }
      lia.
  - (* Probe false *)
    destruct f; [discriminate PL|]. destruct (mbox s) as [|[src v] m] eqn:Em.
    + injection H as <-. unfold set_pc. destruct (below_target n target (total s)) eqn:B.
      * right. split.
        -- split; [exact I2'|]. split; [unfold Mono; cbn [total mbox]; rewrite Em; exact I|rewrite (pc0_upd n n_pos) by exact L1'; reflexivity].
        -- unfold Lam, ParArchLive.defic. rewrite <- Ep. rewrite (pc0_upd n n_pos) by exact L1'. cbn [mbox total flag]. rewrite Em. cbn [length]. lia.
      * left. split; [|cbn [mbox]; rewrite Em; cbn; lia]. split; [exact (proj1 I2')|]. rewrite (pc0_upd n n_pos) by exact L1'.
        unfold after_loop. destruct (Nat.ltb 1 n); reflexivity.
    + injection H as <-. unfold set_pc. right. split.
      * split; [exact I2'|]. split; [unfold Mono in *; cbn [total mbox]; rewrite Em in *; exact Mo|rewrite (pc0_upd n n_pos) by exact L1'; reflexivity].
      * unfold Lam, ParArchLive.defic. rewrite <- Ep. rewrite (pc0_upd n n_pos) by exact L1'. cbn [mbox total flag]. rewrite Em. cbn [length]. lia.
  - (* Recv false: a reported age replaces an older one *)
    destruct f; [discriminate PL|]. destruct (take_from src (mbox s)) as [[v m']|] eqn:Et; [|discriminate H]. injection H as <-.
    destruct (take_from_In src _ _ _ Et) as [Hin _]. destruct (Mb _ Hin) as [Hs1 _]. cbn [fst] in Hs1.
    destruct (mono_take src _ _ _ _ Et Mo) as [Lo Mo']. right. split.
    + split; [exact I2'|]. split; [|rewrite (pc0_upd n n_pos) by exact L1'; reflexivity].
      unfold Mono. cbn [total mbox]. apply (mono_ext _ (bump (lowb (total s)) src v)); [|exact Mo'].
      intros k w _. symmetry. apply lowb_upd. lia.
    + unfold Lam, ParArchLive.defic. rewrite <- Ep. rewrite (pc0_upd n n_pos) by exact L1'. cbn [mbox total flag].
      rewrite (take_from_length _ _ _ _ Et). rewrite sum_total_upd_gen by lia. lia.
Qed.

(* ---------- any list of ranks, while rank 0 is in its loop ---------- *)
Lemma step_mbox_len s r s' : Inv s -> r < n -> step s r = Some s' -> length (mbox s') <= length (mbox s) + (if Nat.eqb r 0 then 0 else 1).
Proof.
  intros HI Hr H. destruct r as [|r].
  - cbn [Nat.eqb]. pose proof (i_pc0 _ _ _ HI) as P0. unfold ParArch.step in H. fold (pc_of s 0) in H.
    remember (pc_of s 0) as p0 eqn:Ep. destruct p0 as [|f|f src|k| | | | | |]; try (destruct P0; fail); try discriminate H.
    + cbn [Nat.eqb] in H. injection H as <-. cbn. lia.
    + destruct (mbox s) as [|[src v] m] eqn:Em; [destruct f|]; injection H as <-; unfold set_pc; cbn [mbox]; rewrite Em; lia.
    + destruct (take_from src (mbox s)) as [[v m']|] eqn:Et; [|discriminate H]. injection H as <-. cbn [mbox].
      rewrite (take_from_length _ _ _ _ Et). lia.
    + injection H as <-. cbn. lia.
    + injection H as <-. cbn. lia.
    + destruct (all_arrived s); [|discriminate H]. cbn [Nat.eqb] in H. injection H as <-. cbn. lia.
  - cbn [Nat.eqb]. destruct (helper_step_mbox s (S r) s' HI ltac:(lia) H) as [E|E]; rewrite E; [lia|]. rewrite app_length. cbn. lia.
Qed.
Lemma run_mbox_len l : forall s, Inv s -> Forall (fun r => r < n) l -> length (mbox (run l s)) <= length (mbox s) + helpers l.
Proof.
  induction l as [|r l IH]; intros s HI F; [cbn; lia|]. inversion F as [|? ? Hr Fl]; subst. cbn [run]. unfold helpers. cbn [filter]. fold (helpers l).
  destruct (step s r) as [s1|] eqn:E.
  - pose proof (step_mbox_len s r s1 HI Hr E) as B. specialize (IH s1 (step_inv n sync target n_pos sync_nonneg s r s1 HI E) Fl).
    destruct (Nat.eqb r 0); cbn [negb length]; fold (helpers l); lia.
  - specialize (IH s HI Fl). destruct (Nat.eqb r 0); cbn [negb length]; fold (helpers l); lia.
Qed.

Lemma helpers_0 l : helpers (0 :: l) = helpers l. Proof. reflexivity. Qed.
Lemma helpers_S r l : helpers (S r :: l) = S (helpers l). Proof. reflexivity. Qed.
Lemma count0_0 l : count0 (0 :: l) = S (count0 l). Proof. reflexivity. Qed.
Lemma count0_S r l : count0 (S r :: l) = count0 l. Proof. reflexivity. Qed.

Lemma run_loop l : forall s, IL s -> Forall (fun r => r < n) l ->
  (good (run l s) /\ length (mbox (run l s)) <= length (mbox s) + helpers l) \/
  (IL (run l s) /\ Lam (run l s) + count0 l <= Lam s + 2 * helpers l).
Proof.
  induction l as [|r l IH]; intros s HL F; [right; split; [exact HL|cbn; lia]|]. inversion F as [|? ? Hr Fl]; subst. cbn [run].
  destruct r as [|r].
  - rewrite helpers_0, count0_0. pose proof (step0_enabled s HL) as En. destruct (step s 0) as [s1|] eqn:E; [|congruence].
    destruct (step0_loop s s1 HL E) as [[G B]|[HL1 D]].
    + left. destruct (run_bound n sync target n_pos sync_nonneg l s1 G Fl) as (G' & _ & _). split; [exact G'|].
      pose proof (run_mbox_len l s1 (proj1 G) Fl). lia.
    + destruct (IH s1 HL1 Fl) as [[G B]|[HL2 D2]]; [left; split; [exact G|]|right; split; [exact HL2|lia]].
      assert (length (mbox s1) <= length (mbox s)) by (unfold Lam in D; pose proof (step_mbox_len s 0 s1 (proj1 (proj1 HL)) Hr E) as B1; cbn [Nat.eqb] in B1; lia).
      lia.
  - rewrite helpers_S, count0_S. destruct (step s (S r)) as [s1|] eqn:E.
    + destruct (stepH_loop s (S r) s1 HL ltac:(lia) E) as (HL1 & D & _).
      pose proof (step_mbox_len s (S r) s1 (proj1 (proj1 HL)) Hr E) as B1. cbn [Nat.eqb] in B1.
      destruct (IH s1 HL1 Fl) as [[G B]|[HL2 D2]]; [left; split; [exact G|lia]|right; split; [exact HL2|lia]].
    + destruct (IH s HL Fl) as [[G B]|[HL2 D2]]; [left; split; [exact G|lia]|right; split; [exact HL2|lia]].
Qed.
(* ---------- (1) every interleaving: rank 0 goes round its loop at most defic(s) times ---------- *)
Lemma step_some_lt s r s' : Inv s -> step s r = Some s' -> r < n.
Proof.
  intros HI H. destruct (Nat.lt_ge_cases r n) as [Hr|Hr]; [exact Hr|]. exfalso. destruct (i_len _ _ _ HI) as (L1 & _).
  unfold ParArch.step in H. rewrite (nth_overflow (pcs s)) in H by lia. discriminate H.
Qed.
Definition IG (s : state) : Prop := IL s \/ good s.
Lemma step_IG s r s' : IG s -> step s r = Some s' -> IG s'.
Proof.
  intros [HL|G] H.
  - pose proof (step_some_lt s r s' (proj1 (proj1 HL)) H) as Hr. destruct r as [|r].
    + destruct (step0_loop s s' HL H) as [[G _]|[HL' _]]; [right; exact G|left; exact HL'].
    + left. apply (stepH_loop s (S r) s' HL ltac:(lia) H).
  - right. apply (step_good n sync target n_pos sync_nonneg s r s' G (step_some_lt s r s' (proj1 G) H) H).
Qed.
Lemma run_IG l : forall s, IG s -> IG (run l s).
Proof. induction l as [|r l IH]; intros s H; cbn [run]; [exact H|]. destruct (step s r) as [s1|] eqn:E; [apply IH; eapply step_IG; eassumption|apply IH; exact H]. Qed.

(* the number of evolve slices rank 0 performs along a schedule *)
Fixpoint evolves0 (l : list nat) (s : state) : nat :=
  match l with
  | [] => 0
  | r :: q => match step s r with
              | Some s' => (if Nat.eqb r 0 then match pc_of s 0 with Evolve => 1 | _ => 0 end else 0) + evolves0 q s'
              | None => evolves0 q s
              end
  end.
Lemma evolves0_good l : forall s, good s -> evolves0 l s = 0.
Proof.
  induction l as [|r l IH]; intros s G; [reflexivity|]. cbn [evolves0]. destruct (step s r) as [s1|] eqn:E; [|apply IH; exact G].
  rewrite (IH s1) by (apply (step_good n sync target n_pos sync_nonneg s r s1 G (step_some_lt s r s1 (proj1 G) E) E)).
  destruct (Nat.eqb r 0); [|reflexivity]. destruct G as [_ PL]. destruct (pc_of s 0); try reflexivity. discriminate PL.
Qed.
Theorem loop_iterations_bounded l : forall s, IL s -> evolves0 l s <= defic s.
Proof.
  induction l as [|r l IH]; intros s HL; [cbn; lia|]. cbn [evolves0]. destruct (step s r) as [s1|] eqn:E; [|apply IH; exact HL].
  pose proof (step_some_lt s r s1 (proj1 (proj1 HL)) E) as Hr. destruct r as [|r].
  - cbn [Nat.eqb]. destruct (step0_loop s s1 HL E) as [[G _]|(HL1 & _ & D)].
    + rewrite (evolves0_good l s1 G). destruct HL as ([HI HE] & _ & _). destruct (pc_of s 0) eqn:Ep; try lia.
      specialize (HE eq_refl). unfold ParArchLive.defic. lia.
    + specialize (IH s1 HL1). lia.
  - cbn [Nat.eqb]. destruct (stepH_loop s (S r) s1 HL ltac:(lia) E) as (HL1 & _ & D). specialize (IH s1 HL1). lia.
Qed.

(* ---------- (2) paced rounds ---------- *)
Lemma hd_le s : hd s <= 6 * length (pcs s).
Proof.
  unfold hd. destruct (pcs s) as [|p l]; [cbn; lia|]. cbn [tl length]. assert (H : list_sum (map hdist l) <= 6 * length l).
  { unfold list_sum. induction l as [|x l IH]; [cbn; lia|]. cbn [map fold_right length]. assert (hdist x <= 6) by (destruct x; cbn; lia). lia. }
  lia.
Qed.
Lemma Phi_bound s : good s -> Phi s <= A n * (n + 5) + 18 * n + 2 * length (mbox s) + 1.
Proof.
  intros [HI PL]. unfold ParArchFair.Phi. destruct (i_len _ _ _ HI) as (L1 & _). pose proof (hd_le s) as Hh. rewrite L1 in Hh.
  pose proof (i_pc0 _ _ _ HI) as P0.
  assert (P : ph0 n (pc_of s 0) <= n + 5 /\ flag (pc_of s 0) <= 1).
  { destruct (pc_of s 0) as [|f|f src|k| | | | | |]; try discriminate PL; cbn [ph0 flag]; try lia; destruct f; try discriminate PL; lia. }
  destruct P as [P1 P2]. pose proof (Nat.mul_le_mono_l _ _ (A n) P1). lia.
Qed.

Definition K : nat := A n * (n + 5) + 20 * n + 2.
Definition Omega (s : state) : nat := if post_loop (pc_of s 0) then Phi s else 2 * Lam s + K.
(* a paced round: every rank at least once, the helpers fewer than n turns, rank 0 at least 2 * (helper turns) + 1 turns *)
Definition paced (l : list nat) : Prop := wround n l /\ 2 * helpers l + 1 <= count0 l.

Theorem paced_progress l s : IG s -> paced l -> final s = false -> IG (run l s) /\ Omega (run l s) + 1 <= Omega s.
Proof.
  intros [HL|G] [W P] Fn.
  - destruct W as (F & _ & Hh). unfold Omega at 2. rewrite (proj2 (proj2 HL)).
    destruct (run_loop l s HL F) as [[G B]|[HL1 D]].
    + split; [right; exact G|]. unfold Omega. rewrite (proj2 G). pose proof (Phi_bound _ G). unfold K, Lam. lia.
    + split; [left; exact HL1|]. unfold Omega. rewrite (proj2 (proj2 HL1)). lia.
  - destruct (wround_progress n sync target n_pos sync_nonneg l s G W Fn) as [G1 D]. split; [right; exact G1|].
    unfold Omega. rewrite (proj2 G), (proj2 G1). exact D.
Qed.

(* Omega(s) paced rounds complete the call on every rank, from every state an evolve call can reach *)
Theorem paced_rounds_finish rounds : forall s, IG s -> Forall paced rounds -> Omega s <= length rounds ->
  final (run (concat rounds) s) = true.
Proof.
  induction rounds as [|l rounds IH]; intros s H F B.
  - destruct H as [HL|G].
    + exfalso. unfold Omega in B. rewrite (proj2 (proj2 HL)) in B. unfold K in B. cbn [length] in B. lia.
    + apply (late_wrounds_finish n sync target n_pos sync_nonneg [] s G (Forall_nil _)). unfold Omega in B. rewrite (proj2 G) in B. exact B.
  - inversion F as [|? ? Pl Fr]; subst. cbn [concat]. rewrite (run_app' n sync target). destruct (final s) eqn:Fn.
    + rewrite (final_stable n sync target n_pos l s Fn). rewrite (final_stable n sync target n_pos (concat rounds) s Fn). exact Fn.
    + destruct (paced_progress l s H Pl Fn) as (H1 & D). apply (IH _ H1 Fr). cbn [length] in B. lia.
Qed.

(* the state in which the ranks enter the call *)
Lemma init_IG ages arch_age : length ages = n -> (forall k, k < n -> (0 <= nth k ages 0)%Z) ->
  ((target <= arch_age)%Z -> (target * Z.of_nat n <= sum_list ages)%Z) -> (0 <= arch_age)%Z -> IG (init n target ages arch_age).
Proof.
  intros L N G A0. pose proof (init_inv2 n target n_pos ages arch_age L N G A0) as I2.
  destruct (post_loop (pc_of (init n target ages arch_age) 0)) eqn:PL.
  - right. split; [exact (proj1 I2)|exact PL].
  - left. split; [exact I2|]. split; [exact I|exact PL].
Qed.
Lemma loop_iterations_bounded_IG l s : IG s -> evolves0 l s <= defic s.
Proof. intros [HL|G]; [apply loop_iterations_bounded; exact HL|rewrite (evolves0_good l s G); lia]. Qed.

Lemma Omega_init ages arch_age : length ages = n -> (forall k, k < n -> (0 <= nth k ages 0)%Z) ->
  ((target <= arch_age)%Z -> (target * Z.of_nat n <= sum_list ages)%Z) -> (0 <= arch_age)%Z ->
  Omega (init n target ages arch_age) <= 4 * Z.to_nat (target * Z.of_nat n) + K.
Proof.
  intros L N G A0. destruct (init_IG ages arch_age L N G A0) as [HL|Gd].
  - unfold Omega. rewrite (proj2 (proj2 HL)). unfold Lam, ParArchLive.defic. cbn [init total mbox length]. rewrite sum_total_none.
    assert (F1 : flag (pc_of (init n target ages arch_age) 0) = 0).
    { destruct HL as (_ & _ & PL). destruct (pc_of (init n target ages arch_age) 0) as [|f|f src|k| | | | | |] eqn:E; try reflexivity.
      exfalso. unfold init, pc_of in E. cbn [pcs nth] in E. destruct (arch_age <? target)%Z; [discriminate E|]. unfold after_loop in E. destruct (Nat.ltb 1 n); discriminate E. }
    rewrite F1. rewrite Z.sub_0_r. lia.
  - unfold Omega. rewrite (proj2 Gd). pose proof (Phi_bound _ Gd) as B. cbn [init mbox length] in B. unfold K. lia.
Qed.

(* from every state an evolve call can reach (any schedule prefix), paced rounds complete the call *)
Theorem reachable_paced_finish ages arch_age sched rounds : length ages = n -> (forall k, k < n -> (0 <= nth k ages 0)%Z) ->
  ((target <= arch_age)%Z -> (target * Z.of_nat n <= sum_list ages)%Z) -> (0 <= arch_age)%Z ->
  Forall paced rounds -> Omega (run sched (init n target ages arch_age)) <= length rounds ->
  final (run (sched ++ concat rounds) (init n target ages arch_age)) = true.
Proof.
  intros L N G A0 F B. rewrite (run_app' n sync target). apply paced_rounds_finish; [|exact F|exact B].
  apply run_IG. apply init_IG; assumption.
Qed.
Theorem init_paced_finish ages arch_age rounds : length ages = n -> (forall k, k < n -> (0 <= nth k ages 0)%Z) ->
  ((target <= arch_age)%Z -> (target * Z.of_nat n <= sum_list ages)%Z) -> (0 <= arch_age)%Z ->
  Forall paced rounds -> 4 * Z.to_nat (target * Z.of_nat n) + K <= length rounds ->
  final (run (concat rounds) (init n target ages arch_age)) = true.
Proof.
  intros L N G A0 F B. apply paced_rounds_finish; [apply init_IG; assumption|exact F|].
  pose proof (Omega_init ages arch_age L N G A0). lia.
Qed.
End Loop.

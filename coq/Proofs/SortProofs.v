(* insertion sort on Z: the result only depends on the multiset (used for C17b) *)
From Coq Require Import ZArith List Lia Permutation Sorted.
Import ListNotations.
Local Open Scope Z_scope.

Fixpoint ins (x : Z) (l : list Z) : list Z :=
  match l with [] => [x] | y :: r => if x <=? y then x :: l else y :: ins x r end.
Definition isort (l : list Z) : list Z := fold_right ins [] l.

Lemma ins_perm x l : Permutation (ins x l) (x :: l).
Proof.
  induction l as [|y r IH]; simpl; auto. destruct (x <=? y); auto.
  etransitivity; [apply perm_skip, IH|apply perm_swap].
Qed.
Lemma isort_perm l : Permutation (isort l) l.
Proof. induction l as [|x l IH]; simpl; auto. etransitivity; [apply ins_perm|auto]. Qed.

Lemma ins_sorted x l : StronglySorted Z.le l -> StronglySorted Z.le (ins x l).
Proof.
  induction l as [|y r IH]; simpl; intros H; [repeat constructor|].
  apply StronglySorted_inv in H as [Hr Hall]. destruct (Z.leb_spec x y).
  - constructor; [constructor; auto|]. constructor; auto.
    rewrite Forall_forall in *. intros z Hz. specialize (Hall z Hz). lia.
  - constructor; auto. rewrite Forall_forall in *. intros z Hz.
    apply (Permutation_in _ (ins_perm x r)) in Hz. destruct Hz as [<-|Hz]; [lia|auto].
Qed.
Lemma isort_sorted l : StronglySorted Z.le (isort l).
Proof. induction l; simpl; [constructor|apply ins_sorted; auto]. Qed.

Lemma sorted_perm_eq : forall l1 l2, StronglySorted Z.le l1 -> StronglySorted Z.le l2 ->
  Permutation l1 l2 -> l1 = l2.
Proof.
  induction l1 as [|x r1 IH]; intros l2 S1 S2 P.
  - apply Permutation_nil in P. auto.
  - destruct l2 as [|y r2]; [apply Permutation_sym, Permutation_nil in P; discriminate|].
    apply StronglySorted_inv in S1 as [S1 A1]. apply StronglySorted_inv in S2 as [S2 A2].
    rewrite Forall_forall in A1, A2.
    assert (x = y).
    { assert (Hx : In x (y :: r2)) by (apply (Permutation_in _ P); simpl; auto).
      assert (Hy : In y (x :: r1)) by (apply (Permutation_in _ (Permutation_sym P)); simpl; auto).
      destruct Hx as [->|Hx]; auto. destruct Hy as [->|Hy]; auto.
      specialize (A1 y Hy). specialize (A2 x Hx). lia. }
    subst y. f_equal. apply IH; auto. eapply Permutation_cons_inv; eauto.
Qed.

Theorem isort_order_independent l1 l2 : Permutation l1 l2 -> isort l1 = isort l2.
Proof.
  intros P. apply sorted_perm_eq; try apply isort_sorted.
  rewrite (isort_perm l1), P. symmetry. apply isort_perm.
Qed.

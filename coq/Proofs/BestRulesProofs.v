(* The replacement tests of the best-individual scans TRANSLATED from the current source (Gen/BestRules.v) are the test
   Model/Best.v's [scan_go] applies (property C15; re-proved on every run). *)
From Coq Require Import ZArith List Bool.
From Bingo Require Import Lib.Key Model.Best Gen.BestRules.
Import ListNotations.

Lemma island_scan_step_is_source (f fbest : key) (r : list key) (i best : nat) :
  scan_go (f :: r) i best fbest = if gen_island_takes f fbest then scan_go r (S i) i f else scan_go r (S i) best fbest.
Proof. reflexivity. Qed.

Lemma archipelago_scan_step_is_source (f fbest : key) (r : list key) (i best : nat) :
  scan_go (f :: r) i best fbest = if gen_archipelago_takes f fbest then scan_go r (S i) i f else scan_go r (S i) best fbest.
Proof. reflexivity. Qed.

From Coq Require Import List Bool Arith Lia Permutation.
From Bingo Require Import Model.Migration.
Import ListNotations.

Lemma mem_In x s : mem x s = true <-> In x s.
Proof.
  unfold mem. rewrite existsb_exists. split.
  - intros (y & Hy & E). apply Nat.eqb_eq in E. now subst.
  - intros H. exists x. split; auto. apply Nat.eqb_refl.
Qed.

Lemma nodupb_NoDup l : nodupb l = true -> NoDup l.
Proof.
  induction l as [|x r IH]; simpl; [constructor|]. intros H. apply andb_prop in H as [Hx Hr].
  constructor; auto. intros Hin. apply mem_In in Hin. rewrite Hin in Hx. discriminate.
Qed.

Lemma is_perm_spec s n : is_perm s n = true ->
  length s = n /\ (forall i, In i s -> i < n) /\ NoDup s.
Proof.
  unfold is_perm. intros H. apply andb_prop in H as [H H3]. apply andb_prop in H as [H1 H2].
  apply Nat.eqb_eq in H1. rewrite forallb_forall in H2. repeat split; auto.
  - intros i Hi. apply Nat.ltb_lt. auto.
  - apply nodupb_NoDup; auto.
Qed.

Lemma is_perm_seq s n : is_perm s n = true -> Permutation s (seq 0 n).
Proof.
  intros H. apply is_perm_spec in H as (Hl & Hb & Hn).
  apply NoDup_Permutation_bis; auto.
  - rewrite seq_length. lia.
  - intros i Hi. apply in_seq. specialize (Hb i Hi). lia.
Qed.

Lemma map_nth_seq {A} (l : list A) d : map (fun i => nth i l d) (seq 0 (length l)) = l.
Proof.
  induction l as [|x l IH]; simpl; auto. f_equal.
  rewrite <- seq_shift, map_map. exact IH.
Qed.

Lemma apply_perm_perm {A} (d : A) s l : is_perm s (length l) = true -> Permutation (apply_perm d s l) l.
Proof.
  intros H. unfold apply_perm. rewrite (Permutation_map _ (is_perm_seq _ _ H)).
  rewrite map_nth_seq. reflexivity.
Qed.

Lemma dump_half_perm s pop to rem : is_perm s (length pop) = true -> dump_half s pop = (to, rem) ->
  Permutation (to ++ rem) pop /\ length to = half_round (length pop).
Proof.
  intros H. unfold dump_half. intros [= <- <-]. rewrite firstn_skipn. split.
  - apply apply_perm_perm; auto.
  - rewrite firstn_length. unfold apply_perm. rewrite map_length.
    apply is_perm_spec in H as (Hl & _). rewrite Hl.
    unfold half_round. destruct (Nat.even (length pop)) eqn:E.
    + assert (Nat.div (length pop) 2 <= length pop) by (apply Nat.div_le_upper_bound; lia). lia.
    + destruct (length pop) as [|n] eqn:En; [discriminate|].
      assert (Nat.div (S n) 2 <= n).
      { apply Nat.lt_succ_r. apply Nat.div_lt_upper_bound; lia. }
      destruct (Nat.even (Nat.div (S n) 2)); lia.
Qed.

(* ---- ids, counting ---- *)
Definition ids (isls : list island) : list nat := map fst (concat isls).
Definition cnt (l : list nat) (x : nat) : nat := count_occ Nat.eq_dec l x.
Definition icnt (i : island) (x : nat) : nat := cnt (map fst i) x.

Lemma ids_cons i isls x : cnt (ids (i :: isls)) x = icnt i x + cnt (ids isls) x.
Proof. unfold ids, icnt, cnt. simpl. rewrite map_app, count_occ_app. reflexivity. Qed.

Lemma upd_length {A} (l : list A) i x : length (upd l i x) = length l.
Proof. revert i; induction l as [|y l IH]; intros [|i]; simpl; auto. Qed.

Lemma nth_upd_same {A} (l : list A) i x d : i < length l -> nth i (upd l i x) d = x.
Proof. revert i; induction l as [|y l IH]; intros [|i] H; simpl in *; try lia; auto. apply IH; lia. Qed.

Lemma nth_upd_other {A} (l : list A) i j x d : i <> j -> nth j (upd l i x) d = nth j l d.
Proof.
  revert i j; induction l as [|y l IH]; intros [|i] [|j] H; simpl; auto; try lia.
Qed.

Lemma cnt_upd isls p i x : p < length isls ->
  cnt (ids (upd isls p i)) x + icnt (nth p isls []) x = cnt (ids isls) x + icnt i x.
Proof.
  revert p; induction isls as [|y r IH]; intros [|p] H; simpl in H; try lia.
  - simpl upd. simpl nth. rewrite !ids_cons. lia.
  - simpl upd. simpl nth. rewrite !ids_cons. specialize (IH p ltac:(lia)). lia.
Qed.

Lemma icnt_perm i j x : Permutation i j -> icnt i x = icnt j x.
Proof.
  intros P. unfold icnt, cnt. apply Permutation_count_occ. apply Permutation_map. exact P.
Qed.
Lemma icnt_app i j x : icnt (i ++ j) x = icnt i x + icnt j x.
Proof. unfold icnt, cnt. rewrite map_app. apply count_occ_app. Qed.
Lemma icnt_reset i x : icnt (reset_fitness i) x = icnt i x.
Proof. unfold icnt, reset_fitness. rewrite map_map. simpl. reflexivity. Qed.

Lemma half_round_le n : half_round n <= n.
Proof.
  unfold half_round. destruct (Nat.even n) eqn:E.
  - apply Nat.div_le_upper_bound; lia.
  - destruct n as [|n]; [discriminate|].
    assert (Nat.div (S n) 2 <= n) by (apply Nat.lt_succ_r; apply Nat.div_lt_upper_bound; lia).
    destruct (Nat.even (Nat.div (S n) 2)); lia.
Qed.

Definition all_reset (i : island) : Prop := Forall (fun p => snd p = false) i.
Lemma reset_all_reset i : all_reset (reset_fitness i).
Proof. unfold all_reset, reset_fitness. rewrite Forall_forall. intros p Hp. apply in_map_iff in Hp as [q [<- _]]. reflexivity. Qed.

Lemma exchange_spec isls p1 p2 tape isls' tape' :
  exchange isls p1 p2 tape = Ok (isls', tape') -> p1 < length isls -> p2 < length isls -> p1 <> p2 ->
  length isls' = length isls /\
  (forall x, cnt (ids isls') x = cnt (ids isls) x) /\
  (forall j, j <> p1 -> j <> p2 -> nth j isls' [] = nth j isls []) /\
  all_reset (nth p1 isls' []) /\ all_reset (nth p2 isls' []) /\
  (length (nth p1 isls []) = length (nth p2 isls []) ->
   length (nth p1 isls' []) = length (nth p1 isls []) /\ length (nth p2 isls' []) = length (nth p2 isls [])) /\
  exists s1 s2, tape = s1 :: s2 :: tape'.
Proof.
  unfold exchange. destruct tape as [|s1 [|s2 t]]; try discriminate.
  set (i1 := nth p1 isls []). set (i2 := nth p2 isls []).
  destruct (is_perm s1 (length i1) && is_perm s2 (length i2)) eqn:Ep; [|discriminate].
  apply andb_prop in Ep as [E1 E2].
  destruct (dump_half s1 i1) as [to2 rem1] eqn:D1. destruct (dump_half s2 i2) as [to1 rem2] eqn:D2.
  intros [= <- <-] H1 H2 Hne.
  destruct (dump_half_perm _ _ _ _ E1 D1) as [P1 L1]. destruct (dump_half_perm _ _ _ _ E2 D2) as [P2 L2].
  set (a' := reset_fitness (rem1 ++ to1)). set (b' := reset_fitness (rem2 ++ to2)).
  split; [now rewrite !upd_length|]. split; [|split; [|split; [|split; [|split]]]].
  - intros x.
    pose proof (cnt_upd isls p1 a' x H1) as C1.
    pose proof (cnt_upd (upd isls p1 a') p2 b' x ltac:(rewrite upd_length; auto)) as C2.
    rewrite (nth_upd_other isls p1 p2 a' [] Hne) in C2. fold i1 in C1. fold i2 in C2.
    unfold a', b' in *. rewrite !icnt_reset, !icnt_app in *.
    pose proof (icnt_perm _ _ x P1) as Q1. pose proof (icnt_perm _ _ x P2) as Q2.
    rewrite icnt_app in Q1, Q2. lia.
  - intros j J1 J2. rewrite nth_upd_other by auto. rewrite nth_upd_other by auto. reflexivity.
  - rewrite nth_upd_other by auto. rewrite nth_upd_same by auto. apply reset_all_reset.
  - rewrite nth_upd_same by (rewrite upd_length; auto). apply reset_all_reset.
  - intros Hsz. rewrite nth_upd_other by auto. rewrite nth_upd_same by auto.
    rewrite nth_upd_same by (rewrite upd_length; auto).
    unfold a', b', reset_fitness. rewrite !map_length, !app_length.
    apply Permutation_length in P1, P2. rewrite app_length in P1, P2.
    fold i1 i2 in Hsz. rewrite Hsz in *. lia.
  - eauto.
Qed.

(* the pairing read off the shuffled index list *)
Fixpoint pairs_of (order : list nat) : list (nat * nat) :=
  match order with p1 :: p2 :: r => (p1, p2) :: pairs_of r | _ => [] end.
Fixpoint sit_out (order : list nat) : list nat :=
  match order with _ :: _ :: r => sit_out r | l => l end.
Definition paired_islands (order : list nat) : list nat :=
  flat_map (fun pq => [fst pq; snd pq]) (pairs_of order).

Lemma order_split : forall order, paired_islands order ++ sit_out order = order.
Proof.
  fix IH 1. intros [|p1 [|p2 r]]; simpl; auto. unfold paired_islands in *. simpl. f_equal. f_equal. apply IH.
Qed.
Lemma sit_out_length : forall order, length (sit_out order) = Nat.modulo (length order) 2.
Proof.
  fix IH 1. intros [|p1 [|p2 r]]; simpl length; auto. simpl sit_out. rewrite IH.
  change (S (S (length r))) with (2 + length r).
  rewrite (Nat.add_comm 2). replace (length r + 2) with (length r + 1 * 2) by lia.
  rewrite Nat.mod_add by lia. reflexivity.
Qed.

Theorem pairing_is_matching order n : is_perm order n = true ->
  paired_islands order ++ sit_out order = order /\ NoDup order /\ length order = n /\
  (forall i, In i order <-> i < n) /\ length (sit_out order) = Nat.modulo n 2.
Proof.
  intros H. pose proof (is_perm_seq _ _ H) as P. apply is_perm_spec in H as (Hl & Hb & Hn).
  split; [apply order_split|]. split; auto. split; auto. split.
  - intros i. split; auto. intros Hi. apply (Permutation_in _ (Permutation_sym P)). apply in_seq. lia.
  - rewrite sit_out_length, Hl. reflexivity.
Qed.

Lemma exchange_pairs_spec : forall order isls tape isls',
  exchange_pairs isls order tape = Ok isls' -> NoDup order -> (forall i, In i order -> i < length isls) ->
  length isls' = length isls /\
  (forall x, cnt (ids isls') x = cnt (ids isls) x) /\
  (forall j, ~ In j (paired_islands order) -> nth j isls' [] = nth j isls []) /\
  (forall j, In j (paired_islands order) -> all_reset (nth j isls' [])) /\
  (forall m, (forall k, k < length isls -> length (nth k isls []) = m) ->
             forall k, k < length isls -> length (nth k isls' []) = m).
Proof.
  fix IH 1. intros [|p1 [|p2 r]] isls tape isls'; cbn [exchange_pairs].
  1,2: intros [= <-] _ _; unfold paired_islands; simpl; repeat split; auto; intros j [].
  destruct (exchange isls p1 p2 tape) as [[isls1 tape1]|] eqn:Ee; [|discriminate].
  intros Hr Hnd Hb.
  inversion Hnd as [|? ? N1 Hnd1]; subst. inversion Hnd1 as [|? ? N2 Hnd2]; subst.
  assert (H1 : p1 < length isls) by (apply Hb; simpl; auto).
  assert (H2 : p2 < length isls) by (apply Hb; simpl; auto).
  assert (Hne : p1 <> p2) by (intros ->; apply N1; simpl; auto).
  destruct (exchange_spec _ _ _ _ _ _ Ee H1 H2 Hne) as (L & C & O & R1 & R2 & S & _).
  destruct (IH r isls1 tape1 isls' Hr Hnd2) as (L' & C' & O' & R' & S').
  { intros i Hi. rewrite L. apply Hb. simpl; auto. }
  assert (Hp1 : ~ In p1 (paired_islands r)).
  { intros Hin. apply N1. right. rewrite <- (order_split r). apply in_or_app; auto. }
  assert (Hp2 : ~ In p2 (paired_islands r)).
  { intros Hin. apply N2. rewrite <- (order_split r). apply in_or_app; auto. }
  split; [congruence|]. split; [intros x; rewrite C'; auto|]. split; [|split].
  - intros j Hj. unfold paired_islands in Hj. simpl in Hj.
    rewrite O' by (intros Hin; apply Hj; auto). apply O; intros ->; apply Hj; auto.
  - intros j Hj. unfold paired_islands in Hj. simpl in Hj. destruct Hj as [<-|[<-|Hj]].
    + rewrite O' by auto. auto.
    + rewrite O' by auto. auto.
    + apply R'. exact Hj.
  - intros m Hm k Hk. apply S'; [|congruence]. intros k' Hk'. rewrite L in Hk'.
    destruct (Nat.eq_dec k' p1) as [->|K1]; [|destruct (Nat.eq_dec k' p2) as [->|K2]].
    + destruct S as [S1 _]; [rewrite !Hm; auto|]. rewrite S1. auto.
    + destruct S as [_ S2]; [rewrite !Hm; auto|]. rewrite S2. auto.
    + rewrite O by auto. auto.
Qed.

Lemma cnt_perm l l' : (forall x, cnt l x = cnt l' x) -> Permutation l l'.
Proof. intros H. apply (Permutation_count_occ Nat.eq_dec). exact H. Qed.

Theorem migrate_spec isls tape isls' : migrate isls tape = Ok isls' ->
  exists order, hd_error tape = Some order /\ is_perm order (length isls) = true /\
  length isls' = length isls /\
  Permutation (ids isls') (ids isls) /\
  (forall j, In j (sit_out order) -> nth j isls' [] = nth j isls []) /\
  (forall j, In j (paired_islands order) -> all_reset (nth j isls' [])) /\
  (forall m, (forall k, k < length isls -> length (nth k isls []) = m) ->
             forall k, k < length isls -> length (nth k isls' []) = m).
Proof.
  unfold migrate. destruct tape as [|order tape']; [discriminate|].
  destruct (is_perm order (length isls)) eqn:Ep; [|discriminate]. intros H.
  exists order. split; auto. split; auto.
  pose proof (is_perm_spec _ _ Ep) as (Hl & Hb & Hn).
  destruct (exchange_pairs_spec order isls tape' isls' H Hn Hb) as (L & C & O & R & S).
  split; auto. split; [apply cnt_perm; auto|]. split; [|split; auto].
  intros j Hj. apply O. intros Hin.
  rewrite <- (order_split order) in Hn.
  clear -Hn Hj Hin. induction (paired_islands order) as [|x l IH]; [destruct Hin|].
  simpl in Hn. inversion Hn; subst. destruct Hin as [->|Hin]; [apply H1; apply in_or_app; auto|auto].
Qed.

Theorem evolve_age step a n tape a' : evolve step a n tape = Ok a' ->
  a_age a' = a_age a + n /\ a_isl_ages a' = map (fun x => x + n) (a_isl_ages a).
Proof.
  unfold evolve. destruct (migrate (a_islands a) tape); [|discriminate]. intros [= <-]. simpl.
  split; auto. apply map_ext. intros x. revert x. induction n as [|n IH]; intros x; simpl; [lia|].
  rewrite IH. lia.
Qed.

(* Proofs for Model/Cas.v (property C03): the two translations of interpreter.py preserve the meaning. *)
From Coq Require Import ZArith List Bool Lia.
From Bingo Require Import Lib.Alg Gen.OpDefs Gen.OpEval Model.Stack Model.Cas Model.Parse Model.AGraphObj Proofs.ReduceProofs Proofs.BuildProofs Proofs.CasProofs.
Import ListNotations.
Local Open Scope Z_scope.

(* ---------- the constants of the result: (CONSTANT, -1, -1) rows, numbered in stack order by AGraph._update ---------- *)
Definition const_fix (c : cmd) : cmd := if node_of c =? CONSTANT then (CONSTANT, -1, -1) else c.
Lemma renumber_const_fix : forall rows k, renumber (map const_fix rows) k = renumber rows k.
Proof.
  induction rows as [|c rows IH]; intros k; [reflexivity|]. cbn [map renumber]. unfold const_fix.
  destruct (node_of c =? CONSTANT) eqn:E.
  - cbn [node_of fst]. change (CONSTANT =? CONSTANT) with true. cbn iota. fold const_fix. rewrite IH. reflexivity.
  - rewrite E. fold const_fix. rewrite IH. reflexivity.
Qed.
Definition const_ids (rows : stack) : list Z := map p1_of (filter (fun c => node_of c =? CONSTANT) rows).
Lemma renumber_app : forall a b k, renumber (a ++ b) k = renumber a k ++ renumber b (k + Z.of_nat (n_const a)).
Proof.
  induction a as [|c a IH]; intros b k; [cbn; rewrite Z.add_0_r; reflexivity|]. cbn [app renumber]. unfold n_const. cbn [filter].
  destruct (node_of c =? CONSTANT); cbn [app length]; rewrite IH; unfold n_const; f_equal; f_equal; f_equal; lia.
Qed.
Lemma renumber_length : forall a k, length (renumber a k) = length a.
Proof. induction a as [|c a IH]; intros k; [reflexivity|]. cbn [renumber]. destruct (node_of c =? CONSTANT); cbn [length]; rewrite IH; reflexivity. Qed.

Lemma renumber_nth : forall rows k j, (j < length rows)%nat ->
  nth j (renumber rows k) dflt_cmd =
  (let c := nth j rows dflt_cmd in
   if node_of c =? CONSTANT then (CONSTANT, k + Z.of_nat (n_const (firstn j rows)), k + Z.of_nat (n_const (firstn j rows))) else c).
Proof.
  induction rows as [|c rows IH]; intros k j Hj; [cbn in Hj; lia|]. cbn [renumber]. destruct j as [|j].
  - cbn [nth firstn]. unfold n_const. cbn [filter length]. rewrite Z.add_0_r. destruct (node_of c =? CONSTANT); reflexivity.
  - cbn [length] in Hj. cbn zeta. destruct (node_of c =? CONSTANT) eqn:E; cbn [nth firstn]; rewrite IH by lia; cbn zeta;
      unfold n_const; cbn [filter]; rewrite E; cbn [length]; destruct (node_of (nth j rows dflt_cmd) =? CONSTANT); try reflexivity;
      (f_equal; [f_equal|]; lia).
Qed.
Lemma const_ids_nth : forall rows j, (j < length rows)%nat -> node_of (nth j rows dflt_cmd) = CONSTANT ->
  (n_const (firstn j rows) < length (const_ids rows))%nat /\
  nth (n_const (firstn j rows)) (const_ids rows) 0%Z = p1_of (nth j rows dflt_cmd).
Proof.
  induction rows as [|c rows IH]; intros j Hj Hc; [cbn in Hj; lia|]. unfold const_ids, n_const in *. destruct j as [|j].
  - cbn [nth firstn filter length] in *. rewrite Hc. change (CONSTANT =? CONSTANT) with true. cbn. split; [lia|reflexivity].
  - cbn [length] in Hj. cbn [nth] in Hc. destruct (IH j ltac:(lia) Hc) as [B E]. cbn [firstn filter nth].
    destruct (node_of c =? CONSTANT); cbn [map length nth]; (split; [lia|exact E]).
Qed.
Lemma renumber_scoped rows k : scoped rows -> scoped (renumber rows k).
Proof.
  intros Sc j Hj. rewrite renumber_length in Hj. cbn zeta. rewrite renumber_nth by exact Hj. cbn zeta.
  destruct (node_of (nth j rows dflt_cmd) =? CONSTANT); [left; reflexivity|apply Sc; exact Hj].
Qed.


(* the identifiers of the constants of the stack build_agraph_stack returns, in stack order *)
Definition result_ids (e : cexpr) : list Z :=
  match build_stack_rec (S (csize e)) e [] with Some (_, rows) => const_ids rows | None => [] end.

Section Interp.
Context {V : Type} (A : alg V).
Variable xv : Z -> V.
Notation "0" := (a_of_int A 0). Notation "1" := (a_of_int A 1).
Notation "x + y" := (a_add A x y). Notation "x * y" := (a_mul A x y).
Hypothesis Hadd_assoc : forall a b c, a + (b + c) = (a + b) + c.
Hypothesis add_0_r : forall a, a + 0 = a.
Hypothesis add_0_l : forall a, 0 + a = a.
Hypothesis Hmul_assoc : forall a b c, a * (b * c) = (a * b) * c.
Hypothesis mul_1_r : forall a, a * 1 = a.
Hypothesis mul_1_l : forall a, 1 * a = a.

Lemma binary_general (cv0 : Z -> V) n a b : is_arity_2 n = true ->
  ev A xv cv0 (Node n [a; b]) = sem_op2 A n (ev A xv cv0 a) (ev A xv cv0 b).
Proof.
  intros A2. cbn [ev map nth]. destruct (Z.eqb_spec n ADDITION) as [->|N1]; [cbn; rewrite add_0_r; reflexivity|].
  destruct (Z.eqb_spec n MULTIPLICATION) as [->|N2]; [cbn; rewrite mul_1_r; reflexivity|]. rewrite A2. reflexivity.
Qed.

(* ---------- build_cas_expression: stack -> tree; the constant of row k is named k ---------- *)
Section ToTree.
Variable cv : Z -> V.
Variable s : stack.
Definition cv_row (loc : Z) : V := cv (p1_of (nth (Z.to_nat loc) s dflt_cmd)).

Lemma binary_node n a b : is_arity_2 n = true ->
  ev A xv cv_row (Node n [a; b]) = sem_op2 A n (ev A xv cv_row a) (ev A xv cv_row b).
Proof.
  intros A2. cbn [ev map nth]. destruct (Z.eqb_spec n ADDITION) as [->|N1]; [cbn; rewrite add_0_r; reflexivity|].
  destruct (Z.eqb_spec n MULTIPLICATION) as [->|N2]; [cbn; rewrite mul_1_r; reflexivity|]. rewrite A2. reflexivity.
Qed.
Lemma unary_node n a : is_arity_2 n = false -> ev A xv cv_row (Node n [a]) = sem_op1 A n (ev A xv cv_row a).
Proof.
  intros A2. cbn [ev map nth]. destruct (Z.eqb_spec n ADDITION) as [->|N1]; [discriminate A2|].
  destruct (Z.eqb_spec n MULTIPLICATION) as [->|N2]; [discriminate A2|]. rewrite A2. reflexivity.
Qed.

Theorem build_cas_rec_sound : scoped s -> forall fuel loc e, 0 <= loc < Z.of_nat (length s) ->
  build_cas_rec fuel s loc = Some e -> ev A xv cv_row e = sem A xv cv (tree_at s loc).
Proof.
  intros Sc. induction fuel as [|f IH]; intros loc e B H; [discriminate H|]. cbn [build_cas_rec] in H.
  rewrite lookup_nat in H by lia. change (0%Z, 0%Z, 0%Z) with dflt_cmd in H.
  replace (tree_at s loc) with (tree_at s (Z.of_nat (Z.to_nat loc))) by (rewrite Z2Nat.id by lia; reflexivity).
  rewrite tree_at_row by (try exact Sc; lia).
  set (c := nth (Z.to_nat loc) s dflt_cmd) in *. pose proof (Sc (Z.to_nat loc) ltac:(lia)) as Scc. cbn zeta in Scc. fold c in Scc.
  unfold mk_expr. destruct (is_terminal (node_of c)) eqn:T.
  - injection H as <-. destruct (is_terminal_true _ T) as [E|[E|E]]; rewrite E; cbn; [reflexivity|reflexivity|].
    unfold cv_row. fold c. reflexivity.
  - destruct Scc as [Scc|[B1 B2]]; [congruence|]. destruct (is_terminal_false _ T) as (N1 & N2 & N3).
    destruct (Z.eqb_spec (node_of c) INTEGER); [contradiction|]. destruct (Z.eqb_spec (node_of c) VARIABLE); [contradiction|].
    destruct (Z.eqb_spec (node_of c) CONSTANT); [contradiction|].
    destruct (build_cas_rec f s (p1_of c)) as [a|] eqn:Ea; [|discriminate H]. cbn [o_bind] in H.
    pose proof (IH (p1_of c) a ltac:(lia) Ea) as Ha. destruct (is_arity_2 (node_of c)) eqn:A2.
    + destruct (build_cas_rec f s (p2_of c)) as [b|] eqn:Eb; [|discriminate H]. cbn [o_bind] in H. injection H as <-.
      pose proof (IH (p2_of c) b ltac:(lia) Eb) as Hb. rewrite binary_node by exact A2. cbn [sem]. rewrite Ha, Hb. reflexivity.
    + injection H as <-. rewrite unary_node by exact A2. cbn [sem]. rewrite Ha. reflexivity.
Qed.
Theorem build_cas_sound e : scoped s -> s <> [] -> build_cas s = Some e -> ev A xv cv_row e = sem A xv cv (denote s).
Proof.
  intros Sc NE H. unfold build_cas in H. assert (L : (0 < length s)%nat) by (destruct s; [congruence|cbn; lia]).
  rewrite (build_cas_rec_sound Sc (S (length s)) (Z.of_nat (length s) - 1) e ltac:(lia) H). f_equal. unfold tree_at, denote.
  rewrite <- (nth_last (denote_all s) (EInt 0)), denote_all_length. f_equal. lia.
Qed.
End ToTree.

(* ---------- build_agraph_stack: tree -> stack, with the command dictionary and balanced splitting of n-ary operators ---------- *)
Section ToStack.
Variable cv : Z -> V.
Notation SEM := (sem A xv cv).
Notation EV := (ev A xv cv).

Definition last_idx (rows : stack) : Z := Z.of_nat (length rows) - 1.
Definition valid (rows : stack) (i : Z) : Prop := 0 <= i < Z.of_nat (length rows).
Definition extends (rows rows' : stack) (i : Z) : Prop :=
  exists ext, rows' = rows ++ ext /\ valid rows' i /\ (ext <> [] -> i = last_idx rows').
Definition cmd_ok (rows : stack) (c : cmd) : Prop :=
  is_terminal (node_of c) = true \/ (valid rows (p1_of c) /\ valid rows (p2_of c)).

Lemma add_command_spec c rows i rows' : scoped rows -> cmd_ok rows c -> add_command c rows = (i, rows') ->
  scoped rows' /\ valid rows' i /\ tree_at rows' i = mk_expr c (tree_at rows) /\
  ((rows' = rows ++ [c] /\ i = Z.of_nat (length rows)) \/ (rows' = rows /\ valid rows i /\ nth (Z.to_nat i) rows dflt_cmd = c)).
Proof.
  intros S H E. unfold add_command in E. destruct (find_cmd c rows 0) as [j|] eqn:F; injection E as <- <-.
  - destruct (find_cmd_spec _ _ _ _ F) as [Bj Nj]. rewrite Z.sub_0_r in Nj. split; [exact S|]. split; [unfold valid; lia|]. split.
    + rewrite <- (Z2Nat.id j) at 1 by lia. rewrite tree_at_row by (try exact S; lia). rewrite Nj. reflexivity.
    + right. split; [reflexivity|]. split; [unfold valid; lia|exact Nj].
  - split; [apply scoped_snoc; [exact S|exact H]|]. split; [unfold valid; rewrite app_length; cbn; lia|]. split; [|left; split; reflexivity].
    unfold tree_at at 1. rewrite Nat2Z.id, denote_all_snoc, app_nth2 by (rewrite denote_all_length; lia).
    rewrite denote_all_length, Nat.sub_diag. cbn [nth]. unfold mk_expr. destruct H as [T|[B1 B2]].
    + destruct (is_terminal_true _ T) as [E'|[E'|E']]; rewrite E'; reflexivity.
    + destruct (node_of c =? INTEGER); [reflexivity|]. destruct (node_of c =? VARIABLE); [reflexivity|].
      destruct (node_of c =? CONSTANT); [reflexivity|]. unfold tree_at, valid in *. rewrite !lookup_nat by lia. reflexivity.
Qed.
(* an operator command one of whose operands is the newest row cannot be in the dictionary yet *)
Lemma add_command_fresh c rows i rows' : scoped rows -> cmd_ok rows c -> is_terminal (node_of c) = false ->
  (p1_of c = last_idx rows \/ p2_of c = last_idx rows) -> add_command c rows = (i, rows') ->
  rows' = rows ++ [c] /\ i = Z.of_nat (length rows).
Proof.
  intros S H T L E. destruct (add_command_spec _ _ _ _ S H E) as (_ & _ & _ & [R|(R & Vi & Ni)]); [exact R|]. exfalso.
  destruct (operator_row_scoped rows i c S Vi Ni T) as [P1 P2]. unfold valid, last_idx in *. lia.
Qed.
Lemma tree_at_stable rows ext i : valid rows i -> tree_at (rows ++ ext) i = tree_at rows i.
Proof. intros H. apply tree_at_app. exact H. Qed.

Definition nary (op : Z) (vs : list V) : V := if op =? ADDITION then nsum A vs else nprod A vs.
Lemma nary_app op l m : nary op (l ++ m) = sem_op2 A (if op =? ADDITION then ADDITION else MULTIPLICATION) (nary op l) (nary op m).
Proof.
  unfold nary. destruct (op =? ADDITION).
  - change (sem_op2 A ADDITION ?x ?y) with (x + y). induction l as [|x l IH]; cbn [app nsum fold_right]; [symmetry; apply add_0_l|].
    fold (nsum A (l ++ m)) (nsum A l). rewrite IH. apply Hadd_assoc.
  - change (sem_op2 A MULTIPLICATION ?x ?y) with (x * y). induction l as [|x l IH]; cbn [app nprod fold_right]; [symmetry; apply mul_1_l|].
    fold (nprod A (l ++ m)) (nprod A l). rewrite IH. apply Hmul_assoc.
Qed.
Lemma nary_one op x : nary op [x] = x.
Proof. unfold nary. destruct (op =? ADDITION); cbn; [apply add_0_r|apply mul_1_r]. Qed.

Lemma firstn_In' {X} (l : list X) n x : In x (firstn n l) -> In x l.
Proof. intros H. rewrite <- (firstn_skipn n l). apply in_or_app. left. exact H. Qed.
Lemma skipn_In' {X} (l : list X) n x : In x (skipn n l) -> In x l.
Proof. intros H. rewrite <- (firstn_skipn n l). apply in_or_app. right. exact H. Qed.
Definition assoc_op (op : Z) : Prop := op = ADDITION \/ op = MULTIPLICATION.
Lemma assoc_op_facts op : assoc_op op -> is_terminal op = false /\ is_arity_2 op = true /\
  (if op =? ADDITION then ADDITION else MULTIPLICATION) = op.
Proof. intros [->| ->]; repeat split; reflexivity. Qed.

Lemma nary_cons op x l : assoc_op op -> nary op (x :: l) = sem_op2 A op x (nary op l).
Proof. intros [-> | ->]; reflexivity. Qed.
(* _add_associative_operators_to_stack *)
Lemma add_assoc_spec op : assoc_op op -> forall fuel locs rows loc rows', scoped rows -> locs <> [] -> Forall (valid rows) locs ->
  add_assoc fuel op locs rows = Some (loc, rows') ->
  scoped rows' /\ extends rows rows' loc /\
  SEM (tree_at rows' loc) = nary op (map (fun l => SEM (tree_at rows l)) locs) /\
  (In (last_idx rows) locs -> loc = last_idx rows').
Proof.
  intros Hop. destruct (assoc_op_facts op Hop) as (T & A2 & Eop).
  induction fuel as [|f IH]; intros locs rows loc rows' S NE Fv H; [discriminate H|]. cbn [add_assoc] in H.
  destruct locs as [|x [|y rest]]; [congruence| |].
  - injection H as <- <-. split; [exact S|]. split; [exists []; rewrite app_nil_r; split; [reflexivity|]; split; [inversion Fv; assumption|intros N; congruence]|].
    split; [cbn [map]; rewrite nary_one; reflexivity|]. intros [E|[]]. exact E.
  - set (locs := x :: y :: rest) in *. set (d := (length locs / 2)%nat) in *.
    assert (Ld : (1 <= d < length locs)%nat).
    { unfold d, locs. cbn [length]. split; [apply Nat.div_le_lower_bound; lia|apply Nat.div_lt_upper_bound; lia]. }
    destruct (add_assoc f op (firstn d locs) rows) as [[l1 r1]|] eqn:E1; [|discriminate H]. cbn [o_bind] in H.
    destruct (add_assoc f op (skipn d locs) r1) as [[l2 r2]|] eqn:E2; [|discriminate H]. cbn [o_bind] in H.
    assert (N1 : firstn d locs <> []) by (intros E; apply (f_equal (@length Z)) in E; rewrite firstn_length in E; cbn [length] in E; lia).
    assert (N2 : skipn d locs <> []) by (intros E; apply (f_equal (@length Z)) in E; rewrite skipn_length in E; cbn [length] in E; lia).
    assert (F1 : Forall (valid rows) (firstn d locs)) by (apply Forall_forall; intros z Hz; rewrite Forall_forall in Fv; apply Fv; eapply firstn_In'; exact Hz).
    destruct (IH _ _ _ _ S N1 F1 E1) as (S1 & (ext1 & R1 & V1 & L1) & Sem1 & Last1).
    assert (F2 : Forall (valid r1) (skipn d locs)).
    { apply Forall_forall. intros z Hz. rewrite Forall_forall in Fv. specialize (Fv z (skipn_In' _ _ _ Hz)). unfold valid in *. rewrite R1, app_length. lia. }
    destruct (IH _ _ _ _ S1 N2 F2 E2) as (S2 & (ext2 & R2 & V2 & L2) & Sem2 & Last2).
    injection H as H. 
    assert (Vl1 : valid r2 l1) by (unfold valid in *; rewrite R2, app_length; lia).
    assert (Ck : cmd_ok r2 (op, l1, l2)) by (right; split; assumption).
    destruct (add_command_spec _ _ _ _ S2 Ck H) as (S3 & V3 & Tr & Alt).
    split; [exact S3|].
    (* value *)
    assert (Val : SEM (tree_at rows' loc) = nary op (map (fun l => SEM (tree_at rows l)) locs)).
    { rewrite Tr. unfold mk_expr. cbn [node_of p1_of p2_of fst snd]. destruct (is_terminal_false _ T) as (M1 & M2 & M3).
      destruct (Z.eqb_spec op INTEGER); [contradiction|]. destruct (Z.eqb_spec op VARIABLE); [contradiction|]. destruct (Z.eqb_spec op CONSTANT); [contradiction|].
      rewrite A2. cbn [sem]. rewrite <- (firstn_skipn d locs) at 1. rewrite map_app, nary_app, Eop. f_equal.
      - rewrite R2, tree_at_stable by exact V1. rewrite Sem1. reflexivity.
      - rewrite Sem2. f_equal. apply map_ext_in. intros z Hz. rewrite Forall_forall in Fv. rewrite R1, tree_at_stable by (apply Fv; eapply skipn_In'; exact Hz). reflexivity. }
    (* shape: as soon as a row was created, or the newest row is among the operands, the last command is new *)
    assert (Fresh : ext1 <> [] \/ ext2 <> [] \/ In (last_idx rows) locs -> rows' = r2 ++ [(op, l1, l2)] /\ loc = Z.of_nat (length r2)).
    { intros Hc. apply (add_command_fresh _ _ _ _ S2 Ck T); [|exact H]. cbn [p1_of p2_of fst snd].
      destruct ext2 as [|e2 ext2'].
      - rewrite app_nil_r in R2. subst r2. destruct ext1 as [|e1 ext1'].
        + rewrite app_nil_r in R1. subst r1. destruct Hc as [Hc|[Hc|Hc]]; [congruence|congruence|].
          rewrite <- (firstn_skipn d locs) in Hc. apply in_app_or in Hc as [Hc|Hc]; [left; apply Last1; exact Hc|right; apply Last2; exact Hc].
        + left. apply L1. discriminate.
      - right. apply L2. discriminate. }
    split.
    + destruct Alt as [[Rn In]|(Rn & Vn & _)].
      * exists (ext1 ++ ext2 ++ [(op, l1, l2)]). split; [rewrite Rn, R2, R1, <- !app_assoc; reflexivity|]. split; [exact V3|].
        intros _. unfold last_idx. rewrite Rn, app_length. cbn [length]. lia.
      * exists (ext1 ++ ext2). split; [rewrite Rn, R2, R1, <- app_assoc; reflexivity|]. split; [exact V3|].
        intros NEx. exfalso. assert (Hc : ext1 <> [] \/ ext2 <> [] \/ In (last_idx rows) locs).
        { destruct ext1; [destruct ext2; [cbn in NEx; congruence|right; left; discriminate]|left; discriminate]. }
        destruct (Fresh Hc) as [Rf _]. rewrite Rn in Rf. apply (f_equal (@length cmd)) in Rf. rewrite app_length in Rf. cbn in Rf. lia.
    + split; [exact Val|]. intros Hin. destruct (Fresh (or_intror (or_intror Hin))) as [Rf Lf]. unfold last_idx. rewrite Rf, app_length. cbn [length]. lia.
Qed.

(* _build_stack_recursive *)
Definition go_fn (f : nat) : list cexpr -> stack -> option (list Z * stack) :=
  fix go (l : list cexpr) (rows : stack) : option (list Z * stack) :=
    match l with
    | [] => Some ([], rows)
    | x :: r => o_bind (build_stack_rec f x rows) (fun '(i, rows1) =>
                o_bind (go r rows1) (fun '(is, rows2) => Some (i :: is, rows2)))
    end.
Lemma bsr_node f op l rows : build_stack_rec (S f) (Node op l) rows =
  o_bind (go_fn f l rows) (fun '(locs, rows1) =>
    match locs with
    | [] => None
    | [a] => Some (add_command (op, a, a) rows1)
    | [a; b] => Some (add_command (op, a, b) rows1)
    | a :: rest =>
      if negb (is_constant_valued (Node op l)) && is_constant_valued (nth 0 l ZERO)
      then o_bind (add_assoc (S (length locs)) op rest rows1) (fun '(loc, rows2) => Some (add_command (op, a, loc) rows2))
      else add_assoc (S (length locs)) op locs rows1
    end).
Proof. reflexivity. Qed.

Definition built_ok (e : cexpr) (rows rows' : stack) (i : Z) : Prop :=
  scoped rows' /\ extends rows rows' i /\ SEM (tree_at rows' i) = EV e.

Lemma arity_ok_node o l : arity_ok (Node o l) = true ->
  is_terminal o = false /\ forallb arity_ok l = true /\
  match l with [] => False | [_] => is_arity_2 o = false | [_; _] => is_arity_2 o = true | _ => assoc_op o end.
Proof.
  cbn [arity_ok]. intros H. apply andb_prop in H as [H H3]. apply andb_prop in H as [H1 H2]. apply negb_true_iff in H1.
  split; [exact H1|]. split.
  - clear -H3. induction l as [|x r IH]; [reflexivity|]. apply andb_prop in H3 as [Hx Hr]. cbn [forallb]. rewrite Hx, (IH Hr). reflexivity.
  - destruct l as [|a [|b [|c r]]]; [discriminate H2|apply negb_true_iff in H2; exact H2|exact H2|].
    apply orb_prop in H2 as [E|E]; apply Z.eqb_eq in E; [left|right]; exact E.
Qed.

Lemma go_spec f : (forall e rows i rows', scoped rows -> arity_ok e = true -> build_stack_rec f e rows = Some (i, rows') -> built_ok e rows rows' i) ->
  forall l rows locs rows1, scoped rows -> forallb arity_ok l = true -> go_fn f l rows = Some (locs, rows1) ->
  scoped rows1 /\ exists ext, rows1 = rows ++ ext /\ Forall (valid rows1) locs /\
    map (fun k => SEM (tree_at rows1 k)) locs = map EV l /\ (ext <> [] -> In (last_idx rows1) locs).
Proof.
  intros IH. induction l as [|x r IHl]; intros rows locs rows1 S Ok H; cbn [go_fn] in H.
  - injection H as <- <-. split; [exact S|]. exists []. rewrite app_nil_r. repeat split; auto. intros N; congruence.
  - cbn [forallb] in Ok. apply andb_prop in Ok as [Okx Okr].
    destruct (build_stack_rec f x rows) as [[i ra]|] eqn:Ex; [|discriminate H]. cbn [o_bind] in H.
    fold (go_fn f) in H. destruct (go_fn f r ra) as [[is rb]|] eqn:Er; [|discriminate H]. cbn [o_bind] in H. injection H as <- <-.
    destruct (IH _ _ _ _ S Okx Ex) as (Sa & (exta & Ra & Va & La) & Sema).
    destruct (IHl _ _ _ Sa Okr Er) as (Sb & extb & Rb & Fb & Semb & Lb).
    split; [exact Sb|]. exists (exta ++ extb). split; [rewrite Rb, Ra, <- app_assoc; reflexivity|].
    assert (Vi : valid rb i) by (unfold valid in *; rewrite Rb, app_length; lia).
    split; [constructor; assumption|]. split.
    + cbn [map]. rewrite Semb. f_equal. rewrite Rb, tree_at_stable by exact Va. exact Sema.
    + intros NE. destruct extb as [|eb extb'].
      * rewrite app_nil_r in NE, Rb. subst rb. left. apply La. exact NE.
      * right. apply Lb. discriminate.
Qed.

Lemma sem_leaf o v : is_terminal o = true -> SEM (mk_expr (o, v, v) (tree_at [])) = EV (Leaf o v).
Proof. intros T. destruct (is_terminal_true _ T) as [-> | [-> | ->]]; reflexivity. Qed.
Lemma mk_expr_terminal_any o v look look' : is_terminal o = true -> mk_expr (o, v, v) look = mk_expr (o, v, v) look'.
Proof. intros T. destruct (is_terminal_true _ T) as [-> | [-> | ->]]; reflexivity. Qed.

Theorem build_stack_rec_spec : forall f e rows i rows', scoped rows -> arity_ok e = true ->
  build_stack_rec f e rows = Some (i, rows') -> built_ok e rows rows' i.
Proof.
  induction f as [|f IH]; intros e rows i rows' Sc Ok H; [discriminate H|]. destruct e as [o v|o l].
  - (* a leaf *)
    cbn [build_stack_rec] in H. injection H as H. cbn [arity_ok] in Ok.
    assert (Ck : cmd_ok rows (o, v, v)) by (left; exact Ok).
    destruct (add_command_spec _ _ _ _ Sc Ck H) as (S' & V' & Tr & Alt). split; [exact S'|]. split.
    + destruct Alt as [[R I']|(R & _ & _)]; [exists [(o, v, v)]|exists []; rewrite app_nil_r]; (split; [exact R|split; [exact V'|]]).
      * intros _. unfold last_idx. rewrite R, app_length. cbn [length]. lia.
      * intros N; congruence.
    + rewrite Tr, (mk_expr_terminal_any o v _ (tree_at []) Ok). apply sem_leaf. exact Ok.
  - (* an operator node *)
    rewrite bsr_node in H. destruct (arity_ok_node _ _ Ok) as (T & Okl & Shape).
    destruct (go_fn f l rows) as [[locs rows1]|] eqn:Eg; [|discriminate H]. cbn [o_bind] in H.
    destruct (go_spec f IH _ _ _ _ Sc Okl Eg) as (S1 & ext1 & R1 & F1 & Sem1 & L1).
    assert (Len : length locs = length l) by (apply (f_equal (@length V)) in Sem1; rewrite !map_length in Sem1; exact Sem1).
    destruct (is_terminal_false _ T) as (M1 & M2 & M3).
    assert (MkE : forall a b look, mk_expr (o, a, b) look = if is_arity_2 o then EOp2 o (look a) (look b) else EOp1 o (look a)).
    { intros a b look. unfold mk_expr. cbn [node_of p1_of p2_of fst snd].
      destruct (Z.eqb_spec o INTEGER); [contradiction|]. destruct (Z.eqb_spec o VARIABLE); [contradiction|]. destruct (Z.eqb_spec o CONSTANT); [contradiction|]. reflexivity. }
    (* a new or dictionary command over operands of rows1 *)
    assert (Fin : forall a b rowsm extm i' rows'', rowsm = rows1 ++ extm -> scoped rowsm -> valid rowsm a -> valid rowsm b ->
              (ext1 ++ extm <> [] -> a = last_idx rowsm \/ b = last_idx rowsm) ->
              add_command (o, a, b) rowsm = (i', rows'') ->
              scoped rows'' /\ extends rows rows'' i' /\ tree_at rows'' i' = mk_expr (o, a, b) (tree_at rowsm)).
    { intros a b rowsm extm i' rows'' Rm Sm Va Vb Lm Ea. assert (Ck : cmd_ok rowsm (o, a, b)) by (right; split; assumption).
      destruct (add_command_spec _ _ _ _ Sm Ck Ea) as (S' & V' & Tr & Alt). split; [exact S'|]. split; [|exact Tr].
      destruct Alt as [[Rn In']|(Rn & _ & _)].
      - exists (ext1 ++ extm ++ [(o, a, b)]). split; [rewrite Rn, Rm, R1, <- !app_assoc; reflexivity|]. split; [exact V'|].
        intros _. unfold last_idx. rewrite Rn, app_length. cbn [length]. lia.
      - exists (ext1 ++ extm). split; [rewrite Rn, Rm, R1, <- app_assoc; reflexivity|]. split; [exact V'|]. intros NE. exfalso.
        destruct (add_command_fresh _ _ _ _ Sm Ck T (Lm NE) Ea) as [Rf _]. rewrite Rn in Rf. apply (f_equal (@length cmd)) in Rf.
        rewrite app_length in Rf. cbn in Rf. lia. }
    destruct locs as [|a [|b [|c rest]]]; [discriminate H| | |].
    + (* one operand *)
      destruct l as [|x [|? ?]]; try discriminate Len. injection H as H. pose proof (Forall_inv F1) as Va.
      destruct (Fin a a rows1 [] i rows' (eq_sym (app_nil_r _)) S1 Va Va) as (S' & Ex' & Tr); [|exact H|].
      { rewrite app_nil_r. intros NE. left. destruct (L1 NE) as [E|[]]. exact E. }
      split; [exact S'|]. split; [exact Ex'|]. rewrite Tr, MkE, Shape. cbn [sem]. cbn [map] in Sem1. injection Sem1 as Sx. rewrite Sx.
      symmetry. rewrite (ev_unary A xv cv o [x]); [reflexivity| | |exact Shape]; intros ->; discriminate Shape.
    + (* two operands *)
      destruct l as [|x [|y [|? ?]]]; try discriminate Len. injection H as H. pose proof (Forall_inv F1) as Va. pose proof (Forall_inv (Forall_inv_tail F1)) as Vb.
      destruct (Fin a b rows1 [] i rows' (eq_sym (app_nil_r _)) S1 Va Vb) as (S' & Ex' & Tr); [|exact H|].
      { rewrite app_nil_r. intros NE. destruct (L1 NE) as [E|[E|[]]]; [left|right]; exact E. }
      split; [exact S'|]. split; [exact Ex'|]. rewrite Tr, MkE, Shape. cbn [sem]. cbn [map] in Sem1. injection Sem1 as Sx Sy. rewrite Sx, Sy.
      symmetry. apply binary_general. exact Shape.
    + (* three or more: a sum or a product *)
      assert (Sh : assoc_op o) by (destruct l as [|x [|y [|z lr]]]; try discriminate Len; exact Shape). clear Shape. rename Sh into Shape.
      destruct (assoc_op_facts o Shape) as (_ & A2 & Eop).
      assert (NaryE : EV (Node o l) = nary o (map EV l)).
      { destruct Shape as [-> | ->]; reflexivity. }
      set (locs := a :: b :: c :: rest) in *.
      destruct (negb (is_constant_valued (Node o l)) && is_constant_valued (nth 0 l ZERO)).
      * (* the constant first operand stays apart *)
        destruct (add_assoc (S (length locs)) o (b :: c :: rest) rows1) as [[loc rows2]|] eqn:Ea; [|discriminate H]. cbn [o_bind] in H. injection H as H.
        pose proof (Forall_inv F1) as Va. pose proof (Forall_inv_tail F1) as F1'.
        assert (NEr : b :: c :: rest <> []) by discriminate.
        destruct (add_assoc_spec o Shape _ _ _ _ _ S1 NEr F1' Ea) as (S2 & (ext2 & R2 & V2 & L2) & Sem2 & Last2).
        assert (Va2 : valid rows2 a) by (unfold valid in *; rewrite R2, app_length; lia).
        destruct (Fin a loc rows2 ext2 i rows' R2 S2 Va2 V2) as (S' & Ex' & Tr); [|exact H|].
        { intros NE. destruct ext2 as [|e2 ext2'].
          - rewrite app_nil_r in NE, R2. subst rows2. destruct (L1 NE) as [E|E]; [left; exact E|right; apply Last2; exact E].
          - right. apply L2. discriminate. }
        split; [exact S'|]. split; [exact Ex'|]. rewrite Tr, MkE, A2. cbn [sem]. rewrite Sem2, NaryE, <- Sem1. cbn [map].
        rewrite R2, tree_at_stable by exact Va. unfold locs. cbn [map]. symmetry. apply (nary_cons o _ _ Shape).
      * (* all operands are split evenly *)
        assert (NEl : locs <> []) by discriminate.
        destruct (add_assoc_spec o Shape _ _ _ _ _ S1 NEl F1 H) as (S2 & (ext2 & R2 & V2 & L2) & Sem2 & Last2).
        split; [exact S2|]. split.
        -- exists (ext1 ++ ext2). split; [rewrite R2, R1, <- app_assoc; reflexivity|]. split; [exact V2|].
           intros NE. destruct ext2 as [|e2 ext2']; [|apply L2; discriminate]. rewrite app_nil_r in NE. apply Last2. apply L1. exact NE.
        -- rewrite Sem2, NaryE, <- Sem1. reflexivity.
Qed.

(* every row of the renumbered stack means what the row meant, when constant number j takes the value of the j-th constant row *)
Lemma renumber_meaning cv' rows : scoped rows ->
  (forall j, (j < length (const_ids rows))%nat -> cv' (Z.of_nat j) = cv (nth j (const_ids rows) 0%Z)) ->
  forall n i, (Z.to_nat i < n)%nat -> valid rows i -> sem A xv cv' (tree_at (renumber rows 0) i) = SEM (tree_at rows i).
Proof.
  intros Sc Hc. induction n as [|n IH]; intros i Hn Vi; [lia|]. unfold valid in Vi.
  replace i with (Z.of_nat (Z.to_nat i)) by lia. set (j := Z.to_nat i) in *.
  rewrite (tree_at_row rows j Sc) by lia. rewrite (tree_at_row (renumber rows 0) j (renumber_scoped rows 0 Sc)) by (rewrite renumber_length; lia).
  rewrite renumber_nth by lia. cbn zeta. set (c := nth j rows dflt_cmd) in *. rewrite Z.add_0_l.
  pose proof (Sc j ltac:(lia)) as Scj. cbn zeta in Scj. fold c in Scj.
  destruct (Z.eqb_spec (node_of c) CONSTANT) as [E|E].
  - destruct (const_ids_nth rows j ltac:(lia) E) as [B Ev]. fold c in Ev. unfold mk_expr at 1. cbn [node_of p1_of fst snd].
    change (CONSTANT =? INTEGER) with false. change (CONSTANT =? VARIABLE) with false. change (CONSTANT =? CONSTANT) with true. cbn iota. cbn [sem].
    rewrite (Hc _ B), Ev. unfold mk_expr. rewrite E. reflexivity.
  - unfold mk_expr. destruct (Z.eqb_spec (node_of c) INTEGER) as [E1|E1]; [reflexivity|]. destruct (Z.eqb_spec (node_of c) VARIABLE) as [E2|E2]; [reflexivity|].
    destruct (Z.eqb_spec (node_of c) CONSTANT); [contradiction|].
    destruct Scj as [T|[B1 B2]]; [destruct (is_terminal_true _ T) as [E'|[E'|E']]; contradiction|].
    destruct (is_arity_2 (node_of c)); cbn [sem]; rewrite !IH by (unfold valid; lia); reflexivity.
Qed.

(* build_agraph_stack: the stack handed back, renumbered as AGraph._update does, means the expression; its constants are the
   expression's constants in stack order *)
Theorem build_agraph_stack_sound e out : arity_ok e = true -> build_agraph_stack e = Some out ->
  out <> [] /\ scoped out /\
  length (result_ids e) = n_const out /\
    forall cv', (forall j, (j < length (result_ids e))%nat -> cv' (Z.of_nat j) = cv (nth j (result_ids e) 0%Z)) ->
      sem A xv cv' (denote (renumber out 0)) = EV e.
Proof.
  intros Ok H. unfold build_agraph_stack in H. unfold result_ids. destruct (build_stack_rec (S (csize e)) e []) as [[i rows]|] eqn:E; [|discriminate H].
  cbn [o_bind] in H. injection H as <-.
  assert (S0 : scoped []) by (intros j Hj; cbn in Hj; lia).
  destruct (build_stack_rec_spec _ _ _ _ _ S0 Ok E) as (Sr & (ext & R & Vi & L) & Sem). cbn [app] in R. subst ext.
  assert (NE : rows <> []) by (intros ->; unfold valid in Vi; cbn in Vi; lia). specialize (L NE).
  split; [intros Hm; apply NE; destruct rows; [reflexivity|discriminate Hm]|]. split.
  { intros j Hj. rewrite map_length in Hj. cbn zeta. rewrite (nth_indep _ dflt_cmd (const_fix dflt_cmd)) by (rewrite map_length; exact Hj).
    rewrite map_nth. unfold const_fix. destruct (node_of (nth j rows dflt_cmd) =? CONSTANT) eqn:Ec; [left; reflexivity|]. apply Sr. exact Hj. }
  split.
  { unfold n_const, const_ids. rewrite map_length. clear. induction rows as [|c r IH]; [reflexivity|]. cbn [map filter].
    destruct (node_of c =? CONSTANT) eqn:Ec.
    - cbn [node_of fst]. change (CONSTANT =? CONSTANT) with true. cbn iota. cbn [length]. rewrite IH. reflexivity.
    - rewrite Ec. exact IH. }
  intros cv' Hc. change (map (fun c : cmd => if node_of c =? CONSTANT then (CONSTANT, -1, -1) else c) rows) with (map const_fix rows).
  rewrite renumber_const_fix. rewrite <- Sem.
  assert (D : forall s, s <> [] -> denote s = tree_at s (last_idx s)).
  { intros s Hs. unfold denote, tree_at, last_idx. rewrite <- (nth_last (denote_all s) (EInt 0)), denote_all_length. f_equal.
    destruct s; [congruence|cbn [length]; lia]. }
  rewrite D by (intros Hm; apply NE; apply (f_equal (@length cmd)) in Hm; rewrite renumber_length in Hm; destruct rows; [reflexivity|discriminate Hm]).
  unfold last_idx. rewrite renumber_length. fold (last_idx rows). rewrite <- L.
  apply (renumber_meaning cv' rows Sr Hc (S (Z.to_nat i))); [lia|exact Vi].
Qed.
End ToStack.
End Interp.

(* The decision rules TRANSLATED from the current source (Gen/SelRules.v) are the rules the hand-written models
   Model/Selection.v, Model/SelectionProb.v and Model/Best.v use (property C08; re-proved on every run). *)
From Coq Require Import ZArith List Bool Arith.
From Bingo Require Import Lib.Key Model.Best Model.Selection Model.SelectionProb Gen.SelRules.
Import ListNotations.

Lemma first_not_dominated_is_source a b : first_not_dominated a b = gen_first_not_dominated a b.
Proof. reflexivity. Qed.

Lemma update_removal_set_is_source pop i1 i2 s : update_removal_set pop i1 i2 s = gen_update_removal_set pop i1 i2 s.
Proof. reflexivity. Qed.

Lemma streamlined_pair_is_source pop i1 i2 : streamlined_pair pop i1 i2 = gen_streamlined_pair pop i1 i2.
Proof. reflexivity. Qed.

Lemma most_fit_det_is_source child parent : most_fit_det child parent = gen_most_fit_det child parent.
Proof. reflexivity. Qed.

(* probabilistic crowding: the model's decision is the source's NaN guards followed by the source's choice on the coin *)
Lemma most_fit_prob_is_source child parent coins :
  most_fit_prob child parent coins =
  match gen_most_fit_prob_guard child parent with
  | Some x => Ok (x, coins)
  | None => match coins with
            | [] => BadTape
            | None :: _ => Raises
            | Some c :: r => Ok (gen_most_fit_prob_coin c child parent, r)
            end
  end.
Proof.
  unfold most_fit_prob, gen_most_fit_prob_guard, gen_most_fit_prob_coin.
  destruct (kisnan (sfit parent)); [reflexivity|]. destruct (kisnan (sfit child)); reflexivity.
Qed.

(* tournament: one step of the model's NaN-aware scan replaces the incumbent exactly when the source's test holds *)
Lemma scan_step_is_source (member winner : ind) (r : list key) (i best : nat) :
  scan_go (sfit member :: r) i best (sfit winner) =
  if gen_tournament_takes member winner then scan_go r (S i) i (sfit member) else scan_go r (S i) best (sfit winner).
Proof. reflexivity. Qed.

(* Proofs for Model/ParArch.v (property C12): invariants of every reachable state of one non-blocking evolve call, for any
   number of ranks and any schedule. *)
From Coq Require Import ZArith List Bool Lia.
From Bingo Require Import Model.ParArch.
Import ListNotations.
Local Open Scope Z_scope.

Lemma upd_length {A} (l : list A) i x : length (upd l i x) = length l.
Proof. revert i; induction l as [|y r IH]; intros [|i]; simpl; auto. Qed.
Lemma nth_upd_eq {A} (l : list A) i x d : (i < length l)%nat -> nth i (upd l i x) d = x.
Proof. revert i; induction l as [|y r IH]; intros [|i] H; simpl in *; try lia; auto. apply IH. lia. Qed.
Lemma nth_upd_ne {A} (l : list A) i j x d : i <> j -> nth j (upd l i x) d = nth j l d.
Proof. revert i j; induction l as [|y r IH]; intros [|i] [|j] H; simpl; auto; try congruence. Qed.

Section P.
Variable n : nat.
Variable sync target : Z.
Hypothesis n_pos : (1 <= n)%nat.
Hypothesis sync_nonneg : 0 <= sync.
Notation step := (step n sync target).

Definition pc_of (s : state) (r : nat) : pc := nth r (pcs s) Done.
Definition age_of (s : state) (r : nat) : Z := nth r (age s) 0.
(* rank 0 is past the loop *)
Definition post_loop (p : pc) : bool := match p with Evolve | Probe false | Recv false _ => false | _ => true end.
(* rank 0 has sent the exit notification to helper k *)
Definition sent (p : pc) (k : nat) : bool :=
  match p with Evolve | Probe false | Recv false _ => false | SendExit j => Nat.ltb k j | _ => true end.
Definition consumed (p : pc) : bool := match p with BarArrive | BarLeave | Done => true | _ => false end.
Definition in_barrier (p : pc) : bool := match p with BarLeave | Done | Probe true | Recv true _ => true | _ => false end.
Definition after_barrier0 (p : pc) : bool := match p with Done | Probe true | Recv true _ => true | _ => false end.
Definition pc0_ok (p : pc) : Prop :=
  match p with SendAge | ProbeExit | RecvExit => False | SendExit k => (1 <= k < n)%nat | _ => True end.
Definition pch_ok (p : pc) : Prop := match p with Probe _ | Recv _ _ | SendExit _ => False | _ => True end.
Fixpoint sum_list (l : list Z) : Z := match l with [] => 0 | x :: r => x + sum_list r end.

Record Inv (s : state) : Prop := {
  i_len : length (pcs s) = n /\ length (age s) = n /\ length (total s) = n /\ length (exitf s) = n /\ length (arrived s) = n;
  i_pc0 : pc0_ok (pc_of s 0);
  i_pch : forall r, (1 <= r < n)%nat -> pch_ok (pc_of s r);
  i_exit : forall k, (k < n)%nat -> nth k (exitf s) false = (Nat.ltb 0 k && sent (pc_of s 0) k && negb (consumed (pc_of s k)));
  i_cons : forall k, (1 <= k < n)%nat -> (consumed (pc_of s k) = true \/ pc_of s k = RecvExit) -> sent (pc_of s 0) k = true;
  i_arr : forall r, (r < n)%nat -> nth r (arrived s) false = in_barrier (pc_of s r);
  i_after : after_barrier0 (pc_of s 0) = true -> forall r, (r < n)%nat -> in_barrier (pc_of s r) = true;
  i_mbox : Forall (fun m => (1 <= fst m < n)%nat /\ snd m <= age_of s (fst m)) (mbox s);
  i_recv : forall f src, pc_of s 0 = Recv f src -> exists v m', take_from src (mbox s) = Some (v, m');
  i_done : pc_of s 0 = Done -> mbox s = [];
  i_total : forall k v, (k < n)%nat -> nth k (total s) None = Some v -> v <= age_of s k;
  i_goal : post_loop (pc_of s 0) = true -> target * Z.of_nat n <= sum_list (age s);
  i_nonneg : forall k, (k < n)%nat -> 0 <= age_of s k
}.

(* ---------- list facts ---------- *)
Lemma sum_list_upd : forall (l : list Z) r d, (r < length l)%nat -> sum_list (upd l r (nth r l 0 + d)) = sum_list l + d.
Proof. induction l as [|x l IH]; intros [|r] d H; simpl in *; try lia. rewrite IH by lia. lia. Qed.
Lemma sum_total_le : forall (t : list (option Z)) (a : list Z), length t = length a ->
  (forall k v, (k < length a)%nat -> nth k t None = Some v -> v <= nth k a 0) -> (forall k, (k < length a)%nat -> 0 <= nth k a 0) ->
  sum_total t <= sum_list a.
Proof.
  induction t as [|o t IH]; intros [|x a] L H P; simpl in *; try lia.
  assert (Ht : sum_total t <= sum_list a).
  { apply IH; [lia| |]; intros k; [intros v Hk Hn; apply (H (S k) v); [lia|exact Hn]|intros Hk; apply (P (S k)); lia]. }
  unfold sum_total in *. simpl. destruct o as [v|].
  - specialize (H O v ltac:(lia) eq_refl). simpl in H. lia.
  - specialize (P O ltac:(lia)). simpl in P. lia.
Qed.
Lemma take_from_In src : forall m v m', take_from src m = Some (v, m') -> In (src, v) m /\ (forall x, In x m' -> In x m).
Proof.
  induction m as [|[s0 v0] r IH]; intros v m' H; simpl in H; [discriminate|].
  destruct (Nat.eqb_spec s0 src) as [->|N].
  - injection H as <- <-. split; [left; reflexivity|intros x Hx; right; exact Hx].
  - destruct (take_from src r) as [[v1 r1]|] eqn:E; [|discriminate]. injection H as <- <-. destruct (IH _ _ eq_refl) as [I1 I2].
    split; [right; exact I1|]. intros x [Hx|Hx]; [left; exact Hx|right; apply I2; exact Hx].
Qed.
Lemma take_from_app src : forall m v m' x, take_from src m = Some (v, m') -> take_from src (m ++ [x]) = Some (v, m' ++ [x]).
Proof.
  induction m as [|[s0 v0] r IH]; intros v m' x H; simpl in H; [discriminate|]. simpl.
  destruct (Nat.eqb s0 src); [injection H as <- <-; reflexivity|].
  destruct (take_from src r) as [[v1 r1]|] eqn:E; [|discriminate]. injection H as <- <-. rewrite (IH _ _ x eq_refl). reflexivity.
Qed.
Lemma forallb_nth (l : list bool) : forallb (fun b => b) l = true -> forall r, (r < length l)%nat -> nth r l false = true.
Proof. intros H r Hr. rewrite forallb_forall in H. apply H. apply nth_In. exact Hr. Qed.

Ltac unf := unfold pc_of, age_of in *; cbn [pcs age total mbox exitf arrived] in *.
Ltac at_r k r := destruct (Nat.eq_dec k r) as [->|?]; [rewrite ?nth_upd_eq by lia|rewrite ?nth_upd_ne by congruence].

(* a helper whose pc is not a barrier pc contradicts "rank 0 is after the barrier" *)
Lemma not_after s r : Inv s -> (1 <= r < n)%nat -> in_barrier (pc_of s r) = false -> after_barrier0 (pc_of s 0) = false.
Proof.
  intros I Hr Hb. destruct (after_barrier0 (pc_of s 0)) eqn:E; [|reflexivity]. rewrite (i_after s I E r ltac:(lia)) in Hb. discriminate.
Qed.

Lemma step_inv_helper s r s' : Inv s -> (1 <= r < n)%nat -> step s r = Some s' -> Inv s'.
Proof.
  intros HI Hr H. pose proof HI as [Len P0 Ph Ex Co Ar Af Mb Rc Dn To Go Nn]. destruct Len as (L1 & L2 & L3 & L4 & L5).
  pose proof (Ph r Hr) as Pr. unfold step in H. fold (pc_of s r) in H. fold (age_of s r) in H.
  assert (R0 : Nat.eqb r 0 = false) by (apply Nat.eqb_neq; lia). rewrite R0 in H.
  assert (P0' : forall p X Y Z W V, pc_of (mkS (upd (pcs s) r p) X Y Z W V) 0 = pc_of s 0).
  { intros. unf. rewrite nth_upd_ne by lia. reflexivity. }
  destruct (pc_of s r) eqn:Ep; try (exfalso; exact Pr).
  - (* Evolve *)
    injection H as <-. assert (NB := not_after s r HI Hr ltac:(rewrite Ep; reflexivity)).
    constructor; unf; rewrite ?upd_length.
    + repeat split; assumption.
    + rewrite nth_upd_ne by lia. exact P0.
    + intros k Hk. at_r k r; [exact I|apply Ph; exact Hk].
    + intros k Hk. rewrite (nth_upd_ne (pcs s) r 0) by lia. rewrite Ex by exact Hk. at_r k r; [unfold pc_of; rewrite Ep; reflexivity|reflexivity].
    + intros k Hk Hc. rewrite (nth_upd_ne (pcs s) r 0) by lia. revert Hc. at_r k r; intros Hc; [destruct Hc; discriminate|apply Co; assumption].
    + intros k Hk. rewrite Ar by exact Hk. at_r k r; [unfold pc_of; rewrite Ep; reflexivity|reflexivity].
    + rewrite (nth_upd_ne (pcs s) r 0) by lia. unfold pc_of in NB. rewrite NB. discriminate.
    + eapply Forall_impl; [|exact Mb]. intros [src v] [B1 B2]. cbn [fst snd] in *. split; [exact B1|]. at_r src r; lia.
    + intros f src. rewrite (nth_upd_ne (pcs s) r 0) by lia. apply Rc.
    + rewrite (nth_upd_ne (pcs s) r 0) by lia. exact Dn.
    + intros k v Hk Hv. specialize (To k v Hk Hv). at_r k r; lia.
    + rewrite (nth_upd_ne (pcs s) r 0) by lia. intros G. specialize (Go G). fold (age_of s r). unfold age_of. rewrite sum_list_upd by lia. lia.
    + intros k Hk. specialize (Nn k Hk). at_r k r; lia.
  - (* SendAge *)
    injection H as <-. assert (NB := not_after s r HI Hr ltac:(rewrite Ep; reflexivity)).
    constructor; unf; rewrite ?upd_length.
    + repeat split; assumption.
    + rewrite nth_upd_ne by lia. exact P0.
    + intros k Hk. at_r k r; [exact I|apply Ph; exact Hk].
    + intros k Hk. rewrite (nth_upd_ne (pcs s) r 0) by lia. rewrite Ex by exact Hk. at_r k r; [unfold pc_of; rewrite Ep; reflexivity|reflexivity].
    + intros k Hk Hc. rewrite (nth_upd_ne (pcs s) r 0) by lia. revert Hc. at_r k r; intros Hc; [destruct Hc; discriminate|apply Co; assumption].
    + intros k Hk. rewrite Ar by exact Hk. at_r k r; [unfold pc_of; rewrite Ep; reflexivity|reflexivity].
    + rewrite (nth_upd_ne (pcs s) r 0) by lia. unfold pc_of in NB. rewrite NB. discriminate.
    + apply Forall_app. split; [exact Mb|]. constructor; [|constructor]. cbn [fst snd]. split; [lia|lia].
    + intros f src. rewrite (nth_upd_ne (pcs s) r 0) by lia. intros E. destruct (Rc f src E) as (v & m' & T). exists v, (m' ++ [(r, nth r (age s) 0)]). apply take_from_app. exact T.
    + rewrite (nth_upd_ne (pcs s) r 0) by lia. intros E. unfold pc_of in NB. rewrite E in NB. discriminate.
    + exact To.
    + rewrite (nth_upd_ne (pcs s) r 0) by lia. exact Go.
    + exact Nn.
  - (* ProbeExit *)
    injection H as <-. assert (NB := not_after s r HI Hr ltac:(rewrite Ep; reflexivity)).
    set (p' := if nth r (exitf s) false then RecvExit else Evolve).
    assert (Cp : consumed p' = false) by (unfold p'; destruct (nth r (exitf s) false); reflexivity).
    assert (Bp : in_barrier p' = false) by (unfold p'; destruct (nth r (exitf s) false); reflexivity).
    unfold set_pc. constructor; unf; rewrite ?upd_length.
    + repeat split; assumption.
    + rewrite nth_upd_ne by lia. exact P0.
    + intros k Hk. at_r k r; [unfold p'; destruct (nth r (exitf s) false); exact I|apply Ph; exact Hk].
    + intros k Hk. rewrite (nth_upd_ne (pcs s) r 0) by lia. rewrite Ex by exact Hk. at_r k r; [unfold pc_of; rewrite Ep, Cp; reflexivity|reflexivity].
    + intros k Hk Hc. rewrite (nth_upd_ne (pcs s) r 0) by lia. revert Hc. at_r k r; intros Hc; [|apply Co; assumption].
      destruct Hc as [Hc|Hc]; [rewrite Cp in Hc; discriminate|]. unfold p' in Hc. destruct (nth r (exitf s) false) eqn:Ef; [|discriminate].
      rewrite Ex in Ef by lia. apply andb_prop in Ef as [Ef _]. apply andb_prop in Ef as [_ Ef]. exact Ef.
    + intros k Hk. rewrite Ar by exact Hk. at_r k r; [unfold pc_of; rewrite Ep, Bp; reflexivity|reflexivity].
    + rewrite (nth_upd_ne (pcs s) r 0) by lia. unfold pc_of in NB. rewrite NB. discriminate.
    + exact Mb.
    + intros f src. rewrite (nth_upd_ne (pcs s) r 0) by lia. apply Rc.
    + rewrite (nth_upd_ne (pcs s) r 0) by lia. exact Dn.
    + exact To.
    + rewrite (nth_upd_ne (pcs s) r 0) by lia. exact Go.
    + exact Nn.
  - (* RecvExit *)
    destruct (nth r (exitf s) false) eqn:Ef; [|discriminate H]. injection H as <-.
    assert (NB := not_after s r HI Hr ltac:(rewrite Ep; reflexivity)).
    assert (Sr : sent (pc_of s 0) r = true) by (apply Co; [exact Hr|right; exact Ep]).
    constructor; unf; rewrite ?upd_length.
    + repeat split; assumption.
    + rewrite nth_upd_ne by lia. exact P0.
    + intros k Hk. at_r k r; [exact I|apply Ph; exact Hk].
    + intros k Hk. rewrite (nth_upd_ne (pcs s) r 0) by lia. at_r k r; [rewrite andb_false_r; reflexivity|]. rewrite Ex by exact Hk. reflexivity.
    + intros k Hk Hc. rewrite (nth_upd_ne (pcs s) r 0) by lia. revert Hc. at_r k r; intros Hc; [exact Sr|apply Co; assumption].
    + intros k Hk. rewrite Ar by exact Hk. at_r k r; [unfold pc_of; rewrite Ep; reflexivity|reflexivity].
    + rewrite (nth_upd_ne (pcs s) r 0) by lia. unfold pc_of in NB. rewrite NB. discriminate.
    + exact Mb.
    + intros f src. rewrite (nth_upd_ne (pcs s) r 0) by lia. apply Rc.
    + rewrite (nth_upd_ne (pcs s) r 0) by lia. exact Dn.
    + exact To.
    + rewrite (nth_upd_ne (pcs s) r 0) by lia. exact Go.
    + exact Nn.
  - (* BarArrive *)
    injection H as <-. assert (NB := not_after s r HI Hr ltac:(rewrite Ep; reflexivity)).
    constructor; unf; rewrite ?upd_length.
    + repeat split; assumption.
    + rewrite nth_upd_ne by lia. exact P0.
    + intros k Hk. at_r k r; [exact I|apply Ph; exact Hk].
    + intros k Hk. rewrite (nth_upd_ne (pcs s) r 0) by lia. rewrite Ex by exact Hk. at_r k r; [unfold pc_of; rewrite Ep; reflexivity|reflexivity].
    + intros k Hk Hc. rewrite (nth_upd_ne (pcs s) r 0) by lia. revert Hc. at_r k r; intros Hc; [apply Co; [exact Hr|left; unfold pc_of; rewrite Ep; reflexivity]|apply Co; assumption].
    + intros k Hk. at_r k r; [reflexivity|apply Ar; exact Hk].
    + rewrite (nth_upd_ne (pcs s) r 0) by lia. unfold pc_of in NB. rewrite NB. discriminate.
    + exact Mb.
    + intros f src. rewrite (nth_upd_ne (pcs s) r 0) by lia. apply Rc.
    + rewrite (nth_upd_ne (pcs s) r 0) by lia. exact Dn.
    + exact To.
    + rewrite (nth_upd_ne (pcs s) r 0) by lia. exact Go.
    + exact Nn.
  - (* BarLeave *)
    destruct (all_arrived s) eqn:Ea; [|discriminate H]. injection H as <-. unfold set_pc.
    constructor; unf; rewrite ?upd_length.
    + repeat split; assumption.
    + rewrite nth_upd_ne by lia. exact P0.
    + intros k Hk. at_r k r; [exact I|apply Ph; exact Hk].
    + intros k Hk. rewrite (nth_upd_ne (pcs s) r 0) by lia. rewrite Ex by exact Hk. at_r k r; [unfold pc_of; rewrite Ep; reflexivity|reflexivity].
    + intros k Hk Hc. rewrite (nth_upd_ne (pcs s) r 0) by lia. revert Hc. at_r k r; intros Hc; [apply Co; [exact Hr|left; unfold pc_of; rewrite Ep; reflexivity]|apply Co; assumption].
    + intros k Hk. rewrite Ar by exact Hk. at_r k r; [unfold pc_of; rewrite Ep; reflexivity|reflexivity].
    + rewrite (nth_upd_ne (pcs s) r 0) by lia. intros G k Hk. at_r k r; [reflexivity|apply Af; assumption].
    + exact Mb.
    + intros f src. rewrite (nth_upd_ne (pcs s) r 0) by lia. apply Rc.
    + rewrite (nth_upd_ne (pcs s) r 0) by lia. exact Dn.
    + exact To.
    + rewrite (nth_upd_ne (pcs s) r 0) by lia. exact Go.
    + exact Nn.
  - discriminate H.
Qed.

(* when rank 0's pc changes from p to p' and nothing else does *)
Lemma inv_pc0 s p' : Inv s ->
  pc0_ok p' -> (forall k, (1 <= k < n)%nat -> sent p' k = sent (pc_of s 0) k) -> in_barrier p' = in_barrier (pc_of s 0) ->
  (after_barrier0 p' = true -> after_barrier0 (pc_of s 0) = true) ->
  (forall f src, p' = Recv f src -> exists v m', take_from src (mbox s) = Some (v, m')) ->
  (p' = Done -> mbox s = []) -> (post_loop p' = true -> target * Z.of_nat n <= sum_list (age s)) ->
  Inv (set_pc s 0 p').
Proof.
  intros HI Ok Hs Hb Ha Hr Hd Hg. pose proof HI as [Len P0 Ph Ex Co Ar Af Mb Rc Dn To Go Nn]. destruct Len as (L1 & L2 & L3 & L4 & L5).
  unfold set_pc. constructor; unf; rewrite ?upd_length.
  - repeat split; assumption.
  - rewrite nth_upd_eq by lia. exact Ok.
  - intros k Hk. rewrite nth_upd_ne by lia. apply Ph; exact Hk.
  - intros k Hk. rewrite nth_upd_eq by lia. rewrite Ex by exact Hk. destruct k as [|k]; [reflexivity|]. rewrite Hs by lia. rewrite nth_upd_ne by lia. reflexivity.
  - intros k Hk Hc. rewrite nth_upd_eq by lia. rewrite Hs by exact Hk. rewrite nth_upd_ne in Hc by lia. apply Co; assumption.
  - intros k Hk. rewrite Ar by exact Hk. at_r k 0%nat; [symmetry; exact Hb|reflexivity].
  - rewrite nth_upd_eq by lia. intros G k Hk. at_r k 0%nat; [rewrite Hb; apply (Af (Ha G) 0%nat); lia|apply Af; [exact (Ha G)|exact Hk]].
  - exact Mb.
  - rewrite nth_upd_eq by lia. exact Hr.
  - rewrite nth_upd_eq by lia. exact Hd.
  - exact To.
  - rewrite nth_upd_eq by lia. exact Hg.
  - exact Nn.
Qed.

Lemma step_inv_main s s' : Inv s -> step s 0 = Some s' -> Inv s'.
Proof.
  intros HI H. pose proof HI as [Len P0 Ph Ex Co Ar Af Mb Rc Dn To Go Nn]. destruct Len as (L1 & L2 & L3 & L4 & L5).
  unfold step in H. fold (pc_of s 0) in H. fold (age_of s 0) in H. change (Nat.eqb 0 0) with true in H. cbn iota in H.
  destruct (pc_of s 0) eqn:Ep; try (exfalso; exact P0).
  - (* Evolve *)
    injection H as <-. constructor; unf; rewrite ?upd_length.
    + repeat split; assumption.
    + rewrite nth_upd_eq by lia. exact I.
    + intros k Hk. rewrite nth_upd_ne by lia. apply Ph; exact Hk.
    + intros k Hk. rewrite nth_upd_eq by lia. rewrite Ex by exact Hk. at_r k 0%nat; reflexivity.
    + intros k Hk Hc. rewrite nth_upd_eq by lia. rewrite nth_upd_ne in Hc by lia. specialize (Co k Hk Hc). exact Co.
    + intros k Hk. rewrite Ar by exact Hk. at_r k 0%nat; rewrite ?Ep; reflexivity.
    + rewrite nth_upd_eq by lia. discriminate.
    + eapply Forall_impl; [|exact Mb]. intros [src v] [B1 B2]. cbn [fst snd] in *. split; [exact B1|]. rewrite nth_upd_ne by lia. exact B2.
    + rewrite nth_upd_eq by lia. discriminate.
    + rewrite nth_upd_eq by lia. discriminate.
    + intros k v Hk Hv. at_r k 0%nat.
      * rewrite nth_upd_eq in Hv by lia. injection Hv as <-. lia.
      * rewrite nth_upd_ne in Hv by lia. apply To; assumption.
    + rewrite nth_upd_eq by lia. discriminate.
    + intros k Hk. specialize (Nn k Hk). at_r k 0%nat; lia.
  - (* Probe *)
    assert (GoF : final = true -> target * Z.of_nat n <= sum_list (age s)) by (intros ->; apply Go; reflexivity).
    destruct (mbox s) as [|[src v] m] eqn:Em.
    + destruct final.
      * injection H as <-. apply inv_pc0; try exact HI; rewrite ?Ep; try reflexivity; try exact I; auto; try discriminate;
          try (intros ? ? E; discriminate E).
      * injection H as <-. destruct (below_target n target (total s)) eqn:Eb.
        -- apply inv_pc0; try exact HI; rewrite ?Ep; try reflexivity; try exact I; auto; try discriminate; try (intros ? ? E; discriminate E).
        -- assert (Goal : target * Z.of_nat n <= sum_list (age s)).
           { unfold below_target in Eb. apply Z.ltb_ge in Eb. pose proof (sum_total_le (total s) (age s) ltac:(lia)) as Hs.
             rewrite L2 in Hs. specialize (Hs To Nn). lia. }
           unfold after_loop. destruct (Nat.ltb_spec 1 n) as [Hn|Hn].
           ++ apply inv_pc0; try exact HI; rewrite ?Ep; try reflexivity; auto; try discriminate; try (intros ? ? E; discriminate E).
              all: try (cbn; lia).
              all: try (intros k Hk; cbn; destruct k; [lia|reflexivity]).
           ++ apply inv_pc0; try exact HI; rewrite ?Ep; try reflexivity; try exact I; auto; try discriminate; try (intros ? ? E; discriminate E).
              all: try (intros k Hk; lia).
    + injection H as <-. apply inv_pc0; try exact HI; rewrite ?Ep; try reflexivity; try exact I; auto; try discriminate.
      all: try (intros f0 src0 E; injection E as <- <-; rewrite Em; cbn; rewrite Nat.eqb_refl; eexists; eexists; reflexivity).
      all: try (intros G; apply Go; exact G).
  - (* Recv *)
    destruct (take_from src (mbox s)) as [[v m']|] eqn:Et; [|discriminate H]. injection H as <-.
    destruct (take_from_In _ _ _ _ Et) as [Hin Hsub].
    assert (Hm : (1 <= src < n)%nat /\ v <= age_of s src) by (rewrite Forall_forall in Mb; apply (Mb (src, v) Hin)).
    constructor; unf; rewrite ?upd_length.
    + repeat split; assumption.
    + rewrite nth_upd_eq by lia. exact I.
    + intros k Hk. rewrite nth_upd_ne by lia. apply Ph; exact Hk.
    + intros k Hk. rewrite nth_upd_eq by lia. rewrite Ex by exact Hk. at_r k 0%nat; reflexivity.
    + intros k Hk Hc. rewrite nth_upd_eq by lia. rewrite nth_upd_ne in Hc by lia. exact (Co k Hk Hc).
    + intros k Hk. rewrite Ar by exact Hk. at_r k 0%nat; rewrite ?Ep; reflexivity.
    + rewrite nth_upd_eq by lia. intros G k Hk. at_r k 0%nat; [exact G|apply Af; [exact G|exact Hk]].
    + apply Forall_forall. intros x Hx. rewrite Forall_forall in Mb. apply Mb. apply Hsub. exact Hx.
    + rewrite nth_upd_eq by lia. discriminate.
    + rewrite nth_upd_eq by lia. discriminate.
    + intros k w Hk Hw. at_r k src.
      * rewrite nth_upd_eq in Hw by lia. injection Hw as <-. apply Hm.
      * rewrite nth_upd_ne in Hw by congruence. apply To; assumption.
    + rewrite nth_upd_eq by lia. exact Go.
    + exact Nn.
  - (* SendExit *)
    cbn in P0. injection H as <-.
    assert (NotC : consumed (pc_of s k) = false /\ pc_of s k <> RecvExit).
    { destruct (consumed (pc_of s k)) eqn:Ec.
      - specialize (Co k P0 (or_introl Ec)). cbn [sent] in Co. rewrite Nat.ltb_irrefl in Co. discriminate.
      - split; [reflexivity|]. intros Er. specialize (Co k P0 (or_intror Er)). cbn [sent] in Co. rewrite Nat.ltb_irrefl in Co. discriminate. }
    set (p' := if Nat.ltb (S k) n then SendExit (S k) else BarArrive).
    assert (Sp : forall j, (1 <= j < n)%nat -> sent p' j = Nat.leb j k).
    { intros j Hj. unfold p'. destruct (Nat.ltb_spec (S k) n); cbn; [destruct (Nat.ltb_spec j (S k)); destruct (Nat.leb_spec j k); try reflexivity; lia|].
      destruct (Nat.leb_spec j k); [reflexivity|lia]. }
    constructor; unf; rewrite ?upd_length.
    + repeat split; assumption.
    + rewrite nth_upd_eq by lia. unfold p'. destruct (Nat.ltb_spec (S k) n); cbn; [lia|exact I].
    + intros j Hj. rewrite nth_upd_ne by lia. apply Ph; exact Hj.
    + intros j Hj. rewrite nth_upd_eq by lia. destruct j as [|j].
      * rewrite nth_upd_ne by lia. rewrite Ex by lia. reflexivity.
      * fold p'. rewrite Sp by lia. rewrite (nth_upd_ne (pcs s) 0 (S j)) by lia. at_r (S j) k.
        -- rewrite Nat.leb_refl. unfold pc_of in NotC. destruct NotC as [-> _]. destruct (Nat.ltb_spec 0 k); [reflexivity|lia].
        -- rewrite Ex by lia. cbn [sent]. destruct (Nat.leb_spec (S j) k); destruct (Nat.ltb_spec (S j) k); try reflexivity; lia.
    + intros j Hj Hc. rewrite nth_upd_eq by lia. rewrite nth_upd_ne in Hc by lia. fold p'. rewrite Sp by exact Hj.
      specialize (Co j Hj Hc). cbn [sent] in Co. apply Nat.ltb_lt in Co. apply Nat.leb_le. lia.
    + intros j Hj. rewrite Ar by exact Hj. at_r j 0%nat; [|reflexivity]. rewrite Ep. unfold p'. destruct (Nat.ltb (S k) n); reflexivity.
    + rewrite nth_upd_eq by lia. unfold p'. destruct (Nat.ltb (S k) n); discriminate.
    + exact Mb.
    + rewrite nth_upd_eq by lia. unfold p'. destruct (Nat.ltb (S k) n); discriminate.
    + rewrite nth_upd_eq by lia. unfold p'. destruct (Nat.ltb (S k) n); discriminate.
    + exact To.
    + intros _. apply Go. reflexivity.
    + exact Nn.
  - (* BarArrive *)
    injection H as <-. constructor; unf; rewrite ?upd_length.
    + repeat split; assumption.
    + rewrite nth_upd_eq by lia. exact I.
    + intros k Hk. rewrite nth_upd_ne by lia. apply Ph; exact Hk.
    + intros k Hk. rewrite nth_upd_eq by lia. rewrite Ex by exact Hk. at_r k 0%nat; reflexivity.
    + intros k Hk Hc. rewrite nth_upd_eq by lia. reflexivity.
    + intros k Hk. at_r k 0%nat; [reflexivity|apply Ar; exact Hk].
    + rewrite nth_upd_eq by lia. discriminate.
    + exact Mb.
    + rewrite nth_upd_eq by lia. discriminate.
    + rewrite nth_upd_eq by lia. discriminate.
    + exact To.
    + intros _. apply Go. reflexivity.
    + exact Nn.
  - (* BarLeave *)
    destruct (all_arrived s) eqn:Ea; [|discriminate H]. injection H as <-.
    assert (All : forall r, (r < n)%nat -> in_barrier (pc_of s r) = true).
    { intros r Hr. rewrite <- Ar by exact Hr. apply forallb_nth; [exact Ea|lia]. }
    constructor; unf; rewrite ?upd_length.
    + repeat split; assumption.
    + rewrite nth_upd_eq by lia. exact I.
    + intros k Hk. rewrite nth_upd_ne by lia. apply Ph; exact Hk.
    + intros k Hk. rewrite nth_upd_eq by lia. rewrite Ex by exact Hk. at_r k 0%nat; reflexivity.
    + intros k Hk Hc. rewrite nth_upd_eq by lia. reflexivity.
    + intros k Hk. rewrite Ar by exact Hk. at_r k 0%nat; rewrite ?Ep; reflexivity.
    + rewrite nth_upd_eq by lia. intros _ k Hk. at_r k 0%nat; [reflexivity|apply All; exact Hk].
    + exact Mb.
    + rewrite nth_upd_eq by lia. discriminate.
    + rewrite nth_upd_eq by lia. discriminate.
    + intros k w Hk Hw. at_r k 0%nat.
      * rewrite nth_upd_eq in Hw by lia. injection Hw as <-. lia.
      * rewrite nth_upd_ne in Hw by lia. apply To; assumption.
    + intros _. apply Go. reflexivity.
    + exact Nn.
  - discriminate H.
Qed.

Theorem step_inv s r s' : Inv s -> step s r = Some s' -> Inv s'.
Proof.
  intros HI H. destruct (Nat.lt_ge_cases r n) as [Hr|Hr].
  - destruct r as [|r]; [apply (step_inv_main s s' HI H)|apply (step_inv_helper s (S r) s' HI ltac:(lia) H)].
  - exfalso. unfold step in H. rewrite (nth_overflow (pcs s)) in H by (destruct HI as [[L _] _]; lia). discriminate H.
Qed.

(* ---------- the initial state and all reachable states ---------- *)
Notation init := (init n target).
Lemma nth_rep {A} (y : A) : forall m k d, (k < m)%nat -> nth k (repeat y m) d = y.
Proof. induction m as [|m IH]; intros [|k] d H; cbn; try lia; [reflexivity|apply IH; lia]. Qed.

Theorem init_inv ages arch_age : length ages = n -> (forall k, (k < n)%nat -> 0 <= nth k ages 0) ->
  (target <= arch_age -> target * Z.of_nat n <= sum_list ages) -> Inv (init ages arch_age).
Proof.
  intros La Nn Hg. unfold ParArch.init.
  set (p0 := if arch_age <? target then Evolve else after_loop n).
  assert (Hp0 : (p0 = Evolve /\ arch_age < target) \/ (target <= arch_age /\ ((1 < n)%nat /\ p0 = SendExit 1 \/ n = 1%nat /\ p0 = BarArrive))).
  { unfold p0, after_loop. destruct (Z.ltb_spec arch_age target); [left; split; [reflexivity|assumption]|right; split; [assumption|]].
    destruct (Nat.ltb_spec 1 n); [left; split; [assumption|reflexivity]|right; split; [lia|reflexivity]]. }
  assert (Hh : forall k, (1 <= k < n)%nat -> nth k (p0 :: repeat SendAge (n - 1)) Done = SendAge).
  { intros k Hk. destruct k as [|k]; [lia|]. cbn [nth]. apply nth_rep. lia. }
  assert (Sn : forall k, (1 <= k < n)%nat -> sent p0 k = false).
  { intros k Hk. destruct Hp0 as [[-> _]|[_ [[_ ->]|[E _]]]]; [reflexivity|cbn; destruct k; [lia|reflexivity]|lia]. }
  constructor; unf.
  - cbn [length]. rewrite !repeat_length. repeat split; lia.
  - cbn [nth]. destruct Hp0 as [[-> _]|[_ [[Hn ->]|[_ ->]]]]; cbn; [exact I|lia|exact I].
  - intros r Hr. rewrite Hh by exact Hr. exact I.
  - intros k Hk. rewrite nth_rep by exact Hk. destruct k as [|k]; [reflexivity|]. cbn [nth]. change (nth (S k) (p0 :: repeat SendAge (n - 1)) Done) with (nth k (repeat SendAge (n - 1)) Done).
    rewrite Sn by lia. rewrite andb_false_r. reflexivity.
  - intros k Hk Hc. rewrite Hh in Hc by exact Hk. destruct Hc; discriminate.
  - intros r Hr. rewrite nth_rep by exact Hr. destruct r as [|r].
    + cbn [nth]. destruct Hp0 as [[-> _]|[_ [[_ ->]|[_ ->]]]]; reflexivity.
    + rewrite Hh by lia. reflexivity.
  - cbn [nth]. destruct Hp0 as [[-> _]|[_ [[_ ->]|[_ ->]]]]; discriminate.
  - constructor.
  - cbn [nth]. intros f src E. destruct Hp0 as [[E' _]|[_ [[_ E']|[_ E']]]]; rewrite E' in E; discriminate.
  - cbn [nth]. intros E. destruct Hp0 as [[E' _]|[_ [[_ E']|[_ E']]]]; rewrite E' in E; discriminate.
  - intros k v Hk Hv. rewrite nth_rep in Hv by exact Hk. discriminate.
  - cbn [nth]. intros G. apply Hg. destruct Hp0 as [[E' _]|[Ht _]]; [rewrite E' in G; discriminate|exact Ht].
  - exact Nn.
Qed.

Theorem run_inv sched : forall s, Inv s -> Inv (run n sync target sched s).
Proof.
  induction sched as [|r q IH]; intros s HI; cbn [run]; [exact HI|]. destruct (step s r) as [s'|] eqn:E; [|apply IH; exact HI].
  apply IH. eapply step_inv; eassumption.
Qed.

(* ---------- the theorems ---------- *)
Definition waiting (p : pc) : bool := match p with BarLeave | Done => true | _ => false end.
Lemma find_active (l : list pc) : (exists r, (r < length l)%nat /\ waiting (nth r l Done) = false) \/ forallb waiting l = true.
Proof.
  induction l as [|p l IH]; [right; reflexivity|]. destruct (waiting p) eqn:W.
  - destruct IH as [(r & Hr & Hw)|Hall]; [left; exists (S r); split; [cbn; lia|exact Hw]|right; cbn; rewrite W, Hall; reflexivity].
  - left. exists 0%nat. split; [cbn; lia|exact W].
Qed.

Theorem deadlock_free s : Inv s -> final s = true \/ exists r, (r < n)%nat /\ step s r <> None.
Proof.
  intros HI. pose proof HI as [Len P0 Ph Ex Co Ar Af Mb Rc Dn To Go Nn]. destruct Len as (L1 & L2 & L3 & L4 & L5).
  destruct (find_active (pcs s)) as [(r & Hr & Hw)|Hall].
  - right. exists r. split; [lia|]. unfold step. fold (pc_of s r). fold (pc_of s r) in Hw.
    assert (Cases : r = 0%nat \/ (1 <= r < n)%nat) by lia.
    destruct (pc_of s r) eqn:Ep; try discriminate Hw; try (destruct (Nat.eqb r 0); discriminate).
    + destruct (mbox s) as [|[src v] m]; [destruct final|]; discriminate.
    + destruct Cases as [->|Hh]; [|specialize (Ph r Hh); rewrite Ep in Ph; destruct Ph].
      destruct (Rc _ _ Ep) as (v & m' & ->). discriminate.
    + destruct Cases as [->|Hh]; [rewrite Ep in P0; destruct P0|].
      assert (Ef : nth r (exitf s) false = true).
      { rewrite Ex by lia. rewrite (Co r Hh (or_intror Ep)), Ep. destruct r; [lia|reflexivity]. }
      rewrite Ef. discriminate.
  - destruct (final s) eqn:Fn; [left; reflexivity|right].
    assert (Hex : exists r, (r < n)%nat /\ pc_of s r = BarLeave).
    { unfold final in Fn. rewrite <- L1. clear -Fn Hall. unfold pc_of. induction (pcs s) as [|p l IH]; [discriminate Fn|].
      cbn [forallb] in *. apply andb_prop in Hall as [Hp Hl]. destruct p; try discriminate Hp.
      - exists 0%nat. split; [cbn; lia|reflexivity].
      - cbn [andb] in Fn. destruct (IH Hl Fn) as (r & Hr & E). exists (S r). split; [cbn; lia|exact E]. }
    destruct Hex as (r & Hr & Ep). exists r. split; [exact Hr|]. unfold step. fold (pc_of s r). rewrite Ep.
    assert (Ea : all_arrived s = true).
    { unfold all_arrived. apply forallb_forall. intros b Hb. apply In_nth with (d := false) in Hb as (k & Hk & <-).
      rewrite Ar by lia. rewrite forallb_forall in Hall. specialize (Hall (pc_of s k) ltac:(apply nth_In; lia)).
      destruct (pc_of s k); try discriminate Hall; reflexivity. }
    rewrite Ea. destruct (Nat.eqb r 0); discriminate.
Qed.

Theorem clean_exit s : Inv s -> final s = true -> mbox s = [] /\ forall k, (k < n)%nat -> nth k (exitf s) false = false.
Proof.
  intros HI Fn. pose proof HI as [Len P0 Ph Ex Co Ar Af Mb Rc Dn To Go Nn]. destruct Len as (L1 & L2 & L3 & L4 & L5).
  assert (Dall : forall k, (k < n)%nat -> pc_of s k = Done).
  { intros k Hk. unfold final in Fn. rewrite forallb_forall in Fn. specialize (Fn (pc_of s k) ltac:(apply nth_In; lia)).
    destruct (pc_of s k); try discriminate Fn. reflexivity. }
  split; [apply Dn; apply Dall; lia|]. intros k Hk. rewrite Ex by exact Hk. rewrite (Dall k Hk). cbn. rewrite andb_false_r. reflexivity.
Qed.

Theorem target_met s : Inv s -> final s = true -> target * Z.of_nat n <= sum_list (age s).
Proof.
  intros HI Fn. apply (i_goal s HI). unfold final in Fn. rewrite forallb_forall in Fn. destruct HI as [[L1 _] _].
  specialize (Fn (pc_of s 0) ltac:(apply nth_In; lia)). destruct (pc_of s 0); try discriminate Fn. reflexivity.
Qed.
End P.

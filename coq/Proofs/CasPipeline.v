(* Property C03: the whole simplify pipeline, relative to the algebraic laws it uses and to the contract of fold_constants.
   Values carry a refinement preorder [ref new old]: "wherever old is defined, new is defined and equal". *)
From Coq Require Import ZArith List Bool Lia.
From Bingo Require Import Lib.Alg Gen.OpDefs Gen.OpEval Model.Stack Model.Cas Model.Parse Model.AGraphObj
     Proofs.ReduceProofs Proofs.BuildProofs Proofs.CasProofs Proofs.CasInterpProofs.
Import ListNotations.
Local Open Scope Z_scope.

(* the identities the simplifier relies on.  Equations hold as written; the five refinements are the places where a rewrite may
   make an undefined value defined (0 for a*0, 1 for 1^e and b^0, and the power identities).  With iexp = true the three power
   identities are required for integer exponents only - that is how they hold pointwise over the reals (Proofs/CasReal.v). *)
Record cas_laws {V : Type} (A : alg V) (ref : V -> V -> Prop) (iexp : bool) : Prop := {
  l_refl : forall a, ref a a;
  l_trans : forall a b c, ref a b -> ref b c -> ref a c;
  l_op1_mono : forall o a a', ref a' a -> ref (sem_op1 A o a') (sem_op1 A o a);
  l_op2_mono : forall o a a' b b', ref a' a -> ref b' b -> ref (sem_op2 A o a' b') (sem_op2 A o a b);
  l_add_comm : forall a b, a_add A a b = a_add A b a;
  l_add_assoc : forall a b c, a_add A a (a_add A b c) = a_add A (a_add A a b) c;
  l_add_0_r : forall a, a_add A a (a_of_int A 0) = a;
  l_mul_comm : forall a b, a_mul A a b = a_mul A b a;
  l_mul_assoc : forall a b c, a_mul A a (a_mul A b c) = a_mul A (a_mul A a b) c;
  l_mul_1_r : forall a, a_mul A a (a_of_int A 1) = a;
  l_mul_0_r : forall a, ref (a_of_int A 0) (a_mul A a (a_of_int A 0));
  l_distr : forall a b t, a_add A (a_mul A a t) (a_mul A b t) = a_mul A (a_add A a b) t;
  l_int_add : forall a b, a_of_int A (a + b) = a_add A (a_of_int A a) (a_of_int A b);
  l_int_mul : forall a b, a_of_int A (a * b) = a_mul A (a_of_int A a) (a_of_int A b);
  l_sub : forall a b, a_sub A a b = a_add A a (a_mul A (a_of_int A (-1)) b);
  l_div : forall a b, a_div A a b = a_mul A a (a_pow A b (a_of_int A (-1)));
  l_pow_1_l : forall e, ref (a_of_int A 1) (a_pow A (a_of_int A 1) e);
  l_pow_0_l : forall k, 0 < k -> a_pow A (a_of_int A 0) (a_of_int A k) = a_of_int A 0;
  l_pow_1_r : forall b, a_pow A b (a_of_int A 1) = b;
  l_pow_0_r : forall b, ref (a_of_int A 1) (a_pow A b (a_of_int A 0));
  l_pow_int : forall a k, 0 < k -> a_pow A (a_of_int A a) (a_of_int A k) = a_of_int A (a ^ k);
  l_pow_pow : forall b e1 e2, (iexp = true -> is_iv A e1 /\ is_iv A e2) ->
              ref (a_pow A b (a_mul A e1 e2)) (a_pow A (a_pow A b e1) e2);
  l_pow_mul : forall a b e, (iexp = true -> is_iv A e) ->
              ref (a_mul A (a_pow A a e) (a_pow A b e)) (a_pow A (a_mul A a b) e);
  l_pow_add : forall b e1 e2, (iexp = true -> is_iv A e1 /\ is_iv A e2) ->
              ref (a_pow A b (a_add A e1 e2)) (a_mul A (a_pow A b e1) (a_pow A b e2));
  l_pow_add_nn : forall b k1 k2, 0 <= k1 -> 0 <= k2 ->
              a_mul A (a_pow A b (a_of_int A k1)) (a_pow A b (a_of_int A k2)) = a_pow A b (a_of_int A (k1 + k2));
  l_sin_0 : a_sin A (a_of_int A 0) = a_of_int A 0;
  l_sinh_0 : a_sinh A (a_of_int A 0) = a_of_int A 0;
  l_cos_0 : a_cos A (a_of_int A 0) = a_of_int A 1;
  l_cosh_0 : a_cosh A (a_of_int A 0) = a_of_int A 1;
  l_exp_0 : a_exp A (a_of_int A 0) = a_of_int A 1;
  l_log_1 : a_log A (a_abs A (a_of_int A 1)) = a_of_int A 0;
  l_log_exp : forall x, a_log A (a_abs A (a_exp A x)) = x
}.

Section Pipe.
Context {V : Type} (A : alg V) (ref : V -> V -> Prop) (iexp : bool) (L : cas_laws A ref iexp).

Lemma auto_sound fits xv cv depth rf e r : automatic_simplify true iexp fits depth rf e = Some r -> ref (ev A xv cv r) (ev A xv cv e).
Proof.
  destruct L. intros H. eapply (automatic_simplify_sound A ref iexp xv cv); try eassumption; reflexivity.
Qed.
Lemma int_mul_0_from k : a_mul A (a_of_int A k) (a_of_int A 0) = a_of_int A 0.
Proof. destruct L. rewrite <- l_int_mul0, Z.mul_0_r. reflexivity. Qed.
Lemma optional_sound xv cv depth e r : optional_modifications depth e = Some r -> ev A xv cv r = ev A xv cv e.
Proof. destruct L. intros H. eapply (optional_modifications_sound A xv cv); eassumption. Qed.
Lemma add_0_l_from a : a_add A (a_of_int A 0) a = a.
Proof. destruct L. rewrite l_add_comm0. apply l_add_0_r0. Qed.
Lemma mul_1_l_from a : a_mul A (a_of_int A 1) a = a.
Proof. destruct L. rewrite l_mul_comm0. apply l_mul_1_r0. Qed.

(* what fold_constants has to guarantee: every setting of the constants of its input is matched by a setting of the constants
   of its output, at all points simultaneously *)
Definition fold_contract (fold : cexpr -> cexpr) : Prop :=
  forall e cv, exists cv', forall xv, ref (ev A xv cv' (fold e)) (ev A xv cv e).

Theorem simplify_pipeline fits fold s e0 e1 e3 out fuel :
  fold_contract fold -> scoped s -> s <> [] ->
  build_cas s = Some e0 -> automatic_simplify true iexp fits fuel fuel e0 = Some e1 ->
  optional_modifications fuel (fold e1) = Some e3 -> arity_ok e3 = true -> build_agraph_stack e3 = Some out ->
  out <> [] /\ scoped out /\
  forall cv, exists cv', forall xv, ref (sem A xv cv' (denote (renumber out 0))) (sem A xv cv (denote s)).
Proof.
  intros FC Sc NE H0 H1 H3 Ok H4.
  assert (B0 := fun xv cvx => build_agraph_stack_sound A xv (l_add_assoc A ref iexp L) (l_add_0_r A ref iexp L) add_0_l_from
                                (l_mul_assoc A ref iexp L) (l_mul_1_r A ref iexp L) mul_1_l_from cvx e3 out Ok H4).
  pose (xv0 := fun _ : Z => a_of_int A 0). destruct (B0 xv0 xv0) as (NO & SO & _).
  split; [exact NO|]. split; [exact SO|]. intros cv.
  destruct (FC e1 (cv_row cv s)) as (c2 & Hc2).
  exists (fun j => c2 (nth (Z.to_nat j) (result_ids e3) 0)). intros xv.
  destruct (B0 xv c2) as (_ & _ & _ & Hs). rewrite Hs by (intros j Hj; rewrite Nat2Z.id; reflexivity).
  rewrite (optional_sound xv c2 _ _ _ H3).
  eapply (l_trans A ref iexp L); [apply Hc2|]. eapply (l_trans A ref iexp L); [apply (auto_sound fits xv _ _ _ _ _ H1)|].
  rewrite (build_cas_sound A xv (l_add_0_r A ref iexp L) (l_mul_1_r A ref iexp L) cv s e0 Sc NE H0). apply (l_refl A ref iexp L).
Qed.
End Pipe.

(* ---------- honesty about the unguarded reading ---------- *)
(* Read with equality for the preorder and WITHOUT the integer-exponent guard, the identities force 0 = 1: they encode x/x = 1 and
   0 * y = 0 at once.  So for expressions with general (non-integer) exponents the theorems relative to [cas_laws A eq false] only
   certify WHICH identities are used; the pointwise statement over the reals is the one with the refinement preorder and
   iexp = true (Proofs/CasReal.v). *)
Theorem cas_laws_degenerate {V : Type} (A : alg V) : cas_laws A eq false -> a_of_int A 0 = a_of_int A 1.
Proof.
  intros L. destruct L.
  assert (G : forall e1 e2 : V, false = true -> is_iv A e1 /\ is_iv A e2) by (intros ? ? X; discriminate X).
  assert (E : a_mul A (a_pow A (a_of_int A 0) (a_of_int A 1)) (a_pow A (a_of_int A 0) (a_of_int A (-1))) = a_of_int A 1).
  { rewrite <- (l_pow_add0 _ _ _ (G _ _)), <- l_int_add0. change (1 + -1) with 0. symmetry. apply l_pow_0_r0. }
  rewrite l_pow_1_r0 in E. rewrite <- E. rewrite l_mul_comm0. apply l_mul_0_r0.
Qed.

(* the identities used by the two interpreter translations and by the optional modifications DO have non-degenerate models *)
Definition z_ring : alg Z :=
  mkAlg Z (fun k => k) 0 Z.add Z.sub Z.mul Z.div (fun b _ => b) (fun _ => 0) (fun _ => 1) (fun _ => 0) (fun _ => 1) (fun _ => 1)
        (fun _ => 0) Z.abs (fun x => x) Z.sgn.

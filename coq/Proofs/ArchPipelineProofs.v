From Coq Require Import List Bool Arith Lia.
From Bingo Require Import Model.Pipeline Model.ArchPipeline Proofs.PipelineProofs.
Import ListNotations.

Section P.
Variables (G F : Type) (fit : G -> F) (opt : G -> G) (feq : F -> F -> bool).
Hypothesis feq_refl : forall v, feq v v = true.
Variable g0 : G.
Notation island_inv := (island_inv G F fit).
Notation popok := (popok G F fit).

Lemma set_nth_Forall {A} (P : A -> Prop) : forall (l : list A) k x, Forall P l -> P x -> Forall P (set_nth l k x).
Proof.
  induction l as [|y l IH]; intros k x H Hx; [constructor|]. inversion H as [|? ? Hy Hl]; subst.
  destruct k as [|k]; cbn [set_nth]; constructor; auto.
Qed.
Lemma nth_error_Forall {A} (P : A -> Prop) (l : list A) k x : Forall P l -> nth_error l k = Some x -> P x.
Proof. intros H E. rewrite Forall_forall in H. apply H. eapply nth_error_In; eauto. Qed.

Lemma members_popok pop ks : Forall popok pop -> Forall popok (members G F g0 pop ks).
Proof.
  intros H. unfold members. rewrite Forall_forall. intros i Hi. apply in_map_iff in Hi as [k [<- _]]. apply nth_popok. exact H.
Qed.

(* operations on a single island that bring individuals from OUTSIDE the archipelago must bring valid ones; exchanges between
   islands need no premise *)
Definition aop_ok (o : aop G F) : Prop := match o with AIsland _ _ _ io => iop_ok G F fit io | _ => True end.

Lemma arch_op_ok a isls o : Forall island_inv isls -> aop_ok o ->
  (exists isls', arch_op G F fit opt feq g0 a isls o = Ok isls' /\ Forall island_inv isls')
  \/ arch_op G F fit opt feq g0 a isls o = BadOracle.
Proof.
  intros HI Ho. destruct o as [k io|k1 k2 keep1 leave1 keep2 leave2]; cbn [arch_op]; unfold island in *.
  - destruct (nth_error isls k) as [st|] eqn:E; [|right; reflexivity].
    pose proof (nth_error_Forall _ _ _ _ HI E) as Hst.
    destruct (island_op_ok G F fit opt feq feq_refl g0 a st io Hst Ho) as [(st' & E' & I')|E']; rewrite E'; [|right; reflexivity].
    left. eexists. split; [reflexivity|]. apply set_nth_Forall; assumption.
  - destruct (nth_error isls k1) as [[p1 a1]|] eqn:E1; [|right; reflexivity].
    destruct (nth_error isls k2) as [[p2 a2]|] eqn:E2; [|right; reflexivity].
    destruct (Nat.eqb k1 k2); [right; reflexivity|].
    pose proof (nth_error_Forall _ _ _ _ HI E1) as H1. pose proof (nth_error_Forall _ _ _ _ HI E2) as H2.
    assert (O1 : iop_ok G F fit (IMigrate G F keep1 (members G F g0 p2 leave2))) by (apply members_popok; exact (proj2 H2)).
    assert (O2 : iop_ok G F fit (IMigrate G F keep2 (members G F g0 p1 leave1))) by (apply members_popok; exact (proj2 H1)).
    destruct (island_op_ok G F fit opt feq feq_refl g0 a (p1, a1) _ H1 O1) as [(s1 & Es1 & I1)|Es1]; rewrite Es1; [|right; reflexivity].
    destruct (island_op_ok G F fit opt feq feq_refl g0 a (p2, a2) _ H2 O2) as [(s2 & Es2 & I2)|Es2]; rewrite Es2; [|right; reflexivity].
    left. eexists. split; [reflexivity|]. apply set_nth_Forall; [apply set_nth_Forall|]; assumption.
Qed.

Theorem arch_run_ok a : forall ops isls, Forall island_inv isls -> Forall aop_ok ops ->
  (exists isls', arch_run G F fit opt feq g0 a isls ops = Ok isls' /\ Forall island_inv isls')
  \/ arch_run G F fit opt feq g0 a isls ops = BadOracle.
Proof.
  induction ops as [|o r IH]; intros isls HI Ho; cbn [arch_run]; [left; eauto|]. inversion Ho as [|? ? Ho1 Hor]; subst.
  destruct (arch_op_ok a isls o HI Ho1) as [(isls' & E & I')|E]; rewrite E; [|right; reflexivity].
  apply IH; assumption.
Qed.
End P.

(* Proofs for Model/Parse.v (property C16): the row-by-row printer prints the tree the stack denotes; the round trip. *)
From Coq Require Import ZArith List Bool Lia ZifyBool.
From Bingo Require Import Lib.Alg Gen.OpDefs Gen.OpEval Gen.Strings Model.Stack Model.Parse Model.ParseTree
     Proofs.ReduceProofs Proofs.ParseProofs Proofs.BuildProofs Proofs.LexProofs.
Import ListNotations.
Local Open Scope Z_scope.

Section Pr.
Variable C : Type.
Variable lit : C -> str.
Variable consts : list C.

Definition const_text (k : Z) : str :=
  if (k =? -1) || (Z.of_nat (length consts) <=? k) then [63]
  else match nth_error consts (Z.to_nat (pyidx (Z.of_nat (length consts)) k)) with Some v => lit v | None => [63] end.
(* the printed tree of an expression *)
Fixpoint to_p (e : expr) : pexpr :=
  match e with
  | EInt z => if 0 <=? z then PInt z else PLitc (dec z)
  | EX k => PVar k
  | EC k => PLitc (const_text k)
  | EOp1 f a => POp1 f (to_p a)
  | EOp2 op a b =>
      if op =? ADDITION then PAdd (to_p a) (to_p b) else if op =? SUBTRACTION then PSub (to_p a) (to_p b)
      else if op =? SAFE_POWER then PSafe (to_p a) (to_p b)
      else PBin op (if op =? POWER then 2 else 1) (op =? POWER) (to_p a) (to_p b)
  end.
Definition pr (e : expr) : str := render false (to_p e).

(* expressions the printer and the parser agree on: known operators, existing finite constants, non-negative variable indices *)
Fixpoint printable (e : expr) : bool :=
  match e with
  | EInt z => z <=? 9223372036854775807
  | EX k => 0 <=? k
  | EC k => (0 <=? k) && (k <? Z.of_nat (length consts)) && lit_ok (const_text k)
  | EOp1 f a => existsb (Z.eqb f) [SIN; COS; SINH; COSH; EXPONENTIAL; LOGARITHM; ABS; SQRT] && printable a
  | EOp2 op a b => existsb (Z.eqb op) [ADDITION; SUBTRACTION; MULTIPLICATION; DIVISION; POWER; SAFE_POWER] && printable a && printable b
  end.

Lemma fmt1 t a b b' : forallb (fun p => match p with PArg (S _) => false | _ => true end) t = true -> fmt t a b = fmt t a b'.
Proof.
  unfold fmt. induction t as [|p t IH]; intros H; [reflexivity|]. cbn [forallb] in H. apply andb_prop in H as [H1 H2].
  cbn [flat_map]. rewrite (IH H2). destruct p as [s|[|k]]; [reflexivity|reflexivity|discriminate H1].
Qed.

(* one row: the printer's template substitution is the rendering of the row's tree *)
Lemma print_row_tree (es : list expr) (c : cmd) :
  printable (mk_expr c (lookup es (EInt 0))) = true ->
  (is_terminal (node_of c) = true \/ (0 <= p1_of c < Z.of_nat (length es) /\ 0 <= p2_of c < Z.of_nat (length es))) ->
  print_row C lit consts (map pr es) c = pr (mk_expr c (lookup es (EInt 0))).
Proof.
  intros Hp Hs. unfold print_row, mk_expr in *. remember (node_of c) as n eqn:En. clear En.
  destruct (n =? INTEGER) eqn:E1.
  { apply Z.eqb_eq in E1. subst n. change (INTEGER =? VARIABLE) with false. change (INTEGER =? CONSTANT) with false. cbn iota.
    unfold pr. cbn [to_p]. destruct (0 <=? p1_of c); reflexivity. }
  destruct (n =? VARIABLE) eqn:E2.
  { reflexivity. }
  destruct (n =? CONSTANT) eqn:E3.
  { unfold pr. cbn [to_p render]. unfold const_text. reflexivity. }
  assert (T : is_terminal n = false).
  { destruct (is_terminal n) eqn:T; [|reflexivity]. destruct (is_terminal_true _ T) as [E|[E|E]]; rewrite E in *; discriminate. }
  destruct Hs as [Hs|[B1 B2]]; [congruence|].
  assert (L1 : lookup (map pr es) [] (p1_of c) = pr (lookup es (EInt 0) (p1_of c))).
  { rewrite !lookup_nat by lia. rewrite (nth_indep _ [] (pr (EInt 0))) by (rewrite map_length; lia). apply map_nth. }
  assert (L2 : lookup (map pr es) [] (p2_of c) = pr (lookup es (EInt 0) (p2_of c))).
  { rewrite !lookup_nat by lia. rewrite (nth_indep _ [] (pr (EInt 0))) by (rewrite map_length; lia). apply map_nth. }
  rewrite L1, L2. set (A := lookup es (EInt 0) (p1_of c)) in *. set (B := lookup es (EInt 0) (p2_of c)) in *.
  destruct (is_arity_2 n) eqn:A2.
  - cbn [printable existsb] in Hp. apply andb_prop in Hp as [Hp _]. apply andb_prop in Hp as [Hop _].
    unfold ADDITION, SUBTRACTION, MULTIPLICATION, DIVISION, POWER, SAFE_POWER in Hop.
    assert (Cn : n = 2 \/ n = 3 \/ n = 4 \/ n = 5 \/ n = 10 \/ n = 13) by lia.
    destruct Cn as [-> | [-> | [-> | [-> | [-> | ->]]]]]; unfold pr; cbn; rewrite ?app_nil_r; repeat rewrite <- app_assoc; cbn [app]; reflexivity.
  - cbn [printable existsb] in Hp. apply andb_prop in Hp as [Hop _].
    unfold SIN, COS, SINH, COSH, EXPONENTIAL, LOGARITHM, ABS, SQRT in Hop.
    assert (Cn : n = 6 \/ n = 7 \/ n = 14 \/ n = 15 \/ n = 8 \/ n = 9 \/ n = 11 \/ n = 12) by lia.
    destruct Cn as [-> | [-> | [-> | [-> | [-> | [-> | [-> | ->]]]]]]]; unfold pr; cbn; rewrite ?app_nil_r; repeat rewrite <- app_assoc; cbn [app]; reflexivity.
Qed.

Theorem print_all_tree (s : stack) : scoped s -> forallb printable (denote_all s) = true ->
  print_all C lit consts s = map pr (denote_all s).
Proof.
  induction s as [|c s IH] using rev_ind; intros S P; [reflexivity|].
  rewrite denote_all_snoc in *. rewrite forallb_app in P. apply andb_prop in P as [P1 P2]. cbn [forallb] in P2. rewrite andb_true_r in P2.
  assert (S' : scoped s).
  { intros j Hj. specialize (S j ltac:(rewrite app_length; cbn; lia)). rewrite app_nth1 in S by lia. exact S. }
  unfold print_all in *. rewrite fold_left_app. cbn [fold_left]. rewrite (IH S' P1). rewrite map_app. cbn [map]. f_equal. f_equal.
  apply print_row_tree; [exact P2|]. rewrite denote_all_length.
  specialize (S (length s) ltac:(rewrite app_length; cbn; lia)). rewrite app_nth2, Nat.sub_diag in S by lia. exact S.
Qed.
Corollary sympy_string_tree (s : stack) : s <> [] -> scoped s -> forallb printable (denote_all s) = true ->
  sympy_string C lit consts s = pr (denote s).
Proof.
  intros NE S P. unfold sympy_string, denote. rewrite (print_all_tree s S P).
  destruct (exists_last NE) as (s' & c & ->). rewrite denote_all_snoc, map_app. cbn [map]. rewrite !last_last. reflexivity.
Qed.

(* the printed tree is printable text and a well-formed parse tree *)
Lemma neg_digits_lit_ok d : d <> [] -> forallb is_digit d = true -> lit_ok (45 :: d) = true.
Proof.
  intros NE Dg.
  assert (Lc : forallb lit_char d = true) by (eapply forallb_weaken; [|exact Dg]; unfold lit_char; intros x Hx; rewrite Hx; reflexivity).
  assert (Mo : minus_ok d = true).
  { clear -Dg. induction d as [|x r IH]; [reflexivity|]. cbn [forallb] in Dg. apply andb_prop in Dg as [D1 D2]. cbn [minus_ok].
    rewrite (IH D2), andb_true_r. unfold is_digit in D1. destruct r; lia. }
  assert (Ld : is_digit (last (45 :: d) 0) = true).
  { destruct (exists_last NE) as (u & x & ->). change (45 :: u ++ [x]) with ((45 :: u) ++ [x]). rewrite last_last.
    rewrite forallb_app in Dg. apply andb_prop in Dg as [_ Dx]. cbn [forallb] in Dx. rewrite andb_true_r in Dx. exact Dx. }
  unfold lit_ok. rewrite Ld, andb_true_r. destruct d as [|d0 ds]; [congruence|].
  cbn [forallb] in Dg. apply andb_prop in Dg as [D0 Dr]. cbn [forallb] in Lc. 
  change (forallb lit_char (45 :: d0 :: ds)) with (lit_char 45 && forallb lit_char (d0 :: ds)). cbn [forallb]. rewrite Lc.
  change (minus_ok (45 :: d0 :: ds)) with ((negb (45 =? 45) || is_digit d0) && minus_ok (d0 :: ds)). rewrite Mo, D0.
  reflexivity.
Qed.
Lemma dec_negative z : z < 0 -> lit_ok (dec z) = true.
Proof.
  intros H. unfold dec. destruct (Z.ltb_spec z 0); [|lia].
  assert (B : 0 <= - z < 2 ^ Z.of_nat (S (Z.to_nat (Z.log2 (- z))))).
  { split; [lia|]. rewrite Nat2Z.inj_succ, Z2Nat.id by apply Z.log2_nonneg. apply Z.log2_spec. lia. }
  destruct (dec_pos_spec _ _ B) as (_ & Dg & NE). apply neg_digits_lit_ok; [apply NE; lia|exact Dg].
Qed.
Lemma printable_text e : printable e = true -> text_ok (to_p e) = true.
Proof.
  induction e as [z|k|k|f a IHa|op a IHa b IHb]; cbn [printable to_p]; intros H.
  - destruct (Z.leb_spec 0 z) as [L|L]; cbn [text_ok]; [rewrite H, andb_true_r; apply Z.leb_le; exact L|apply dec_negative; exact L].
  - exact H.
  - apply andb_prop in H as [_ H]. exact H.
  - apply andb_prop in H as [H1 H2]. cbn [text_ok]. rewrite H1, (IHa H2). reflexivity.
  - apply andb_prop in H as [H Hb]. apply andb_prop in H as [Hop Ha]. cbn [existsb] in Hop.
    unfold ADDITION, SUBTRACTION, MULTIPLICATION, DIVISION, POWER, SAFE_POWER in *.
    assert (Cn : op = 2 \/ op = 3 \/ op = 4 \/ op = 5 \/ op = 10 \/ op = 13) by lia.
    destruct Cn as [-> | [-> | [-> | [-> | [-> | ->]]]]]; cbn; rewrite (IHa Ha), (IHb Hb); reflexivity.
Qed.
Lemma text_p_ok e : text_ok e = true -> p_ok e = true.
Proof.
  induction e as [k|k|t|f a IHa|a IHa b IHb|a IHa b IHb|n pr0 w a IHa b IHb|a IHa b IHb]; cbn [text_ok p_ok]; intros H; try reflexivity; try exact H.
  - apply andb_prop in H as [_ H]. exact H.
  - apply andb_prop in H as [Hf Ha]. rewrite (IHa Ha), andb_true_r. cbn [existsb] in Hf.
    unfold SIN, COS, SINH, COSH, EXPONENTIAL, LOGARITHM, ABS, SQRT in Hf.
    assert (Cn : f = 6 \/ f = 7 \/ f = 14 \/ f = 15 \/ f = 8 \/ f = 9 \/ f = 11 \/ f = 12) by lia.
    destruct Cn as [-> | [-> | [-> | [-> | [-> | [-> | [-> | ->]]]]]]]; reflexivity.
  - apply andb_prop in H as [Ha Hb]. rewrite (IHa Ha), (IHb Hb). reflexivity.
  - apply andb_prop in H as [Ha Hb]. rewrite (IHa Ha), (IHb Hb). reflexivity.
  - apply andb_prop in H as [H Hb]. apply andb_prop in H as [Hop Ha]. rewrite (IHa Ha), (IHb Hb), !andb_true_r.
    unfold MULTIPLICATION, DIVISION, POWER in Hop.
    assert (Cn : (n = 4 /\ pr0 = 1) \/ (n = 5 /\ pr0 = 1) \/ (n = 10 /\ pr0 = 2)) by lia.
    destruct Cn as [[-> ->] | [[-> ->] | [-> ->]]]; reflexivity.
  - apply andb_prop in H as [Ha Hb]. rewrite (IHa Ha), (IHb Hb). reflexivity.
Qed.
End Pr.

(* ---------- the round trip: print, tokenize, shunting-yard, build ---------- *)
Section RoundTrip.
Variable C : Type.
Variable lit : C -> str.
Variable consts : list C.
Variable isf : str -> bool.

Theorem print_parse_roundtrip (s : stack) :
  s <> [] -> scoped s -> forallb (printable C lit consts) (denote_all s) = true ->
  let e := to_p C lit consts (denote s) in
  (forall t, In t (p_lits e) -> isf t = true) ->
  exists rows, parse isf (sympy_string C lit consts s) = Some (rows, q_lits (recov e None)) /\
               rows <> [] /\ scoped rows /\ denote rows = fst (q_expr (recov e None) 0).
Proof.
  intros NE S P e L.
  assert (Pd : printable C lit consts (denote s) = true).
  { rewrite forallb_forall in P. apply P. unfold denote. destruct (exists_last NE) as (s' & c & ->).
    rewrite denote_all_snoc, last_last. apply in_or_app. right. left. reflexivity. }
  assert (T : text_ok e = true) by (apply printable_text; exact Pd).
  rewrite (sympy_string_tree C lit consts s NE S P). unfold pr. fold e. unfold parse.
  rewrite (tokenize_render e T). rewrite (classify_toks isf e T L).
  destruct (parse_printed_tokens e (text_p_ok e T)) as (rows & I2P & B & NR & SR & D).
  rewrite I2P, B. exists rows. auto.
Qed.

Context {V : Type} (A : alg V).
Variable xv cv : Z -> V.
Variable val : str -> V.
Hypothesis val_const : forall k, 0 <= k < Z.of_nat (length consts) -> val (const_text C lit consts k) = cv k.
Hypothesis val_negint : forall z, z < 0 -> val (dec z) = a_of_int A z.

Lemma to_p_sem e : printable C lit consts e = true -> psem A xv val (to_p C lit consts e) = sem A xv cv e.
Proof.
  induction e as [z|k|k|f a IHa|op a IHa b IHb]; cbn [printable to_p]; intros H.
  - destruct (Z.leb_spec 0 z) as [Lz|Lz]; cbn [psem sem]; [reflexivity|apply val_negint; exact Lz].
  - reflexivity.
  - cbn [psem sem]. apply andb_prop in H as [H _]. apply andb_prop in H as [H1 H2]. apply val_const. lia.
  - apply andb_prop in H as [_ Ha]. cbn [psem sem]. rewrite (IHa Ha). reflexivity.
  - apply andb_prop in H as [H Hb]. apply andb_prop in H as [Hop Ha]. cbn [existsb] in Hop.
    unfold ADDITION, SUBTRACTION, MULTIPLICATION, DIVISION, POWER, SAFE_POWER in *.
    assert (Cn : op = 2 \/ op = 3 \/ op = 4 \/ op = 5 \/ op = 10 \/ op = 13) by lia.
    destruct Cn as [-> | [-> | [-> | [-> | [-> | ->]]]]]; cbn [Z.eqb Pos.eqb psem sem]; rewrite (IHa Ha), (IHb Hb); reflexivity.
Qed.
End RoundTrip.

From Coq Require Import List Bool Arith Lia.
From Bingo Require Import Model.EvalPhase.
Import ListNotations.

Section Proofs.
Variables (G F : Type) (fit : G -> F) (opt : G -> G) (k : G -> nat).
Notation indiv := (indiv G F).
Notation fitness_call := (fitness_call G F fit opt k).
Notation serial_eval := (serial_eval G F fit opt k).
Notation multiprocess_eval := (multiprocess_eval G F fit opt k).
Notation submit := (submit G F fit opt k).
Notation due := (due G F).

(* what an evaluated individual looks like, given what it was *)
Definition evaluated (i i' : indiv) : Prop :=
  genome G F i' = opt (genome G F i) /\ fitness G F i' = Some (fit (opt (genome G F i))) /\ fit_set G F i' = true.

(* invocations a population costs *)
Fixpoint cost (redundant : bool) (pop : list indiv) : nat :=
  match pop with
  | [] => 0
  | i :: r => (if due redundant i then k (genome G F i) + 1 else 0) + cost redundant r
  end.

Lemma serial_spec red : forall pop c c' pop', serial_eval red c pop = (c', pop') ->
  Forall2 (fun i i' => if due red i then evaluated i i' /\ oid G F i' = oid G F i else i' = i) pop pop' /\
  count c' = count c + cost red pop /\ ghost c' = ghost c + cost red pop.
Proof.
  induction pop as [|i r IH]; intros c c' pop'; cbn [serial_eval cost].
  - intros [= <- <-]. repeat split; auto; lia.
  - destruct (due red i) eqn:Ed.
    + unfold fitness_call at 1. cbn zeta.
      destruct (serial_eval red _ r) as [c2 r'] eqn:Er. intros [= <- <-].
      destruct (IH _ _ _ Er) as (H1 & H2 & H3). simpl in H2, H3. split; [|split; lia].
      constructor; auto. rewrite Ed. unfold evaluated. simpl. auto.
    + destruct (serial_eval red c r) as [c2 r'] eqn:Er. intros [= <- <-].
      destruct (IH _ _ _ Er) as (H1 & H2 & H3). split; [|split; lia].
      constructor; auto. rewrite Ed. reflexivity.
Qed.

(* ---- multiprocess ---- *)
Lemma upd_app_len {A} (pre : list A) x r y : upd (pre ++ x :: r) (length pre) y = pre ++ y :: r.
Proof. induction pre as [|p pre IH]; simpl; auto. f_equal; auto. Qed.

Lemma fold_consume red c0 : forall (rest pre pre_new : list indiv) fresh cacc,
  length pre_new = length pre ->
  let results := submit red c0 rest (length pre) fresh in
  exists rest',
    fold_left (consume G F) results (cacc, pre_new ++ rest) =
      (mkCounter (count cacc + cost red rest) (ghost cacc), pre_new ++ rest') /\
    Forall2 (fun i i' => if due red i then evaluated i i' /\ fresh <= oid G F i' else i' = i) rest rest' /\
    fold_right (fun r a => jr_worker_ghost G F r + a) 0 results = cost red rest.
Proof.
  induction rest as [|i r IH]; intros pre pre_new fresh cacc Hl; cbn [submit cost].
  - exists []. simpl. repeat split; auto. destruct cacc; simpl. f_equal. f_equal. lia.
  - destruct (due red i) eqn:Ed.
    + cbn [fold_left fold_right]. unfold consume at 2. unfold fitness_job. unfold fitness_call. cbn zeta. cbn [jr_extra jr_slot jr_ind jr_worker_ghost count ghost].
      rewrite <- Hl. rewrite upd_app_len.
      set (i' := mkIndiv G F fresh (opt (genome G F i)) (Some (fit (opt (genome G F i)))) true).
      specialize (IH (pre ++ [i]) (pre_new ++ [i']) (S fresh)
                     (mkCounter (count cacc + (count c0 + k (genome G F i) + 1 - count c0)) (ghost cacc))).
      rewrite !app_length in IH. simpl in IH. rewrite Hl in IH. specialize (IH eq_refl).
      rewrite Nat.add_1_r in IH. rewrite <- !app_assoc in IH. simpl in IH. rewrite Hl.
      destruct IH as (rest' & E & Hf & Hg). exists (i' :: rest'). split; [|split].
      * cbn [genome oid fitness fit_set EvalPhase.genome EvalPhase.oid]. fold i'.
        rewrite <- app_assoc in E. simpl in E. rewrite E. f_equal. f_equal. lia.
      * constructor.
        -- rewrite Ed. unfold evaluated, i'. simpl. auto.
        -- clear -Hf. induction Hf as [|a b la lb Hab Hf IHf]; constructor; auto.
           destruct (due red a); auto. destruct Hab as [H1 H2]. split; auto. lia.
      * rewrite Hg. cbn [jr_worker_ghost ghost count genome EvalPhase.genome]. lia.
    + specialize (IH (pre ++ [i]) (pre_new ++ [i]) fresh cacc).
      rewrite !app_length in IH. simpl in IH. rewrite Hl in IH. specialize (IH eq_refl).
      rewrite Nat.add_1_r in IH. rewrite <- !app_assoc in IH. simpl in IH.
      destruct IH as (rest' & E & Hf & Hg). exists (i :: rest'). split; [|split]; auto.
      * rewrite <- app_assoc in E. simpl in E. rewrite E. reflexivity.
      * constructor; auto. rewrite Ed. reflexivity.
Qed.

Lemma multi_spec red perm fresh c pop c' pop' wg :
  multiprocess_eval red perm fresh c pop = (c', pop', wg) ->
  Forall2 (fun i i' => if due red i then evaluated i i' /\ fresh <= oid G F i' else i' = i) pop pop' /\
  count c' = count c + cost red pop /\ ghost c' = ghost c /\ wg = cost red pop.
Proof.
  unfold multiprocess_eval.
  destruct (fold_consume red c pop [] [] fresh c eq_refl) as (rest' & E & Hf & Hg).
  simpl in E. cbn zeta in E. simpl app in E. rewrite E. intros [= <- <- <-]. simpl. auto.
Qed.

(* multiprocess evaluation = serial evaluation: same genomes, fitness values and flags in every slot,
   same reported evaluation count; whatever the completion order *)
Theorem multi_equals_serial red perm fresh c pop :
  let '(cm, popm, wg) := multiprocess_eval red perm fresh c pop in
  let '(cs, pops) := serial_eval red c pop in
  count cm = count cs /\
  map (fun i => (genome G F i, fitness G F i, fit_set G F i)) popm
  = map (fun i => (genome G F i, fitness G F i, fit_set G F i)) pops /\
  count cm - count c = wg.
Proof.
  destruct (multiprocess_eval red perm fresh c pop) as [[cm popm] wg] eqn:Em.
  destruct (serial_eval red c pop) as [cs pops] eqn:Es.
  destruct (multi_spec _ _ _ _ _ _ _ _ Em) as (M1 & M2 & M3 & M4).
  destruct (serial_spec _ _ _ _ _ Es) as (S1 & S2 & S3).
  split; [lia|]. split; [|lia].
  clear -M1 S1. revert popm pops M1 S1. induction pop as [|i r IH]; intros popm pops M1 S1;
    inversion M1; inversion S1; subst; simpl; auto.
  f_equal; [|apply IH; auto].
  destruct (due red i).
  - destruct H1 as [(A1 & A2 & A3) _]. destruct H6 as [(B1 & B2 & B3) _]. congruence.
  - congruence.
Qed.

Theorem multi_independent_of_completion_order red perm1 perm2 fresh c pop :
  multiprocess_eval red perm1 fresh c pop = multiprocess_eval red perm2 fresh c pop.
Proof. reflexivity. Qed.

End Proofs.

(* ---- archipelago: the reported total is the sum over the islands' own counters ---- *)
Lemma archipelago_count_is_ghost cs :
  Forall (fun c => count c = ghost c) cs -> archipelago_count cs = archipelago_ghost cs.
Proof. induction 1; simpl; auto. Qed.

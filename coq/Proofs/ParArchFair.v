(* Property C12, liveness part 2: once rank 0 has left its loop (it is sending exit notifications or beyond), the call
   completes on every rank under every ROUND-ROBIN continuation - a sequence of rounds, each a permutation of the ranks in any
   order - within a number of rounds bounded by a potential of the state.  No pacing premise is needed from that point on: the
   premise of the property (helpers must not flood rank 0) only matters while rank 0 is still inside its loop, draining the
   mailbox.  (Termination of the loop phase itself under fair, paced schedules is not proved.) *)
From Coq Require Import ZArith List Bool Lia Permutation.
From Bingo Require Import Model.ParArch Proofs.ParArchProofs Proofs.ParArchLive.
Import ListNotations.
Local Open Scope nat_scope.

Section Fair.
Variable n : nat.
Variable sync target : Z.
Hypothesis n_pos : 1 <= n.
Hypothesis sync_nonneg : (0 <= sync)%Z.
Notation step := (step n sync target).
Notation Inv := (Inv n target).
Notation run := (run n sync target).

(* rank 0 is past its loop and past the exit notifications *)
Definition late (p : pc) : bool := match p with BarArrive | BarLeave | Probe true | Recv true _ | Done => true | _ => false end.
Definition sending (p : pc) : bool := match p with SendExit _ => true | _ => false end.
Definition A : nat := 6 * n.
Definition Phi (s : state) : nat := A * ph0 n (pc_of s 0) + 3 * hd s + 2 * length (mbox s) + flag (pc_of s 0).

(* ---------- what one step does to the potential ---------- *)
Lemma step0_phi s s' : Inv s -> post_loop (pc_of s 0) = true -> step s 0 = Some s' ->
  Phi s' + 1 <= Phi s /\ (sending (pc_of s 0) = true -> Phi s' + A <= Phi s) /\
  post_loop (pc_of s' 0) = true /\ (late (pc_of s 0) = true -> late (pc_of s' 0) = true).
Proof.
  intros HI PL H. destruct (i_len _ _ _ HI) as (L1 & _). assert (L1' : 1 <= length (pcs s)) by lia.
  pose proof (i_pc0 _ _ _ HI) as P0. unfold ParArch.step in H. fold (pc_of s 0) in H. unfold Phi, A.
  remember (pc_of s 0) as p0 eqn:Ep. destruct p0 as [|f|f src|k| | | | | |]; try discriminate PL; try (destruct P0; fail); try discriminate H.
  - (* Probe true *) destruct f; [|discriminate PL]. destruct (mbox s) as [|[src v] m] eqn:Em.
    + injection H as <-. unfold set_pc. rewrite (pc0_upd n n_pos) by exact L1'. rewrite hd_upd_0. cbn [mbox ph0 flag late sending post_loop].
      rewrite Em. cbn [length]. repeat split; try discriminate; nia.
    + injection H as <-. unfold set_pc. rewrite (pc0_upd n n_pos) by exact L1'. rewrite hd_upd_0. cbn [mbox ph0 flag late sending post_loop].
      rewrite Em. cbn [length]. repeat split; try discriminate; nia.
  - (* Recv true *) destruct f; [|discriminate PL]. destruct (take_from src (mbox s)) as [[v m']|] eqn:Et; [|discriminate H].
    injection H as <-. rewrite (pc0_upd n n_pos) by exact L1'. rewrite hd_upd_0. cbn [mbox ph0 flag late sending post_loop].
    rewrite (take_from_length _ _ _ _ Et). cbn [length]. repeat split; try discriminate; nia.
  - (* SendExit *) injection H as <-. rewrite (pc0_upd n n_pos) by exact L1'. rewrite hd_upd_0. cbn [mbox flag late sending post_loop].
    cbn in P0. destruct (Nat.ltb_spec (S k) n); cbn [ph0 flag post_loop]; repeat split; try discriminate; nia.
  - (* BarArrive *) injection H as <-. rewrite (pc0_upd n n_pos) by exact L1'. rewrite hd_upd_0. cbn [mbox ph0 flag late sending post_loop].
    repeat split; try discriminate; nia.
  - (* BarLeave *) destruct (all_arrived s); [|discriminate H]. cbn [Nat.eqb] in H. injection H as <-.
    rewrite (pc0_upd n n_pos) by exact L1'. rewrite hd_upd_0. cbn [mbox ph0 flag late sending post_loop]. repeat split; try discriminate; nia.
Qed.

Lemma stepH_phi s r s' : Inv s -> post_loop (pc_of s 0) = true -> 1 <= r < n -> step s r = Some s' ->
  pc_of s' 0 = pc_of s 0 /\ Phi s' <= Phi s + 6 /\ (late (pc_of s 0) = true -> Phi s' + 1 <= Phi s).
Proof.
  intros HI PL Hr H. destruct (i_len _ _ _ HI) as (L1 & _). pose proof (i_pch _ _ _ HI r Hr) as Ph.
  assert (R0 : Nat.eqb r 0 = false) by (apply Nat.eqb_neq; lia).
  assert (Ex : late (pc_of s 0) = true -> consumed (pc_of s r) = false -> nth r (exitf s) false = true).
  { intros Hl C. rewrite (i_exit _ _ _ HI) by lia. rewrite C. cbn [negb]. rewrite andb_true_r.
    assert (St : sent (pc_of s 0) r = true).
    { remember (pc_of s 0) as p0 eqn:Ep0. destruct p0 as [|f|f src|k| | | | | |]; try discriminate Hl; try reflexivity;
        destruct f; try discriminate Hl; reflexivity. }
    rewrite St. destruct r; [lia|reflexivity]. }
  unfold ParArch.step in H. fold (pc_of s r) in H. unfold Phi.
  remember (pc_of s r) as pr eqn:Epr. destruct pr; try (destruct Ph; fail); try discriminate H.
  - (* Evolve *) rewrite R0 in H. injection H as <-. rewrite (pc0_upd_helper n n_pos) by lia. cbn [mbox].
    pose proof (hd_upd_helper n n_pos s r SendAge (upd (age s) r (nth r (age s) 0 + sync)%Z) (total s) (mbox s) (exitf s) (arrived s) ltac:(lia)) as Hh.
    rewrite <- Epr in Hh. cbn [hdist] in Hh. repeat split; try intros _; lia.
  - (* SendAge *) injection H as <-. rewrite (pc0_upd_helper n n_pos) by lia. cbn [mbox]. rewrite app_length. cbn [length].
    pose proof (hd_upd_helper n n_pos s r ProbeExit (age s) (total s) (mbox s ++ [(r, nth r (age s) 0%Z)]) (exitf s) (arrived s) ltac:(lia)) as Hh.
    rewrite <- Epr in Hh. cbn [hdist] in Hh. repeat split; try intros _; lia.
  - (* ProbeExit *) injection H as <-. unfold set_pc. rewrite (pc0_upd_helper n n_pos) by lia. cbn [mbox].
    destruct (nth r (exitf s) false) eqn:Ef.
    + pose proof (hd_upd_helper n n_pos s r RecvExit (age s) (total s) (mbox s) (exitf s) (arrived s) ltac:(lia)) as Hh.
      rewrite <- Epr in Hh. cbn [hdist] in Hh. repeat split; try intros _; lia.
    + pose proof (hd_upd_helper n n_pos s r Evolve (age s) (total s) (mbox s) (exitf s) (arrived s) ltac:(lia)) as Hh.
      rewrite <- Epr in Hh. cbn [hdist] in Hh. repeat split; [lia|]. intros Hl. pose proof (Ex Hl eq_refl) as Et. first [discriminate Et | rewrite Ef in Et; discriminate Et].
  - (* RecvExit *) destruct (nth r (exitf s) false); [|discriminate H]. injection H as <-. rewrite (pc0_upd_helper n n_pos) by lia. cbn [mbox].
    pose proof (hd_upd_helper n n_pos s r BarArrive (age s) (total s) (mbox s) (upd (exitf s) r false) (arrived s) ltac:(lia)) as Hh.
    rewrite <- Epr in Hh. cbn [hdist] in Hh. repeat split; try intros _; lia.
  - (* BarArrive *) injection H as <-. rewrite (pc0_upd_helper n n_pos) by lia. cbn [mbox].
    pose proof (hd_upd_helper n n_pos s r BarLeave (age s) (total s) (mbox s) (exitf s) (upd (arrived s) r true) ltac:(lia)) as Hh.
    rewrite <- Epr in Hh. cbn [hdist] in Hh. repeat split; try intros _; lia.
  - (* BarLeave *) destruct (all_arrived s); [|discriminate H]. rewrite R0 in H. injection H as <-. unfold set_pc.
    rewrite (pc0_upd_helper n n_pos) by lia. cbn [mbox].
    pose proof (hd_upd_helper n n_pos s r Done (age s) (total s) (mbox s) (exitf s) (arrived s) ltac:(lia)) as Hh.
    rewrite <- Epr in Hh. cbn [hdist] in Hh. repeat split; try intros _; lia.
Qed.

(* ---------- enabledness, and its stability under the steps of other ranks ---------- *)
Definition enabled (s : state) (q : nat) : bool :=
  match pc_of s q with
  | Recv _ src => match take_from src (mbox s) with Some _ => true | None => false end
  | RecvExit => nth q (exitf s) false
  | BarLeave => all_arrived s
  | Done => false
  | _ => true
  end.
Lemma enabled_step s q : enabled s q = true <-> step s q <> None.
Proof.
  unfold enabled, ParArch.step. fold (pc_of s q). destruct (pc_of s q) as [|f|f src|k| | | | | |].
  - split; [intros _|reflexivity]. destruct (Nat.eqb q 0); discriminate.
  - split; [intros _|reflexivity]. destruct (mbox s) as [|[src v] m]; [destruct f|]; discriminate.
  - destruct (take_from src (mbox s)) as [[v m']|]; split; intros H; try discriminate; try reflexivity; congruence.
  - split; [intros _; discriminate|reflexivity].
  - split; [intros _; discriminate|reflexivity].
  - split; [intros _; discriminate|reflexivity].
  - destruct (nth q (exitf s) false); split; intros H; try discriminate; try reflexivity; congruence.
  - split; [intros _; discriminate|reflexivity].
  - destruct (all_arrived s); split; intros H; try reflexivity; try congruence. destruct (Nat.eqb q 0); discriminate.
  - split; intros H; [discriminate|congruence].
Qed.

Lemma all_arrived_upd s r : all_arrived s = true -> forallb (fun b => b) (upd (arrived s) r true) = true.
Proof.
  unfold all_arrived. generalize (arrived s). intros l. revert r. induction l as [|b l IH]; intros r H; [reflexivity|].
  cbn [forallb] in H. apply andb_prop in H as [Hb Hl]. destruct r; cbn [upd forallb]; [exact Hl|]. rewrite Hb. apply IH. exact Hl.
Qed.
Lemma nth_upd_true (l : list bool) i k : nth k l false = true -> nth k (upd l i true) false = true.
Proof. revert i k. induction l as [|b l IH]; intros [|i] [|k] H; cbn in *; auto. Qed.

Lemma enabled_mono s p q s' : Inv s -> p <> q -> step s p = Some s' -> enabled s q = true -> enabled s' q = true.
Proof.
  intros HI Npq H En. destruct (i_len _ _ _ HI) as (L1 & _).
  assert (Cases : p = 0 \/ 1 <= p) by lia.
  unfold ParArch.step in H. fold (pc_of s p) in H. unfold enabled in *.
  assert (K : forall x a t m e ar, pc_of (mkS (upd (pcs s) p x) a t m e ar) q = pc_of s q).
  { intros. unfold pc_of. cbn. apply nth_upd_ne. exact Npq. }
  assert (Q0 : q = 0 -> 1 <= p) by lia.
  (* the program counter of q is untouched; its enabling condition can only become true *)
  remember (pc_of s p) as pp eqn:Epp. destruct pp as [|f|f src|k| | | | | |]; try discriminate H.
  - (* Evolve *) destruct (Nat.eqb p 0); injection H as <-; rewrite K; cbn [mbox exitf all_arrived arrived]; exact En.
  - (* Probe *) destruct (mbox s) as [|[src v] m] eqn:Em; [destruct f|]; injection H as <-; unfold set_pc; rewrite K; cbn [mbox exitf];
      unfold all_arrived in *; cbn [arrived]; rewrite ?Em; exact En.
  - (* Recv: rank 0 takes a message; q is a helper, whose conditions do not involve the mailbox *)
    destruct (take_from src (mbox s)) as [[v m']|] eqn:Et; [|discriminate H]. injection H as <-. rewrite K. cbn [mbox exitf].
    unfold all_arrived in *. cbn [arrived].
    destruct (pc_of s q) eqn:Eq; try exact En.
    exfalso. destruct Cases as [->|Hp].
    + pose proof (i_pch _ _ _ HI q) as Ph. destruct (Nat.eq_dec q 0) as [->|Nq]; [congruence|].
      destruct (Nat.lt_ge_cases q n) as [Hq|Hq]; [specialize (Ph ltac:(lia)); rewrite Eq in Ph; destruct Ph|].
      unfold pc_of in Eq. rewrite nth_overflow in Eq by lia. discriminate Eq.
    + pose proof (i_pch _ _ _ HI p) as Ph. destruct (Nat.lt_ge_cases p n) as [Hq|Hq]; [specialize (Ph ltac:(lia)); rewrite <- Epp in Ph; destruct Ph|].
      unfold pc_of in Epp. rewrite nth_overflow in Epp by lia. discriminate Epp.
  - (* SendExit *) injection H as <-. rewrite K. cbn [mbox exitf]. unfold all_arrived in *. cbn [arrived].
    destruct (pc_of s q); try exact En. apply nth_upd_true. exact En.
  - (* SendAge *) injection H as <-. rewrite K. cbn [mbox exitf]. unfold all_arrived in *. cbn [arrived].
    destruct (pc_of s q); try exact En.
    destruct (take_from src (mbox s)) as [[v m']|] eqn:Et; [|discriminate En]. rewrite (take_from_app _ _ _ _ _ Et). reflexivity.
  - (* ProbeExit *) injection H as <-. unfold set_pc. rewrite K. cbn [mbox exitf]. unfold all_arrived in *. cbn [arrived]. exact En.
  - (* RecvExit *) destruct (nth p (exitf s) false); [|discriminate H]. injection H as <-. rewrite K. cbn [mbox exitf]. unfold all_arrived in *. cbn [arrived].
    destruct (pc_of s q); try exact En. rewrite nth_upd_ne by exact Npq. exact En.
  - (* BarArrive *) injection H as <-. rewrite K. cbn [mbox exitf]. unfold all_arrived. cbn [arrived].
    destruct (pc_of s q); try exact En. apply all_arrived_upd. exact En.
  - (* BarLeave *) destruct (all_arrived s) eqn:Ea; [|discriminate H]. destruct (Nat.eqb p 0); injection H as <-; unfold set_pc; rewrite K; cbn [mbox exitf];
      unfold all_arrived in *; cbn [arrived]; rewrite ?Ea; exact En.
Qed.

(* ---------- rounds ---------- *)
Definition helpers (l : list nat) : nat := length (filter (fun r => negb (Nat.eqb r 0)) l).
Definition good (s : state) : Prop := Inv s /\ post_loop (pc_of s 0) = true.

Lemma step_good s r s' : good s -> r < n -> step s r = Some s' ->
  good s' /\ Phi s' <= Phi s + (if Nat.eqb r 0 then 0 else 6) /\
  (late (pc_of s 0) = true -> late (pc_of s' 0) = true /\ Phi s' + 1 <= Phi s) /\
  (sending (pc_of s 0) = true -> r = 0 -> Phi s' + A <= Phi s) /\
  (r <> 0 -> pc_of s' 0 = pc_of s 0).
Proof.
  intros [HI PL] Hr H. pose proof (step_inv n sync target n_pos sync_nonneg s r s' HI H) as HI'.
  destruct r as [|r].
  - destruct (step0_phi s s' HI PL H) as (D1 & D2 & D3 & D4). cbn [Nat.eqb]. split; [split; assumption|]. split; [lia|].
    split; [intros Hl; split; [apply D4; exact Hl|exact D1]|]. split; [intros Hs _; apply D2; exact Hs|intros N; congruence].
  - destruct (stepH_phi s (S r) s' HI PL ltac:(lia) H) as (E1 & E2 & E3). cbn [Nat.eqb].
    split; [split; [exact HI'|rewrite E1; exact PL]|]. split; [exact E2|].
    split; [intros Hl; split; [rewrite E1; exact Hl|apply E3; exact Hl]|]. split; [intros _ N; discriminate N|intros _; exact E1].
Qed.

(* any list of ranks: the potential rises by at most 6 per helper entry *)
Lemma run_bound l : forall s, good s -> Forall (fun r => r < n) l ->
  good (run l s) /\ Phi (run l s) <= Phi s + 6 * helpers l /\ (late (pc_of s 0) = true -> late (pc_of (run l s) 0) = true /\ Phi (run l s) <= Phi s).
Proof.
  induction l as [|r l IH]; intros s G F; cbn [run]; [split; [exact G|]; split; [unfold helpers; cbn; lia|intros Hl; split; [exact Hl|lia]]|].
  inversion F as [|? ? Hr Fl]; subst. unfold helpers. cbn [filter]. fold (helpers l).
  destruct (step s r) as [s1|] eqn:E.
  - destruct (step_good s r s1 G Hr E) as (G1 & B1 & L1 & _ & _). destruct (IH s1 G1 Fl) as (G2 & B2 & L2).
    split; [exact G2|]. split.
    + destruct (Nat.eqb r 0); cbn [negb length]; fold (helpers l); lia.
    + intros Hl. destruct (L1 Hl) as [Hl1 D1]. destruct (L2 Hl1) as [Hl2 D2]. split; [exact Hl2|lia].
  - destruct (IH s G Fl) as (G2 & B2 & L2). split; [exact G2|]. split; [destruct (Nat.eqb r 0); cbn [negb length]; fold (helpers l); lia|exact L2].
Qed.

(* while rank 0 is sending exit notifications it is never blocked: a list containing rank 0 pays A *)
Lemma run_sending l : forall s, good s -> Forall (fun r => r < n) l -> sending (pc_of s 0) = true -> In 0 l ->
  Phi (run l s) + A <= Phi s + 6 * helpers l.
Proof.
  induction l as [|r l IH]; intros s G F Hs Hin; [destruct Hin|]. inversion F as [|? ? Hr Fl]; subst. cbn [run].
  unfold helpers. cbn [filter]. fold (helpers l). destruct (Nat.eq_dec r 0) as [->|Nr].
  - cbn [Nat.eqb negb]. assert (En : step s 0 <> None).
    { apply enabled_step. unfold enabled. destruct (pc_of s 0); try discriminate Hs. reflexivity. }
    destruct (step s 0) as [s1|] eqn:E; [|congruence]. destruct (step_good s 0 s1 G Hr E) as (G1 & _ & _ & S1 & _).
    destruct (run_bound l s1 G1 Fl) as (_ & B & _). specialize (S1 Hs eq_refl). fold (helpers l). lia.
  - destruct Hin as [->|Hin]; [congruence|]. assert (R0 : Nat.eqb r 0 = false) by (apply Nat.eqb_neq; exact Nr). rewrite R0. cbn [negb length]. fold (helpers l).
    destruct (step s r) as [s1|] eqn:E.
    + destruct (step_good s r s1 G Hr E) as (G1 & B1 & _ & _ & P1). rewrite R0 in B1.
      specialize (IH s1 G1 Fl ltac:(rewrite (P1 Nr); exact Hs) Hin). lia.
    + specialize (IH s G Fl Hs Hin). lia.
Qed.

(* past the notifications nothing raises the potential, and an enabled rank that gets its turn lowers it *)
Lemma run_late l : forall s q, good s -> Forall (fun r => r < n) l -> late (pc_of s 0) = true -> In q l -> enabled s q = true ->
  Phi (run l s) + 1 <= Phi s.
Proof.
  induction l as [|r l IH]; intros s q G F Hl Hin En; [destruct Hin|]. inversion F as [|? ? Hr Fl]; subst. cbn [run].
  destruct (Nat.eq_dec r q) as [->|Nrq].
  - assert (E0 : step s q <> None) by (apply enabled_step; exact En). destruct (step s q) as [s1|] eqn:E; [|congruence].
    destruct (step_good s q s1 G Hr E) as (G1 & _ & L1 & _ & _). destruct (L1 Hl) as [Hl1 D1].
    destruct (run_bound l s1 G1 Fl) as (_ & _ & L2). destruct (L2 Hl1) as [_ D2]. lia.
  - destruct Hin as [->|Hin]; [congruence|]. destruct (step s r) as [s1|] eqn:E.
    + destruct (step_good s r s1 G Hr E) as (G1 & _ & L1 & _ & _). destruct (L1 Hl) as [Hl1 D1].
      assert (En1 : enabled s1 q = true) by (apply (enabled_mono s r q s1 (proj1 G) Nrq E En)).
      specialize (IH s1 q G1 Fl Hl1 Hin En1). lia.
    + apply (IH s q G Fl Hl Hin En).
Qed.

Lemma helpers_le l : In 0 l -> helpers l + 1 <= length l.
Proof.
  unfold helpers. induction l as [|r l IH]; intros H; [destruct H|]. cbn [filter length]. destruct H as [->|H].
  - cbn [Nat.eqb negb]. assert (Hle : length (filter (fun r => negb (Nat.eqb r 0)) l) <= length l).
    { clear. induction l as [|x l IH]; [reflexivity|]. cbn [filter]. destruct (negb (Nat.eqb x 0)); cbn [length]; lia. }
    lia.
  - specialize (IH H). destruct (negb (Nat.eqb r 0)); cbn [length]; lia.
Qed.

(* one round: every rank exactly once, in any order *)
Definition round (l : list nat) : Prop := Permutation l (seq 0 n).
Lemma round_facts l : round l -> Forall (fun r => r < n) l /\ (forall q, q < n -> In q l) /\ length l = n.
Proof.
  intros P. split; [|split].
  - apply Forall_forall. intros r Hr. apply (Permutation_in _ P) in Hr. apply in_seq in Hr. lia.
  - intros q Hq. apply (Permutation_in _ (Permutation_sym P)). apply in_seq. lia.
  - rewrite (Permutation_length P). apply seq_length.
Qed.
(* a weak round: every rank gets at least one turn, the helpers fewer than n turns altogether (rank 0 any number) *)
Definition wround (l : list nat) : Prop := Forall (fun r => r < n) l /\ (forall q, q < n -> In q l) /\ helpers l + 1 <= n.
Lemma round_wround l : round l -> wround l.
Proof.
  intros R. destruct (round_facts l R) as (F & Hall & Len). split; [exact F|]. split; [exact Hall|].
  pose proof (helpers_le l (Hall 0 ltac:(lia))). lia.
Qed.
Theorem wround_progress l s : good s -> wround l -> final s = false -> good (run l s) /\ Phi (run l s) + 1 <= Phi s.
Proof.
  intros G (F & Hall & Hh) Fn. destruct (run_bound l s G F) as (G' & _ & _). split; [exact G'|].
  destruct G as [HI PL]. pose proof (i_pc0 _ _ _ HI) as P0.
  assert (Ph : sending (pc_of s 0) = true \/ late (pc_of s 0) = true).
  { destruct (pc_of s 0) as [|f|f src|k| | | | | |]; try discriminate PL; try (destruct P0; fail); try (right; reflexivity); try (left; reflexivity);
      destruct f; try discriminate PL; right; reflexivity. }
  destruct Ph as [Hs|Hl].
  - pose proof (run_sending l s (conj HI PL) F Hs (Hall 0 ltac:(lia))) as B. unfold A in *. lia.
  - destruct (deadlock_free n sync target n_pos s HI) as [Ff|(q & Hq & En)]; [congruence|].
    apply (run_late l s q (conj HI PL) F Hl (Hall q Hq)). apply enabled_step. exact En.
Qed.
Theorem round_progress l s : good s -> round l -> final s = false -> good (run l s) /\ Phi (run l s) + 1 <= Phi s.
Proof. intros G R. apply wround_progress; [exact G|apply round_wround; exact R]. Qed.

Lemma final_stable l : forall s, final s = true -> run l s = s.
Proof.
  induction l as [|r l IH]; intros s Fn; [reflexivity|]. cbn [run]. assert (E : step s r = None).
  { unfold ParArch.step. unfold final in Fn. rewrite forallb_forall in Fn. destruct (Nat.lt_ge_cases r (length (pcs s))) as [Hr|Hr].
    - specialize (Fn (nth r (pcs s) Done) (nth_In _ _ Hr)). destruct (nth r (pcs s) Done); try discriminate Fn. reflexivity.
    - rewrite nth_overflow by lia. reflexivity. }
  rewrite E. apply IH. exact Fn.
Qed.
Lemma run_app' a : forall b s, run (a ++ b) s = run b (run a s).
Proof. induction a as [|r a IH]; intros b s; [reflexivity|]. cbn [app run]. destruct (step s r); apply IH. Qed.

(* once rank 0 has left its loop, Phi(s) weak rounds complete the call *)
Theorem late_wrounds_finish rounds : forall s, good s -> Forall wround rounds -> Phi s <= length rounds ->
  final (run (concat rounds) s) = true.
Proof.
  induction rounds as [|l rounds IH]; intros s G F B.
  - cbn. destruct (final s) eqn:Fn; [reflexivity|]. exfalso.
    (* Phi is positive in a non-final good state: a round would have to lower it below zero *)
    destruct (round_progress (seq 0 n) s G (Permutation_refl _) Fn) as (_ & D). cbn [length] in B. lia.
  - inversion F as [|? ? Rl Fr]; subst. cbn [concat]. rewrite run_app'. destruct (final s) eqn:Fn.
    + rewrite (final_stable l s Fn). rewrite (final_stable (concat rounds) s Fn). exact Fn.
    + destruct (wround_progress l s G Rl Fn) as (G1 & D). apply (IH _ G1 Fr). cbn [length] in B. lia.
Qed.
(* ... in particular Phi(s) rounds that are permutations of the ranks *)
Theorem late_rounds_finish rounds : forall s, good s -> Forall round rounds -> Phi s <= length rounds ->
  final (run (concat rounds) s) = true.
Proof.
  intros s G F B. apply late_wrounds_finish; [exact G| |exact B]. apply Forall_forall. intros l Hl. apply round_wround.
  rewrite Forall_forall in F. apply F. exact Hl.
Qed.
End Fair.

(* C01/C03: reachability marking (get_utilized_commands) and reduce_stack. *)
From Coq Require Import ZArith List Bool Lia.
From Bingo Require Import Lib.Alg Gen.OpDefs Gen.OpEval Model.Stack Proofs.StackProofs.
Import ListNotations.
Local Open Scope Z_scope.

Definition dflt_cmd : cmd := (0, 0, 0).

(* ---------- denote_all grows by one expression per row and never changes earlier ones ---------- *)
Lemma denote_all_snoc a c : denote_all (a ++ [c]) = denote_all a ++ [mk_expr c (lookup (denote_all a) (EInt 0))].
Proof. unfold denote_all. rewrite fold_left_app. reflexivity. Qed.

Lemma denote_all_length a : length (denote_all a) = length a.
Proof.
  induction a as [|c a IH] using rev_ind; [reflexivity|].
  rewrite denote_all_snoc, !app_length, IH. reflexivity.
Qed.

Lemma denote_all_prefix a b i : (i < length a)%nat ->
  nth i (denote_all (a ++ b)) (EInt 0) = nth i (denote_all a) (EInt 0).
Proof.
  intros Hi. induction b as [|c b IH] using rev_ind; [now rewrite app_nil_r|].
  rewrite app_assoc, denote_all_snoc, app_nth1; auto. rewrite denote_all_length, app_length. lia.
Qed.

Lemma lookup_nat {T} (l : list T) d i : 0 <= i -> lookup l d i = nth (Z.to_nat i) l d.
Proof. intros H. unfold lookup, pyidx. destruct (Z.leb_spec 0 i); [reflexivity|lia]. Qed.

(* ---------- the node tables ---------- *)
Lemma is_terminal_true n : is_terminal n = true -> n = INTEGER \/ n = VARIABLE \/ n = CONSTANT.
Proof.
  unfold is_terminal.
  repeat match goal with |- context [Z.eqb n ?K] => destruct (Z.eqb_spec n K) as [->|?]; [vm_compute; intros; (tauto || discriminate)|] end.
  discriminate.
Qed.
Lemma is_terminal_false n : is_terminal n = false -> n <> INTEGER /\ n <> VARIABLE /\ n <> CONSTANT.
Proof. intros H. repeat split; intros ->; vm_compute in H; discriminate. Qed.

Lemma mk_expr_terminal c c' look look' : is_terminal (node_of c) = true ->
  node_of c' = node_of c -> p1_of c' = p1_of c -> mk_expr c' look' = mk_expr c look.
Proof.
  intros Ht En Ep. unfold mk_expr. rewrite En, Ep.
  apply is_terminal_true in Ht as [E|[E|E]]; rewrite E; reflexivity.
Qed.

Lemma mk_expr_operator c c' look look' : is_terminal (node_of c) = false ->
  node_of c' = node_of c -> look' (p1_of c') = look (p1_of c) ->
  (is_arity_2 (node_of c) = true -> look' (p2_of c') = look (p2_of c)) ->
  mk_expr c' look' = mk_expr c look.
Proof.
  intros Ht En E1 E2. unfold mk_expr. rewrite En.
  apply is_terminal_false in Ht as (N1 & N2 & N3).
  destruct (Z.eqb_spec (node_of c) INTEGER); [congruence|].
  destruct (Z.eqb_spec (node_of c) VARIABLE); [congruence|].
  destruct (Z.eqb_spec (node_of c) CONSTANT); [congruence|].
  destruct (is_arity_2 (node_of c)); [rewrite E1, E2; auto|rewrite E1; auto].
Qed.

(* ---------- well-formedness, row by row ---------- *)
Lemma wf_from_nth D : forall s k i, wf_from D k s = true -> (i < length s)%nat ->
  wf_cmd D (k + Z.of_nat i) (nth i s dflt_cmd) = true.
Proof.
  induction s as [|c r IH]; intros k i H Hi; simpl in Hi; [lia|].
  simpl in H. apply andb_prop in H as [Hc Hr]. destruct i as [|i]; simpl.
  - now rewrite Z.add_0_r.
  - replace (k + Z.pos (Pos.of_succ_nat i)) with ((k + 1) + Z.of_nat i) by lia. apply IH; auto. lia.
Qed.

Definition operands_ok (s : stack) : Prop :=
  forall i, (i < length s)%nat -> let c := nth i s dflt_cmd in
    is_terminal (node_of c) = false ->
    0 <= p1_of c < Z.of_nat i /\ 0 <= p2_of c < Z.of_nat i.

Lemma wf_operands_ok D s : wf D s = true -> operands_ok s.
Proof.
  intros H. unfold wf in H. apply andb_prop in H as [_ H]. intros i Hi c Ht.
  pose proof (wf_from_nth D s 0 i H Hi) as W. fold c in W. unfold wf_cmd in W.
  apply andb_prop in W as [_ W]. rewrite Ht in W. simpl in W. lia.
Qed.

(* ---------- get_utilized_commands: the marked set is closed under "operand of a marked operator row" ---------- *)
Lemma updb_length l i b : length (updb l i b) = length l.
Proof. revert i; induction l as [|x l IH]; intros [|i]; simpl; auto. Qed.
Lemma updb_same l i b : (i < length l)%nat -> nth i (updb l i b) false = b.
Proof. revert i; induction l as [|x l IH]; intros [|i] H; simpl in *; try lia; auto. apply IH; lia. Qed.
Lemma updb_other l i j b : i <> j -> nth j (updb l i b) false = nth j l false.
Proof. revert i j; induction l as [|x l IH]; intros [|i] [|j] H; simpl; auto; try lia. Qed.

Lemma set_true_length l p : length (set_true l p) = length l.
Proof. unfold set_true. apply updb_length. Qed.
Lemma set_true_same l p : 0 <= p < Z.of_nat (length l) -> nth (Z.to_nat p) (set_true l p) false = true.
Proof.
  intros H. unfold set_true, pyidx. destruct (Z.leb_spec 0 p); [|lia]. apply updb_same. lia.
Qed.
Lemma set_true_mono l p j : nth j l false = true -> nth j (set_true l p) false = true.
Proof.
  intros H. unfold set_true. destruct (Nat.eq_dec (Z.to_nat (pyidx (Z.of_nat (length l)) p)) j) as [E|E].
  - rewrite E. destruct (Nat.lt_ge_cases j (length l)) as [Hl|Hl]; [apply updb_same; auto|].
    rewrite nth_overflow in H by auto. discriminate.
  - rewrite updb_other; auto.
Qed.
Lemma set_true_other l p j : 0 <= p -> Z.to_nat p <> j -> nth j (set_true l p) false = nth j l false.
Proof.
  intros H0 H. unfold set_true, pyidx. destruct (Z.leb_spec 0 p); [|lia]. apply updb_other. auto.
Qed.

Definition closed_above (s : stack) (u : list bool) (k : nat) : Prop :=
  forall i, (k < i < length s)%nat -> nth i u false = true ->
    let c := nth i s dflt_cmd in is_terminal (node_of c) = false ->
    nth (Z.to_nat (p1_of c)) u false = true /\
    (is_arity_2 (node_of c) = true -> nth (Z.to_nat (p2_of c)) u false = true).

Lemma util_loop_spec s : operands_ok s -> forall k u, (k < length s)%nat -> length u = length s ->
  closed_above s u k ->
  let r := util_loop s k u in
  length r = length s /\ closed_above s r 0 /\ (forall j, nth j u false = true -> nth j r false = true).
Proof.
  intros Hok. induction k as [|k IH]; intros u Hk Hl Hc; cbn [util_loop].
  - cbn zeta. split; [exact Hl|]. split; [exact Hc|auto].
  - set (c := nth (S k) s dflt_cmd).
    set (u' := if nth (S k) u false && negb (is_terminal (node_of c))
               then let u1 := set_true u (p1_of c) in if is_arity_2 (node_of c) then set_true u1 (p2_of c) else u1
               else u).
    assert (Hl' : length u' = length s).
    { unfold u'. destruct (nth (S k) u false && negb (is_terminal (node_of c))); auto. cbn zeta.
      destruct (is_arity_2 (node_of c)); rewrite ?set_true_length; auto. }
    assert (Hmono : forall j, nth j u false = true -> nth j u' false = true).
    { intros j Hj. unfold u'. destruct (nth (S k) u false && negb (is_terminal (node_of c))); auto. cbn zeta.
      destruct (is_arity_2 (node_of c)); repeat apply set_true_mono; auto. }
    assert (Hc' : closed_above s u' k).
    { intros i Hi Hu ci Hti.
      destruct (Nat.eq_dec i (S k)) as [->|Hne].
      - (* the row just processed *)
        fold c in ci. subst ci.
        destruct (Hok (S k) Hk Hti) as [P1 P2]. fold c in P1, P2.
        assert (Hsame : nth (S k) u' false = nth (S k) u false).
        { unfold u'. destruct (nth (S k) u false && negb (is_terminal (node_of c))); auto. cbn zeta.
          destruct (is_arity_2 (node_of c)); rewrite ?set_true_other; auto; lia. }
        rewrite Hsame in Hu. unfold u'. rewrite Hu, Hti. cbn [negb andb]. cbn zeta.
        destruct (is_arity_2 (node_of c)) eqn:E2.
        + split; [apply set_true_mono; apply set_true_same; lia|].
          intros _. apply set_true_same. rewrite set_true_length. lia.
        + split; [apply set_true_same; lia|discriminate].
      - (* rows above: their flags are untouched, their operands can only gain flags *)
        assert (Hsame : nth i u' false = nth i u false).
        { unfold u'. destruct (nth (S k) u false && negb (is_terminal (node_of c))) eqn:Eb; auto. cbn zeta.
          apply andb_prop in Eb as [_ Eb]. apply negb_true_iff in Eb.
          destruct (Hok (S k) Hk Eb) as [P1 P2]. fold c in P1, P2.
          destruct (is_arity_2 (node_of c)); rewrite ?set_true_other; auto; lia. }
        rewrite Hsame in Hu. destruct (Hc i ltac:(lia) Hu Hti) as [Q1 Q2]. fold ci in Q1, Q2.
        split; [apply Hmono; auto|]. intros E. apply Hmono. auto. }
    destruct (IH u' ltac:(lia) Hl' Hc') as (R1 & R2 & R3).
    cbn zeta. fold c. fold u'. split; [exact R1|]. split; [exact R2|]. intros j Hj. apply R3. apply Hmono. exact Hj.
Qed.

Theorem utilized_closed s : operands_ok s -> s <> [] ->
  let u := utilized s in
  length u = length s /\ nth (length s - 1) u false = true /\ closed_above s u 0.
Proof.
  intros Hok Hne. unfold utilized.
  assert (Hn : (1 <= length s)%nat) by (destruct s; simpl; [congruence|lia]).
  set (u0 := updb (repeat false (length s)) (length s - 1) true).
  assert (L0 : length u0 = length s) by (unfold u0; rewrite updb_length, repeat_length; auto).
  assert (C0 : closed_above s u0 (length s - 1)) by (intros i Hi; lia).
  destruct (util_loop_spec s Hok (length s - 1)%nat u0 ltac:(lia) L0 C0) as (R1 & R2 & R3).
  cbn zeta. fold u0. split; [exact R1|]. split; [|exact R2]. apply R3. unfold u0. apply updb_same. rewrite repeat_length. lia.
Qed.

(* ---------- reduce_stack ---------- *)
Lemma denote_all_nth s k : (k < length s)%nat ->
  nth k (denote_all s) (EInt 0) = mk_expr (nth k s dflt_cmd) (lookup (denote_all (firstn k s)) (EInt 0)).
Proof.
  intros Hk. rewrite <- (firstn_skipn (S k) s) at 1.
  rewrite denote_all_prefix by (rewrite firstn_length; lia).
  assert (E : firstn (S k) s = firstn k s ++ [nth k s dflt_cmd]).
  { clear -Hk. revert k Hk. induction s as [|c r IH]; intros [|k] Hk; simpl in *; try lia; auto.
    f_equal. apply IH. lia. }
  rewrite E, denote_all_snoc. rewrite app_nth2 by (rewrite denote_all_length, firstn_length; lia).
  rewrite denote_all_length, firstn_length. replace (k - Nat.min k (length s))%nat with 0%nat by lia. reflexivity.
Qed.

Fixpoint count_true (l : list bool) : nat :=
  match l with [] => 0%nat | true :: r => S (count_true r) | false :: r => count_true r end.

Lemma count_true_snoc l b : count_true (l ++ [b]) = (count_true l + if b then 1 else 0)%nat.
Proof. induction l as [|x l IH]; simpl; [destruct b; auto|]. destruct x; rewrite IH; lia. Qed.

Lemma firstn_S_nth {T} (l : list T) k d : (k < length l)%nat -> firstn (S k) l = firstn k l ++ [nth k l d].
Proof.
  revert k; induction l as [|x l IH]; intros [|k] Hk; simpl in *; try lia; auto. f_equal. apply IH. lia.
Qed.

Definition red_state (s : stack) (u : list bool) (k : nat) :=
  fold_left red_step (firstn k (combine s u)) ([], 0, 0, []).

Lemma red_state_S s u k : (k < length s)%nat -> length u = length s ->
  red_state s u (S k) = red_step (red_state s u k) (nth k s dflt_cmd, nth k u false).
Proof.
  intros Hk Hl. unfold red_state.
  rewrite (firstn_S_nth _ k (dflt_cmd, false)) by (rewrite combine_length; lia).
  rewrite fold_left_app. simpl. rewrite combine_nth by auto. reflexivity.
Qed.

Lemma rmap_get_cons_same rmap i j : rmap_get ((i, j) :: rmap) i = j.
Proof. unfold rmap_get. simpl. now rewrite Z.eqb_refl. Qed.
Lemma rmap_get_cons_other rmap i j k : i <> k -> rmap_get ((i, j) :: rmap) k = rmap_get rmap k.
Proof. intros H. unfold rmap_get. simpl. destruct (Z.eqb_spec i k); [congruence|reflexivity]. Qed.

Record rinv (s : stack) (u : list bool) (k : nat) (st : stack * Z * Z * list (Z * Z)) : Prop := {
  ri_i : snd (fst (fst st)) = Z.of_nat k;
  ri_j : snd (fst st) = Z.of_nat (length (fst (fst (fst st))));
  ri_cnt : length (fst (fst (fst st))) = count_true (firstn k u);
  ri_map : forall i', (i' < k)%nat -> nth i' u false = true ->
      let j' := rmap_get (snd st) (Z.of_nat i') in
      0 <= j' < Z.of_nat (length (fst (fst (fst st)))) /\
      nth (Z.to_nat j') (denote_all (fst (fst (fst st)))) (EInt 0) = nth i' (denote_all s) (EInt 0)
}.

Lemma rinv_all s u : operands_ok s -> length u = length s -> closed_above s u 0 ->
  forall k, (k <= length s)%nat -> rinv s u k (red_state s u k).
Proof.
  intros Hok Hl Hcl. induction k as [|k IH]; intros Hk.
  - unfold red_state. simpl. constructor; simpl; auto. intros; lia.
  - specialize (IH ltac:(lia)). rewrite red_state_S by lia.
    destruct (red_state s u k) as [[[out i] j] rmap] eqn:Est.
    destruct IH as [I1 I2 I3 I4]. simpl in I1, I2, I3, I4. subst i j.
    set (c := nth k s dflt_cmd). unfold red_step.
    assert (Hfn : firstn (S k) u = firstn k u ++ [nth k u false]) by (apply firstn_S_nth; lia).
    destruct (nth k u false) eqn:Eu.
    + (* the row is utilized: it is copied with remapped operands *)
      set (c' := if is_terminal (node_of c) then (node_of c, p1_of c, p2_of c)
                 else let q1 := rmap_get rmap (p1_of c) in
                      (node_of c, q1, if is_arity_2 (node_of c) then rmap_get rmap (p2_of c) else q1)).
      assert (Hden : mk_expr c' (lookup (denote_all out) (EInt 0))
                     = mk_expr c (lookup (denote_all (firstn k s)) (EInt 0))).
      { destruct (is_terminal (node_of c)) eqn:Et.
        - unfold c'. apply mk_expr_terminal; auto.
        - destruct (Hok k ltac:(lia) Et) as [P1 P2]. fold c in P1, P2.
          assert (Hk0 : (0 < k)%nat) by lia.
          destruct (Hcl k ltac:(lia) Eu Et) as [U1 U2]. fold c in U1, U2.
          assert (Hop : forall p, 0 <= p < Z.of_nat k -> nth (Z.to_nat p) u false = true ->
                    lookup (denote_all out) (EInt 0) (rmap_get rmap p) = lookup (denote_all (firstn k s)) (EInt 0) p).
          { intros p Hp Hu. destruct (I4 (Z.to_nat p) ltac:(lia) Hu) as [Q1 Q2]. rewrite Z2Nat.id in Q1, Q2 by lia.
            rewrite !lookup_nat by lia. rewrite Q2.
            rewrite <- (firstn_skipn k s) at 1. rewrite denote_all_prefix; auto. rewrite firstn_length. lia. }
          unfold c'. cbn zeta. apply mk_expr_operator; auto.
          + cbn [p1_of fst snd]. apply Hop; auto.
          + intros E2. rewrite E2. cbn [p2_of snd]. apply Hop; auto. }
      constructor; cbn [fst snd].
      * lia.
      * rewrite app_length. simpl. lia.
      * rewrite app_length, Hfn, count_true_snoc, I3. simpl. lia.
      * intros i' Hi' Hu'. cbn zeta.
        destruct (Nat.eq_dec i' k) as [->|Hne].
        -- rewrite rmap_get_cons_same. rewrite app_length. simpl. split; [lia|].
           rewrite Nat2Z.id. rewrite denote_all_snoc.
           rewrite app_nth2 by (rewrite denote_all_length; lia).
           rewrite denote_all_length, Nat.sub_diag. simpl. fold c'. rewrite Hden.
           symmetry. apply denote_all_nth. lia.
        -- rewrite rmap_get_cons_other by lia.
           destruct (I4 i' ltac:(lia) Hu') as [Q1 Q2]. rewrite app_length. simpl. split; [lia|].
           rewrite denote_all_prefix by lia. exact Q2.
    + constructor; cbn [fst snd].
      * lia.
      * reflexivity.
      * rewrite Hfn, count_true_snoc, I3. simpl. lia.
      * intros i' Hi' Hu'. destruct (Nat.eq_dec i' k) as [->|Hne]; [congruence|].
        apply I4; auto. lia.
Qed.

Lemma nth_last {T} (l : list T) d : nth (length l - 1) l d = last l d.
Proof.
  induction l as [|x l IH]; [reflexivity|]. destruct l as [|y l]; [reflexivity|].
  replace (length (x :: y :: l) - 1)%nat with (S (length (y :: l) - 1)) by (simpl; lia).
  change (nth (S (length (y :: l) - 1)) (x :: y :: l) d) with (nth (length (y :: l) - 1) (y :: l) d).
  rewrite IH. reflexivity.
Qed.

(* reducing a well-formed stack to its utilized commands: the same expression, as many rows as utilized commands *)
Theorem reduce_stack_sound D s : wf D s = true ->
  denote (reduce_stack s) = denote s /\ length (reduce_stack s) = count_true (utilized s).
Proof.
  intros Hwf. pose proof (wf_operands_ok D s Hwf) as Hok.
  assert (Hne : s <> []) by (intros ->; discriminate).
  destruct (utilized_closed s Hok Hne) as (Hl & Hlast & Hcl). set (u := utilized s) in *.
  pose proof (rinv_all s u Hok Hl Hcl (length s) (le_n _)) as R.
  unfold reduce_stack. fold u.
  assert (Efull : red_state s u (length s) = fold_left red_step (combine s u) ([], 0, 0, [])).
  { unfold red_state. rewrite firstn_all2; auto. rewrite combine_length. lia. }
  rewrite <- Efull. destruct (red_state s u (length s)) as [[[out i] j] rmap] eqn:Est.
  destruct R as [I1 I2 I3 I4]. simpl in I1, I2, I3, I4.
  split.
  - assert (Hn : (1 <= length s)%nat) by (destruct s; simpl; [congruence|lia]).
    destruct (I4 (length s - 1)%nat ltac:(lia) Hlast) as [Q1 Q2].
    (* the last utilized row is the last row written *)
    assert (Ej : rmap_get rmap (Z.of_nat (length s - 1)) = Z.of_nat (length out) - 1).
    { set (m := (length s - 1)%nat) in *.
      assert (Em : length s = S m) by lia.
      assert (Est' : red_state s u (S m) = (out, i, j, rmap)) by (rewrite <- Em; exact Est).
      rewrite red_state_S in Est' by lia. destruct (red_state s u m) as [[[o1 i1] j1] r1] eqn:E1.
      pose proof (rinv_all s u Hok Hl Hcl m ltac:(lia)) as R1. rewrite E1 in R1.
      destruct R1 as [J1 J2 _ _]. simpl in J1, J2.
      unfold red_step in Est'. rewrite Hlast in Est'. injection Est' as <- <- <- <-.
      subst i1 j1. rewrite rmap_get_cons_same, app_length. simpl. lia. }
    unfold denote. rewrite <- !nth_last. rewrite !denote_all_length.
    rewrite <- Q2. rewrite Ej. f_equal. lia.
  - rewrite I3. rewrite firstn_all2; auto. lia.
Qed.

(* commands the last command does not depend on never influence the result *)
Lemma red_fold_agree : forall (l l' : list (cmd * bool)) st,
  Forall2 (fun a b => snd a = snd b /\ (snd a = true -> fst a = fst b)) l l' ->
  fold_left red_step l st = fold_left red_step l' st.
Proof.
  induction l as [|[c b] l IH]; intros l' st H; inversion H as [|? [c' b'] ? ? [Hb Hc] Hr]; subst; simpl; auto.
  simpl in Hb, Hc. subst b'. destruct b.
  - rewrite (Hc eq_refl). apply IH. exact Hr.
  - destruct st as [[[out i] j] rmap]. simpl. apply IH. exact Hr.
Qed.

Theorem unused_commands_irrelevant D s s' : wf D s = true -> wf D s' = true ->
  length s = length s' -> utilized s = utilized s' ->
  (forall i, nth i (utilized s) false = true -> nth i s dflt_cmd = nth i s' dflt_cmd) ->
  denote s = denote s'.
Proof.
  intros W W' Hl Hu Hrows.
  destruct (reduce_stack_sound D s W) as [E _]. destruct (reduce_stack_sound D s' W') as [E' _].
  rewrite <- E, <- E'. f_equal. unfold reduce_stack. rewrite <- Hu.
  rewrite (red_fold_agree (combine s (utilized s)) (combine s' (utilized s))); auto.
  assert (Lu : length (utilized s) = length s).
  { apply utilized_closed; [eapply wf_operands_ok; eauto|intros ->; discriminate]. }
  clear -Hl Hrows Lu. revert s' Hl Hrows Lu. generalize (utilized s). intros u.
  revert u. induction s as [|c s IH]; intros u [|c' s'] Hl Hrows Lu; simpl in *; try lia; [constructor|].
  destruct u as [|b u]; simpl in *; [lia|]. constructor.
  - simpl. split; auto. intros ->. apply (Hrows 0%nat). reflexivity.
  - apply IH; auto. intros i Hi. apply (Hrows (S i)). exact Hi.
Qed.

Section Alg.
Context {V : Type} (A : alg V).
Corollary reduce_evaluates_identically D s xv cv : wf D s = true ->
  root A (reduce_stack s) xv cv = root A s xv cv.
Proof.
  intros W. rewrite !root_is_denotation. now destruct (reduce_stack_sound D s W) as [-> _].
Qed.
Corollary evaluate_rows D s X cv : wf D s = true ->
  length (evaluate A s X cv) = length X /\
  evaluate A (reduce_stack s) X cv = evaluate A s X cv /\
  forall r xv, nth_error X r = Some xv -> nth_error (evaluate A s X cv) r = Some (sem A xv cv (denote s)).
Proof.
  intros W. unfold evaluate. split; [apply map_length|]. split.
  - apply map_ext. intros xv. eapply reduce_evaluates_identically; eauto.
  - intros r xv H. rewrite nth_error_map, H. simpl. now rewrite root_is_denotation.
Qed.
End Alg.

(* Fitness values / keys: [None] is NaN, [Some z] a non-NaN float under an order embedding
   of the non-NaN floats (with -inf/+inf) into Z.  Python comparisons involving NaN are false
   ([!=] is true). *)
From Coq Require Import ZArith Bool.
Open Scope Z_scope.

Definition key := option Z.

Definition klt (a b : key) : bool :=
  match a, b with Some x, Some y => x <? y | _, _ => false end.
Definition kle (a b : key) : bool :=
  match a, b with Some x, Some y => x <=? y | _, _ => false end.
Definition kgt (a b : key) : bool := klt b a.
Definition kne (a b : key) : bool :=
  match a, b with Some x, Some y => negb (x =? y) | _, _ => true end.
Definition kisnan (a : key) : bool := match a with None => true | Some _ => false end.


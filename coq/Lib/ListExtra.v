(* Shared list lemmas: positional insert/remove, sorted insertion by a Z-valued key. *)
From Coq Require Import ZArith List Bool Arith Lia Permutation Sorted.
Import ListNotations.

Fixpoint insert_at {A} (n : nat) (x : A) (l : list A) : list A :=
  match n, l with
  | O, _ => x :: l
  | S n', [] => [x]
  | S n', y :: l' => y :: insert_at n' x l'
  end.

Fixpoint remove_at {A} (n : nat) (l : list A) : list A :=
  match n, l with
  | _, [] => []
  | O, _ :: l' => l'
  | S n', y :: l' => y :: remove_at n' l'
  end.

Lemma insert_at_perm {A} n (x : A) l : Permutation (insert_at n x l) (x :: l).
Proof.
  revert n; induction l as [|y l IH]; intros [|n]; simpl; auto.
  rewrite IH. apply perm_swap.
Qed.

Lemma insert_at_length {A} n (x : A) l : length (insert_at n x l) = S (length l).
Proof. revert n; induction l as [|y l IH]; intros [|n]; simpl; auto. Qed.

Lemma insert_at_map {A B} (f : A -> B) n x l :
  map f (insert_at n x l) = insert_at n (f x) (map f l).
Proof. revert n; induction l as [|y l IH]; intros [|n]; simpl; auto. f_equal; auto. Qed.

Lemma remove_at_map {A B} (f : A -> B) n l :
  map f (remove_at n l) = remove_at n (map f l).
Proof. revert n; induction l as [|y l IH]; intros [|n]; simpl; auto. f_equal; auto. Qed.

Lemma remove_at_app_len {A} (pre : list A) x post :
  remove_at (length pre) (pre ++ x :: post) = pre ++ post.
Proof. induction pre as [|y pre IH]; simpl; auto. f_equal; auto. Qed.

Lemma remove_at_last {A} (l : list A) :
  l <> [] -> remove_at (length l - 1) l = removelast l.
Proof.
  induction l as [|x l IH]; [congruence|]. intros _.
  destruct l as [|y l]; [reflexivity|].
  assert (E : length (x :: y :: l) - 1 = S (length (y :: l) - 1)) by (simpl; lia).
  rewrite E. cbn [remove_at].
  rewrite IH by congruence. reflexivity.
Qed.

Lemma remove_at_In {A} n (l : list A) x : In x (remove_at n l) -> In x l.
Proof.
  revert n; induction l as [|y l IH]; intros [|n]; simpl; auto.
  intros [->|H]; eauto.
Qed.

Lemma remove_at_length {A} n (l : list A) :
  n < length l -> length (remove_at n l) = length l - 1.
Proof.
  revert n; induction l as [|y l IH]; intros [|n]; simpl; try lia.
  intros H. rewrite IH by lia. lia.
Qed.

(* --- sorted insertion by key --- *)
Section Keyed.
  Context {A : Type} (f : A -> Z).
  Open Scope Z_scope.

  Definition cnt_le (z : Z) (l : list A) : nat :=
    length (filter (fun a => f a <=? z) l).

  Definition le_f (a b : A) : Prop := f a <= f b.

  Lemma sorted_tail_gt z x l :
    StronglySorted le_f (x :: l) -> z < f x -> filter (fun a => f a <=? z) (x :: l) = [].
  Proof.
    intros H Hz. apply StronglySorted_inv in H as [_ Hall].
    simpl. destruct (Z.leb_spec (f x) z); [lia|].
    induction l as [|y l IH]; simpl; auto.
    inversion Hall; subst. unfold le_f in *.
    destruct (Z.leb_spec (f y) z); [lia|]. auto.
  Qed.

  (* position i is below the count iff its key is <= z *)
  Lemma cnt_le_nth z l d i :
    StronglySorted le_f l -> (i < length l)%nat ->
    ((i < cnt_le z l)%nat <-> f (nth i l d) <= z).
  Proof.
    revert i; induction l as [|x l IH]; intros i Hs Hi; [simpl in Hi; lia|].
    pose proof Hs as Hs0.
    apply StronglySorted_inv in Hs as [Hs Hall].
    unfold cnt_le in *. simpl filter.
    destruct (Z.leb_spec (f x) z) as [Hx|Hx].
    - destruct i as [|i]; simpl; [split; [auto|lia]|].
      simpl in Hi. rewrite <- IH by (auto; lia). lia.
    - fold (filter (fun a => f a <=? z) l).
      assert (E : filter (fun a => f a <=? z) l = []).
      { pose proof (sorted_tail_gt z x l Hs0 Hx) as E. simpl in E.
        destruct (Z.leb_spec (f x) z); [lia|]. exact E. }
      rewrite E. simpl. split; [lia|]. intros Hn. exfalso.
      destruct i as [|i]; simpl in Hn; [lia|].
      simpl in Hi. rewrite Forall_forall in Hall.
      assert (In (nth i l d) l) by (apply nth_In; lia).
      apply Hall in H. unfold le_f in H. lia.
  Qed.

  Lemma cnt_le_le z l : (cnt_le z l <= length l)%nat.
  Proof. unfold cnt_le. induction l; simpl; auto. destruct (_ <=? _); simpl; lia. Qed.

  (* inserting at the count keeps the list sorted, and more generally keeps any
     relation R sorted when x is R-above everything <= and R-below everything > *)
  Lemma insert_at_cnt_sorted (R : A -> A -> Prop) x l :
    StronglySorted le_f l -> StronglySorted R l ->
    (forall a, In a l -> f a <= f x -> R a x) ->
    (forall a, In a l -> f x < f a -> R x a) ->
    StronglySorted R (insert_at (cnt_le (f x) l) x l).
  Proof.
    induction l as [|y l IH]; intros Hs HR H1 H2.
    - simpl. constructor; constructor.
    - pose proof Hs as Hs0. apply StronglySorted_inv in Hs as [Hs Hall].
      apply StronglySorted_inv in HR as [HR HallR].
      unfold cnt_le. simpl filter. destruct (Z.leb_spec (f y) (f x)) as [Hy|Hy].
      + simpl. constructor.
        * apply IH; auto; intros; [apply H1|apply H2]; simpl; auto.
        * rewrite Forall_forall. intros a Ha.
          apply (Permutation_in _ (insert_at_perm _ _ _)) in Ha.
          destruct Ha as [<-|Ha]; [apply H1; simpl; auto|].
          rewrite Forall_forall in HallR; auto.
      + pose proof (sorted_tail_gt (f x) y l Hs0 Hy) as E. simpl in E.
        destruct (Z.leb_spec (f y) (f x)); [lia|].
        rewrite E. simpl. constructor; [constructor; auto|].
        rewrite Forall_forall. intros a Ha. apply H2; auto.
        destruct Ha as [<-|Ha]; [lia|].
        rewrite Forall_forall in Hall. apply Hall in Ha. unfold le_f in Ha. lia.
  Qed.
End Keyed.

Lemma In_removelast {A} (l : list A) x : In x (removelast l) -> In x l.
Proof.
  induction l as [|y l IH]; simpl; auto. destruct l; simpl in *; auto.
  intros [->|H]; auto.
Qed.

Lemma removelast_sorted {A} (R : A -> A -> Prop) l :
  StronglySorted R l -> StronglySorted R (removelast l).
Proof.
  induction l as [|x l IH]; simpl; auto. intros H.
  apply StronglySorted_inv in H as [H Hall].
  destruct l as [|y l]; [constructor|].
  constructor; auto. rewrite Forall_forall in *. intros a Ha.
  apply Hall. apply In_removelast; auto.
Qed.

Lemma remove_at_sorted {A} (R : A -> A -> Prop) n l :
  StronglySorted R l -> StronglySorted R (remove_at n l).
Proof.
  revert n; induction l as [|x l IH]; intros [|n] H; simpl; auto.
  - apply StronglySorted_inv in H as [H _]; auto.
  - apply StronglySorted_inv in H as [H Hall]. constructor; auto.
    rewrite Forall_forall in *. intros a Ha. apply Hall. eapply remove_at_In; eauto.
Qed.

Lemma removelast_last_perm {A} (l : list A) d :
  l <> [] -> Permutation (last l d :: removelast l) l.
Proof.
  intros H. rewrite (app_removelast_last d H) at 3.
  rewrite Permutation_app_comm. reflexivity.
Qed.

Lemma sorted_last_max (l : list Z) d a :
  StronglySorted Z.le l -> In a l -> (a <= last l d)%Z.
Proof.
  revert a; induction l as [|x l IH]; [simpl; tauto|].
  intros a Hs Ha. apply StronglySorted_inv in Hs as [Hs Hall].
  destruct l as [|y l].
  - simpl in *. destruct Ha as [->|[]]; lia.
  - change (last (x :: y :: l) d) with (last (y :: l) d).
    destruct Ha as [<-|Ha]; [|apply IH; auto].
    rewrite Forall_forall in Hall.
    assert (x <= y)%Z by (apply Hall; simpl; auto).
    assert (y <= last (y :: l) d)%Z by (apply IH; simpl; auto). lia.
Qed.

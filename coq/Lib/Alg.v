(* The operations an equation stack is evaluated with, abstractly.  Instances: the reals (theorems about derivatives),
   a free term algebra (exact symbolic correspondence with the real numpy backend), integers (exact numeric
   correspondence on polynomial stacks). *)
From Coq Require Import ZArith.

Record alg (V : Type) := mkAlg {
  a_of_int : Z -> V;           (* float(param1) *)
  a_half : V;                  (* the literal 0.5 *)
  a_add : V -> V -> V; a_sub : V -> V -> V; a_mul : V -> V -> V; a_div : V -> V -> V;
  a_pow : V -> V -> V;         (* np.power *)
  a_sin : V -> V; a_cos : V -> V; a_sinh : V -> V; a_cosh : V -> V; a_exp : V -> V;
  a_log : V -> V;              (* np.log *)
  a_abs : V -> V; a_sqrt : V -> V; a_sign : V -> V
}.
Arguments a_of_int {V}. Arguments a_half {V}. Arguments a_add {V}. Arguments a_sub {V}. Arguments a_mul {V}.
Arguments a_div {V}. Arguments a_pow {V}. Arguments a_sin {V}. Arguments a_cos {V}. Arguments a_sinh {V}.
Arguments a_cosh {V}. Arguments a_exp {V}. Arguments a_log {V}. Arguments a_abs {V}. Arguments a_sqrt {V}.
Arguments a_sign {V}.

(* Real vectors as lists: the numpy operations the metric translator targets, and differentiation of sums. *)
From Coquelicot Require Import Coquelicot.
From Coq Require Import Reals List Lra.
Import ListNotations.
Open Scope R_scope.

Definition vsum (l : list R) : R := fold_right Rplus 0 l.
Definition vlen (l : list R) : R := INR (length l).
Definition vmean (l : list R) : R := vsum l / vlen l.                 (* np.mean *)
Definition vabs (l : list R) : list R := map Rabs l.                  (* np.abs *)
Definition vsquare (l : list R) : list R := map (fun x => x * x) l.   (* np.square *)
Definition vsign (l : list R) : list R := map sign l.                 (* np.sign *)
Fixpoint vmul (a b : list R) : list R :=                              (* elementwise product *)
  match a, b with x :: a', y :: b' => x * y :: vmul a' b' | _, _ => [] end.
Definition vscale (s : R) (l : list R) : list R := map (Rmult s) l.
(* vector (n,) times matrix (L, n): numpy broadcasts the vector over the rows *)
Definition mrowmul (v : list R) (M : list (list R)) : list (list R) := map (vmul v) M.
Definition mmean1 (M : list (list R)) : list R := map vmean M.        (* np.mean(M, axis=1) *)

(* a vector of functions of one real parameter, evaluated at t *)
Definition at_ (fs : list (R -> R)) (t : R) : list R := map (fun f => f t) fs.

Lemma at_length fs t : length (at_ fs t) = length fs.
Proof. unfold at_. apply map_length. Qed.

Lemma vsum_derive (fs : list (R -> R)) (ds : list R) t0 :
  Forall2 (fun f d => is_derive f t0 d) fs ds ->
  is_derive (fun t => vsum (at_ fs t)) t0 (vsum ds).
Proof.
  induction 1 as [|f d fs ds Hf Hfs IH]; simpl.
  - apply (is_derive_const (V := R_NormedModule) 0 t0).
  - apply (is_derive_plus (V := R_NormedModule) f (fun t => vsum (at_ fs t)) t0 d (vsum ds)); auto.
Qed.

Lemma vsum_scale s l : vsum (vscale s l) = s * vsum l.
Proof. induction l as [|x l IH]; simpl; [lra|]. rewrite IH. lra. Qed.

#!/usr/bin/env python3
"""Regression over the seeded changes kept in /verif/seeded: apply each patch to /repo, run the quick check(s) of its property,
expect a VIOLATION (exit 1), undo the patch.  Usage: tools/run_seeds.py [name-prefix ...]"""
import json
import os
import subprocess
import sys

VERIF = os.path.dirname(os.path.dirname(os.path.abspath(__file__)))
REPO = "/repo"


def sh(cmd, **kw):
    return subprocess.run(cmd, stdout=subprocess.PIPE, stderr=subprocess.STDOUT, text=True, **kw)


def main():
    want = sys.argv[1:]
    rows = []
    dirty = sh(["git", "-C", REPO, "status", "--porcelain", "--untracked-files=no"]).stdout.strip()
    if dirty:
        print("refusing: /repo has local changes\n" + dirty)
        return 2
    for name in sorted(os.listdir(os.path.join(VERIF, "seeded"))):
        d = os.path.join(VERIF, "seeded", name)
        if want and not any(name.startswith(w) for w in want):
            continue
        patch = os.path.join(d, "patch.diff")
        if not os.path.exists(patch):
            continue
        pid = name.split("-")[0]
        meta = {}
        try:
            meta = json.load(open(os.path.join(d, "meta.json")))
        except Exception:  # noqa
            pass
        pids = meta.get("caught_by") or [meta.get("property", pid)[:3]]
        r = sh(["git", "-C", REPO, "apply", patch])
        if r.returncode != 0:
            rows.append((name, "NO-APPLY", "patch does not apply to the current tree"))
            print("%-45s %-8s %s" % rows[-1], flush=True)
            continue
        try:
            res = []
            for p in pids:
                c = sh([os.path.join(VERIF, "check"), p], cwd=VERIF)
                line = [l for l in c.stdout.splitlines() if l.startswith("VIOLATION")]
                res.append("%s rc=%d %s" % (p, c.returncode, "no-input" if line and line[0].endswith("no-failing-input-found") else
                                            ("input" if line else "")))
            caught = any(" rc=1 " in x + " " for x in res)
            rows.append((name, "CAUGHT" if caught else "MISSED", "; ".join(res)))
        finally:
            sh(["git", "-C", REPO, "checkout", "--", "."])
        print("%-45s %-8s %s" % rows[-1], flush=True)
    missed = [r for r in rows if r[1] != "CAUGHT"]
    print("%d seeds, %d caught, %d not" % (len(rows), len(rows) - len(missed), len(missed)))
    return 1 if missed else 0


if __name__ == "__main__":
    sys.exit(main())

"""tools/try_seed.py <seed_out_dir> <name> [check ids...]: confirm a seeded change (demo fails with it, passes without,
baseline suite unaffected), run our checks against it, record everything under seeded/<name>/.  /repo is restored afterwards."""
import json, os, shutil, subprocess, sys
src, name = sys.argv[1], sys.argv[2]
VERIF = os.path.dirname(os.path.dirname(os.path.abspath(__file__)))
meta = json.load(open(os.path.join(src, "meta.json")))
pids = sys.argv[3:] or [meta["property"]]
dst = os.path.join(VERIF, "seeded", name)
os.makedirs(dst, exist_ok=True)
for f in ("patch.diff", "demo.py"):
    shutil.copy(os.path.join(src, f), os.path.join(dst, f))
def run(cmd, **kw):
    p = subprocess.run(cmd, shell=True, stdout=subprocess.PIPE, stderr=subprocess.STDOUT, text=True, **kw)
    return p.returncode, "\n".join(l for l in p.stdout.splitlines() if "conda" not in l)
env = "PYTHONPATH=/repo PYTHONHASHSEED=0"
rc0, out0 = run("%s /venv/bin/python %s/demo.py" % (env, dst))
assert subprocess.run("git -C /repo diff --quiet", shell=True).returncode == 0, "/repo dirty"
rca, outa = run("git -C /repo apply %s/patch.diff" % dst)
results = {}
try:
    assert rca == 0, outa
    rc1, out1 = run("%s /venv/bin/python %s/demo.py" % (env, dst))
    rcb, outb = run("/venv/bin/python %s/tools/baseline.py" % VERIF)
    for pid in pids:
        rc, out = run("cd %s && ./check %s --tier quick" % (VERIF, pid))
        results[pid] = dict(rc=rc, tail=out.splitlines()[-6:])
finally:
    run("git -C /repo checkout -- .")
meta.update(dict(confirmed=dict(demo_clean_rc=rc0, demo_patched_rc=rc1, demo_patched_tail=out1.splitlines()[-3:],
                                baseline_with_patch=outb.splitlines()[0] if outb else "", baseline_rc=rcb),
                 our_checks=results,
                 ran=["demo.py on clean /repo", "git apply patch.diff", "demo.py patched", "tools/baseline.py patched",
                      "./check <pid> --tier quick patched", "git checkout -- ."]))
json.dump(meta, open(os.path.join(dst, "meta.json"), "w"), indent=1)
print(json.dumps(dict(confirmed=meta["confirmed"], our_checks=results), indent=1))
